import GrinVerif.Lemmas.PoolFee
/-! C14 — the transaction pool always holds a jointly valid, fee-paying, mineable set.

Model: `GrinVerif/Model/Pool.lean` (pool/src/pool.rs, pool/src/transaction_pool.rs).
Specification: `GV.Pool.JointlyValid` — applying all transactions together to the unspent set of
the head yields a set again (every spend is covered by a distinct existing or created instance,
no commitment ends up twice) and every transaction conserves value.  Histories: `GV.Pool.Op`,
`step`, `run` — submissions (stem / fluff, any transaction), new heads with `reconcile_block`
(any new unspent set: next block or reorg), `reconcile_reorg_cache`, evictions, cache truncation.

What is proved, and what is not (eviction, reorg to a lower height) is
stated explicitly below, each with a kernel-checked witness.  A fourth defect found by this check
(the mineable set failed to assemble when a commitment is re-created inside the pool) is repaired
in the code; the model follows the repair and `mineable_set_total` states it.

Sections: soundness of the aggregate check; `pool_inv` (histories without eviction); eviction
(what it breaks); admission; inputs of pooled transactions across evictions at capacity
(`admitted_inputs_available`, `child_of_evicted_refused`, `admission_at_capacity` — all
histories); which transaction `evict_transaction` removes (`evicted_is_leaf_when_…`, tree witnesses);
weight limit and submission form (`overweight_never_admitted`,
`form_independent_admission`); the mineable set. -/
namespace GV.Props.C14
open GV.Pool

/-! ## the check the pool performs is sound for the specification -/

/-- `Pool::add_to_pool` / `validate_raw_txs` accept a list of transactions when its aggregate
(cut-through applied) validates against the head.  Whatever passes is `NetOK`: the counting core
of `JointlyValid`. -/
theorem aggregate_check_sound {c : Ctx} {w : Weighting} {txs : List Tx} {a : Tx}
    (ha : aggregate txs = .ok a) (hv : validateRawTx c w a = none) : NetOK (utxoIds c) txs :=
  netOK_of_aggregate ha hv

/-- With fresh output ids (no commitment created twice, none equal to an unspent one) `NetOK`
is the plain-language statement: no output is spent twice, and every input is unspent at the head
or created by another transaction of the list. -/
theorem netOK_plain_reading {utxo : List Nat} {txs : List Tx} (h : NetOK utxo txs)
    (fresh : (allOuts txs).Nodup ∧ ∀ o ∈ allOuts txs, o ∉ utxo) :
    (allIns txs).Nodup ∧ ∀ i ∈ allIns txs, i ∈ utxo ∨ i ∈ allOuts txs :=
  netOK_plain h fresh

/-- the executable oracle used by the driver decides the specification -/
theorem oracle_decides_spec (outs : List GV.Chain.OutDef) (utxo : List Nat) (txs : List Tx) :
    jointlyValidB outs utxo txs = true ↔ JointlyValid outs utxo txs :=
  jointlyValidB_iff outs utxo txs

/-! ## `pool_inv` -/

/-- The invariant implies the property: the txpool is jointly valid against the head, and the
stempool together with the txpool likewise. -/
theorem inv_gives_property {c : Ctx} {s : TxPool} (h : Inv c s) :
    JointlyValid c.outs (utxoIds c) s.txpool.txs ∧
    JointlyValid c.outs (utxoIds c) (s.stempool.txs ++ s.txpool.txs) :=
  inv_jointlyValid h

/-- one operation — a submission of ANY transaction (stem or fluff, relay accepting or not) while
the txpool is not over `max_pool_size`, a new head with ANY unspent set and block content
(`reconcile_block`), `reconcile_reorg_cache`, truncation — preserves the invariant -/
theorem pool_inv_step (cs : Ctx × TxPool) (op : Op) (hInv : Inv cs.1 cs.2) (hne : ¬ evicts cs op) :
    Inv (step cs op).1 (step cs op).2 :=
  step_inv cs op hInv hne

/-- **pool_inv**: after any history of pool operations in which no eviction is triggered, starting
from the empty pool (or any state satisfying the invariant), the txpool and stempool ∪ txpool are
jointly valid against the current head. -/
theorem pool_inv (cs : Ctx × TxPool) (ops : List Op) (hInv : Inv cs.1 cs.2) (hne : NoEvict cs ops) :
    JointlyValid (run cs ops).1.outs (utxoIds (run cs ops).1) (run cs ops).2.txpool.txs ∧
    JointlyValid (run cs ops).1.outs (utxoIds (run cs ops).1)
      ((run cs ops).2.stempool.txs ++ (run cs ops).2.txpool.txs) :=
  inv_jointlyValid (run_inv cs ops hInv hne)

theorem pool_inv_from_empty (c : Ctx) (ops : List Op) (hne : NoEvict (c, {}) ops) :
    JointlyValid (run (c, {}) ops).1.outs (utxoIds (run (c, {}) ops).1) (run (c, {}) ops).2.txpool.txs ∧
    JointlyValid (run (c, {}) ops).1.outs (utxoIds (run (c, {}) ops).1)
      ((run (c, {}) ops).2.stempool.txs ++ (run (c, {}) ops).2.txpool.txs) :=
  pool_inv (c, {}) ops (inv_empty c) hne

/-- Whatever happened before — evictions included — every entry of the txpool, the stempool and
the reorg cache passed standalone validation (`Transaction::validate(AsTransaction)`: weight
limit, signatures, range proofs, kernel sums): no history admits an invalid or over-weight
transaction. -/
theorem entries_always_valid (c : Ctx) (ops : List Op) :
    AllValid (run (c, {}) ops).1 (run (c, {}) ops).2 :=
  run_allValid (c, {}) ops (fun e he => by simp at he)

/-- …and therefore the next block (or reorg) re-establishes the invariant after ANY history,
evictions included: `reconcile_block` re-validates everything against the new head. -/
theorem pool_recovers_at_next_block (c : Ctx) (ops : List Op) (head : GV.Chain.UState) (ver : Nat)
    (ins kers : List Nat) :
    Inv (run (c, {}) (ops ++ [.block head ver ins kers])).1 (run (c, {}) (ops ++ [.block head ver ins kers])).2 := by
  simp only [run, List.foldl_append, List.foldl_cons, List.foldl_nil]
  exact reconcileBlock_inv ins kers (allValid_indep_head head ver (entries_always_valid c ops))

/-! ## eviction -/

/-- **Eviction** with the hypothesis the proof forces: removing transaction `t` keeps the pool
jointly valid provided no remaining transaction spends an output of `t` and none re-creates an
input of `t`.  `bucket_transactions` does NOT guarantee this (next theorems). -/
theorem evict_preserves {c : Ctx} {p : Pool} {t : Tx}
    (h : JointlyValid c.outs (utxoIds c) p.txs) (hself : ∀ o ∈ t.outs, o ∉ t.ins)
    (hout : ∀ o ∈ t.outs, o ∉ allIns (Pool.txs (p.filter (fun e => e.tx != t))))
    (hin : ∀ i ∈ t.ins, i ∉ allOuts (Pool.txs (p.filter (fun e => e.tx != t)))) :
    JointlyValid c.outs (utxoIds c) (Pool.txs (p.filter (fun e => e.tx != t))) := by
  rw [jointlyValid_iff] at h ⊢
  rw [txs_filter] at hout hin ⊢
  refine ⟨netOK_filter_ne h.1 hself hout hin, ?_⟩
  intro x hx
  exact h.2 x (List.mem_filter.mp hx).1

/-! ### witness 1 (DESIGN §9 item 7): a child with parents in two buckets -/

def od (id v : Nat) : GV.Chain.OutDef := { id, cb := false, v }
def pk (id fee : Nat) : PKer := { kid := id, ker := .plain fee }

/-- head: outputs 1, 2, 3 unspent (1000 each); `max_pool_size = 2`, fee base 1 -/
def wc : Ctx where
  cfg := { maxPool := 2, feeBase := 1 }
  outs := [od 1 1000, od 2 1000, od 3 1000, od 11 900, od 12 975, od 13 1775, od 14 900]
  head := { utxo := [(1, 0, false), (2, 0, false), (3, 0, false)], nrd := [], height := 5 }
  ver := 3

/-- A: fee rate 4 -/ def wA : Tx := { ins := [1], outs := [11], kers := [pk 1 100] }
/-- B: fee rate 1 -/ def wB : Tx := { ins := [2], outs := [12], kers := [pk 2 25] }
/-- C spends an output of A and one of B -/ def wC : Tx := { ins := [11, 12], outs := [13], kers := [pk 3 100] }
def wD : Tx := { ins := [3], outs := [14], kers := [pk 4 100] }
def wOps : List Op :=
  [.submit .broadcast wA false true, .submit .broadcast wB false true, .submit .broadcast wC false true]

/-- non-vacuity of `evict_preserves`: evicting D from [A, D] (independent transactions) -/
example : JointlyValid wc.outs (utxoIds wc)
    (Pool.txs (([⟨wA, .broadcast⟩, ⟨wD, .broadcast⟩] : Pool).filter (fun e => e.tx != wD))) :=
  evict_preserves (c := wc) (p := [⟨wA, .broadcast⟩, ⟨wD, .broadcast⟩]) (t := wD)
    ((jointlyValidB_iff _ _ _).mp (by decide)) (by decide) (by decide) (by decide)

/-- the three submissions evict nothing, so the invariant holds before the fourth -/
theorem witness1_before : Inv (run (wc, {}) wOps).1 (run (wc, {}) wOps).2 :=
  run_inv (wc, {}) wOps (inv_empty wc) (by decide)

/-- **the invariant is NOT preserved by eviction**: the pool now holds 3 > `max_pool_size`
entries, so admitting D evicts; `bucket_transactions` skipped C (two parents), the last bucket is
B's, B is evicted, and the txpool [A, C, D] holds C whose input 12 is neither unspent nor created
in the pool. -/
theorem evict_breaks_pool_inv :
    (step (run (wc, {}) wOps) (.submit .broadcast wD false true)).2.txpool.txs = [wA, wC, wD] ∧
    ¬ JointlyValid wc.outs (utxoIds wc) (step (run (wc, {}) wOps) (.submit .broadcast wD false true)).2.txpool.txs := by
  constructor
  · decide
  · rw [← jointlyValidB_iff]; decide

/-! ### witness 2: no multi-parent transaction needed

A child put in its own bucket (it would lower the fee rate) still registers its outputs under its
*parent's* bucket position, so a grandchild is aggregated into the parent's bucket and the child
— on which the grandchild depends — is the last transaction of the last bucket. -/

def vc : Ctx where
  cfg := { maxPool := 50, feeBase := 1 }
  outs := [od 1 10000, od 11 9000, od 12 8975, od 13 6975]
  head := { utxo := [(1, 0, false)], nrd := [], height := 5 }
  ver := 3
/-- fee rate 40 -/ def vA : Tx := { ins := [1], outs := [11], kers := [pk 1 1000] }
/-- child of A, fee rate 1 -/ def vB : Tx := { ins := [11], outs := [12], kers := [pk 2 25] }
/-- child of B, fee rate 80 -/ def vC : Tx := { ins := [12], outs := [13], kers := [pk 3 2000] }
def vOps : List Op :=
  [.submit .broadcast vA false true, .submit .broadcast vB false true, .submit .broadcast vC false true]

theorem evict_breaks_single_parent_chain :
    Inv (run (vc, {}) vOps).1 (run (vc, {}) vOps).2 ∧
    (step (run (vc, {}) vOps) .evict).2.txpool.txs = [vA, vC] ∧
    ¬ JointlyValid vc.outs (utxoIds vc) (step (run (vc, {}) vOps) .evict).2.txpool.txs := by
  refine ⟨run_inv (vc, {}) vOps (inv_empty vc) (by decide), by decide, ?_⟩
  rw [← jointlyValidB_iff]; decide

/-! ## admission -/

/-- the submitted transaction itself is what the pool considers when it has at most one kernel
(no deaggregation) -/
theorem entryOf_single {s : TxPool} {src : Src} {tx : Tx} (hk : tx.kers.length ≤ 1) (st : Bool) :
    entryOf s src tx st = .ok { tx, src } := by
  unfold entryOf TxPool.deaggregateTx
  have : ¬ (tx.kers.length > 1) := by omega
  cases st <;> simp [this]

/-- **fee below the minimum for the weight** (`shifted_fee < weight × accept_fee_base`): refused
and the pool is unchanged — in EVERY fill state: `is_acceptable` checks the fee before the
capacity (3aef11dd9; before, an under-paying transaction was admitted while the txpool was over
`max_pool_size`: finding C14-low-fee-admitted-over-capacity, fixed).  (`entryOf`: the transaction
itself for stem, its deaggregated form for fluff; both stem values because a stem transaction
already in the stempool is re-submitted as fluff.) -/
theorem admission_low_fee {c : Ctx} {s : TxPool} (src : Src) (tx : Tx) (stem stemOk : Bool)
    (hfee : ∀ st e, entryOf s src tx st = .ok e → e.tx.shiftedFee < e.tx.acceptFee c.cfg) :
    ∃ er, s.addToPool c src tx stem stemOk = (s, some er) := by
  unfold TxPool.addToPool
  split
  · exact addCore_refuses_low_fee src tx false stemOk (hfee false)
  · exact addCore_refuses_low_fee src tx stem stemOk (hfee stem)

/-- **fees_always_paid** — the minimum-fee clause at full strength: after ANY history
(submissions on both paths, admissions at capacity with the eviction that follows, explicit
evictions, blocks and reorgs with any unspent set, reorg-cache replays, truncations) every entry
of the txpool, of the stempool AND of the reorg cache pays at least the minimum fee for its
weight: `accept_fee = weight × accept_fee_base ≤ shifted_fee`. -/
theorem fees_always_paid (c : Ctx) (ops : List Op) :
    ∀ e, (e ∈ (run (c, {}) ops).2.txpool ∨ e ∈ (run (c, {}) ops).2.stempool ∨ e ∈ (run (c, {}) ops).2.cache) →
      e.tx.weight * c.cfg.feeBase ≤ e.tx.shiftedFee := by
  intro e he
  have h := run_allPaid (c, {}) ops (fun e he => by simp at he) e he
  unfold Paid Tx.acceptFee at h
  rw [run_cfg] at h
  exact h

/-- one operation keeps it, from any state in which it holds (the invariant behind
`fees_always_paid`) -/
theorem fees_paid_step (cs : Ctx × TxPool) (op : Op) (h : AllPaid cs.1 cs.2) :
    AllPaid (step cs op).1 (step cs op).2 :=
  step_allPaid cs op h

/-- standalone-invalid transactions (bad signature, range proof, kernel sum, duplicate or
cut-through violating body, coinbase kernel, over the weight limit) are refused and the pool is
unchanged, whatever its fill state -/
theorem admission_invalid {c : Ctx} {s : TxPool} (src : Src) (tx : Tx) (stem stemOk : Bool)
    (hbad : ∀ st e, entryOf s src tx st = .ok e → e.tx.validate c .asTransaction ≠ none) :
    ∃ er, s.addToPool c src tx stem stemOk = (s, some er) := by
  unfold TxPool.addToPool
  split
  · exact addCore_refuses_invalid src tx false stemOk (hbad false)
  · exact addCore_refuses_invalid src tx stem stemOk (hbad stem)

/-- over the transaction weight limit ⇒ standalone invalid (`TooHeavy`) -/
theorem admission_over_weight {c : Ctx} {s : TxPool} (src : Src) (tx : Tx) (stem stemOk : Bool)
    (hw : ∀ st e, entryOf s src tx st = .ok e → e.tx.weight > c.cfg.maxTxW) :
    ∃ er, s.addToPool c src tx stem stemOk = (s, some er) :=
  admission_invalid src tx stem stemOk (fun st e he => validate_too_heavy (hw st e he))

/-- non-vacuity of the admission theorems: below capacity, a transaction paying 24 for weight 25,
one with a signature fault and one over the weight limit are refused with the expected errors -/
def lowTx : Tx := { ins := [3], outs := [14], kers := [pk 4 24] }
def badSigTx : Tx := { wD with tags := ["sig"] }
def heavyTx : Tx := { ins := [3], outs := List.range 11, kers := [pk 4 5000] }
example : (({} : TxPool).addToPool wc .broadcast lowTx false true).2 = some "LowFee" := by decide
example : (({} : TxPool).addToPool wc .broadcast badSigTx true true).2 = some "InvalidTx:IncorrectSignature" := by decide
example : (({} : TxPool).addToPool wc .broadcast heavyTx false true).2 = some "InvalidTx:TooHeavy" := by decide
example : (({} : TxPool).addToPool wc .broadcast wD false true).2 = none := by decide

/-- the history that used to break the fee clause (`max_pool_size = 1`, A and B pooled: the
txpool is over capacity; a child of both paying fee 1 for weight 26): it is refused with `LowFee`
on both paths, the pool and the reorg cache are unchanged.  A well-paying transaction is still
admitted in that state (and something is evicted). -/
def lc : Ctx := { wc with cfg := { maxPool := 1, feeBase := 1 }, outs := wc.outs ++ [od 15 1874] }
def lowChild : Tx := { ins := [11, 12], outs := [15], kers := [pk 5 1] }
def lOps : List Op := [.submit .broadcast wA false true, .submit .broadcast wB false true]

theorem low_fee_refused_over_capacity :
    (run (lc, {}) lOps).2.txpool.length > lc.cfg.maxPool ∧
    lowChild.shiftedFee < lowChild.acceptFee lc.cfg ∧
    (run (lc, {}) lOps).2.addToPool lc .broadcast lowChild false true = ((run (lc, {}) lOps).2, some "LowFee") ∧
    (run (lc, {}) lOps).2.addToPool lc .pushApi lowChild true true = ((run (lc, {}) lOps).2, some "LowFee") ∧
    ((run (lc, {}) lOps).2.addToPool lc .broadcast wD false true).2 = none := by
  decide

/-- non-vacuity of `admission_low_fee` in that over-capacity state -/
example : ∃ er, (run (lc, {}) lOps).2.addToPool lc .broadcast lowChild false true = ((run (lc, {}) lOps).2, some er) :=
  admission_low_fee .broadcast lowChild false true (fun st e he => by
    rw [entryOf_single (by decide) st] at he
    simp only [Except.ok.injEq] at he
    subst he
    decide)

/-! ## inputs of pooled transactions across evictions at capacity

`pool_inv` covers histories without eviction.  The theorems of this section hold for ALL
histories.  They say where exactly an eviction can leave an input without a source (the recorded
finding C14-evict-breaks-joint-validity: a child that is ALREADY in the pool when its parent is
evicted), and that nothing else can: a transaction submitted AFTER the eviction that spends an
output of the evicted transaction is refused, on the fluff and on the stem path, and any
admission without eviction re-validates the whole txpool. -/

/-- the list the driver prints (`av=` / `avs=`) and compares with the real pool is empty exactly
when every input is available -/
theorem orphans_decides_avail (utxo : List Nat) (txs : List Tx) : orphans utxo txs = [] ↔ Avail utxo txs :=
  orphans_nil_iff utxo txs

/-- joint validity implies that every input is unspent at the head or created in the list -/
theorem jointlyValid_avail {outs : List GV.Chain.OutDef} {utxo : List Nat} {txs : List Tx}
    (h : JointlyValid outs utxo txs) : Avail utxo txs :=
  avail_of_netOK ((jointlyValid_iff outs utxo txs).mp h).1

/-- **a transaction with an input that exists nowhere is refused and the pool is unchanged** —
from ANY state, whatever happened before.  `entryOf`: the transaction itself (stem) or its
deaggregated form (fluff).  Fluff: the input is neither unspent at the head nor created in the
txpool; stem: nor created in the stempool. -/
theorem missing_input_refused {c : Ctx} {s : TxPool} (src : Src) (tx : Tx) (stem stemOk : Bool)
    (hmiss : ∀ st e, entryOf s src tx st = .ok e → ∃ i ∈ e.tx.ins, i ∉ utxoIds c ∧
      i ∉ allOuts s.txpool.txs ∧ (st = true → i ∉ allOuts s.stempool.txs)) :
    ∃ er, s.addToPool c src tx stem stemOk = (s, some er) := by
  unfold TxPool.addToPool
  split
  · exact addCore_refuses_missing_input src tx false stemOk (hmiss false)
  · exact addCore_refuses_missing_input src tx stem stemOk (hmiss stem)

/-- **a child of an evicted transaction, submitted after the eviction, is refused**: `i` is an
output of a transaction that is no longer in the pool (so it is created nowhere) and never
reached the chain.  Both paths, any fee, any source, any later state of the history (`s` is
arbitrary; instantiate it with `(run (c, {}) ops).2`). -/
theorem child_of_evicted_refused {c : Ctx} {s : TxPool} (src : Src) (tx : Tx) (stem stemOk : Bool)
    (hk : tx.kers.length ≤ 1) {i : Nat} (hi : i ∈ tx.ins) (hu : i ∉ utxoIds c)
    (htp : i ∉ allOuts s.txpool.txs) (hsp : i ∉ allOuts s.stempool.txs) :
    ∃ er, s.addToPool c src tx stem stemOk = (s, some er) := by
  apply missing_input_refused
  intro st e he
  rw [entryOf_single hk st] at he
  simp only [Except.ok.injEq] at he
  subst he
  exact ⟨i, hi, hu, htp, fun _ => hsp⟩

/-- **any admission without eviction validates the whole txpool**: if a submission is admitted
while the txpool is not over `max_pool_size` and the transaction went to the txpool (fluff, or a
stem transaction the relay did not take), then — whatever the state was before — every input of
every txpool transaction, and of every stempool transaction, is available. -/
theorem admission_validates_pool {c : Ctx} {s s' : TxPool} (src : Src) (tx : Tx) (stemOk : Bool)
    (hcap : s.txpool.length ≤ c.cfg.maxPool) (h : s.addToPool c src tx false stemOk = (s', none)) :
    Avail (utxoIds c) s'.txpool.txs ∧ Avail (utxoIds c) (s'.stempool.txs ++ s'.txpool.txs) := by
  obtain ⟨stem', hst, hout⟩ := addToPool_outcome c s src tx false stemOk
  have hs := hst rfl
  subst hs
  rw [h] at hout
  cases hout with
  | refused er he => simp at he
  | stemmed hs _ _ _ => simp at hs
  | added _ _ h1 h2 => exact ⟨avail_of_txpoolOK h1, avail_of_netOK h2⟩
  | evicted p _ _ hc _ _ _ => omega

/-- **an eviction orphans only children of the evicted transaction**: `Pool::evict_transaction`
applied to a pool all of whose inputs are available leaves without a source only inputs that are
outputs of the evicted transaction `E`; the transactions concerned were in the pool when `E` was
evicted. -/
theorem evict_orphans_only_children {c : Ctx} {utxo : List Nat} {p : Pool} (h : Avail utxo p.txs) :
    ∀ t ∈ (p.evict c).txs, t ∈ p.txs ∧ ∀ i ∈ t.ins, i ∈ utxo ∨ i ∈ allOuts (p.evict c).txs ∨
      ∃ E, p.evictee c = some E ∧ E ∉ (p.evict c).txs ∧ i ∈ E.outs :=
  evict_orphans h

/-- **an admission at capacity** (`TransactionPool::add_to_pool` returning `Ok` while the txpool
holds more than `max_pool_size` entries): the txpool `p` with the new entry was validated as a
whole, then one transaction `E` was evicted from it; from ANY previous state, the only inputs
without a source afterwards are outputs of `E`, in transactions that were in `p` — the children
of `E` already pooled when `E` was evicted (the recorded finding).  The stempool is not touched. -/
theorem admission_at_capacity {c : Ctx} {s s' : TxPool} (src : Src) (tx : Tx) (stem stemOk : Bool)
    (hcap : s.txpool.length > c.cfg.maxPool) (h : s.addToPool c src tx stem stemOk = (s', none)) :
    ∃ p : Pool, Avail (utxoIds c) p.txs ∧ s'.txpool = p.evict c ∧
      ∀ t ∈ s'.txpool.txs, t ∈ p.txs ∧ ∀ i ∈ t.ins, i ∈ utxoIds c ∨ i ∈ allOuts s'.txpool.txs ∨
        ∃ E, p.evictee c = some E ∧ E ∉ s'.txpool.txs ∧ i ∈ E.outs := by
  obtain ⟨stem', _, hout⟩ := addToPool_outcome c s src tx stem stemOk
  rw [h] at hout
  cases hout with
  | refused er he => simp at he
  | stemmed _ hc _ _ => omega
  | added _ hc _ _ => omega
  | evicted p _ _ _ h1 h2 h3 =>
    refine ⟨p, avail_of_txpoolOK h1, h2, ?_⟩
    simp only at h2
    rw [h2]
    exact evict_orphans (avail_of_txpoolOK h1)

/-- **admitted_inputs_available** — for ALL histories (submissions of any transactions on both
paths, blocks and reorgs with any unspent sets, reorg-cache replays, evictions explicit and at
capacity, truncations), starting from the empty pool: every input of every transaction in the
txpool is unspent on the head or created by a txpool transaction, and every input of every
stempool transaction is unspent or created in stempool ∪ txpool — EXCEPT for transactions in
`staleRun`, the ghost list defined in `Lemmas/PoolAvail.lean`: the transactions that were in the
pool right after the most recent eviction since the last block.  So a transaction admitted after
the last eviction never has an unavailable input (and by `child_of_evicted_refused` a child of
the evicted transaction is not admitted at all); which inputs of the stale transactions can be
unavailable is `admission_at_capacity` / `evict_orphans_only_children`: outputs of the evicted
transaction only. -/
theorem admitted_inputs_available (c : Ctx) (ops : List Op) :
    (∀ t ∈ (run (c, {}) ops).2.txpool.txs, t ∈ staleRun (c, {}) [] ops ∨
      ∀ i ∈ t.ins, i ∈ utxoIds (run (c, {}) ops).1 ∨ i ∈ allOuts (run (c, {}) ops).2.txpool.txs) ∧
    (∀ t ∈ (run (c, {}) ops).2.stempool.txs ++ (run (c, {}) ops).2.txpool.txs,
      t ∈ staleRun (c, {}) [] ops ∨
      ∀ i ∈ t.ins, i ∈ utxoIds (run (c, {}) ops).1 ∨
        i ∈ allOuts ((run (c, {}) ops).2.stempool.txs ++ (run (c, {}) ops).2.txpool.txs)) :=
  ⟨(run_avInv (c, {}) [] ops (avInv_empty c)).tx, (run_avInv (c, {}) [] ops (avInv_empty c)).both⟩

/-- what the ghost list is: empty as long as nothing was evicted … -/
theorem stale_empty_without_eviction (c : Ctx) (ops : List Op) (hne : NoEvict (c, {}) ops) :
    staleRun (c, {}) [] ops = [] :=
  staleRun_noEvict (c, {}) ops hne

theorem staleRun_append (cs : Ctx × TxPool) (old : List Tx) (ops ops' : List Op) :
    staleRun cs old (ops ++ ops') = staleRun (run cs ops) (staleRun cs old ops) ops' := by
  induction ops generalizing cs old with
  | nil => rfl
  | cons op rest ih => simp only [List.cons_append, staleRun, run, List.foldl_cons]; exact ih _ _

/-- … emptied by every block (or reorg), whatever happened before … -/
theorem stale_empty_after_block (c : Ctx) (ops : List Op) (head : GV.Chain.UState) (ver : Nat)
    (ins kers : List Nat) : staleRun (c, {}) [] (ops ++ [.block head ver ins kers]) = [] := by
  rw [staleRun_append]; rfl

/-- … and left alone by every operation that does not evict: a submission that is refused, or
admitted while the txpool is not over `max_pool_size`, a reorg-cache replay, a truncation. -/
theorem stale_unchanged (cs : Ctx × TxPool) (old : List Tx) (op : Op) (hne : ¬ evicts cs op)
    (hb : ∀ head ver ins kers, op ≠ .block head ver ins kers) : staleStep cs old op = old := by
  cases op with
  | submit src tx stem ok =>
    have : ¬ (cs.2.txpool.length > cs.1.cfg.maxPool) := hne
    simp [staleStep, this]
  | block head ver ins kers => exact absurd rfl (hb head ver ins kers)
  | evict => exact absurd trivial hne
  | reorgCache => rfl
  | truncate n => rfl

/-- corollary: in a history whose operations after the last block evict nothing, every input is
available — in particular right after every block -/
theorem inputs_available_after_block (c : Ctx) (ops : List Op) (head : GV.Chain.UState) (ver : Nat)
    (ins kers : List Nat) :
    Avail (utxoIds (run (c, {}) (ops ++ [.block head ver ins kers])).1)
      (run (c, {}) (ops ++ [.block head ver ins kers])).2.txpool.txs := by
  intro t ht
  have h := (admitted_inputs_available c (ops ++ [.block head ver ins kers])).1 t ht
  rw [stale_empty_after_block] at h
  rcases h with h | h
  · simp at h
  · exact h

/-! ### witness: a child submitted after the eviction (`max_pool_size = 1`)

A (fee rate 4) and B (fee rate 1, two outputs) fill the pool beyond capacity; admitting D evicts
B.  A transaction spending B's output 12 — paying far more than anything in the pool, so it would
not be the next eviction victim — is then refused on the fluff path (its input exists nowhere:
`Other`, the error of `validate_inputs`) and on the stem path (`OverCapacity`: after an eviction
at capacity the txpool still holds `max_pool_size + 1` entries, and `is_acceptable` refuses every
stem transaction in that state before anything else is looked at); after one more (explicit)
eviction the txpool is back at `max_pool_size` and the stem path refuses the child for its
missing input too.  The pool stays jointly valid throughout, and the same child is admitted when
its parent is in the pool. -/
def ec : Ctx where
  cfg := { maxPool := 1, feeBase := 1 }
  outs := [od 1 1000, od 2 1000, od 3 1000, od 11 900, od 12 500, od 15 454, od 14 900, od 16 100]
  head := { utxo := [(1, 0, false), (2, 0, false), (3, 0, false)], nrd := [], height := 5 }
  ver := 3
/-- fee rate 1, two outputs -/ def eB : Tx := { ins := [2], outs := [12, 15], kers := [pk 2 46] }
/-- child of B, fee rate 16 -/ def eChild : Tx := { ins := [12], outs := [16], kers := [pk 6 400] }
def eOps : List Op :=
  [.submit .broadcast wA false true, .submit .broadcast eB false true, .submit .broadcast wD false true]

theorem child_after_eviction_witness :
    (run (ec, {}) eOps).2.txpool.txs = [wA, wD] ∧
    ((run (ec, {}) eOps).2.addToPool ec .broadcast eChild false true).2 = some "Other" ∧
    ((run (ec, {}) eOps).2.addToPool ec .pushApi eChild true true).2 = some "OverCapacity" ∧
    (run (ec, {}) (eOps ++ [.evict])).2.txpool.txs = [wA] ∧
    ((run (ec, {}) (eOps ++ [.evict])).2.addToPool ec .pushApi eChild true true).2 = some "Other" ∧
    ((run (ec, {}) (eOps ++ [.evict])).2.addToPool ec .pushApi eChild false true).2 = some "Other" ∧
    orphans (utxoIds ec) (run (ec, {}) eOps).2.txpool.txs = [] ∧
    jointlyValidB ec.outs (utxoIds ec) (run (ec, {}) eOps).2.txpool.txs = true ∧
    -- with its parent in the pool (before the eviction) the same child is admitted
    ((run (ec, {}) (eOps.take 2)).2.addToPool ec .broadcast eChild false true).2 = none := by
  decide

/-- non-vacuity of `child_of_evicted_refused` on that state -/
example : ∃ er, (run (ec, {}) eOps).2.addToPool ec .broadcast eChild true true = ((run (ec, {}) eOps).2, some er) :=
  child_of_evicted_refused (c := ec) .broadcast eChild true true (by decide) (i := 12) (by decide) (by decide)
    (by decide) (by decide)

/-- non-vacuity of `admission_at_capacity`: the third submission of the witness evicts -/
example : ∃ p : Pool, Avail (utxoIds ec) p.txs ∧ (run (ec, {}) eOps).2.txpool = p.evict ec :=
  let ⟨p, h1, h2, _⟩ := admission_at_capacity (c := ec) (s := (run (ec, {}) (eOps.take 2)).2)
    (s' := (run (ec, {}) eOps).2) .broadcast wD false true (by decide) (by decide)
  ⟨p, h1, h2⟩

/-- non-vacuity of `admitted_inputs_available`: in witness 1 (the recorded finding) the ghost list
is exactly the pool after the eviction and C — pooled BEFORE its parent B was evicted — is the
transaction with the unavailable input; in the new witness nothing has an unavailable input. -/
example : staleRun (wc, {}) [] (wOps ++ [.submit .broadcast wD false true]) = [wA, wC, wD] ∧
    orphans (utxoIds wc) (run (wc, {}) (wOps ++ [.submit .broadcast wD false true])).2.txpool.txs = [(wC, 12)] := by
  decide

/-- non-vacuity of `admission_validates_pool` -/
example : Avail (utxoIds wc) (run (wc, {}) (wOps.take 2)).2.txpool.txs :=
  (admission_validates_pool (c := wc) (s := (run (wc, {}) (wOps.take 1)).2) .broadcast wB true (by decide)
    (show _ = ((run (wc, {}) (wOps.take 2)).2, none) by decide)).1

/-! ## which transaction `evict_transaction` removes

`bucket_transactions` (pool/src/pool.rs) walks the entries in insertion order; `stepKind` names
the branch each one takes: `fresh` (no pooled parent: own bucket), `merged` (one parent bucket and
the aggregate with it - cut-through applied - pays at least the bucket's rate: joins it), `own`
(would lower the bucket's rate: own bucket at the end, but its outputs stay indexed under the
PARENT's bucket), `rejected` (two inputs created in the pool, or a descendant of such a
transaction).  Buckets are sorted by (fee rate descending, age) and the LAST transaction of the
LAST bucket is evicted. -/

/-- **evicted_is_leaf_when_no_child_lowers_its_bucket_rate** — the exact fee condition under
which the walk is trivially right: every dependent transaction has exactly one input created in
the pool and joins its parent's bucket, i.e. `Σ fees / weight(aggregate of bucket ++ [t]) ≥` the
bucket's current rate (integer division, cut-through applied) for every such `t` (`calmB`).  Then
— for pools whose insertion order respects dependencies and that create no commitment twice — the
evicted transaction is a leaf of the dependency forest: no pooled transaction spends one of its
outputs. -/
theorem evicted_is_leaf_when_no_child_lowers_its_bucket_rate {c : Ctx} {p : Pool} {E : Tx}
    (hcalm : calmB c .noLimit {} p.txs = true) (hnd : (allOuts p.txs).Nodup) (hord : Ordered p.txs)
    (hE : p.evictee c = some E) : ∀ u ∈ p.txs, ∀ o ∈ E.outs, o ∉ u.ins := by
  intro u hu o ho hi
  exact evictee_leaf_of_calm hcalm hnd hord hE u hu ⟨o, ho, hi⟩

/-- … and therefore such an eviction keeps every input available (no orphan at all) -/
theorem evict_keeps_inputs_available_when_calm {c : Ctx} {p : Pool}
    (hcalm : calmB c .noLimit {} p.txs = true) (hnd : (allOuts p.txs).Nodup) (hord : Ordered p.txs)
    (hav : Avail (utxoIds c) p.txs) : Avail (utxoIds c) (p.evict c).txs := by
  intro t ht i hi
  obtain ⟨htp, h⟩ := evict_orphans (c := c) hav t ht
  rcases h i hi with h | h | ⟨E, hE, _, hEo⟩
  · exact Or.inl h
  · exact Or.inr h
  · exact absurd hi (evicted_is_leaf_when_no_child_lowers_its_bucket_rate hcalm hnd hord hE t htp i hEo)

/-
NOT PROVED (conjectured exact characterisation; the harness checks it on the real pool after every
eviction and it held in every run): if NO transaction is `rejected` and the evicted transaction
itself did not take the `own` branch, it is a leaf.  Consequently a ROOT of the forest is never
evicted while a descendant that went through the buckets stays.  Sketch: a child `u` of a
`fresh`/`merged` transaction `E` looks up E's bucket `j`; if `u` merges it sits behind `E` in `j`;
if it takes `own`, then `u.feeRate < rate(j)` at that time (from `Σfee/(W) < rate(j)` with
`W ≤ weight(j) + weight(u)`), the rate of `j` never decreases and nobody joins `u`'s bucket, so `j`
sorts before `u`'s bucket and is not the last one.  Missing: monotonicity of bucket rates,
sortedness of `sortBuckets`, and the weight inequality for `aggregate`.
The converse cases are real (next theorems): an `own` transaction that pays least is evicted with
its descendants staying — the recorded finding C14-evict-breaks-joint-validity, mechanism (b).
-/

/-! ### witness: the tree P ← D, D ← E, D ← F (`max_pool_size = 3`)

P pays 200 per weight.  D (two outputs) would lower P's bucket rate even after cut-through
(9706 / 49 = 198 < 200): own bucket, rate 102.  E and F spend D's outputs; they are looked up under
P's bucket and each would lower it (150, 198 < 200): own buckets, rates 100 and 196.  D, E and F
aggregated pay 12113 / 52 = 232 per weight — MORE than P: if D's descendants were bucketed with D,
that bucket would sort before P's and the root P would be evicted with its whole subtree staying.
The code as written evicts E, the cheapest leaf. -/
def tc : Ctx where
  cfg := { maxPool := 3, feeBase := 2 }
  outs := [od 1 100000, od 2 100000, od 11 94993, od 12 45147, od 13 45147, od 14 42640, od 15 40240, od 16 75000,
           od 17 45193, od 18 45193, od 19 42586, od 20 40286]
  head := { utxo := [(1, 0, false), (2, 0, false)], nrd := [], height := 5 }
  ver := 3
def tP : Tx := { ins := [1], outs := [11], kers := [pk 1 5007] }
def tD : Tx := { ins := [11], outs := [12, 13], kers := [pk 2 4699] }
def tE : Tx := { ins := [12], outs := [14], kers := [pk 3 2507] }
def tF : Tx := { ins := [13], outs := [15], kers := [pk 4 4907] }
/-- the well-paying outsider whose admission triggers the eviction -/
def tN : Tx := { ins := [2], outs := [16], kers := [pk 5 25000] }
def tOps : List Op := [tP, tD, tE, tF, tN].map fun t => .submit .broadcast t false true

theorem tree_evicts_cheapest_leaf :
    stepKinds tc .noLimit {} [tP, tD, tE, tF] = [.fresh, .own, .own, .own] ∧
    (tP.feeRate, tD.feeRate, tE.feeRate, tF.feeRate) = (200, 102, 100, 196) ∧
    ((aggregate [tD, tE, tF]).toOption.map (·.feeRate)) = some 232 ∧
    (run (tc, {}) (tOps.take 4)).2.txpool.txs = [tP, tD, tE, tF] ∧
    (run (tc, {}) (tOps.take 4)).2.txpool.evictee tc = some tE ∧
    (run (tc, {}) tOps).2.txpool.txs = [tP, tD, tF, tN] ∧
    orphans (utxoIds tc) (run (tc, {}) tOps).2.txpool.txs = [] ∧
    jointlyValidB tc.outs (utxoIds tc) (run (tc, {}) tOps).2.txpool.txs = true := by
  decide

/-- the same tree with D paying least (rate 100; E 104, F 196): the code evicts the INNER node D and
E, F stay with inputs that exist nowhere — mechanism (b) of the recorded finding (a transaction in
its own bucket whose descendants are indexed under its parent's bucket) on a tree. -/
def tD' : Tx := { ins := [11], outs := [17, 18], kers := [pk 2 4607] }
def tE' : Tx := { ins := [17], outs := [19], kers := [pk 3 2607] }
def tF' : Tx := { ins := [18], outs := [20], kers := [pk 4 4907] }
def tOps' : List Op := [tP, tD', tE', tF', tN].map fun t => .submit .broadcast t false true

theorem tree_evicts_inner_node_when_it_pays_least :
    stepKinds tc .noLimit {} [tP, tD', tE', tF'] = [.fresh, .own, .own, .own] ∧
    (run (tc, {}) (tOps'.take 4)).2.txpool.evictee tc = some tD' ∧
    (run (tc, {}) tOps').2.txpool.txs = [tP, tE', tF', tN] ∧
    orphans (utxoIds tc) (run (tc, {}) tOps').2.txpool.txs = [(tE', 17), (tF', 18)] := by
  decide

/-- non-vacuity of `evicted_is_leaf_when_no_child_lowers_its_bucket_rate`: a tree in which every
child raises its bucket's rate (one bucket [P, D, E, F]): calm, ordered, no commitment twice; the
last one goes -/
def cP : Tx := { ins := [1], outs := [11], kers := [pk 1 2507] }
def cD : Tx := { ins := [11], outs := [12, 13], kers := [pk 2 9207] }
def cE : Tx := { ins := [12], outs := [14], kers := [pk 3 7507] }
def cF : Tx := { ins := [13], outs := [15], kers := [pk 4 7507] }
def cc : Ctx := { tc with outs := [od 1 100000, od 11 97493, od 12 44143, od 13 44143, od 14 36636, od 15 36636] }
def cPool : Pool := [cP, cD, cE, cF].map fun t => ⟨t, .broadcast⟩

theorem ordered_of_check (txs : List Tx)
    (h : ∀ n, n < txs.length → ∀ u ∈ txs.take (n + 1), ∀ t ∈ (txs.drop n).head?, ∀ o ∈ t.outs, o ∉ u.ins) :
    Ordered txs := by
  intro pre t post heq u hu o ho
  have hn : pre.length < txs.length := by rw [heq]; simp
  refine h pre.length hn u ?_ t ?_ o ho
  · have ht : (pre ++ t :: post).take (pre.length + 1) = pre ++ [t] := by
      rw [show pre ++ t :: post = (pre ++ [t]) ++ post by simp]
      exact List.take_left' (by simp)
    rw [heq, ht]; exact hu
  · rw [heq]; simp

example : stepKinds cc .noLimit {} cPool.txs = [.fresh, .merged, .merged, .merged] ∧
    cPool.evictee cc = some cF := by decide
example : ∀ u ∈ cPool.txs, ∀ o ∈ cF.outs, o ∉ u.ins :=
  evicted_is_leaf_when_no_child_lowers_its_bucket_rate (c := cc) (p := cPool) (by decide) (by decide)
    (ordered_of_check _ (by decide)) (by decide)

/-! ### witness: the newly admitted transaction is itself the victim, not its parent

`max_pool_size = 2`; F1, F2 and P fill the pool to capacity + 1, so the admission of C — a child
of P, the entry just before it — evicts.  C pays least of all.  Whether it lowers P's bucket rate
(own bucket at the end) or joins P's bucket (last of the last bucket), the victim is C; P stays. -/
def nc : Ctx where
  cfg := { maxPool := 2, feeBase := 2 }
  outs := [od 1 100000, od 2 100000, od 3 100000, od 21 92493, od 22 93743, od 23 94993, od 24 94736, od 25 93736]
  head := { utxo := [(1, 0, false), (2, 0, false), (3, 0, false)], nrd := [], height := 5 }
  ver := 3
def nF1 : Tx := { ins := [1], outs := [21], kers := [pk 1 7507] }
def nF2 : Tx := { ins := [2], outs := [22], kers := [pk 2 6257] }
def nP : Tx := { ins := [3], outs := [23], kers := [pk 3 5007] }
/-- fee rate 10: would lower P's bucket (5264 / 28 = 188 < 200) -/
def nC : Tx := { ins := [23], outs := [24], kers := [pk 4 257] }
/-- fee rate 50: joins P's bucket (6264 / 28 = 223 ≥ 200) -/
def nC' : Tx := { ins := [23], outs := [25], kers := [pk 4 1257] }
def nOps : List Op := [nF1, nF2, nP].map fun t => .submit .broadcast t false true

theorem new_child_at_capacity_is_the_victim :
    (run (nc, {}) nOps).2.txpool.txs = [nF1, nF2, nP] ∧
    stepKinds nc .noLimit {} [nF1, nF2, nP, nC] = [.fresh, .fresh, .fresh, .own] ∧
    stepKinds nc .noLimit {} [nF1, nF2, nP, nC'] = [.fresh, .fresh, .fresh, .merged] ∧
    ((run (nc, {}) nOps).2.addToPool nc .broadcast nC false true).2 = none ∧
    ((run (nc, {}) nOps).2.addToPool nc .broadcast nC false true).1.txpool.txs = [nF1, nF2, nP] ∧
    ((run (nc, {}) nOps).2.addToPool nc .broadcast nC' false true).2 = none ∧
    ((run (nc, {}) nOps).2.addToPool nc .broadcast nC' false true).1.txpool.txs = [nF1, nF2, nP] := by
  decide

/-! ## height-dependent admission and degenerate transactions

`verify_tx_lock_height`, `verify_coinbase_maturity` and the NRD part of `validate_tx` compare with
the height of the NEXT block on the BODY head (`c.head.height + 1`).  Headers the node has accepted
ahead of their blocks do not occur in the model: no operation of a history changes `Ctx.head`
except a connected block.  The thresholds are exact (`…_witness`: one below refused, at admitted). -/

/-- a kernel locked beyond the next block: refused, pool unchanged, either path, any fill state -/
theorem locked_beyond_next_block_refused {c : Ctx} {s : TxPool} (src : Src) (tx : Tx) (stem stemOk : Bool)
    (hk : tx.kers.length ≤ 1) (hl : tx.lockHeight > c.head.height + 1) :
    ∃ er, s.addToPool c src tx stem stemOk = (s, some er) := by
  have h : ∀ st e, entryOf s src tx st = .ok e → e.tx.lockHeight > c.head.height + 1 := by
    intro st e he
    rw [entryOf_single hk st] at he
    simp only [Except.ok.injEq] at he
    subst he; exact hl
  unfold TxPool.addToPool
  split
  · exact addCore_refuses_locked src tx false stemOk (h false)
  · exact addCore_refuses_locked src tx stem stemOk (h stem)

/-- spending (directly from the chain) a coinbase output that is not mature at the next block of
the body head: refused, pool unchanged -/
theorem immature_coinbase_refused {c : Ctx} {s : TxPool} (src : Src) (tx : Tx) (stem stemOk : Bool)
    (hk : tx.kers.length ≤ 1) {i x h : Nat} (hi : i ∈ tx.ins) (hf : c.head.find i = some (x, h, true))
    (hlt : c.head.height + 1 < h + c.cfg.maturity)
    (htp : i ∉ allOuts s.txpool.txs) (hsp : i ∉ allOuts s.stempool.txs) :
    ∃ er, s.addToPool c src tx stem stemOk = (s, some er) := by
  have h' : ∀ st e, entryOf s src tx st = .ok e → ∃ i ∈ e.tx.ins, ∃ x h, c.head.find i = some (x, h, true) ∧
      c.head.height + 1 < h + c.cfg.maturity ∧ i ∉ allOuts s.txpool.txs ∧ (st = true → i ∉ allOuts s.stempool.txs) := by
    intro st e he
    rw [entryOf_single hk st] at he
    simp only [Except.ok.injEq] at he
    subst he
    exact ⟨i, hi, x, h, hf, hlt, htp, fun _ => hsp⟩
  unfold TxPool.addToPool
  split
  · exact addCore_refuses_immature src tx false stemOk (h' false)
  · exact addCore_refuses_immature src tx stem stemOk (h' stem)

/-- an NRD kernel repeating an excess last seen fewer than its relative height blocks before the
next block of the body head: refused, pool unchanged -/
theorem nrd_too_recent_refused {c : Ctx} {s : TxPool} (src : Src) (tx : Tx) (stem stemOk : Bool)
    (hk : tx.kers.length ≤ 1) (hn : nrdTooRecent c tx = true) :
    ∃ er, s.addToPool c src tx stem stemOk = (s, some er) := by
  have h : ∀ st e, entryOf s src tx st = .ok e → nrdTooRecent c e.tx = true := by
    intro st e he
    rw [entryOf_single hk st] at he
    simp only [Except.ok.injEq] at he
    subst he; exact hn
  unfold TxPool.addToPool
  split
  · exact addCore_refuses_nrd src tx false stemOk (h false)
  · exact addCore_refuses_nrd src tx stem stemOk (h stem)

/-- **a transaction without kernels — the EMPTY transaction included — is refused**, the pool
unchanged, on either path and in any fill state (over capacity the fee check is skipped, the
standalone validation is not) -/
theorem no_kernels_refused {c : Ctx} {s : TxPool} (src : Src) (tx : Tx) (stem stemOk : Bool)
    (hk : tx.kers = []) : ∃ er, s.addToPool c src tx stem stemOk = (s, some er) := by
  apply admission_invalid
  intro st e he
  rw [entryOf_single (by simp [hk]) st] at he
  simp only [Except.ok.injEq] at he
  subst he
  exact validate_no_kernels hk

theorem empty_transaction_refused {c : Ctx} {s : TxPool} (src : Src) (stem stemOk : Bool) :
    ∃ er, s.addToPool c src emptyTx stem stemOk = (s, some er) :=
  no_kernels_refused src emptyTx stem stemOk rfl

/-- the thresholds are exact, on the body head: head at height 9, an NRD excess last seen at
height 8, coinbases created at heights 7, 8 (maturity 3).  Lock height 10 admitted, 11 refused;
coinbase of height 7 admitted (10 ≥ 7 + 3), of height 8 refused; NRD relative height 2 admitted
(10 − 8 ≥ 2), 3 refused; the empty transaction and one without outputs: refused resp. admitted
(everything to the fee is consensus-valid). -/
def hc : Ctx where
  cfg := { maxPool := 50, feeBase := 2 }
  outs := [od 1 1000, od 2 1000, { id := 7, cb := true, v := 1000 }, { id := 8, cb := true, v := 1000 },
           od 31 900, od 32 900, od 33 900, od 34 900, od 35 900, od 36 900]
  head := { utxo := [(1, 0, false), (2, 0, false), (7, 7, true), (8, 8, true)], nrd := [("ex", 8)], height := 9 }
  ver := 4
def hLock (o out l : Nat) : Tx := { ins := [o], outs := [out], kers := [{ kid := l, ker := .hl 100 l }] }
def hNrd (o out r : Nat) : Tx := { ins := [o], outs := [out], kers := [{ kid := 20 + r, ker := .nrd 100 r "ex" }] }
def hSpend (o out : Nat) : Tx := { ins := [o], outs := [out], kers := [pk (40 + o) 100] }

theorem height_thresholds_witness :
    (({} : TxPool).addToPool hc .pushApi (hLock 1 31 10) false true).2 = none ∧
    (({} : TxPool).addToPool hc .pushApi (hLock 1 31 11) false true).2 = some "ImmatureTransaction" ∧
    (({} : TxPool).addToPool hc .pushApi (hLock 1 31 11) true true).2 = some "ImmatureTransaction" ∧
    (({} : TxPool).addToPool hc .pushApi (hSpend 7 33) false true).2 = none ∧
    (({} : TxPool).addToPool hc .pushApi (hSpend 8 34) false true).2 = some "ImmatureCoinbase" ∧
    (({} : TxPool).addToPool hc .pushApi (hSpend 8 34) true true).2 = some "ImmatureCoinbase" ∧
    (({} : TxPool).addToPool hc .pushApi (hNrd 2 35 2) false true).2 = none ∧
    (({} : TxPool).addToPool hc .pushApi (hNrd 2 35 3) false true).2 = some "NRDKernelRelativeHeight" ∧
    (({} : TxPool).addToPool hc .pushApi (hNrd 2 35 3) true true).2 = some "NRDKernelRelativeHeight" ∧
    (({} : TxPool).addToPool hc .pushApi emptyTx false true).2 = some "InvalidTx:Committed" ∧
    (({} : TxPool).addToPool hc .pushApi emptyTx true true).2 = some "InvalidTx:Committed" ∧
    (({} : TxPool).addToPool hc .pushApi { ins := [1], outs := [], kers := [pk 9 1000] } false true).2 = none := by
  decide

/-- non-vacuity of the three refusal theorems on that state -/
example : ∃ er, ({} : TxPool).addToPool hc .pushApi (hLock 1 31 11) true true = ({}, some er) :=
  locked_beyond_next_block_refused .pushApi _ true true (by decide) (by decide)
example : ∃ er, ({} : TxPool).addToPool hc .pushApi (hSpend 8 34) true true = ({}, some er) :=
  immature_coinbase_refused (c := hc) .pushApi _ true true (by decide) (i := 8) (x := 8) (h := 8) (by decide) (by decide)
    (by decide) (by decide) (by decide)
example : ∃ er, ({} : TxPool).addToPool hc .pushApi (hNrd 2 35 3) false true = ({}, some er) :=
  nrd_too_recent_refused .pushApi _ false true (by decide) (by decide)

/-! ## weight limit and submission form -/

/-- **overweight_never_admitted** — after ANY history no entry of the txpool, the stempool or the
reorg cache exceeds `global::max_tx_weight()`. -/
theorem overweight_never_admitted (c : Ctx) (ops : List Op) :
    ∀ e, (e ∈ (run (c, {}) ops).2.txpool ∨ e ∈ (run (c, {}) ops).2.stempool ∨ e ∈ (run (c, {}) ops).2.cache) →
      e.tx.weight ≤ c.cfg.maxTxW := by
  intro e he
  have hv := validate_weight (entries_always_valid c ops e he)
  rw [run_cfg] at hv
  simp only [overWeight, maxWeight, decide_eq_false_iff_not, Nat.not_lt] at hv
  exact hv

/-- the weight does not depend on the form of the inputs -/
theorem weight_form_independent (r : SubTx) :
    r.tx.weight = r.inputs.commits.length * 1 + r.outs.length * 21 + r.kers.length * 3 := rfl

/-- **an over-weight transaction is refused in either input form, on either path**, the pool
unchanged, whatever its fill state (single-kernel transaction: no deaggregation involved). -/
theorem overweight_refused_any_form {c : Ctx} {s : TxPool} (src : Src) (r : SubTx) (stem stemOk : Bool)
    (hk : r.kers.length ≤ 1)
    (hw : r.inputs.commits.length * 1 + r.outs.length * 21 + r.kers.length * 3 > c.cfg.maxTxW) :
    ∃ er, s.submit c src r stem stemOk = (s, some er) := by
  unfold TxPool.submit
  apply admission_over_weight
  intro st e he
  rw [entryOf_single (tx := r.tx) hk st] at he
  simp only [Except.ok.injEq] at he
  subst he
  exact hw

/-- two submitted forms of one transaction: same commitments spent, same outputs, kernels, faults,
input vector well ordered for its variant or not.  The variant and the features *claimed* by
"features and commit" inputs are free. -/
def SameTx (r₁ r₂ : SubTx) : Prop :=
  r₁.inputs.commits = r₂.inputs.commits ∧ r₁.sorted = r₂.sorted ∧ r₁.outs = r₂.outs ∧
  r₁.kers = r₂.kers ∧ r₁.tags = r₂.tags

theorem sameTx_tx {r₁ r₂ : SubTx} (h : SameTx r₁ r₂) : r₁.tx = r₂.tx := by
  obtain ⟨h1, h2, h3, h4, h5⟩ := h
  simp [SubTx.tx, h1, h2, h3, h4, h5]

/-- **form_independent_admission** — the verdict of `TransactionPool::add_to_pool` and the
resulting txpool, stempool and reorg cache do not depend on the form in which the inputs were
submitted nor on the features "features and commit" inputs claim. -/
theorem form_independent_admission (c : Ctx) (s : TxPool) (src : Src) {r₁ r₂ : SubTx} (h : SameTx r₁ r₂)
    (stem stemOk : Bool) : s.submit c src r₁ stem stemOk = s.submit c src r₂ stem stemOk := by
  unfold TxPool.submit; rw [sameTx_tx h]

/-- in particular: re-encoding commit-only inputs as "features and commit" with ANY claimed
features changes nothing (`convert_tx_v2` overwrites the claims with the looked-up features) -/
theorem form_independent_v2 (c : Ctx) (s : TxPool) (src : Src) (cs outs : List Nat) (kers : List PKer)
    (tags : List String) (claim : Nat → Bool) (stem stemOk : Bool) :
    s.submit c src { inputs := .commitOnly cs, outs, kers, tags } stem stemOk =
    s.submit c src { inputs := .featuresAndCommit (cs.map fun i => (claim i, i)), outs, kers, tags } stem stemOk :=
  form_independent_admission c s src (r₁ := { inputs := .commitOnly cs, outs, kers, tags })
    (r₂ := { inputs := .featuresAndCommit (cs.map fun i => (claim i, i)), outs, kers, tags })
    ⟨by simp [Inputs.commits, Function.comp_def], rfl, rfl, rfl, rfl⟩ stem stemOk

/-- the stored (relayed) form depends on the commitments and the head only -/
theorem stored_form_independent (c : Ctx) {r₁ r₂ : SubTx} (h : SameTx r₁ r₂) :
    storedInputs c r₁.tx = storedInputs c r₂.tx := by rw [sameTx_tx h]

/-- a submission in a given form as an operation of a history -/
def subOp (src : Src) (r : SubTx) (stem stemOk : Bool) : Op := .submit src r.tx stem stemOk

/-- form independence for whole histories: replacing, anywhere in a history, submissions by other
forms of the same transactions leaves every later state unchanged -/
theorem form_independent_history (cs : Ctx × TxPool) (pre post : List Op) (src : Src) {r₁ r₂ : SubTx}
    (h : SameTx r₁ r₂) (stem stemOk : Bool) :
    run cs (pre ++ subOp src r₁ stem stemOk :: post) = run cs (pre ++ subOp src r₂ stem stemOk :: post) := by
  unfold subOp; rw [sameTx_tx h]

/-- a wrongly ordered input vector (e.g. "features and commit" inputs left in commitment order)
fails standalone validation: refused on both paths, pool unchanged -/
theorem unsorted_inputs_refused {c : Ctx} {s : TxPool} (src : Src) (r : SubTx) (stem stemOk : Bool)
    (hk : r.kers.length ≤ 1) (hs : r.sorted = false) :
    ∃ er, s.submit c src r stem stemOk = (s, some er) := by
  unfold TxPool.submit
  apply admission_invalid
  intro st e he
  rw [entryOf_single (tx := r.tx) hk st] at he
  simp only [Except.ok.injEq] at he
  subst he
  have ht : r.tx.tags.contains "unsorted" = true := by simp [SubTx.tx, hs]
  unfold Tx.validate
  repeat (split; · simp)
  simp [ht] at *

/-- non-vacuity: 1 input + 11 outputs + 1 kernel = weight 235 > 226 in both forms on both paths;
a valid transaction is admitted in both forms (claimed features wrong in the second), with the
same resulting pool; the unsorted "features and commit" vector is refused -/
def heavyV3 : SubTx := { inputs := .commitOnly [3], outs := List.range 11, kers := [pk 4 5000] }
def heavyV2 : SubTx := { heavyV3 with inputs := .featuresAndCommit [(false, 3)] }
def goodV3 : SubTx := { inputs := .commitOnly [3], outs := [14], kers := [pk 4 100] }
def goodV2 : SubTx := { goodV3 with inputs := .featuresAndCommit [(true, 3)] }
example : (({} : TxPool).submit wc .pushApi heavyV3 false true).2 = some "InvalidTx:TooHeavy" ∧
    (({} : TxPool).submit wc .pushApi heavyV2 false true).2 = some "InvalidTx:TooHeavy" ∧
    (({} : TxPool).submit wc .pushApi heavyV3 true true).2 = some "InvalidTx:TooHeavy" ∧
    (({} : TxPool).submit wc .pushApi heavyV2 true true).2 = some "InvalidTx:TooHeavy" := by decide
example : ∃ er, ({} : TxPool).submit wc .pushApi heavyV2 true true = ({}, some er) :=
  overweight_refused_any_form .pushApi heavyV2 true true (by decide) (by decide)
example : SameTx goodV3 goodV2 := by unfold SameTx; decide
example : (({} : TxPool).submit wc .pushApi goodV2 false true).2 = none ∧
    ({} : TxPool).submit wc .pushApi goodV2 false true = ({} : TxPool).submit wc .pushApi goodV3 false true :=
  ⟨by decide, (form_independent_admission wc {} .pushApi (by unfold SameTx; decide) false true).symm⟩
example : (({} : TxPool).submit wc .pushApi { goodV2 with sorted := false } true true).2 =
    some "InvalidTx:Serialization" := by decide

/-! ## the mineable set -/

/-- **mineable_ok**: what `prepare_mineable_transactions` returns consists of pool transactions,
is jointly valid against the head, and its aggregate (the block body before the coinbase is added)
passed `validate_raw_tx` under the miner's weight limit: its weight plus the coinbase's 24 is at
most min(`max_block_weight`, `mineable_max_weight`). Needs no invariant: holds in every state
whose entries are standalone valid — i.e. after any history, evictions included. -/
theorem mineable_ok {c : Ctx} {s : TxPool} {txs : List Tx} (hv : AllValid c s)
    (h : s.prepareMineable c = .ok txs) :
    (∀ t ∈ txs, t ∈ s.txpool.txs) ∧ JointlyValid c.outs (utxoIds c) txs ∧
    (txs = [] ∨ ∃ a, aggregate txs = .ok a ∧ validateRawTx c (.asLimited c.cfg.mineW) a = none ∧
       a.weight ≤ min c.cfg.maxBlockW c.cfg.mineW - 24) := by
  unfold TxPool.prepareMineable Pool.prepareMineable at h
  obtain ⟨hset, hmem⟩ := validateRawTxs_spec c _ _ [] txs (Or.inl rfl) h
  have hm : ∀ t ∈ txs, t ∈ s.txpool.txs := by
    intro t ht
    rcases hmem t ht with h | h
    · simp at h
    · exact bucketTransactions_mem c _ _ t h
  refine ⟨hm, ?_, ?_⟩
  · rw [jointlyValid_iff]
    constructor
    · rcases hset with h | ⟨a, ha, hva⟩
      · subst h; exact netOK_nil _
      · exact netOK_of_aggregate ha hva
    · intro t ht
      have := hm t ht
      simp only [Pool.txs, List.mem_map] at this
      obtain ⟨e, he, rfl⟩ := this
      exact (validate_shape (hv e (Or.inl he))).2.2.2
  · rcases hset with h | ⟨a, ha, hva⟩
    · exact Or.inl h
    · right
      refine ⟨a, ha, hva, ?_⟩
      have := validate_weight (validateRawTx_validate hva)
      simp only [overWeight, maxWeight, decide_eq_false_iff_not, Nat.not_lt] at this
      exact this

theorem mineable_ok_after_any_history (c : Ctx) (ops : List Op) {txs : List Tx}
    (h : (run (c, {}) ops).2.prepareMineable (run (c, {}) ops).1 = .ok txs) :
    JointlyValid (run (c, {}) ops).1.outs (utxoIds (run (c, {}) ops).1) txs :=
  (mineable_ok (entries_always_valid c ops) h).2.1

/-- **mineable_block_accepted**: the block a miner assembles from a non-empty mineable set the way
`mine_block.rs::build_block` does (aggregate with cut-through, coinbase output `cb` paying reward
+ fees, coinbase kernel) passes the chain model's `validateBody` and `applyBlock` on the head and
is within the block weight limit — under the side conditions that admission checked when each
transaction entered but that `reconcile` does not re-check: the kernels' lock heights are at most
the next height and no spent coinbase is immature at the next height (see
`reorg_to_lower_height_keeps_locked_tx` for how a reorg can falsify them); for sets without NRD
kernels; `cb` a fresh id. -/
theorem mineable_block_accepted {c : Ctx} {s : TxPool} {txs : List Tx} {cb : Nat} (hv : AllValid c s)
    (h : s.prepareMineable c = .ok txs) (hne : txs ≠ []) (hw : 24 ≤ min c.cfg.maxBlockW c.cfg.mineW) :
    ∃ a, aggregate txs = .ok a ∧ a.weight + 24 ≤ min c.cfg.maxBlockW c.cfg.mineW ∧
      (a.lockHeight ≤ c.head.height + 1 → a.hasNrd = false → immatureCoinbase c a.ins = false →
       cb ∉ a.ins → cb ∉ a.outs → c.head.has cb = false → (∀ x ∈ c.outs, x.id ≠ cb) →
        GV.Chain.validateBody { maturity := c.cfg.maturity }
          (c.outs ++ [{ id := cb, cb := true, v := ({ maturity := c.cfg.maturity } : GV.Chain.Params).reward + a.fee }])
          (mkBlock c a cb)
          (GV.Chain.sumVals (c.outs ++ [{ id := cb, cb := true, v := ({ maturity := c.cfg.maturity } : GV.Chain.Params).reward + a.fee }])
            (mkBlock c a cb).ins) = none ∧
        ∃ s', GV.Chain.applyBlock { maturity := c.cfg.maturity } c.head (mkBlock c a cb) = .ok s') := by
  rcases (mineable_ok hv h).2.2 with h0 | ⟨a, ha, hva, hwt⟩
  · exact absurd h0 hne
  · refine ⟨a, ha, by omega, ?_⟩
    intro hlock hnrd hmat hcb1 hcb2 hcb3 hfresh
    exact ⟨mkBlock_body_valid hva hlock hnrd hcb1 hcb2 hfresh, mkBlock_applies hva hmat hnrd hcb3⟩

/-- non-vacuity of `mineable_block_accepted`: witness 1's state before the eviction -/
example : mineVerdict (run (wc, {}) wOps).1 [wA, wB] = true := by decide

/-- non-vacuity: in witness 1's state before the eviction the mineable set is [A, B] (C is
skipped by the buckets) -/
example : ((run (wc, {}) wOps).2.prepareMineable (run (wc, {}) wOps).1).toOption = some [wA, wB] := by decide

/-- **mineable_set_total** — `prepare_mineable_transactions` never fails, in ANY pool state:
`validate_raw_txs` skips a candidate that cannot be aggregated with those selected so far or whose
aggregate does not validate on the head.  What it returns consists of txpool transactions, and —
whenever the entries are standalone valid, i.e. after any history from the empty pool — it is
jointly valid against the head and within the miner's weight limit (`mineable_ok`).
(Before 611fc1746 an aggregation error of one candidate escaped and the whole call failed:
C14-mineable-set-fails-on-recreated-commitment, found by this check, fixed.) -/
theorem mineable_set_total (c : Ctx) (s : TxPool) :
    ∃ txs, s.prepareMineable c = .ok txs ∧ (∀ t ∈ txs, t ∈ s.txpool.txs) ∧
      (AllValid c s → JointlyValid c.outs (utxoIds c) txs) := by
  obtain ⟨txs, h⟩ := validateRawTxs_total c (.asLimited c.cfg.mineW) none
    (s.txpool.bucketTransactions c (.asLimited c.cfg.mineW)) []
  have h' : s.prepareMineable c = .ok txs := by
    unfold TxPool.prepareMineable Pool.prepareMineable; exact h
  refine ⟨txs, h', ?_, fun hv => (mineable_ok hv h').2.1⟩
  obtain ⟨_, hmem⟩ := validateRawTxs_spec c _ _ [] txs (Or.inl rfl) h
  intro t ht
  rcases hmem t ht with hh | hh
  · simp at hh
  · exact bucketTransactions_mem c _ _ t hh

theorem mineable_set_total_after_any_history (c : Ctx) (ops : List Op) :
    ∃ txs, (run (c, {}) ops).2.prepareMineable (run (c, {}) ops).1 = .ok txs ∧
      (∀ t ∈ txs, t ∈ (run (c, {}) ops).2.txpool.txs) ∧
      JointlyValid (run (c, {}) ops).1.outs (utxoIds (run (c, {}) ops).1) txs := by
  obtain ⟨txs, h1, h2, h3⟩ := mineable_set_total (run (c, {}) ops).1 (run (c, {}) ops).2
  exact ⟨txs, h1, h2, h3 (entries_always_valid c ops)⟩

/-- witness (the history that made the unrepaired code fail): output 7 is unspent on the chain.
B spends it (rate 10); A re-creates the same commitment (rate 20); C spends it again (rate 2,
lowers A's bucket: own bucket).  All three are admitted, the txpool is jointly valid.  The walk
takes A first - alone it duplicates the unspent commitment: skipped -, then B, then C, which does
not aggregate with B (two spends of output 7): skipped.  The mineable set is [B]. -/
def rcx : Ctx where
  cfg := { maxPool := 50, feeBase := 2 }
  outs := [od 5 5000, od 7 1000, od 37 750, od 39 3080, od 40 950]
  head := { utxo := [(5, 0, false), (7, 0, false)], nrd := [], height := 5 }
  ver := 3
def rB : Tx := { ins := [7], outs := [37], kers := [pk 1 250] }
def rA : Tx := { ins := [5], outs := [7, 39], kers := [pk 2 920] }
def rC : Tx := { ins := [7], outs := [40], kers := [pk 3 50] }
def rcOps : List Op := [rB, rA, rC].map fun t => .submit .broadcast t false true

theorem recreated_commitment_mineable_set :
    (run (rcx, {}) rcOps).2.txpool.txs = [rB, rA, rC] ∧
    jointlyValidB rcx.outs (utxoIds rcx) (run (rcx, {}) rcOps).2.txpool.txs = true ∧
    stepKinds rcx (.asLimited 250) {} [rB, rA, rC] = [.fresh, .fresh, .own] ∧
    (run (rcx, {}) rcOps).2.txpool.bucketTransactions rcx (.asLimited 250) = [rA, rB, rC] ∧
    (aggregate [rB, rC]).toOption = none ∧
    ((run (rcx, {}) rcOps).2.prepareMineable rcx).toOption = some [rB] ∧
    mineVerdict rcx [rB] = true := by
  decide

/-- **lock heights and coinbase maturity are NOT re-checked by `reconcile`**: after a reorg onto
a head of lower height a height-locked transaction admitted earlier stays in the pool and is
offered for mining, and the chain model rejects the block built from it. (`mineVerdict` runs
`GV.Chain.validateBody` / `applyBlock` on the assembled block.) -/
def rc : Ctx where
  cfg := { maxPool := 50, feeBase := 1 }
  outs := [od 1 1000, od 11 900]
  head := { utxo := [(1, 0, false)], nrd := [], height := 9 }
  ver := 4
def locked : Tx := { ins := [1], outs := [11], kers := [{ kid := 1, ker := .hl 100 10 }] }
def rOps : List Op :=
  [.submit .broadcast locked false true,
   .block { utxo := [(1, 0, false)], nrd := [], height := 8 } 3 [] [], .reorgCache]

theorem reorg_to_lower_height_keeps_locked_tx :
    ((run (rc, {}) rOps).2.prepareMineable (run (rc, {}) rOps).1).toOption = some [locked] ∧
    mineVerdict (run (rc, {}) rOps).1 [locked] = false ∧
    mineVerdict rc [locked] = true := by
  decide

end GV.Props.C14
