import GrinVerif.Lemmas.PoolNet
/-! C14 — the transaction pool holds a jointly valid, fee-paying, mineable set (first theorems). -/
namespace GV.Props.C14
open GV.Pool

/-- The check `Pool::add_to_pool` performs — aggregate everything with cut-through, validate the
aggregate against the head — is sound for the specification: whatever list of transactions
passes it is `NetOK` (the counting core of `JointlyValid`). -/
theorem aggregate_check_sound {c : Ctx} {w : Weighting} {txs : List Tx} {a : Tx}
    (ha : aggregate txs = .ok a) (hv : validateRawTx c w a = none) : NetOK (utxoIds c) txs :=
  netOK_of_aggregate ha hv

end GV.Props.C14
