import GrinVerif.Lemmas.BitmapScratch
import GrinVerif.Lemmas.BitmapBits
import GrinVerif.Lemmas.BitmapAsBitmap
/-! # C15 — the committed unspent-output bitmap is independent of the path taken

Property theorems only (lemmas in `Lemmas/Bitmap*.lean`, model in `Model/Bitmap.lean`).
`U` is always the ascending list of unspent output leaf indices, `size` the number of output
leaves; `fromScratch hf U size = init hf new U size` is the commitment computed from scratch
(what `TxHashSet::open` rebuilds).  All theorems hold for every hash function `hf`. -/
namespace GV.Props.C15
open GV GV.Pmmr GV.Bitmap

variable {H : Type}

/-! ## Structure of the from-scratch accumulator -/

/-- **Structure lemma.** The accumulator built from scratch over `U` exists, holds exactly
`chunk(max U) + 1` chunks (`nChunks U`; none if `U` is empty — *not* `⌈size/1024⌉`), its chunk
vector is `specData U`, and its hash vector is that of an MMR with that many leaves. -/
theorem scratch_structure (hf : HashFn Nat H) (U : List Nat) (size : Nat)
    (hs : U.Pairwise (· < ·)) (hlt : ∀ x ∈ U, x < size) (hsz : size ≤ 2 ^ 64) :
    ∃ st, fromScratch hf U size = some st ∧ st.data = specData U ∧
      st.data.length = nChunks U ∧ st.hashes.length = mmr (nChunks U) := by
  have hb : (specData U).length ≤ 2 ^ 64 := by
    rw [specData_length]; exact nChunks_le_pow U size hlt hsz
  obtain ⟨hsh, h1, h2⟩ := ofData_some hf (specData U) hb
  refine ⟨{ data := specData U, hashes := hsh }, ?_, rfl, specData_length U, by simpa [specData_length] using h2⟩
  rw [fromScratch, init_ofData hf U size (pairwise_le_of_lt hs) hlt, h1]

/-- … and bit `i` of its chunk `c` is set exactly when output `1024 c + i` is unspent. -/
theorem scratch_chunk_bits (U : List Nat) (c i : Nat) (hc : c < nChunks U) (hi : i < 1024) :
    ((specData U)[c]'(by rw [specData_length]; exact hc)).testBit i = decide (c * 1024 + i ∈ U) := by
  simp only [specData, List.getElem_map, List.getElem_range]
  exact chunkOf_testBit U c i hi

/-- The from-scratch accumulator commits to exactly the unspent set: `as_bitmap` returns `U`. -/
theorem scratch_as_bitmap (hf : HashFn Nat H) (U : List Nat) (size : Nat)
    (hs : U.Pairwise (· < ·)) (hlt : ∀ x ∈ U, x < size) (hsz : size ≤ 2 ^ 64) :
    ∃ st, fromScratch hf U size = some st ∧ asBitmap st = some U := by
  have hb : (specData U).length ≤ 2 ^ 64 := by
    rw [specData_length]; exact nChunks_le_pow U size hlt hsz
  obtain ⟨hsh, h1, h2⟩ := ofData_some hf (specData U) hb
  refine ⟨{ data := specData U, hashes := hsh }, ?_, ?_⟩
  · rw [fromScratch, init_ofData hf U size (pairwise_le_of_lt hs) hlt, h1]
  · exact asBitmap_specData U hs hsh (by simpa [specData_length] using h2)

/-- The accumulator rebuilt when the node restarts is the from-scratch accumulator of the leaf set. -/
theorem reopen_eq_scratch (hf : HashFn Nat H) (o : OutputPmmr) :
    rebuildOnOpen hf o = fromScratch hf o.leafSet (nLeaves o.size) := by
  have : leafIdxIter o 0 = o.leafSet := by
    unfold leafIdxIter; rw [List.filter_eq_self]; intro a _; simp
  rw [rebuildOnOpen, this, fromScratch]

/-! ## Incremental application equals computation from scratch -/

/-- General form. If the accumulator is the from-scratch accumulator of the old unspent set
`U0`, the new set `U` differs from `U0` only at or after the start of the chunk containing the
first invalidated index, **and `U` still has an element at or after that chunk start**, then
`apply` (truncate, pad, rebuild from that chunk with the unspent indices from there on) gives
the from-scratch accumulator of `U`. -/
theorem apply_eq_scratch_of_witness (hf : HashFn Nat H)
    (U0 : List Nat) (size0 : Nat) (st0 : Acc H) (U : List Nat) (size fromIdx : Nat) (inval : List Nat)
    (hprev : fromScratch hf U0 size0 = some st0)
    (hs0 : U0.Pairwise (· < ·)) (hlt0 : ∀ x ∈ U0, x < size0) (hsz0 : size0 ≤ 2 ^ 64)
    (hs : U.Pairwise (· < ·)) (hlt : ∀ x ∈ U, x < size)
    (hagree : U.filter (fun x => decide (x < chunkStartIdx fromIdx)) =
      U0.filter (fun x => decide (x < chunkStartIdx fromIdx)))
    (hwit : ∃ x ∈ U, chunkStartIdx fromIdx ≤ x) :
    apply hf st0 (fromIdx :: inval) (U.filter (fun x => decide (chunkStartIdx fromIdx ≤ x))) size =
      fromScratch hf U size := by
  rw [fromScratch, init_ofData hf U0 size0 (pairwise_le_of_lt hs0) hlt0] at hprev
  rw [fromScratch, init_ofData hf U size (pairwise_le_of_lt hs) hlt]
  refine apply_ofData hf U0 U st0 fromIdx inval size hprev (pairwise_le_of_lt hs0)
    (nChunks_le_pow U0 size0 hlt0 hsz0) (pairwise_le_of_lt hs) hlt hagree ?_
  obtain ⟨x, hx, hge⟩ := hwit
  intro h
  have : x ∈ U.filter (fun x => decide (fromIdx / 1024 * 1024 ≤ x)) :=
    List.mem_filter.2 ⟨hx, by simpa [chunkStartIdx] using hge⟩
  rw [h] at this; simp at this

/-- **`apply_eq_scratch`.** Under the chain invariant *the last output leaf is unspent in the
new state* (and the first invalidated index lies inside the output set, as every index collected
by `apply_block` / `rewind` does), incremental application equals computation from scratch.
The hypothesis is consumed exactly where `apply_from` only appends its last chunk `if
chunk.any()` while `pad_left` appends empty chunks unconditionally. No hypothesis on the old
last leaf is needed beyond the old accumulator being the from-scratch one. -/
theorem apply_eq_scratch (hf : HashFn Nat H)
    (U0 : List Nat) (size0 : Nat) (st0 : Acc H) (U : List Nat) (size fromIdx : Nat) (inval : List Nat)
    (hprev : fromScratch hf U0 size0 = some st0)
    (hs0 : U0.Pairwise (· < ·)) (hlt0 : ∀ x ∈ U0, x < size0) (hsz0 : size0 ≤ 2 ^ 64)
    (hs : U.Pairwise (· < ·)) (hlt : ∀ x ∈ U, x < size)
    (hagree : U.filter (fun x => decide (x < chunkStartIdx fromIdx)) =
      U0.filter (fun x => decide (x < chunkStartIdx fromIdx)))
    (hfrom : fromIdx < size) (hlast : LastLeafUnspent U size) :
    apply hf st0 (fromIdx :: inval) (U.filter (fun x => decide (chunkStartIdx fromIdx ≤ x))) size =
      fromScratch hf U size := by
  refine apply_eq_scratch_of_witness hf U0 size0 st0 U size fromIdx inval hprev hs0 hlt0 hsz0 hs hlt hagree
    ⟨size - 1, hlast.2, ?_⟩
  have : fromIdx / 1024 * 1024 ≤ fromIdx := Nat.div_mul_le_self _ _
  unfold chunkStartIdx; omega

/-- **Exact boundary of the hypothesis.** If *no* unspent index is left at or after the start of
the first affected chunk, the incremental result equals the from-scratch accumulator **iff**
`U` reaches into the chunk just before (`chunk(max U) + 1 = chunk(from_idx)`; for an empty `U`:
iff `from_idx < 1024`). Otherwise the incremental accumulator keeps trailing empty chunks that a
from-scratch computation (and hence a restarted node) does not have. -/
theorem apply_eq_scratch_iff_of_no_witness (hf : HashFn Nat H)
    (U0 : List Nat) (size0 : Nat) (st0 : Acc H) (U : List Nat) (size fromIdx : Nat) (inval : List Nat)
    (hprev : fromScratch hf U0 size0 = some st0)
    (hs0 : U0.Pairwise (· < ·)) (hlt0 : ∀ x ∈ U0, x < size0) (hsz0 : size0 ≤ 2 ^ 64)
    (hs : U.Pairwise (· < ·)) (hlt : ∀ x ∈ U, x < size) (hfrom : fromIdx ≤ 2 ^ 64)
    (hagree : U.filter (fun x => decide (x < chunkStartIdx fromIdx)) =
      U0.filter (fun x => decide (x < chunkStartIdx fromIdx)))
    (hnone : ∀ x ∈ U, x < chunkStartIdx fromIdx) :
    apply hf st0 (fromIdx :: inval) (U.filter (fun x => decide (chunkStartIdx fromIdx ≤ x))) size =
      fromScratch hf U size ↔ nChunks U = fromIdx / 1024 := by
  have hempty : U.filter (fun x => decide (fromIdx / 1024 * 1024 ≤ x)) = [] := by
    rw [List.filter_eq_nil_iff]
    intro x hx
    have := hnone x hx
    simp only [chunkStartIdx] at this
    simp; omega
  rw [fromScratch, init_ofData hf U0 size0 (pairwise_le_of_lt hs0) hlt0] at hprev
  rw [fromScratch, init_ofData hf U size (pairwise_le_of_lt hs) hlt,
    apply_ofData_empty hf U0 U st0 fromIdx inval size hprev (pairwise_le_of_lt hs0)
      (nChunks_le_pow U0 size0 hlt0 hsz0) hagree hempty]
  have hle := nChunks_le_of_filter_empty U (fromIdx / 1024) hempty
  have hk : fromIdx / 1024 ≤ 2 ^ 64 := Nat.le_trans (Nat.div_le_self _ _) hfrom
  obtain ⟨hs1, e1, _⟩ := ofData_some hf ((List.range (fromIdx / 1024)).map (chunkOf U)) (by simpa using hk)
  constructor
  · intro h
    rw [e1] at h
    have := ofData_inj hf _ _ _ e1 h.symm
    have hl := congrArg List.length this
    simpa [specData_length] using hl.symm
  · intro h
    rw [specData, h]

/-! ## The same through `Extension::apply_to_bitmap_accumulator` -/

/-- the (1-based) position of output leaf `i` maps back to `i` … -/
theorem affected_pos_index (i : Nat) : satSub (nLeaves (insertionToPmmrIndex i + 1)) 1 = i := by
  unfold satSub insertionToPmmrIndex
  by_cases h : trailingOnes i = 0
  · have : mmr i + 1 = mmr (i + 1) := by rw [mmr_succ]; omega
    rw [this, C07.nLeaves_at_leaf_boundary]; omega
  · rw [C07.nLeaves_mid i 1 (by omega) (by omega)]; omega

/-- … and the `output_pmmr.size` entry pushed by `rewind_single_block` maps to the last leaf. -/
theorem affected_size_index (n : Nat) : satSub (nLeaves (insertionToPmmrIndex n)) 1 = n - 1 := by
  unfold satSub insertionToPmmrIndex
  rw [C07.nLeaves_at_leaf_boundary]

/-- `min_idx` of `apply_to_bitmap_accumulator` is the minimum of the mapped positions. -/
theorem minIdx_is_min (outputPos : List Nat) (hne : outputPos ≠ []) :
    (∃ p ∈ outputPos, (affectedIdx outputPos).headD 0 = satSub (nLeaves p) 1) ∧
    ∀ p ∈ outputPos, (affectedIdx outputPos).headD 0 ≤ satSub (nLeaves p) 1 := by
  unfold affectedIdx
  cases h : sortNat (outputPos.map fun x => satSub (nLeaves x) 1) with
  | nil =>
    have := (sortNat_eq_nil _).1 h
    simp at this; exact absurd this hne
  | cons a t =>
    obtain ⟨hm, hmin⟩ := sortNat_head _ a t h
    simp only [List.headD_cons]
    constructor
    · obtain ⟨p, hp, e⟩ := List.mem_map.1 hm
      exact ⟨p, hp, e.symm⟩
    · intro p hp
      exact hmin _ (List.mem_map.2 ⟨p, hp, rfl⟩)

/-- **Extension level.** `apply_to_bitmap_accumulator(output_pos)` on an accumulator that is
the from-scratch one of the old state yields the from-scratch accumulator of the new state
(`o.leafSet`, `n_leaves(o.size)` leaves), provided some position is affected, every affected
position lies inside the output MMR, the states agree before the first affected chunk and the
last output leaf is unspent. -/
theorem extApply_eq_scratch (hf : HashFn Nat H)
    (U0 : List Nat) (size0 : Nat) (st0 : Acc H) (o : OutputPmmr) (outputPos : List Nat)
    (hprev : fromScratch hf U0 size0 = some st0)
    (hs0 : U0.Pairwise (· < ·)) (hlt0 : ∀ x ∈ U0, x < size0) (hsz0 : size0 ≤ 2 ^ 64)
    (hs : o.leafSet.Pairwise (· < ·)) (hlt : ∀ x ∈ o.leafSet, x < nLeaves o.size)
    (hne : outputPos ≠ [])
    (hin : ∀ p ∈ outputPos, satSub (nLeaves p) 1 < nLeaves o.size)
    (hagree : o.leafSet.filter (fun x => decide (x < chunkStartIdx ((affectedIdx outputPos).headD 0))) =
      U0.filter (fun x => decide (x < chunkStartIdx ((affectedIdx outputPos).headD 0))))
    (hlast : LastLeafUnspent o.leafSet (nLeaves o.size)) :
    extApply hf st0 o outputPos = fromScratch hf o.leafSet (nLeaves o.size) := by
  obtain ⟨⟨p, hp, hmin⟩, _⟩ := minIdx_is_min outputPos hne
  have hfrom : (affectedIdx outputPos).headD 0 < nLeaves o.size := by rw [hmin]; exact hin p hp
  unfold extApply
  cases h : affectedIdx outputPos with
  | nil =>
    unfold affectedIdx at h
    have := (sortNat_eq_nil _).1 h
    simp at this; exact absurd this hne
  | cons a t =>
    rw [h] at hagree hfrom
    simp only [List.headD_cons] at hagree hfrom ⊢
    exact apply_eq_scratch hf U0 size0 st0 o.leafSet (nLeaves o.size) a t hprev hs0 hlt0 hsz0 hs hlt
      hagree hfrom hlast

/-! ## Every history -/

/-- **Path independence.** Start from the from-scratch accumulator of any state and apply any
sequence of incremental updates (block applications, rewinds, reorganisations — each one an
`apply` from the chunk of its smallest affected index), each of which leaves the last output
leaf unspent (`HistoryOk`): the accumulator reached is the from-scratch accumulator of the final
unspent set, whatever the path. -/
theorem history_eq_scratch (hf : HashFn Nat H) : ∀ (steps : List Step) (U0 : List Nat) (size0 : Nat) (st0 : Acc H),
    fromScratch hf U0 size0 = some st0 →
    U0.Pairwise (· < ·) → (∀ x ∈ U0, x < size0) → size0 ≤ 2 ^ 64 →
    HistoryOk U0 steps →
    run hf st0 steps = fromScratch hf (finalU U0 steps) (finalSize size0 steps) := by
  intro steps
  induction steps with
  | nil => intro U0 size0 st0 h _ _ _ _; simpa [run, finalU, finalSize] using h.symm
  | cons s ss ih =>
    intro U0 size0 st0 hprev hs0 hlt0 hsz0 hok
    obtain ⟨⟨hne, hfrom, hsz, hs, hlt, hlast, hagree⟩, hrest⟩ := hok
    cases hi : s.inval with
    | nil => exact absurd hi hne
    | cons a t =>
      rw [hi] at hfrom hagree
      simp only [List.headD_cons] at hfrom hagree
      have hstep := apply_eq_scratch hf U0 size0 st0 s.U s.size a t hprev hs0 hlt0 hsz0 hs hlt hagree hfrom hlast
      obtain ⟨st1, h1, _⟩ := scratch_structure hf s.U s.size hs hlt hsz
      have hidx : s.idx = s.U.filter (fun x => decide (chunkStartIdx a ≤ x)) := by
        simp [Step.idx, hi]
      simp only [run, finalU, finalSize, hidx, hi, hstep, h1]
      exact ih s.U s.size st1 h1 hs hlt hsz hrest

/-- … hence after every such history the accumulator exists and `as_bitmap` returns exactly the
final unspent set. -/
theorem history_as_bitmap (hf : HashFn Nat H) (steps : List Step) (U0 : List Nat) (size0 : Nat) (st0 : Acc H)
    (hprev : fromScratch hf U0 size0 = some st0)
    (hs0 : U0.Pairwise (· < ·)) (hlt0 : ∀ x ∈ U0, x < size0) (hsz0 : size0 ≤ 2 ^ 64)
    (hok : HistoryOk U0 steps) :
    ∃ st, run hf st0 steps = some st ∧ asBitmap st = some (finalU U0 steps) := by
  have hfin : ∀ (steps : List Step) (U0 : List Nat) (size0 : Nat),
      U0.Pairwise (· < ·) → (∀ x ∈ U0, x < size0) → size0 ≤ 2 ^ 64 → HistoryOk U0 steps →
      (finalU U0 steps).Pairwise (· < ·) ∧ (∀ x ∈ finalU U0 steps, x < finalSize size0 steps) ∧
        finalSize size0 steps ≤ 2 ^ 64 := by
    intro steps
    induction steps with
    | nil => intro U0 size0 a b c _; exact ⟨a, b, c⟩
    | cons s ss ih =>
      intro U0 size0 _ _ _ hok
      obtain ⟨⟨_, _, hsz, hs, hlt, _, _⟩, hrest⟩ := hok
      exact ih s.U s.size hs hlt hsz hrest
  obtain ⟨a, b, c⟩ := hfin steps U0 size0 hs0 hlt0 hsz0 hok
  rw [history_eq_scratch hf steps U0 size0 st0 hprev hs0 hlt0 hsz0 hok]
  exact scratch_as_bitmap hf _ _ a b c

/-! ## The hypothesis is needed -/

/-- **Counter-example without the hypothesis.** Outputs `{5, 2100}` unspent among 2500; spend
2100 (the whole last chunk becomes spent, the last leaf 2499 was spent all along). The
incremental update truncates to the two chunks before chunk 2 (the second one empty) and
`apply_from` then appends nothing; computation from scratch over `{5}` gives one chunk: different accumulators, and
different roots `H(2 | H(0|c) | H(1|0…0))` vs `H(0|c)` for every hash function that does not
collide on this pair. The harness replays this history on the real `BitmapAccumulator`
(`bitmap cex …`): the real roots differ as well. -/
theorem without_hyp_counterexample (hf : HashFn Nat H) :
    ∃ st0 a b, fromScratch hf [5, 2100] 2500 = some st0 ∧
      apply hf st0 [2100] ([5].filter (fun x => decide (chunkStartIdx 2100 ≤ x))) 2500 = some a ∧
      fromScratch hf [5] 2500 = some b ∧
      ¬ LastLeafUnspent [5] 2500 ∧
      a.data = [32, 0] ∧ b.data = [32] ∧ a ≠ b ∧
      root hf a = .ok (hf.node 2 (hf.leaf 0 32) (hf.leaf 1 0)) ∧
      root hf b = .ok (hf.leaf 0 32) := by
  have hs0 : [5, 2100].Pairwise (· ≤ ·) := by decide
  have hs1 : [5].Pairwise (· ≤ ·) := by decide
  have hd0 : specData [5, 2100] = [32, 0, 2 ^ 52] := by decide
  have hd1 : specData [5] = [32] := by decide
  have h0 := init_ofData hf [5, 2100] 2500 hs0 (by decide)
  have h1 := init_ofData hf [5] 2500 hs1 (by decide)
  obtain ⟨hsh0, e0, _⟩ := ofData_some hf (specData [5, 2100]) (by rw [hd0]; decide)
  have hrp := rewind_pad_ofData hf [5, 2100] _ 2100 e0 hs0 (by decide)
  have hk : (List.range (2100 / 1024)).map (chunkOf [5, 2100]) = [32, 0] := by decide
  rw [hk] at hrp
  -- the two accumulators, computed explicitly
  have pmh0 : peakMapHeight 0 = (0, 0) := by simp [peakMapHeight]
  have pmh1 : peakMapHeight 1 = (1, 0) := by
    have := C07.peakMapHeight_coord 1 0 (Nat.zero_le _)
    have e : mmr 1 = 1 := by simp [mmr, popcount]
    simpa [e] using this
  have push0 : ∀ c, push hf [] c = some [hf.leaf 0 c] := by
    intro c; simp [push, pmh0, pushLoop, bitSet]
  have push1 : ∀ (x : H) c, push hf [x] c = some [x, hf.leaf 1 c, hf.node 2 x (hf.leaf 1 c)] := by
    intro x c; simp [push, pmh1, pushLoop, bitSet]
  have ea : ofData hf [32, 0] =
      some { data := [32, 0], hashes := [hf.leaf 0 32, hf.leaf 1 0, hf.node 2 (hf.leaf 0 32) (hf.leaf 1 0)] } := by
    simp [ofData, pushAll, push0, push1]
  have eb : ofData hf [32] = some { data := [32], hashes := [hf.leaf 0 32] } := by
    simp [ofData, pushAll, push0]
  refine ⟨{ data := specData [5, 2100], hashes := hsh0 },
    { data := [32, 0], hashes := [hf.leaf 0 32, hf.leaf 1 0, hf.node 2 (hf.leaf 0 32) (hf.leaf 1 0)] },
    { data := [32], hashes := [hf.leaf 0 32] }, by rw [fromScratch, h0, e0], ?_, by rw [fromScratch, h1, hd1, eb], by decide, rfl, rfl, ?_, ?_, ?_⟩
  · -- the incremental update
    have hfil : ([5].filter (fun x => decide (chunkStartIdx 2100 ≤ x))) = [] := by decide
    rw [hfil]
    unfold apply
    simp only [hrp, ea]
    rw [applyFrom_spec hf _ [] 2100 2500 (by simp) (by simp) (by simp)]
    rfl
  · intro h; injection h with h _; simp at h
  · have pk : peaks 3 = [2] := by
      simp [peaks, peakSizesHeight, greedySizes, scanPeaks, bitLen]
    simp [Bitmap.root, Pmmr.root, peakHashes, pk, bag]
  · have pk : peaks 1 = [0] := by
      simp [peaks, peakSizesHeight, greedySizes, scanPeaks, bitLen]
    simp [Bitmap.root, Pmmr.root, peakHashes, pk, bag]

/-! ## The header commits to the bitmap root -/

/-- From header version 3 on the output root commits to the bitmap root: with a collision-free
`(idx, (l, r))` hash, a header whose output root was computed over another bitmap root (same
output PMMR root and size) fails `TxHashSetRoots::validate`. -/
theorem merged_root_binds [DecidableEq H] (hf : HashFn Nat H)
    (hinj : ∀ i l r l' r', hf.node i l r = hf.node i l' r' → l = l' ∧ r = r')
    (r : TxHashSetRoots H) (h : HeaderRoots H) (b' : H)
    (hv : 3 ≤ h.version)
    (hcommit : h.outputRoot = mergedRoot hf r.pmmrRoot b' h.outputMmrSize)
    (hne : b' ≠ r.bitmapRoot) :
    validateRoots hf r h = false := by
  have hv' : ¬ h.version < 3 := by omega
  have : h.outputRoot ≠ outputRoot hf h.version r.pmmrRoot r.bitmapRoot h.outputMmrSize := by
    rw [hcommit, outputRoot, if_neg hv']
    intro e
    exact hne (hinj _ _ _ _ _ e).2
  simp [validateRoots, this]

/-- … and an honest header (any version) passes. -/
theorem honest_header_validates [DecidableEq H] (hf : HashFn Nat H) (r : TxHashSetRoots H) (h : HeaderRoots H)
    (ho : h.outputRoot = outputRoot hf h.version r.pmmrRoot r.bitmapRoot h.outputMmrSize)
    (hr : h.rangeProofRoot = r.rproofRoot) (hk : h.kernelRoot = r.kernelRoot) :
    validateRoots hf r h = true := by
  simp [validateRoots, ho, hr, hk]

/-- What the code does for header versions 1–2: the bitmap root is not part of the comparison. -/
theorem bitmap_not_committed_before_v3 [DecidableEq H] (hf : HashFn Nat H) (r : TxHashSetRoots H)
    (h : HeaderRoots H) (b' : H) (hv : h.version < 3) :
    validateRoots hf { r with bitmapRoot := b' } h = validateRoots hf r h := by
  simp [validateRoots, outputRoot, hv]

/-! ## Non-vacuity -/

-- hypotheses of `apply_eq_scratch` are satisfiable by a non-trivial update: outputs {5, 2100,
-- 2499} of 2500, spend 2100 in the last chunk (first affected index 2100, chunk start 2048)
example : [5, 2100, 2499].Pairwise (· < ·) ∧ (∀ x ∈ [5, 2100, 2499], x < 2500) ∧
    [5, 2499].Pairwise (· < ·) ∧ (∀ x ∈ [5, 2499], x < 2500) ∧
    [5, 2499].filter (fun x => decide (x < chunkStartIdx 2100)) =
      [5, 2100, 2499].filter (fun x => decide (x < chunkStartIdx 2100)) ∧
    2100 < 2500 ∧ LastLeafUnspent [5, 2499] 2500 ∧ chunkStartIdx 2100 = 2048 := by decide

-- a two-step history satisfying `HistoryOk`: spend 2100, then a rewind that shrinks the output
-- set across the chunk boundary at 2048 (new last leaf 2047 restored)
example : HistoryOk [5, 2047, 2100, 2499]
    [{ inval := [2100], U := [5, 2047, 2499], size := 2500 },
     { inval := [2047], U := [5, 2047], size := 2048 }] := by
  simp only [HistoryOk, StepOk]; decide

-- the structure lemma on a concrete set: 3 chunks although only two are non-empty
example : nChunks [5, 2100] = 3 ∧ specData [5, 2100] = [2 ^ 5, 0, 2 ^ (2100 - 2048)] := by decide

-- `merged_root_binds` applies to a free term algebra hash (injective constructors)
inductive T | leaf (i e : Nat) | node (i : Nat) (l r : T)
deriving DecidableEq
example : ∀ i l r l' r', (⟨T.leaf, T.node⟩ : HashFn Nat T).node i l r = (⟨T.leaf, T.node⟩ : HashFn Nat T).node i l' r' →
    l = l' ∧ r = r' := by
  intro i l r l' r' h; injection h with _ h1 h2; exact ⟨h1, h2⟩

end GV.Props.C15
