import GrinVerif.Model.ChainReport
import GrinVerif.Lemmas.ChainImplRefine
import GrinVerif.Lemmas.PmmrCoord
/-! C02, the other reporting paths of the unspent set (`Model/ChainReport.lean`:
`Chain::unspent_outputs_by_pmmr_index` = `ReadonlyPMMR::elements_from_pmmr_index`,
`get_unspent_output_at`).

* `getDataAt_eq_some`: a position of the output MMR yields data iff it is the position `mmr i` of a
  leaf `i` that exists and is still in the leaf set - parents, positions beyond the size and spent
  leaves yield nothing;
* `elemLoop_spec` / `enum_window`: the enumeration returns, in position order, exactly the data at
  the positions of its window `[start-1, bound)`, cut after `max_count` items - nothing is skipped,
  nothing is reported twice, nothing outside the window;
* `enum_pages`: reading in pages (the next page starts behind the position the previous one
  stopped at) yields the same list as one call;
* `scan_all`: scanning every position below the size finds exactly the unspent leaves in insertion
  order, hence `enum_all`: the whole enumeration is `unspentByPos`, and with the representation
  invariant of the txhashset (`RInv`, kept by every apply / rewind: `Lemmas/ChainImpl*`) the
  outputs it names are exactly the outputs `get_unspent` reports (`enum_all_reports_reported`). -/

namespace GV.Props.C02Report
open GV GV.Chain GV.Chain.TxHS GV.Pmmr

/-- `pmmr_leaf_to_insertion_index pos = some i` iff `pos` is the position of leaf `i` -/
theorem leafIndex_eq_some (pos i : Nat) : pmmrLeafToInsertionIndex pos = some i ↔ pos = mmr i := by
  obtain ⟨n, h, hh, hp⟩ := Co.coord_surj pos
  unfold pmmrLeafToInsertionIndex
  rw [hp, Co.peakMapHeight_co n h hh]
  simp only
  constructor
  · intro e
    split at e
    · rename_i h0
      injection e with e
      subst e; simp [h0]
    · cases e
  · intro e
    have := Co.coord_inj hh (Nat.zero_le (trailingOnes i)) (by simpa using e)
    simp [this.1, this.2]

theorem leafIndex_mmr (i : Nat) : pmmrLeafToInsertionIndex (mmr i) = some i :=
  (leafIndex_eq_some _ _).mpr rfl

/-- what a position of the output MMR yields: the data of leaf `i` iff the position is `mmr i`,
the leaf exists and is in the leaf set -/
theorem getDataAt_eq_some (S : TxHS) (pos0 c : Nat) :
    S.getDataAt pos0 = some c ↔ ∃ i, pos0 = mmr i ∧ i < S.leaves.length ∧ S.getData i = some c := by
  unfold getDataAt mmrSize
  constructor
  · intro h
    split at h
    · cases h
    · rename_i hlt
      split at h
      · rename_i i hi
        have hp := (leafIndex_eq_some pos0 i).mp hi
        refine ⟨i, hp, ?_, h⟩
        apply Classical.byContradiction
        intro hc
        have := Co.mmr_le_mmr (show S.leaves.length ≤ i by omega)
        omega
      · cases h
  · rintro ⟨i, hp, hi, hd⟩
    have := Co.mmr_lt_mmr hi
    rw [if_neg (by omega), hp, leafIndex_mmr]
    exact hd

theorem getDataAt_mmr (S : TxHS) (i : Nat) (hi : i < S.leaves.length) :
    S.getDataAt (mmr i) = S.getData i := by
  unfold getDataAt mmrSize
  have := Co.mmr_lt_mmr hi
  rw [if_neg (by omega), leafIndex_mmr]

/-- a position strictly between two leaf positions is a parent: no data -/
theorem getDataAt_parent (S : TxHS) (i h : Nat) (h1 : 1 ≤ h) (h2 : h ≤ trailingOnes i) :
    S.getDataAt (mmr i + h) = none := by
  cases hd : S.getDataAt (mmr i + h) with
  | none => rfl
  | some c =>
    obtain ⟨j, hp, _, _⟩ := (getDataAt_eq_some S _ c).mp hd
    have := Co.coord_inj h2 (Nat.zero_le (trailingOnes j)) (by simpa using hp)
    omega

/-- the loop of `elements_from_pmmr_index`, exactly: the data found at the positions it walks, in
order, cut after `room` items -/
theorem elemLoop_spec (S : TxHS) (size : Nat) :
    ∀ fuel idx room, fuel = size - idx →
      (S.elemLoop size fuel idx room).2 = ((List.range' idx fuel).filterMap S.getDataAt).take room := by
  intro fuel
  induction fuel with
  | zero => intro idx room _; simp [elemLoop]
  | succ k ih =>
    intro idx room hf
    unfold elemLoop
    by_cases hr : room = 0
    · simp [hr]
    · have hlt : ¬ size ≤ idx := by omega
      rw [if_neg (by simp [hr, hlt])]
      rw [List.range'_succ, List.filterMap_cons]
      cases hd : S.getDataAt idx with
      | none => simp only; exact ih (idx+1) room (by omega)
      | some c =>
        simp only
        rw [ih (idx+1) (room-1) (by omega)]
        obtain ⟨r, rfl⟩ : ∃ r, room = r + 1 := ⟨room - 1, by omega⟩
        simp

/-- `elements_from_pmmr_index(start, max_count, bound)`: the data at the positions of the window
`[start-1, bound)`, in position order, cut after `max_count` items -/
theorem enum_window (S : TxHS) (start maxCount : Nat) (maxIdx : Option Nat) :
    (S.elementsFromPmmrIndex start maxCount maxIdx).2 =
      ((List.range' (start - 1) (S.enumBound maxIdx - (start - 1))).filterMap S.getDataAt).take maxCount := by
  unfold elementsFromPmmrIndex
  exact elemLoop_spec S _ _ _ _ rfl

/-- **a bound beyond the MMR is the MMR's size** (repair 565fae636: the loop no longer walks to the
requested bound): any requested upper bound at or beyond the size gives the answer of no bound at
all - same outputs, same position after the last one looked at, which is at most the size -/
theorem enum_bound_clamped (S : TxHS) (start maxCount bound : Nat) (h : S.mmrSize ≤ bound) :
    S.elementsFromPmmrIndex start maxCount (some bound) = S.elementsFromPmmrIndex start maxCount none := by
  unfold elementsFromPmmrIndex enumBound
  simp only [Nat.min_eq_right h]


/-- where the loop stops: behind the last position it looked at, never beyond the bound when it
started below it -/
theorem elemLoop_next_le (S : TxHS) (size : Nat) :
    ∀ fuel idx room, idx ≤ size → idx ≤ (S.elemLoop size fuel idx room).1 ∧ (S.elemLoop size fuel idx room).1 ≤ size := by
  intro fuel
  induction fuel with
  | zero => intro idx room h; simp [elemLoop, h]
  | succ k ih =>
    intro idx room h
    unfold elemLoop
    split
    · exact ⟨Nat.le_refl _, h⟩
    · rename_i hc
      have hlt : idx + 1 ≤ size := by
        simp only [not_or] at hc; omega
      cases S.getDataAt idx with
      | none => simp only; have := ih (idx+1) room hlt; omega
      | some c => simp only; have := ih (idx+1) (room-1) hlt; omega

/-- reading in pages: a first call for `a` items, then a call for `b` items that starts at the
position the first one stopped at (the API passes `last index + 1`, the function subtracts 1),
returns what one call for `a + b` items returns, and stops at the same position -/
theorem elemLoop_pages (S : TxHS) (size : Nat) :
    ∀ fuel idx a b, fuel = size - idx →
      let r1 := S.elemLoop size fuel idx a
      let r2 := S.elemLoop size (size - r1.1) r1.1 b
      a ≠ 0 → S.elemLoop size fuel idx (a + b) = (r2.1, r1.2 ++ r2.2) := by
  intro fuel
  induction fuel with
  | zero =>
    intro idx a b hf r1 r2 _
    have h0 : size - idx = 0 := by omega
    show S.elemLoop size 0 idx (a + b) = (r2.1, r1.2 ++ r2.2)
    simp only [r2, r1, elemLoop, h0, List.append_nil]
  | succ k ih =>
    intro idx a b hf
    intro r1 r2 ha
    have hlt : ¬ size ≤ idx := by omega
    have e1 : S.elemLoop size (k+1) idx a =
        (match S.getDataAt idx with
         | some c => ((S.elemLoop size k (idx+1) (a-1)).1, c :: (S.elemLoop size k (idx+1) (a-1)).2)
         | none => S.elemLoop size k (idx+1) a) := by
      rw [elemLoop]; rw [if_neg (by simp [ha, hlt])]; rfl
    have e2 : S.elemLoop size (k+1) idx (a+b) =
        (match S.getDataAt idx with
         | some c => ((S.elemLoop size k (idx+1) (a+b-1)).1, c :: (S.elemLoop size k (idx+1) (a+b-1)).2)
         | none => S.elemLoop size k (idx+1) (a+b)) := by
      rw [elemLoop]; rw [if_neg (by simp [hlt]; omega)]; rfl
    show S.elemLoop size (k+1) idx (a+b) = (r2.1, r1.2 ++ r2.2)
    have hr1 : r1 = S.elemLoop size (k+1) idx a := rfl
    cases hd : S.getDataAt idx with
    | none =>
      rw [hd] at e1 e2
      have := ih (idx+1) a b (by omega) ha
      rw [e2, this]
      have hr : r1 = S.elemLoop size k (idx+1) a := by rw [hr1, e1]
      show _ = (r2.1, r1.2 ++ r2.2)
      simp only [r2, hr]
    | some c =>
      rw [hd] at e1 e2
      by_cases ha1 : a - 1 = 0
      · -- the first page is full after this item: the second page starts right behind it
        have ha' : a = 1 := by omega
        subst ha'
        have hz : S.elemLoop size k (idx+1) 0 = (idx+1, []) := by
          cases k <;> simp [elemLoop]
        have hr : r1 = (idx+1, [c]) := by rw [hr1, e1]; simp [hz]
        rw [e2]
        have hb : 1 + b - 1 = b := by omega
        rw [hb]
        show _ = (r2.1, r1.2 ++ r2.2)
        have hk : size - (idx + 1) = k := by omega
        simp only [r2, hr, hk]
        rfl
      · have := ih (idx+1) (a-1) b (by omega) ha1
        have hab : a + b - 1 = (a - 1) + b := by omega
        rw [e2, hab, this]
        have hr : r1 = ((S.elemLoop size k (idx+1) (a-1)).1, c :: (S.elemLoop size k (idx+1) (a-1)).2) := by
          rw [hr1, e1]
        show _ = (r2.1, r1.2 ++ r2.2)
        simp only [r2, hr]
        rfl

/-- the positions `[mmr i, mmr (i+1))` of leaf `i` and the parents completed by it yield the data of
leaf `i` only -/
theorem scan_leaf_block (S : TxHS) (i : Nat) (hi : i < S.leaves.length) :
    (List.range' (mmr i) (mmr (i+1) - mmr i)).filterMap S.getDataAt = (S.getData i).toList := by
  have hs := mmr_succ i
  have e : mmr (i+1) - mmr i = 1 + trailingOnes i := by omega
  rw [e, Nat.add_comm, List.range'_succ, List.filterMap_cons, getDataAt_mmr S i hi]
  have hnone : (List.range' (mmr i + 1) (trailingOnes i)).filterMap S.getDataAt = [] := by
    rw [List.filterMap_eq_nil_iff]
    intro p hp
    rw [List.mem_range'_1] at hp
    have := getDataAt_parent S i (p - mmr i) (by omega) (by omega)
    rwa [show mmr i + (p - mmr i) = p by omega] at this
  rw [hnone]
  cases S.getData i <;> rfl

/-- scanning every position below the position of leaf `n` finds the unspent leaves below `n`, in
insertion order -/
theorem scan_prefix (S : TxHS) : ∀ n, n ≤ S.leaves.length →
    (List.range' 0 (mmr n)).filterMap S.getDataAt = (List.range n).filterMap S.getData := by
  intro n
  induction n with
  | zero => intro _; simp [Co.mmr_zero]
  | succ k ih =>
    intro hk
    have hle := Co.mmr_le_mmr (show k ≤ k + 1 by omega)
    have e : mmr (k+1) = mmr k + (mmr (k+1) - mmr k) := by omega
    rw [e, ← List.range'_append_1, List.filterMap_append, ih (by omega), Nat.zero_add,
      scan_leaf_block S k (by omega), List.range_succ, List.filterMap_append]
    congr 1

/-- scanning the whole MMR finds exactly the unspent leaves, in insertion (= position) order -/
theorem scan_all (S : TxHS) :
    (List.range' 0 S.mmrSize).filterMap S.getDataAt = (List.range S.leaves.length).filterMap S.getData :=
  scan_prefix S _ (Nat.le_refl _)

theorem unspentByPos_snd (S : TxHS) :
    S.unspentByPos.map (·.2) = (List.range S.leaves.length).filterMap S.getData := by
  unfold unspentByPos
  rw [List.map_filterMap]
  congr 1
  funext i
  cases S.getData i <;> rfl

/-- `unspent_outputs_by_pmmr_index(start ≤ 1, max_count ≥ number of leaves, None)`: the whole
enumeration names exactly the unspent leaves, in position order -/
theorem enum_all (S : TxHS) (start maxCount : Nat) (hs : start ≤ 1) (hc : S.leaves.length ≤ maxCount) :
    (S.unspentOutputsByPmmrIndex start maxCount none).2.2 = S.unspentByPos.map (·.2) := by
  unfold unspentOutputsByPmmrIndex
  simp only
  rw [enum_window, unspentByPos_snd]
  have h0 : start - 1 = 0 := by omega
  simp only [h0, enumBound, Nat.sub_zero]
  rw [scan_all]
  apply List.take_of_length_le
  calc _ ≤ (List.range S.leaves.length).length := List.length_filterMap_le _ _
    _ = S.leaves.length := List.length_range
    _ ≤ maxCount := hc

/-- an output is named by the scan of the unspent leaves iff `get_unspent` reports it (under the
representation invariant of the txhashset) -/
theorem mem_scan_iff_reported {S : TxHS} (hi : RInv S) (c : Nat) :
    c ∈ (List.range S.leaves.length).filterMap S.getData ↔ c ∈ S.reported := by
  rw [reported_iff hi, List.mem_filterMap]
  constructor
  · rintro ⟨i, _, hd⟩
    obtain ⟨h1, h2⟩ := (getData_eq_some S i c).mp hd
    obtain ⟨h, e⟩ := hi.indexed i h1 c h2
    simp [e]
  · intro h
    cases hp : S.getOutputPos c with
    | none => rw [hp] at h; cases h
    | some cp =>
      obtain ⟨h1, h2⟩ := hi.points c cp hp
      exact ⟨cp.pos, List.mem_range.mpr (hi.bound _ h1), (getData_eq_some S cp.pos c).mpr ⟨h1, h2⟩⟩

/-- the whole enumeration names exactly the outputs `get_unspent` reports: with
`reported_is_impl_of_head_path` (Props/C02) that is the replay of the head's own path -/
theorem enum_all_reports_reported {S : TxHS} (hi : RInv S) (start maxCount : Nat) (hs : start ≤ 1)
    (hc : S.leaves.length ≤ maxCount) (c : Nat) :
    c ∈ (S.unspentOutputsByPmmrIndex start maxCount none).2.2 ↔ c ∈ S.reported := by
  rw [enum_all S start maxCount hs hc, unspentByPos_snd, mem_scan_iff_reported hi]

/-- whatever the window, only unspent outputs are named (under the invariant: only outputs
`get_unspent` reports) -/
theorem enum_only_reported {S : TxHS} (hi : RInv S) (start maxCount : Nat) (maxIdx : Option Nat) (c : Nat)
    (h : c ∈ (S.unspentOutputsByPmmrIndex start maxCount maxIdx).2.2) : c ∈ S.reported := by
  unfold unspentOutputsByPmmrIndex at h
  simp only at h
  rw [enum_window] at h
  have h2 := List.mem_of_mem_take h
  rw [List.mem_filterMap] at h2
  obtain ⟨p, _, hd⟩ := h2
  obtain ⟨i, _, hlt, hg⟩ := (getDataAt_eq_some S p c).mp hd
  exact (mem_scan_iff_reported hi c).mp (List.mem_filterMap.mpr ⟨i, List.mem_range.mpr hlt, hg⟩)

/-- `get_unspent_output_at(pos0)` finds an output iff `pos0` is the position of an unspent leaf -/
theorem outputAt_ok_iff (S : TxHS) (pos0 c : Nat) :
    S.getUnspentOutputAt pos0 = .ok c ↔ ∃ i, pos0 = mmr i ∧ i < S.leaves.length ∧ S.getData i = some c := by
  unfold getUnspentOutputAt
  rw [← getDataAt_eq_some]
  cases S.getDataAt pos0 <;> simp

/-! ### what compaction receives as "spent above the horizon" (`input_pos_to_rewind`) -/

/-- the walk returns exactly the positions listed in the spent-index records of the blocks ON THE
HEAD'S OWN PATH that lie strictly above the horizon height: a block of another fork never
contributes whatever its height and records, the horizon block itself never does (`>`), a block
without a record contributes nothing -/
theorem mem_inputPosToRewind (n : Node) (S : TxHS) (hh x : Nat) :
    x ∈ inputPosToRewind n S hh ↔
      ∃ p, n.path n.head = some p ∧ ∃ b ∈ p, b.h > hh ∧
        ∃ l, S.getSpentIndex b.id = some l ∧ ∃ cp ∈ l, x = mmr cp.pos + 1 := by
  unfold inputPosToRewind
  cases hp : n.path n.head with
  | none => simp
  | some p =>
    simp only [List.mem_flatMap, List.mem_reverse, List.mem_filter, decide_eq_true_eq, Option.some.injEq]
    constructor
    · rintro ⟨b, ⟨hb, hgt⟩, hx⟩
      cases hl : S.getSpentIndex b.id with
      | none => rw [hl] at hx; simp at hx
      | some l =>
        rw [hl] at hx
        simp only [List.mem_map] at hx
        obtain ⟨cp, hcp, rfl⟩ := hx
        exact ⟨p, rfl, b, hb, hgt, l, hl, cp, hcp, rfl⟩
    · rintro ⟨p', rfl, b, hb, hgt, l, hl, cp, hcp, rfl⟩
      refine ⟨b, ⟨hb, hgt⟩, ?_⟩
      rw [hl]
      exact List.mem_map.mpr ⟨cp, hcp, rfl⟩

/-- what the head block spent is protected whenever the head lies above the horizon -/
theorem head_spends_protected (n : Node) (S : TxHS) (hh : Nat) (p : List Blk) (b : Blk) (l : List CommitPos)
    (cp : CommitPos) (hp : n.path n.head = some p) (hb : b ∈ p) (hgt : b.h > hh)
    (hl : S.getSpentIndex b.id = some l) (hcp : cp ∈ l) :
    mmr cp.pos + 1 ∈ inputPosToRewind n S hh :=
  (mem_inputPosToRewind n S hh _).mpr ⟨p, hp, b, hb, hgt, l, hl, cp, hcp, rfl⟩

/-- deleting the spent-index record of a block (or never having one) removes exactly that block's
contribution: the walk skips it and goes on -/
theorem inputPosToRewind_without_record (n : Node) (S : TxHS) (hh x : Nat)
    (h : x ∈ inputPosToRewind n S hh) : ∃ (b : Blk) (l : List CommitPos), S.getSpentIndex b.id = some l ∧ b.h > hh := by
  obtain ⟨_, _, b, _, hgt, l, hl, _⟩ := (mem_inputPosToRewind n S hh x).mp h
  exact ⟨b, l, hl, hgt⟩

/-! non-vacuity: a txhashset with a spent leaf in the middle (leaves 0..3 at positions 0, 1, 3, 4;
leaf 1 spent) -/
private def S4 : TxHS :=
  { leaves := [10, 11, 12, 13], leafSet := [0, 2, 3],
    outputPos := [(10, ⟨0, 0⟩), (12, ⟨2, 1⟩), (13, ⟨3, 1⟩)] }

example : (S4.unspentOutputsByPmmrIndex 1 100 none).2.2 = [10, 12, 13] := by
  rw [enum_all S4 1 100 (by decide) (by decide), unspentByPos_snd]; decide
example : S4.getUnspentOutputAt (mmr 2) = .ok 12 :=
  (outputAt_ok_iff S4 _ 12).mpr ⟨2, rfl, by decide, by decide⟩
/-- the invariant hypothesis is the one every reachable txhashset satisfies (`RInv.empty`,
`applyBlocks_ok`, `rewind…` in `Lemmas/ChainImpl*`; concrete instances in `Props/C02`) -/
example : RInv ({} : TxHS) := RInv.empty

end GV.Props.C02Report
