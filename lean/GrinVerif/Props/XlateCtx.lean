import GrinVerif.Model.PowEntry
import GrinVerif.Model.TxBlock
import GrinVerif.Model.Pool
import GrinVerif.Gen.FnsCtx
/-! # PoW context constructors and `Block::verify_kernel_lock_heights`, translated from the current source

`Gen/FnsCtx.lean` (tools/rs2lean.py, phase 5): `CuckooParams::new` (core/src/pow/common.rs), `new_cuckaroo_ctx` /
`new_cuckarood_ctx` / `new_cuckaroom_ctx` / `new_cuckarooz_ctx` (the `Box<dyn PoWContext>` they return is the
one-field context struct, i.e. its `params`), `Block::verify_kernel_lock_heights` (`self.kernels()` and
`self.header.height` as parameters).  Tied to `Model/PowEntry.lean` (`numEdges`, `edgeMaskRel`, `nodeBitsOf`) and
`Model/TxBlock.lean` (`verifyKernelLockHeights`). -/
namespace GV.Props.XlateCtx
open GV GV.Gen GV.Pow

/-! ## `CuckooParams::new`: a `u64` shifted by a `u8` uses the low six bits of the amount -/

theorem shl_one (b : Nat) : shlW 1 b = 2^(b % 64) := by
  unfold shlW
  rw [Nat.one_mul]
  exact Nat.mod_eq_of_lt (Nat.pow_lt_pow_right (by omega) (Nat.mod_lt _ (by omega)))

theorem sub_one_pow (b : Nat) : subW (2^(b % 64)) 1 = 2^(b % 64) - 1 := by
  have h1 : 0 < 2^(b % 64) := Nat.pow_pos (by omega)
  have h2 : 2^(b % 64) < 2^64 := Nat.pow_lt_pow_right (by omega) (Nat.mod_lt _ (by omega))
  unfold subW; omega

/-- `CuckooParams::new(edge_bits, node_bits, proof_size)` never fails; `num_edges` / `edge_mask` are the model's
`numEdges` / `edgeMaskRel` for EVERY `edge_bits` (also ≥ 64: the shift amount is masked), `node_mask = 2^(node_bits % 64) - 1`,
the siphash keys start as four zeros -/
theorem CuckooParams_new_eq (eb nb ps : Nat) :
    Fns.CuckooParams_new eb nb ps =
      some { proof_size := ps, num_edges := numEdges eb, siphash_keys := [0, 0, 0, 0],
             edge_mask := edgeMaskRel eb, node_mask := 2^(nb % 64) - 1 } := by
  unfold Fns.CuckooParams_new numEdges edgeMaskRel
  simp only [shl_one, sub_one_pow]
  rfl

/-- the model's `numEdges` / `edgeMaskRel` at ordinary sizes -/
example : Fns.CuckooParams_new 29 29 42 = some ⟨42, 2^29, [0, 0, 0, 0], 2^29 - 1, 2^29 - 1⟩ := by
  rw [CuckooParams_new_eq]; rfl
/-- … and at 64: `1u64 << 64` is `1` in a release build -/
example : Fns.CuckooParams_new 64 64 42 = some ⟨42, 1, [0, 0, 0, 0], 0, 0⟩ := by
  rw [CuckooParams_new_eq]; rfl

/-! ## `new_*_ctx`: which `node_bits` each variant hands to `CuckooParams::new` (`u8` arithmetic) -/

theorem new_cuckaroo_ctx_eq (eb ps : Nat) :
    Fns.new_cuckaroo_ctx eb ps = Fns.CuckooParams_new eb (nodeBitsOf .cuckaroo eb) ps := by
  unfold Fns.new_cuckaroo_ctx nodeBitsOf
  rw [CuckooParams_new_eq]

theorem new_cuckaroom_ctx_eq (eb ps : Nat) :
    Fns.new_cuckaroom_ctx eb ps = Fns.CuckooParams_new eb (nodeBitsOf .cuckaroom eb) ps := by
  unfold Fns.new_cuckaroom_ctx nodeBitsOf
  rw [CuckooParams_new_eq]

/-- `edge_bits - 1` on a `u8`: wraps to 255 at 0 -/
theorem new_cuckarood_ctx_eq (eb ps : Nat) (h : eb < 256) :
    Fns.new_cuckarood_ctx eb ps = Fns.CuckooParams_new eb (nodeBitsOf .cuckarood eb) ps := by
  unfold Fns.new_cuckarood_ctx nodeBitsOf
  have e : Fns.subN 8 eb 1 = (eb + 255) % 256 := by unfold Fns.subN; omega
  rw [e, CuckooParams_new_eq]

/-- `edge_bits + 1` on a `u8`: wraps to 0 at 255 -/
theorem new_cuckarooz_ctx_eq (eb ps : Nat) :
    Fns.new_cuckarooz_ctx eb ps = Fns.CuckooParams_new eb (nodeBitsOf .cuckarooz eb) ps := by
  unfold Fns.new_cuckarooz_ctx nodeBitsOf
  have e : Fns.addN 8 eb 1 = (eb + 1) % 256 := by unfold Fns.addN; omega
  rw [e, CuckooParams_new_eq]

theorem new_ctx_ok (eb ps : Nat) :
    Fns.new_cuckaroo_ctx_ok eb ps = true ∧ Fns.new_cuckarood_ctx_ok eb ps = true ∧
    Fns.new_cuckaroom_ctx_ok eb ps = true ∧ Fns.new_cuckarooz_ctx_ok eb ps = true := by
  unfold Fns.new_cuckaroo_ctx_ok Fns.new_cuckarood_ctx_ok Fns.new_cuckaroom_ctx_ok Fns.new_cuckarooz_ctx_ok
  simp only [CuckooParams_new_eq, and_self]

example : (Fns.new_cuckarood_ctx 0 42).map (·.node_mask) = some (2^63 - 1) := by
  rw [new_cuckarood_ctx_eq 0 42 (by omega), CuckooParams_new_eq]; rfl
example : (Fns.new_cuckarooz_ctx 255 42).map (·.node_mask) = some 0 := by
  rw [new_cuckarooz_ctx_eq, CuckooParams_new_eq]; rfl

/-! ## `Block::verify_kernel_lock_heights` -/

/-- the generated kernel of the model's kernel `k` (features tag 2 = `HeightLocked`) -/
def toK (M : Tx.KMeta) (k : Nat) : Fns.TxKernel :=
  ⟨if M.feat k == 2 then .HeightLocked (M.fee k) (M.lock k)
   else if M.feat k == 1 then .Coinbase
   else if M.feat k == 3 then .NoRecentDuplicate (M.fee k) (M.lock k)
   else .Plain (M.fee k)⟩

theorem lock_loop_eq (M : Tx.KMeta) (h : Nat) (ks : List Nat) :
    Fns.Block_verify_kernel_lock_heights_loop1 h (ks.map (toK M)) =
      (match Tx.verifyKernelLockHeights M h ks with | none => .go () | some _ => .ret none) := by
  induction ks with
  | nil => rfl
  | cons k t ih =>
    rw [List.map_cons]
    conv => lhs; unfold Fns.Block_verify_kernel_lock_heights_loop1
    unfold Tx.verifyKernelLockHeights
    by_cases h2 : (M.feat k == 2) = true
    · by_cases hl : M.lock k > h
      · simp [toK, h2, hl]
      · simp [toK, h2, hl, ih]
    · by_cases h1 : (M.feat k == 1) = true
      · simp [toK, h2, h1, ih]
      · by_cases h3 : (M.feat k == 3) = true
        · simp [toK, h2, h1, h3, ih]
        · simp [toK, h2, h1, h3, ih]

/-- **`verify_kernel_lock_heights` = the model**: accepted iff the model finds no height-locked kernel above the header height -/
theorem verify_kernel_lock_heights_eq (M : Tx.KMeta) (h : Nat) (ks : List Nat) :
    Fns.Block_verify_kernel_lock_heights (ks.map (toK M)) h =
      (match Tx.verifyKernelLockHeights M h ks with | none => some () | some _ => none) := by
  unfold Fns.Block_verify_kernel_lock_heights
  rw [lock_loop_eq]
  cases Tx.verifyKernelLockHeights M h ks <;> rfl

example : Fns.Block_verify_kernel_lock_heights [⟨.Plain 1⟩, ⟨.HeightLocked 2 11⟩] 10 = none := by decide
example : Fns.Block_verify_kernel_lock_heights [⟨.Plain 1⟩, ⟨.HeightLocked 2 10⟩] 10 = some () := by decide


/-! ## `Block::verify_nrd_kernels_for_header_version` (`global::is_nrd_enabled()` = the parameter `nrd_enabled`) -/

theorem is_nrd_toK (M : Tx.KMeta) (k : Nat) : Fns.TxKernel_is_nrd (toK M k).features = (M.feat k == 3) := by
  unfold Fns.TxKernel_is_nrd Fns.KernelFeatures_is_nrd toK
  by_cases h2 : (M.feat k == 2) = true
  · have : (M.feat k == 3) = false := by
      have := beq_iff_eq.1 h2; simp [this]
    simp [h2, this]
  · by_cases h1 : (M.feat k == 1) = true
    · have : (M.feat k == 3) = false := by
        have := beq_iff_eq.1 h1; simp [this]
      simp [h2, h1, this]
    · by_cases h3 : (M.feat k == 3) = true
      · simp [h2, h1, h3]
      · simp [h2, h1, h3]

/-- **`verify_nrd_kernels_for_header_version` = the model** (accepted iff the model answers no error) -/
theorem verify_nrd_kernels_for_header_version_eq (M : Tx.KMeta) (en : Bool) (version : Nat) (ks : List Nat) :
    Fns.Block_verify_nrd_kernels_for_header_version en (ks.map (toK M)) version =
      (match Tx.verifyNrdForHeaderVersion M en version ks with | none => some () | some _ => none) := by
  unfold Fns.Block_verify_nrd_kernels_for_header_version Tx.verifyNrdForHeaderVersion
  have hany : List.any (ks.map (toK M)) (fun k => Fns.TxKernel_is_nrd k.features) = ks.any (fun k => M.feat k == 3) := by
    rw [List.any_map]; congr 1; funext k; exact is_nrd_toK M k
  rw [hany]
  cases ks.any (fun k => M.feat k == 3) <;> cases en <;> by_cases hv : version < 4 <;> simp [hv]

example : Fns.Block_verify_nrd_kernels_for_header_version true [⟨.NoRecentDuplicate 1 5⟩] 3 = none := by decide
example : Fns.Block_verify_nrd_kernels_for_header_version true [⟨.NoRecentDuplicate 1 5⟩] 4 = some () := by decide


/-! ## `TransactionPool::is_acceptable` (fees, pool sizes and limits as parameters) -/

/-- **`is_acceptable` = the model's decision**: accepted iff `TxPool.isAcceptable` answers no error (which error —
`LowFeeTransaction` before `OverCapacity` — is pinned by the shape tables; the translation drops error identities) -/
theorem is_acceptable_eq (c : Pool.Ctx) (s : Pool.TxPool) (t : Pool.Tx) (stem : Bool) (tx : Fns.Transaction) :
    Fns.TransactionPool_is_acceptable tx stem t.shiftedFee (t.acceptFee c.cfg) s.txpool.length c.cfg.maxPool
        s.stempool.length c.cfg.maxStem =
      (match s.isAcceptable c t stem with | none => some () | some _ => none) := by
  unfold Fns.TransactionPool_is_acceptable Pool.TxPool.isAcceptable
  by_cases h1 : t.shiftedFee < t.acceptFee c.cfg
  · simp [h1]
  · by_cases h2 : s.txpool.length > c.cfg.maxPool
    · simp [h1, h2]
    · cases stem <;> by_cases h3 : s.stempool.length > c.cfg.maxStem <;> simp [h1, h2, h3]

example (tx : Fns.Transaction) : Fns.TransactionPool_is_acceptable tx true 10 5 3 50 60 50 = none := by
  simp [Fns.TransactionPool_is_acceptable]
example (tx : Fns.Transaction) : Fns.TransactionPool_is_acceptable tx false 10 5 3 50 60 50 = some () := by
  simp [Fns.TransactionPool_is_acceptable]


/-! ## `Graph::new`: the size bound reached from `CuckatooContext::new_impl` before anything is verified -/

/-- `Graph::new(max_edges, ..)` fails ("graph is to big to build") exactly when `max_edges >= u64::MAX / 2` -/
theorem Graph_new_isNone (me ms ps : Nat) :
    (Fns.Graph_new me ms ps).isNone = decide (me ≥ U64MAX / 2) := by
  unfold Fns.Graph_new
  by_cases h : me ≥ 18446744073709551615 / 2
  · have : me ≥ U64MAX / 2 := h
    simp [h, this]
  · have : ¬ me ≥ U64MAX / 2 := h
    simp [h, this]

/-- … so for `max_edges = num_edges` of `CuckooParams::new(edge_bits, ..)` it is the model's `graphTooBig edge_bits` -/
theorem Graph_new_tooBig (eb ms ps : Nat) :
    (Fns.Graph_new (numEdges eb) ms ps).isNone = graphTooBig eb := by
  rw [Graph_new_isNone]; rfl

example : (Fns.Graph_new (numEdges 63) 4 42).isNone = true := by rw [Graph_new_tooBig]; decide
example : (Fns.Graph_new (numEdges 31) 4 42).isNone = false := by rw [Graph_new_tooBig]; decide

end GV.Props.XlateCtx
