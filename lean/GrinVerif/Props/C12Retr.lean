import GrinVerif.Lemmas.TxRetr
/-! # C12 — which pool transactions the node hydrates a compact block from

Theorems about `Pool::retrieve_transactions` (`Model/TxBlock.lean: retrieveTransactions`, lemmas in
`Lemmas/TxRetr.lean`).  `sid` is the short id of a kernel under the block's hash and nonce — any
function, collisions allowed unless a hypothesis says otherwise; `ids` the `kern_ids` asked for. -/
namespace GV.Props.C12
open GV GV.Tx List

/-- **what the loops with their `break 'outer` compute, for every pool and every list of ids**: a
prefix of what the loops without the break would have found / pushed (pool order, kernel order,
one push per matching kernel), followed by `dedup` and the filter for the missing ids; the prefix
is everything unless exactly as many ids were *found* (counted with repetitions) as were asked
for. -/
theorem retrieve_spec (sid : Nat → Nat) (pool : List Tx) (ids : List Nat) :
    ∃ n, retrieveTransactions sid pool ids =
        (dedupAdjTx ((pushedAll sid ids pool).take n),
         ids.filter fun i => !((foundAll sid ids pool).take n).contains i) ∧
      ((foundAll sid ids pool).length ≤ n ∨ ((foundAll sid ids pool).take n).length = ids.length) := by
  obtain ⟨n, hf, ht, h0, h1⟩ := retrLoop_spec sid ids pool ⟨[], [], false⟩ rfl
  refine ⟨n, ?_, ?_⟩
  · simp only [retrieveTransactions, hf, ht, nil_append]
  · cases hd : (retrLoop sid ids ⟨[], [], false⟩ pool).done
    · exact Or.inl (h0 hd)
    · right
      have := h1 hd
      rw [hf, nil_append] at this
      exact this

/-- **soundness for every pool, collisions or not**: every returned transaction is a pool entry
with a kernel whose short id was asked for; every id reported missing was asked for; and every id
asked for and not reported missing is the short id of a kernel of some pool entry. -/
theorem retrieve_sound (sid : Nat → Nat) (pool : List Tx) (ids : List Nat) :
    (∀ t ∈ (retrieveTransactions sid pool ids).1, t ∈ pool ∧ ∃ k ∈ t.kernels, sid k ∈ ids) ∧
    (∀ i ∈ (retrieveTransactions sid pool ids).2, i ∈ ids) ∧
    (∀ i ∈ ids, i ∉ (retrieveTransactions sid pool ids).2 → ∃ t ∈ pool, ∃ k ∈ t.kernels, sid k = i) := by
  obtain ⟨n, he, _⟩ := retrieve_spec sid pool ids
  rw [he]
  refine ⟨?_, ?_, ?_⟩
  · intro t ht
    have h1 : t ∈ pushedAll sid ids pool := (take_sublist _ _).subset (mem_dedupAdjTx.1 ht)
    obtain ⟨hp, k, hk, hm⟩ := mem_pushedAll.1 h1
    exact ⟨hp, k, hk, by simpa using hm⟩
  · intro i hi; exact (mem_filter.1 hi).1
  · intro i hi hn
    have : i ∈ (foundAll sid ids pool).take n := by
      by_cases c : i ∈ (foundAll sid ids pool).take n
      · exact c
      · exfalso; apply hn; simp only [mem_filter]; exact ⟨hi, by simpa using c⟩
    exact (mem_foundAll.1 ((take_sublist _ _).subset this)).2

/-- **exactness for a pool without collisions and without shared kernels**: if no two kernels of
the pool share a short id, no kernel sits in two entries (or twice in one), the ids asked for are
pairwise different and each of them is the short id of some pool kernel, then nothing is reported
missing and the transactions returned are exactly the pool entries that have a kernel asked for —
each once, in pool order (the `break` and the `dedup` are not observable). -/
theorem retrieve_exact (sid : Nat → Nat) (pool : List Tx) (ids : List Nat)
    (hinj : InjOn sid (poolKers pool)) (ndK : (poolKers pool).Nodup) (ndI : ids.Nodup)
    (hcov : ∀ i ∈ ids, ∃ t ∈ pool, ∃ k ∈ t.kernels, sid k = i) :
    retrieveTransactions sid pool ids =
      (pool.filter fun tx => (matching sid ids tx.kernels).length != 0, []) := by
  obtain ⟨n, he, hn⟩ := retrieve_spec sid pool ids
  -- the ids found without the break are exactly the ids asked for
  have ndF : (foundAll sid ids pool).Nodup := by
    rw [foundAll_eq]
    have nd : (matching sid ids (poolKers pool)).Nodup := ndK.filter _
    rw [nodup_iff_count]
    intro i
    by_cases hi : i ∈ (matching sid ids (poolKers pool)).map sid
    · obtain ⟨k, hk, rfl⟩ := mem_map.1 hi
      have inj' : InjOn sid (matching sid ids (poolKers pool)) :=
        fun a b ha hb e => hinj a b (mem_filter.1 ha).1 (mem_filter.1 hb).1 e
      rw [count_map_of_injOn hk inj']
      exact nodup_iff_count.1 nd k
    · rw [count_eq_zero.2 hi]; omega
  have sub1 : ∀ i ∈ foundAll sid ids pool, i ∈ ids := fun i hi => (mem_foundAll.1 hi).1
  have sub2 : ∀ i ∈ ids, i ∈ foundAll sid ids pool := fun i hi => mem_foundAll.2 ⟨hi, hcov i hi⟩
  have hlen : (foundAll sid ids pool).length = ids.length :=
    ((perm_ext_iff_of_nodup ndF ndI).2 fun i => ⟨sub1 i, sub2 i⟩).length_eq
  have hall : (foundAll sid ids pool).length ≤ n := by
    rcases hn with h | h
    · exact h
    · rw [length_take] at h; omega
  have eF : (foundAll sid ids pool).take n = foundAll sid ids pool := take_of_length_le hall
  have eT : (pushedAll sid ids pool).take n = pushedAll sid ids pool :=
    take_of_length_le (by rw [length_pushedAll]; exact hall)
  rw [he, eF, eT]
  -- different selected entries are different transactions: their kernels are disjoint
  have hpw : (pool.filter fun tx => (matching sid ids tx.kernels).length != 0).Pairwise (· ≠ ·) := by
    have key : ∀ (p : List Tx), (p.flatMap (·.kernels)).Nodup →
        (p.filter fun tx => (matching sid ids tx.kernels).length != 0).Pairwise (· ≠ ·) := by
      intro p
      induction p with
      | nil => intro _; simp
      | cons a t ih =>
        intro nd
        rw [flatMap_cons, nodup_append] at nd
        have iht := ih nd.2.1
        by_cases ha : ((matching sid ids a.kernels).length != 0) = true
        · rw [filter_cons, if_pos ha, pairwise_cons]
          refine ⟨?_, iht⟩
          intro b hb hab
          subst hab
          have hne : (matching sid ids a.kernels).length ≠ 0 := by simpa using ha
          obtain ⟨k, hk⟩ := exists_mem_of_length_pos (Nat.pos_of_ne_zero hne)
          have hk' : k ∈ a.kernels := (mem_filter.1 hk).1
          exact nd.2.2 k hk' k (mem_flatMap.2 ⟨a, (mem_filter.1 hb).1, hk'⟩) rfl
        · rw [filter_cons, if_neg ha]; exact iht
    exact key pool ndK
  rw [dedupAdjTx_pushedAll sid ids pool hpw]
  congr 1
  apply filter_eq_nil_iff.2
  intro i hi
  have := sub2 i hi
  simp [this]

/-- **the node's hydration**: whenever the selection of such a pool is a list of transactions that
hydrates the compact block to `b` (by `hydrate_roundtrip`: the block's transactions in any grouping —
entries that share no kernel with the block may sit anywhere in the pool), the node's path
"`retrieve_transactions`, nothing missing, `hydrate_from`" yields `b`. -/
theorem node_hydration (K : Keys) (sid : Nat → Nat) (pool : List Tx) (cb : CompactBlock) (b : Block)
    (hinj : InjOn sid (poolKers pool)) (ndK : (poolKers pool).Nodup) (ndI : (cb.kernIds.map sid).Nodup)
    (hcov : ∀ i ∈ cb.kernIds.map sid, ∃ t ∈ pool, ∃ k ∈ t.kernels, sid k = i)
    (hh : hydrateFrom K cb (pool.filter fun tx => (matching sid (cb.kernIds.map sid) tx.kernels).length != 0) = .ok b) :
    (retrieveTransactions sid pool (cb.kernIds.map sid)).2 = [] ∧
    hydrateFrom K cb (retrieveTransactions sid pool (cb.kernIds.map sid)).1 = .ok b := by
  rw [retrieve_exact sid pool _ hinj ndK ndI hcov]
  exact ⟨rfl, hh⟩

/-! ### what goes wrong outside those hypotheses (kernel-checked witnesses) -/

def mkTx (tag : Nat) (ks : List Nat) : Tx := ⟨tag, false, [], [], ks⟩

/-- a kernel shared by two entries (a transaction and an aggregate containing it): the count of
found ids reaches the number asked for early, the `break` fires, and an id whose kernel IS in the
pool is reported missing -/
theorem shared_kernel_reports_missing :
    retrieveTransactions id [mkTx 0 [0], mkTx 1 [0, 2], mkTx 2 [4]] [0, 2, 4]
      = ([mkTx 0 [0], mkTx 1 [0, 2]], [4]) := by decide

/-- a short-id collision: the entry that merely collides is returned instead of (or along with) the
wanted one and nothing is reported missing — the hydrated block is then not the block, which the
node finds out by validating it -/
theorem collision_returns_wrong_entry :
    retrieveTransactions (fun _ => 7) [mkTx 0 [2], mkTx 1 [0]] [7] = ([mkTx 0 [2]], []) := by decide

/-- the hypotheses of `retrieve_exact` are satisfiable: two grouped entries of the block around an
unrelated one -/
example : retrieveTransactions id [mkTx 0 [0, 4], mkTx 1 [6], mkTx 2 [2]] [0, 2, 4]
    = ([mkTx 0 [0, 4], mkTx 2 [2]], []) := by decide

end GV.Props.C12
