import GrinVerif.Lemmas.CrashRecovL
import GrinVerif.Props.C09
/-! C09, the start-up recovery as a sequence of durable writes (`Model/CrashRecov.lean`): a second
process death DURING `Chain::init`, then another restart.

Proved here, for every block table, every durable state and every bitmap-commitment function:
* `recoverS_refines` — the loop acting on the files it has itself just rewritten ends exactly like
  the net-effect loop of `Model/Crash.lean` (so every theorem of `Props/C09.lean` about `recover`
  is a theorem about the code-shaped `recoverS`);
* `recover_idempotent` — the state a completed recovery leaves reopens on the same head;
* `recover_restartable_no_fallback` — where the stored head validates (every crash point the
  theorems of `Props/C09.lean` show to be safe), a death after ANY number of the recovery's own
  writes, followed by another restart, ends on the same head.
NOT proved, and false of the unchanged code (known finding C09-recovery-not-restartable): the same
for a recovery that has to fall back. In the model it would hold (truncation only shortens files);
in the code `AppendOnlyFile::flush` of a rewind beyond the end of an already shortened file GROWS
the file with zero bytes, which empties the kernel data file; the crash run shows this on the real
node at every second crash point behind the first fallback iteration. -/
namespace GV.Props.C09Recov
open GV.Crash

/-- the writes of the loop touch neither the header files nor the database heads -/
def TxOnly (ins : List RIns) : Prop :=
  ∀ i ∈ ins, i.step = .outHashTrunc ∨ i.step = .outDataTrunc ∨ i.step = .leafRename ∨
    i.step = .kerHashTrunc ∨ i.step = .kerDataTrunc

theorem txOnly_sync (P : List BlkInfo) (t : List Leaf) : TxOnly (syncIns P t) := by
  intro i hi
  simp only [syncIns, List.mem_cons, List.mem_nil_iff, or_false] at hi
  rcases hi with rfl | rfl | rfl | rfl | rfl <;> simp

theorem txOnly_append {a b : List RIns} (ha : TxOnly a) (hb : TxOnly b) : TxOnly (a ++ b) := by
  intro i hi
  rcases List.mem_append.mp hi with h | h
  · exact ha i h
  · exact hb i h

theorem txOnly_fallbackS (bc : Nat → Bool) (tbl : List BlkInfo) :
    ∀ (fuel : Nat) (d : Durable) (h : Nat), TxOnly (fallbackS bc tbl fuel d h).1 := by
  intro fuel
  induction fuel with
  | zero => intro d h i hi; simp [fallbackS] at hi
  | succ fuel ih =>
    intro d h
    unfold fallbackS
    cases pathOf tbl (tbl.length + 1) h [] with
    | none => intro i hi; simp at hi
    | some path =>
      simp only []
      split
      · exact txOnly_sync _ _
      · split
        · exact txOnly_sync _ _
        · exact txOnly_append (txOnly_sync _ _) (ih _ _)

theorem applyRIns_tx_keeps (d : Durable) (i : RIns)
    (h : i.step = .outHashTrunc ∨ i.step = .outDataTrunc ∨ i.step = .leafRename ∨
      i.step = .kerHashTrunc ∨ i.step = .kerDataTrunc) :
    (applyRIns d i).hdrHash = d.hdrHash ∧ (applyRIns d i).hdrData = d.hdrData ∧
    (applyRIns d i).dbHHead = d.dbHHead ∧ (applyRIns d i).dbHead = d.dbHead := by
  unfold applyRIns
  rcases h with h | h | h | h | h <;> simp [h]

theorem runIns_tx_keeps : ∀ (ins : List RIns) (d : Durable), TxOnly ins →
    (runIns d ins).hdrHash = d.hdrHash ∧ (runIns d ins).hdrData = d.hdrData ∧
    (runIns d ins).dbHHead = d.dbHHead ∧ (runIns d ins).dbHead = d.dbHead := by
  intro ins
  induction ins with
  | nil => intro d _; exact ⟨rfl, rfl, rfl, rfl⟩
  | cons i rest ih =>
    intro d h
    have h1 := applyRIns_tx_keeps d i (h i (List.mem_cons_self))
    have h2 := ih (applyRIns d i) (fun j hj => h j (List.mem_cons_of_mem _ hj))
    simp only [runIns, List.foldl_cons] at h2 ⊢
    exact ⟨h2.1.trans h1.1, h2.2.1.trans h1.2.1, h2.2.2.1.trans h1.2.2.1, h2.2.2.2.trans h1.2.2.2⟩

theorem runIns_append (d : Durable) (a b : List RIns) : runIns d (a ++ b) = runIns (runIns d a) b := by
  simp [runIns, List.foldl_append]

/-- **`recoverS` refines `recover`**: the recovery that judges each candidate on the files its own
previous iteration left on disk (the code as it is) opens / fails / lands exactly as the net-effect
model used by all theorems of `Props/C09.lean`. -/
theorem recoverS_refines (bcf : Nat → Bool) (tbl : List BlkInfo) (d : Durable) :
    (recoverS bcf tbl d).2 = recover bcf tbl d := recoverS_outcome bcf tbl d

/-- where the loop stops, the files it leaves validate at the head it stops on -/
theorem fallbackS_final (bcf : Nat → Bool) (tbl : List BlkInfo) :
    ∀ (fuel : Nat) (d : Durable) (h hf : Nat) (P : List BlkInfo),
      pathOf tbl (tbl.length + 1) h [] = some P → P.length ≤ fuel →
      (fallbackS bcf tbl fuel d h).2 = .ok hf →
      ∃ PF, pathOf tbl (tbl.length + 1) hf [] = some PF ∧
        (PF.length ≤ 1 ∨ validAt bcf (runIns d (fallbackS bcf tbl fuel d h).1) [] PF = true) := by
  intro fuel
  induction fuel with
  | zero =>
    intro d h hf P hp hl _
    have := pathOf_ne_nil tbl _ h P hp
    have : P.length ≠ 0 := fun e => this (List.length_eq_zero_iff.mp e)
    omega
  | succ fuel ih =>
    intro d h hf P hp hl hok
    unfold fallbackS at hok ⊢
    simp only [hp] at hok ⊢
    by_cases h1 : P.length ≤ 1
    · simp only [h1, if_true] at hok ⊢
      have e : h = hf := by simpa using hok
      subst e
      exact ⟨P, hp, Or.inl h1⟩
    · simp only [h1, if_false] at hok ⊢
      by_cases hv : validAt bcf d [] P = true
      · simp only [hv, if_true] at hok ⊢
        have e : h = hf := by simpa using hok
        subst e
        refine ⟨P, hp, Or.inr ?_⟩
        rw [validAt_sync bcf d P P [] [] (List.prefix_refl _)]
        simpa using hv
      · simp only [hv, Bool.false_eq_true, if_false] at hok ⊢
        have hpar := pathOf_dropLast tbl (tbl.length + 1) h P hp h1
        have hlen : P.dropLast.length ≤ fuel := by simp; omega
        obtain ⟨PF, hPF, hfin⟩ := ih _ _ hf P.dropLast hpar hlen hok
        refine ⟨PF, hPF, ?_⟩
        rw [runIns_append]
        exact hfin

/-- **Recovery is idempotent.** If `Chain::init` opens a durable state on head `h`, the durable
state it leaves behind (header files truncated, txhashset files synced at every fallback step,
body head committed) opens on `h` again — whatever the state was and however far the loop fell
back. -/
theorem recover_idempotent (bcf : Nat → Bool) (tbl : List BlkInfo) (d : Durable) (h : Nat)
    (hr : recover bcf tbl d = .ok h) :
    recover bcf tbl (recovered bcf tbl d) = .ok h := by
  have hS := recoverS_outcome bcf tbl d
  rw [hr] at hS
  unfold recovered
  unfold recoverS at hS ⊢
  by_cases h1 : d.hdrHash.length ≠ d.hdrData.length
  · simp [h1] at hS
  · simp only [h1, if_false] at hS ⊢
    cases hp : pathOf tbl (tbl.length + 1) d.dbHHead [] with
    | none => simp [hp] at hS
    | some hpath =>
      simp only [hp] at hS ⊢
      by_cases h2 : d.hdrData.take hpath.length ≠ hpath.map (·.id)
      · simp [h2] at hS
      · simp only [h2, if_false] at hS ⊢
        generalize hF : fallbackS bcf tbl (tbl.length + 1) (runIns d (hdrIns hpath)) d.dbHead = F at hS ⊢
        cases hF2 : F.2 with
        | openFail w => simp [hF2] at hS
        | ok hf =>
          simp only [hF2] at hS ⊢
          have e : hf = h := by simpa using hS
          subst e
          -- the head's path exists: the loop found it
          have hdb : ∃ P0, pathOf tbl (tbl.length + 1) d.dbHead [] = some P0 := by
            cases hq : pathOf tbl (tbl.length + 1) d.dbHead [] with
            | some P0 => exact ⟨P0, rfl⟩
            | none =>
              have : F.2 = .openFail .storeErr := by
                rw [← hF]; unfold fallbackS; simp [hq]
              rw [this] at hF2; cases hF2
          obtain ⟨P0, hP0⟩ := hdb
          have hfin := fallbackS_final bcf tbl (tbl.length + 1) (runIns d (hdrIns hpath)) d.dbHead hf P0 hP0
            (pathOf_length_le tbl _ _ _ hP0) (by rw [hF]; exact hF2)
          obtain ⟨PF, hPF, hval⟩ := hfin
          rw [hF] at hval
          have htx : TxOnly F.1 := by rw [← hF]; exact txOnly_fallbackS bcf tbl _ _ _
          have hk := runIns_tx_keeps F.1 (runIns d (hdrIns hpath)) htx
          -- the final durable state
          rw [runIns_append, runIns_append]
          generalize hD : runIns (runIns d (hdrIns hpath)) F.1 = D at hval hk ⊢
          have hD1 : D.hdrHash = d.hdrHash.take hpath.length := hk.1
          have hD2 : D.hdrData = d.hdrData.take hpath.length := hk.2.1
          have hD3 : D.dbHHead = d.dbHHead := hk.2.2.1
          have hlen : d.hdrHash.length = d.hdrData.length := by simpa using h1
          have hdata : d.hdrData.take hpath.length = hpath.map (·.id) := by simpa using h2
          have hh : HdrOk tbl (runIns D [{ step := .headCommit, path := [], readd := [], head := hf }]) := by
            refine ⟨?_, hpath, ?_, ?_⟩
            · show D.hdrHash.length = D.hdrData.length
              rw [hD1, hD2, List.length_take, List.length_take, hlen]
            · show pathOf tbl (tbl.length + 1) D.dbHHead [] = some hpath
              rw [hD3]; exact hp
            · show hpath.map (·.id) <+: D.hdrData
              rw [hD2, hdata]; exact List.prefix_refl _
          rw [recover_of_hdrOk bcf tbl _ hh]
          exact fallback_stop bcf tbl _ _ hf [] PF hPF hval

/-! ### a death during a recovery that does not have to fall back -/

/-- a write of a recovery that stays at `P` and re-adds nothing -/
def StaysAt (P : List BlkInfo) (i : RIns) : Prop :=
  (i.step = .hdrHashTrunc ∨ i.step = .hdrDataTrunc) ∨
  ((i.step = .outHashTrunc ∨ i.step = .outDataTrunc ∨ i.step = .leafRename ∨
    i.step = .kerHashTrunc ∨ i.step = .kerDataTrunc) ∧ i.path = P ∧ i.readd = [])

theorem validAt_applyRIns_stays (bcf : Nat → Bool) (d : Durable) (P : List BlkInfo) (i : RIns)
    (h : StaysAt P i) : validAt bcf (applyRIns d i) [] P = validAt bcf d [] P := by
  rcases h with (h | h) | ⟨h, hP, hr⟩
  · unfold applyRIns; rw [h]; rfl
  · unfold applyRIns; rw [h]; rfl
  · subst hP
    unfold applyRIns
    rcases h with h | h | h | h | h <;> rw [h] <;> simp only []
    · apply validAt_congr <;> first | rfl | (intro l _; rfl) | exact take_take_le _ _ _ (Nat.le_refl _)
    · apply validAt_congr <;> first | rfl | (intro l _; rfl) | exact take_take_le _ _ _ (Nat.le_refl _)
    · apply validAt_congr <;> first | rfl | skip
      intro l hl
      rw [hr]
      simp only [mem_leafAt, List.not_mem_nil, or_false]
      constructor
      · rintro ⟨_, a⟩; exact a
      · intro a; exact ⟨hl, a⟩
    · apply validAt_congr <;> first | rfl | (intro l _; rfl) | exact take_take_le _ _ _ (Nat.le_refl _)
    · apply validAt_congr <;> first | rfl | (intro l _; rfl) | exact take_take_le _ _ _ (Nat.le_refl _)

/-- a write of a recovery of `d` that finds its stored head valid: header truncation at the header
head's length, a sync that stays at the head's path `P`, or the commit of the unchanged head -/
def Good (d : Durable) (hp P : List BlkInfo) (i : RIns) : Prop :=
  ((i.step = .hdrHashTrunc ∨ i.step = .hdrDataTrunc) ∧ i.path = hp) ∨
  ((i.step = .outHashTrunc ∨ i.step = .outDataTrunc ∨ i.step = .leafRename ∨
    i.step = .kerHashTrunc ∨ i.step = .kerDataTrunc) ∧ i.path = P ∧ i.readd = []) ∨
  (i.step = .headCommit ∧ i.head = d.dbHead)

/-- what such writes preserve -/
structure Kept (bcf : Nat → Bool) (d : Durable) (P : List BlkInfo) (d' : Durable) : Prop where
  hh : d'.hdrHash = d.hdrHash
  hd : d'.hdrData = d.hdrData
  hhead : d'.dbHHead = d.dbHHead
  head : d'.dbHead = d.dbHead
  valid : validAt bcf d' [] P = validAt bcf d [] P

theorem kept_step (bcf : Nat → Bool) (d : Durable) (hp P : List BlkInfo)
    (hl1 : d.hdrHash.length ≤ hp.length) (hl2 : d.hdrData.length ≤ hp.length)
    (d' : Durable) (i : RIns) (hk : Kept bcf d P d') (hi : Good d hp P i) :
    Kept bcf d P (applyRIns d' i) := by
  rcases hi with ⟨h, hP⟩ | ⟨h, hP, hr⟩ | ⟨h, hh⟩
  · subst hP
    rcases h with h | h
    · refine ⟨?_, ?_, ?_, ?_, ?_⟩ <;> unfold applyRIns <;> rw [h] <;> simp only []
      · rw [hk.hh]; exact List.take_of_length_le hl1
      · exact hk.hd
      · exact hk.hhead
      · exact hk.head
      · exact hk.valid
    · refine ⟨?_, ?_, ?_, ?_, ?_⟩ <;> unfold applyRIns <;> rw [h] <;> simp only []
      · exact hk.hh
      · rw [hk.hd]; exact List.take_of_length_le hl2
      · exact hk.hhead
      · exact hk.head
      · exact hk.valid
  · have hs : StaysAt P i := Or.inr ⟨h, hP, hr⟩
    have hv := validAt_applyRIns_stays bcf d' P i hs
    have hkeep := applyRIns_tx_keeps d' i h
    exact ⟨hkeep.1.trans hk.hh, hkeep.2.1.trans hk.hd, hkeep.2.2.1.trans hk.hhead,
      hkeep.2.2.2.trans hk.head, hv.trans hk.valid⟩
  · refine ⟨?_, ?_, ?_, ?_, ?_⟩ <;> unfold applyRIns <;> rw [h] <;> simp only []
    · exact hk.hh
    · exact hk.hd
    · exact hk.hhead
    · exact hh
    · exact hk.valid

theorem kept_run (bcf : Nat → Bool) (d : Durable) (hp P : List BlkInfo)
    (hl1 : d.hdrHash.length ≤ hp.length) (hl2 : d.hdrData.length ≤ hp.length) :
    ∀ (ins : List RIns) (d' : Durable), Kept bcf d P d' → (∀ i ∈ ins, Good d hp P i) →
      Kept bcf d P (runIns d' ins) := by
  intro ins
  induction ins with
  | nil => intro d' hk _; exact hk
  | cons i rest ih =>
    intro d' hk hg
    simp only [runIns, List.foldl_cons]
    exact ih _ (kept_step bcf d hp P hl1 hl2 d' i hk (hg i List.mem_cons_self))
      (fun j hj => hg j (List.mem_cons_of_mem _ hj))

/-- **A recovery that does not have to fall back can be killed anywhere.** Let the header files
hold exactly the header head's path and the stored body head validate on the files as they are
(the situation at every crash point that `Props/C09.lean` proves safe outside the header window:
`safe_prefix_all`, `completed_extension_all`, `no_inputs_crash_safe`, …). Then a process that dies
after ANY number `k` of the recovery's own durable writes leaves a state that reopens on the same
head: `recover (recCrashAfter d k) = recover d = ok head`, for every `k`. -/
theorem recover_restartable_no_fallback (bcf : Nat → Bool) (tbl : List BlkInfo) (d : Durable)
    (hp P : List BlkInfo)
    (hhp : pathOf tbl (tbl.length + 1) d.dbHHead [] = some hp)
    (hl1 : d.hdrHash.length = hp.length) (hl2 : d.hdrData.length = hp.length)
    (hdata : d.hdrData = hp.map (·.id))
    (hP : pathOf tbl (tbl.length + 1) d.dbHead [] = some P)
    (hv : P.length ≤ 1 ∨ validAt bcf d [] P = true) (k : Nat) :
    recover bcf tbl (recCrashAfter bcf tbl d k) = .ok d.dbHead ∧ recover bcf tbl d = .ok d.dbHead := by
  have hh0 : HdrOk tbl d := ⟨by rw [hl1, hl2], hp, hhp, by rw [hdata]; exact List.prefix_refl _⟩
  have hrec : recover bcf tbl d = .ok d.dbHead := by
    rw [recover_of_hdrOk bcf tbl d hh0]
    exact fallback_stop bcf tbl d _ _ [] P hP hv
  refine ⟨?_, hrec⟩
  -- the writes of this recovery
  have hins : ∀ i ∈ (recoverS bcf tbl d).1, Good d hp P i := by
    unfold recoverS
    have e1 : ¬ d.hdrHash.length ≠ d.hdrData.length := by rw [hl1, hl2]; simp
    have e2 : ¬ d.hdrData.take hp.length ≠ hp.map (·.id) := by
      rw [hdata]; simp [take_map_len]
    simp only [e1, if_false, hhp, e2]
    have hf : fallbackS bcf tbl (tbl.length + 1) (runIns d (hdrIns hp)) d.dbHead =
        (syncIns P [], .ok d.dbHead) := by
      unfold fallbackS
      simp only [hP]
      rcases hv with hv | hv
      · simp [hv]
      · have : validAt bcf (runIns d (hdrIns hp)) [] P = true := hv
        by_cases h1 : P.length ≤ 1
        · simp [h1]
        · simp [h1, this]
    rw [hf]
    intro i hi
    simp only [List.mem_append, List.mem_cons, List.mem_nil_iff, or_false] at hi
    rcases hi with (hi | hi) | hi
    · simp only [hdrIns, List.mem_cons, List.mem_nil_iff, or_false] at hi
      rcases hi with rfl | rfl
      · exact Or.inl ⟨Or.inl rfl, rfl⟩
      · exact Or.inl ⟨Or.inr rfl, rfl⟩
    · simp only [syncIns, List.mem_cons, List.mem_nil_iff, or_false] at hi
      rcases hi with rfl | rfl | rfl | rfl | rfl <;> exact Or.inr (Or.inl ⟨by simp, rfl, rfl⟩)
    · subst hi; exact Or.inr (Or.inr ⟨rfl, rfl⟩)
  have hk := kept_run bcf d hp P (Nat.le_of_eq hl1) (Nat.le_of_eq hl2)
    ((recoverS bcf tbl d).1.take k) d ⟨rfl, rfl, rfl, rfl, rfl⟩
    (fun i hi => hins i (List.mem_of_mem_take hi))
  unfold recCrashAfter
  generalize runIns d ((recoverS bcf tbl d).1.take k) = D at hk
  have hhD : HdrOk tbl D :=
    ⟨by rw [hk.hh, hk.hd, hl1, hl2], hp, by rw [hk.hhead]; exact hhp, by rw [hk.hd, hdata]; exact List.prefix_refl _⟩
  rw [recover_of_hdrOk bcf tbl D hhD, hk.head]
  apply fallback_stop bcf tbl D _ _ [] P hP
  rcases hv with hv | hv
  · exact Or.inl hv
  · exact Or.inr (hk.valid.trans hv)

/-- the same, as an invariant: whatever prefix of its own writes such a recovery got through, the
header files, both heads and the validity of the stored head's path are what they were (used to lift
the statement to nodes with compaction files / without block bodies, `Props/C09Second.lean`) -/
theorem recCrashAfter_kept (bcf : Nat → Bool) (tbl : List BlkInfo) (d : Durable)
    (hp P : List BlkInfo)
    (hhp : pathOf tbl (tbl.length + 1) d.dbHHead [] = some hp)
    (hl1 : d.hdrHash.length = hp.length) (hl2 : d.hdrData.length = hp.length)
    (hdata : d.hdrData = hp.map (·.id))
    (hP : pathOf tbl (tbl.length + 1) d.dbHead [] = some P)
    (hv : P.length ≤ 1 ∨ validAt bcf d [] P = true) (k : Nat) :
    Kept bcf d P (recCrashAfter bcf tbl d k) := by
  -- the writes of this recovery
  have hins : ∀ i ∈ (recoverS bcf tbl d).1, Good d hp P i := by
    unfold recoverS
    have e1 : ¬ d.hdrHash.length ≠ d.hdrData.length := by rw [hl1, hl2]; simp
    have e2 : ¬ d.hdrData.take hp.length ≠ hp.map (·.id) := by
      rw [hdata]; simp [take_map_len]
    simp only [e1, if_false, hhp, e2]
    have hf : fallbackS bcf tbl (tbl.length + 1) (runIns d (hdrIns hp)) d.dbHead =
        (syncIns P [], .ok d.dbHead) := by
      unfold fallbackS
      simp only [hP]
      rcases hv with hv | hv
      · simp [hv]
      · have : validAt bcf (runIns d (hdrIns hp)) [] P = true := hv
        by_cases h1 : P.length ≤ 1
        · simp [h1]
        · simp [h1, this]
    rw [hf]
    intro i hi
    simp only [List.mem_append, List.mem_cons, List.mem_nil_iff, or_false] at hi
    rcases hi with (hi | hi) | hi
    · simp only [hdrIns, List.mem_cons, List.mem_nil_iff, or_false] at hi
      rcases hi with rfl | rfl
      · exact Or.inl ⟨Or.inl rfl, rfl⟩
      · exact Or.inl ⟨Or.inr rfl, rfl⟩
    · simp only [syncIns, List.mem_cons, List.mem_nil_iff, or_false] at hi
      rcases hi with rfl | rfl | rfl | rfl | rfl <;> exact Or.inr (Or.inl ⟨by simp, rfl, rfl⟩)
    · subst hi; exact Or.inr (Or.inr ⟨rfl, rfl⟩)
  have hk := kept_run bcf d hp P (Nat.le_of_eq hl1) (Nat.le_of_eq hl2)
    ((recoverS bcf tbl d).1.take k) d ⟨rfl, rfl, rfl, rfl, rfl⟩
    (fun i hi => hins i (List.mem_of_mem_take hi))
  exact hk

/-! ### non-vacuity (the witness chain of `Props/C09.lean`: b8 spends o6, heights ≥ 6 commit to the
bitmap) -/
open GV.Props.C09 in
/-- the txhashset window (death after the leaf-set rename, step 14): the recovery falls back two
blocks (b7 → b6 → b5: two rewinding syncs and the final one) and writes 2 + 5·3 + 1 = 18 durable steps; the state it leaves reopens on the same head -/
example : (recoverS bc tbl9 (crashAfter tgt9 (consistent old8) blockSteps 14)).2 = .ok 5 ∧
    (recoverS bc tbl9 (crashAfter tgt9 (consistent old8) blockSteps 14)).1.length = 18 ∧
    recover bc tbl9 (recovered bc tbl9 (crashAfter tgt9 (consistent old8) blockSteps 14)) = .ok 5 := by
  decide

open GV.Props.C09 in
/-- a safe crash point (step 9: files hold the new block, leaf set and head still old): the
hypotheses of `recover_restartable_no_fallback` hold and every second death reopens on b7 -/
example : ∀ k, recover bc tbl9 (recCrashAfter bc tbl9 (crashAfter tgt9 (consistent old8) blockSteps 9) k) = .ok 7 := by
  intro k
  have := recover_restartable_no_fallback bc tbl9 (crashAfter tgt9 (consistent old8) blockSteps 9)
    tbl9 old8 (by decide) (by decide) (by decide) (by decide) (by decide) (Or.inr (by decide)) k
  exact this.1

open GV.Props.C09 in
/-- in the model a death inside a recovery that falls back is harmless too (files only get
shorter); the real node disagrees there (known finding C09-recovery-not-restartable) -/
example : recover bc tbl9 (recCrashAfter bc tbl9 (crashAfter tgt9 (consistent old8) blockSteps 14) 9) = .ok 5 := by
  decide

end GV.Props.C09Recov
