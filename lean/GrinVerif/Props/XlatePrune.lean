import GrinVerif.Model.PruneList
import GrinVerif.Gen.FnsPrune
import GrinVerif.Lemmas.StoreArith
import GrinVerif.Lemmas.XlateArith
import GrinVerif.Props.XlatePmmr
import GrinVerif.Props.XlatePmmr2
/-! # `store/src/prune_list.rs` translated from the current source = `Model/PruneList.lean`

`Gen/FnsPrune.lean` is regenerated on every run by tools/rs2lean.py (phase 4: a `croaring::Bitmap` is the
strictly ascending list of its elements, `rank` / `select` / `maximum` / `add` / `remove_range` are the list
functions `bmRank` / `bmSelect` / `List.getLast?` / `bmAdd` / `bmRemoveAll` of `Gen/FnsPrelude.lean`; `&mut self`
methods return the new struct; `assert!` is a conjunct of `_ok`; the recursion of `append` is structural on a
fuel of 64, exactly as the hand model's `appendFuel`).  Here every translated function is proved equal to the
hand-written model function, for every prune list whose bitmap entries are 1-based positions below `2^32`
(`WF`: the code casts positions to `u32`, the model does not model the cast) and every position `pos0 + 2 < 2^32`.
The additions `prev_shift + shift` wrap in the code and not in the model: the cache entries are assumed `< 2^63`
(`Small`), which makes the sum fit. -/
namespace GV.Props.XlatePrune
open GV GV.Pmmr GV.Store GV.Store.PruneList GV.Gen GV.Xlate
open GV.Props.XlatePmmr GV.Props.XlatePmmr2

/-- model prune list → generated record -/
def ofPL (pl : Store.PruneList) : Fns.PruneList := ⟨pl.bitmap, pl.shiftCache, pl.leafShiftCache⟩

/-- bitmap entries are 1-based positions that fit a `u32` -/
def WF (b : List Nat) : Prop := (∀ x ∈ b, 1 ≤ x ∧ x < 2^32) ∧ b.length < 2^32
/-- cache entries leave room for one more shift -/
def Small (c : List Nat) : Prop := ∀ x ∈ c, x < 2^63

/-! ## the bitmap operations -/

theorem bmRank_eq (b : List Nat) (x : Nat) : Fns.bmRank b x = Bm.rank b x := rfl
theorem bmSelect_eq (b : List Nat) (i : Nat) : Fns.bmSelect b i = Bm.select b i := rfl
theorem contains_eq (b : List Nat) (x : Nat) : List.contains b x = Bm.contains b x := rfl
theorem bmAdd_eq (b : List Nat) (x : Nat) : Fns.bmAdd b x = Bm.add b x := by
  induction b with
  | nil => rfl
  | cons y ys ih => simp only [Fns.bmAdd, Bm.add, ih]

/-- `remove_range(lo..=hi)` (the inclusive range as the list of its elements) = the model's `removeRange lo hi` -/
theorem bmRemoveAll_eq (b : List Nat) (lo hi : Nat) :
    Fns.bmRemoveAll b (List.range' lo (hi + 1 - lo)) = Bm.removeRange b lo hi := by
  unfold Fns.bmRemoveAll Bm.removeRange
  apply List.filter_congr
  intro v _
  congr 1
  rw [Bool.eq_iff_iff]
  simp only [List.contains_iff_mem, List.mem_range'_1, Bool.and_eq_true, decide_eq_true_eq]
  omega

example : Fns.bmRemoveAll [1, 3, 4, 7, 9] (List.range' 3 (7 + 1 - 3)) = [1, 9] := by decide
example : Fns.bmAdd [1, 4, 9] 5 = [1, 4, 5, 9] ∧ Fns.bmRank [1, 4, 9] 4 = 2 ∧ Fns.bmSelect [1, 4, 9] 2 = some 9 := by decide

/-! ## casts -/

theorem pos1_eq {pos0 : Nat} (h : pos0 + 1 < 2^32) : Fns.addN 32 1 (Fns.castN 32 pos0) = 1 + pos0 := by
  unfold Fns.addN Fns.castN
  rw [Nat.mod_eq_of_lt (by omega), Nat.mod_eq_of_lt (by omega)]

theorem rank_le (b : List Nat) (x : Nat) : Bm.rank b x ≤ b.length := by
  unfold Bm.rank; exact List.countP_le_length

/-! ## `is_pruned_root`, `get_shift`, `get_leaf_shift` -/

theorem is_pruned_root_eq (pl : Store.PruneList) (pos0 : Nat) (h : pos0 + 1 < 2^32) :
    Fns.PruneList_is_pruned_root pl.bitmap pos0 = pl.isPrunedRoot pos0 := by
  unfold Fns.PruneList_is_pruned_root isPrunedRoot
  rw [pos1_eq h]; rfl

/-- `cache[min(idx, len) - 1]` behind the `idx == 0` test = the model's `cacheAt` (an empty cache reads the default
0 on both sides: in the code it would be an index panic, see `get_shift_ok_iff`) -/
theorem cacheAt_eq (cache : List Nat) (i : Nat) (hi : i < 2^64) :
    (if (i == 0) = true then 0 else Fns.idx cache (subW (min i cache.length) 1)) = cacheAt cache i := by
  unfold cacheAt Fns.idx
  by_cases h0 : i = 0
  · simp [h0]
  · have hb : (i == 0) = false := by simp [h0]
    simp only [hb, Bool.false_eq_true, if_false, h0]
    by_cases hl : cache.length = 0
    · have : cache = [] := List.eq_nil_of_length_eq_zero hl
      subst this; simp
    · have hm : 1 ≤ min i cache.length := by omega
      have : subW (min i cache.length) 1 = min i cache.length - 1 := by
        unfold subW; omega
      rw [this]; rfl

theorem get_shift_eq (pl : Store.PruneList) (pos0 : Nat) (h : pos0 + 1 < 2^32) (hl : pl.bitmap.length < 2^64) :
    Fns.PruneList_get_shift pl.bitmap pl.shiftCache pos0 = getShift pl pos0 := by
  unfold Fns.PruneList_get_shift getShift
  rw [pos1_eq h, bmRank_eq]
  exact cacheAt_eq _ _ (Nat.lt_of_le_of_lt (rank_le _ _) hl)

theorem get_leaf_shift_eq (pl : Store.PruneList) (pos0 : Nat) (h : pos0 + 1 < 2^32) (hl : pl.bitmap.length < 2^64) :
    Fns.PruneList_get_leaf_shift pl.bitmap pl.leafShiftCache pos0 = getLeafShift pl pos0 := by
  unfold Fns.PruneList_get_leaf_shift getLeafShift
  rw [pos1_eq h, bmRank_eq]
  exact cacheAt_eq _ _ (Nat.lt_of_le_of_lt (rank_le _ _) hl)

/-- `get_shift` panics (index out of range) exactly when the rank is positive and the cache is empty -/
theorem get_shift_ok_iff (pl : Store.PruneList) (pos0 : Nat) (h : pos0 + 1 < 2^32) (hl : pl.bitmap.length < 2^64) :
    Fns.PruneList_get_shift_ok pl.bitmap pl.shiftCache pos0 = true ↔
      (Bm.rank pl.bitmap (1 + pos0) = 0 ∨ pl.shiftCache ≠ []) := by
  unfold Fns.PruneList_get_shift_ok
  rw [pos1_eq h, bmRank_eq]
  have hr := rank_le pl.bitmap (1 + pos0)
  by_cases h0 : Bm.rank pl.bitmap (1 + pos0) = 0
  · simp [h0]
  · have hb : (Bm.rank pl.bitmap (1 + pos0) == 0) = false := by simp [h0]
    simp only [hb, Bool.false_eq_true, if_false, h0, false_or, decide_eq_true_eq]
    cases hc : pl.shiftCache with
    | nil => simp [subW]
    | cons a t =>
      simp only [List.length_cons, ne_eq, reduceCtorEq, not_false_eq_true, iff_true]
      have : subW (min (Bm.rank pl.bitmap (1 + pos0)) (t.length + 1)) 1
          = min (Bm.rank pl.bitmap (1 + pos0)) (t.length + 1) - 1 := by unfold subW; omega
      rw [this]; omega

theorem last_bounds {b : List Nat} (hw : WF b) : 1 ≤ (Bm.maximum b).getD 1 ∧ (Bm.maximum b).getD 1 < 2^32 := by
  unfold Bm.maximum
  cases hlast : b.getLast? with
  | none => simp
  | some m =>
    have hm : m ∈ b := List.mem_of_getLast? hlast
    simpa using hw.1 m hm

theorem get_total_shift_eq (pl : Store.PruneList) (hw : WF pl.bitmap) :
    Fns.PruneList_get_total_shift pl.bitmap pl.shiftCache = getTotalShift pl := by
  unfold Fns.PruneList_get_total_shift getTotalShift
  have hb := last_bounds hw
  have e : subW (Option.getD (List.getLast? pl.bitmap) 1) 1 = (Bm.maximum pl.bitmap).getD 1 - 1 := by
    unfold Bm.maximum at hb ⊢; unfold subW; omega
  rw [e]
  exact get_shift_eq pl _ (by omega) (by have := hw.2; omega)

theorem get_total_leaf_shift_eq (pl : Store.PruneList) (hw : WF pl.bitmap) :
    Fns.PruneList_get_total_leaf_shift pl.bitmap pl.leafShiftCache = getTotalLeafShift pl := by
  unfold Fns.PruneList_get_total_leaf_shift getTotalLeafShift
  have hb := last_bounds hw
  have e : subW (Option.getD (List.getLast? pl.bitmap) 1) 1 = (Bm.maximum pl.bitmap).getD 1 - 1 := by
    unfold Bm.maximum at hb ⊢; unfold subW; omega
  rw [e]
  exact get_leaf_shift_eq pl _ (by omega) (by have := hw.2; omega)

example : Fns.PruneList_get_shift [2, 5] [2, 4] 3 = 2 ∧ Fns.PruneList_get_total_shift [2, 5] [2, 4] = 4 := by decide


/-! ## `calculate_next_shift`, `calculate_next_leaf_shift` -/

theorem height_le_31 {pos0 : Nat} (h : pos0 + 2 < 2^32) : height pos0 ≤ 30 := by
  have hb := height_bound pos0
  have : 2^(height pos0) < 2^31 := by omega
  have := (Nat.pow_lt_pow_iff_right (a := 2) (by omega)).1 this
  omega

theorem shl_one_height {pos0 : Nat} (h : pos0 + 2 < 2^32) : shlW 1 (height pos0) = 2^(height pos0) := by
  have hh := height_le_31 h
  have hlt : 2^(height pos0) < 2^64 := Nat.pow_lt_pow_right (by omega) (by omega)
  have e : height pos0 % 64 = height pos0 := Nat.mod_eq_of_lt (by omega)
  unfold shlW
  rw [e, Nat.one_mul, Nat.mod_eq_of_lt hlt]

theorem rootShift_eq {pos0 : Nat} (h : pos0 + 2 < 2^32) :
    mulW 2 (subW (shlW 1 (height pos0)) 1) = rootShift pos0 ∧ rootShift pos0 < 2^32 := by
  have hb := height_bound pos0
  have hpos : 0 < 2^(height pos0) := Nat.pow_pos (by omega)
  rw [shl_one_height h]
  unfold rootShift mulW subW
  constructor <;> omega

theorem cacheAt_small {c : List Nat} (hs : Small c) (i : Nat) : cacheAt c i < 2^63 := by
  unfold cacheAt
  split
  · omega
  · rw [List.getD_eq_getElem?_getD]
    cases hg : c[min i c.length - 1]? with
    | none => simp
    | some v => simpa using hs v (List.mem_of_getElem? hg)

theorem calculate_next_shift_eq (pl : Store.PruneList) (pos0 : Nat) (h : pos0 + 2 < 2^32)
    (hl : pl.bitmap.length < 2^64) (hs : Small pl.shiftCache) :
    Fns.PruneList_calculate_next_shift pl.bitmap pl.shiftCache pos0 = calculateNextShift pl pos0 := by
  unfold Fns.PruneList_calculate_next_shift calculateNextShift
  rw [is_pruned_root_eq pl pos0 (by omega), bintree_postorder_height_eq pos0 (by omega)]
  have hr := rootShift_eq h
  have hprev : (if (pos0 == 0) = true then 0 else Fns.PruneList_get_shift pl.bitmap pl.shiftCache (subW pos0 1))
      = (if pos0 = 0 then 0 else getShift pl (pos0 - 1)) := by
    by_cases h0 : pos0 = 0
    · simp [h0]
    · have : subW pos0 1 = pos0 - 1 := by unfold subW; omega
      simp only [h0, beq_iff_eq, if_false, this]
      exact get_shift_eq pl _ (by omega) hl
  have hp : (if pos0 = 0 then 0 else getShift pl (pos0 - 1)) < 2^63 := by
    split
    · omega
    · exact cacheAt_small hs _
  simp only [hprev, hr.1]
  have hr2 := hr.2
  by_cases hroot : pl.isPrunedRoot pos0 = true
  · simp only [hroot, if_true]; unfold addW; omega
  · simp only [hroot, Bool.false_eq_true, if_false]; unfold addW; omega

theorem rootLeafShift_eq {pos0 : Nat} (h : pos0 + 2 < 2^32) :
    (if (height pos0 == 0) = true then 0 else shlW 1 (height pos0)) = rootLeafShift pos0 ∧ rootLeafShift pos0 < 2^32 := by
  have hb := height_bound pos0
  rw [shl_one_height h]
  unfold rootLeafShift
  by_cases h0 : height pos0 = 0
  · simp [h0]
  · simp only [h0, beq_iff_eq, if_false, true_and]; omega

theorem calculate_next_leaf_shift_eq (pl : Store.PruneList) (pos0 : Nat) (h : pos0 + 2 < 2^32)
    (hl : pl.bitmap.length < 2^64) (hs : Small pl.leafShiftCache) :
    Fns.PruneList_calculate_next_leaf_shift pl.bitmap pl.leafShiftCache pos0 = calculateNextLeafShift pl pos0 := by
  unfold Fns.PruneList_calculate_next_leaf_shift calculateNextLeafShift
  rw [is_pruned_root_eq pl pos0 (by omega), bintree_postorder_height_eq pos0 (by omega)]
  have hr := rootLeafShift_eq h
  have hprev : (if (pos0 == 0) = true then 0 else Fns.PruneList_get_leaf_shift pl.bitmap pl.leafShiftCache (subW pos0 1))
      = (if pos0 = 0 then 0 else getLeafShift pl (pos0 - 1)) := by
    by_cases h0 : pos0 = 0
    · simp [h0]
    · have : subW pos0 1 = pos0 - 1 := by unfold subW; omega
      simp only [h0, beq_iff_eq, if_false, this]
      exact get_leaf_shift_eq pl _ (by omega) hl
  have hp : (if pos0 = 0 then 0 else getLeafShift pl (pos0 - 1)) < 2^63 := by
    split
    · omega
    · exact cacheAt_small hs _
  simp only [hprev, hr.1]
  have hr2 := hr.2
  by_cases hroot : pl.isPrunedRoot pos0 = true
  · simp only [hroot, if_true]; unfold addW; omega
  · simp only [hroot, Bool.false_eq_true, if_false]; unfold addW; omega

/-! ## `is_pruned` -/

theorem is_pruned_eq (pl : Store.PruneList) (pos0 : Nat) (h : pos0 + 1 < 2^32) (hw : WF pl.bitmap) :
    Fns.PruneList_is_pruned pl.bitmap pos0 = isPruned pl pos0 := by
  unfold Fns.PruneList_is_pruned isPruned
  rw [is_pruned_root_eq pl pos0 h, pos1_eq h]
  have hr := rank_le pl.bitmap (1 + pos0)
  have hc : Fns.castN 32 (Bm.rank pl.bitmap (1 + pos0)) = Bm.rank pl.bitmap (1 + pos0) := by
    unfold Fns.castN; exact Nat.mod_eq_of_lt (by have := hw.2; omega)
  simp only [bmRank_eq, bmSelect_eq, hc]
  cases hsel : Bm.select pl.bitmap (Bm.rank pl.bitmap (1 + pos0)) with
  | none => rfl
  | some root =>
    have hm : root ∈ pl.bitmap := by unfold Bm.select at hsel; exact List.mem_of_getElem? hsel
    have hb := hw.1 root hm
    have e : subW root 1 = root - 1 := by unfold subW; omega
    simp only [e, bintree_range_eq (root - 1) (by omega)]

/-! ## `cleanup_subtree`, `append_single`, `append` -/

theorem cleanup_subtree_eq (pl : Store.PruneList) (pos0 : Nat) (h : pos0 + 2 < 2^32) (_hw : WF pl.bitmap) :
    Fns.PruneList_cleanup_subtree (ofPL pl) pos0 = ofPL (cleanupSubtree pl pos0) := by
  unfold Fns.PruneList_cleanup_subtree cleanupSubtree ofPL
  have hlm : bintreeLeftmost pos0 ≤ pos0 := by
    have hb := height_bound pos0
    have : 0 < 2^(height pos0) := Nat.pow_pos (by omega)
    unfold bintreeLeftmost; omega
  have hc : Fns.castN 32 (Fns.bintree_leftmost pos0) = bintreeLeftmost pos0 := by
    rw [bintree_leftmost_eq_u64 pos0 (by omega)]; unfold Fns.castN; exact Nat.mod_eq_of_lt (by omega)
  simp only [hc]
  have hmax : Option.getD (List.getLast? pl.bitmap) 0 = (Bm.maximum pl.bitmap).getD 0 := rfl
  rw [hmax]
  by_cases hge : bintreeLeftmost pos0 ≥ (Bm.maximum pl.bitmap).getD 0
  · simp [hge]
  · have e1 : Fns.addN 32 (bintreeLeftmost pos0) 1 = bintreeLeftmost pos0 + 1 := by
      unfold Fns.addN; exact Nat.mod_eq_of_lt (by omega)
    simp only [hge, decide_false, Bool.false_eq_true, if_false, e1, bmRemoveAll_eq, bmRank_eq]

/-- the hypotheses under which `append_single` / `append` are tied: a well-formed bitmap and small cache entries -/
structure Ok (pl : Store.PruneList) : Prop where
  wf : WF pl.bitmap
  s1 : Small pl.shiftCache
  s2 : Small pl.leafShiftCache

theorem append_single_eq (pl : Store.PruneList) (pos0 : Nat) (h : pos0 + 2 < 2^32)
    (hl : (Bm.add pl.bitmap (1 + pos0)).length < 2^64) (hs1 : Small pl.shiftCache) (hs2 : Small pl.leafShiftCache) :
    Fns.PruneList_append_single (ofPL pl) pos0 = ofPL (appendSingle pl pos0) := by
  unfold Fns.PruneList_append_single appendSingle ofPL
  simp only [pos1_eq (show pos0 + 1 < 2^32 by omega), bmAdd_eq]
  have e1 := calculate_next_shift_eq { pl with bitmap := Bm.add pl.bitmap (1 + pos0) } pos0 h hl hs1
  have e2 := calculate_next_leaf_shift_eq
    { bitmap := Bm.add pl.bitmap (1 + pos0), leafShiftCache := pl.leafShiftCache,
      shiftCache := pl.shiftCache ++ [calculateNextShift { pl with bitmap := Bm.add pl.bitmap (1 + pos0) } pos0] }
    pos0 h hl hs2
  simp only at e1 e2
  rw [e1, e2]

/-- the `k`-th ancestor of `pos0` (`family(pos0).0` iterated): the positions the recursion of `append` visits -/
def anc : Nat → Nat → Nat
  | 0, p => p
  | k+1, p => anc k (family p).1

/-- **`append` = `appendFuel`** as long as every position the recursion VISITS (the `k`-th ancestor is visited iff the
siblings of all earlier ones are pruned) stays below `2^31 - 2` (so that its parent and sibling fit a `u32`) -/
theorem append_fuel_eq (pl : Store.PruneList) (hok : Ok pl)
    (hadd : ∀ x, (Bm.add (cleanupSubtree pl x).bitmap (1 + x)).length < 2^64) :
    ∀ (n pos0 : Nat),
      (∀ k ≤ n, (∀ j < k, isPruned pl (family (anc j pos0)).2 = true) → anc k pos0 + 2 < 2^31) →
      Fns.PruneList_append_fuel n (ofPL pl) pos0 = ofPL (appendFuel n pl pos0) := by
  intro n
  induction n with
  | zero => intro pos0 _; rfl
  | succ n ih =>
    intro pos0 hanc
    have h0' : pos0 + 2 < 2^31 := hanc 0 (by omega) (fun j hj => by omega)
    have h0 : pos0 + 2 < 2^32 := by omega
    have hfam : Fns.family pos0 = family pos0 := family_eq pos0 (by omega)
    have hsib : (family pos0).2 + 1 < 2^32 := by
      have hbd := height_bound pos0
      have hpk : 0 < 2^(peakMapHeight pos0).2 := Nat.pow_pos (by omega)
      unfold height at hbd
      by_cases hb : bitSet (peakMapHeight pos0).1 (peakMapHeight pos0).2 = true
      · simp only [family, hb, if_true]; omega
      · simp only [family, hb, if_false, Bool.false_eq_true]; omega
    unfold Fns.PruneList_append_fuel appendFuel
    simp only [hfam]
    have hp : Fns.PruneList_is_pruned (ofPL pl).bitmap (family pos0).2 = isPruned pl (family pos0).2 :=
      is_pruned_eq pl _ hsib hok.wf
    rw [hp]
    by_cases hpr : isPruned pl (family pos0).2 = true
    · simp only [hpr, if_true]
      apply ih
      intro k hk prem
      apply hanc (k + 1) (by omega)
      intro j hj
      cases j with
      | zero => exact hpr
      | succ j => exact prem j (by omega)
    · simp only [hpr, Bool.false_eq_true, if_false]
      rw [cleanup_subtree_eq pl pos0 h0 hok.wf]
      have hcs : ∀ x ∈ (cleanupSubtree pl pos0).shiftCache, x < 2^63 := by
        intro x hx; unfold cleanupSubtree at hx
        by_cases hge : bintreeLeftmost pos0 ≥ (Bm.maximum pl.bitmap).getD 0
        · simp only [hge, if_true] at hx; exact hok.s1 x hx
        · simp only [hge, if_false] at hx; exact hok.s1 x (List.mem_of_mem_take hx)
      have hcl : ∀ x ∈ (cleanupSubtree pl pos0).leafShiftCache, x < 2^63 := by
        intro x hx; unfold cleanupSubtree at hx
        by_cases hge : bintreeLeftmost pos0 ≥ (Bm.maximum pl.bitmap).getD 0
        · simp only [hge, if_true] at hx; exact hok.s2 x hx
        · simp only [hge, if_false] at hx; exact hok.s2 x (List.mem_of_mem_take hx)
      exact append_single_eq _ pos0 h0 (hadd pos0) hcs hcl

/-- `PruneList::append` (fuel 64, as the model's `append`) -/
theorem append_eq (pl : Store.PruneList) (hok : Ok pl)
    (hadd : ∀ x, (Bm.add (cleanupSubtree pl x).bitmap (1 + x)).length < 2^64) (pos0 : Nat)
    (hanc : ∀ k ≤ 64, (∀ j < k, isPruned pl (family (anc j pos0)).2 = true) → anc k pos0 + 2 < 2^31) :
    Fns.PruneList_append (ofPL pl) pos0 = ofPL (Store.PruneList.append pl pos0) :=
  append_fuel_eq pl hok hadd 64 pos0 hanc

theorem isPruned_empty (x : Nat) : isPruned {} x = false := by
  simp [isPruned, isPrunedRoot, Bm.contains, Bm.select, Bm.rank]

/-- non-vacuity: the hypotheses of `append_eq` hold for the empty prune list and position 1 (no sibling is pruned, so
only `pos0` itself is visited) -/
example : Fns.PruneList_append (ofPL {}) 1 = ofPL (Store.PruneList.append {} 1) := by
  apply append_eq {} ⟨⟨by simp, by simp⟩, by simp [Small], by simp [Small]⟩
  · intro x
    have : cleanupSubtree {} x = {} := by simp [cleanupSubtree, Bm.maximum]
    rw [this]; simp [Bm.add]
  · intro k _ prem
    cases k with
    | zero => simp [anc]
    | succ k => have := prem 0 (by omega); rw [isPruned_empty] at this; cases this

end GV.Props.XlatePrune
