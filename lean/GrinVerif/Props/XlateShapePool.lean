import GrinVerif.Gen.PipeShapePool
import GrinVerif.Props.XlateShapeLib
/-! # Obligations about the validation pipelines (Pool), stated over the REGENERATED shape tables

`Gen/PipeShapePool.lean` is rewritten on every check run from the current Rust source by
tools/gen_pipeshape.py.  For every function:
* `<fn>_order`  — the ORDER of the steps that can end it with an error (`?`-propagated calls, explicit
  `Err`, tail expression), by callee / error variant: a dropped, added, duplicated or moved check breaks it;
* `<fn>_propagated` — no call to a validation function (`XlateShape.watch`) has its result discarded
  (a `?` replaced by `let _ =` / `.ok();` / a bare statement breaks `_order` and this), and the list of all
  discarded calls (side-effecting helpers) is as reviewed;
* `<fn>_early_ok` — the conditions under which it returns `Ok` early, and the checks that come BEFORE the
  first early return (a new early return, or one moved in front of a check, breaks it);
* `<fn>_errors` — the explicit error variants with the innermost condition they sit under, and the variants
  introduced by `map_err` (a check weakened by changing its condition or wrapped in a new guard breaks it;
  `_depth` records the nesting depth of every step).
All are closed by `decide`.  They do not mention arguments or local names (the exact pins in
`Props/XlateShapePoolPins.lean` do).  After a REVIEWED change regenerate with
`python3 tools/gen_pipeshape.py --obligations Pool`; the ties to the hand models are in
`Props/XlateShapeModel.lean`. -/
namespace GV.Props.XlateShapePool
open GV.Gen.PipeShape GV.Props.XlateShape

set_option maxRecDepth 4000

/-! ### `TransactionPool::add_to_pool (pool/src/transaction_pool.rs)` -/
theorem tpool_add_to_pool_order : readOk tpool_add_to_pool = true ∧ spine tpool_add_to_pool =
    ["add_to_pool", "DuplicateTx", "deaggregate_tx", "verify_kernel_variants", "acceptability", "validate", "verify_tx_lock_height", "all_transactions_aggregate", "<if>", "is_coinbase", "verify_coinbase_maturity", "convert_tx_v2", "add_to_stempool", "add_to_txpool"] := by decide
theorem tpool_add_to_pool_propagated : discarded watch tpool_add_to_pool = [] ∧ calls tpool_add_to_pool = ["add_to_reorg_cache", "tx_accepted", "evict_from_txpool"] := by decide
theorem tpool_add_to_pool_early_ok : earlyOks tpool_add_to_pool = [["$2", "self.adapter.stem_tx_accepted($13).is_ok()"]]
    ∧ spineBeforeFirstEarlyOk tpool_add_to_pool = ["add_to_pool", "DuplicateTx", "deaggregate_tx", "verify_kernel_variants", "acceptability", "validate", "verify_tx_lock_height", "all_transactions_aggregate", "<if>", "is_coinbase", "verify_coinbase_maturity", "convert_tx_v2", "add_to_stempool"] := by decide
theorem tpool_add_to_pool_errors : fails tpool_add_to_pool = [("DuplicateTx", "self.txpool.contains_tx(&$1)")]
    ∧ mapped tpool_add_to_pool = [("validate", "InvalidTx")] := by decide
theorem tpool_add_to_pool_depth : depths tpool_add_to_pool = [1, 2, 1, 0, 2, 0, 0, 1, 0, 1, 0, 0, 1, 0] := by decide
theorem tpool_add_to_pool_guard_inputs : guardInputs tpool_add_to_pool = ["<if>", "tx", "is_acceptable", "<boollit>", "<boollit>", "<if>", "convert_tx_v2"] := by decide

/-! ### `TransactionPool::add_to_stempool (pool/src/transaction_pool.rs)` -/
theorem tpool_add_to_stempool_order : readOk tpool_add_to_stempool = true ∧ spine tpool_add_to_stempool =
    ["add_to_pool"] := by decide
theorem tpool_add_to_stempool_propagated : discarded watch tpool_add_to_stempool = [] ∧ calls tpool_add_to_stempool = [] := by decide
theorem tpool_add_to_stempool_early_ok : earlyOks tpool_add_to_stempool = [] := by decide
theorem tpool_add_to_stempool_errors : fails tpool_add_to_stempool = []
    ∧ mapped tpool_add_to_stempool = [] := by decide
theorem tpool_add_to_stempool_depth : depths tpool_add_to_stempool = [0] := by decide
theorem tpool_add_to_stempool_guard_inputs : guardInputs tpool_add_to_stempool = [] := by decide

/-! ### `TransactionPool::add_to_txpool (pool/src/transaction_pool.rs)` -/
theorem tpool_add_to_txpool_order : readOk tpool_add_to_txpool = true ∧ spine tpool_add_to_txpool =
    ["add_to_pool", "all_transactions_aggregate", "reconcile"] := by decide
theorem tpool_add_to_txpool_propagated : discarded watch tpool_add_to_txpool = [] ∧ calls tpool_add_to_txpool = [] := by decide
theorem tpool_add_to_txpool_early_ok : earlyOks tpool_add_to_txpool = [] := by decide
theorem tpool_add_to_txpool_errors : fails tpool_add_to_txpool = []
    ∧ mapped tpool_add_to_txpool = [] := by decide
theorem tpool_add_to_txpool_depth : depths tpool_add_to_txpool = [0, 0, 0] := by decide
theorem tpool_add_to_txpool_guard_inputs : guardInputs tpool_add_to_txpool = [] := by decide

/-! ### `TransactionPool::verify_kernel_variants (pool/src/transaction_pool.rs)` -/
theorem tpool_verify_kernel_variants_order : readOk tpool_verify_kernel_variants = true ∧ spine tpool_verify_kernel_variants =
    ["is_nrd", "NRDKernelNotEnabled", "NRDKernelPreHF3"] := by decide
theorem tpool_verify_kernel_variants_propagated : discarded watch tpool_verify_kernel_variants = [] ∧ calls tpool_verify_kernel_variants = [] := by decide
theorem tpool_verify_kernel_variants_early_ok : earlyOks tpool_verify_kernel_variants = [] := by decide
theorem tpool_verify_kernel_variants_errors : fails tpool_verify_kernel_variants = [("NRDKernelNotEnabled", "!(global::is_nrd_enabled())"), ("NRDKernelPreHF3", "($1.version < HeaderVersion(4))")]
    ∧ mapped tpool_verify_kernel_variants = [] := by decide
theorem tpool_verify_kernel_variants_depth : depths tpool_verify_kernel_variants = [1, 2, 2] := by decide
theorem tpool_verify_kernel_variants_guard_inputs : guardInputs tpool_verify_kernel_variants = [] := by decide

/-! ### `TransactionPool::reconcile_block (pool/src/transaction_pool.rs)` -/
theorem tpool_reconcile_block_order : readOk tpool_reconcile_block = true ∧ spine tpool_reconcile_block =
    ["reconcile", "all_transactions_aggregate", "reconcile"] := by decide
theorem tpool_reconcile_block_propagated : discarded watch tpool_reconcile_block = [] ∧ calls tpool_reconcile_block = ["reconcile_block", "reconcile_block"] := by decide
theorem tpool_reconcile_block_early_ok : earlyOks tpool_reconcile_block = [] := by decide
theorem tpool_reconcile_block_errors : fails tpool_reconcile_block = []
    ∧ mapped tpool_reconcile_block = [] := by decide
theorem tpool_reconcile_block_depth : depths tpool_reconcile_block = [0, 0, 0] := by decide
theorem tpool_reconcile_block_guard_inputs : guardInputs tpool_reconcile_block = [] := by decide

/-! ### `TransactionPool::evict_from_txpool (pool/src/transaction_pool.rs)` -/
theorem tpool_evict_from_txpool_order : readOk tpool_evict_from_txpool = true ∧ spine tpool_evict_from_txpool =
    ["evict_transaction"] := by decide
theorem tpool_evict_from_txpool_propagated : discarded watch tpool_evict_from_txpool = [] ∧ calls tpool_evict_from_txpool = [] := by decide
theorem tpool_evict_from_txpool_early_ok : earlyOks tpool_evict_from_txpool = [] := by decide
theorem tpool_evict_from_txpool_errors : fails tpool_evict_from_txpool = []
    ∧ mapped tpool_evict_from_txpool = [] := by decide
theorem tpool_evict_from_txpool_depth : depths tpool_evict_from_txpool = [0] := by decide
theorem tpool_evict_from_txpool_guard_inputs : guardInputs tpool_evict_from_txpool = [] := by decide

/-! ### `Pool::add_to_pool (pool/src/pool.rs)` -/
theorem pool_add_to_pool_order : readOk pool_add_to_pool = true ∧ spine pool_add_to_pool =
    ["DuplicateTx", "aggregate", "validate_raw_tx"] := by decide
theorem pool_add_to_pool_propagated : discarded watch pool_add_to_pool = [] ∧ calls pool_add_to_pool = ["extend", "push", "log_pool_add", "push"] := by decide
theorem pool_add_to_pool_early_ok : earlyOks pool_add_to_pool = [] := by decide
theorem pool_add_to_pool_errors : fails pool_add_to_pool = [("DuplicateTx", "$3.contains(&$0.tx)")]
    ∧ mapped pool_add_to_pool = [] := by decide
theorem pool_add_to_pool_depth : depths pool_add_to_pool = [1, 1, 0] := by decide
theorem pool_add_to_pool_guard_inputs : guardInputs pool_add_to_pool = ["all_transactions"] := by decide

/-! ### `Pool::validate_raw_tx (pool/src/pool.rs)` -/
theorem pool_validate_raw_tx_order : readOk pool_validate_raw_tx = true ∧ spine pool_validate_raw_tx =
    ["validate", "validate_tx", "apply_tx_to_block_sums"] := by decide
theorem pool_validate_raw_tx_propagated : discarded watch pool_validate_raw_tx = [] ∧ calls pool_validate_raw_tx = [] := by decide
theorem pool_validate_raw_tx_early_ok : earlyOks pool_validate_raw_tx = [] := by decide
theorem pool_validate_raw_tx_errors : fails pool_validate_raw_tx = []
    ∧ mapped pool_validate_raw_tx = [] := by decide
theorem pool_validate_raw_tx_depth : depths pool_validate_raw_tx = [0, 0, 0] := by decide
theorem pool_validate_raw_tx_guard_inputs : guardInputs pool_validate_raw_tx = [] := by decide

/-! ### `Pool::validate_raw_txs (pool/src/pool.rs)` -/
theorem pool_validate_raw_txs_order : readOk pool_validate_raw_txs = true ∧ spine pool_validate_raw_txs =
    [] := by decide
theorem pool_validate_raw_txs_propagated : discarded watch pool_validate_raw_txs = [] ∧ calls pool_validate_raw_txs = ["push", "extend", "push", "push"] := by decide
theorem pool_validate_raw_txs_early_ok : earlyOks pool_validate_raw_txs = [] := by decide
theorem pool_validate_raw_txs_errors : fails pool_validate_raw_txs = []
    ∧ mapped pool_validate_raw_txs = [] := by decide
theorem pool_validate_raw_txs_depth : depths pool_validate_raw_txs = [] := by decide
theorem pool_validate_raw_txs_guard_inputs : guardInputs pool_validate_raw_txs = ["<match>"] := by decide

/-! ### `Pool::reconcile (pool/src/pool.rs)` -/
theorem pool_reconcile_order : readOk pool_reconcile = true ∧ spine pool_reconcile =
    [] := by decide
/-- REVIEWED: the result of `add_to_pool` is deliberately ignored here -/
theorem pool_reconcile_propagated : discarded watch pool_reconcile = ["add_to_pool"] ∧ calls pool_reconcile = ["clear", "add_to_pool"] := by decide
theorem pool_reconcile_early_ok : earlyOks pool_reconcile = [] := by decide
theorem pool_reconcile_errors : fails pool_reconcile = []
    ∧ mapped pool_reconcile = [] := by decide
theorem pool_reconcile_depth : depths pool_reconcile = [] := by decide
theorem pool_reconcile_guard_inputs : guardInputs pool_reconcile = ["entries"] := by decide

/-! ### `Pool::find_matching_transactions (pool/src/pool.rs)` -/
theorem pool_find_matching_transactions_order : readOk pool_find_matching_transactions = true ∧ spine pool_find_matching_transactions =
    ["found_txs"] := by decide
theorem pool_find_matching_transactions_propagated : discarded watch pool_find_matching_transactions = [] ∧ calls pool_find_matching_transactions = ["push"] := by decide
theorem pool_find_matching_transactions_early_ok : earlyOks pool_find_matching_transactions = [] := by decide
theorem pool_find_matching_transactions_errors : fails pool_find_matching_transactions = []
    ∧ mapped pool_find_matching_transactions = [] := by decide
theorem pool_find_matching_transactions_depth : depths pool_find_matching_transactions = [0] := by decide
theorem pool_find_matching_transactions_guard_inputs : guardInputs pool_find_matching_transactions = ["kernels", "kernels"] := by decide

end GV.Props.XlateShapePool
