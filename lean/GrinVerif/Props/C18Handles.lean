import GrinVerif.Model.KvResize
import GrinVerif.Gen.KvGate
/-! C18: a `Store` handle opened on an environment that is already registered in `ENV_MAP`
(`store/src/lmdb.rs`, `Store::new`: the `has_env` branch) – the chain store and the peer store share
one environment, tools open further handles on a running node's directory.

Opening a handle is the identity on the environment's gate state (`open_txs_count`, `resizing`,
`resize_checking`, the pending waiter, the map size) – only `stores_count` goes up; other
environments are untouched.  Consequences stated on the resize protocol model: a resize that falls
due through the new handle while a reader of another handle is open is DEFERRED (never run under
the open read transaction) and the batch waits; a resize already pending stays pending; closing the
readers afterwards brings the counter back to 0 exactly (no underflow); dropping a handle that is
not the last one changes nothing but the count.  Run `kv rehandle` drives exactly these scenarios
on the real code (`rh-trigger`, property-fixed: `waited` iff a reader is open and the resize due). -/
namespace GV.Props.C18Handles
open GV GV.Kv GV.KvGate

theorem lookup_update_same (f : EnvState → EnvState) : ∀ (m : EnvMap) (path : Nat) (s : EnvState),
    envLookup m path = some s → envLookup (envUpdate m path f) path = some (f s) := by
  intro m
  induction m with
  | nil => intro path s h; simp [envLookup] at h
  | cons x r ih =>
    intro path s h
    obtain ⟨p, t⟩ := x
    unfold envLookup at h
    unfold envUpdate
    by_cases hp : p = path
    · rw [if_pos hp] at h
      injection h with h
      rw [if_pos hp]
      simp [envLookup, hp, h]
    · rw [if_neg hp] at h
      rw [if_neg hp]
      simp only [envLookup, if_neg hp]
      exact ih path s h

theorem lookup_update_other (f : EnvState → EnvState) : ∀ (m : EnvMap) (path q : Nat), q ≠ path →
    envLookup (envUpdate m path f) q = envLookup m q := by
  intro m
  induction m with
  | nil => intro path q _; rfl
  | cons x r ih =>
    intro path q hq
    obtain ⟨p, t⟩ := x
    unfold envUpdate
    by_cases hp : p = path
    · rw [if_pos hp]
      have : ¬ p = q := by omega
      simp [envLookup, this]
    · rw [if_neg hp]
      by_cases hpq : p = q
      · simp [envLookup, hpq]
      · simp only [envLookup, if_neg hpq]
        exact ih path q hq

/-- **open_handle_preserves_gate.**  `Store::new` on a registered environment: the `EnvState` is the
old one with `stores_count + 1` – counter, both flags, pending waiter and map size unchanged. -/
theorem open_handle_preserves_gate (m : EnvMap) (path mapSize chunk : Nat) (s : EnvState)
    (h : envLookup m path = some s) :
    envLookup (storeNewEnv m path mapSize chunk) path = some { s with stores := s.stores + 1 } := by
  unfold storeNewEnv
  rw [h]
  exact lookup_update_same _ m path s h

/-- … and every other environment is untouched -/
theorem open_handle_other_envs (m : EnvMap) (path q mapSize chunk : Nat) (hq : q ≠ path) :
    envLookup (storeNewEnv m path mapSize chunk) q = envLookup m q := by
  unfold storeNewEnv
  cases h : envLookup m path with
  | some s => exact lookup_update_other _ m path q hq
  | none => simp [envLookup]; omega

/-- the first handle registers a fresh gate: nothing open, no flag set -/
theorem first_handle_registers (m : EnvMap) (path mapSize chunk : Nat) (h : envLookup m path = none) :
    envLookup (storeNewEnv m path mapSize chunk) path = some { gate := rinit mapSize chunk, stores := 1 } := by
  unfold storeNewEnv
  rw [h]
  simp [envLookup]

/-- **A resize falling due through the new handle while a reader is open is deferred**: whatever
the usage, `maybe_resize` never takes the immediate branch (`env.resize` under an open read
transaction) – the batch waits at the gate (`rehandleTrigger`) exactly when a resize is needed. -/
theorem new_handle_defers_under_reader (m : EnvMap) (path : Nat) (s : EnvState) (used : Nat)
    (h : envLookup m path = some s) (hopen : s.gate.openTxs ≠ 0) (hidle : s.gate.checking = false) :
    (∀ n, (maybeResize s.gate used).2 ≠ .immediate n) ∧
    rehandleTrigger m path used = (needsResize s.gate.mapSize used s.gate.chunk).1 := by
  constructor
  · intro n
    unfold maybeResize
    simp only [hidle, Bool.false_eq_true, if_false]
    split
    · simp
    · simp
  · unfold rehandleTrigger
    rw [open_handle_preserves_gate m path 0 0 s h]
    simp only
    unfold maybeResize
    simp only [hidle, Bool.false_eq_true, if_false]
    cases hr : (needsResize s.gate.mapSize used s.gate.chunk).1 with
    | false => simp
    | true => simp [hopen]

/-- without any open transaction the same batch resizes at once -/
theorem new_handle_resizes_at_once_when_idle (m : EnvMap) (path : Nat) (s : EnvState) (used : Nat)
    (h : envLookup m path = some s) (hopen : s.gate.openTxs = 0) (hidle : s.gate.checking = false) :
    rehandleTrigger m path used = false := by
  unfold rehandleTrigger
  rw [open_handle_preserves_gate m path 0 0 s h]
  simp only
  unfold maybeResize
  simp only [hidle, Bool.false_eq_true, if_false]
  cases hr : (needsResize s.gate.mapSize used s.gate.chunk).1 with
  | false => simp
  | true => simp [hopen]

/-- **a pending resize survives the opening of a handle**: flags and waiter are still there, so the
parked batch stays parked and the waiter still resizes to the planned size once everything closes -/
theorem open_handle_keeps_pending_resize (m : EnvMap) (path a b : Nat) (s : EnvState) (n : Nat)
    (h : envLookup m path = some s) (hp : s.gate.pending = some n) (hr : s.gate.resizing = true) :
    ∃ s', envLookup (storeNewEnv m path a b) path = some s' ∧ s'.gate.pending = some n ∧
      s'.gate.resizing = true ∧ (settle s'.gate).mapSize = n := by
  refine ⟨_, open_handle_preserves_gate m path a b s h, hp, hr, ?_⟩
  simp [settle, waiterStep, hp]

/-- **no underflow**: `k` readers opened before the handle and closed after it leave the counter
where it was (the handle did not forget them) -/
theorem readers_closed_after_open_handle (m : EnvMap) (path a b : Nat) (s : EnvState) (k : Nat)
    (h : envLookup m path = some s) (hk : k ≤ s.gate.openTxs) :
    ∃ s', envLookup (storeNewEnv m path a b) path = some s' ∧
      (rrun s'.gate (List.replicate k RAct.closeTx)).openTxs = s.gate.openTxs - k := by
  refine ⟨_, open_handle_preserves_gate m path a b s h, ?_⟩
  show (rrun s.gate (List.replicate k RAct.closeTx)).openTxs = _
  generalize s.gate = e at hk ⊢
  induction k generalizing e with
  | zero => simp [rrun]
  | succ n ih =>
    simp only [List.replicate_succ, rrun, List.foldl_cons, rstep]
    have := ih { e with openTxs := e.openTxs - 1 } (by show n ≤ e.openTxs - 1; omega)
    simp only [rrun] at this
    rw [this]
    show e.openTxs - 1 - n = e.openTxs - (n + 1)
    omega

/-- dropping a handle that is not the last one changes only the count -/
theorem drop_handle_keeps_gate (m : EnvMap) (path : Nat) (s : EnvState) (h : envLookup m path = some s)
    (h2 : 2 ≤ s.stores) :
    envLookup (storeDropEnv m path) path = some { s with stores := s.stores - 1 } := by
  unfold storeDropEnv
  rw [h]
  have : ¬ s.stores ≤ 1 := by omega
  simp only [this, if_false]
  exact lookup_update_same _ m path s h

/-- non-vacuity: one environment with a reader open and a 1 MiB map 92 % used; a second handle is
opened; its batch has to wait, and after the reader the map is 2 MiB -/
example : rehandleTrigger [(7, { gate := { mapSize := 1048576, chunk := 1048576, openTxs := 1 } })] 7 962560 = true ∧
    rehandleMap [(7, { gate := { mapSize := 1048576, chunk := 1048576, openTxs := 1 } })] 7 962560 = 2097152 := by
  decide

/-! ### spellings of one directory -/

/-- **No two live gate states on one database.**  Whatever spelling `Store::new` is given: it either
joins the registered environment (same key), is refused (another key resolving to a directory
whose environment is open in this process), or opens a directory nobody has open.  In particular a
handle never gets a fresh gate state for a directory that is already open (run `envkeys`: `.`, `..`,
doubled separator, symlink and relative spellings are refused; a trailing slash is the same key). -/
theorem alias_never_opens_second_gate (m : EnvMapD) (key dir : Nat)
    (hopen : m.any (fun x => x.2.1 == dir) = true) :
    storeNewOutcome m key dir ≠ .separate := by
  unfold storeNewOutcome
  split
  · simp
  · simp [hopen]

theorem same_key_shares (m : EnvMapD) (key dir : Nat) (h : m.any (fun x => x.1 == key) = true) :
    storeNewOutcome m key dir = .shared := by
  unfold storeNewOutcome; simp [h]

/-! ### the registry as read from the CURRENT source (`tools/gen_kvgate.py` → `Gen/KvGate.lean`) -/

/-- **registry_is_the_modelled_one.**  In `store/src/lmdb.rs` as it is now: an `EnvState` literal
and an insert into `ENV_MAP` exist only in `Store::new`, inside `if !has_env { .. }` with
`has_env = contains_key(&full_path)`; the branch for an already registered environment mentions
`stores_count` and nothing else of the state; `open_txs_count` is written by `enter_tx` and
`TxCounter::drop` only, `resizing` by `set_resizing` and the waiter of `maybe_resize`,
`resize_checking` by its two accessors and the waiter.  That is `storeNewEnv`: a change that
re-initialises counter or flags when a handle is opened breaks this obligation (and run `rehandle`
shows the concrete history). -/
theorem registry_is_the_modelled_one : Gen.KvGate.registry.Ok := by decide

theorem registered_env_branch_touches_count_only :
    Gen.KvGate.registry.elseTouches = ["stores_count"] := by decide

theorem counter_written_by_gate_only :
    Gen.KvGate.registry.countWriters = ["Store::enter_tx", "TxCounter::drop"] := by decide

end GV.Props.C18Handles
