import GrinVerif.Lemmas.ConcCommit
/-! # C17 — "the cumulative difficulty of successively observed heads never decreases", at model level

The chain only commits a new head when the work increases (chain domain: the head moves only with more
work; for the header head `pipe::process_block_headers` / `process_block_header` call `update_header_head`
only under `has_more_work`).  Here that per-commit fact is LIFTED to the concurrent commit-protocol model of
`Model/Conc.lean` (`Conc.Commit`: any number of writer threads committing under `txhashset.write()`, any
number of readers under `txhashset.read()`, any number of lock-free readers of LMDB): in any interleaving,
the work of the heads a reader observes one after the other never decreases - whether it reads the head
under the lock (`.locked`) or lock-free from the db (`.lockfree`: `Chain::head()`, `head_header()`,
`header_head()` take no lock - `Props/C17.table_lockfree_readers`), and also across readers (the log is
global).  Harness tie: the `head work monotone per reader` oracles of `conc mix|long|race|tie`, run
`conc hdrmono` (lighter-fork header sync), run `node`. -/
namespace GV.Props.C17Mono
open GV.Conc GV.Conc.Commit
variable {D M : Type}

/-- the db half of an observation (where the head lives) -/
def obsDbOf : Obs D M → D
  | .locked d _ => d
  | .lockfree d => d

/-- A run in which every commit is GUARDED: an op that started from base `b` and publishes `w` only commits
when `wk b.db ≤ wk w.db` (`wk` = total difficulty of the head stored in the db part).  All other steps are
unconstrained (any private work, aborts, readers coming and going, lock-free reads at any time). -/
inductive GRun (wk : D → Nat) (s0 : Shared D M) : St D M → List (Nat × Obs D M) → Prop where
  | nil : GRun wk s0 (start s0) []
  | silent {s s' log} : GRun wk s0 s log → CStep s none s' →
      (∀ tid b w, s.wr tid = .synced b w → s'.hist = w :: s.hist → wk b.db ≤ wk w.db) → GRun wk s0 s' log
  | obs {s s' log o} : GRun wk s0 s log → CStep s (some o) s' → GRun wk s0 s' ((s.k, o) :: log)

theorem GRun.toRun {wk : D → Nat} {s0 : Shared D M} {s : St D M} {log : List (Nat × Obs D M)}
    (h : GRun wk s0 s log) : Run s0 s log := by
  induction h with
  | nil => exact Run.nil
  | silent _ hs _ ih => exact Run.silent ih hs
  | obs _ hs ih => exact Run.obs ih hs

/-- the history (newest first) has non-increasing work towards the past -/
def HistMono (wk : D → Nat) (hist : List (Shared D M)) : Prop :=
  hist.Pairwise (fun newer older => wk older.db ≤ wk newer.db)

/-- guarded commits keep the history monotone in work -/
theorem grun_hist_mono (wk : D → Nat) (s0 : Shared D M) (s : St D M) (log : List (Nat × Obs D M))
    (h : GRun wk s0 s log) : HistMono wk s.hist := by
  induction h with
  | nil => simp [HistMono, start]
  | @silent s s' log hr hs hg ih =>
    have hi := cinv_run s0 s log hr.toRun
    cases hs with
    | commit tid b w hw =>
      have hb := hi.base tid b w (Or.inr hw)
      have hgw := hg tid b w hw rfl
      cases hh : s.hist with
      | nil => rw [hh] at hb; cases hb
      | cons c rest =>
        rw [hh] at hb ih
        simp only [List.head?_cons, Option.some.injEq] at hb
        subst hb
        simp only [HistMono, List.pairwise_cons] at ih ⊢
        refine ⟨?_, ih⟩
        intro x hx
        rcases List.mem_cons.mp hx with rfl | hx
        · exact hgw
        · exact Nat.le_trans (ih.1 x hx) hgw
    | wlock _ _ _ => exact ih
    | work _ _ _ _ _ => exact ih
    | sync _ _ _ _ => exact ih
    | abort _ _ _ _ => exact ih
    | wunlock _ _ => exact ih
    | rlock0 _ => exact ih
    | rlock _ _ => exact ih
    | runlock1 _ => exact ih
    | runlock _ _ => exact ih
  | @obs s s' log o hr hs ih =>
    rw [obs_same_state _ _ _ hs]; exact ih

theorem obsMatches_db {o : Obs D M} {c : Shared D M} (h : obsMatches o c) : obsDbOf o = c.db := by
  cases o with
  | locked d m => exact h.1
  | lockfree d => exact h

/-- **Observed head work never decreases.**  In any run with guarded commits - any number of writers, of
readers under the lock, of lock-free readers, any interleaving - for any two observations, the later one
(earlier in the newest-first log) reports a head with at least the work of the earlier one; both are heads of
committed states. -/
theorem observed_head_work_monotone (wk : D → Nat) (s0 : Shared D M) (s : St D M) (log : List (Nat × Obs D M))
    (h : GRun wk s0 s log) :
    log.Pairwise (fun later earlier => wk (obsDbOf earlier.2) ≤ wk (obsDbOf later.2)) := by
  have hrun := h.toRun
  have hm := (run_log_monotone s0 s log hrun).1
  have hc := run_obs_committed s0 s log hrun
  have hh : (s.hist.reverse).Pairwise (fun older newer => wk older.db ≤ wk newer.db) :=
    List.pairwise_reverse.mpr (grun_hist_mono wk s0 s log h)
  refine hm.imp_of_mem ?_
  intro a b ha hb hab
  obtain ⟨ca, hca, hma⟩ := hc a.1 a.2 ha
  obtain ⟨cb, hcb, hmb⟩ := hc b.1 b.2 hb
  rw [obsMatches_db hma, obsMatches_db hmb]
  rcases Nat.lt_or_ge b.1 a.1 with hlt | hge
  · obtain ⟨hbl, hbe⟩ := List.getElem?_eq_some_iff.mp hcb
    obtain ⟨hal, hae⟩ := List.getElem?_eq_some_iff.mp hca
    have := (List.pairwise_iff_getElem.mp hh) b.1 a.1 hbl hal hlt
    rw [hbe, hae] at this
    exact this
  · have : a.1 = b.1 := Nat.le_antisymm hge hab
    rw [this] at hca
    rw [hca] at hcb
    injection hcb with e
    rw [e]
    exact Nat.le_refl _

/-- non-vacuity and contrast: a guarded run with two commits (work 5, then 9), a lock-free read in the
sync-commit window of the second and a locked read after it: works observed 5 then 9 -/
example : ∃ (s : St Nat Nat) (log : List (Nat × Obs Nat Nat)), GRun (fun d => d) ⟨5, 0⟩ s log ∧
    log.map (fun e => obsDbOf e.2) = [9, 5] := by
  let s0 : Shared Nat Nat := ⟨5, 0⟩
  have r0 := GRun.nil (wk := fun d : Nat => d) (s0 := s0)
  have r1 := GRun.silent r0 (CStep.wlock _ 1 rfl rfl) (by intro tid b w h; simp [start] at h)
  have r2 := GRun.silent r1 (CStep.work _ 1 s0 s0 (fun _ => ⟨9, 1⟩) rfl) (by intro tid b w h e; simp at e)
  have r3 := GRun.silent r2 (CStep.sync _ 1 s0 ⟨9, 1⟩ rfl) (by intro tid b w h e; simp at e)
  have r4 := GRun.obs r3 (CStep.lfread _)
  have r5 := GRun.silent r4 (CStep.commit _ 1 s0 ⟨9, 1⟩ rfl) (by
    intro tid b w h _
    by_cases ht : tid = 1
    · subst ht
      have h' : WPhase.synced s0 (⟨9, 1⟩ : Shared Nat Nat) = WPhase.synced b w := h
      injection h' with hb hw
      subst hb; subst hw
      decide
    · simp [ht, start] at h)
  have r6 := GRun.silent r5 (CStep.wunlock _ 1 rfl) (by intro tid b w h e; simp at e)
  have r7 := GRun.silent r6 (CStep.rlock0 _ rfl) (by intro tid b w h e; simp at e)
  have r8 := GRun.obs r7 (CStep.rread _ 1 rfl)
  exact ⟨_, _, r8, rfl⟩

end GV.Props.C17Mono
