import GrinVerif.Lemmas.ConcCommit
/-! # C17 — "data read under one view is mutually consistent", for any number of writers and readers

The commit-protocol model of `Model/Conc.lean` (`Conc.Commit`) has any number of writer threads (by id)
and any number of readers inside the txhashset lock (`TsLock.readers n`, n unbounded).
`Props/C17.lean` proves that every single observation is a state of the commit history.  This file adds
the statement about a whole VIEW — everything any reader reads between taking `txhashset.read()` and
releasing it: while the lock is read-held no step of ANY thread (other readers arriving or leaving,
lock-free readers, writers trying) changes the shared state, the commit count or the history; hence all
reads made inside one view, by however many readers, return the same committed state.  Harness tie: the
`View` / `HeaderView` oracles of `conc mix|long|race|zipwin|resets|tie` (roots and sizes under one guard
= those of the LMDB head header read under the same guard). -/
namespace GV.Props.C17View
open GV.Conc GV.Conc.Commit
variable {D M : Type}

/-- **While a reader holds the lock nothing moves.**  In any reachable state whose txhashset lock is
read-held (by `n ≥ 1` readers), whatever step is taken next - by any thread - leaves the shared (LMDB,
MMR) state, the number of committed ops and the history unchanged, every writer is (still) idle, and
the lock is free or read-held afterwards. -/
theorem readers_freeze_state (s0 : Shared D M) (s s' : St D M) (log : List (Nat × Obs D M))
    (o : Option (Obs D M)) (hr : Run s0 s log) (n : Nat) (hts : s.ts = .readers n) (hs : CStep s o s') :
    s'.sh = s.sh ∧ s'.k = s.k ∧ s'.hist = s.hist ∧ (∀ tid, s'.wr tid = .idle) ∧
      (s'.ts = .free ∨ ∃ m, s'.ts = .readers m) := by
  have hi := cinv_run s0 s log hr
  have hall : ∀ tid, s.wr tid = .idle :=
    all_idle_of_not_writer hi (by intro t e; rw [hts] at e; cases e)
  cases hs with
  | wlock tid hfree hidle => rw [hts] at hfree; cases hfree
  | work tid b w f hw => rw [hall tid] at hw; cases hw
  | sync tid b w hw => rw [hall tid] at hw; cases hw
  | commit tid b w hw => rw [hall tid] at hw; cases hw
  | abort tid b w hw => rw [hall tid] at hw; cases hw
  | wunlock tid hw => rw [hall tid] at hw; cases hw
  | rlock0 hfree => rw [hts] at hfree; cases hfree
  | rlock m hm => exact ⟨rfl, rfl, rfl, hall, Or.inr ⟨m + 1, rfl⟩⟩
  | rread m hm => exact ⟨rfl, rfl, rfl, hall, Or.inr ⟨n, hts⟩⟩
  | runlock1 h1 => exact ⟨rfl, rfl, rfl, hall, Or.inl rfl⟩
  | runlock m hm => exact ⟨rfl, rfl, rfl, hall, Or.inr ⟨m + 1, rfl⟩⟩
  | lfread => exact ⟨rfl, rfl, rfl, hall, Or.inr ⟨n, hts⟩⟩

/-- a stretch of steps during which the lock stays read-held (one view of some reader: from a state
inside its guard to a later state inside the same guard) -/
inductive InView : St D M → St D M → Prop where
  | refl (s : St D M) : InView s s
  | step {s s1 s2 : St D M} {o : Option (Obs D M)} {n : Nat} :
      InView s s1 → s1.ts = .readers n → CStep s1 o s2 → InView s s2

/-- **One view = one committed state.**  From any reachable state, along any stretch of steps of any
threads during which the txhashset lock stays read-held, the shared state, the commit count and the
history at the end are those at the beginning. -/
theorem view_is_stable (s0 : Shared D M) (s s' : St D M) (log : List (Nat × Obs D M)) (hr : Run s0 s log)
    (hv : InView s s') : (s'.sh = s.sh ∧ s'.k = s.k ∧ s'.hist = s.hist) ∧ ∃ log', Run s0 s' log' := by
  induction hv with
  | refl => exact ⟨⟨rfl, rfl, rfl⟩, log, hr⟩
  | @step s1 s2 o n _ hts hs ih =>
    obtain ⟨⟨h1, h2, h3⟩, log1, hr1⟩ := ih
    obtain ⟨a, b, c, _, _⟩ := readers_freeze_state s0 s1 s2 log1 o hr1 n hts hs
    refine ⟨⟨a.trans h1, b.trans h2, c.trans h3⟩, ?_⟩
    cases o with
    | none => exact ⟨log1, Run.silent hr1 hs⟩
    | some ob => exact ⟨_, Run.obs hr1 hs⟩

/-- … so any two reads under the lock inside one view - by the same reader or by different readers -
return the same (LMDB, MMR) pair, and it is the state after exactly the ops committed when the view
began. -/
theorem view_reads_agree (s0 : Shared D M) (s s' t t' : St D M) (log : List (Nat × Obs D M)) (hr : Run s0 s log)
    (hv : InView s s') (d d' : D) (m m' : M)
    (h1 : CStep s (some (.locked d m)) t) (h2 : CStep s' (some (.locked d' m')) t') :
    d = d' ∧ m = m' ∧ ∃ c, s.hist.reverse[s.k]? = some c ∧ d = c.db ∧ m = c.mmr := by
  obtain ⟨⟨hsh, _, _⟩, _⟩ := view_is_stable s0 s s' log hr hv
  cases h1 with
  | rread n hn =>
    cases h2 with
    | rread n' hn' =>
      refine ⟨by rw [hsh], by rw [hsh], ?_⟩
      have hi := cinv_run s0 s log hr
      have hall : ∀ tid, s.wr tid = .idle :=
        all_idle_of_not_writer hi (by intro t e; rw [hn] at e; cases e)
      have hq := hi.quiet (by intro tid b w e; rw [hall tid] at e; cases e)
      refine ⟨s.sh, ?_, rfl, rfl⟩
      have hlen := hi.len
      cases hh : s.hist with
      | nil => rw [hh] at hlen; simp at hlen
      | cons c rest =>
        rw [hh] at hq hlen
        simp only [List.head?_cons, Option.some.injEq] at hq
        subst hq
        simp only [List.length_cons] at hlen
        have hk : s.k = rest.length := by omega
        rw [List.reverse_cons, hk]
        simp

/-- **Writers never overlap**: in any reachable state at most one thread is past the lock step of a
writer op (working, synced or committed-not-yet-unlocked) - however many writer threads there are. -/
theorem two_writers_never_overlap (s0 : Shared D M) (s : St D M) (log : List (Nat × Obs D M)) (hr : Run s0 s log)
    (i j : Nat) (hi : s.wr i ≠ .idle) (hj : s.wr j ≠ .idle) : i = j :=
  only_writer (cinv_run s0 s log hr) hj hi

/-- non-vacuity: a run in which two readers are inside the lock, a lock-free reader reads in between, one
reader leaves, and the remaining reader reads again: the stretch is `InView`, both reads agree -/
example : ∃ (s s' : St Nat Nat) (log : List (Nat × Obs Nat Nat)), Run ⟨3, 4⟩ s log ∧ InView s s' ∧
    s.ts = .readers 2 ∧ s'.ts = .readers 1 ∧
    CStep s (some (.locked 3 4)) s ∧ CStep s' (some (.locked 3 4)) s' := by
  let s0 : Shared Nat Nat := ⟨3, 4⟩
  have r1 := Run.silent (Run.nil (s0 := s0)) (CStep.rlock0 _ rfl)
  have r2 := Run.silent r1 (CStep.rlock _ 1 rfl)
  have v1 := InView.step (n := 2) (InView.refl _) rfl (CStep.lfread ({ (start s0) with ts := .readers 2 }))
  have v2 := InView.step (n := 2) v1 rfl (CStep.runlock _ 0 rfl)
  exact ⟨_, _, _, r2, v2, rfl, rfl, CStep.rread _ 2 rfl, CStep.rread _ 1 rfl⟩

end GV.Props.C17View
