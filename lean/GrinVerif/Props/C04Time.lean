import GrinVerif.Props.C04
/-! # C04: "a strictly later timestamp than the parent's" is a SIGNED comparison

`BlockHeader::timestamp` is a `DateTime<Utc>`; `read_block_header` accepts every second count in
chrono's `NaiveDate` range, negative ones (before 1970) included, and the future-time limit bounds
a timestamp from above only.  `pipe::validate_header` compares `header.timestamp <= prev.timestamp`
on the `DateTime`s, i.e. on signed seconds: model `Hdr.ts : Int`.  (The `as u64` cast of a timestamp
happens only inside `DifficultyIter`, for the retarget.)

Theorems, for every header, parent and context — timestamps any integers, negative or not:
* an accepted header is strictly later than its parent over `Int` (`accepted_later_than_parent`),
  at node level for the single-header path, every header of an accepted batch and every accepted
  block (`stored_later_than_parent`, `batch_later_than_parent`, `block_later_than_parent`);
* a header that is not later is refused at the time check or an earlier one
  (`not_later_refused`), in particular a pre-epoch child of a post-epoch parent
  (`pre_epoch_child_refused`), whatever options, verifier answer and difficulty window
  (`time_rule_before_retarget`: the retarget is not consulted, so no wrapped or huge span reaches
  `next_difficulty`, and the verdict is not a panic);
* on a chain whose timestamps strictly increase — across the epoch or entirely before it — the span
  the WTEMA retarget computes on the `as u64` casts is the true signed span, its divisor is not zero
  and `validate_header` does not panic (`wtema_span_signed`, `validate_header_no_panic_signed`). -/
namespace GV.Props.C04Time
open GV GV.Gen GV.Cons

/-- **Acceptance implies `child.ts > parent.ts` over `Int`.** -/
theorem accepted_later_than_parent (c : Ctx) (h : Hdr) (hv : validateHeader c h = .ok ()) :
    ∃ prev, c.prev = some prev ∧ prev.ts < h.ts := by
  obtain ⟨_, prev, hp, _, _, ht, _⟩ := (C04.validate_header_iff c h).mp hv
  exact ⟨prev, hp, ht⟩

/-- A header that is not strictly later than its parent is refused, by the time check or one of the
checks in front of it (denylist, height, version) — never later, never accepted. -/
theorem not_later_refused (c : Ctx) (h prev : Hdr) (hp : c.prev = some prev) (hle : h.ts ≤ prev.ts) :
    validateHeader c h = .error .Denied ∨ validateHeader c h = .error .InvalidBlockHeight ∨
    validateHeader c h = .error .InvalidBlockVersion ∨ validateHeader c h = .error .InvalidBlockTime := by
  unfold validateHeader
  split
  · exact .inl rfl
  simp only [hp]
  split
  · exact .inr (.inl rfl)
  split
  · exact .inr (.inr (.inl rfl))
  simp

/-- with a parent at the delivered height − 1 and the scheduled version, the answer is exactly
`InvalidBlockTime` -/
theorem not_later_invalid_block_time (c : Ctx) (h prev : Hdr) (hd : c.denied = false)
    (hp : c.prev = some prev) (hh : h.height = addW prev.height 1)
    (hv : validHeaderVersion c.ct h.height h.version = true) (hle : h.ts ≤ prev.ts) :
    validateHeader c h = .error .InvalidBlockTime := by
  unfold validateHeader
  simp [hd, hp, hh, hle]
  rw [← hh]
  simp [hv]

/-- a header dated before the unix epoch on a parent dated at or after it is refused -/
theorem pre_epoch_child_refused (c : Ctx) (h prev : Hdr) (hp : c.prev = some prev)
    (hneg : h.ts < 0) (hpos : 0 ≤ prev.ts) : validateHeader c h ≠ .ok () := by
  intro hv
  obtain ⟨p, hp', hlt⟩ := accepted_later_than_parent c h hv
  rw [hp] at hp'
  cases hp'
  omega

/-- **The time rule comes before the proof of work and the retarget.**  For a header that is not
later than its parent the verdict does not depend on the options, the verifier's answer or the
difficulty window: `next_difficulty` is not consulted (so no wrapped or huge time span reaches it). -/
theorem time_rule_before_retarget (c : Ctx) (h prev : Hdr) (hp : c.prev = some prev)
    (hle : h.ts ≤ prev.ts) (w : List HDI) (skip pok : Bool) :
    validateHeader { c with window := w, skipPow := skip, powOk := pok } h = validateHeader c h := by
  unfold validateHeader
  simp only [hp]
  split
  · rfl
  split
  · rfl
  split
  · rfl
  simp

theorem not_later_no_panic (c : Ctx) (h prev : Hdr) (hp : c.prev = some prev) (hle : h.ts ≤ prev.ts) :
    validateHeader c h ≠ .error .Panic := by
  rcases not_later_refused c h prev hp hle with e | e | e | e <;> rw [e] <;> intro x <;> cases x

/-- single-header path: whatever `process_block_header` stores is strictly later than its stored
parent, over `Int` -/
theorem stored_later_than_parent (n n' : HNode) (opts : Opts) (f : FHdr)
    (h : nodeProcessBlockHeader n opts f = .ok n') (hne : n' ≠ n) :
    ∃ prev, getHdr n.hdrs f.prevHash = some prev ∧ prev.h.ts < f.h.ts := by
  rcases C04.node_process_block_header_sound n opts f n' h with hs | ⟨hr, _⟩
  · exact absurd hs hne
  · obtain ⟨_, pv, hp, _, _, ht, _⟩ := hr
    simp only [ctxFor, Option.map_eq_some_iff] at hp
    obtain ⟨p, hp1, hp2⟩ := hp
    subst hp2
    exact ⟨p, hp1, ht⟩

/-- batch path: every header of an accepted batch is strictly later than its predecessor as the
batch sees the store -/
theorem batch_later_than_parent (n n' : HNode) (opts : Opts) (sh : Tip) (r : Bool)
    (pre : List FHdr) (f : FHdr) (post : List FHdr)
    (h : processBlockHeaders n opts sh (pre ++ f :: post) = .ok (n', r)) :
    ∃ prev, getHdr (pre.reverse ++ n.hdrs) f.prevHash = some prev ∧ prev.h.ts < f.h.ts := by
  obtain ⟨hb, _⟩ := C04.sync_batch_sound n opts sh _ n' r h
  obtain ⟨_, pv, hp, _, _, ht, _⟩ := batchRules_mem pre n.hdrs f post hb
  simp only [ctxFor, Option.map_eq_some_iff] at hp
  obtain ⟨p, hp1, hp2⟩ := hp
  subst hp2
  exact ⟨p, hp1, ht⟩

/-- a refused batch — for instance one holding a header that is not later than its parent — leaves
the node as it was -/
theorem batch_with_earlier_header_refused (n : HNode) (opts : Opts) (sh : Tip)
    (pre : List FHdr) (f : FHdr) (post : List FHdr)
    (hbad : ∀ prev, getHdr (pre.reverse ++ n.hdrs) f.prevHash = some prev → f.h.ts ≤ prev.h.ts) :
    syncStep n opts sh (pre ++ f :: post) = n := by
  unfold syncStep
  split
  · rename_i n' r hp
    obtain ⟨p, hp1, hlt⟩ := batch_later_than_parent n n' opts sh r pre f post hp
    have := hbad p hp1
    omega
  · rfl

/-- block path: an accepted block's header is strictly later than its stored parent -/
theorem block_later_than_parent (n : HNode) (opts : Opts) (f : FHdr) (bodyOk : Bool)
    (h : (nodeProcessBlock n opts f bodyOk).2 = .ok ())
    (hnew : getHdr n.hdrs f.hash = none) (hcold : ¬ (f.hash = n.head.hash ∨ f.hash = n.head.prevHash)) (hnb : f.hash ∉ n.blocks) :
    ∃ prev, getHdr n.hdrs f.prevHash = some prev ∧ prev.h.ts < f.h.ts := by
  unfold nodeProcessBlock at h
  split at h
  · cases h
  rename_i n1 h1
  by_cases hne : n1 = n
  · -- the first pass changed nothing: it took a short-cut, impossible for a new hash
    exfalso
    subst hne
    unfold nodeProcessBlockHeader at h1
    have hk : checkKnown n1 f = .ok () := by
      unfold checkKnown
      simp [hcold, hnb]
    rw [hk] at h1
    simp only at h1
    split at h1
    · cases h1
    rename_i prev hprev
    rw [hnew] at h1
    simp only at h1
    -- pbhApply stores `f`: the store grows
    unfold pbhApply at h1
    repeat' split at h1
    all_goals first | cases h1 | skip
    all_goals
      (have := congrArg (fun x => x.hdrs.length) (Except.ok.inj h1)
       simp at this)
  · exact stored_later_than_parent n n1 opts f h1 hne

/-! ### the retarget on strictly increasing signed timestamps -/

/-- `timestamp() as u64` of two timestamps in the reader's range, the later one first: the wrapping
`u64` difference `DifficultyIter`'s consumers compute is the true signed span — also across the
epoch and entirely before it -/
theorem wtema_span_signed (a b : Int) (hlt : b < a) (ha : a < 2^62) (hb : -(2^62) ≤ b) :
    (subW (tsU64 a) (tsU64 b) : Int) = a - b := by
  unfold subW tsU64
  have h62 : (2:Int)^62 = 4611686018427387904 := by decide
  rw [h62] at ha hb
  omega


/-- **On a chain with strictly increasing signed timestamps `validate_header` does not panic**,
whether the parent `a` and grand-parent `b` are dated after the epoch, before it, or on either side
of it: the WTEMA divisor `WTEMA_HALF_LIFE - BLOCK_TIME_SEC + span` is computed on the true span. -/
theorem validate_header_no_panic_signed (c : Ctx) (h a b : Hdr) (rest : List Hdr)
    (hw : c.window = difficultyIter (a :: b :: rest)) (hlt : b.ts < a.ts)
    (ha : a.ts < 2^62) (hb : -(2^62) ≤ b.ts) : validateHeader c h ≠ .error .Panic := by
  intro hv
  have hn := C04.panic_only_from_next_difficulty c h hv
  rw [hw] at hn
  unfold nextDifficulty at hn
  split at hn
  · have := C04.next_dma_total c.ct h.height (difficultyIter (a :: b :: rest)) (by simp [difficultyIter])
    rw [hn] at this
    cases this
  · simp only [difficultyIter] at hn
    rw [C04.next_wtema_none_iff] at hn
    have hs := wtema_span_signed a.ts b.ts hlt ha hb
    simp only at hn
    have h62 : (2:Int)^62 = 4611686018427387904 := by decide
    rw [h62] at ha hb
    rw [WTEMA_HALF_LIFE_val, BLOCK_TIME_SEC_val] at hn
    generalize subW (tsU64 a.ts) (tsU64 b.ts) = x at hs hn
    unfold addW subW at hn
    omega

/-! ### examples: pre-epoch timestamps (hypotheses satisfiable, verdicts as stated) -/

-- a child dated 1969-12-31 23:59:00 on a parent dated 1060: refused by the time check
example : validateHeader C04.exCtx { C04.exHdr with ts := -60 } = .error .InvalidBlockTime := by
  decide +kernel
-- parent before the epoch: a later (still negative) child is accepted, an equal or earlier one is not
example : validateHeader { C04.exCtx with prev := some { C04.exPrev with ts := -2000 } }
    { C04.exHdr with ts := -1990 } = .ok () := by decide +kernel
example : validateHeader { C04.exCtx with prev := some { C04.exPrev with ts := -2000 } }
    { C04.exHdr with ts := -2000 } = .error .InvalidBlockTime := by decide +kernel
example : validateHeader { C04.exCtx with prev := some { C04.exPrev with ts := -2000 } }
    { C04.exHdr with ts := -2001 } = .error .InvalidBlockTime := by decide +kernel
-- a window across the epoch: the retarget sees the true 60 s span
example : nextWtemaDifficulty .mainnet [⟨tsU64 30, 1000000, 0, false⟩, ⟨tsU64 (-30), 999, 0, false⟩] =
    nextWtemaDifficulty .mainnet [⟨1060, 1000000, 0, false⟩, ⟨1000, 999, 0, false⟩] := by decide +kernel

end GV.Props.C04Time
