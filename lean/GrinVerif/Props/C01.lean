import GrinVerif.Lemmas.ChainBasic
import GrinVerif.Lemmas.ChainExampleFacts
import GrinVerif.Lemmas.ChainApply
import GrinVerif.Lemmas.ChainValue
import GrinVerif.Lemmas.ChainMoreReject
import GrinVerif.Lemmas.ChainMoreExamples
import GrinVerif.Lemmas.ChainFull
/-! # C01 — no value is created (value component of the balance equation, in the opening model
of DESIGN §2.3; blinding-level faults are carried as tags and decided by the real code) -/
namespace GV.Props.C01
open GV GV.Chain

/-- A block body passes validation only if (value component) the coinbase-flagged outputs claim
exactly the subsidy plus the fees of the block's kernels, and all outputs together equal all
inputs plus the subsidy: the subsidy is the only new value and only coinbase outputs claim it. -/
theorem block_valid_balances (p : Params) (outs : List OutDef) (b : Blk) (iv : Nat)
    (h : validateBody p outs b iv = none) :
    sumVals outs ((b.outs.filter (·.2)).map (·.1)) = p.reward + b.fees ∧
    sumVals outs (b.outs.map (·.1)) = iv + p.reward := by
  obtain ⟨_, _, _, hcb, hv⟩ := validateBody_none p outs b iv h
  constructor
  · unfold coinbaseMismatch at hcb
    simp only [Bool.or_eq_false_iff, decide_eq_false_iff_not, Decidable.not_not] at hcb
    exact hcb.1
  · unfold valueMismatch at hv
    simpa using hv

/-- … and a forged coinbase claim (value off by any amount) is rejected. -/
theorem forged_coinbase_rejected (p : Params) (outs : List OutDef) (b : Blk) (iv : Nat)
    (hc : sumVals outs ((b.outs.filter (·.2)).map (·.1)) ≠ p.reward + b.fees) :
    validateBody p outs b iv ≠ none := by
  intro h
  exact hc (block_valid_balances p outs b iv h).1

/-- … and a body whose outputs do not equal inputs plus subsidy is rejected. -/
theorem unbalanced_rejected (p : Params) (outs : List OutDef) (b : Blk) (iv : Nat)
    (hc : sumVals outs (b.outs.map (·.1)) ≠ iv + p.reward) :
    validateBody p outs b iv ≠ none := by
  intro h
  exact hc (block_valid_balances p outs b iv h).2


/-- **State equation** (value component): along any replay of blocks whose bodies pass validation
(which includes: no commitment twice among the inputs or the outputs) the total value of
the unspent outputs grows by exactly one subsidy per block: the subsidy is the only new value,
fees only move value. `utxoValue` = Σ of the openings of the unspent outputs. Holds for the path
of every block (every fork), since the state of a block *is* the replay of its own path. -/
theorem state_equation_step (p : Params) (outs : List OutDef) (bs : List Blk) (s s' : UState)
    (hnd : (s.utxo.map (·.1)).Nodup) (hr : replay p s bs = .ok s')
    (hb : ∀ b ∈ bs, validateBody p outs b (sumVals outs b.ins) = none) :
    utxoValue outs s' = utxoValue outs s + bs.length * p.reward :=
  (replay_value p outs bs s s' hnd hr (fun b h =>
    ⟨sane_of_validateBody p outs b _ (hb b h), (validateBody_none p outs b _ (hb b h)).2.2.2.2⟩)).1

/-- … from a genesis whose outputs are distinct and worth one subsidy: after `n` blocks on top of
the genesis the unspent outputs are worth `(n + 1) × reward` — the height-determined supply. -/
theorem state_equation (p : Params) (outs : List OutDef) (g : Blk) (bs : List Blk) (s : UState)
    (hgo : (g.outs.map (·.1)).Nodup) (hgv : sumVals outs (g.outs.map (·.1)) = p.reward)
    (hr : replay p (genesisState g) bs = .ok s)
    (hb : ∀ b ∈ bs, validateBody p outs b (sumVals outs b.ins) = none) :
    utxoValue outs s = (bs.length + 1) * p.reward := by
  have hnd : ((genesisState g).utxo.map (·.1)).Nodup := by
    simp only [genesisState, List.map_map]
    exact hgo
  have hv : utxoValue outs (genesisState g) = p.reward := by
    rw [← hgv, sumVals_eq_sum]
    simp only [utxoValue, genesisState, List.map_map]
    rfl
  rw [state_equation_step p outs bs _ s hnd hr hb, hv, Nat.add_mul]
  omega

/-- … and the unspent commitments of a replayed state are pairwise distinct (the invariant the
equation rests on: a commitment is never unspent twice). -/
theorem unspent_distinct (p : Params) (outs : List OutDef) (g : Blk) (bs : List Blk) (s : UState)
    (hgo : (g.outs.map (·.1)).Nodup) (hr : replay p (genesisState g) bs = .ok s)
    (hb : ∀ b ∈ bs, validateBody p outs b (sumVals outs b.ins) = none) :
    (s.utxo.map (·.1)).Nodup := by
  have hnd : ((genesisState g).utxo.map (·.1)).Nodup := by
    simp only [genesisState, List.map_map]
    exact hgo
  exact (replay_value p outs bs _ s hnd hr (fun b h =>
    ⟨sane_of_validateBody p outs b _ (hb b h), (validateBody_none p outs b _ (hb b h)).2.2.2.2⟩)).2

/-! ## delivery histories (`deliverBlock` = `Chain::process_block`, `run` = any finite history)

`Refused p n b` (`Lemmas/ChainMoreReject.lean`): the delivery of `b` to `n` returns an error and
head, stored blocks and the reported unspent set are what they were. -/

/-- **Every accepted block balances.** After any delivery history from a fresh node (forks,
reorganisations, orphans connected later, duplicates, refused blocks), every stored block other
than the genesis satisfies both value equations: its coinbase-flagged outputs claim exactly the
subsidy plus its fees, and all its outputs equal all its inputs plus the subsidy; it carries no
signature / range-proof (`body:`) and no kernel-sum (`ksum:`) fault and at least one coinbase
kernel whenever an output is flagged. -/
theorem accepted_blocks_balance (p : Params) (n : Node) (es : List Event) (hf : Fresh n)
    (hreg : Registered n es) (b : Blk) (hb : n.blk b.id = some b) (h0 : b.id ≠ 0)
    (hs : b.id ∈ (run p n es).stored) :
    sumVals n.outs ((b.outs.filter (·.2)).map (·.1)) = p.reward + b.fees ∧
    sumVals n.outs (b.outs.map (·.1)) = sumVals n.outs b.ins + p.reward ∧
    hasTag b "body:" = none ∧ hasTag b "ksum:" = none ∧
    (b.outs.any (·.2) = true → (b.kers.filter (· == .cb)).length ≠ 0) := by
  have hi := run_preserved (preserved_inv p) n es hreg (hf.inv p)
  have hdf := run_defs p n es
  have hv : VOP p n b.id := (VOP_congr hdf.2 hdf.1 p b.id).mp (hi.2.valid b.id hs)
  obtain ⟨par, s', _, _, _, hc⟩ := hv.inv hb h0
  obtain ⟨_, _, hvb, _⟩ := checkBlock_ok p n b par s' hc
  obtain ⟨h1, h2⟩ := block_valid_balances p n.outs b _ hvb
  obtain ⟨t1, _, _, _, _, hcm, _, t2⟩ := (validateBody_none_iff p n.outs b _).mp hvb
  refine ⟨h1, h2, t1, t2, ?_⟩
  intro hany hlen
  unfold coinbaseMismatch at hcm
  simp only [Bool.or_eq_false_iff, Bool.and_eq_false_iff, decide_eq_false_iff_not] at hcm
  rcases hcm.2 with h | h
  · exact h hlen
  · rw [hany] at h; cases h

/-- **State equation on every reachable head.** From a fresh node whose genesis outputs are
distinct and worth one subsidy: after any delivery history the unspent outputs of the head's
state — the state the node reports — are worth exactly `(number of blocks above the genesis + 1) ×
reward`, i.e. `(head height + 1) × reward` with the genesis at height 0: no history of forks and
reorganisations creates or destroys value. -/
theorem head_state_equation (p : Params) (n : Node) (es : List Event) (hf : Fresh n)
    (hreg : Registered n es) (g : Blk) (hg : n.blk 0 = some g) (hgo : (g.outs.map (·.1)).Nodup)
    (hgv : sumVals n.outs (g.outs.map (·.1)) = p.reward) :
    ∃ rest s, (run p n es).path (run p n es).head = some (g :: rest) ∧
      (run p n es).stateAt p (run p n es).head = .ok s ∧
      utxoValue (run p n es).outs s = (rest.length + 1) * p.reward ∧
      (g.h = 0 → utxoValue (run p n es).outs s =
        ((run p n es).heightOf (run p n es).head + 1) * p.reward) := by
  obtain ⟨rest, s, H, hst⟩ := head_path_after_run p n es hf hreg g hg
  have hdf := run_defs p n es
  have hval : utxoValue n.outs s = (rest.length + 1) * p.reward :=
    state_equation p n.outs g rest s hgo hgv H.replay (fun b hb => (H.valid b hb).1)
  refine ⟨rest, s, by rw [path_congr hdf.1]; exact H.path, hst, by rw [hdf.2]; exact hval, ?_⟩
  intro hg0
  rw [hdf.2, hval, heightOf_congr hdf.1, H.heightOf_eq, hg0]
  simp

/-- … and on every fork: the same equation holds for the state of **every stored block** (the
running sums are per block, derived from its own path), not only for the head. -/
theorem stored_state_equation (p : Params) (n : Node) (es : List Event) (hf : Fresh n)
    (hreg : Registered n es) (g : Blk) (hg : n.blk 0 = some g) (hgo : (g.outs.map (·.1)).Nodup)
    (hgv : sumVals n.outs (g.outs.map (·.1)) = p.reward) (id : Nat)
    (hs : id ∈ (run p n es).stored) :
    ∃ rest s, n.path id = some (g :: rest) ∧ n.stateAt p id = .ok s ∧
      utxoValue n.outs s = (rest.length + 1) * p.reward ∧ (s.utxo.map (·.1)).Nodup := by
  have hi := run_preserved (preserved_inv p) n es hreg (hf.inv p)
  have hdf := run_defs p n es
  obtain ⟨rest, s, H⟩ := vop_headPath p n g hg (hf.genesis g hg)
    ((VOP_congr hdf.2 hdf.1 p id).mp (hi.2.valid id hs))
  exact ⟨rest, s, H.path, H.state,
    state_equation p n.outs g rest s hgo hgv H.replay (fun b hb => (H.valid b hb).1),
    unspent_distinct p n.outs g rest s hgo H.replay (fun b hb => (H.valid b hb).1)⟩

/-- **Signature, range-proof and kernel-sum faults** (`body:` / `ksum:` tags: a swapped proof or
signature, an amount / fee / offset changed, a kernel dropped, duplicated or foreign — decided by
the real code, carried as tags): refused by every node in every state, nothing changes. -/
theorem crypto_body_fault_refused (p : Params) (n : Node) (b : Blk)
    (h : hasTag b "body:" ≠ none ∨ hasTag b "ksum:" ≠ none) : Refused p n b := by
  apply refused_of_body_fault
  intro hv
  obtain ⟨t1, _, _, _, _, _, _, t2⟩ := (validateBody_none_iff p n.outs b _).mp hv
  rcases h with h | h
  · exact h t1
  · exact h t2

/-- **Block-sums fault** (`sums:` tag: `verify_block_sums` against the parent's running sums fails
at the blinding level): refused by every node in every state, nothing changes. -/
theorem block_sums_fault_refused (p : Params) (n : Node) (b : Blk) (h : hasTag b "sums:" ≠ none) :
    Refused p n b := by
  apply refused_of_state_fault
  intro par sPar _ _ hn
  exact h ((stateChecks_none_iff p sPar b).mp hn).2.2.2.1

/-- **Header-level fault** (`hdr:` tag: PoW, difficulty, `prev_root`, total kernel offset …) on a
block that is not yet known, for any node reached by a history: refused, node entirely unchanged. -/
theorem header_crypto_fault_refused (p : Params) (n : Node) (b : Blk) (hb : n.blk b.id = some b)
    (hi : StoreInv p n) (hk : ¬ KnownFull n b) (h : hasTag b "hdr:" ≠ none) :
    Refused p n b ∧ (deliverBlock p n b).1 = n := by
  apply refused_of_header_fault p n b hb hi hk
  intro hv
  obtain ⟨⟨_, _, _, _, _, _, _, ht⟩, _⟩ := (validateHeader_none_iff p n b).mp hv
  exact h ht

/-- **Forged coinbase value** (claim off by any amount, with or without a compensating kernel) and
**unbalanced body**: refused by every node in every state. -/
theorem forged_coinbase_value_refused (p : Params) (n : Node) (b : Blk)
    (h : sumVals n.outs ((b.outs.filter (·.2)).map (·.1)) ≠ p.reward + b.fees ∨
      sumVals n.outs (b.outs.map (·.1)) ≠ sumVals n.outs b.ins + p.reward) : Refused p n b := by
  apply refused_of_body_fault
  rcases h with h | h
  · exact forged_coinbase_rejected p n.outs b _ h
  · exact unbalanced_rejected p n.outs b _ h

/-- **Missing coinbase flag**: a block none of whose outputs is flagged coinbase claims nothing —
refused whenever the subsidy is positive. -/
theorem missing_coinbase_flag_refused (p : Params) (n : Node) (b : Blk) (hpos : 0 < p.reward)
    (h : b.outs.filter (·.2) = []) : Refused p n b := by
  apply forged_coinbase_value_refused
  left
  rw [h]
  simp only [List.map_nil, sumVals, List.foldl_nil]
  omega

/-- **Forged coinbase flag / a second coinbase pair**: the flagged outputs are a list that already
claims exactly subsidy plus fees, plus one more flagged output of positive value — refused. -/
theorem forged_coinbase_flag_refused (p : Params) (n : Node) (b : Blk) (l : List Nat) (o : Nat)
    (hfl : (b.outs.filter (·.2)).map (·.1) = l ++ [o])
    (hl : sumVals n.outs l = p.reward + b.fees) (ho : 0 < valOf n.outs o) : Refused p n b := by
  apply forged_coinbase_value_refused
  left
  rw [hfl, sumVals_eq_sum, List.map_append, List.sum_append, ← sumVals_eq_sum, hl]
  simp only [List.map_cons, List.map_nil, List.sum_cons, List.sum_nil]
  omega

/-- **Coinbase output without a coinbase kernel**: some output is flagged coinbase but no kernel
is — refused (`verify_coinbase` sums the coinbase kernels' excesses). -/
theorem coinbase_output_without_kernel_refused (p : Params) (n : Node) (b : Blk)
    (hk : (b.kers.filter (· == .cb)).length = 0) (ho : b.outs.any (·.2) = true) :
    Refused p n b := by
  apply refused_of_body_fault
  intro hv
  have hcm := (validateBody_none p n.outs b _ hv).2.2.2.1
  unfold coinbaseMismatch at hcm
  simp [hk, ho] at hcm

/-! ## full-state validation (`Extension::validate`, `Model/ChainFull.lean`): what
`Chain::validate(false)`, `txhashset_write` and the desegmenter's `validate_complete_state` accept -/

/-- **Full validation accepts exactly the fault-free, balanced states — for every count.** For a
state above height 0, every kernel batch size, every range-proof batch size, every number and
interleaving of kernel-MMR leaves and parents and every number of unspent outputs: the full
validation passes iff the MMR hashes, roots and sizes are right, the unspent outputs are worth
exactly the height-determined supply with no blinding-level fault, every unspent output has its
data and a good range proof, and every kernel is readable and well signed. -/
theorem validateFull_ok_iff (p : Params) (kB pB : Nat) (s : FullState) (hh : s.height ≠ 0) :
    validateFull p kB pB s false = none ↔
      s.mmrFault = none ∧ s.rootFault = none ∧ s.sizeFault = none ∧
      s.total = s.supply p ∧ s.blindFault = none ∧
      (∀ o ∈ s.utxo, o.good) ∧ (∀ q ∈ s.kernelMmr, q.good) := by
  unfold validateFull
  cases h1 : s.mmrFault with
  | some e => simp
  | none =>
  cases h2 : s.rootFault with
  | some e => simp
  | none =>
  cases h3 : s.sizeFault with
  | some e => simp
  | none =>
  simp only [hh, if_false, true_and]
  by_cases hv : s.total = s.supply p
  · simp only [hv, ne_eq, not_true_eq_false, if_false, true_and]
    cases h4 : s.blindFault with
    | some e => simp
    | none =>
    simp only [Bool.false_eq_true, if_false, true_and]
    cases h5 : proofLoop pB s.utxo [] with
    | some e =>
      have : ¬ (∀ o ∈ s.utxo, o.good) := by
        intro hg
        have := (proofLoop_none_iff pB s.utxo []).mpr ⟨by simp, hg⟩
        rw [h5] at this; cases this
      simp [this]
    | none =>
      have hg := ((proofLoop_none_iff pB s.utxo []).mp h5).2
      rw [sigLoop_none_iff]
      constructor
      · intro hs; exact ⟨hg, hs.2⟩
      · intro hs; exact ⟨by simp, hs.2⟩
  · simp [hv]

/-- … and the fast validation accepts exactly the states with right hashes, roots and sizes whose
sums balance (signatures and range proofs are not looked at). -/
theorem validateFull_fast_ok_iff (p : Params) (kB pB : Nat) (s : FullState) (hh : s.height ≠ 0) :
    validateFull p kB pB s true = none ↔
      s.mmrFault = none ∧ s.rootFault = none ∧ s.sizeFault = none ∧
      s.total = s.supply p ∧ s.blindFault = none := by
  unfold validateFull
  cases h1 : s.mmrFault with
  | some e => simp
  | none =>
  cases h2 : s.rootFault with
  | some e => simp
  | none =>
  cases h3 : s.sizeFault with
  | some e => simp
  | none =>
  simp only [hh, if_false, true_and]
  by_cases hv : s.total = s.supply p
  · simp only [hv, ne_eq, not_true_eq_false, if_false, true_and]
    cases h4 : s.blindFault <;> simp
  · simp [hv]

/-- **One badly signed kernel anywhere** in the kernel MMR — first, last, in any batch, whatever
the number of kernels and the batch size — and the full validation refuses the state. -/
theorem bad_signature_refused (p : Params) (kB pB : Nat) (s : FullState) (hh : s.height ≠ 0)
    (k : KItem) (hk : KPos.leaf k ∈ s.kernelMmr) (hb : k.sigBad = true) :
    validateFull p kB pB s false ≠ none := by
  intro h
  have := ((validateFull_ok_iff p kB pB s hh).mp h).2.2.2.2.2.2 _ hk
  simp only [KPos.good] at this
  rw [hb] at this; cases this

/-- **One unspent output with a bad range proof, or whose output / proof data cannot be read**,
anywhere in the unspent set, whatever its size: the full validation refuses the state. -/
theorem bad_rangeproof_refused (p : Params) (kB pB : Nat) (s : FullState) (hh : s.height ≠ 0)
    (o : OItem) (ho : o ∈ s.utxo)
    (hb : o.proofBad = true ∨ o.outMissing = true ∨ o.proofMissing = true) :
    validateFull p kB pB s false ≠ none := by
  intro h
  obtain ⟨h1, h2, h3⟩ := ((validateFull_ok_iff p kB pB s hh).mp h).2.2.2.2.2.1 _ ho
  rcases hb with hb | hb | hb
  · rw [hb] at h3; cases h3
  · rw [hb] at h1; cases h1
  · rw [hb] at h2; cases h2

/-- **A state whose sums do not balance** (the unspent outputs are not worth the supply, or a
blinding-level fault) is refused by the full and by the fast validation. -/
theorem unbalanced_state_refused (p : Params) (kB pB : Nat) (s : FullState) (hh : s.height ≠ 0)
    (fast : Bool) (hb : s.total ≠ s.supply p ∨ s.blindFault ≠ none) :
    validateFull p kB pB s fast ≠ none := by
  intro h
  have : s.total = s.supply p ∧ s.blindFault = none := by
    cases fast
    · have := (validateFull_ok_iff p kB pB s hh).mp h
      exact ⟨this.2.2.2.1, this.2.2.2.2.1⟩
    · have := (validateFull_fast_ok_iff p kB pB s hh).mp h
      exact ⟨this.2.2.2.1, this.2.2.2.2⟩
  rcases hb with hb | hb
  · exact hb this.1
  · exact hb this.2

/-- **Honest states pass, and only they.** The state reached by replaying any list of blocks whose
bodies pass validation (state equation: its unspent outputs are worth the supply), read with right
hashes and no blinding fault, passes the full validation iff every kernel in it is well signed —
with `state_equation` this closes the loop between the per-block equations and the full-state one. -/
theorem replayed_state_validates_iff (p : Params) (kB pB : Nat) (outs : List OutDef) (g : Blk)
    (bs : List Blk) (s : UState) (hgo : (g.outs.map (·.1)).Nodup)
    (hgv : sumVals outs (g.outs.map (·.1)) = p.reward) (hr : replay p (genesisState g) bs = .ok s)
    (hb : ∀ b ∈ bs, validateBody p outs b (sumVals outs b.ins) = none) (hne : bs ≠ [])
    (ks : List KItem) :
    validateFull p kB pB (fullOf outs s bs.length ks) false = none ↔ ∀ k ∈ ks, k.sigBad = false := by
  have hlen : (fullOf outs s bs.length ks).height ≠ 0 := by
    simp only [fullOf]
    intro h
    exact hne (List.length_eq_zero_iff.mp h)
  rw [validateFull_ok_iff p kB pB _ hlen]
  have hval := state_equation p outs g bs s hgo hgv hr hb
  have htot : (fullOf outs s bs.length ks).total = (fullOf outs s bs.length ks).supply p := by
    simp only [FullState.total, FullState.supply, fullOf, List.map_map, if_true]
    unfold utxoValue at hval
    exact hval
  have hgood : ∀ o ∈ (fullOf outs s bs.length ks).utxo, o.good := by
    intro o ho
    simp only [fullOf, List.mem_map] at ho
    obtain ⟨u, _, rfl⟩ := ho
    exact ⟨rfl, rfl, rfl⟩
  have hk : (∀ q ∈ (fullOf outs s bs.length ks).kernelMmr, q.good) ↔ ∀ k ∈ ks, k.sigBad = false :=
    layoutFrom_good 1 ks
  rw [hk]
  constructor
  · intro h; exact h.2.2.2.2.2.2
  · intro h; exact ⟨rfl, rfl, rfl, htot, rfl, hgood, h⟩

/-! ## non-vacuity: the hypotheses hold on the concrete tree of `Lemmas/ChainExamples.lean`
(0 ── 1 ── 3 ── 4, sibling 2 of 1, invalid child 9 of 1; 3 spends the genesis output 100 and
4 re-creates that commitment) -/
section Examples
open GV.Chain.Ex

-- `state_equation`: hypotheses hold on the path 0,1,3,4 — four blocks, four subsidies
example : utxoValue Ex.outs
    { utxo := [(101, 1, true), (103, 2, true), (105, 3, true), (100, 3, false)], nrd := [], height := 3 }
    = (3 + 1) * 60 :=
  state_equation P Ex.outs G [B1, B3, B4] _ (by decide) (by decide) rfl
    (by
      intro b hb
      simp only [List.mem_cons, List.not_mem_nil, or_false] at hb
      rcases hb with rfl | rfl | rfl <;> decide)

end Examples

/-! ### the history-level theorems on the tree of `Lemmas/ChainMoreExamples.lean` (a1 becomes the
head, b1 takes over: a reorganisation) -/
section HistoryExamples
open GV.Chain.Ex2

-- `head_state_equation`: hypotheses hold after the reorganisation; two blocks, two subsidies
example : ∃ rest s, NB.path NB.head = some (Ex2.G :: rest) ∧ NB.stateAt Ex2.P NB.head = .ok s ∧
    utxoValue NB.outs s = (rest.length + 1) * Ex2.P.reward ∧
    (Ex2.G.h = 0 → utxoValue NB.outs s = (NB.heightOf NB.head + 1) * Ex2.P.reward) :=
  head_state_equation Ex2.P Ex2.N esReorg Ex2.fresh_N reg_reorg Ex2.G rfl (by decide) (by decide)
example : utxoValue NB.outs { utxo := [(100, 0, false), (121, 1, true)], nrd := [], height := 1 } = 120 := by
  decide

-- `accepted_blocks_balance` / `stored_state_equation`: a1 — on the losing fork — still balances
example : sumVals Ex2.N.outs ((Ex2.A1.outs.filter (·.2)).map (·.1)) = Ex2.P.reward + Ex2.A1.fees ∧
    sumVals Ex2.N.outs (Ex2.A1.outs.map (·.1)) = sumVals Ex2.N.outs Ex2.A1.ins + Ex2.P.reward ∧
    hasTag Ex2.A1 "body:" = none ∧ hasTag Ex2.A1 "ksum:" = none ∧
    (Ex2.A1.outs.any (·.2) = true → (Ex2.A1.kers.filter (· == .cb)).length ≠ 0) :=
  accepted_blocks_balance Ex2.P Ex2.N esReorg Ex2.fresh_N reg_reorg Ex2.A1 rfl (by decide) (by decide)
example : ∃ rest s, Ex2.N.path 1 = some (Ex2.G :: rest) ∧ Ex2.N.stateAt Ex2.P 1 = .ok s ∧
    utxoValue Ex2.N.outs s = (rest.length + 1) * Ex2.P.reward ∧ (s.utxo.map (·.1)).Nodup :=
  stored_state_equation Ex2.P Ex2.N esReorg Ex2.fresh_N reg_reorg Ex2.G rfl (by decide) (by decide)
    1 (by decide)

-- `block_sums_fault_refused`: b5 carries a `sums:` tag
example : Refused Ex2.P NB Ex2.B5 :=
  block_sums_fault_refused Ex2.P NB Ex2.B5 (by simp [hasTag, Ex2.B5])

-- `missing_coinbase_flag_refused` / `forged_coinbase_flag_refused` /
-- `coinbase_output_without_kernel_refused` on variants of b1's child
example : Refused Ex2.P NB { Ex2.B4 with outs := [(135, false)] } :=
  missing_coinbase_flag_refused Ex2.P NB _ (by decide) rfl
example : Refused Ex2.P NB { Ex2.B4 with outs := [(135, true), (133, true)] } :=
  forged_coinbase_flag_refused Ex2.P NB _ [135] 133 rfl (by decide) (by decide)
example : Refused Ex2.P NB { Ex2.B4 with outs := [(135, true)], kers := [.plain 0] } :=
  coinbase_output_without_kernel_refused Ex2.P NB _ (by decide) (by decide)

end HistoryExamples

/-! ### full-state validation: concrete states (five kernels — the last MMR position a leaf — and
six — a parent; batch sizes 2 and 3 so that full batches and a remainder occur) -/
section FullExamples

open GV.Chain.FullEx

-- `validateFull_ok_iff`: both sides hold on an honest state with 5 kernels and 3 outputs worth 3 rewards
example : validateFull exP 2 2 (exState [{}, {}, {}, {}, {}] exUtxo) false = none := by decide
example : (exState [{}, {}, {}, {}, {}] exUtxo).total = (exState [{}, {}, {}, {}, {}] exUtxo).supply exP := by
  decide
-- `bad_signature_refused`: the bad kernel last of six (the last MMR position is a parent), batch size 3
example : validateFull exP 3 2 (exState [{}, {}, {}, {}, {}, { sigBad := true }] exUtxo) false ≠ none :=
  bad_signature_refused exP 3 2 _ (by decide) { sigBad := true } (by decide) rfl
example : validateFull exP 3 2 (exState [{}, {}, {}, {}, {}, { sigBad := true }] exUtxo) false
    = some "Transaction:IncorrectSignature" := by decide
-- … and accepted by the fast validation (it does not look at signatures)
example : validateFull exP 3 2 (exState [{}, {}, {}, {}, {}, { sigBad := true }] exUtxo) true = none := by
  decide
-- `bad_rangeproof_refused`: the bad proof is the remainder after one full batch of two
example : validateFull exP 2 2 (exState [{}, {}] [{ v := 60 }, { v := 50 }, { v := 70, proofBad := true }]) false
    ≠ none :=
  bad_rangeproof_refused exP 2 2 _ (by decide) { v := 70, proofBad := true } (by decide) (Or.inl rfl)
-- `unbalanced_state_refused`: one output worth 1 more than it should
example : validateFull exP 2 2 (exState [{}, {}] [{ v := 60 }, { v := 50 }, { v := 71 }]) true ≠ none :=
  unbalanced_state_refused exP 2 2 _ (by decide) true (Or.inl (by decide))

-- `replayed_state_validates_iff`: hypotheses hold on the path 0,1,3,4 of `Lemmas/ChainExamples.lean`
open GV.Chain.Ex in
example : validateFull Ex.P 5000 1000
    (fullOf Ex.outs { utxo := [(101, 1, true), (103, 2, true), (105, 3, true), (100, 3, false)], nrd := [], height := 3 }
      3 [{}, {}, {}, {}, {}, {}]) false = none :=
  (replayed_state_validates_iff Ex.P 5000 1000 Ex.outs G [B1, B3, B4] _ (by decide) (by decide) rfl
    (by
      intro b hb
      simp only [List.mem_cons, List.not_mem_nil, or_false] at hb
      rcases hb with rfl | rfl | rfl <;> decide)
    (by simp) [{}, {}, {}, {}, {}, {}]).mpr (by simp)

end FullExamples
end GV.Props.C01
