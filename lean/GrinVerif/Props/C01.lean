import GrinVerif.Lemmas.ChainBasic
import GrinVerif.Lemmas.ChainExampleFacts
import GrinVerif.Lemmas.ChainApply
import GrinVerif.Lemmas.ChainValue
/-! # C01 — no value is created (value component of the balance equation, in the opening model
of DESIGN §2.3; blinding-level faults are carried as tags and decided by the real code) -/
namespace GV.Props.C01
open GV GV.Chain

/-- A block body passes validation only if (value component) the coinbase-flagged outputs claim
exactly the subsidy plus the fees of the block's kernels, and all outputs together equal all
inputs plus the subsidy: the subsidy is the only new value and only coinbase outputs claim it. -/
theorem block_valid_balances (p : Params) (outs : List OutDef) (b : Blk) (iv : Nat)
    (h : validateBody p outs b iv = none) :
    sumVals outs ((b.outs.filter (·.2)).map (·.1)) = p.reward + b.fees ∧
    sumVals outs (b.outs.map (·.1)) = iv + p.reward := by
  obtain ⟨_, _, _, hcb, hv⟩ := validateBody_none p outs b iv h
  constructor
  · unfold coinbaseMismatch at hcb
    simp only [Bool.or_eq_false_iff, decide_eq_false_iff_not, Decidable.not_not] at hcb
    exact hcb.1
  · unfold valueMismatch at hv
    simpa using hv

/-- … and a forged coinbase claim (value off by any amount) is rejected. -/
theorem forged_coinbase_rejected (p : Params) (outs : List OutDef) (b : Blk) (iv : Nat)
    (hc : sumVals outs ((b.outs.filter (·.2)).map (·.1)) ≠ p.reward + b.fees) :
    validateBody p outs b iv ≠ none := by
  intro h
  exact hc (block_valid_balances p outs b iv h).1

/-- … and a body whose outputs do not equal inputs plus subsidy is rejected. -/
theorem unbalanced_rejected (p : Params) (outs : List OutDef) (b : Blk) (iv : Nat)
    (hc : sumVals outs (b.outs.map (·.1)) ≠ iv + p.reward) :
    validateBody p outs b iv ≠ none := by
  intro h
  exact hc (block_valid_balances p outs b iv h).2


/-- **State equation** (value component): along any replay of blocks whose bodies pass validation
(which includes: no commitment twice among the inputs or the outputs) the total value of
the unspent outputs grows by exactly one subsidy per block: the subsidy is the only new value,
fees only move value. `utxoValue` = Σ of the openings of the unspent outputs. Holds for the path
of every block (every fork), since the state of a block *is* the replay of its own path. -/
theorem state_equation_step (p : Params) (outs : List OutDef) (bs : List Blk) (s s' : UState)
    (hnd : (s.utxo.map (·.1)).Nodup) (hr : replay p s bs = .ok s')
    (hb : ∀ b ∈ bs, validateBody p outs b (sumVals outs b.ins) = none) :
    utxoValue outs s' = utxoValue outs s + bs.length * p.reward :=
  (replay_value p outs bs s s' hnd hr (fun b h =>
    ⟨sane_of_validateBody p outs b _ (hb b h), (validateBody_none p outs b _ (hb b h)).2.2.2.2⟩)).1

/-- … from a genesis whose outputs are distinct and worth one subsidy: after `n` blocks on top of
the genesis the unspent outputs are worth `(n + 1) × reward` — the height-determined supply. -/
theorem state_equation (p : Params) (outs : List OutDef) (g : Blk) (bs : List Blk) (s : UState)
    (hgo : (g.outs.map (·.1)).Nodup) (hgv : sumVals outs (g.outs.map (·.1)) = p.reward)
    (hr : replay p (genesisState g) bs = .ok s)
    (hb : ∀ b ∈ bs, validateBody p outs b (sumVals outs b.ins) = none) :
    utxoValue outs s = (bs.length + 1) * p.reward := by
  have hnd : ((genesisState g).utxo.map (·.1)).Nodup := by
    simp only [genesisState, List.map_map]
    exact hgo
  have hv : utxoValue outs (genesisState g) = p.reward := by
    rw [← hgv, sumVals_eq_sum]
    simp only [utxoValue, genesisState, List.map_map]
    rfl
  rw [state_equation_step p outs bs _ s hnd hr hb, hv, Nat.add_mul]
  omega

/-- … and the unspent commitments of a replayed state are pairwise distinct (the invariant the
equation rests on: a commitment is never unspent twice). -/
theorem unspent_distinct (p : Params) (outs : List OutDef) (g : Blk) (bs : List Blk) (s : UState)
    (hgo : (g.outs.map (·.1)).Nodup) (hr : replay p (genesisState g) bs = .ok s)
    (hb : ∀ b ∈ bs, validateBody p outs b (sumVals outs b.ins) = none) :
    (s.utxo.map (·.1)).Nodup := by
  have hnd : ((genesisState g).utxo.map (·.1)).Nodup := by
    simp only [genesisState, List.map_map]
    exact hgo
  exact (replay_value p outs bs _ s hnd hr (fun b h =>
    ⟨sane_of_validateBody p outs b _ (hb b h), (validateBody_none p outs b _ (hb b h)).2.2.2.2⟩)).2

/-! ## non-vacuity: the hypotheses hold on the concrete tree of `Lemmas/ChainExamples.lean`
(0 ── 1 ── 3 ── 4, sibling 2 of 1, invalid child 9 of 1; 3 spends the genesis output 100 and
4 re-creates that commitment) -/
section Examples
open GV.Chain.Ex

-- `state_equation`: hypotheses hold on the path 0,1,3,4 — four blocks, four subsidies
example : utxoValue Ex.outs
    { utxo := [(101, 1, true), (103, 2, true), (105, 3, true), (100, 3, false)], nrd := [], height := 3 }
    = (3 + 1) * 60 :=
  state_equation P Ex.outs G [B1, B3, B4] _ (by decide) (by decide) rfl
    (by
      intro b hb
      simp only [List.mem_cons, List.not_mem_nil, or_false] at hb
      rcases hb with rfl | rfl | rfl <;> decide)

end Examples
end GV.Props.C01
