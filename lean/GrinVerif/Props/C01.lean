import GrinVerif.Lemmas.ChainBasic
import GrinVerif.Lemmas.ChainApply
/-! # C01 — no value is created (value component of the balance equation, in the opening model
of DESIGN §2.3; blinding-level faults are carried as tags and decided by the real code) -/
namespace GV.Props.C01
open GV GV.Chain

/-- A block body passes validation only if (value component) the coinbase-flagged outputs claim
exactly the subsidy plus the fees of the block's kernels, and all outputs together equal all
inputs plus the subsidy: the subsidy is the only new value and only coinbase outputs claim it. -/
theorem block_valid_balances (p : Params) (outs : List OutDef) (b : Blk) (iv : Nat)
    (h : validateBody p outs b iv = none) :
    sumVals outs ((b.outs.filter (·.2)).map (·.1)) = p.reward + b.fees ∧
    sumVals outs (b.outs.map (·.1)) = iv + p.reward := by
  obtain ⟨_, _, _, hcb, hv⟩ := validateBody_none p outs b iv h
  constructor
  · unfold coinbaseMismatch at hcb
    simp only [Bool.or_eq_false_iff, decide_eq_false_iff_not, Decidable.not_not] at hcb
    exact hcb.1
  · unfold valueMismatch at hv
    simpa using hv

/-- … and a forged coinbase claim (value off by any amount) is rejected. -/
theorem forged_coinbase_rejected (p : Params) (outs : List OutDef) (b : Blk) (iv : Nat)
    (hc : sumVals outs ((b.outs.filter (·.2)).map (·.1)) ≠ p.reward + b.fees) :
    validateBody p outs b iv ≠ none := by
  intro h
  exact hc (block_valid_balances p outs b iv h).1

/-- … and a body whose outputs do not equal inputs plus subsidy is rejected. -/
theorem unbalanced_rejected (p : Params) (outs : List OutDef) (b : Blk) (iv : Nat)
    (hc : sumVals outs (b.outs.map (·.1)) ≠ iv + p.reward) :
    validateBody p outs b iv ≠ none := by
  intro h
  exact hc (block_valid_balances p outs b iv h).2

end GV.Props.C01
