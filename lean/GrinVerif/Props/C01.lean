import GrinVerif.Lemmas.ChainBasic
import GrinVerif.Lemmas.ChainExampleFacts
import GrinVerif.Lemmas.ChainApply
import GrinVerif.Lemmas.ChainValue
import GrinVerif.Lemmas.ChainMoreReject
import GrinVerif.Lemmas.ChainMoreExamples
/-! # C01 — no value is created (value component of the balance equation, in the opening model
of DESIGN §2.3; blinding-level faults are carried as tags and decided by the real code) -/
namespace GV.Props.C01
open GV GV.Chain

/-- A block body passes validation only if (value component) the coinbase-flagged outputs claim
exactly the subsidy plus the fees of the block's kernels, and all outputs together equal all
inputs plus the subsidy: the subsidy is the only new value and only coinbase outputs claim it. -/
theorem block_valid_balances (p : Params) (outs : List OutDef) (b : Blk) (iv : Nat)
    (h : validateBody p outs b iv = none) :
    sumVals outs ((b.outs.filter (·.2)).map (·.1)) = p.reward + b.fees ∧
    sumVals outs (b.outs.map (·.1)) = iv + p.reward := by
  obtain ⟨_, _, _, hcb, hv⟩ := validateBody_none p outs b iv h
  constructor
  · unfold coinbaseMismatch at hcb
    simp only [Bool.or_eq_false_iff, decide_eq_false_iff_not, Decidable.not_not] at hcb
    exact hcb.1
  · unfold valueMismatch at hv
    simpa using hv

/-- … and a forged coinbase claim (value off by any amount) is rejected. -/
theorem forged_coinbase_rejected (p : Params) (outs : List OutDef) (b : Blk) (iv : Nat)
    (hc : sumVals outs ((b.outs.filter (·.2)).map (·.1)) ≠ p.reward + b.fees) :
    validateBody p outs b iv ≠ none := by
  intro h
  exact hc (block_valid_balances p outs b iv h).1

/-- … and a body whose outputs do not equal inputs plus subsidy is rejected. -/
theorem unbalanced_rejected (p : Params) (outs : List OutDef) (b : Blk) (iv : Nat)
    (hc : sumVals outs (b.outs.map (·.1)) ≠ iv + p.reward) :
    validateBody p outs b iv ≠ none := by
  intro h
  exact hc (block_valid_balances p outs b iv h).2


/-- **State equation** (value component): along any replay of blocks whose bodies pass validation
(which includes: no commitment twice among the inputs or the outputs) the total value of
the unspent outputs grows by exactly one subsidy per block: the subsidy is the only new value,
fees only move value. `utxoValue` = Σ of the openings of the unspent outputs. Holds for the path
of every block (every fork), since the state of a block *is* the replay of its own path. -/
theorem state_equation_step (p : Params) (outs : List OutDef) (bs : List Blk) (s s' : UState)
    (hnd : (s.utxo.map (·.1)).Nodup) (hr : replay p s bs = .ok s')
    (hb : ∀ b ∈ bs, validateBody p outs b (sumVals outs b.ins) = none) :
    utxoValue outs s' = utxoValue outs s + bs.length * p.reward :=
  (replay_value p outs bs s s' hnd hr (fun b h =>
    ⟨sane_of_validateBody p outs b _ (hb b h), (validateBody_none p outs b _ (hb b h)).2.2.2.2⟩)).1

/-- … from a genesis whose outputs are distinct and worth one subsidy: after `n` blocks on top of
the genesis the unspent outputs are worth `(n + 1) × reward` — the height-determined supply. -/
theorem state_equation (p : Params) (outs : List OutDef) (g : Blk) (bs : List Blk) (s : UState)
    (hgo : (g.outs.map (·.1)).Nodup) (hgv : sumVals outs (g.outs.map (·.1)) = p.reward)
    (hr : replay p (genesisState g) bs = .ok s)
    (hb : ∀ b ∈ bs, validateBody p outs b (sumVals outs b.ins) = none) :
    utxoValue outs s = (bs.length + 1) * p.reward := by
  have hnd : ((genesisState g).utxo.map (·.1)).Nodup := by
    simp only [genesisState, List.map_map]
    exact hgo
  have hv : utxoValue outs (genesisState g) = p.reward := by
    rw [← hgv, sumVals_eq_sum]
    simp only [utxoValue, genesisState, List.map_map]
    rfl
  rw [state_equation_step p outs bs _ s hnd hr hb, hv, Nat.add_mul]
  omega

/-- … and the unspent commitments of a replayed state are pairwise distinct (the invariant the
equation rests on: a commitment is never unspent twice). -/
theorem unspent_distinct (p : Params) (outs : List OutDef) (g : Blk) (bs : List Blk) (s : UState)
    (hgo : (g.outs.map (·.1)).Nodup) (hr : replay p (genesisState g) bs = .ok s)
    (hb : ∀ b ∈ bs, validateBody p outs b (sumVals outs b.ins) = none) :
    (s.utxo.map (·.1)).Nodup := by
  have hnd : ((genesisState g).utxo.map (·.1)).Nodup := by
    simp only [genesisState, List.map_map]
    exact hgo
  exact (replay_value p outs bs _ s hnd hr (fun b h =>
    ⟨sane_of_validateBody p outs b _ (hb b h), (validateBody_none p outs b _ (hb b h)).2.2.2.2⟩)).2

/-! ## delivery histories (`deliverBlock` = `Chain::process_block`, `run` = any finite history)

`Refused p n b` (`Lemmas/ChainMoreReject.lean`): the delivery of `b` to `n` returns an error and
head, stored blocks and the reported unspent set are what they were. -/

/-- **Every accepted block balances.** After any delivery history from a fresh node (forks,
reorganisations, orphans connected later, duplicates, refused blocks), every stored block other
than the genesis satisfies both value equations: its coinbase-flagged outputs claim exactly the
subsidy plus its fees, and all its outputs equal all its inputs plus the subsidy; it carries no
signature / range-proof (`body:`) and no kernel-sum (`ksum:`) fault and at least one coinbase
kernel whenever an output is flagged. -/
theorem accepted_blocks_balance (p : Params) (n : Node) (es : List Event) (hf : Fresh n)
    (hreg : Registered n es) (b : Blk) (hb : n.blk b.id = some b) (h0 : b.id ≠ 0)
    (hs : b.id ∈ (run p n es).stored) :
    sumVals n.outs ((b.outs.filter (·.2)).map (·.1)) = p.reward + b.fees ∧
    sumVals n.outs (b.outs.map (·.1)) = sumVals n.outs b.ins + p.reward ∧
    hasTag b "body:" = none ∧ hasTag b "ksum:" = none ∧
    (b.outs.any (·.2) = true → (b.kers.filter (· == .cb)).length ≠ 0) := by
  have hi := run_preserved (preserved_inv p) n es hreg (hf.inv p)
  have hdf := run_defs p n es
  have hv : VOP p n b.id := (VOP_congr hdf.2 hdf.1 p b.id).mp (hi.2.valid b.id hs)
  obtain ⟨par, s', _, _, _, hc⟩ := hv.inv hb h0
  obtain ⟨_, _, hvb, _⟩ := checkBlock_ok p n b par s' hc
  obtain ⟨h1, h2⟩ := block_valid_balances p n.outs b _ hvb
  obtain ⟨t1, _, _, _, _, hcm, _, t2⟩ := (validateBody_none_iff p n.outs b _).mp hvb
  refine ⟨h1, h2, t1, t2, ?_⟩
  intro hany hlen
  unfold coinbaseMismatch at hcm
  simp only [Bool.or_eq_false_iff, Bool.and_eq_false_iff, decide_eq_false_iff_not] at hcm
  rcases hcm.2 with h | h
  · exact h hlen
  · rw [hany] at h; cases h

/-- **State equation on every reachable head.** From a fresh node whose genesis outputs are
distinct and worth one subsidy: after any delivery history the unspent outputs of the head's
state — the state the node reports — are worth exactly `(number of blocks above the genesis + 1) ×
reward`, i.e. `(head height + 1) × reward` with the genesis at height 0: no history of forks and
reorganisations creates or destroys value. -/
theorem head_state_equation (p : Params) (n : Node) (es : List Event) (hf : Fresh n)
    (hreg : Registered n es) (g : Blk) (hg : n.blk 0 = some g) (hgo : (g.outs.map (·.1)).Nodup)
    (hgv : sumVals n.outs (g.outs.map (·.1)) = p.reward) :
    ∃ rest s, (run p n es).path (run p n es).head = some (g :: rest) ∧
      (run p n es).stateAt p (run p n es).head = .ok s ∧
      utxoValue (run p n es).outs s = (rest.length + 1) * p.reward ∧
      (g.h = 0 → utxoValue (run p n es).outs s =
        ((run p n es).heightOf (run p n es).head + 1) * p.reward) := by
  obtain ⟨rest, s, H, hst⟩ := head_path_after_run p n es hf hreg g hg
  have hdf := run_defs p n es
  have hval : utxoValue n.outs s = (rest.length + 1) * p.reward :=
    state_equation p n.outs g rest s hgo hgv H.replay (fun b hb => (H.valid b hb).1)
  refine ⟨rest, s, by rw [path_congr hdf.1]; exact H.path, hst, by rw [hdf.2]; exact hval, ?_⟩
  intro hg0
  rw [hdf.2, hval, heightOf_congr hdf.1, H.heightOf_eq, hg0]
  simp

/-- … and on every fork: the same equation holds for the state of **every stored block** (the
running sums are per block, derived from its own path), not only for the head. -/
theorem stored_state_equation (p : Params) (n : Node) (es : List Event) (hf : Fresh n)
    (hreg : Registered n es) (g : Blk) (hg : n.blk 0 = some g) (hgo : (g.outs.map (·.1)).Nodup)
    (hgv : sumVals n.outs (g.outs.map (·.1)) = p.reward) (id : Nat)
    (hs : id ∈ (run p n es).stored) :
    ∃ rest s, n.path id = some (g :: rest) ∧ n.stateAt p id = .ok s ∧
      utxoValue n.outs s = (rest.length + 1) * p.reward ∧ (s.utxo.map (·.1)).Nodup := by
  have hi := run_preserved (preserved_inv p) n es hreg (hf.inv p)
  have hdf := run_defs p n es
  obtain ⟨rest, s, H⟩ := vop_headPath p n g hg (hf.genesis g hg)
    ((VOP_congr hdf.2 hdf.1 p id).mp (hi.2.valid id hs))
  exact ⟨rest, s, H.path, H.state,
    state_equation p n.outs g rest s hgo hgv H.replay (fun b hb => (H.valid b hb).1),
    unspent_distinct p n.outs g rest s hgo H.replay (fun b hb => (H.valid b hb).1)⟩

/-- **Signature, range-proof and kernel-sum faults** (`body:` / `ksum:` tags: a swapped proof or
signature, an amount / fee / offset changed, a kernel dropped, duplicated or foreign — decided by
the real code, carried as tags): refused by every node in every state, nothing changes. -/
theorem crypto_body_fault_refused (p : Params) (n : Node) (b : Blk)
    (h : hasTag b "body:" ≠ none ∨ hasTag b "ksum:" ≠ none) : Refused p n b := by
  apply refused_of_body_fault
  intro hv
  obtain ⟨t1, _, _, _, _, _, _, t2⟩ := (validateBody_none_iff p n.outs b _).mp hv
  rcases h with h | h
  · exact h t1
  · exact h t2

/-- **Block-sums fault** (`sums:` tag: `verify_block_sums` against the parent's running sums fails
at the blinding level): refused by every node in every state, nothing changes. -/
theorem block_sums_fault_refused (p : Params) (n : Node) (b : Blk) (h : hasTag b "sums:" ≠ none) :
    Refused p n b := by
  apply refused_of_state_fault
  intro par sPar _ _ hn
  exact h ((stateChecks_none_iff p sPar b).mp hn).2.2.2.1

/-- **Header-level fault** (`hdr:` tag: PoW, difficulty, `prev_root`, total kernel offset …) on a
block that is not yet known, for any node reached by a history: refused, node entirely unchanged. -/
theorem header_crypto_fault_refused (p : Params) (n : Node) (b : Blk) (hb : n.blk b.id = some b)
    (hi : StoreInv p n) (hk : ¬ KnownFull n b) (h : hasTag b "hdr:" ≠ none) :
    Refused p n b ∧ (deliverBlock p n b).1 = n := by
  apply refused_of_header_fault p n b hb hi hk
  intro hv
  obtain ⟨⟨_, _, _, _, _, _, _, ht⟩, _⟩ := (validateHeader_none_iff p n b).mp hv
  exact h ht

/-- **Forged coinbase value** (claim off by any amount, with or without a compensating kernel) and
**unbalanced body**: refused by every node in every state. -/
theorem forged_coinbase_value_refused (p : Params) (n : Node) (b : Blk)
    (h : sumVals n.outs ((b.outs.filter (·.2)).map (·.1)) ≠ p.reward + b.fees ∨
      sumVals n.outs (b.outs.map (·.1)) ≠ sumVals n.outs b.ins + p.reward) : Refused p n b := by
  apply refused_of_body_fault
  rcases h with h | h
  · exact forged_coinbase_rejected p n.outs b _ h
  · exact unbalanced_rejected p n.outs b _ h

/-- **Missing coinbase flag**: a block none of whose outputs is flagged coinbase claims nothing —
refused whenever the subsidy is positive. -/
theorem missing_coinbase_flag_refused (p : Params) (n : Node) (b : Blk) (hpos : 0 < p.reward)
    (h : b.outs.filter (·.2) = []) : Refused p n b := by
  apply forged_coinbase_value_refused
  left
  rw [h]
  simp only [List.map_nil, sumVals, List.foldl_nil]
  omega

/-- **Forged coinbase flag / a second coinbase pair**: the flagged outputs are a list that already
claims exactly subsidy plus fees, plus one more flagged output of positive value — refused. -/
theorem forged_coinbase_flag_refused (p : Params) (n : Node) (b : Blk) (l : List Nat) (o : Nat)
    (hfl : (b.outs.filter (·.2)).map (·.1) = l ++ [o])
    (hl : sumVals n.outs l = p.reward + b.fees) (ho : 0 < valOf n.outs o) : Refused p n b := by
  apply forged_coinbase_value_refused
  left
  rw [hfl, sumVals_eq_sum, List.map_append, List.sum_append, ← sumVals_eq_sum, hl]
  simp only [List.map_cons, List.map_nil, List.sum_cons, List.sum_nil]
  omega

/-- **Coinbase output without a coinbase kernel**: some output is flagged coinbase but no kernel
is — refused (`verify_coinbase` sums the coinbase kernels' excesses). -/
theorem coinbase_output_without_kernel_refused (p : Params) (n : Node) (b : Blk)
    (hk : (b.kers.filter (· == .cb)).length = 0) (ho : b.outs.any (·.2) = true) :
    Refused p n b := by
  apply refused_of_body_fault
  intro hv
  have hcm := (validateBody_none p n.outs b _ hv).2.2.2.1
  unfold coinbaseMismatch at hcm
  simp [hk, ho] at hcm

/-! ## non-vacuity: the hypotheses hold on the concrete tree of `Lemmas/ChainExamples.lean`
(0 ── 1 ── 3 ── 4, sibling 2 of 1, invalid child 9 of 1; 3 spends the genesis output 100 and
4 re-creates that commitment) -/
section Examples
open GV.Chain.Ex

-- `state_equation`: hypotheses hold on the path 0,1,3,4 — four blocks, four subsidies
example : utxoValue Ex.outs
    { utxo := [(101, 1, true), (103, 2, true), (105, 3, true), (100, 3, false)], nrd := [], height := 3 }
    = (3 + 1) * 60 :=
  state_equation P Ex.outs G [B1, B3, B4] _ (by decide) (by decide) rfl
    (by
      intro b hb
      simp only [List.mem_cons, List.not_mem_nil, or_false] at hb
      rcases hb with rfl | rfl | rfl <;> decide)

end Examples

/-! ### the history-level theorems on the tree of `Lemmas/ChainMoreExamples.lean` (a1 becomes the
head, b1 takes over: a reorganisation) -/
section HistoryExamples
open GV.Chain.Ex2

-- `head_state_equation`: hypotheses hold after the reorganisation; two blocks, two subsidies
example : ∃ rest s, NB.path NB.head = some (Ex2.G :: rest) ∧ NB.stateAt Ex2.P NB.head = .ok s ∧
    utxoValue NB.outs s = (rest.length + 1) * Ex2.P.reward ∧
    (Ex2.G.h = 0 → utxoValue NB.outs s = (NB.heightOf NB.head + 1) * Ex2.P.reward) :=
  head_state_equation Ex2.P Ex2.N esReorg Ex2.fresh_N reg_reorg Ex2.G rfl (by decide) (by decide)
example : utxoValue NB.outs { utxo := [(100, 0, false), (121, 1, true)], nrd := [], height := 1 } = 120 := by
  decide

-- `accepted_blocks_balance` / `stored_state_equation`: a1 — on the losing fork — still balances
example : sumVals Ex2.N.outs ((Ex2.A1.outs.filter (·.2)).map (·.1)) = Ex2.P.reward + Ex2.A1.fees ∧
    sumVals Ex2.N.outs (Ex2.A1.outs.map (·.1)) = sumVals Ex2.N.outs Ex2.A1.ins + Ex2.P.reward ∧
    hasTag Ex2.A1 "body:" = none ∧ hasTag Ex2.A1 "ksum:" = none ∧
    (Ex2.A1.outs.any (·.2) = true → (Ex2.A1.kers.filter (· == .cb)).length ≠ 0) :=
  accepted_blocks_balance Ex2.P Ex2.N esReorg Ex2.fresh_N reg_reorg Ex2.A1 rfl (by decide) (by decide)
example : ∃ rest s, Ex2.N.path 1 = some (Ex2.G :: rest) ∧ Ex2.N.stateAt Ex2.P 1 = .ok s ∧
    utxoValue Ex2.N.outs s = (rest.length + 1) * Ex2.P.reward ∧ (s.utxo.map (·.1)).Nodup :=
  stored_state_equation Ex2.P Ex2.N esReorg Ex2.fresh_N reg_reorg Ex2.G rfl (by decide) (by decide)
    1 (by decide)

-- `block_sums_fault_refused`: b5 carries a `sums:` tag
example : Refused Ex2.P NB Ex2.B5 :=
  block_sums_fault_refused Ex2.P NB Ex2.B5 (by simp [hasTag, Ex2.B5])

-- `missing_coinbase_flag_refused` / `forged_coinbase_flag_refused` /
-- `coinbase_output_without_kernel_refused` on variants of b1's child
example : Refused Ex2.P NB { Ex2.B4 with outs := [(135, false)] } :=
  missing_coinbase_flag_refused Ex2.P NB _ (by decide) rfl
example : Refused Ex2.P NB { Ex2.B4 with outs := [(135, true), (133, true)] } :=
  forged_coinbase_flag_refused Ex2.P NB _ [135] 133 rfl (by decide) (by decide)
example : Refused Ex2.P NB { Ex2.B4 with outs := [(135, true)], kers := [.plain 0] } :=
  coinbase_output_without_kernel_refused Ex2.P NB _ (by decide) (by decide)

end HistoryExamples
end GV.Props.C01
