import GrinVerif.Lemmas.DecSerEraseTx
import GrinVerif.Props.C10
/-! # C10 on the network path: both `Reader` implementations, the `Untrusted*` wrappers

The C10 theorems are stated about the plain decoders of `Model/Ser*.lean` (a `BinReader` over a byte
slice). The decoders a peer's bytes actually go through are the ones modelled for C11 in
`Model/DecSer.lean`: the same Rust functions run through the `BinReader` (`ser::deserialize`) **or** the
`BufReader` (the codec), with their panic sites and allocations, and the `Untrusted*` wrappers on top.
This module proves that the two models are one: for every input, both readers and every protocol
version, the instrumented decoder never panics and returns exactly the plain decoder's result — value,
unread rest, error kind (`*_erases`) — and that the wrappers only ever refuse more
(`untrusted*_accepts_subset`). Hence every C10 theorem holds on the network path; the most used ones
are restated below (`*_network_*`). Two assumptions of `checks/C10.json` ("BinReader only", "the
Untrusted* wrappers are not modelled") are discharged by this module. -/
namespace GV.Props.C10Wire
open GV GV.Ser GV.Dec GV.DecSer

/-! ## the instrumented decoders erase to the plain ones (both readers) -/

theorem txKernel_erases (rd : Rdr) (c : Cfg) (bs : Bytes) :
    (rTxKernel rd c bs).toExcept = some (decTxKernel c bs) := erases_rTxKernel rd c bs
theorem input_erases (rd : Rdr) (bs : Bytes) : (rInput rd bs).toExcept = some (decInput bs) := erases_rInput rd bs
theorem outputId_erases (rd : Rdr) (bs : Bytes) : (rOutputId rd bs).toExcept = some (decOutputId bs) :=
  erases_rOutputId rd bs
theorem rangeProof_erases (rd : Rdr) (bs : Bytes) : (rRangeProof rd bs).toExcept = some (decRangeProof bs) :=
  erases_rRangeProof rd bs
theorem output_erases (rd : Rdr) (bs : Bytes) : (rOutput rd bs).toExcept = some (decOutput bs) := erases_rOutput rd bs
/-- `read_multi`, generically: the `IteratingReader` form of the code (stop at the first failing item,
then compare the count) and the item-by-item form of the instrumented model agree -/
theorem readMulti_erases {α : Type} {p : Dec α} {q : Parser α} (h : ∀ bs, (p bs).toExcept = some (q bs))
    (sz count : Nat) (bs : Bytes) :
    (DecSer.readMulti p sz count bs).toExcept = some (Ser.readMulti q count bs) := erases_readMulti h sz count bs
theorem txBody_erases (rd : Rdr) (c : Cfg) (bs : Bytes) : (rTxBody rd c bs).toExcept = some (decTxBody c bs) :=
  erases_rTxBody rd c bs
theorem compactBody_erases (rd : Rdr) (c : Cfg) (bs : Bytes) :
    (rCompactBody rd c bs).toExcept = some (decCompactBody c bs) := erases_rCompactBody rd c bs
/-- `Proof::read` with every slice, shift and subtraction of `read_number` / `extract_bits` explicit
computes the same nonces and the same padding verdict as the arithmetic definition -/
theorem proof_erases (rd : Rdr) (c : Cfg) (hps : c.proofSize * 8 ≤ ISIZE_MAX) (bs : Bytes) :
    (rProof rd c bs).toExcept = some (decProof c bs) := erases_rProof rd c hps bs
theorem blockHeader_erases (rd : Rdr) (c : Cfg) (hps : c.proofSize * 8 ≤ ISIZE_MAX) (bs : Bytes) :
    (rBlockHeader rd c bs).toExcept = some (decBlockHeader c bs) := erases_rBlockHeader rd c hps bs

/-- `Transaction::read` with `validate_read` as the code runs it — weight, NRD duplicates, sortedness
again, and `verify_cut_through` by sorting all input and output commitments (lexicographic byte order)
and comparing neighbours — accepts exactly when no commitment occurs twice, as the plain model says -/
theorem transaction_erases (rd : Rdr) (c : Cfg) (bs : Bytes) :
    (rTransaction rd c bs).toExcept = some (decTransaction c bs) := erases_rTransaction rd c bs

/-- the sort-and-compare-neighbours form of `verify_cut_through` finds a duplicate iff there is one -/
theorem cut_through_check_is_duplicate_freeness (l : List Bytes) :
    cutThroughLoop (windows2 (sortBytes l)) = if allDistinct l then .ok else .err .corrupted := cutThrough_eq l

/-- hence the two real readers cannot disagree on any of these types, on any input -/
theorem readers_agree_txBody (c : Cfg) (bs : Bytes) :
    (rTxBody .bin c bs).toExcept = (rTxBody .buf c bs).toExcept := by
  rw [txBody_erases, txBody_erases]

/-! ## the wrappers only refuse more -/

theorem untrustedHeader_accepts_subset (rd : Rdr) (e : Env) (hps : e.cfg.proofSize * 8 ≤ ISIZE_MAX)
    {bs : Bytes} {h : BlockHeader} {r : Bytes} {n : Nat} (hr : rUntrustedHeader rd e bs = .ok h r n) :
    decBlockHeader e.cfg bs = .ok (h, r) := rUntrustedHeader_ok rd e hps hr

theorem untrustedBlock_accepts_subset (rd : Rdr) (e : Env) (hps : e.cfg.proofSize * 8 ≤ ISIZE_MAX)
    {bs : Bytes} {b : Block} {r : Bytes} {n : Nat} (hr : rUntrustedBlock rd e bs = .ok b r n) :
    decBlock e.cfg bs = .ok (b, r) := rUntrustedBlock_ok rd e hps hr

theorem untrustedCompactBlock_accepts_subset (rd : Rdr) (e : Env) (hps : e.cfg.proofSize * 8 ≤ ISIZE_MAX)
    {bs : Bytes} {b : CompactBlock} {r : Bytes} {n : Nat} (hr : rUntrustedCompactBlock rd e bs = .ok b r n) :
    decCompactBlock e.cfg bs = .ok (b, r) := rUntrustedCompactBlock_ok rd e hps hr

/-! ## C10 on the network path -/

/-- a kernel written at version `c.ver` comes back from either reader, with any continuation -/
theorem txKernel_network_roundtrip (rd : Rdr) (c : Cfg) (k : TxKernel) (h : k.WF c.nrd) (rest : Bytes) :
    (rTxKernel rd c (encTxKernel c.ver .full k ++ rest)).toExcept = some (.ok (k, rest)) := by
  rw [txKernel_erases, C10.txKernel_roundtrip c k h rest]

/-- whatever either reader accepts as a kernel is byte for byte that kernel's encoding -/
theorem txKernel_network_canonical (rd : Rdr) (c : Cfg) {bs : Bytes} {k : TxKernel} {r : Bytes} {n : Nat}
    (hb : AllBytes bs) (h : rTxKernel rd c bs = .ok k r n) :
    bs = encTxKernel c.ver .full k ++ r ∧ k.WF c.nrd :=
  C10.txKernel_accepts_only_canonical hb ((erases_rTxKernel rd c).ok h)

/-- a transaction written at version `c.ver` comes back (inputs normalised as the version dictates)
from either reader, with any continuation -/
theorem transaction_network_roundtrip (rd : Rdr) (c : Cfg) (t : Transaction) (bs : Bytes)
    (henc : encTransaction c.key c.ver .full t = .ok bs) (hwf : t.WF c) (rest : Bytes) :
    (rTransaction rd c (bs ++ rest)).toExcept = some (.ok (t.norm c, rest)) := by
  rw [transaction_erases, C10.transaction_roundtrip c t bs henc hwf rest]

/-- whatever either reader accepts as a transaction body is strictly sorted, duplicate-free and within
the block weight -/
theorem txBody_network_sorted_unique (rd : Rdr) (c : Cfg) {bs : Bytes} {b : TxBody} {r : Bytes} {n : Nat}
    (h : rTxBody rd c bs = .ok b r n) :
    (b.inputs.keys c.key).Pairwise (· < ·)
    ∧ (b.outputs.map fun o => c.key o.hashBytes).Pairwise (· < ·)
    ∧ (b.kernels.map fun k => c.key k.hashBytes).Pairwise (· < ·)
    ∧ b.weight ≤ c.maxWeight :=
  C10.txBody_accepts_only_sorted_unique ((erases_rTxBody rd c).ok h)

/-- a header accepted by `UntrustedBlockHeader::read` through either reader is byte for byte its own
encoding (nothing is normalised on the way in), so its hash is the hash of what the peer sent -/
theorem untrustedHeader_network_canonical (rd : Rdr) (e : Env) (hps : e.cfg.proofSize * 8 ≤ ISIZE_MAX)
    {bs : Bytes} {h : BlockHeader} {r : Bytes} {n : Nat} (hb : AllBytes bs)
    (hr : rUntrustedHeader rd e bs = .ok h r n) :
    bs = encBlockHeader e.cfg.proofSize .full h ++ r ∧ h.WF e.cfg.proofSize :=
  C10.blockHeader_accepts_only_canonical hb (rUntrustedHeader_ok rd e hps hr)

/-- a block accepted by `UntrustedBlock::read`: canonical header, body strictly sorted and unique -/
theorem untrustedBlock_network_sorted_unique (rd : Rdr) (e : Env) (hps : e.cfg.proofSize * 8 ≤ ISIZE_MAX)
    {bs : Bytes} {b : Block} {r : Bytes} {n : Nat} (hr : rUntrustedBlock rd e bs = .ok b r n) :
    (b.body.inputs.keys e.cfg.key).Pairwise (· < ·)
    ∧ (b.body.outputs.map fun o => e.cfg.key o.hashBytes).Pairwise (· < ·)
    ∧ (b.body.kernels.map fun k => e.cfg.key k.hashBytes).Pairwise (· < ·)
    ∧ b.body.weight ≤ e.cfg.maxWeight := by
  have h := rUntrustedBlock_ok rd e hps hr
  unfold decBlock at h
  obtain ⟨hd, r1, h1, k1⟩ := andThen_inv h
  obtain ⟨body, r2, h2, k2⟩ := andThen_inv k1
  simp only [Except.ok.injEq, Prod.mk.injEq] at k2
  obtain ⟨rfl, _⟩ := k2
  exact C10.txBody_accepts_only_sorted_unique h2

/-- a compact block accepted by `UntrustedCompactBlock::read`: the three lists strictly sorted, unique -/
theorem untrustedCompactBlock_network_sorted_unique (rd : Rdr) (e : Env) (hps : e.cfg.proofSize * 8 ≤ ISIZE_MAX)
    {bs : Bytes} {b : CompactBlock} {r : Bytes} {n : Nat} (hr : rUntrustedCompactBlock rd e bs = .ok b r n) :
    (b.body.outFull.map fun o => e.cfg.key o.hashBytes).Pairwise (· < ·)
    ∧ (b.body.kernFull.map fun k => e.cfg.key k.hashBytes).Pairwise (· < ·)
    ∧ (b.body.kernIds.map fun s => e.cfg.key (encShortId s)).Pairwise (· < ·) := by
  have h := rUntrustedCompactBlock_ok rd e hps hr
  unfold decCompactBlock at h
  obtain ⟨hd, r1, h1, k1⟩ := andThen_inv h
  obtain ⟨nonce, r2, h2, k2⟩ := andThen_inv k1
  obtain ⟨body, r3, h3, k3⟩ := andThen_inv k2
  simp only [Except.ok.injEq, Prod.mk.injEq] at k3
  obtain ⟨rfl, _⟩ := k3
  exact C10.compactBody_accepts_only_sorted_unique h3

/-- non-vacuity: the hypothesis on the proof size holds for both shipped values -/
example : (42 : Nat) * 8 ≤ ISIZE_MAX ∧ (8 : Nat) * 8 ≤ ISIZE_MAX := by decide

end GV.Props.C10Wire
