import GrinVerif.Lemmas.DecSerEraseTx
import GrinVerif.Lemmas.DecSerEraseSeg
import GrinVerif.Lemmas.DecSerEraseMsg
import GrinVerif.Lemmas.DecSerEraseBitmap
import GrinVerif.Props.C10Msg
import GrinVerif.Props.C10
/-! # C10 on the network path: both `Reader` implementations, the `Untrusted*` wrappers

The C10 theorems are stated about the plain decoders of `Model/Ser*.lean` (a `BinReader` over a byte
slice). The decoders a peer's bytes actually go through are the ones modelled for C11 in
`Model/DecSer.lean`: the same Rust functions run through the `BinReader` (`ser::deserialize`) **or** the
`BufReader` (the codec), with their panic sites and allocations, and the `Untrusted*` wrappers on top.
This module proves that the two models are one: for every input, both readers and every protocol
version, the instrumented decoder never panics and returns exactly the plain decoder's result — value,
unread rest, error kind (`*_erases`) — and that the wrappers only ever refuse more
(`untrusted*_accepts_subset`). Hence every C10 theorem holds on the network path; the most used ones
are restated below (`*_network_*`). Two assumptions of `checks/C10.json` ("BinReader only", "the
Untrusted* wrappers are not modelled") are discharged by this module. -/
namespace GV.Props.C10Wire
open GV GV.Ser GV.Dec GV.DecSer

/-! ## the instrumented decoders erase to the plain ones (both readers) -/

theorem txKernel_erases (rd : Rdr) (c : Cfg) (bs : Bytes) :
    (rTxKernel rd c bs).toExcept = some (decTxKernel c bs) := erases_rTxKernel rd c bs
theorem input_erases (rd : Rdr) (bs : Bytes) : (rInput rd bs).toExcept = some (decInput bs) := erases_rInput rd bs
theorem outputId_erases (rd : Rdr) (bs : Bytes) : (rOutputId rd bs).toExcept = some (decOutputId bs) :=
  erases_rOutputId rd bs
theorem rangeProof_erases (rd : Rdr) (bs : Bytes) : (rRangeProof rd bs).toExcept = some (decRangeProof bs) :=
  erases_rRangeProof rd bs
theorem output_erases (rd : Rdr) (bs : Bytes) : (rOutput rd bs).toExcept = some (decOutput bs) := erases_rOutput rd bs
/-- `read_multi`, generically: the `IteratingReader` form of the code (stop at the first failing item,
then compare the count) and the item-by-item form of the instrumented model agree -/
theorem readMulti_erases {α : Type} {p : Dec α} {q : Parser α} (h : ∀ bs, (p bs).toExcept = some (q bs))
    (sz count : Nat) (bs : Bytes) :
    (DecSer.readMulti p sz count bs).toExcept = some (Ser.readMulti q count bs) := erases_readMulti h sz count bs
theorem txBody_erases (rd : Rdr) (c : Cfg) (bs : Bytes) : (rTxBody rd c bs).toExcept = some (decTxBody c bs) :=
  erases_rTxBody rd c bs
theorem compactBody_erases (rd : Rdr) (c : Cfg) (bs : Bytes) :
    (rCompactBody rd c bs).toExcept = some (decCompactBody c bs) := erases_rCompactBody rd c bs
/-- `Proof::read` with every slice, shift and subtraction of `read_number` / `extract_bits` explicit
computes the same nonces and the same padding verdict as the arithmetic definition -/
theorem proof_erases (rd : Rdr) (c : Cfg) (hps : c.proofSize * 8 ≤ ISIZE_MAX) (bs : Bytes) :
    (rProof rd c bs).toExcept = some (decProof c bs) := erases_rProof rd c hps bs
theorem blockHeader_erases (rd : Rdr) (c : Cfg) (hps : c.proofSize * 8 ≤ ISIZE_MAX) (bs : Bytes) :
    (rBlockHeader rd c bs).toExcept = some (decBlockHeader c bs) := erases_rBlockHeader rd c hps bs

/-- `Transaction::read` with `validate_read` as the code runs it — weight, NRD duplicates, sortedness
again, and `verify_cut_through` by sorting all input and output commitments (lexicographic byte order)
and comparing neighbours — accepts exactly when no commitment occurs twice, as the plain model says -/
theorem transaction_erases (rd : Rdr) (c : Cfg) (bs : Bytes) :
    (rTransaction rd c bs).toExcept = some (decTransaction c bs) := erases_rTransaction rd c bs

/-- the sort-and-compare-neighbours form of `verify_cut_through` finds a duplicate iff there is one -/
theorem cut_through_check_is_duplicate_freeness (l : List Bytes) :
    cutThroughLoop (windows2 (sortBytes l)) = if allDistinct l then .ok else .err .corrupted := cutThrough_eq l

/-- hence the two real readers cannot disagree on any of these types, on any input -/
theorem readers_agree_txBody (c : Cfg) (bs : Bytes) :
    (rTxBody .bin c bs).toExcept = (rTxBody .buf c bs).toExcept := by
  rw [txBody_erases, txBody_erases]

/-! ## MMR segments and Merkle proofs (the record types of the two models differ by name only) -/

/-- `SegmentProof::read` -/
theorem segmentProof_erases (rd : Rdr) (bs : Bytes) :
    (segmentProof rd bs).toExcept = some (GV.SerSeg.decSegProof bs) := erases_segmentProof rd bs

/-- `Segment<T>::read`, generically in the leaf reader (any leaf type whose in-memory size is below
2^40 bytes): the instrumented reader with its capped pre-allocations returns the plain decoder's
segment, positions and all -/
theorem segment_erases {α : Type} (rd : Rdr) {p : Dec α} {q : Parser α} (h : ∀ bs, (p bs).toExcept = some (q bs))
    (sz : Nat) (hsz : sz ≤ 2^40) (bs : Bytes) :
    ((segment rd p sz bs).map toSegment).toExcept = some (GV.SerSeg.decSegment q bs) :=
  erases_segment rd h sz hsz bs

theorem kernelSegment_erases (rd : Rdr) (c : Cfg) (bs : Bytes) :
    ((segment rd (rTxKernel rd c) KERNEL_MEM bs).map toSegment).toExcept
      = some (GV.SerSeg.decSegment (decTxKernel c) bs) :=
  erases_segment rd (erases_rTxKernel rd c) _ (by unfold KERNEL_MEM; omega) bs

theorem outputSegment_erases (rd : Rdr) (bs : Bytes) :
    ((segment rd (rOutputId rd) OUTPUT_ID_MEM bs).map toSegment).toExcept
      = some (GV.SerSeg.decSegment decOutputId bs) :=
  erases_segment rd (erases_rOutputId rd) _ (by unfold OUTPUT_ID_MEM; omega) bs

theorem rangeProofSegment_erases (rd : Rdr) (bs : Bytes) :
    ((segment rd (rRangeProof rd) RANGE_PROOF_MEM bs).map toSegment).toExcept
      = some (GV.SerSeg.decSegment decRangeProof bs) :=
  erases_segment rd (erases_rRangeProof rd) _ (by unfold RANGE_PROOF_MEM; omega) bs

/-- `MerkleProof::read` (pre-allocation capped at 64 hashes) -/
theorem merkleProof_erases (rd : Rdr) (bs : Bytes) :
    ((merkleProof rd bs).map toMerkleProof).toExcept = some (decMerkleProof bs) := erases_merkleProof rd bs

/-- an output segment accepted through either reader is byte for byte its own encoding -/
theorem outputSegment_network_canonical (rd : Rdr) {bs : Bytes} {s : GV.Dec.Segment OutputId} {r : Bytes} {n : Nat}
    (hb : AllBytes bs) (h : segment rd (rOutputId rd) OUTPUT_ID_MEM bs = .ok s r n) :
    bs = GV.SerSeg.encSegment encOutputId (toSegment s) ++ r := by
  have he := outputSegment_erases rd bs
  rw [h] at he
  simp only [Outcome.map, Outcome.toExcept, Option.some.injEq] at he
  exact (C10Msg.outputSegment_accepts_only_canonical hb he.symm).1

/-! ## handshake and sync messages (`Model/Msg.lean` vs `Model/SerMsg.lean`) -/

/-- the two models carry their own copy of the UTF-8 acceptor: they are the same function -/
theorem utf8_acceptors_agree (bs : Bytes) : GV.Msg.validUtf8 bs = GV.SerMsg.validUtf8 bs := validUtf8_eq bs

theorem peerAddr_erases (rd : Rdr) (bs : Bytes) :
    ((GV.Msg.decPeerAddr rd bs).map toAddr).toExcept = some (GV.SerMsg.decPeerAddr bs) := erases_decPeerAddr rd bs
theorem hand_erases (rd : Rdr) (bs : Bytes) :
    ((GV.Msg.decHand rd bs).map toHand).toExcept = some (GV.SerMsg.decHand bs) := erases_decHand rd bs
theorem shake_erases (rd : Rdr) (bs : Bytes) :
    ((GV.Msg.decShake rd bs).map toShake).toExcept = some (GV.SerMsg.decShake bs) := erases_decShake rd bs
theorem peerError_erases (rd : Rdr) (bs : Bytes) :
    ((GV.Msg.decPeerError rd bs).map fun p => ({ code := p.1, message := p.2 } : GV.SerMsg.PeerError)).toExcept
      = some (GV.SerMsg.decPeerError bs) := erases_decPeerError rd bs

/-- every body `decode_message` reads with a decoder of `msg.rs`: Ping / Pong, the hash bodies
(GetBlock, GetCompactBlock, GetTransaction, TransactionKernel), GetHeaders (Locator), GetPeerAddrs,
PeerAddrs, TxHashSetRequest, TxHashSetArchive, the four segment requests -/
theorem pingPong_erases {P : Type} (bs : Bytes) :
    ((GV.Msg.decPingPong (P := P) bs).map toBodyV).toExcept = some (wrap .pingPong GV.SerMsg.decPingPong bs) :=
  erases_body_pingPong bs
theorem hashBody_erases {P : Type} (rd : Rdr) (bs : Bytes) :
    ((GV.Msg.decHashBody (P := P) rd bs).map toBodyV).toExcept = some (wrap .hash decHash bs) :=
  erases_body_hash rd bs
theorem locator_erases {P : Type} (rd : Rdr) (bs : Bytes) :
    ((GV.Msg.decLocator (P := P) rd bs).map toBodyV).toExcept = some (wrap .locator GV.SerMsg.decLocator bs) :=
  erases_body_locator rd bs
theorem getPeerAddrs_erases {P : Type} (bs : Bytes) :
    ((GV.Msg.decGetPeerAddrs (P := P) bs).map toBodyV).toExcept
      = some (wrap .getPeerAddrs GV.SerMsg.decGetPeerAddrs bs) := erases_body_getPeerAddrs bs
theorem peerAddrs_erases {P : Type} (rd : Rdr) (bs : Bytes) :
    ((GV.Msg.decPeerAddrs (P := P) rd bs).map toBodyV).toExcept
      = some (wrap .peerAddrs GV.SerMsg.decPeerAddrs bs) := erases_body_peerAddrs rd bs
theorem txHashSetRequest_erases {P : Type} (rd : Rdr) (bs : Bytes) :
    ((GV.Msg.decTxHashSetRequest (P := P) rd bs).map toBodyV).toExcept
      = some (wrap .txHashSetRequest GV.SerMsg.decTxHashSetRequest bs) := erases_body_txHashSetRequest rd bs
theorem txHashSetArchive_erases {P : Type} (rd : Rdr) (bs : Bytes) :
    ((GV.Msg.decTxHashSetArchive (P := P) rd bs).map toBodyV).toExcept
      = some (wrap .txHashSetArchive GV.SerMsg.decTxHashSetArchive bs) := erases_body_txHashSetArchive rd bs
theorem segmentRequest_erases {P : Type} (rd : Rdr) (bs : Bytes) :
    ((GV.Msg.decSegmentRequest (P := P) rd bs).map toBodyV).toExcept
      = some (wrap .segmentRequest GV.SerMsg.decSegmentRequest bs) := erases_body_segmentRequest rd bs
/-- `BanReason` through the `BinReader`; through the `BufReader` a body shorter than four bytes leaves
a different rest (the failed `read_i32` is swallowed), which is why it is excluded everywhere else -/
theorem banReason_erases_bin {P : Type} (bs : Bytes) :
    ((GV.Msg.decBanReason (P := P) .bin bs).map toBodyV).toExcept
      = some (wrap .banReason GV.SerMsg.decBanReason bs) := erases_body_banReason_bin bs

/-- the PIBD responses: `SegmentResponse<T>` generically (kernel and range-proof segments) and
`OutputSegmentResponse` -/
theorem segmentResponse_erases {α : Type} (rd : Rdr) {p : Dec α} {q : Parser α}
    (h : ∀ bs, (p bs).toExcept = some (q bs)) (sz : Nat) (hsz : sz ≤ 2^40) (bs : Bytes) :
    ((rSegmentResponse rd p sz bs).map toSegmentResponse).toExcept = some (GV.SerMsg.decSegmentResponse q bs) :=
  erases_rSegmentResponse rd h sz hsz bs
theorem outputSegmentResponse_erases (rd : Rdr) (bs : Bytes) :
    ((rOutputSegmentResponse rd bs).map toOutputSegmentResponse).toExcept
      = some (GV.SerMsg.decOutputSegmentResponse bs) := erases_rOutputSegmentResponse rd bs

/-- `BitmapBlock::read` (raw / positive / negative mode): the instrumented reader keeps a block as its
bit length, fill value and flipped positions, the plain one as the number whose binary digits are the
bits; through `toBlock` they are the same reader -/
theorem bitmapBlock_erases (rd : Rdr) (bs : Bytes) :
    ((rBitmapBlock rd bs).map toBlock).toExcept = some (GV.SerSeg.decBitmapBlock bs) := erases_rBitmapBlock rd bs

/-- the shape checks of a bitmap segment are written differently in the two models (`split_last`, full
blocks, `try_n_chunks` on bit lengths / a recursion from the front on chunk counts): on blocks that come
out of the block reader they decide the same thing with the same error kind -/
theorem bitmap_validate_blocks_agree (id : SegmentId) (bl : List BitmapBlock)
    (hinv : ∀ b ∈ bl, b.nBits % CHUNK_BITS = 0 ∧ b.nBits / CHUNK_BITS ≤ NCHUNKS) (hlen : bl.length ≤ 2^32) :
    validateBlocks id bl = chkOfN (GV.SerSeg.validateBlocks (toSegId id) (bl.map toBlock)) :=
  validateBlocks_eq id bl hinv hlen

/-- `BitmapSegment::read` and the `OutputBitmapSegment` response, both readers -/
theorem bitmapSegment_erases (rd : Rdr) (bs : Bytes) :
    ((rBitmapSegment rd bs).map toBitmapSegment).toExcept = some (GV.SerSeg.decBitmapSegment bs) :=
  erases_rBitmapSegment rd bs
theorem outputBitmapSegmentResponse_erases (rd : Rdr) (bs : Bytes) :
    ((rBitmapSegmentResponse rd bs).map toBitmapSegmentResponse).toExcept
      = some (GV.SerMsg.decOutputBitmapSegmentResponse bs) := erases_rBitmapSegmentResponse rd bs

/-- a `Hand` written by the plain model comes back from either reader of the instrumented one -/
theorem hand_network_roundtrip (rd : Rdr) (h : GV.SerMsg.Hand) (hwf : h.WF) (rest : Bytes) :
    ((GV.Msg.decHand rd (GV.SerMsg.encHand h ++ rest)).map toHand).toExcept
      = some (.ok (h.norm, rest)) := by
  rw [hand_erases, C10Msg.hand_roundtrip h hwf rest]

/-! ## the wrappers only refuse more -/

theorem untrustedHeader_accepts_subset (rd : Rdr) (e : Env) (hps : e.cfg.proofSize * 8 ≤ ISIZE_MAX)
    {bs : Bytes} {h : BlockHeader} {r : Bytes} {n : Nat} (hr : rUntrustedHeader rd e bs = .ok h r n) :
    decBlockHeader e.cfg bs = .ok (h, r) := rUntrustedHeader_ok rd e hps hr

theorem untrustedBlock_accepts_subset (rd : Rdr) (e : Env) (hps : e.cfg.proofSize * 8 ≤ ISIZE_MAX)
    {bs : Bytes} {b : Block} {r : Bytes} {n : Nat} (hr : rUntrustedBlock rd e bs = .ok b r n) :
    decBlock e.cfg bs = .ok (b, r) := rUntrustedBlock_ok rd e hps hr

theorem untrustedCompactBlock_accepts_subset (rd : Rdr) (e : Env) (hps : e.cfg.proofSize * 8 ≤ ISIZE_MAX)
    {bs : Bytes} {b : CompactBlock} {r : Bytes} {n : Nat} (hr : rUntrustedCompactBlock rd e bs = .ok b r n) :
    decCompactBlock e.cfg bs = .ok (b, r) := rUntrustedCompactBlock_ok rd e hps hr

/-! ## C10 on the network path -/

/-- a kernel written at version `c.ver` comes back from either reader, with any continuation -/
theorem txKernel_network_roundtrip (rd : Rdr) (c : Cfg) (k : TxKernel) (h : k.WF c.nrd) (rest : Bytes) :
    (rTxKernel rd c (encTxKernel c.ver .full k ++ rest)).toExcept = some (.ok (k, rest)) := by
  rw [txKernel_erases, C10.txKernel_roundtrip c k h rest]

/-- whatever either reader accepts as a kernel is byte for byte that kernel's encoding -/
theorem txKernel_network_canonical (rd : Rdr) (c : Cfg) {bs : Bytes} {k : TxKernel} {r : Bytes} {n : Nat}
    (hb : AllBytes bs) (h : rTxKernel rd c bs = .ok k r n) :
    bs = encTxKernel c.ver .full k ++ r ∧ k.WF c.nrd :=
  C10.txKernel_accepts_only_canonical hb ((erases_rTxKernel rd c).ok h)

/-- a transaction written at version `c.ver` comes back (inputs normalised as the version dictates)
from either reader, with any continuation -/
theorem transaction_network_roundtrip (rd : Rdr) (c : Cfg) (t : Transaction) (bs : Bytes)
    (henc : encTransaction c.key c.ver .full t = .ok bs) (hwf : t.WF c) (rest : Bytes) :
    (rTransaction rd c (bs ++ rest)).toExcept = some (.ok (t.norm c, rest)) := by
  rw [transaction_erases, C10.transaction_roundtrip c t bs henc hwf rest]

/-- whatever either reader accepts as a transaction body is strictly sorted, duplicate-free and within
the block weight -/
theorem txBody_network_sorted_unique (rd : Rdr) (c : Cfg) {bs : Bytes} {b : TxBody} {r : Bytes} {n : Nat}
    (h : rTxBody rd c bs = .ok b r n) :
    (b.inputs.keys c.key).Pairwise (· < ·)
    ∧ (b.outputs.map fun o => c.key o.hashBytes).Pairwise (· < ·)
    ∧ (b.kernels.map fun k => c.key k.hashBytes).Pairwise (· < ·)
    ∧ b.weight ≤ c.maxWeight :=
  C10.txBody_accepts_only_sorted_unique ((erases_rTxBody rd c).ok h)

/-- a header accepted by `UntrustedBlockHeader::read` through either reader is byte for byte its own
encoding (nothing is normalised on the way in), so its hash is the hash of what the peer sent -/
theorem untrustedHeader_network_canonical (rd : Rdr) (e : Env) (hps : e.cfg.proofSize * 8 ≤ ISIZE_MAX)
    {bs : Bytes} {h : BlockHeader} {r : Bytes} {n : Nat} (hb : AllBytes bs)
    (hr : rUntrustedHeader rd e bs = .ok h r n) :
    bs = encBlockHeader e.cfg.proofSize .full h ++ r ∧ h.WF e.cfg.proofSize :=
  C10.blockHeader_accepts_only_canonical hb (rUntrustedHeader_ok rd e hps hr)

/-- a block accepted by `UntrustedBlock::read`: canonical header, body strictly sorted and unique -/
theorem untrustedBlock_network_sorted_unique (rd : Rdr) (e : Env) (hps : e.cfg.proofSize * 8 ≤ ISIZE_MAX)
    {bs : Bytes} {b : Block} {r : Bytes} {n : Nat} (hr : rUntrustedBlock rd e bs = .ok b r n) :
    (b.body.inputs.keys e.cfg.key).Pairwise (· < ·)
    ∧ (b.body.outputs.map fun o => e.cfg.key o.hashBytes).Pairwise (· < ·)
    ∧ (b.body.kernels.map fun k => e.cfg.key k.hashBytes).Pairwise (· < ·)
    ∧ b.body.weight ≤ e.cfg.maxWeight := by
  have h := rUntrustedBlock_ok rd e hps hr
  unfold decBlock at h
  obtain ⟨hd, r1, h1, k1⟩ := andThen_inv h
  obtain ⟨body, r2, h2, k2⟩ := andThen_inv k1
  simp only [Except.ok.injEq, Prod.mk.injEq] at k2
  obtain ⟨rfl, _⟩ := k2
  exact C10.txBody_accepts_only_sorted_unique h2

/-- a compact block accepted by `UntrustedCompactBlock::read`: the three lists strictly sorted, unique -/
theorem untrustedCompactBlock_network_sorted_unique (rd : Rdr) (e : Env) (hps : e.cfg.proofSize * 8 ≤ ISIZE_MAX)
    {bs : Bytes} {b : CompactBlock} {r : Bytes} {n : Nat} (hr : rUntrustedCompactBlock rd e bs = .ok b r n) :
    (b.body.outFull.map fun o => e.cfg.key o.hashBytes).Pairwise (· < ·)
    ∧ (b.body.kernFull.map fun k => e.cfg.key k.hashBytes).Pairwise (· < ·)
    ∧ (b.body.kernIds.map fun s => e.cfg.key (encShortId s)).Pairwise (· < ·) := by
  have h := rUntrustedCompactBlock_ok rd e hps hr
  unfold decCompactBlock at h
  obtain ⟨hd, r1, h1, k1⟩ := andThen_inv h
  obtain ⟨nonce, r2, h2, k2⟩ := andThen_inv k1
  obtain ⟨body, r3, h3, k3⟩ := andThen_inv k2
  simp only [Except.ok.injEq, Prod.mk.injEq] at k3
  obtain ⟨rfl, _⟩ := k3
  exact C10.compactBody_accepts_only_sorted_unique h3

/-- non-vacuity: the hypothesis on the proof size holds for both shipped values -/
example : (42 : Nat) * 8 ≤ ISIZE_MAX ∧ (8 : Nat) * 8 ≤ ISIZE_MAX := by decide

end GV.Props.C10Wire
