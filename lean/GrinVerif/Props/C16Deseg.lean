import GrinVerif.Lemmas.DesegWant
import GrinVerif.Lemmas.DesegServe
/-! # C16 — the desegmenter as a whole machine (`chain/src/txhashset/desegmenter.rs`)

Property theorems about `Model/Deseg.lean` (bitmap phase → `finalize_bitmap` → the three trees;
`add_*_segment`, `apply_next_segments`, `next_desired_segments`, `check_progress`), tied to the real
`Desegmenter` by the runs `deseg synth` / `deseg chain` (every observable of every step is recomputed
by the model).  Helper lemmas: `Lemmas/Deseg{Arith,Inv,State,Apply}.lean`.

Reading guide.  `Inv No Nk s`: the state belongs to a sync towards an archive header with `No`
output leaves and `Nk` kernel leaves: heights in range, every cached segment has the asked height,
every local MMR ends at a segment boundary (or at the genesis leaf / at the archive size), nothing
was ever applied beyond the end of a local MMR (`misapplied = false`), a finalised bitmap is
complete.  `remaining s`: leaves still missing over the four trees (+1 until the bitmap is
finalised).  `Needed No Nk s`: the segment the current phase needs next is in its cache. -/
namespace GV.Props.C16Deseg
open GV GV.Pmmr GV.Seg GV.Deseg

/-- what can happen to a desegmenter: a segment of any kind, identifier and content arrives;
`apply_next_segments`; `next_desired_segments(max)` -/
inductive Ev
  | add (k : Kind) (x : SegIn)
  | apply
  | want (max : Nat)

def step (s : St) : Ev → St
  | .add k x => (s.addSegment k x).1
  | .apply => s.applyNextSegments
  | .want m => (s.nextDesiredSegments m).1

def run (s : St) (es : List Ev) : St := es.foldl step s

/-- assumption on deliveries: a bitmap segment carries no chunk beyond its range (a recorded
finding: `apply_bitmap_segment` appends every chunk it is given; see the `probe` run) -/
def CleanEv : Ev → Prop
  | .add .bitmap x => x.extra = 0
  | _ => True

theorem step_inv (No Nk : Nat) (s : St) (e : Ev) (hi : Inv No Nk s) (hc : CleanEv e) :
    Inv No Nk (step s e) := by
  cases e with
  | add k x =>
    refine add_inv No Nk s k x hi ?_
    intro hk; subst hk; exact hc
  | apply => exact apply_inv No Nk s hi
  | want m => exact want_inv No Nk s m hi

/-- **The invariant holds in every reachable state**: whatever segments arrive (any kind, height,
index, content, order, multiplicity), interleaved in any way with `apply_next_segments` and
`next_desired_segments`. -/
theorem run_inv (No Nk : Nat) : ∀ (es : List Ev) (s : St), Inv No Nk s → (∀ e ∈ es, CleanEv e) →
    Inv No Nk (run s es)
  | [], _, hi, _ => hi
  | e :: es, s, hi, hc => by
    show Inv No Nk (run (step s e) es)
    exact run_inv No Nk es _ (step_inv No Nk s e hi (hc e List.mem_cons_self))
      (fun x hx => hc x (List.mem_cons_of_mem _ hx))

/-- … starting from `Desegmenter::new` on a fresh chain (local MMRs hold at most the genesis
element), for every archive header with at least one output and two kernels and every choice of
segment heights (≥ 1 for the three main trees). -/
theorem deseg_invariant (hB hO hR hK No Nk gOut gKer : Nat) (hb : hB ≤ 61) (ho1 : 1 ≤ hO) (ho : hO ≤ 61)
    (hr1 : 1 ≤ hR) (hr : hR ≤ 61) (hk1 : 1 ≤ hK) (hk : hK ≤ 61) (hNo : 1 ≤ No) (hNoS : No < 2 ^ 62)
    (hNk : 2 ≤ Nk) (hNkS : Nk < 2 ^ 62) (hgo : gOut ≤ 1) (hgk : gKer ≤ 1)
    (es : List Ev) (hc : ∀ e ∈ es, CleanEv e) :
    Inv No Nk (run (St.new hB hO hR hK (mmr No) (mmr Nk) gOut gKer) es) :=
  run_inv No Nk es _ (new_inv hB hO hR hK No Nk gOut gKer hb ho1 ho hr1 hr hk1 hk hNo hNoS hNk hNkS hgo hgk) hc

/-- the hypotheses are satisfiable: the shipped heights, a small archive header, a fresh chain -/
example : Inv 5 3 (run (St.new 9 11 11 11 (mmr 5) (mmr 3) 1 1)
    [.want 15, .add .bitmap ⟨⟨9, 0⟩, true, 0, 0⟩, .apply, .add .kernel ⟨⟨3, 7⟩, true, 0, 0⟩, .apply]) :=
  deseg_invariant 9 11 11 11 5 3 1 1 (by omega) (by omega) (by omega) (by omega) (by omega) (by omega)
    (by omega) (by omega) (by omega) (by omega) (by omega) (by omega) (by omega) _
    (by intro e he; simp only [List.mem_cons, List.mem_nil_iff, or_false] at he
        rcases he with h | h | h | h | h <;> subst h <;> simp [CleanEv])

/-- **No segment is ever applied beyond the end of a local MMR** (what the foreign-height defect
did: a segment of another height with the index of the required one was taken from the cache and
its leaves pushed with a gap): in no reachable state. -/
theorem never_applies_beyond_local_mmr (No Nk : Nat) (s : St) (hi : Inv No Nk s) (es : List Ev)
    (hc : ∀ e ∈ es, CleanEv e) : (run s es).misapplied = false :=
  (run_inv No Nk es s hi hc).noMis

/-- every segment in a cache has the height that was asked for -/
theorem cached_have_asked_height (No Nk : Nat) (s : St) (hi : Inv No Nk s) (k : Kind) :
    ∀ c ∈ (s.treeOf k).cache, c.id.height = s.heightOf k := by
  cases k with
  | bitmap => exact hi.bm.own
  | output => exact hi.out.own
  | rangeproof => exact hi.rp.own
  | kernel => exact hi.ker.own

/-- a local MMR never grows beyond the archive header's and is always the MMR of a leaf count -/
theorem local_mmrs_bounded (No Nk : Nat) (s : St) (hi : Inv No Nk s) :
    s.out.size = mmr s.out.leaves ∧ s.out.leaves ≤ No ∧ s.rp.size = mmr s.rp.leaves ∧ s.rp.leaves ≤ No ∧
      s.ker.size = mmr s.ker.leaves ∧ s.ker.leaves ≤ Nk ∧
      s.bm.size = mmr s.bm.leaves ∧ s.bm.leaves ≤ Dsg.expectedChunks No :=
  ⟨hi.out.size_eq, hi.out.leaves_le, hi.rp.size_eq, hi.rp.leaves_le, hi.ker.size_eq, hi.ker.leaves_le,
    hi.bm.size_eq, hi.bm.leaves_le⟩

/-- the three tests of `add_*_segment` in the code's order; a refused segment changes nothing -/
theorem add_accepts_iff (s : St) (k : Kind) (x : SegIn) :
    (s.addSegment k x).2 = .ok ↔
      x.id.height = s.heightOf k ∧ x.id.unprunedSize (s.archiveOf k) ≠ 0 ∧ x.valid = true :=
  addSegment_ok_iff s k x

theorem refused_segment_changes_nothing (s : St) (k : Kind) (x : SegIn) (h : (s.addSegment k x).2 ≠ .ok) :
    (s.addSegment k x).1 = s :=
  addSegment_refused s k x h

/-- a segment of a height that was not asked for is refused with `InvalidSegmentHeight`, whatever
its content (repair 11f03601e) -/
theorem foreign_height_refused (s : St) (k : Kind) (x : SegIn) (h : x.id.height ≠ s.heightOf k) :
    s.addSegment k x = (s, .invalidSegmentHeight) := by
  unfold St.addSegment; rw [if_pos h]

/-- `check_progress` answers "complete" exactly when nothing remains: all three local MMRs have
the archive header's sizes and the bitmap is finalised and complete -/
theorem complete_iff (No Nk : Nat) (s : St) (hi : Inv No Nk s) :
    s.checkProgress = true ↔ s.remaining = 0 :=
  checkProgress_iff No Nk s hi

theorem complete_sizes (No Nk : Nat) (s : St) (hi : Inv No Nk s) (h : s.checkProgress = true) :
    s.out.size = s.outSize ∧ s.rp.size = s.outSize ∧ s.ker.size = s.kerSize ∧ s.bitmapCache = true ∧
      s.bm.leaves = Dsg.expectedChunks No := by
  have hf := hi.fin
  unfold St.checkProgress at h
  simp only [Bool.and_eq_true, beq_iff_eq] at h
  obtain ⟨⟨⟨h1, h2⟩, h3⟩, h4⟩ := h
  exact ⟨h2, h3, h1, h4, hf h4⟩

/-- `apply_next_segments` never loses ground … -/
theorem apply_never_regresses (No Nk : Nat) (s : St) (hi : Inv No Nk s) :
    s.applyNextSegments.remaining ≤ s.remaining :=
  apply_remaining_le No Nk s hi

/-- … and **makes progress as soon as the segment that comes next is cached**, whatever else is
cached (duplicates, early arrivals, late copies of applied segments) -/
theorem apply_makes_progress (No Nk : Nat) (s : St) (hi : Inv No Nk s) (hn : Needed No Nk s) :
    s.applyNextSegments.remaining < s.remaining :=
  apply_progress No Nk s hi hn

/-- while the sync is incomplete there IS a next step: a bitmap segment, the finalisation of the
bitmap, or a segment of one of the three trees -/
theorem incomplete_has_next (No Nk : Nat) (s : St) (hi : Inv No Nk s) (hr : s.remaining ≠ 0) :
    (∃ k, Pos false s.hB (Dsg.expectedChunks No) s.bm.leaves (some k)) ∨
    (Pos false s.hB (Dsg.expectedChunks No) s.bm.leaves none ∧
      (s.bitmapCache = false ∨ (∃ k, Pos true s.hO No s.out.leaves (some k)) ∨
        (∃ k, Pos true s.hR No s.rp.leaves (some k)) ∨ (∃ k, Pos true s.hK Nk s.ker.leaves (some k)))) :=
  next_exists No Nk s hi hr

/-! ## what `next_desired_segments` asks for -/

/-- **In the bitmap phase the request list starts with the bitmap segment that comes next**, unless
it is cached, for every `max_elements` — also when that segment adds a single position (a one-chunk
bitmap): the `>=` of the repair d6b49984d. -/
theorem bitmap_phase_asks_for_next_first (No Nk : Nat) (s : St) (hi : Inv No Nk s)
    (hbc : s.bitmapCache = false) (k : Nat)
    (p : Pos false s.hB (Dsg.expectedChunks No) s.bm.leaves (some k))
    (hnc : hasId s.bm.cache { height := s.hB, idx := k } = false) (max : Nat) :
    ∃ t, s.desired max = (Kind.bitmap, ⟨s.hB, k⟩) :: t :=
  desired_bitmap_next No Nk s hi hbc k p hnc max

/-- the fresh desegmenter of any header asks for bitmap segment 0 first -/
example : ∃ t, (St.new 9 11 11 11 (mmr 5) (mmr 3) 1 1).desired 15 = (Kind.bitmap, ⟨9, 0⟩) :: t := by
  have hi := new_inv 9 11 11 11 5 3 1 1 (by omega) (by omega) (by omega) (by omega) (by omega) (by omega)
    (by omega) (by omega) (by omega) (by omega) (by omega) (by omega) (by omega)
  refine bitmap_phase_asks_for_next_first 5 3 _ hi rfl 0 ?_ rfl 15
  have := Pos.boundary (gen := false) (h := 9) (N := Dsg.expectedChunks 5) 0 (by decide)
  have e : nLeaves 0 = 0 := by
    have h := nLeaves_mmr 0
    rw [Co.mmr_zero] at h
    exact h
  show Pos false 9 (Dsg.expectedChunks 5) (nLeaves 0) (some 0)
  rw [e]; exact this

/-- **After the bitmap phase the request list contains the kernel segment that comes next**, unless
it is cached, for every `max_elements` (its "ensure" step is the last one, nothing can push it out).
For the output and rangeproof trees the same holds in every state the runs reach with
`max_elements ≥ 3` (request list compared with the model), but not for `max_elements ≤ 2`: there the
later "ensure" steps push the earlier ones out of the list (recorded finding, `probe` run). -/
theorem request_contains_next_kernel_segment (No Nk : Nat) (s : St) (hi : Inv No Nk s)
    (hbc : s.bitmapCache = true) (k : Nat) (p : Pos true s.hK Nk s.ker.leaves (some k))
    (hnc : hasId s.ker.cache { height := s.hK, idx := k } = false) (max : Nat) :
    (Kind.kernel, ({ height := s.hK, idx := k } : Ident)) ∈ s.desired max :=
  desired_kernel_next No Nk s hi hbc k p hnc max

/-- one round of the sync loop (`state_sync.rs`): deliveries, then `apply_next_segments` -/
def round (feed : St → List Delivery) (s : St) : St := (s.deliverAll (feed s)).applyNextSegments

/-- `n` rounds.  (The round count is the LAST argument on purpose: the kernel compares the
arguments of `rounds … =?= rounds …` from the last one backwards, and refuting `s =?= round feed s`
means unfolding the whole machine.) -/
def rounds (feed : St → List Delivery) : St → Nat → St
  | s, 0 => s
  | s, n + 1 => rounds feed (round feed s) n

theorem rounds_succ (feed : St → List Delivery) (n : Nat) (s : St) :
    rounds feed s (n + 1) = rounds feed (round feed s) n := rfl

theorem round_inv (No Nk : Nat) (feed : St → List Delivery)
    (hclean : ∀ s, ∀ d ∈ feed s, d.kind = .bitmap → d.seg.extra = 0) (s : St) (hi : Inv No Nk s) :
    Inv No Nk (round feed s) :=
  apply_inv No Nk _ (deliverAll_inv No Nk (feed s) s hi (hclean s))

theorem round_remaining_le (No Nk : Nat) (feed : St → List Delivery)
    (hclean : ∀ s, ∀ d ∈ feed s, d.kind = .bitmap → d.seg.extra = 0) (s : St) (hi : Inv No Nk s) :
    (round feed s).remaining ≤ s.remaining := by
  have h := apply_remaining_le No Nk _ (deliverAll_inv No Nk (feed s) s hi (hclean s))
  rw [deliverAll_remaining] at h
  exact h

theorem round_remaining_lt (No Nk : Nat) (feed : St → List Delivery)
    (hclean : ∀ s, ∀ d ∈ feed s, d.kind = .bitmap → d.seg.extra = 0) (s : St) (hi : Inv No Nk s)
    (hn : Needed No Nk (s.deliverAll (feed s))) :
    (round feed s).remaining < s.remaining := by
  have h := apply_progress No Nk _ (deliverAll_inv No Nk (feed s) s hi (hclean s)) hn
  rw [deliverAll_remaining] at h
  exact h

/-- **State sync completes under honest service**: if in every round the peers deliver — among
anything else, in any order — the segment the desegmenter needs next, then after at most
`remaining` rounds `check_progress` reports completion (and it stays complete). -/
theorem honest_sync_completes (No Nk : Nat) (feed : St → List Delivery)
    (hclean : ∀ s, ∀ d ∈ feed s, d.kind = .bitmap → d.seg.extra = 0)
    (hserve : ∀ s, Inv No Nk s → s.remaining ≠ 0 → Needed No Nk (s.deliverAll (feed s))) :
    ∀ (n : Nat) (s : St), Inv No Nk s → s.remaining ≤ n → (rounds feed s n).checkProgress = true
  | 0, s, hi, hr => (checkProgress_iff No Nk s hi).mpr (Nat.le_zero.mp hr)
  | n + 1, s, hi, hr => by
    rw [rounds_succ]
    refine honest_sync_completes No Nk feed hclean hserve n _ (round_inv No Nk feed hclean s hi) ?_
    by_cases h0 : s.remaining = 0
    · exact Nat.le_trans (round_remaining_le No Nk feed hclean s hi) (by rw [h0]; exact Nat.zero_le n)
    · exact Nat.le_of_lt_succ
        (Nat.lt_of_lt_of_le (round_remaining_lt No Nk feed hclean s hi (hserve s hi h0)) hr)

/-! ## the request list for every `max_elements`, and the closed loop ask → answer → apply -/

/-- **After the bitmap phase, with `max_elements ≥ 3`, the request list contains the segment that
comes next in EACH of the three trees** (unless cached), in every regular state.  (Was an
assumption checked by the runs only.)  Why it holds although the output / rangeproof loops test
`last > local` and therefore skip a final segment that adds a single leaf: a tree whose next segment
is not taken by its own loop contributes nothing to the round-robin part (`wantTree_next`), so the
list has room when its "ensure" step runs and nothing is ever popped (`ensure_three`). -/
theorem request_contains_next_segment_of_every_tree (No Nk : Nat) (s : St) (hi : Inv No Nk s)
    (hbc : s.bitmapCache = true) (max : Nat) (hm : 3 ≤ max) :
    (∀ k, Pos true s.hO No s.out.leaves (some k) → hasId s.out.cache { height := s.hO, idx := k } = false →
      (Kind.output, ({ height := s.hO, idx := k } : Ident)) ∈ s.desired max) ∧
    (∀ k, Pos true s.hR No s.rp.leaves (some k) → hasId s.rp.cache { height := s.hR, idx := k } = false →
      (Kind.rangeproof, ({ height := s.hR, idx := k } : Ident)) ∈ s.desired max) ∧
    (∀ k, Pos true s.hK Nk s.ker.leaves (some k) → hasId s.ker.cache { height := s.hK, idx := k } = false →
      (Kind.kernel, ({ height := s.hK, idx := k } : Ident)) ∈ s.desired max) :=
  desired_all_next No Nk s hi hbc max hm

theorem request_contains_next_output_segment (No Nk : Nat) (s : St) (hi : Inv No Nk s)
    (hbc : s.bitmapCache = true) (max : Nat) (hm : 3 ≤ max) (k : Nat)
    (p : Pos true s.hO No s.out.leaves (some k))
    (hnc : hasId s.out.cache { height := s.hO, idx := k } = false) :
    (Kind.output, ({ height := s.hO, idx := k } : Ident)) ∈ s.desired max :=
  (desired_all_next No Nk s hi hbc max hm).1 k p hnc

theorem request_contains_next_rangeproof_segment (No Nk : Nat) (s : St) (hi : Inv No Nk s)
    (hbc : s.bitmapCache = true) (max : Nat) (hm : 3 ≤ max) (k : Nat)
    (p : Pos true s.hR No s.rp.leaves (some k))
    (hnc : hasId s.rp.cache { height := s.hR, idx := k } = false) :
    (Kind.rangeproof, ({ height := s.hR, idx := k } : Ident)) ∈ s.desired max :=
  (desired_all_next No Nk s hi hbc max hm).2.1 k p hnc

/-- the case the loops miss and the "ensure" step saves: 3 outputs at height 1, local MMR of 2
leaves — the next (final) segment adds one leaf, `last = local`; the list still names it -/
def exLateOutput : St :=
  { (St.new 9 1 1 1 (mmr 3) (mmr 3) 1 1) with bitmapCache := true, bm := ⟨mmr 1, [], []⟩, out := ⟨mmr 2, [], []⟩ }

example : exLateOutput.desired 3 =
    [(Kind.rangeproof, ⟨1, 0⟩), (Kind.kernel, ⟨1, 0⟩), (Kind.output, ⟨1, 1⟩)] := by decide +kernel

/-- **`max_elements ≤ 2`: the request list is exactly what the three "ensure" steps build from the
empty list** (the quota `max_elements / 3` is 0), in EVERY state after the bitmap phase -/
theorem small_request_is_ensure_steps (s : St) (hbc : s.bitmapCache = true) (max : Nat) (hm : max ≤ 2) :
    s.desired max =
      ensureNext max (ensureNext max (ensureNext max [] .output s.hO (s.nextRequired .output) s.out.cache)
        .rangeproof s.hR (s.nextRequired .rangeproof) s.rp.cache) .kernel s.hK (s.nextRequired .kernel) s.ker.cache :=
  desired_small s hbc max hm

/-- … hence, while all three trees wait for a segment that is not cached, `max_elements = 2` never
asks for the rangeproof segment and `max_elements ≤ 1` asks for the kernel segment only: a caller
that passes fewer than 3 starves a tree (recorded observation; the node passes 15) -/
theorem small_request_starves (s : St) (hbc : s.bitmapCache = true) (o r k : Nat)
    (ho : s.nextRequired .output = some o) (hr : s.nextRequired .rangeproof = some r)
    (hk : s.nextRequired .kernel = some k)
    (co : hasId s.out.cache { height := s.hO, idx := o } = false)
    (cr : hasId s.rp.cache { height := s.hR, idx := r } = false)
    (ck : hasId s.ker.cache { height := s.hK, idx := k } = false) :
    s.desired 2 = [(Kind.output, ⟨s.hO, o⟩), (Kind.kernel, ⟨s.hK, k⟩)] ∧
    s.desired 1 = [(Kind.kernel, ⟨s.hK, k⟩)] ∧ s.desired 0 = [(Kind.kernel, ⟨s.hK, k⟩)] :=
  desired_small_all s hbc o r k ho hr hk co cr ck

/-- the hypotheses are satisfiable (the state the `probe` run reports: 3 outputs, heights 1) -/
def exAllWaiting : St :=
  { (St.new 0 1 1 1 (mmr 3) (mmr 3) 1 1) with bitmapCache := true, bm := ⟨mmr 1, [], []⟩ }

example : exAllWaiting.desired 2 = [(Kind.output, ⟨1, 0⟩), (Kind.kernel, ⟨1, 0⟩)] ∧
    exAllWaiting.desired 1 = [(Kind.kernel, ⟨1, 0⟩)] ∧
    exAllWaiting.desired 3 = [(Kind.output, ⟨1, 0⟩), (Kind.rangeproof, ⟨1, 0⟩), (Kind.kernel, ⟨1, 0⟩)] := by
  decide +kernel

/-- **Serving the request list gives the machine what it needs next** (`Needed`, the hypothesis of
`apply_makes_progress`): in every regular incomplete state, for `max_elements ≥ 3`, whatever else
is delivered in whatever order -/
theorem served_requests_give_needed (No Nk : Nat) (s : St) (hi : Inv No Nk s) (hr : s.remaining ≠ 0)
    (max : Nat) (hm : 3 ≤ max) (ds : List Delivery) (ha : Answers (s.desired max) ds) :
    Needed No Nk (s.deliverAll ds) :=
  served_is_needed No Nk s hi hr max hm ds ha

/-- **The closed loop completes**: a node that in every round asks with
`next_desired_segments(max_elements)`, `max_elements ≥ 3`, and whose peers answer every identifier of
that list with a valid segment (plus anything else, in any order, duplicates, refused segments)
reports completion after at most `remaining` rounds.  No assumption about WHICH segments arrive is
left: `honest_sync_completes`' hypothesis is discharged by the request list itself. -/
theorem answered_requests_complete (No Nk : Nat) (max : Nat) (hm : 3 ≤ max) (feed : St → List Delivery)
    (hclean : ∀ s, ∀ d ∈ feed s, d.kind = .bitmap → d.seg.extra = 0)
    (hans : ∀ s, Inv No Nk s → Answers (s.desired max) (feed s)) :
    ∀ (n : Nat) (s : St), Inv No Nk s → s.remaining ≤ n → (rounds feed s n).checkProgress = true :=
  honest_sync_completes No Nk feed hclean
    (fun s hi hr => served_is_needed No Nk s hi hr max hm (feed s) (hans s hi))

/-- the honest feed: one valid segment per requested identifier -/
def honestFeed (max : Nat) (s : St) : List Delivery :=
  (s.desired max).map fun x => ⟨x.1, ⟨x.2, true, 0, 0⟩⟩

/-- … which satisfies the hypotheses of `answered_requests_complete` for every archive header: the
shipped request size 15 brings every fresh desegmenter to completion -/
theorem honest_feed_completes (hB hO hR hK No Nk gOut gKer : Nat) (hb : hB ≤ 61) (ho1 : 1 ≤ hO) (ho : hO ≤ 61)
    (hr1 : 1 ≤ hR) (hr : hR ≤ 61) (hk1 : 1 ≤ hK) (hk : hK ≤ 61) (hNo : 1 ≤ No) (hNoS : No < 2 ^ 62)
    (hNk : 2 ≤ Nk) (hNkS : Nk < 2 ^ 62) (hgo : gOut ≤ 1) (hgk : gKer ≤ 1) :
    ∃ n, (rounds (honestFeed 15) (St.new hB hO hR hK (mmr No) (mmr Nk) gOut gKer) n).checkProgress = true := by
  refine ⟨_, answered_requests_complete No Nk 15 (by omega) (honestFeed 15) ?_ ?_ _ _
    (new_inv hB hO hR hK No Nk gOut gKer hb ho1 ho hr1 hr hk1 hk hNo hNoS hNk hNkS hgo hgk) (Nat.le_refl _)⟩
  · intro s d hd _
    unfold honestFeed at hd
    obtain ⟨x, _, hx⟩ := List.mem_map.mp hd
    rw [← hx]
  · intro s _ x hx
    exact ⟨⟨x.1, ⟨x.2, true, 0, 0⟩⟩, List.mem_map.mpr ⟨x, hx, rfl⟩, rfl, rfl, rfl⟩

end GV.Props.C16Deseg
