import GrinVerif.Props.C07
import GrinVerif.Lemmas.BitmapAsBitmap
/-! # C07 — the leaf iterators of the Vec backend with pruned leaves (`Model/PmmrViews.lean`,
`VecBackend::leaf_pos_iter` / `leaf_idx_iter`): full characterisation. -/
namespace GV.Props.C07Views
open GV GV.Pmmr

variable {α H : Type}

/-- on an ascending list, `skip_while(x < c)` keeps exactly the elements `≥ c` -/
theorem dropWhile_lt_sorted (c : Nat) : ∀ (l : List Nat), l.Pairwise (· < ·) →
    l.dropWhile (fun x => decide (x < c)) = l.filter (fun x => !decide (x < c))
  | [], _ => rfl
  | a :: l, hs => by
    rw [List.pairwise_cons] at hs
    by_cases h : a < c
    · simp only [List.dropWhile_cons, List.filter_cons, h, decide_true, Bool.not_true, if_true]
      simpa using dropWhile_lt_sorted c l hs.2
    · have hall : l.filter (fun x => !decide (x < c)) = l := by
        rw [List.filter_eq_self]
        intro x hx
        have := hs.1 x hx
        simp only [Bool.not_eq_true', decide_eq_false_iff_not]
        omega
      simp only [List.dropWhile_cons, List.filter_cons, h, decide_false, Bool.not_false, if_true, hall]
      simp

/-- `leaf_pos_iter()` of a backend holding the MMR of `n` leaves: the positions of the leaves that
are not in the remove log, ascending -/
theorem leaf_pos_iter_pruned (b : DBackend α H) (n : Nat) (hlen : b.hashes.length = mmr n) :
    vLeafPosIter b = ((List.range n).filter fun i => !b.removed.contains (mmr i)).map mmr := by
  unfold vLeafPosIter
  rw [hlen]
  have h1 : (List.range (mmr n)).filter (fun x => isLeaf x && !b.removed.contains x) =
      ((List.range (mmr n)).filter isLeaf).filter (fun x => !b.removed.contains x) := by
    rw [List.filter_filter]
    congr 1
    funext x
    exact Bool.and_comm _ _
  rw [h1]
  have h2 := GV.Bitmap.leafPosIter_mmr n
  unfold GV.Bitmap.leafPosIter at h2
  rw [h2, List.filter_map]
  rfl

/-- **`leaf_idx_iter(from)` over a backend with pruned leaves yields exactly the insertion indices
`≥ from` of the leaves that are not pruned, ascending** — each the index of its own position (so
`insertion_to_pmmr_index(idx)` is a position `leaf_pos_iter` yields), whatever was pruned before or
after the first leaf yielded -/
theorem leaf_idx_iter_pruned (b : DBackend α H) (n from_ : Nat) (hlen : b.hashes.length = mmr n) :
    vLeafIdxIter b from_ =
      (List.range n).filter fun i => decide (from_ ≤ i) && !b.removed.contains (insertionToPmmrIndex i) := by
  unfold vLeafIdxIter
  rw [leaf_pos_iter_pruned b n hlen]
  have hs : (((List.range n).filter fun i => !b.removed.contains (mmr i)).map mmr).Pairwise (· < ·) := by
    rw [List.pairwise_map]
    exact (List.pairwise_lt_range.filter _).imp (fun h => Co.mmr_lt_mmr h)
  rw [dropWhile_lt_sorted _ _ hs, List.filter_map, List.map_map, List.filter_filter]
  have hid : ∀ i, ((fun x => nLeaves (x + 1) - 1) ∘ mmr) i = i := by
    intro i
    show nLeaves (mmr i + 1) - 1 = i
    rw [Nat.add_comm, GV.Props.C07.nLeaves_succ_leaf]
    omega
  rw [List.map_congr_left (fun i _ => hid i), List.map_id']
  apply List.filter_congr
  intro i _
  have e : (!decide (mmr i < insertionToPmmrIndex from_)) = decide (from_ ≤ i) := by
    unfold insertionToPmmrIndex
    by_cases h : from_ ≤ i
    · have := Co.mmr_le_mmr h
      simp [h]; omega
    · have := Co.mmr_lt_mmr (Nat.lt_of_not_le h)
      simp [h]; omega
  simp only [Function.comp]
  rw [e]
  rfl

/-- non-vacuity (the shape of a missed seeded change): 11 leaves, insertion indices 2, 5, 6 pruned,
iterating from 0, 3 and 5 -/
example :
    let b : DBackend Nat Nat := { hashes := List.replicate (mmr 11) 0, data := [], removed := [mmr 2, mmr 5, mmr 6] }
    b.hashes.length = mmr 11 ∧
    vLeafIdxIter b 0 = [0, 1, 3, 4, 7, 8, 9, 10] ∧ vLeafIdxIter b 3 = [3, 4, 7, 8, 9, 10] ∧
    vLeafIdxIter b 5 = [7, 8, 9, 10] := by
  decide +kernel

end GV.Props.C07Views
