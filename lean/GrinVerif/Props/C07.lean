import GrinVerif.Lemmas.PmmrArith
import GrinVerif.Lemmas.PmmrSound
import GrinVerif.Lemmas.PmmrHandle
import GrinVerif.Lemmas.PmmrValidate
import GrinVerif.Model.PmmrViews
import GrinVerif.Spec.Mmr
/-! # C07 — MMR positions, roots and Merkle proofs follow the MMR definition

Property theorems only (helper lemmas live in `Lemmas/Pmmr*.lean`, the defining construction in
`Spec/Mmr.lean`). Coordinates: node `(n, h)` is the node of height `h` completed by the insertion
of leaf `n` (0-based; `h ≤ trailingOnes n`); its post-order position is `mmr n + h` with
`mmr n = 2n - popcount n`.  It covers leaves `n + 1 - 2^h … n`; it is a right child iff
`h < trailingOnes n` (bit `h` of `n` set).

Contents: (1) position arithmetic in coordinates, (2) `push`/`root`/`peaks`/`validate` against the
defining construction, (3) Merkle proofs: completeness, soundness for collision-free hashes and its
corollaries, and the theorem documenting that the advisory `mmr_size` field is not bound. -/
namespace GV.Props.C07
open GV GV.Pmmr GV.Pmmr.Co

/-- The position arithmetic of `peak_map_height` recovers, for every node, the number of leaves
before it and its height. Holds for all `n`, no size bound. -/
theorem peakMapHeight_coord (n h : Nat) (hh : h ≤ trailingOnes n) :
    peakMapHeight (mmr n + h) = (n, h) := by
  unfold peakMapHeight
  by_cases hz : mmr n + h = 0
  · have hn : n = 0 := by have := le_mmr n; omega
    subst hn
    have : h = 0 := by simpa [mmr, popcount] using hz
    subst this
    simp [mmr, popcount]
  · rw [if_neg hz]
    have hlt : n < 2^(bitLen (mmr n + h)) := by
      have := lt_two_pow_bitLen (mmr n + h)
      have := le_mmr n
      omega
    have := greedy_spec (bitLen (mmr n + h)) n 0 h hlt (by simpa using hh)
    simpa using this

/-- Every position is the position of exactly one node `(n, h)`: existence. -/
theorem coord_surjective (pos : Nat) : ∃ n h, h ≤ trailingOnes n ∧ pos = mmr n + h := by
  induction pos with
  | zero => exact ⟨0, 0, by simp [trailingOnes], by simp [mmr, popcount]⟩
  | succ p ih =>
    obtain ⟨n, h, hh, hp⟩ := ih
    by_cases hlt : h < trailingOnes n
    · exact ⟨n, h+1, by omega, by omega⟩
    · refine ⟨n+1, 0, by omega, ?_⟩
      rw [mmr_succ]; omega

/-- … and uniqueness (the coordinates are a bijection between positions and nodes). -/
theorem coord_injective (n h n' h' : Nat) (hh : h ≤ trailingOnes n) (hh' : h' ≤ trailingOnes n')
    (e : mmr n + h = mmr n' + h') : n = n' ∧ h = h' := by
  have a := peakMapHeight_coord n h hh
  have b := peakMapHeight_coord n' h' hh'
  rw [e] at a
  rw [a] at b
  exact ⟨by injection b, by injection b⟩

/-- `bintree_postorder_height` is the height coordinate. -/
theorem height_coord (n h : Nat) (hh : h ≤ trailingOnes n) : height (mmr n + h) = h := by
  simp [height, peakMapHeight_coord n h hh]

/-- Leaf index → position → leaf index is the identity, for every leaf index. -/
theorem leaf_index_roundtrip (n : Nat) :
    pmmrLeafToInsertionIndex (insertionToPmmrIndex n) = some n := by
  have := peakMapHeight_coord n 0 (Nat.zero_le _)
  simp only [Nat.add_zero] at this
  simp [pmmrLeafToInsertionIndex, insertionToPmmrIndex, this]

/-- A position is a leaf exactly when it is `insertion_to_pmmr_index` of some leaf index. -/
theorem isLeaf_iff (pos : Nat) : isLeaf pos = true ↔ ∃ n, pos = insertionToPmmrIndex n := by
  constructor
  · intro hl
    obtain ⟨n, h, hh, hp⟩ := coord_surjective pos
    have := height_coord n h hh
    rw [← hp] at this
    simp [isLeaf] at hl
    exact ⟨n, by rw [hp]; simp [insertionToPmmrIndex]; omega⟩
  · rintro ⟨n, rfl⟩
    have := height_coord n 0 (Nat.zero_le _)
    simp only [Nat.add_zero] at this
    simp [isLeaf, insertionToPmmrIndex, this]

/-- Leaf positions are strictly increasing in the leaf index. -/
theorem insertion_index_strictMono (n : Nat) : insertionToPmmrIndex n < insertionToPmmrIndex (n+1) := by
  simp only [insertionToPmmrIndex]; rw [mmr_succ]; omega

/-- `n_leaves` of the size reached after `n` insertions is `n`. -/
theorem nLeaves_at_leaf_boundary (n : Nat) : nLeaves (mmr n) = n := by
  have := peakMapHeight_coord n 0 (Nat.zero_le _)
  simp only [Nat.add_zero] at this
  simp [nLeaves, this]

/-- `n_leaves` of a size that stops inside the parents of leaf `n` counts that leaf too. -/
theorem nLeaves_mid (n h : Nat) (hh : h ≤ trailingOnes n) (hpos : 0 < h) : nLeaves (mmr n + h) = n + 1 := by
  simp [nLeaves, peakMapHeight_coord n h hh]; omega

/-- `round_up_to_leaf_pos` is the identity on leaves and the next leaf position otherwise. -/
theorem roundUp_spec (n h : Nat) (hh : h ≤ trailingOnes n) :
    roundUpToLeafPos (mmr n + h) = if h = 0 then mmr n else mmr (n+1) := by
  simp [roundUpToLeafPos, insertionToPmmrIndex, peakMapHeight_coord n h hh]
  split <;> rfl

/-- … hence it returns the least leaf position ≥ pos. -/
theorem roundUp_ge (pos : Nat) : pos ≤ roundUpToLeafPos pos ∧ isLeaf (roundUpToLeafPos pos) = true := by
  obtain ⟨n, h, hh, rfl⟩ := coord_surjective pos
  rw [roundUp_spec n h hh]
  split
  · subst_vars
    exact ⟨by omega, (isLeaf_iff _).2 ⟨n, rfl⟩⟩
  · exact ⟨by rw [mmr_succ]; omega, (isLeaf_iff _).2 ⟨n+1, rfl⟩⟩

-- non-vacuity: leaf 4 of a 7-leaf MMR sits at position 7, node (3,2) at position 6
example : mmr 4 = 7 ∧ peakMapHeight 7 = (4, 0) ∧ peakMapHeight 6 = (3, 2) ∧ trailingOnes 3 = 2 := by
  have h4 : mmr 4 = 7 := by simp [mmr, popcount]
  have h3 : mmr 3 = 4 := by simp [mmr, popcount]
  have t3 : trailingOnes 3 = 2 := by simp [trailingOnes]
  refine ⟨h4, ?_, ?_, t3⟩
  · have := peakMapHeight_coord 4 0 (Nat.zero_le _); rwa [h4] at this
  · have := peakMapHeight_coord 3 2 (by omega); rwa [h3] at this


/-! ## 1. Remaining position arithmetic in coordinates -/

/-- `family` of a right child `(n, h)` (`h < trailingOnes n`, i.e. bit `h` of `n` set): the parent is
`(n, h+1)` at `pos + 1`, the sibling is `(n - 2^h, h)` at `pos + 1 - 2·2^h`; both are valid nodes. -/
theorem family_coord_right (n h : Nat) (hlt : h < trailingOnes n) :
    family (mmr n + h) = (mmr n + (h+1), mmr (n - 2^h) + h)
    ∧ family (mmr n + h) = (mmr n + h + 1, mmr n + h + 1 - 2 * 2^h)
    ∧ h + 1 ≤ trailingOnes n ∧ h ≤ trailingOnes (n - 2^h) ∧ 2^h ≤ n := by
  have hb : bitSet n h = true := by rw [bitSet_coord (Nat.le_of_lt hlt)]; simpa using hlt
  obtain ⟨h1, h2, h3, _⟩ := left_sibling_coord hlt
  have hf : family (mmr n + h) = (mmr n + h + 1, mmr n + h + 1 - 2 * 2^h) := by
    simp [family, peakMapHeight_coord n h (Nat.le_of_lt hlt), hb]
  refine ⟨?_, hf, hlt, h1, h2⟩
  rw [hf]
  have : mmr n + h + 1 - 2 * 2^h = mmr (n - 2^h) + h := by omega
  rw [this]; rfl

/-- `family` of a left child `(n, h)` (`h = trailingOnes n`, bit `h` of `n` clear): the parent is
`(n + 2^h, h+1)` at `pos + 2·2^h`, the sibling `(n + 2^h, h)` just before it. -/
theorem family_coord_left (n h : Nat) (he : h = trailingOnes n) :
    family (mmr n + h) = (mmr (n + 2^h) + (h+1), mmr (n + 2^h) + h)
    ∧ family (mmr n + h) = (mmr n + h + 2 * 2^h, mmr n + h + 2 * 2^h - 1)
    ∧ h + 1 ≤ trailingOnes (n + 2^h) := by
  have hb : bitSet n h = false := by rw [bitSet_coord (Nat.le_of_eq he)]; simp; omega
  obtain ⟨h1, h2⟩ := right_sibling_coord he
  have hf : family (mmr n + h) = (mmr n + h + 2 * 2^h, mmr n + h + 2 * 2^h - 1) := by
    simp [family, peakMapHeight_coord n h (Nat.le_of_eq he), hb]
  refine ⟨?_, hf, h1⟩
  rw [hf]
  have hpos := two_pow_pos h
  have e1 : mmr n + h + 2 * 2^h = mmr (n + 2^h) + (h+1) := by omega
  have e2 : mmr n + h + 2 * 2^h - 1 = mmr (n + 2^h) + h := by omega
  rw [e2, e1]

/-- both cases of `family` in one statement -/
theorem family_coord (n h : Nat) (hh : h ≤ trailingOnes n) :
    family (mmr n + h) =
      if h < trailingOnes n then (mmr n + (h+1), mmr (n - 2^h) + h)
      else (mmr (n + 2^h) + (h+1), mmr (n + 2^h) + h) := by
  split
  · rename_i hlt; exact (family_coord_right n h hlt).1
  · exact (family_coord_left n h (by omega)).1

/-- the test used by `family`, `is_left_sibling` and `push` (bit `h` of the peak map) asks whether
the node is a right child -/
theorem bitSet_iff_right_child (n h : Nat) (hh : h ≤ trailingOnes n) :
    bitSet n h = true ↔ h < trailingOnes n := by
  rw [bitSet_coord hh]; simp

/-- `is_left_sibling`: a node is a left sibling iff its insertion completes nothing higher -/
theorem isLeftSibling_coord (n h : Nat) (hh : h ≤ trailingOnes n) :
    isLeftSibling (mmr n + h) = decide (h = trailingOnes n) := by
  simp only [isLeftSibling, peakMapHeight_coord n h hh, bitSet_coord hh]
  by_cases hlt : h < trailingOnes n
  · simp [hlt]; omega
  · simp [hlt]; omega

/-- the sibling of a left sibling is a right sibling and vice versa -/
theorem isLeftSibling_sibling (pos : Nat) :
    isLeftSibling (family pos).2 = !isLeftSibling pos := by
  obtain ⟨n, h, hh, rfl⟩ := coord_surjective pos
  by_cases hlt : h < trailingOnes n
  · obtain ⟨hf, _, _, hs, _⟩ := family_coord_right n h hlt
    obtain ⟨_, _, _, ht⟩ := left_sibling_coord hlt
    rw [hf, isLeftSibling_coord n h hh, isLeftSibling_coord _ h hs]
    simp [ht]; omega
  · have he : h = trailingOnes n := by omega
    obtain ⟨hf, _, hs⟩ := family_coord_left n h he
    rw [hf, isLeftSibling_coord n h hh, isLeftSibling_coord _ h (by omega)]
    simp [← he]; omega

/-- `bintree_rightmost`: the rightmost leaf below `(n, h)` is leaf `n` -/
theorem bintreeRightmost_coord (n h : Nat) (hh : h ≤ trailingOnes n) :
    bintreeRightmost (mmr n + h) = mmr n := by
  simp [bintreeRightmost, height_coord n h hh]

/-- `bintree_leftmost`: the leftmost leaf below `(n, h)` is leaf `n + 1 - 2^h` -/
theorem bintreeLeftmost_coord (n h : Nat) (hh : h ≤ trailingOnes n) :
    bintreeLeftmost (mmr n + h) = mmr (n + 1 - 2^h) ∧ 2^h ≤ n + 1
    ∧ bintreeLeftmost (mmr n + h) = mmr n + h + 2 - 2 * 2^h := by
  obtain ⟨h1, h2⟩ := leftmost_coord hh
  have e : bintreeLeftmost (mmr n + h) = mmr n + h + 2 - 2 * 2^h := by
    simp only [bintreeLeftmost, height_coord n h hh]
  exact ⟨by rw [e]; omega, h1, e⟩

/-- `bintree_range`: the subtree of `(n, h)` occupies exactly the positions from the first hash
emitted for leaf `n + 1 - 2^h` up to the node itself: `2·2^h - 1` consecutive positions. -/
theorem bintreeRange_coord (n h : Nat) (hh : h ≤ trailingOnes n) :
    bintreeRange (mmr n + h) = (mmr (n + 1 - 2^h), mmr n + h + 1)
    ∧ (mmr n + h + 1) - mmr (n + 1 - 2^h) = 2 * 2^h - 1 := by
  obtain ⟨h1, h2⟩ := leftmost_coord hh
  have hpos := two_pow_pos h
  simp only [bintreeRange, height_coord n h hh]
  refine ⟨?_, by omega⟩
  congr 1; omega

/-- `bintree_leaf_pos_iter`: the leaves below `(n, h)` are the `2^h` leaves `n + 1 - 2^h … n` -/
theorem bintreeLeafPosIter_coord (n h : Nat) (hh : h ≤ trailingOnes n) :
    bintreeLeafPosIter (mmr n + h) = (List.range (2^h)).map fun i => mmr (n + 1 - 2^h + i) := by
  obtain ⟨h1, h2, _⟩ := bintreeLeftmost_coord n h hh
  have l1 := leaf_index_roundtrip (n + 1 - 2^h)
  have l2 := leaf_index_roundtrip n
  simp only [insertionToPmmrIndex] at l1 l2
  simp only [bintreeLeafPosIter, h1, bintreeRightmost_coord n h hh, l1, l2, insertionToPmmrIndex]
  have : n + 1 - (n + 1 - 2^h) = 2^h := by omega
  rw [this]

/-- `peaks` of a valid size: the positions of the perfect trees of the binary decomposition of `n`,
largest first (`forest n` lists them as (last leaf, height) without bit tricks). -/
theorem peaks_coord (n : Nat) : peaks (mmr n) = (forest n).map fun c => mmr c.1 + c.2 :=
  peaks_forest n

/-- … which is one tree per set bit of `n`, highest bit first: the tree for bit `h` has height `h`
and ends with the last of the leaves counted by the bits `≥ h` of `n`. So `peaks (mmr n)` is the list
of the positions `mmr m + h` for the set bits `h` of `n` from high to low, `m = ⌊n / 2^(h+1)⌋·2^(h+1) + 2^h - 1`. -/
theorem peaks_bits (n : Nat) :
    peaks (mmr n) = ((List.range n).reverse.filter (bitSet n)).map
      (fun h => mmr (n / 2^(h+1) * 2^(h+1) + 2^h - 1) + h) := by
  rw [peaks_forest, forest_bits, List.map_map]
  rfl

/-- every listed peak `(m, h)` is a node of the MMR, a left child whose right sibling would need
leaves beyond `n`; the list is ordered by position -/
theorem peaks_are_peaks (n : Nat) :
    (∀ c ∈ forest n, c.2 = trailingOnes c.1 ∧ c.1 < n ∧ n ≤ c.1 + 2^c.2)
    ∧ (peaks (mmr n)).Pairwise (· < ·) ∧ ∀ p ∈ peaks (mmr n), p < mmr n := by
  refine ⟨fun c hc => forest_mem hc, ?_, fun p hp => peaks_lt_size hp⟩
  rw [peaks_forest]; exact forest_pos_pairwise n

/-- every leaf lies below one of the peaks, namely below its own ancestor `up i k` (leaf `i` with
the low `k` bits set) -/
theorem peaks_cover (n i : Nat) (hi : i < n) : ∃ k, (up i k, k) ∈ forest n := forest_cover hi

/-- `peaks` of a size that is not reachable by whole insertions is empty … -/
theorem peaks_invalid_size (n h : Nat) (hh : h ≤ trailingOnes n) (hpos : 0 < h) :
    peaks (mmr n + h) = [] := peaks_invalid n h hh hpos

/-- … and that is the only way to get no peaks, apart from the empty MMR (`peaks 0 = []` although
`0 = mmr 0` is a valid size). -/
theorem peaks_eq_nil_iff (s : Nat) : peaks s = [] ↔ s = 0 ∨ ¬ ∃ n, s = mmr n := by
  obtain ⟨n, h, hh, rfl⟩ := coord_surjective s
  by_cases h0 : h = 0
  · subst h0
    simp only [Nat.add_zero]
    rw [peaks_forest]
    constructor
    · intro hnil
      left
      rcases Nat.eq_zero_or_pos n with rfl | hpos
      · exact mmr_zero
      · exact absurd (by simpa using hnil) (forest_ne_nil hpos)
    · rintro (hz | hne)
      · have : n = 0 := by have := le_mmr n; omega
        subst this; rfl
      · exact absurd ⟨n, rfl⟩ hne
  · constructor
    · intro _
      right
      rintro ⟨m, hm⟩
      have := (coord_injective n h m 0 hh (Nat.zero_le _) (by omega)).2
      omega
    · intro _; exact peaks_invalid n h hh (by omega)

/-- `family_branch` from any node `(n, h)` inside any `size`: the (parent, sibling) positions of the
ancestors `(up n j, j)`, `j = h, h+1, …`, for as long as the parent is inside `size`
(`size + 1` levels are always enough). -/
theorem familyBranch_coord (n h size : Nat) (hh : h ≤ trailingOnes n) :
    familyBranch (mmr n + h) size
      = ((List.range' h (size + 1)).map fun j =>
          (mmr (up n (j+1)) + (j+1), mmr (sibCo n j).1 + (sibCo n j).2)).takeWhile (fun x => x.1 < size) := by
  have := familyBranchLoop_general n size (size + 1) h
  simp only [cpos, up_of_valid hh] at this
  simp only [familyBranch, peakMapHeight_coord n h hh]
  exact this

/-- the ancestors and siblings named by `familyBranch_coord` are the ones `family` walks through -/
theorem family_ancestor (n j : Nat) :
    family (mmr (up n j) + j) = (mmr (up n (j+1)) + (j+1), mmr (sibCo n j).1 + (sibCo n j).2)
    ∧ j ≤ trailingOnes (up n j) ∧ (sibCo n j).2 ≤ trailingOnes (sibCo n j).1 :=
  ⟨family_up n j, up_valid n j, sibCo_valid n j⟩

-- non-vacuity: in the 7-leaf MMR (size 11) node (3,2) at position 6 is a left child with parent
-- (7,3) at 14 and sibling (7,2) at 13; node (5,1) at 9 has the leaves 4,5 at positions 7,8
example : family 6 = (14, 13) ∧ isLeftSibling 6 = true ∧ bintreeRange 9 = (7, 10)
    ∧ peaks 11 = [6, 9, 10] := by
  have m3 : mmr 3 = 4 := by simp [mmr, popcount]
  have m4 : mmr 4 = 7 := by simp [mmr, popcount]
  have m5 : mmr 5 = 8 := by simp [mmr, popcount]
  have m6 : mmr 6 = 10 := by simp [mmr, popcount]
  have m7 : mmr 7 = 11 := by simp [mmr, popcount]
  have t3 : trailingOnes 3 = 2 := by simp [trailingOnes]
  have t5 : trailingOnes 5 = 1 := by simp [trailingOnes]
  refine ⟨?_, ?_, ?_, ?_⟩
  · have := (family_coord_left 3 2 t3.symm).2.1; simpa [m3] using this
  · have := isLeftSibling_coord 3 2 (by omega); simpa [m3, t3] using this
  · have := (bintreeRange_coord 5 1 (by omega)).1; simpa [m4, m5] using this
  · have := peaks_coord 7
    rw [m7] at this
    rw [this]
    simp [forest, forestFrom, m3, m5, m6]

/-! ## 2. `push`, `root`, `peaks`, `validate` against the defining construction -/

section spec
variable {α H : Type}

/-- **push_root.** For every list of elements (up to the `2^65` the model's loop fuel covers; the
code's `u64` leaf count is smaller), pushing them one by one onto an empty Vec backend never fails
and produces exactly the hashes of the defining construction, position by position; the size is
`mmr (number of leaves)`; the peak positions, the peak hashes and the root are those of the
defining construction; and `validate` accepts the result. -/
theorem push_root [DecidableEq H] (hf : HashFn α H) (xs : List α) (hb : xs.length ≤ 2^65) :
    pushAll hf [] xs = some (Spec.Mmr.hashes hf xs)
    ∧ (Spec.Mmr.hashes hf xs).length = mmr xs.length
    ∧ Spec.Mmr.size hf xs = mmr xs.length
    ∧ peaks (mmr xs.length) = Spec.Mmr.peakPositions hf xs
    ∧ peakHashes (Spec.Mmr.hashes hf xs) = Spec.Mmr.peakHashes hf xs
    ∧ root hf (Spec.Mmr.hashes hf xs) = (match Spec.Mmr.root hf xs with
        | none => .zero
        | some r => .ok r)
    ∧ validate hf (Spec.Mmr.hashes hf xs) = true := by
  by_cases hne : xs = []
  · subst hne
    refine ⟨rfl, ?_, ?_, ?_, rfl, rfl, rfl⟩
    · simp [Spec.Mmr.hashes, Spec.Mmr.build, mmr_zero]
    · simp [Spec.Mmr.size, Spec.Mmr.build, mmr_zero]
    · simp [Spec.Mmr.peakPositions, Spec.Mmr.build, mmr_zero, peaks, peakSizesHeight, scanPeaks]
  · obtain ⟨f, hxs, _⟩ := list_as_fn xs hne
    generalize xs.length = N at hxs hb
    subst hxs
    rw [spec_hashes, spec_size, spec_peakPositions, spec_peakHashes]
    exact ⟨pushAll_range hf f N hb, allHashes_length hf f N, rfl, peaks_forest N,
      peakHashes_allHashes hf f N, root_allHashes hf f N, validate_allHashes hf f N⟩

/-- the hash the defining construction puts at a leaf position: position and element -/
theorem hash_at_leaf (hf : HashFn α H) (xs : List α) (n : Nat) (hn : n < xs.length) :
    (Spec.Mmr.hashes hf xs)[mmr n]? = some (hf.leaf (mmr n) xs[n]) := by
  have hne : xs ≠ [] := by intro h; subst h; simp at hn
  obtain ⟨f, hxs, hfi⟩ := list_as_fn xs hne
  have h1 : Spec.Mmr.hashes hf xs = allHashes hf f xs.length := by
    conv => lhs; rw [hxs]
    exact spec_hashes hf f xs.length
  have := allHashes_getElem? hf f xs.length n 0 hn (Nat.zero_le _)
  rw [h1, ← hfi n hn]
  simpa [nodeHash] using this

/-- the hash at an inner node `(n, h+1)`: its position and the hashes of its two children, which are
the nodes `(n - 2^h, h)` (left) and `(n, h)` (right) — the positions `family` assigns to them -/
theorem hash_at_parent (hf : HashFn α H) (xs : List α) (n h : Nat) (hn : n < xs.length)
    (hh : h + 1 ≤ trailingOnes n) :
    ∃ l r, (Spec.Mmr.hashes hf xs)[mmr (n - 2^h) + h]? = some l
      ∧ (Spec.Mmr.hashes hf xs)[mmr n + h]? = some r
      ∧ (Spec.Mmr.hashes hf xs)[mmr n + (h+1)]? = some (hf.node (mmr n + (h+1)) l r)
      ∧ (family (mmr (n - 2^h) + h)).1 = mmr n + (h+1) ∧ (family (mmr n + h)).1 = mmr n + (h+1) := by
  have hne : xs ≠ [] := by intro h; subst h; simp at hn
  obtain ⟨f, hxs, _⟩ := list_as_fn xs hne
  have h1 : Spec.Mmr.hashes hf xs = allHashes hf f xs.length := by
    conv => lhs; rw [hxs]
    exact spec_hashes hf f xs.length
  obtain ⟨hs1, hs2, hs3, hs4⟩ := left_sibling_coord (show h < trailingOnes n from hh)
  have hpos := two_pow_pos h
  refine ⟨nodeHash hf f (n - 2^h) h, nodeHash hf f n h, ?_, ?_, ?_, ?_, ?_⟩
  · rw [h1]; exact allHashes_getElem? hf f _ _ _ (by omega) hs1
  · rw [h1]; exact allHashes_getElem? hf f _ _ _ hn (by omega)
  · rw [h1]; exact allHashes_getElem? hf f _ _ _ hn hh
  · have := (family_coord_left (n - 2^h) h hs4.symm).1
    rw [this]
    have : n - 2^h + 2^h = n := by omega
    simp only [this]
  · rw [(family_coord_right n h hh).1]

/-- the root of a non-empty MMR exists, and with a single peak it is that peak's hash, otherwise
a hash over the size -/
theorem spec_root_isSome (hf : HashFn α H) (xs : List α) (hne : xs ≠ []) :
    (Spec.Mmr.root hf xs).isSome = true := by
  obtain ⟨f, hxs, _⟩ := list_as_fn xs hne
  have hpos : 0 < xs.length := List.length_pos_iff.2 hne
  generalize xs.length = N at hxs hpos
  subst hxs
  rw [spec_root]
  have hne' : (forest N).map (fun c => nodeHash hf f c.1 c.2) ≠ [] := by
    simpa using forest_ne_nil hpos
  cases hb : bag hf (mmr N) ((forest N).map (fun c => nodeHash hf f c.1 c.2)) with
  | none => exact absurd hb (bag_ne_none hf (mmr N) _ hne')
  | some r => rfl

-- non-vacuity of `push_root`: seven elements, free-term hashes
example : pushAll (termHF Nat) [] [10, 11, 12, 13, 14, 15, 16]
    = some (Spec.Mmr.hashes (termHF Nat) [10, 11, 12, 13, 14, 15, 16]) :=
  (push_root (termHF Nat) [10, 11, 12, 13, 14, 15, 16] (by decide)).1

-- non-vacuity: the 7-leaf MMR over free terms
example : (Spec.Mmr.hashes (termHF Nat) [10, 11, 12, 13, 14, 15, 16]).length = 11
    ∧ Spec.Mmr.peakPositions (termHF Nat) [10, 11, 12, 13, 14, 15, 16] = [6, 9, 10] := by
  decide

end spec

/-! ## 3. Merkle proofs -/

section proofs
variable {α H : Type} [DecidableEq H]

/-- **proof_complete.** For every list `xs` and every leaf index `i < xs.length`, `merkle_proof`
succeeds on the MMR of `xs` at the leaf's position, records the size, and the proof verifies against
the root for exactly that element at that position. -/
theorem proof_complete (hf : HashFn α H) (xs : List α) (i : Nat) (hi : i < xs.length) :
    ∃ path r, merkleProof hf (Spec.Mmr.hashes hf xs) (mmr i) = some (mmr xs.length, path)
      ∧ Spec.Mmr.root hf xs = some r
      ∧ verify hf r (mmr xs.length) path xs[i] (mmr i) = true := by
  obtain ⟨f, k, L, R, c, hfi, hh, hr⟩ := leaf_ctx hf xs i hi
  refine ⟨treePath hf f i 0 k ++ peakPart hf f (mmr xs.length) L R, _, ?_, hr, ?_⟩
  · rw [hh]; exact merkleProof_coord c hf f
  · rw [← hfi]; exact verify_complete c hf f

/-- **proof_sound** (full strength: no assumption on the position). For collision-free hashes: if a
proof `(size = mmr xs.length, path)` verifies against the root of the MMR of `xs` for element `e`
at *any* position `pos`, then `pos` is the position of some leaf `i` of the MMR, `e` is the element
`xs[i]` stored there, and `path` is exactly the path `merkle_proof` produces for that position.
In particular inner-node positions and positions at or beyond the size (the odd branches of
`verify_consume`) never verify. -/
theorem proof_sound_any_position (hf : HashFn α H) (cf : CollisionFree hf) (xs : List α) (r : H)
    (hr : Spec.Mmr.root hf xs = some r) (path : List H) (e : α) (pos : Nat)
    (hv : verify hf r (mmr xs.length) path e pos = true) :
    ∃ (i : Nat) (hi : i < xs.length), pos = mmr i ∧ e = xs[i]
      ∧ merkleProof hf (Spec.Mmr.hashes hf xs) pos = some (mmr xs.length, path) := by
  obtain ⟨n, h, hh, rfl⟩ := coord_surjective pos
  by_cases hn : n < xs.length
  · obtain ⟨f, k, L, R, c, hfi, hhs, hr'⟩ := leaf_ctx hf xs n hn
    rw [hr] at hr'
    injection hr' with hr'
    subst hr'
    cases h with
    | zero =>
      simp only [Nat.add_zero] at hv ⊢
      obtain ⟨h1, h2⟩ := verify_sound cf c f e path hv
      refine ⟨n, hn, rfl, by rw [h1, hfi], ?_⟩
      rw [hhs, h2]; exact merkleProof_coord c hf f
    | succ h =>
      have := sound_nonleaf cf c f e path h hh
      rw [hv] at this
      exact absurd this (by simp)
  · have hne : xs ≠ [] := by intro h0; subst h0; simp [Spec.Mmr.root, Spec.Mmr.bagRightToLeft, Spec.Mmr.build] at hr
    have hpos : 0 < xs.length := List.length_pos_iff.2 hne
    obtain ⟨f, k, L, R, c, _, _, hr'⟩ := leaf_ctx hf xs 0 hpos
    rw [hr] at hr'
    injection hr' with hr'
    subst hr'
    have hge : mmr xs.length ≤ mmr n + h := by
      have := mmr_le_mmr (show xs.length ≤ n by omega); omega
    have := sound_beyond cf c f e path (mmr n + h) hge
    rw [hv] at this
    exact absurd this (by simp)

/-- **proof_sound** as usually quoted, for a leaf position inside the MMR -/
theorem proof_sound (hf : HashFn α H) (cf : CollisionFree hf) (xs : List α) (r : H)
    (hr : Spec.Mmr.root hf xs = some r) (path : List H) (e : α) (pos : Nat)
    (_hleaf : isLeaf pos = true) (_hlt : pos < mmr xs.length)
    (hv : verify hf r (mmr xs.length) path e pos = true) :
    ∃ (i : Nat) (hi : i < xs.length), pos = mmr i ∧ e = xs[i]
      ∧ merkleProof hf (Spec.Mmr.hashes hf xs) pos = some (mmr xs.length, path) :=
  proof_sound_any_position hf cf xs r hr path e pos hv

/-- a position that is not the position of a leaf of the MMR (an inner node, or anything at or
beyond the size) makes verification fail, whatever element and path are supplied -/
theorem proof_not_a_leaf_position (hf : HashFn α H) (cf : CollisionFree hf) (xs : List α) (r : H)
    (hr : Spec.Mmr.root hf xs = some r) (path : List H) (e : α) (pos : Nat)
    (hpos : isLeaf pos = false ∨ mmr xs.length ≤ pos) :
    verify hf r (mmr xs.length) path e pos = false := by
  apply Bool.eq_false_iff.2
  intro hv
  obtain ⟨i, hi, rfl, _⟩ := proof_sound_any_position hf cf xs r hr path e pos hv
  rcases hpos with h | h
  · have : isLeaf (mmr i) = true := (isLeaf_iff _).2 ⟨i, rfl⟩
    rw [h] at this; exact absurd this (by simp)
  · have := mmr_lt_mmr hi; omega

/-- substituting another element makes verification fail, whatever path is supplied -/
theorem proof_other_element (hf : HashFn α H) (cf : CollisionFree hf) (xs : List α) (r : H)
    (hr : Spec.Mmr.root hf xs = some r) (i : Nat) (hi : i < xs.length) (e : α) (he : e ≠ xs[i])
    (path : List H) : verify hf r (mmr xs.length) path e (mmr i) = false := by
  apply Bool.eq_false_iff.2
  intro hv
  have hleaf : isLeaf (mmr i) = true := (isLeaf_iff _).2 ⟨i, rfl⟩
  have hlt : mmr i < mmr xs.length := mmr_lt_mmr hi
  obtain ⟨j, hj, hpos, hej, _⟩ := proof_sound hf cf xs r hr path e (mmr i) hleaf hlt hv
  have : i = j := mmr_inj hpos
  subst this
  exact he hej

/-- any path other than the one `merkle_proof` produces makes verification fail, whatever the
element: this covers an altered path hash, a shortened and a lengthened path -/
theorem proof_other_path (hf : HashFn α H) (cf : CollisionFree hf) (xs : List α) (r : H)
    (hr : Spec.Mmr.root hf xs = some r) (i : Nat) (hi : i < xs.length) (path path' : List H)
    (hp : merkleProof hf (Spec.Mmr.hashes hf xs) (mmr i) = some (mmr xs.length, path))
    (hne : path' ≠ path) (e : α) : verify hf r (mmr xs.length) path' e (mmr i) = false := by
  apply Bool.eq_false_iff.2
  intro hv
  have hleaf : isLeaf (mmr i) = true := (isLeaf_iff _).2 ⟨i, rfl⟩
  have hlt : mmr i < mmr xs.length := mmr_lt_mmr hi
  obtain ⟨j, hj, hpos, _, hp'⟩ := proof_sound hf cf xs r hr path' e (mmr i) hleaf hlt hv
  rw [hp] at hp'
  injection hp' with hp'
  injection hp' with _ hp'
  exact hne hp'.symm

/-- altering any one path hash makes verification fail -/
theorem proof_altered_hash (hf : HashFn α H) (cf : CollisionFree hf) (xs : List α) (r : H)
    (hr : Spec.Mmr.root hf xs = some r) (i : Nat) (hi : i < xs.length) (path : List H)
    (hp : merkleProof hf (Spec.Mmr.hashes hf xs) (mmr i) = some (mmr xs.length, path))
    (m : Nat) (hm : m < path.length) (h' : H) (hne : h' ≠ path[m]) (e : α) :
    verify hf r (mmr xs.length) (path.set m h') e (mmr i) = false := by
  apply proof_other_path hf cf xs r hr i hi path _ hp _ e
  intro heq
  have := congrArg (fun l => l[m]?) heq
  simp [List.getElem?_set_self hm, List.getElem?_eq_getElem hm] at this
  exact hne this

/-- shortening the path (keeping any proper prefix, in particular dropping the last entry, or
dropping entries from the front) makes verification fail -/
theorem proof_shortened (hf : HashFn α H) (cf : CollisionFree hf) (xs : List α) (r : H)
    (hr : Spec.Mmr.root hf xs = some r) (i : Nat) (hi : i < xs.length) (path path' : List H)
    (hp : merkleProof hf (Spec.Mmr.hashes hf xs) (mmr i) = some (mmr xs.length, path))
    (hlen : path'.length < path.length) (e : α) :
    verify hf r (mmr xs.length) path' e (mmr i) = false :=
  proof_other_path hf cf xs r hr i hi path path' hp (fun h => by rw [h] at hlen; omega) e

/-- lengthening the path (appending, prepending or inserting anything) makes verification fail -/
theorem proof_lengthened (hf : HashFn α H) (cf : CollisionFree hf) (xs : List α) (r : H)
    (hr : Spec.Mmr.root hf xs = some r) (i : Nat) (hi : i < xs.length) (path path' : List H)
    (hp : merkleProof hf (Spec.Mmr.hashes hf xs) (mmr i) = some (mmr xs.length, path))
    (hlen : path.length < path'.length) (e : α) :
    verify hf r (mmr xs.length) path' e (mmr i) = false :=
  proof_other_path hf cf xs r hr i hi path path' hp (fun h => by rw [h] at hlen; omega) e

/-- presenting the proof of leaf `i` for another leaf position of the MMR makes verification
fail, whatever element is claimed there (even if the two leaves hold equal elements) -/
theorem proof_other_position (hf : HashFn α H) (cf : CollisionFree hf) (xs : List α) (r : H)
    (hr : Spec.Mmr.root hf xs = some r) (i j : Nat) (hi : i < xs.length) (hj : j < xs.length)
    (hij : i ≠ j) (path : List H)
    (hp : merkleProof hf (Spec.Mmr.hashes hf xs) (mmr i) = some (mmr xs.length, path)) (e : α) :
    verify hf r (mmr xs.length) path e (mmr j) = false := by
  apply Bool.eq_false_iff.2
  intro hv
  have hleaf : isLeaf (mmr j) = true := (isLeaf_iff _).2 ⟨j, rfl⟩
  have hlt : mmr j < mmr xs.length := mmr_lt_mmr hj
  obtain ⟨j', hj', hpos, _, hp'⟩ := proof_sound hf cf xs r hr path e (mmr j) hleaf hlt hv
  -- both leaves would have the same canonical path
  obtain ⟨f, k, L, R, c, _, hh, _⟩ := leaf_ctx hf xs i hi
  obtain ⟨f', k', L', R', c', _, hh', _⟩ := leaf_ctx hf xs j hj
  have e1 := merkleProof_coord c hf f
  have e2 := merkleProof_coord c' hf f
  rw [← hh] at e1 e2
  rw [hp] at e1
  rw [hp'] at e2
  injection e1 with e1; injection e1 with _ e1
  injection e2 with e2; injection e2 with _ e2
  exact hij (canon_inj cf f c c' (by rw [← e1, ← e2]))

/-- the model's `root` of the pushed vector, as an option -/
theorem root_pushed (hf : HashFn α H) (xs : List α) (hb : xs.length ≤ 2^65) (hs : List H)
    (hpush : pushAll hf [] xs = some hs) (r : H) :
    root hf hs = .ok r ↔ Spec.Mmr.root hf xs = some r := by
  obtain ⟨h1, _, _, _, _, h6, _⟩ := push_root hf xs hb
  rw [h1] at hpush
  injection hpush with hpush
  subst hpush
  rw [h6]
  cases Spec.Mmr.root hf xs with
  | none => simp
  | some r' => simp

/-- completeness and soundness restated on the model state itself: `hs` is what `PMMR::push` built
from `xs`, `r` is what `root()` returns on it. -/
theorem proof_complete_pushed (hf : HashFn α H) (xs : List α) (hb : xs.length ≤ 2^65) (hs : List H)
    (hpush : pushAll hf [] xs = some hs) (i : Nat) (hi : i < xs.length) :
    ∃ path r, merkleProof hf hs (mmr i) = some (mmr xs.length, path) ∧ root hf hs = .ok r
      ∧ verify hf r (mmr xs.length) path xs[i] (mmr i) = true := by
  obtain ⟨path, r, h1, h2, h3⟩ := proof_complete hf xs i hi
  have hr := (root_pushed hf xs hb hs hpush r).2 h2
  have hhs := (push_root hf xs hb).1
  rw [hhs] at hpush
  injection hpush with hpush
  subst hpush
  exact ⟨path, r, h1, hr, h3⟩

theorem proof_sound_pushed (hf : HashFn α H) (cf : CollisionFree hf) (xs : List α)
    (hb : xs.length ≤ 2^65) (hs : List H) (hpush : pushAll hf [] xs = some hs) (r : H)
    (hr : root hf hs = .ok r) (path : List H) (e : α) (pos : Nat)
    (hv : verify hf r (mmr xs.length) path e pos = true) :
    ∃ (i : Nat) (hi : i < xs.length), pos = mmr i ∧ e = xs[i]
      ∧ merkleProof hf hs pos = some (mmr xs.length, path) := by
  have hr' := (root_pushed hf xs hb hs hpush r).1 hr
  have hhs := (push_root hf xs hb).1
  rw [hhs] at hpush
  injection hpush with hpush
  subst hpush
  exact proof_sound_any_position hf cf xs r hr' path e pos hv

/-- **The advisory `mmr_size` field is not bound.** Single-peak counter-example: in the one-leaf MMR
the (empty) proof of leaf 0 verifies against the root with *any* `mmr_size` whatsoever, not only with
the true size 1. (This is why the property excludes the size field.) -/
theorem size_not_bound_one_leaf (hf : HashFn α H) (a : α) (size' : Nat) :
    Spec.Mmr.root hf [a] = some (hf.leaf 0 a)
    ∧ verify hf (hf.leaf 0 a) size' [] a 0 = true := by
  refine ⟨rfl, ?_⟩
  simp only [verify]
  rw [verifyAux]
  by_cases hs : 0 ≥ size'
  · have : size' = 0 := by omega
    subst this; simp
  · rw [if_neg hs]; simp

/-- the same with a non-trivial path: in the two-leaf MMR (a single peak, true size 3) the proof
`[leaf 1]` of leaf 0 still verifies when the size field claims 4 (three leaves), 5 (not a valid
size at all), 7 (four leaves, again a single peak) or anything else `≥ 3` whose peak list does not
contain position 0. -/
theorem size_not_bound_two_leaves (hf : HashFn α H) (a b : α) (size' : Nat) (hs : 3 ≤ size')
    (hpk : 0 ∉ peaks size') :
    Spec.Mmr.root hf [a, b] = some (hf.node 2 (hf.leaf 0 a) (hf.leaf 1 b))
    ∧ verify hf (hf.node 2 (hf.leaf 0 a) (hf.leaf 1 b)) size' [hf.leaf 1 b] a 0 = true := by
  refine ⟨rfl, ?_⟩
  have hfam : family 0 = (2, 1) := by
    have := (family_coord_left 0 0 (by simp [trailingOnes])).2.1
    simpa [mmr_zero] using this
  have hls : isLeftSibling 1 = false := by
    have := isLeftSibling_coord 1 0 (Nat.zero_le _)
    simpa [mmr, popcount, trailingOnes] using this
  have n0 : ¬ (0 ≥ size') := by omega
  have n2 : ¬ (2 ≥ size') := by omega
  simp only [verify]
  rw [verifyAux]
  simp only [hfam, findIdx_none _ _ hpk, hls, n0, n2, Bool.false_eq_true, if_false]
  rw [verifyAux]
  simp only [n2, if_false]
  simp

-- the side condition of `size_not_bound_two_leaves` holds e.g. for the claimed sizes 5 and 7
example (a b : Nat) :
    verify (termHF Nat) (.node 2 (.leaf 0 a) (.leaf 1 b)) 5 [.leaf 1 b] a 0 = true
    ∧ verify (termHF Nat) (.node 2 (.leaf 0 a) (.leaf 1 b)) 7 [.leaf 1 b] a 0 = true := by
  have m3 : mmr 3 = 4 := by simp [mmr, popcount]
  have m4 : mmr 4 = 7 := by simp [mmr, popcount]
  have t3 : trailingOnes 3 = 2 := by simp [trailingOnes]
  have p5 : peaks 5 = [] := by
    have := peaks_invalid_size 3 1 (by omega) (by omega); rwa [m3] at this
  have p7 : peaks 7 = [6] := by
    have := peaks_coord 4
    rw [m4] at this; rw [this]; simp [forest, forestFrom, m3]
  exact ⟨(size_not_bound_two_leaves (termHF Nat) a b 5 (by omega) (by simp [p5])).2,
    (size_not_bound_two_leaves (termHF Nat) a b 7 (by omega) (by simp [p7])).2⟩

end proofs

/-! ### Non-vacuity: the 7-leaf MMR over free terms, leaf 4 (position 7) -/

/-! ## 5. Views at a size and pruned backends

`PMMR::at`, `ReadonlyPMMR::at` and `RewindablePMMR` (moved to any size, in either direction) read
the first `size` positions of the backend; the remove log hides pruned leaves from `get_hash`
only. A view at the size reached after `k` appends therefore *is* the MMR of the first `k`
elements: same root, same peaks, and the proof of every present leaf is the one proved complete
and sound above. Pruning leaves changes neither root nor peaks nor the proof of any other leaf. -/
section views
variable {α H : Type} [DecidableEq H]

omit [DecidableEq H] in
/-- the first `mmr k` hashes of the MMR of `xs` are the MMR of the first `k` elements -/
theorem hashes_take (hf : HashFn α H) (xs : List α) (k : Nat) (hk : k ≤ xs.length) :
    (Spec.Mmr.hashes hf xs).take (mmr k) = Spec.Mmr.hashes hf (xs.take k) := by
  by_cases hne : xs = []
  · subst hne
    have : k = 0 := by simpa using hk
    subst this
    simp [Spec.Mmr.hashes, Spec.Mmr.build]
  · obtain ⟨f, hxs, _⟩ := list_as_fn xs hne
    generalize xs.length = N at hxs hk
    subst hxs
    have ht : ((List.range N).map f).take k = (List.range k).map f := by
      rw [← List.map_take, List.take_range, Nat.min_eq_left hk]
    rw [ht, spec_hashes, spec_hashes]
    have hp := allHashes_prefix hf f hk
    rw [List.prefix_iff_eq_take] at hp
    rw [allHashes_length] at hp
    exact hp.symm

/-- **view_root.** A view at the size reached after `k ≤ xs.length` appends, over a backend that
holds all of `xs` and any remove log `R`, has the root and the peaks of the defining construction
on the first `k` elements. -/
theorem view_root (hf : HashFn α H) (xs : List α) (hb : xs.length ≤ 2^65) (k : Nat)
    (hk : k ≤ xs.length) (R : List Nat) :
    vRoot hf ⟨Spec.Mmr.hashes hf xs, R⟩ (mmr k) = (match Spec.Mmr.root hf (xs.take k) with
        | none => .zero
        | some r => .ok r)
    ∧ vPeaks ⟨Spec.Mmr.hashes hf xs, R⟩ (mmr k) = Spec.Mmr.peakHashes hf (xs.take k) := by
  have hb' : (xs.take k).length ≤ 2^65 := by simp; omega
  obtain ⟨_, _, _, _, h5, h6, _⟩ := push_root hf (xs.take k) hb'
  simp only [vRoot, vPeaks, vFile, hashes_take hf xs k hk]
  exact ⟨h6, h5⟩

/-- **view_proof_complete.** In such a view the proof of every leaf `i < k` that is not in the
remove log is produced, records the view's size and verifies against the view's root for exactly
`xs[i]` at its position - whatever else has been pruned. -/
theorem view_proof_complete (hf : HashFn α H) (xs : List α) (k : Nat) (hk : k ≤ xs.length)
    (R : List Nat) (i : Nat) (hi : i < k) (hpresent : mmr i ∉ R) :
    ∃ path r, vProof hf ⟨Spec.Mmr.hashes hf xs, R⟩ (mmr k) (mmr i) = some (mmr k, path)
      ∧ Spec.Mmr.root hf (xs.take k) = some r
      ∧ verify hf r (mmr k) path (xs[i]'(by omega)) (mmr i) = true := by
  have hlen : (xs.take k).length = k := by simp; omega
  have hi' : i < (xs.take k).length := by omega
  obtain ⟨path, r, h1, h2, h3⟩ := proof_complete hf (xs.take k) i hi'
  rw [hlen] at h1 h3
  refine ⟨path, r, ?_, h2, ?_⟩
  · have hleaf : isLeaf (mmr i) = true := (isLeaf_iff (mmr i)).2 ⟨i, rfl⟩
    have hlt : mmr i < mmr k := mmr_lt_mmr hi
    have hsome := hash_at_leaf hf xs i (by omega)
    have hrem : R.contains (mmr i) = false := by
      simpa using hpresent
    simp only [vProof, vGetHash, hleaf, hrem, hsome, vFile, hashes_take hf xs k hk]
    simpa [Nat.not_le.mpr hlt] using h1
  · simpa using h3

/-- **view_proof_sound.** Against the root of such a view a verifying proof pins a leaf of the
first `k` elements, its element and the whole path (collision-free hashes). -/
theorem view_proof_sound (hf : HashFn α H) (cf : CollisionFree hf) (xs : List α) (k : Nat)
    (hk : k ≤ xs.length) (r : H) (hr : Spec.Mmr.root hf (xs.take k) = some r)
    (path : List H) (e : α) (pos : Nat) (hv : verify hf r (mmr k) path e pos = true) :
    ∃ (i : Nat) (hi : i < k), pos = mmr i ∧ e = xs[i]'(by omega) := by
  have hlen : (xs.take k).length = k := by simp; omega
  have hv' : verify hf r (mmr (xs.take k).length) path e pos = true := by rw [hlen]; exact hv
  obtain ⟨i, hi, hp, he, _⟩ := proof_sound_any_position hf cf (xs.take k) r hr path e pos hv'
  refine ⟨i, by omega, hp, ?_⟩
  rw [he]; simp

omit [DecidableEq H] in
/-- a pruned leaf has no proof -/
theorem view_proof_pruned (hf : HashFn α H) (b : VBackend H) (size pos : Nat)
    (h : pos ∈ b.removed) : vProof hf b size pos = none := by
  unfold vProof vGetHash
  by_cases hl : isLeaf pos = true
  · simp [hl, h]
  · simp [hl]

/-- **prune_effect.** A successful `prune(pos)` changes neither the root nor the peaks of any view,
leaves the proof of every other position as it was, and removes the proof of `pos`; an
unsuccessful one (`false`) changes nothing. -/
theorem prune_effect (hf : HashFn α H) (b b' : VBackend H) (size pos : Nat) (ok : Bool)
    (h : vPrune b size pos = some (ok, b')) :
    (∀ s, vRoot hf b' s = vRoot hf b s) ∧ (∀ s, vPeaks b' s = vPeaks b s)
    ∧ (∀ s q, q ≠ pos → vProof hf b' s q = vProof hf b s q)
    ∧ (ok = true → ∀ s, vProof hf b' s pos = none)
    ∧ (ok = false → b' = b) := by
  unfold vPrune at h
  split at h
  · cases h
  · split at h
    · injection h with h; injection h with h1 h2
      subst h1; subst h2
      exact ⟨fun _ => rfl, fun _ => rfl, fun _ _ _ => rfl, fun h => Bool.noConfusion h, fun _ => rfl⟩
    · injection h with h; injection h with h1 h2
      subst h1; subst h2
      refine ⟨fun _ => rfl, fun _ => rfl, ?_, ?_, fun h => Bool.noConfusion h⟩
      · intro s q hq
        have hc : (pos :: b.removed).contains q = b.removed.contains q := by
          simp [hq]
        simp only [vProof, vGetHash, vFile, hc]
      · intro _ s
        exact view_proof_pruned hf _ s pos (by simp)

/-- `RewindablePMMR::rewind` positions the view at the rounded-up leaf boundary - in either
direction: the result does not depend on where the view was -/
theorem rewindView_valid_size (k : Nat) : rewindView (mmr k) = mmr k := by
  unfold rewindView
  have := roundUp_spec k 0 (Nat.zero_le _)
  simpa using this

end views

section example7

/-- hypotheses of `proof_complete` / `proof_sound` and of all corollaries are satisfiable together:
`termHF` is collision-free, the list has 7 elements, leaf 4 holds 14. -/
example :
    ∃ path r, Spec.Mmr.root (termHF Nat) [10, 11, 12, 13, 14, 15, 16] = some r
      ∧ merkleProof (termHF Nat) (Spec.Mmr.hashes (termHF Nat) [10, 11, 12, 13, 14, 15, 16]) 7
          = some (11, path)
      ∧ verify (termHF Nat) r 11 path 14 7 = true
      ∧ (∀ e, e ≠ 14 → verify (termHF Nat) r 11 path e 7 = false)
      ∧ (∀ path', path' ≠ path → verify (termHF Nat) r 11 path' 14 7 = false)
      ∧ verify (termHF Nat) r 11 path 14 8 = false := by
  have m4 : mmr 4 = 7 := by simp [mmr, popcount]
  have m5 : mmr 5 = 8 := by simp [mmr, popcount]
  have m7 : mmr 7 = 11 := by simp [mmr, popcount]
  obtain ⟨path, r, h1, h2, h3⟩ := proof_complete (termHF Nat) [10, 11, 12, 13, 14, 15, 16] 4 (by decide)
  have cf := termHF_collisionFree Nat
  refine ⟨path, r, h2, ?_, ?_, ?_, ?_, ?_⟩
  · simpa [m4, m7] using h1
  · simpa [m4, m7] using h3
  · intro e he
    have := proof_other_element (termHF Nat) cf _ r h2 4 (by decide) e (by simpa using he) path
    simpa [m4, m7] using this
  · intro path' hne
    have := proof_other_path (termHF Nat) cf _ r h2 4 (by decide) path path' h1 hne 14
    simpa [m4, m7] using this
  · have := proof_other_position (termHF Nat) cf _ r h2 4 5 (by decide) (by decide) (by decide) path h1 14
    simpa [m5, m7] using this

end example7

/-! ## 6. One live handle: arbitrary histories, any opening size

`Model/PmmrHandle.lean`: a `PMMR` handle is its `size` field and its backend (hash vector, data
vector, remove log) - the struct has nothing else. `handle_run_rep`: after every legal history of
`push` / `rewind` the handle IS the MMR of the current element list, so (`handle_observations`)
every observation is the MMR definition over that list and (`handle_history_independent`) two
histories ending with the same list are indistinguishable. `push_refused_iff` /
`push_invalid_size_identity` / `invalid_size_reads`: a handle opened at a size that is not an MMR
size refuses `push`, changes nothing, and reports no peaks and no root; `handle_at_valid_size`: at a
valid size inside the backend it is the MMR of the prefix. -/
section handle
variable {α H : Type}

/-- a size is the size of an MMR (of `n` leaves, for some `n`) exactly when `peak_map_height`
reports height 0 for it - the test `PMMR::push` makes -/
theorem validSize_iff (s : Nat) : (peakMapHeight s).2 = 0 ↔ ∃ n, s = mmr n := by
  obtain ⟨n, h, hh, rfl⟩ := coord_surjective s
  rw [peakMapHeight_coord n h hh]
  constructor
  · intro h0
    simp only at h0
    subst h0
    exact ⟨n, rfl⟩
  · rintro ⟨m, hm⟩
    exact (coord_injective n h m 0 hh (Nat.zero_le _) (by omega)).2

/-- **push on a handle opened at a size that is not an MMR size is refused** (`Err("bad mmr
size")`), whatever the backend holds, and only then is it refused for that reason. -/
theorem push_refused_iff (hf : HashFn α H) (h : Handle α H) (e : α) :
    h.push hf e = .badSize ↔ ¬ ∃ n, h.size = mmr n := by
  rw [← validSize_iff]
  unfold Handle.push
  by_cases hb : (peakMapHeight h.size).2 = 0
  · simp only [hb, ne_eq, not_true_eq_false, if_false]
    constructor
    · intro hp
      split at hp <;> cases hp
    · intro hn; exact hn.elim
  · simp [hb]

/-- … and the refused push is the identity on the state (handle and backend). -/
theorem push_invalid_size_identity (hf : HashFn α H) (h : Handle α H) (e : α)
    (hinv : ¬ ∃ n, h.size = mmr n) :
    h.push hf e = .badSize ∧ Handle.step hf h (.push e) = h := by
  have hp := (push_refused_iff hf h e).2 hinv
  exact ⟨hp, by simp [Handle.step, hp]⟩

/-- a handle (or view) opened at a size that is not an MMR size describes no MMR: no peaks, and
`root()` is the error "no root, invalid tree" - whatever the backend holds -/
theorem invalid_size_reads (hf : HashFn α H) (h : Handle α H) (hinv : ¬ ∃ n, h.size = mmr n) :
    h.peaks = [] ∧ h.root hf = .err := by
  have hpk : Pmmr.peaks h.size = [] := (peaks_eq_nil_iff h.size).2 (Or.inr hinv)
  have hne : h.size ≠ 0 := fun h0 => hinv ⟨0, by rw [h0, mmr_zero]⟩
  have hp : h.peaks = [] := by simp [Handle.peaks, hpk]
  refine ⟨hp, ?_⟩
  simp [Handle.root, hne, hp, bag]

/-- pushing one more element onto the hash vector of the MMR of `xs` gives the MMR of `xs ++ [e]` -/
theorem push_spec_hashes [DecidableEq H] (hf : HashFn α H) (xs : List α) (e : α) (hb : xs.length < 2^65) :
    Pmmr.push hf (Spec.Mmr.hashes hf xs) e = some (Spec.Mmr.hashes hf (xs ++ [e])) := by
  have h1 := (push_root hf xs (by omega)).1
  have h2 := (push_root hf (xs ++ [e]) (by simp; omega)).1
  rw [pushAll_app, h1] at h2
  simpa [pushAll_singleton] using h2

/-- **push on a valid size is `push_root`'s statement**: a handle that is the MMR of `xs` accepts the
push and is afterwards the MMR of `xs ++ [e]` (hashes position by position, data, size). -/
theorem handle_push [DecidableEq H] (hf : HashFn α H) (h : Handle α H) (xs : List α) (e : α)
    (r : Handle.Rep hf h xs) (hb : xs.length < 2^65) :
    ∃ h', h.push hf e = .ok h' ∧ Handle.Rep hf h' (xs ++ [e]) := by
  have hlen := (push_root hf xs (by omega)).2.1
  have hlen' := (push_root hf (xs ++ [e]) (by simp; omega)).2.1
  have hsz : h.size = h.be.hashes.length := by rw [r.size, r.hashes, hlen]
  have hp := push_spec_hashes hf xs e hb
  rw [← r.hashes] at hp
  have := (Handle.push_at_end hf h hsz e).1 _ hp
  refine ⟨_, this, ?_, ?_, ?_, ?_⟩
  · rfl
  · simp [r.data]
  · exact r.removed
  · simp only [hlen']

/-- `round_up_to_leaf_pos` does not go beyond a leaf position that is already at or above `p` -/
theorem roundUp_le_of_le_leaf (p n : Nat) (hp : p ≤ mmr n) : roundUpToLeafPos p ≤ mmr n := by
  obtain ⟨m, h, hh, rfl⟩ := coord_surjective p
  rw [roundUp_spec m h hh]
  split
  · omega
  · have hmn : m + 1 ≤ n := by
      apply Nat.succ_le_of_lt
      apply Nat.lt_of_not_ge
      intro hge
      have := mmr_le_mmr hge
      omega
    exact mmr_le_mmr hmn

/-- **rewind** to a position at or below the size: the handle is afterwards the MMR of the leaves
that lie wholly below the rounded-up position - hashes and data truncated together. -/
theorem handle_rewind (hf : HashFn α H) (h : Handle α H) (xs : List α) (p : Nat)
    (r : Handle.Rep hf h xs) (hp : p ≤ mmr xs.length) :
    Handle.Rep hf (h.rewind p) (Handle.absStep xs (.rewind p))
    ∧ ∃ k, k ≤ xs.length ∧ roundUpToLeafPos p = mmr k ∧ Handle.absStep xs (.rewind p) = xs.take k := by
  obtain ⟨hge, hleaf⟩ := roundUp_ge p
  obtain ⟨k, hk⟩ := (isLeaf_iff _).1 hleaf
  simp only [insertionToPmmrIndex] at hk
  have hle := roundUp_le_of_le_leaf p xs.length hp
  have hkl : k ≤ xs.length := by
    apply Nat.le_of_not_gt
    intro hgt
    have := mmr_lt_mmr hgt
    omega
  have hnl : nLeaves (roundUpToLeafPos p) = k := by rw [hk]; exact nLeaves_at_leaf_boundary k
  have habs : Handle.absStep xs (.rewind p) = xs.take k := by simp [Handle.absStep, hnl]
  refine ⟨?_, k, hkl, hk, habs⟩
  rw [habs]
  refine ⟨?_, ?_, ?_, ?_⟩
  · simp only [Handle.rewind, VecBackend.rewind, hk, r.hashes]
    exact hashes_take hf xs k hkl
  · simp [Handle.rewind, VecBackend.rewind, hnl, r.data]
  · simp [Handle.rewind, VecBackend.rewind, r.removed]
  · simp only [Handle.rewind, hk, List.length_take, Nat.min_eq_left hkl]

/-- **The handle is its element list, after every history.** Starting from a handle that is the MMR
of `xs`, after any legal history (induction over the operation list) the handle is the MMR of the
list the history leaves: pushes append, rewinds truncate. -/
theorem handle_run_rep [DecidableEq H] (hf : HashFn α H) (ops : List (Handle.Op α)) :
    ∀ (h : Handle α H) (xs : List α), Handle.Rep hf h xs → Handle.Legal xs ops →
      Handle.Rep hf (Handle.run hf h ops) (Handle.absRun xs ops) := by
  induction ops with
  | nil => intro h xs r _; exact r
  | cons op ops ih =>
    intro h xs r hl
    cases op with
    | push e =>
      obtain ⟨hb, hl'⟩ := hl
      obtain ⟨h', hp, r'⟩ := handle_push hf h xs e r hb
      have hs : Handle.step hf h (.push e) = h' := by simp [Handle.step, hp]
      simp only [Handle.run, Handle.absRun, List.foldl_cons, hs]
      exact ih h' (xs ++ [e]) r' hl'
    | rewind p =>
      obtain ⟨hp, hl'⟩ := hl
      have r' := (handle_rewind hf h xs p r hp).1
      simp only [Handle.run, Handle.absRun, List.foldl_cons]
      exact ih _ _ r' hl'

/-- the freshly created handle (`PMMR::new` on `VecBackend::new()`) is the MMR of the empty list -/
theorem handle_new_rep (hf : HashFn α H) : Handle.Rep hf (Handle.new : Handle α H) [] :=
  ⟨rfl, rfl, rfl, by simp [Handle.new, mmr_zero]⟩

/-- **History independence.** Two legal histories of one live handle that end with the same element
list leave the handle in the same state - backend (hashes, data, remove log) and size - hence every
later observation (`root`, `peaks`, `merkle_proof`, `validate`, `get_hash`, `get_data`) and every
later operation gives the same result: nothing but the current list is remembered. -/
theorem handle_history_independent [DecidableEq H] (hf : HashFn α H) (ops₁ ops₂ : List (Handle.Op α))
    (l₁ : Handle.Legal ([] : List α) ops₁) (l₂ : Handle.Legal ([] : List α) ops₂)
    (hsame : Handle.absRun [] ops₁ = Handle.absRun [] ops₂) :
    Handle.run hf (Handle.new : Handle α H) ops₁ = Handle.run hf Handle.new ops₂ := by
  have r₁ := handle_run_rep hf ops₁ _ _ (handle_new_rep hf) l₁
  have r₂ := handle_run_rep hf ops₂ _ _ (handle_new_rep hf) l₂
  rw [hsame] at r₁
  exact r₁.unique r₂

/-- `n_leaves(1 + pos)` for the position of leaf `i` counts `i + 1` leaves (the index
`VecBackend::get_data_from_file` uses) -/
theorem nLeaves_succ_leaf (i : Nat) : nLeaves (1 + mmr i) = i + 1 := by
  by_cases ht : trailingOnes i = 0
  · have : 1 + mmr i = mmr (i + 1) := by rw [mmr_succ, ht]; omega
    rw [this]; exact nLeaves_at_leaf_boundary (i + 1)
  · have : 1 + mmr i = mmr i + 1 := by omega
    rw [this]; exact nLeaves_mid i 1 (by omega) (by omega)

/-- **Every observation on the handle is the MMR definition over the current list.** For a handle
that is the MMR of `xs` (by `handle_run_rep`: after every legal history): size, root, peaks are
those of the defining construction, `validate` accepts, `merkle_proof` is the proof function of the
construction's hash vector, every present leaf has a proof that verifies against the handle's own
root for exactly its element, `get_data` / `get_hash` at a leaf return the element pushed there and
its leaf hash, and nothing is served at or beyond the size. -/
theorem handle_observations [DecidableEq H] (hf : HashFn α H) (h : Handle α H) (xs : List α)
    (r : Handle.Rep hf h xs) (hb : xs.length ≤ 2^65) :
    h.size = mmr xs.length
    ∧ h.root hf = (match Spec.Mmr.root hf xs with
        | none => .zero
        | some r => .ok r)
    ∧ h.peaks = Spec.Mmr.peakHashes hf xs
    ∧ h.validate hf = true
    ∧ (∀ pos, h.merkleProof hf pos = Pmmr.merkleProof hf (Spec.Mmr.hashes hf xs) pos)
    ∧ (∀ i (hi : i < xs.length), ∃ path rt, h.merkleProof hf (mmr i) = some (mmr xs.length, path)
        ∧ h.root hf = .ok rt ∧ verify hf rt (mmr xs.length) path xs[i] (mmr i) = true)
    ∧ (∀ i (hi : i < xs.length), h.getData (mmr i) = some xs[i]
        ∧ h.getHash (mmr i) = some (hf.leaf (mmr i) xs[i]))
    ∧ (∀ pos, h.size ≤ pos → h.getHash pos = none ∧ h.getData pos = none
        ∧ h.merkleProof hf pos = none) := by
  obtain ⟨_, hlen, _, _, h5, h6, h7⟩ := push_root hf xs hb
  have hsz : h.size = h.be.hashes.length := by rw [r.size, r.hashes, hlen]
  have hle : h.size ≤ h.be.hashes.length := by omega
  have htake : h.be.hashes.take h.size = Spec.Mmr.hashes hf xs := by
    rw [hsz, List.take_length, r.hashes]
  have hroot : h.root hf = (match Spec.Mmr.root hf xs with
        | none => .zero
        | some r => .ok r) := by
    rw [Handle.root_eq_view hf h hle]
    show Pmmr.root hf (h.be.hashes.take h.size) = _
    rw [htake]; exact h6
  have hproof : ∀ pos, h.merkleProof hf pos = Pmmr.merkleProof hf (Spec.Mmr.hashes hf xs) pos := by
    intro pos
    rw [Handle.merkleProof_eq_view hf h hle]
    have := Handle.vProof_no_removed hf h.be.hashes pos
    simp only [Handle.toV, r.removed, hsz]
    rw [this, r.hashes]
  have hnone : ∀ pos, h.size ≤ pos → h.getHash pos = none := by
    intro pos hp
    simp [Handle.getHash, hp]
  refine ⟨r.size, hroot, ?_, ?_, hproof, ?_, ?_, ?_⟩
  · rw [Handle.peaks_eq_view h hle]
    simp only [vPeaks, vFile, Handle.toV, htake, h5]
  · rw [Handle.validate_eq hf h hle, htake, h7]
  · intro i hi
    obtain ⟨path, rt, p1, p2, p3⟩ := proof_complete hf xs i hi
    refine ⟨path, rt, by rw [hproof, p1], ?_, p3⟩
    rw [hroot, p2]
  · intro i hi
    have hlt : mmr i < h.size := by rw [r.size]; exact mmr_lt_mmr hi
    have hleaf : isLeaf (mmr i) = true := (isLeaf_iff _).2 ⟨i, rfl⟩
    have hng : ¬ (mmr i ≥ h.size) := by omega
    constructor
    · simp only [Handle.getData, hng, if_false, hleaf, if_true, VecBackend.getData, r.removed,
        VecBackend.getDataFromFile, r.data, nLeaves_succ_leaf]
      simp [hi]
    · simp only [Handle.getHash, hng, if_false, hleaf, if_true, VecBackend.getHash, r.removed,
        VecBackend.getFromFile, r.hashes]
      simpa using hash_at_leaf hf xs i hi
  · intro pos hp
    refine ⟨hnone pos hp, by simp [Handle.getData, hp], ?_⟩
    unfold Handle.merkleProof
    rw [hnone pos hp]
    by_cases hl : isLeaf pos = true <;> simp [hl]

/-- a proof that verifies against the root of a live handle after any legal history pins a leaf of
the CURRENT list, its element and the path the handle itself hands out (collision-free hashes) -/
theorem handle_proof_sound [DecidableEq H] (hf : HashFn α H) (cf : CollisionFree hf)
    (ops : List (Handle.Op α)) (l : Handle.Legal ([] : List α) ops)
    (hb : (Handle.absRun ([] : List α) ops).length ≤ 2^65) (rt : H)
    (hr : (Handle.run hf (Handle.new : Handle α H) ops).root hf = .ok rt)
    (path : List H) (e : α) (pos : Nat)
    (hv : verify hf rt (Handle.run hf (Handle.new : Handle α H) ops).size path e pos = true) :
    ∃ (i : Nat) (hi : i < (Handle.absRun ([] : List α) ops).length), pos = mmr i
      ∧ e = (Handle.absRun ([] : List α) ops)[i]
      ∧ (Handle.run hf (Handle.new : Handle α H) ops).merkleProof hf pos
          = some ((Handle.run hf (Handle.new : Handle α H) ops).size, path) := by
  have r := handle_run_rep hf ops _ _ (handle_new_rep hf) l
  obtain ⟨o1, o2, _, _, o5, _⟩ := handle_observations hf _ _ r hb
  rw [o2] at hr
  cases hs : Spec.Mmr.root hf (Handle.absRun ([] : List α) ops) with
  | none => rw [hs] at hr; cases hr
  | some r' =>
    rw [hs] at hr
    injection hr with hr
    subst hr
    rw [o1] at hv ⊢
    obtain ⟨i, hi, h1, h2, h3⟩ := proof_sound_any_position hf cf _ r' hs path e pos hv
    exact ⟨i, hi, h1, h2, by rw [o5, h3]⟩

/-- **A live handle and a fresh view agree.** Whatever the backend holds and wherever the handle
stands inside it, `root`, `peaks`, `merkle_proof` and `get_hash` of the handle are those of a view
(`ReadonlyPMMR::at`, `RewindablePMMR::at`) opened at the same size on the same backend. -/
theorem handle_eq_fresh_view (hf : HashFn α H) (h : Handle α H) (hle : h.size ≤ h.be.hashes.length) :
    h.root hf = vRoot hf ⟨h.be.hashes, h.be.removed⟩ h.size
    ∧ h.peaks = vPeaks ⟨h.be.hashes, h.be.removed⟩ h.size
    ∧ (∀ pos, h.merkleProof hf pos = vProof hf ⟨h.be.hashes, h.be.removed⟩ h.size pos)
    ∧ (∀ pos, h.getHash pos = vGetHash ⟨h.be.hashes, h.be.removed⟩ h.size pos) :=
  ⟨Handle.root_eq_view hf h hle, Handle.peaks_eq_view h hle,
    Handle.merkleProof_eq_view hf h hle, Handle.getHash_eq_view h⟩

/-- **A handle opened at a valid size inside a backend** that holds the MMR of `xs` (any data
vector, any remove log): it is the MMR of the first `k` elements - root, peaks, and a verifying proof
for every leaf `i < k` that is not pruned. -/
theorem handle_at_valid_size [DecidableEq H] (hf : HashFn α H) (xs : List α) (hb : xs.length ≤ 2^65)
    (b : VecBackend α H) (hbe : b.hashes = Spec.Mmr.hashes hf xs) (k : Nat) (hk : k ≤ xs.length) :
    (Handle.openAt b (mmr k)).root hf = (match Spec.Mmr.root hf (xs.take k) with
        | none => .zero
        | some r => .ok r)
    ∧ (Handle.openAt b (mmr k)).peaks = Spec.Mmr.peakHashes hf (xs.take k)
    ∧ (∀ i (hi : i < k), mmr i ∉ b.removed → ∃ path rt,
        (Handle.openAt b (mmr k)).merkleProof hf (mmr i) = some (mmr k, path)
        ∧ (Handle.openAt b (mmr k)).root hf = .ok rt
        ∧ verify hf rt (mmr k) path (xs[i]'(by omega)) (mmr i) = true) := by
  have hlen := (push_root hf xs hb).2.1
  simp only [Handle.openAt]
  have hle : (⟨b, mmr k⟩ : Handle α H).size ≤ (⟨b, mmr k⟩ : Handle α H).be.hashes.length := by
    simp only [hbe, hlen]; exact mmr_le_mmr hk
  obtain ⟨e1, e2, e3, _⟩ := handle_eq_fresh_view hf ⟨b, mmr k⟩ hle
  simp only [hbe] at e1 e2 e3
  obtain ⟨v1, v2⟩ := view_root hf xs hb k hk b.removed
  refine ⟨by rw [e1]; exact v1, by rw [e2, v2], ?_⟩
  intro i hi hpresent
  obtain ⟨path, rt, p1, p2, p3⟩ := view_proof_complete hf xs k hk b.removed i hi hpresent
  exact ⟨path, rt, by rw [e3, p1], by rw [e1, v1, p2], p3⟩

/-- … and it validates, serves for every unpruned leaf `i < k` the leaf hash of `xs[i]` and (when
the data vector is `xs`) the element `xs[i]`, and serves nothing at or beyond its size - although
the backend holds more. -/
theorem handle_at_valid_size_reads [DecidableEq H] (hf : HashFn α H) (xs : List α) (hb : xs.length ≤ 2^65)
    (b : VecBackend α H) (hbe : b.hashes = Spec.Mmr.hashes hf xs) (k : Nat) (hk : k ≤ xs.length) :
    (Handle.openAt b (mmr k)).validate hf = true
    ∧ (∀ i (hi : i < k), mmr i ∉ b.removed →
        (Handle.openAt b (mmr k)).getHash (mmr i) = some (hf.leaf (mmr i) (xs[i]'(by omega)))
        ∧ (b.data = some xs → (Handle.openAt b (mmr k)).getData (mmr i) = some (xs[i]'(by omega))))
    ∧ (∀ pos, mmr k ≤ pos → (Handle.openAt b (mmr k)).getHash pos = none
        ∧ (Handle.openAt b (mmr k)).getData pos = none
        ∧ (Handle.openAt b (mmr k)).merkleProof hf pos = none) := by
  have hlen := (push_root hf xs hb).2.1
  simp only [Handle.openAt]
  have hle : (⟨b, mmr k⟩ : Handle α H).size ≤ (⟨b, mmr k⟩ : Handle α H).be.hashes.length := by
    simp only [hbe, hlen]; exact mmr_le_mmr hk
  have hnone : ∀ pos, mmr k ≤ pos → (⟨b, mmr k⟩ : Handle α H).getHash pos = none := by
    intro pos hp; simp [Handle.getHash, hp]
  refine ⟨?_, ?_, ?_⟩
  · rw [Handle.validate_eq hf _ hle]
    simp only [hbe, hashes_take hf xs k hk]
    exact (push_root hf (xs.take k) (by simp; omega)).2.2.2.2.2.2
  · intro i hi hpresent
    have hleaf : isLeaf (mmr i) = true := (isLeaf_iff _).2 ⟨i, rfl⟩
    have hng : ¬ (mmr i ≥ mmr k) := by have := mmr_lt_mmr hi; omega
    have hrem : b.removed.contains (mmr i) = false := by simpa using hpresent
    constructor
    · simp only [Handle.getHash, hng, if_false, hleaf, if_true, VecBackend.getHash, hrem,
        VecBackend.getFromFile, hbe, Bool.false_eq_true]
      exact hash_at_leaf hf xs i (by omega)
    · intro hd
      simp only [Handle.getData, hng, if_false, hleaf, if_true, VecBackend.getData, hrem,
        VecBackend.getDataFromFile, hd, nLeaves_succ_leaf, Bool.false_eq_true]
      have : i < xs.length := by omega
      simp [this]
  · intro pos hp
    refine ⟨hnone pos hp, by simp [Handle.getData, hp], ?_⟩
    unfold Handle.merkleProof
    rw [hnone pos hp]
    by_cases hl : isLeaf pos = true <;> simp [hl]

-- non-vacuity of `handle_history_independent` / `handle_run_rep`: the rewind - re-push history.
-- One handle pushes 10, 11, 12 (size 4), is rewound to position 1 (one leaf left) and gets 21, 22
-- pushed: it is at size 4 again with other contents. Both histories are legal, end with the list
-- [10, 21, 22], so the handle is in the state of the direct history - and NOT in the state it had at
-- size 4 before: same size, different root.
example :
    let ops₁ : List (Handle.Op Nat) := [.push 10, .push 11, .push 12, .rewind 1, .push 21, .push 22]
    let ops₂ : List (Handle.Op Nat) := [.push 10, .push 21, .push 22]
    let before : List (Handle.Op Nat) := [.push 10, .push 11, .push 12]
    Handle.Legal [] ops₁ ∧ Handle.Legal [] ops₂
    ∧ Handle.absRun [] ops₁ = [10, 21, 22] ∧ Handle.absRun [] ops₂ = [10, 21, 22]
    ∧ Handle.run (termHF Nat) Handle.new ops₁ = Handle.run (termHF Nat) Handle.new ops₂
    ∧ (Handle.run (termHF Nat) Handle.new ops₁).size = (Handle.run (termHF Nat) Handle.new before).size
    ∧ (Handle.run (termHF Nat) Handle.new ops₁).root (termHF Nat)
        ≠ (Handle.run (termHF Nat) Handle.new before).root (termHF Nat) := by
  intro ops₁ ops₂ before
  have m1 : mmr 1 = 1 := by simp [mmr, popcount]
  have m2 : mmr 2 = 3 := by simp [mmr, popcount]
  have m3 : mmr 3 = 4 := by simp [mmr, popcount]
  have r1 : roundUpToLeafPos 1 = 1 := by
    have := roundUp_spec 1 0 (Nat.zero_le _); simpa [m1] using this
  have n1 : nLeaves 1 = 1 := by have := nLeaves_at_leaf_boundary 1; rwa [m1] at this
  have a1 : Handle.absRun [] ops₁ = [10, 21, 22] := by
    simp [ops₁, Handle.absRun, Handle.absStep, r1, n1]
  have a2 : Handle.absRun [] ops₂ = [10, 21, 22] := by
    simp [ops₂, Handle.absRun, Handle.absStep]
  have ab : Handle.absRun [] before = [10, 11, 12] := by
    simp [before, Handle.absRun, Handle.absStep]
  have l1 : Handle.Legal [] ops₁ := by
    simp [ops₁, Handle.Legal, Handle.absStep, r1, n1, m3]
  have l2 : Handle.Legal [] ops₂ := by simp [ops₂, Handle.Legal]
  have lb : Handle.Legal [] before := by simp [before, Handle.Legal]
  have e12 := handle_history_independent (termHF Nat) ops₁ ops₂ l1 l2 (by rw [a1, a2])
  have rep1 := handle_run_rep (termHF Nat) ops₁ _ _ (handle_new_rep _) l1
  have repb := handle_run_rep (termHF Nat) before _ _ (handle_new_rep _) lb
  rw [a1] at rep1
  rw [ab] at repb
  obtain ⟨s1, o1, _⟩ := handle_observations (termHF Nat) _ _ rep1 (by decide)
  obtain ⟨sb, ob, _⟩ := handle_observations (termHF Nat) _ _ repb (by decide)
  refine ⟨l1, l2, a1, a2, e12, by rw [s1, sb]; rfl, ?_⟩
  rw [o1, ob]
  decide

-- non-vacuity of `push_invalid_size_identity` / `invalid_size_reads`: 5 is not the size of any MMR
-- (4 = three leaves, 7 = four); a handle opened at 5 over the 7 hashes of a four-leaf MMR refuses
-- the push, has no peaks and no root, while the same backend opened at 4 is the MMR of [10, 11, 12]
example :
    let b : VecBackend Nat (HTerm Nat) :=
      { data := some [10, 11, 12, 13], hashes := Spec.Mmr.hashes (termHF Nat) [10, 11, 12, 13] }
    (¬ ∃ n, 5 = mmr n)
    ∧ Handle.step (termHF Nat) (Handle.openAt b 5) (.push 99) = Handle.openAt b 5
    ∧ (Handle.openAt b 5).peaks = [] ∧ (Handle.openAt b 5).root (termHF Nat) = .err
    ∧ (Handle.openAt b 4).root (termHF Nat)
        = .ok (.node 4 (.node 2 (.leaf 0 10) (.leaf 1 11)) (.leaf 3 12)) := by
  intro b
  have m3 : mmr 3 = 4 := by simp [mmr, popcount]
  have t3 : trailingOnes 3 = 2 := by simp [trailingOnes]
  have hinv : ¬ ∃ n, 5 = mmr n := by
    rw [← validSize_iff]
    have := peakMapHeight_coord 3 1 (by omega)
    rw [m3] at this
    simp [this]
  have hinv' : ¬ ∃ n, (Handle.openAt b 5).size = mmr n := hinv
  have hr := invalid_size_reads (termHF Nat) (Handle.openAt b 5) hinv'
  refine ⟨hinv, (push_invalid_size_identity (termHF Nat) (Handle.openAt b 5) 99 hinv').2, hr.1, hr.2, ?_⟩
  have := (handle_at_valid_size (termHF Nat) [10, 11, 12, 13] (by decide) b rfl 3 (by decide)).1
  rw [m3] at this
  rw [this]
  decide

end handle

/-! ## 7. `PMMR::validate` on ANY hash file (not only the one `push` built) -/

section validate
variable {α H : Type}

/-- **`validate` accepts a hash file exactly when every inner node holds the hash of its two
children under its own position** -/
theorem validate_accepts_iff_node_law [DecidableEq H] (hf : HashFn α H) (hashes : List H) :
    validate hf hashes = true ↔ ∀ n, n < hashes.length → NodeLawAt hf hashes n :=
  validate_iff hf hashes

/-- **a validated hash file is determined by its leaf hashes**: if it has the length of the MMR of
`xs` and holds at every leaf position the leaf hash of the corresponding element, it IS the hash
file of the defining construction (hence same peaks, same root, same proofs) -/
theorem validate_pins_the_mmr [DecidableEq H] (hf : HashFn α H) (xs : List α) (hb : xs.length ≤ 2^65)
    (hs : List H) (hlen : hs.length = mmr xs.length) (hv : validate hf hs = true)
    (hleaf : ∀ n, height n = 0 → hs[n]? = (Spec.Mmr.hashes hf xs)[n]?) :
    hs = Spec.Mmr.hashes hf xs := by
  obtain ⟨_, hl, _, _, _, _, hvs⟩ := push_root hf xs hb
  exact validate_unique hf hs _ (by rw [hlen, hl]) hv hvs hleaf

/-- **`validate` reports every replaced inner node**: in a hash file that validates, putting any
other hash at an inner position makes `validate` fail -/
theorem validate_detects_replaced_inner_node [DecidableEq H] (hf : HashFn α H) (hs : List H)
    (hv : validate hf hs = true) (n : Nat) (hn : n < hs.length) (hpos : 0 < height n)
    (h' : H) (hne : hs[n]? ≠ some h') : validate hf (hs.set n h') = false := by
  cases hc : validate hf (hs.set n h') with
  | false => rfl
  | true =>
    exfalso
    rw [validate_iff] at hv hc
    have hn0 : n ≠ 0 := by intro h0; rw [h0, height_zero] at hpos; exact Nat.lt_irrefl _ hpos
    have hp2 : 0 < 2 ^ height n := Nat.pow_pos (by omega)
    have hla : n - 2 ^ height n < hs.length := by omega
    have hra : n - 1 < hs.length := by omega
    have e0 : hs[n]? = some hs[n] := List.getElem?_eq_getElem hn
    have el : hs[n - 2 ^ height n]? = some hs[n - 2 ^ height n] := List.getElem?_eq_getElem hla
    have er : hs[n - 1]? = some hs[n - 1] := List.getElem?_eq_getElem hra
    have h1 := hv n hn hpos _ _ _ e0 el er
    have h2 := hc n (by rw [List.length_set]; exact hn) hpos h' hs[n - 2 ^ height n] hs[n - 1]
      (by rw [List.getElem?_set_self hn])
      (by rw [List.getElem?_set_ne (by omega)]; exact el)
      (by rw [List.getElem?_set_ne (by omega)]; exact er)
    exact hne (by rw [e0, ← h1, h2])

/-- non-vacuity: the 3-node MMR over two elements in the free hash algebra validates; with another
hash at its root it does not -/
example : validate (termHF Nat) (Spec.Mmr.hashes (termHF Nat) [10, 11]) = true ∧
    validate (termHF Nat) ((Spec.Mmr.hashes (termHF Nat) [10, 11]).set 2 (HTerm.leaf 0 0)) = false := by
  decide +kernel

/-- **`validate` reports every replaced child** (collision-free hash function: a parent hash
determines both children): in a hash file that validates, putting any other hash at the position of
the LEFT or RIGHT child of an inner node that is present makes `validate` fail.  Together with
`validate_detects_replaced_inner_node`: the only single replacements `validate` cannot see are
nodes without a parent inside the file — the peaks. -/
theorem validate_detects_replaced_child [DecidableEq H] (hf : HashFn α H)
    (hinj : ∀ i l r l' r', hf.node i l r = hf.node i l' r' → l = l' ∧ r = r')
    (hs : List H) (hv : validate hf hs = true) (q : Nat) (hq : q < hs.length) (hpos : 0 < height q)
    (hq2 : 2 ^ height q ≤ q) (c : Nat) (hc : c = q - 2 ^ height q ∨ c = q - 1)
    (h' : H) (hne : hs[c]? ≠ some h') : validate hf (hs.set c h') = false := by
  cases hcv : validate hf (hs.set c h') with
  | false => rfl
  | true =>
    exfalso
    rw [validate_iff] at hv hcv
    have hp2 : 2 ≤ 2 ^ height q := by
      have : 2 ^ 1 ≤ 2 ^ height q := Nat.pow_le_pow_right (by omega) hpos
      simpa using this
    have hla : q - 2 ^ height q < hs.length := by omega
    have hra : q - 1 < hs.length := by omega
    have e0 : hs[q]? = some hs[q] := List.getElem?_eq_getElem hq
    have el : hs[q - 2 ^ height q]? = some hs[q - 2 ^ height q] := List.getElem?_eq_getElem hla
    have er : hs[q - 1]? = some hs[q - 1] := List.getElem?_eq_getElem hra
    have h1 := hv q hq hpos _ _ _ e0 el er
    have hlen : q < (hs.set c h').length := by rw [List.length_set]; exact hq
    rcases hc with hc | hc
    · -- left child replaced
      have h2 := hcv q hlen hpos hs[q] h' hs[q - 1]
        (by rw [List.getElem?_set_ne (by omega)]; exact e0)
        (by rw [hc, List.getElem?_set_self hla])
        (by rw [List.getElem?_set_ne (by omega)]; exact er)
      have := (hinj q _ _ _ _ (h1.trans h2.symm)).1
      exact hne (by rw [hc, el, this])
    · -- right child replaced
      have h2 := hcv q hlen hpos hs[q] hs[q - 2 ^ height q] h'
        (by rw [List.getElem?_set_ne (by omega)]; exact e0)
        (by rw [List.getElem?_set_ne (by omega)]; exact el)
        (by rw [hc, List.getElem?_set_self hra])
      have := (hinj q _ _ _ _ (h1.trans h2.symm)).2
      exact hne (by rw [hc, er, this])

/-- the hypotheses are satisfiable: the free term algebra is collision free, and in the 3-node MMR
position 2 is an inner node of height 1 with children 0 and 1 -/
example : (∀ i l r l' r', (termHF Nat).node i l r = (termHF Nat).node i l' r' → l = l' ∧ r = r') ∧
    height 2 = 1 ∧
    validate (termHF Nat) ((Spec.Mmr.hashes (termHF Nat) [10, 11]).set 0 (HTerm.leaf 0 99)) = false ∧
    validate (termHF Nat) ((Spec.Mmr.hashes (termHF Nat) [10, 11]).set 1 (HTerm.leaf 1 99)) = false := by
  refine ⟨?_, by decide +kernel, by decide +kernel, by decide +kernel⟩
  intro i l r l' r' h
  injection h with _ h1 h2
  exact ⟨h1, h2⟩


end validate

/-! ## 8. the element side of the read-only views (`Model/PmmrViews.lean`) -/

section viewdata
variable {α H : Type}

/-- a `ReadonlyPMMR` / rewound `RewindablePMMR` serves no element at or beyond its size and none at
an inner node … -/
theorem view_get_data_none (b : DBackend α H) (size pos : Nat) (h : pos ≥ size ∨ isLeaf pos = false) :
    vGetData b size pos = none := vGetData_none b size pos h

/-- … and below its size exactly what the backend holds: two views over one backend (a longer one,
and a `RewindablePMMR` rewound to a smaller size) agree wherever both reach -/
theorem view_get_data_agree (b : DBackend α H) (s1 s2 pos : Nat) (h : pos < s1) (h12 : s1 ≤ s2) :
    vGetData b s1 pos = vGetData b s2 pos := vGetData_mono b s1 s2 pos h h12

/-- every element `elements_from_pmmr_index` returns is one the view serves through `get_data` at a
position from the start index on (so: none from beyond the view's size, whatever `max_pmmr_pos1`) -/
theorem elements_from_only_served (b : DBackend α H) (viewSize idx1 maxCount : Nat) (maxPos : Option Nat) :
    ∀ x ∈ (vElementsFrom b viewSize idx1 maxCount maxPos).2,
      ∃ p, satSub idx1 1 ≤ p ∧ p < viewSize ∧ vGetData b viewSize p = some x := by
  intro x hx
  unfold vElementsFrom at hx
  obtain ⟨t, ht, hserved⟩ := elemsLoop_prefix b viewSize maxCount (elemsBound viewSize maxPos)
    (elemsBound viewSize maxPos + 1) (satSub idx1 1) []
  simp only at hx
  rw [ht, List.nil_append] at hx
  obtain ⟨p, hp, hq⟩ := hserved x hx
  refine ⟨p, hp, ?_, hq⟩
  cases Nat.lt_or_ge p viewSize with
  | inl h => exact h
  | inr h => rw [vGetData_none b viewSize p (Or.inl h)] at hq; cases hq

/-- **`elements_from_pmmr_index` never walks beyond the MMR** (repair 565fae636): whatever upper
bound the caller passes, the returned "last index" is at most the view's size when the start index
is — before the repair a bound beyond the size made the loop walk to it -/
theorem elements_from_stops_at_size (b : DBackend α H) (viewSize idx1 maxCount : Nat) (maxPos : Option Nat)
    (h : satSub idx1 1 ≤ elemsBound viewSize maxPos) :
    (vElementsFrom b viewSize idx1 maxCount maxPos).1 ≤ viewSize := by
  unfold vElementsFrom
  exact Nat.le_trans (elemsLoop_idx_le b viewSize maxCount (elemsBound viewSize maxPos)
    (elemsBound viewSize maxPos + 1) (satSub idx1 1) [] h) (elemsBound_le viewSize maxPos)

end viewdata

end GV.Props.C07
