import GrinVerif.Lemmas.PmmrArith
/-! # C07 — MMR positions, roots and Merkle proofs follow the MMR definition

Property theorems only (helper lemmas live in `Lemmas/`). Coordinates: node `(n, h)` is the
node of height `h` completed by the `n`-th leaf insertion (`h ≤ trailingOnes n`); its
post-order position is `mmr n + h` with `mmr n = 2n - popcount n`. -/
namespace GV.Props.C07
open GV GV.Pmmr

/-- The position arithmetic of `peak_map_height` recovers, for every node, the number of leaves
before it and its height. Holds for all `n`, no size bound. -/
theorem peakMapHeight_coord (n h : Nat) (hh : h ≤ trailingOnes n) :
    peakMapHeight (mmr n + h) = (n, h) := by
  unfold peakMapHeight
  by_cases hz : mmr n + h = 0
  · have hn : n = 0 := by have := le_mmr n; omega
    subst hn
    have : h = 0 := by simpa [mmr, popcount] using hz
    subst this
    simp [mmr, popcount]
  · rw [if_neg hz]
    have hlt : n < 2^(bitLen (mmr n + h)) := by
      have := lt_two_pow_bitLen (mmr n + h)
      have := le_mmr n
      omega
    have := greedy_spec (bitLen (mmr n + h)) n 0 h hlt (by simpa using hh)
    simpa using this

/-- Every position is the position of exactly one node `(n, h)`: existence. -/
theorem coord_surjective (pos : Nat) : ∃ n h, h ≤ trailingOnes n ∧ pos = mmr n + h := by
  induction pos with
  | zero => exact ⟨0, 0, by simp [trailingOnes], by simp [mmr, popcount]⟩
  | succ p ih =>
    obtain ⟨n, h, hh, hp⟩ := ih
    by_cases hlt : h < trailingOnes n
    · exact ⟨n, h+1, by omega, by omega⟩
    · refine ⟨n+1, 0, by omega, ?_⟩
      rw [mmr_succ]; omega

/-- … and uniqueness (the coordinates are a bijection between positions and nodes). -/
theorem coord_injective (n h n' h' : Nat) (hh : h ≤ trailingOnes n) (hh' : h' ≤ trailingOnes n')
    (e : mmr n + h = mmr n' + h') : n = n' ∧ h = h' := by
  have a := peakMapHeight_coord n h hh
  have b := peakMapHeight_coord n' h' hh'
  rw [e] at a
  rw [a] at b
  exact ⟨by injection b, by injection b⟩

/-- `bintree_postorder_height` is the height coordinate. -/
theorem height_coord (n h : Nat) (hh : h ≤ trailingOnes n) : height (mmr n + h) = h := by
  simp [height, peakMapHeight_coord n h hh]

/-- Leaf index → position → leaf index is the identity, for every leaf index. -/
theorem leaf_index_roundtrip (n : Nat) :
    pmmrLeafToInsertionIndex (insertionToPmmrIndex n) = some n := by
  have := peakMapHeight_coord n 0 (Nat.zero_le _)
  simp only [Nat.add_zero] at this
  simp [pmmrLeafToInsertionIndex, insertionToPmmrIndex, this]

/-- A position is a leaf exactly when it is `insertion_to_pmmr_index` of some leaf index. -/
theorem isLeaf_iff (pos : Nat) : isLeaf pos = true ↔ ∃ n, pos = insertionToPmmrIndex n := by
  constructor
  · intro hl
    obtain ⟨n, h, hh, hp⟩ := coord_surjective pos
    have := height_coord n h hh
    rw [← hp] at this
    simp [isLeaf] at hl
    exact ⟨n, by rw [hp]; simp [insertionToPmmrIndex]; omega⟩
  · rintro ⟨n, rfl⟩
    have := height_coord n 0 (Nat.zero_le _)
    simp only [Nat.add_zero] at this
    simp [isLeaf, insertionToPmmrIndex, this]

/-- Leaf positions are strictly increasing in the leaf index. -/
theorem insertion_index_strictMono (n : Nat) : insertionToPmmrIndex n < insertionToPmmrIndex (n+1) := by
  simp only [insertionToPmmrIndex]; rw [mmr_succ]; omega

/-- `n_leaves` of the size reached after `n` insertions is `n`. -/
theorem nLeaves_at_leaf_boundary (n : Nat) : nLeaves (mmr n) = n := by
  have := peakMapHeight_coord n 0 (Nat.zero_le _)
  simp only [Nat.add_zero] at this
  simp [nLeaves, this]

/-- `n_leaves` of a size that stops inside the parents of leaf `n` counts that leaf too. -/
theorem nLeaves_mid (n h : Nat) (hh : h ≤ trailingOnes n) (hpos : 0 < h) : nLeaves (mmr n + h) = n + 1 := by
  simp [nLeaves, peakMapHeight_coord n h hh]; omega

/-- `round_up_to_leaf_pos` is the identity on leaves and the next leaf position otherwise. -/
theorem roundUp_spec (n h : Nat) (hh : h ≤ trailingOnes n) :
    roundUpToLeafPos (mmr n + h) = if h = 0 then mmr n else mmr (n+1) := by
  simp [roundUpToLeafPos, insertionToPmmrIndex, peakMapHeight_coord n h hh]
  split <;> rfl

/-- … hence it returns the least leaf position ≥ pos. -/
theorem roundUp_ge (pos : Nat) : pos ≤ roundUpToLeafPos pos ∧ isLeaf (roundUpToLeafPos pos) = true := by
  obtain ⟨n, h, hh, rfl⟩ := coord_surjective pos
  rw [roundUp_spec n h hh]
  split
  · subst_vars
    exact ⟨by omega, (isLeaf_iff _).2 ⟨n, rfl⟩⟩
  · exact ⟨by rw [mmr_succ]; omega, (isLeaf_iff _).2 ⟨n+1, rfl⟩⟩

-- non-vacuity: leaf 4 of a 7-leaf MMR sits at position 7, node (3,2) at position 6
example : mmr 4 = 7 ∧ peakMapHeight 7 = (4, 0) ∧ peakMapHeight 6 = (3, 2) ∧ trailingOnes 3 = 2 := by
  have h4 : mmr 4 = 7 := by simp [mmr, popcount]
  have h3 : mmr 3 = 4 := by simp [mmr, popcount]
  have t3 : trailingOnes 3 = 2 := by simp [trailingOnes]
  refine ⟨h4, ?_, ?_, t3⟩
  · have := peakMapHeight_coord 4 0 (Nat.zero_le _); rwa [h4] at this
  · have := peakMapHeight_coord 3 2 (by omega); rwa [h3] at this

end GV.Props.C07
