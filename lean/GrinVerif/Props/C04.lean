import GrinVerif.Lemmas.ConsDiff
/-! # C04 — only headers obeying height, time, version, difficulty and PoW rules pass

Property theorems about the model `GV.Cons` (`Model/Cons.lean`) of `consensus.rs`,
`global::difficulty_data_to_vector`, `pow/types.rs` and `pipe::validate_header`.
All statements are for every window / header / chain type, no size bound.
Rust panics are the outcome `none` (resp. `Err.Panic`) of the model. -/
namespace GV.Props.C04
open GV GV.Gen GV.Cons

/-! ## The retarget is total (and exactly where it is not) -/

/-- DMA era: for every non-empty window — any length, any timestamps (equal, decreasing,
wrapping), any difficulties — `next_dma_difficulty` returns a value: no index out of range, no
division by zero. -/
theorem next_dma_total (ct : ChainType) (height : Nat) (cursor : List HDI) (hne : cursor ≠ []) :
    (nextDmaDifficulty ct height cursor).isSome = true := by
  obtain ⟨_, _, _, _, _, _, _, h⟩ := nextDmaDifficulty_eq ct height cursor hne
  simp [h]

/-- … and the excluded case is a panic (`last_n[0]` on an empty vector). -/
theorem next_dma_panics_on_empty (ct : ChainType) (height : Nat) :
    nextDmaDifficulty ct height [] = none := by
  simp [nextDmaDifficulty, difficultyDataToVector, DMA_WINDOW_val]

/-- WTEMA era: the code `unwrap`s the two latest entries — a window shorter than two panics. -/
theorem next_wtema_panics_on_short (ct : ChainType) (cursor : List HDI) (h : cursor.length < 2) :
    nextWtemaDifficulty ct cursor = none := by
  match cursor, h with
  | [], _ => rfl
  | [_], _ => rfl

/-- WTEMA era, at least two entries: the only remaining panic is the wrapped divisor
`WTEMA_HALF_LIFE - BLOCK_TIME_SEC + (last.ts - prev.ts)` being zero. -/
theorem next_wtema_none_iff (ct : ChainType) (last prev : HDI) (rest : List HDI) :
    nextWtemaDifficulty ct (last :: prev :: rest) = none ↔
      addW (subW WTEMA_HALF_LIFE BLOCK_TIME_SEC) (subW last.ts prev.ts) = 0 := by
  rw [nextWtemaDifficulty_cons]
  split <;> simp_all

/-- WTEMA era: with two entries whose timestamps do not decrease (and are in range, as every
decodable header's are) the retarget returns a value. -/
theorem next_wtema_total (ct : ChainType) (last prev : HDI) (rest : List HDI)
    (hle : prev.ts ≤ last.ts) (hr : last.ts + WTEMA_HALF_LIFE < 2^64) :
    nextWtemaDifficulty ct (last :: prev :: rest) = some (wtemaOf ct last prev) := by
  rw [nextWtemaDifficulty_cons, wtema_den_eq hle hr, if_neg]
  rw [WTEMA_HALF_LIFE_val, BLOCK_TIME_SEC_val]; omega

/-- `next_difficulty` is total on every window with at least two entries whose two latest
timestamps do not decrease, on every chain type and in every era. -/
theorem next_difficulty_total (ct : ChainType) (height : Nat) (last prev : HDI) (rest : List HDI)
    (hle : prev.ts ≤ last.ts) (hr : last.ts + WTEMA_HALF_LIFE < 2^64) :
    (nextDifficulty ct height (last :: prev :: rest)).isSome = true := by
  unfold nextDifficulty
  split
  · exact next_dma_total ct height _ (by simp)
  · rw [next_wtema_total ct last prev rest hle hr]; rfl

/-- In the DMA era a single entry (the genesis header) is enough. -/
theorem next_difficulty_total_dma (ct : ChainType) (height : Nat) (cursor : List HDI)
    (hv : headerVersion ct height < 5) (hne : cursor ≠ []) :
    (nextDifficulty ct height cursor).isSome = true := by
  unfold nextDifficulty
  rw [if_pos hv]
  exact next_dma_total ct height cursor hne

/-- The WTEMA era never starts before height 2 on any chain type, so a header chain with a
genesis always supplies the two entries the code unwraps (the iterator yields `height` entries
for a header at `height`). -/
theorem wtema_era_height (ct : ChainType) (height : Nat) (hv : ¬ headerVersion ct height < 5) :
    2 ≤ height :=
  headerVersion_ge5 (ct := ct) (by omega)

example : nextDifficulty .automatedTesting 13 [⟨120, 5, 0, false⟩, ⟨60, 5, 0, false⟩] =
    some ⟨1, 20, 0, true⟩ := by decide +kernel
example : nextDifficulty .automatedTesting 13 [⟨120, 5, 0, false⟩] = none := by decide +kernel
/-- the zero divisor: a timestamp 14340 s *before* its parent -/
example : nextDifficulty .mainnet 2000000 [⟨100000, 5, 0, false⟩, ⟨114340, 5, 0, false⟩] = none := by
  decide +kernel

/-! ## DMA bounds -/

/-- `next_dma_difficulty` on every non-empty window: the result is at least
`MIN_DMA_DIFFICULTY`; with `S` the (u64) sum of the last `DMA_WINDOW` difficulties of the padded
vector, it lies between `S·60 / (BTW·CLAMP)` and `max(MIN, S·60 / (BTW/CLAMP))`, i.e. between
half and twice the window average; and when the time span does not wrap (`+ 2·BTW` fits u64)
damping tightens the upper bound to `S·60 / ((DAMP-1)·BTW/DAMP)` (1.5 × the average). -/
theorem dma_bounds (ct : ChainType) (height : Nat) (cursor : List HDI) (hne : cursor ≠ []) :
    ∃ data hi lo r, difficultyDataToVector ct cursor = some data ∧ data.length = DMA_WINDOW + 1 ∧
      data[DMA_WINDOW]? = some hi ∧ data[0]? = some lo ∧
      nextDmaDifficulty ct height cursor = some r ∧
      MIN_DMA_DIFFICULTY ≤ r.diff ∧
      mulW (sumW ((data.drop 1).map (·.diff))) BLOCK_TIME_SEC / (BLOCK_TIME_WINDOW * CLAMP_FACTOR) ≤ r.diff ∧
      r.diff ≤ max MIN_DMA_DIFFICULTY
        (mulW (sumW ((data.drop 1).map (·.diff))) BLOCK_TIME_SEC / (BLOCK_TIME_WINDOW / CLAMP_FACTOR)) ∧
      (subW hi.ts lo.ts + (DMA_DAMP_FACTOR - 1) * BLOCK_TIME_WINDOW < 2^64 →
        r.diff ≤ max MIN_DMA_DIFFICULTY
          (mulW (sumW ((data.drop 1).map (·.diff))) BLOCK_TIME_SEC /
            ((DMA_DAMP_FACTOR - 1) * BLOCK_TIME_WINDOW / DMA_DAMP_FACTOR))) := by
  obtain ⟨data, hi, lo, hd, hl, hhi, hlo, hr⟩ := nextDmaDifficulty_eq ct height cursor hne
  refine ⟨data, hi, lo, _, hd, hl, hhi, hlo, hr, ?_⟩
  simp only [dmaDiff, fromNum]
  generalize mulW (sumW ((data.drop 1).map (·.diff))) BLOCK_TIME_SEC = x
  have hb := dmaAdjTs_bounds (subW hi.ts lo.ts)
  have hp := dmaAdjTs_pos (subW hi.ts lo.ts)
  have hmin := MIN_DMA_DIFFICULTY_pos
  have h1 : x / (BLOCK_TIME_WINDOW * CLAMP_FACTOR) ≤ x / dmaAdjTs (subW hi.ts lo.ts) :=
    Nat.div_le_div_left hb.2 hp
  have h2 : x / dmaAdjTs (subW hi.ts lo.ts) ≤ x / (BLOCK_TIME_WINDOW / CLAMP_FACTOR) :=
    Nat.div_le_div_left hb.1 BTW_div_clamp_pos
  have h3 : subW hi.ts lo.ts + (DMA_DAMP_FACTOR - 1) * BLOCK_TIME_WINDOW < 2^64 →
      x / dmaAdjTs (subW hi.ts lo.ts) ≤
      x / ((DMA_DAMP_FACTOR - 1) * BLOCK_TIME_WINDOW / DMA_DAMP_FACTOR) := fun hnw =>
    Nat.div_le_div_left (dmaAdjTs_lower_nowrap _ hnw) (by decide)
  revert h1 h2 h3
  generalize x / dmaAdjTs (subW hi.ts lo.ts) = q
  generalize x / (BLOCK_TIME_WINDOW * CLAMP_FACTOR) = q1
  generalize x / (BLOCK_TIME_WINDOW / CLAMP_FACTOR) = q2
  generalize x / ((DMA_DAMP_FACTOR - 1) * BLOCK_TIME_WINDOW / DMA_DAMP_FACTOR) = q3
  generalize MIN_DMA_DIFFICULTY = m at hmin ⊢
  intro h1 h2 h3
  refine ⟨by omega, by omega, by omega, ?_⟩
  intro hnw
  have := h3 hnw
  omega

/-- a longer time span never raises the DMA difficulty (non-wrapping spans) -/
theorem dma_antitone_in_span (d d' s : Nat) (hdd : d ≤ d')
    (h : d' + (DMA_DAMP_FACTOR - 1) * BLOCK_TIME_WINDOW < 2^64) : dmaDiff d' s ≤ dmaDiff d s := by
  unfold dmaDiff fromNum
  have := Nat.div_le_div_left (a := mulW s BLOCK_TIME_SEC) (dmaAdjTs_mono hdd h) (dmaAdjTs_pos d)
  revert this
  generalize mulW s BLOCK_TIME_SEC / dmaAdjTs d' = q'
  generalize mulW s BLOCK_TIME_SEC / dmaAdjTs d = q
  generalize MIN_DMA_DIFFICULTY = m
  omega

/-- non-vacuity: one genesis entry, padded to 61; `60·1000·60/3600 = 1000` -/
example : nextDmaDifficulty .mainnet 1 [⟨1000000, 1000, 1856, false⟩] = some ⟨1, 1000, 1843, true⟩ := by
  decide +kernel

/-! ## WTEMA bounds -/

/-- `next_wtema_difficulty` on in-range non-decreasing timestamps: at least the chain's minimum
(`min_wtema_graph_weight`), secondary scaling 0, the exact value, and the per-block increase
bound: never more than `last·H/(H-60)` (any block time), `last·H/(H-59)` for block time ≥ 1 s. -/
theorem wtema_bounds (ct : ChainType) (last prev : HDI) (rest : List HDI)
    (hle : prev.ts ≤ last.ts) (hr : last.ts + WTEMA_HALF_LIFE < 2^64) :
    ∃ r, nextWtemaDifficulty ct (last :: prev :: rest) = some r ∧
      minWtemaGraphWeight ct ≤ r.diff ∧ 1 ≤ r.diff ∧ r.scaling = 0 ∧
      r.diff = max (minWtemaGraphWeight ct) (fromNum (mulW last.diff WTEMA_HALF_LIFE /
                  (WTEMA_HALF_LIFE - BLOCK_TIME_SEC + (last.ts - prev.ts)))) ∧
      r.diff ≤ max (minWtemaGraphWeight ct)
                  (fromNum (mulW last.diff WTEMA_HALF_LIFE / (WTEMA_HALF_LIFE - BLOCK_TIME_SEC))) ∧
      (prev.ts < last.ts → r.diff ≤ max (minWtemaGraphWeight ct)
                  (fromNum (mulW last.diff WTEMA_HALF_LIFE / (WTEMA_HALF_LIFE - BLOCK_TIME_SEC + 1)))) := by
  refine ⟨_, next_wtema_total ct last prev rest hle hr, ?_⟩
  simp only [wtemaOf, wtema_den_eq hle hr, fromNum]
  generalize mulW last.diff WTEMA_HALF_LIFE = x
  have hpos : 0 < WTEMA_HALF_LIFE - BLOCK_TIME_SEC := by decide
  have h1 : x / (WTEMA_HALF_LIFE - BLOCK_TIME_SEC + (last.ts - prev.ts)) ≤ x / (WTEMA_HALF_LIFE - BLOCK_TIME_SEC) :=
    Nat.div_le_div_left (by omega) hpos
  have h2 : prev.ts < last.ts → x / (WTEMA_HALF_LIFE - BLOCK_TIME_SEC + (last.ts - prev.ts)) ≤
      x / (WTEMA_HALF_LIFE - BLOCK_TIME_SEC + 1) := fun hlt =>
    Nat.div_le_div_left (by omega) (by omega)
  revert h1 h2
  generalize x / (WTEMA_HALF_LIFE - BLOCK_TIME_SEC + (last.ts - prev.ts)) = q
  generalize x / (WTEMA_HALF_LIFE - BLOCK_TIME_SEC) = q1
  generalize x / (WTEMA_HALF_LIFE - BLOCK_TIME_SEC + 1) = q2
  generalize minWtemaGraphWeight ct = m
  intro h1 h2
  refine ⟨by omega, by omega, trivial, trivial, by omega, ?_⟩
  intro hlt
  have := h2 hlt
  omega

/-- monotone in block time: a later timestamp on the last header (same difficulty) never gives a
higher next difficulty -/
theorem wtema_antitone_in_block_time (ct : ChainType) (last last' prev : HDI)
    (hd : last'.diff = last.diff) (hle : prev.ts ≤ last.ts) (hll : last.ts ≤ last'.ts)
    (hr : last'.ts + WTEMA_HALF_LIFE < 2^64) :
    (wtemaOf ct last' prev).diff ≤ (wtemaOf ct last prev).diff := by
  simp only [wtemaOf, wtema_den_eq hle (by omega), wtema_den_eq (Nat.le_trans hle hll) hr, fromNum, hd]
  have hpos : 0 < WTEMA_HALF_LIFE - BLOCK_TIME_SEC := by decide
  have := Nat.div_le_div_left (a := mulW last.diff WTEMA_HALF_LIFE)
    (show WTEMA_HALF_LIFE - BLOCK_TIME_SEC + (last.ts - prev.ts) ≤
          WTEMA_HALF_LIFE - BLOCK_TIME_SEC + (last'.ts - prev.ts) by omega) (by omega)
  revert this
  generalize mulW last.diff WTEMA_HALF_LIFE / (WTEMA_HALF_LIFE - BLOCK_TIME_SEC + (last'.ts - prev.ts)) = q'
  generalize mulW last.diff WTEMA_HALF_LIFE / (WTEMA_HALF_LIFE - BLOCK_TIME_SEC + (last.ts - prev.ts)) = q
  generalize minWtemaGraphWeight ct = m
  omega

/-- a block on target (60 s) keeps the difficulty: non-vacuity of `wtema_bounds` -/
example : nextWtemaDifficulty .mainnet [⟨1060, 1000000, 0, false⟩, ⟨1000, 999, 0, false⟩] =
    some ⟨1, 1000000, 0, true⟩ := by decide +kernel

/-! ## secondary scaling bounds -/

/-- `secondary_pow_scaling` is total; the damped, clamped count stays within a factor
`CLAMP_FACTOR` of the target count; the result is a `u32`; and **when the `as u32` cast does not
truncate** it is `max(MIN_AR_SCALE, scale) ≥ MIN_AR_SCALE`. -/
theorem scaling_bounds (height : Nat) (data : List HDI) :
    ∃ s, secondaryPowScaling height data = some s ∧ s < 2^32 ∧
      mulW DMA_WINDOW (secondaryPowRatio height) / CLAMP_FACTOR ≤ arAdjCount height data ∧
      arAdjCount height data ≤ max (mulW DMA_WINDOW (secondaryPowRatio height) / CLAMP_FACTOR)
                                 (mulW (mulW DMA_WINDOW (secondaryPowRatio height)) CLAMP_FACTOR) ∧
      (max MIN_AR_SCALE (arScale height data) < 2^32 →
        s = max MIN_AR_SCALE (arScale height data) ∧ MIN_AR_SCALE ≤ s) := by
  refine ⟨_, secondaryPowScaling_eq height data, Nat.mod_lt _ (by decide), ?_, ?_, ?_⟩
  · unfold arAdjCount; exact Nat.le_max_left _ _
  · unfold arAdjCount
    simp only
    omega
  · intro h
    rw [Nat.mod_eq_of_lt h]
    exact ⟨rfl, Nat.le_max_left _ _⟩

/-- The no-truncation hypothesis of `scaling_bounds` is needed: 60 entries with secondary
scalings ≈ 0.92·2^32 and no secondary block give scale `2^32`, which the `as u32` cast
turns into 0 < `MIN_AR_SCALE` (reproduced on the real function by the harness). -/
example : secondaryPowScaling 0
    (List.replicate 59 ⟨0, 1, 3964095741, false⟩ ++ [⟨0, 1, 3964095762, false⟩]) = some 0 := by
  decide +kernel

example : secondaryPowScaling 0 (List.replicate 60 ⟨0, 1, 1856, true⟩) = some 1840 := by decide +kernel

/-! ## header versions -/

/-- scheduled versions never exceed 5 -/
theorem header_version_le (ct : ChainType) (h : Nat) : headerVersion ct h ≤ 5 :=
  headerVersion_le ct h

/-- below the `u16` wrap of the interval count, the mainnet / testing schedule is
`min(5, 1 + height / interval)` (monotone, 1 at genesis) -/
theorem header_version_schedule (h i : Nat) (hlt : h / i < 2^16 - 1) :
    hfVersion h i = min 5 (1 + h / i) := by
  unfold hfVersion
  rw [Nat.mod_eq_of_lt (by omega)]

/-- the `as u16` cast wraps: on the testing chains height 196605 is scheduled version 0 -/
example : headerVersion .automatedTesting (65535 * TESTING_HARD_FORK_INTERVAL) = 0 := by decide +kernel
example : headerVersion .mainnet (4 * HARD_FORK_INTERVAL) = 5 := by decide +kernel
example : headerVersion .mainnet (4 * HARD_FORK_INTERVAL - 1) = 4 := by decide +kernel

end GV.Props.C04
