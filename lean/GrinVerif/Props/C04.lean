import GrinVerif.Lemmas.ConsNode
import GrinVerif.Model.ConsNet
import GrinVerif.Props.C05
/-! # C04 — only headers obeying height, time, version, difficulty and PoW rules pass

Property theorems about the model `GV.Cons` (`Model/Cons.lean`) of `consensus.rs`,
`global::difficulty_data_to_vector`, `pow/types.rs` and `pipe::validate_header`.
All statements are for every window / header / chain type, no size bound.
Rust panics are the outcome `none` (resp. `Err.Panic`) of the model. -/
namespace GV.Props.C04
open GV GV.Gen GV.Cons

/-! ## The retarget is total (and exactly where it is not) -/

/-- DMA era: for every non-empty window — any length, any timestamps (equal, decreasing,
wrapping), any difficulties — `next_dma_difficulty` returns a value: no index out of range, no
division by zero. -/
theorem next_dma_total (ct : ChainType) (height : Nat) (cursor : List HDI) (hne : cursor ≠ []) :
    (nextDmaDifficulty ct height cursor).isSome = true := by
  obtain ⟨_, _, _, _, _, _, _, h⟩ := nextDmaDifficulty_eq ct height cursor hne
  simp [h]

/-- … and the excluded case is a panic (`last_n[0]` on an empty vector). -/
theorem next_dma_panics_on_empty (ct : ChainType) (height : Nat) :
    nextDmaDifficulty ct height [] = none := by
  simp [nextDmaDifficulty, difficultyDataToVector, DMA_WINDOW_val]

/-- WTEMA era: the code `unwrap`s the two latest entries — a window shorter than two panics. -/
theorem next_wtema_panics_on_short (ct : ChainType) (cursor : List HDI) (h : cursor.length < 2) :
    nextWtemaDifficulty ct cursor = none := by
  match cursor, h with
  | [], _ => rfl
  | [_], _ => rfl

/-- WTEMA era, at least two entries: the only remaining panic is the wrapped divisor
`WTEMA_HALF_LIFE - BLOCK_TIME_SEC + (last.ts - prev.ts)` being zero. -/
theorem next_wtema_none_iff (ct : ChainType) (last prev : HDI) (rest : List HDI) :
    nextWtemaDifficulty ct (last :: prev :: rest) = none ↔
      addW (subW WTEMA_HALF_LIFE BLOCK_TIME_SEC) (subW last.ts prev.ts) = 0 := by
  rw [nextWtemaDifficulty_cons]
  split <;> simp_all

/-- WTEMA era: with two entries whose timestamps do not decrease (and are in range, as every
decodable header's are) the retarget returns a value. -/
theorem next_wtema_total (ct : ChainType) (last prev : HDI) (rest : List HDI)
    (hle : prev.ts ≤ last.ts) (hr : last.ts + WTEMA_HALF_LIFE < 2^64) :
    nextWtemaDifficulty ct (last :: prev :: rest) = some (wtemaOf ct last prev) := by
  rw [nextWtemaDifficulty_cons, wtema_den_eq hle hr, if_neg]
  rw [WTEMA_HALF_LIFE_val, BLOCK_TIME_SEC_val]; omega

/-- `next_difficulty` is total on every window with at least two entries whose two latest
timestamps do not decrease, on every chain type and in every era. -/
theorem next_difficulty_total (ct : ChainType) (height : Nat) (last prev : HDI) (rest : List HDI)
    (hle : prev.ts ≤ last.ts) (hr : last.ts + WTEMA_HALF_LIFE < 2^64) :
    (nextDifficulty ct height (last :: prev :: rest)).isSome = true := by
  unfold nextDifficulty
  split
  · exact next_dma_total ct height _ (by simp)
  · rw [next_wtema_total ct last prev rest hle hr]; rfl

/-- In the DMA era a single entry (the genesis header) is enough. -/
theorem next_difficulty_total_dma (ct : ChainType) (height : Nat) (cursor : List HDI)
    (hv : headerVersion ct height < 5) (hne : cursor ≠ []) :
    (nextDifficulty ct height cursor).isSome = true := by
  unfold nextDifficulty
  rw [if_pos hv]
  exact next_dma_total ct height cursor hne

/-- The WTEMA era never starts before height 2 on any chain type, so a header chain with a
genesis always supplies the two entries the code unwraps (the iterator yields `height` entries
for a header at `height`). -/
theorem wtema_era_height (ct : ChainType) (height : Nat) (hv : ¬ headerVersion ct height < 5) :
    2 ≤ height :=
  headerVersion_ge5 (ct := ct) (by omega)

example : nextDifficulty .automatedTesting 13 [⟨120, 5, 0, false⟩, ⟨60, 5, 0, false⟩] =
    some ⟨1, 20, 0, true⟩ := by decide +kernel
example : nextDifficulty .automatedTesting 13 [⟨120, 5, 0, false⟩] = none := by decide +kernel
/-- the zero divisor: a timestamp 14340 s *before* its parent -/
example : nextDifficulty .mainnet 2000000 [⟨100000, 5, 0, false⟩, ⟨114340, 5, 0, false⟩] = none := by
  decide +kernel

/-! ## DMA bounds -/

/-- `next_dma_difficulty` on every non-empty window: the result is at least
`MIN_DMA_DIFFICULTY`; with `S` the (u64) sum of the last `DMA_WINDOW` difficulties of the padded
vector, it lies between `S·60 / (BTW·CLAMP)` and `max(MIN, S·60 / (BTW/CLAMP))`, i.e. between
half and twice the window average; and when the time span does not wrap (`+ 2·BTW` fits u64)
damping tightens the upper bound to `S·60 / ((DAMP-1)·BTW/DAMP)` (1.5 × the average). -/
theorem dma_bounds (ct : ChainType) (height : Nat) (cursor : List HDI) (hne : cursor ≠ []) :
    ∃ data hi lo r, difficultyDataToVector ct cursor = some data ∧ data.length = DMA_WINDOW + 1 ∧
      data[DMA_WINDOW]? = some hi ∧ data[0]? = some lo ∧
      nextDmaDifficulty ct height cursor = some r ∧
      MIN_DMA_DIFFICULTY ≤ r.diff ∧
      mulW (sumW ((data.drop 1).map (·.diff))) BLOCK_TIME_SEC / (BLOCK_TIME_WINDOW * CLAMP_FACTOR) ≤ r.diff ∧
      r.diff ≤ max MIN_DMA_DIFFICULTY
        (mulW (sumW ((data.drop 1).map (·.diff))) BLOCK_TIME_SEC / (BLOCK_TIME_WINDOW / CLAMP_FACTOR)) ∧
      (subW hi.ts lo.ts + (DMA_DAMP_FACTOR - 1) * BLOCK_TIME_WINDOW < 2^64 →
        r.diff ≤ max MIN_DMA_DIFFICULTY
          (mulW (sumW ((data.drop 1).map (·.diff))) BLOCK_TIME_SEC /
            ((DMA_DAMP_FACTOR - 1) * BLOCK_TIME_WINDOW / DMA_DAMP_FACTOR))) := by
  obtain ⟨data, hi, lo, hd, hl, hhi, hlo, hr⟩ := nextDmaDifficulty_eq ct height cursor hne
  refine ⟨data, hi, lo, _, hd, hl, hhi, hlo, hr, ?_⟩
  simp only [dmaDiff, fromNum]
  generalize mulW (sumW ((data.drop 1).map (·.diff))) BLOCK_TIME_SEC = x
  have hb := dmaAdjTs_bounds (subW hi.ts lo.ts)
  have hp := dmaAdjTs_pos (subW hi.ts lo.ts)
  have hmin := MIN_DMA_DIFFICULTY_pos
  have h1 : x / (BLOCK_TIME_WINDOW * CLAMP_FACTOR) ≤ x / dmaAdjTs (subW hi.ts lo.ts) :=
    Nat.div_le_div_left hb.2 hp
  have h2 : x / dmaAdjTs (subW hi.ts lo.ts) ≤ x / (BLOCK_TIME_WINDOW / CLAMP_FACTOR) :=
    Nat.div_le_div_left hb.1 BTW_div_clamp_pos
  have h3 : subW hi.ts lo.ts + (DMA_DAMP_FACTOR - 1) * BLOCK_TIME_WINDOW < 2^64 →
      x / dmaAdjTs (subW hi.ts lo.ts) ≤
      x / ((DMA_DAMP_FACTOR - 1) * BLOCK_TIME_WINDOW / DMA_DAMP_FACTOR) := fun hnw =>
    Nat.div_le_div_left (dmaAdjTs_lower_nowrap _ hnw) (by decide)
  revert h1 h2 h3
  generalize x / dmaAdjTs (subW hi.ts lo.ts) = q
  generalize x / (BLOCK_TIME_WINDOW * CLAMP_FACTOR) = q1
  generalize x / (BLOCK_TIME_WINDOW / CLAMP_FACTOR) = q2
  generalize x / ((DMA_DAMP_FACTOR - 1) * BLOCK_TIME_WINDOW / DMA_DAMP_FACTOR) = q3
  generalize MIN_DMA_DIFFICULTY = m at hmin ⊢
  intro h1 h2 h3
  refine ⟨by omega, by omega, by omega, ?_⟩
  intro hnw
  have := h3 hnw
  omega

/-- a longer time span never raises the DMA difficulty (non-wrapping spans) -/
theorem dma_antitone_in_span (d d' s : Nat) (hdd : d ≤ d')
    (h : d' + (DMA_DAMP_FACTOR - 1) * BLOCK_TIME_WINDOW < 2^64) : dmaDiff d' s ≤ dmaDiff d s := by
  unfold dmaDiff fromNum
  have := Nat.div_le_div_left (a := mulW s BLOCK_TIME_SEC) (dmaAdjTs_mono hdd h) (dmaAdjTs_pos d)
  revert this
  generalize mulW s BLOCK_TIME_SEC / dmaAdjTs d' = q'
  generalize mulW s BLOCK_TIME_SEC / dmaAdjTs d = q
  generalize MIN_DMA_DIFFICULTY = m
  omega

/-- `dma_bounds` without the wrapping helper: if `S · 60` fits `u64` the result lies between half
the window average `S/60` and twice it (1.5 × when the span does not wrap), floor-divided. -/
theorem dma_bounds_nowrap (tsDelta s : Nat) (hs : s * BLOCK_TIME_SEC < 2^64) :
    s / 120 ≤ dmaDiff tsDelta s ∧ dmaDiff tsDelta s ≤ max MIN_DMA_DIFFICULTY (s / 30) ∧
    (tsDelta + (DMA_DAMP_FACTOR - 1) * BLOCK_TIME_WINDOW < 2^64 →
      dmaDiff tsDelta s ≤ max MIN_DMA_DIFFICULTY (s / 40)) := by
  unfold dmaDiff fromNum
  rw [mulW_eq hs, BLOCK_TIME_SEC_val]
  have hb := dmaAdjTs_bounds tsDelta
  have hp := dmaAdjTs_pos tsDelta
  rw [BLOCK_TIME_WINDOW_val, CLAMP_FACTOR_val] at hb
  have h1 : s * 60 / (3600 * 2) ≤ s * 60 / dmaAdjTs tsDelta := Nat.div_le_div_left hb.2 hp
  have h2 : s * 60 / dmaAdjTs tsDelta ≤ s * 60 / (3600 / 2) := Nat.div_le_div_left hb.1 (by decide)
  have h3 : tsDelta + (DMA_DAMP_FACTOR - 1) * BLOCK_TIME_WINDOW < 2^64 →
      s * 60 / dmaAdjTs tsDelta ≤ s * 60 / 2400 := fun hnw => by
    have := dmaAdjTs_lower_nowrap tsDelta hnw
    rw [DMA_DAMP_FACTOR_val, BLOCK_TIME_WINDOW_val] at this
    exact Nat.div_le_div_left this (by decide)
  have e1 : s * 60 / (3600 * 2) = s / 120 := by omega
  have e2 : s * 60 / (3600 / 2) = s / 30 := by omega
  have e3 : s * 60 / 2400 = s / 40 := by omega
  rw [e1] at h1; rw [e2] at h2; rw [e3] at h3
  have hmin := MIN_DMA_DIFFICULTY_pos
  revert h1 h2 h3 hmin
  generalize s * 60 / dmaAdjTs tsDelta = q
  generalize MIN_DMA_DIFFICULTY = m
  intro h1 h2 h3 hmin
  refine ⟨by omega, by omega, fun hnw => ?_⟩
  have := h3 hnw
  omega

/-- non-vacuity: one genesis entry, padded to 61; `60·1000·60/3600 = 1000` -/
example : nextDmaDifficulty .mainnet 1 [⟨1000000, 1000, 1856, false⟩] = some ⟨1, 1000, 1843, true⟩ := by
  decide +kernel

/-! ## WTEMA bounds -/

/-- `next_wtema_difficulty` on in-range non-decreasing timestamps: at least the chain's minimum
(`min_wtema_graph_weight`), secondary scaling 0, the exact value, and the per-block increase
bound: never more than `last·H/(H-60)` (any block time), `last·H/(H-59)` for block time ≥ 1 s. -/
theorem wtema_bounds (ct : ChainType) (last prev : HDI) (rest : List HDI)
    (hle : prev.ts ≤ last.ts) (hr : last.ts + WTEMA_HALF_LIFE < 2^64) :
    ∃ r, nextWtemaDifficulty ct (last :: prev :: rest) = some r ∧
      minWtemaGraphWeight ct ≤ r.diff ∧ 1 ≤ r.diff ∧ r.scaling = 0 ∧
      r.diff = max (minWtemaGraphWeight ct) (fromNum (mulW last.diff WTEMA_HALF_LIFE /
                  (WTEMA_HALF_LIFE - BLOCK_TIME_SEC + (last.ts - prev.ts)))) ∧
      r.diff ≤ max (minWtemaGraphWeight ct)
                  (fromNum (mulW last.diff WTEMA_HALF_LIFE / (WTEMA_HALF_LIFE - BLOCK_TIME_SEC))) ∧
      (prev.ts < last.ts → r.diff ≤ max (minWtemaGraphWeight ct)
                  (fromNum (mulW last.diff WTEMA_HALF_LIFE / (WTEMA_HALF_LIFE - BLOCK_TIME_SEC + 1)))) := by
  refine ⟨_, next_wtema_total ct last prev rest hle hr, ?_⟩
  simp only [wtemaOf, wtema_den_eq hle hr, fromNum]
  generalize mulW last.diff WTEMA_HALF_LIFE = x
  have hpos : 0 < WTEMA_HALF_LIFE - BLOCK_TIME_SEC := by decide
  have h1 : x / (WTEMA_HALF_LIFE - BLOCK_TIME_SEC + (last.ts - prev.ts)) ≤ x / (WTEMA_HALF_LIFE - BLOCK_TIME_SEC) :=
    Nat.div_le_div_left (by omega) hpos
  have h2 : prev.ts < last.ts → x / (WTEMA_HALF_LIFE - BLOCK_TIME_SEC + (last.ts - prev.ts)) ≤
      x / (WTEMA_HALF_LIFE - BLOCK_TIME_SEC + 1) := fun hlt =>
    Nat.div_le_div_left (by omega) (by omega)
  revert h1 h2
  generalize x / (WTEMA_HALF_LIFE - BLOCK_TIME_SEC + (last.ts - prev.ts)) = q
  generalize x / (WTEMA_HALF_LIFE - BLOCK_TIME_SEC) = q1
  generalize x / (WTEMA_HALF_LIFE - BLOCK_TIME_SEC + 1) = q2
  generalize minWtemaGraphWeight ct = m
  intro h1 h2
  refine ⟨by omega, by omega, trivial, trivial, by omega, ?_⟩
  intro hlt
  have := h2 hlt
  omega

/-- monotone in block time: a later timestamp on the last header (same difficulty) never gives a
higher next difficulty -/
theorem wtema_antitone_in_block_time (ct : ChainType) (last last' prev : HDI)
    (hd : last'.diff = last.diff) (hle : prev.ts ≤ last.ts) (hll : last.ts ≤ last'.ts)
    (hr : last'.ts + WTEMA_HALF_LIFE < 2^64) :
    (wtemaOf ct last' prev).diff ≤ (wtemaOf ct last prev).diff := by
  simp only [wtemaOf, wtema_den_eq hle (by omega), wtema_den_eq (Nat.le_trans hle hll) hr, fromNum, hd]
  have hpos : 0 < WTEMA_HALF_LIFE - BLOCK_TIME_SEC := by decide
  have := Nat.div_le_div_left (a := mulW last.diff WTEMA_HALF_LIFE)
    (show WTEMA_HALF_LIFE - BLOCK_TIME_SEC + (last.ts - prev.ts) ≤
          WTEMA_HALF_LIFE - BLOCK_TIME_SEC + (last'.ts - prev.ts) by omega) (by omega)
  revert this
  generalize mulW last.diff WTEMA_HALF_LIFE / (WTEMA_HALF_LIFE - BLOCK_TIME_SEC + (last'.ts - prev.ts)) = q'
  generalize mulW last.diff WTEMA_HALF_LIFE / (WTEMA_HALF_LIFE - BLOCK_TIME_SEC + (last.ts - prev.ts)) = q
  generalize minWtemaGraphWeight ct = m
  omega

/-- a block on target (60 s) keeps the difficulty: non-vacuity of `wtema_bounds` -/
example : nextWtemaDifficulty .mainnet [⟨1060, 1000000, 0, false⟩, ⟨1000, 999, 0, false⟩] =
    some ⟨1, 1000000, 0, true⟩ := by decide +kernel

/-- The WTEMA product `last_diff * WTEMA_HALF_LIFE` is a plain `u64` multiplication: above
`2^64 / 14400 ≈ 1.28e15` it wraps (release) and the next difficulty collapses to the minimum. -/
example : nextWtemaDifficulty .mainnet [⟨1060, 2^64 / 14400 + 1, 0, false⟩, ⟨1000, 5, 0, false⟩] =
    some ⟨1, 16384, 0, true⟩ := by decide +kernel

/-! ## secondary scaling bounds -/

/-- `secondary_pow_scaling` is total; the damped, clamped count stays within a factor
`CLAMP_FACTOR` of the target count; the result is a `u32`; and **when the `as u32` cast does not
truncate** it is `max(MIN_AR_SCALE, scale) ≥ MIN_AR_SCALE`. -/
theorem scaling_bounds (height : Nat) (data : List HDI) :
    ∃ s, secondaryPowScaling height data = some s ∧ s < 2^32 ∧
      mulW DMA_WINDOW (secondaryPowRatio height) / CLAMP_FACTOR ≤ arAdjCount height data ∧
      arAdjCount height data ≤ max (mulW DMA_WINDOW (secondaryPowRatio height) / CLAMP_FACTOR)
                                 (mulW (mulW DMA_WINDOW (secondaryPowRatio height)) CLAMP_FACTOR) ∧
      (max MIN_AR_SCALE (arScale height data) < 2^32 →
        s = max MIN_AR_SCALE (arScale height data) ∧ MIN_AR_SCALE ≤ s) := by
  refine ⟨_, secondaryPowScaling_eq height data, Nat.mod_lt _ (by decide), ?_, ?_, ?_⟩
  · unfold arAdjCount; exact Nat.le_max_left _ _
  · unfold arAdjCount
    simp only
    omega
  · intro h
    rw [Nat.mod_eq_of_lt h]
    exact ⟨rfl, Nat.le_max_left _ _⟩

/-- The no-truncation hypothesis of `scaling_bounds` is needed: 60 entries with secondary
scalings ≈ 0.92·2^32 and no secondary block give scale `2^32`, which the `as u32` cast
turns into 0 < `MIN_AR_SCALE` (reproduced on the real function by the harness). -/
example : secondaryPowScaling 0
    (List.replicate 59 ⟨0, 1, 3964095741, false⟩ ++ [⟨0, 1, 3964095762, false⟩]) = some 0 := by
  decide +kernel

example : secondaryPowScaling 0 (List.replicate 60 ⟨0, 1, 1856, true⟩) = some 1840 := by decide +kernel

/-! ## header versions -/

/-- scheduled versions never exceed 5 -/
theorem header_version_le (ct : ChainType) (h : Nat) : headerVersion ct h ≤ 5 :=
  headerVersion_le ct h

/-- below the `u16` wrap of the interval count, the mainnet / testing schedule is
`min(5, 1 + height / interval)` (monotone, 1 at genesis) -/
theorem header_version_schedule (h i : Nat) (hlt : h / i < 2^16 - 1) :
    hfVersion h i = min 5 (1 + h / i) := by
  unfold hfVersion
  rw [Nat.mod_eq_of_lt (by omega)]

/-- the `as u16` cast wraps: on the testing chains height 196605 is scheduled version 0 -/
example : headerVersion .automatedTesting (65535 * TESTING_HARD_FORK_INTERVAL) = 0 := by decide +kernel
example : headerVersion .mainnet (4 * HARD_FORK_INTERVAL) = 5 := by decide +kernel
example : headerVersion .mainnet (4 * HARD_FORK_INTERVAL - 1) = 4 := by decide +kernel

/-! ## `validate_header`: the decision logic stated outright

The rules as propositions (`HeaderRules`, `DifficultyRules`) and the order of the checks
(`errRank`, `passedBeyond`) are defined in `Lemmas/ConsHeader.lean`. -/

/-- **Soundness and completeness of acceptance**: `validate_header` accepts exactly the headers
that satisfy every rule. -/
theorem validate_header_iff (c : Ctx) (h : Hdr) :
    validateHeader c h = .ok () ↔ HeaderRules c h := by
  unfold validateHeader HeaderRules
  by_cases h1 : c.denied = true
  · simp [h1]
  rw [if_neg h1]
  have h1' : c.denied = false := by simpa using h1
  cases hp : c.prev with
  | none => simp
  | some prev =>
    simp only [h1', true_and, Option.some.injEq, exists_eq_left']
    by_cases h2 : ¬ h.height = addW prev.height 1
    · simp [h2]
    have h2 : h.height = addW prev.height 1 := by simpa using h2
    rw [if_neg (by simpa using h2)]
    by_cases h3 : ¬ h.version = headerVersion c.ct h.height
    · simp [h3, validHeaderVersion]
    have h3 : h.version = headerVersion c.ct h.height := by simpa using h3
    rw [if_neg (by simp [validHeaderVersion, h3])]
    by_cases h4 : ¬ prev.ts < h.ts
    · have : h.ts ≤ prev.ts := by omega
      simp [h4, this]
    have h4 : prev.ts < h.ts := by simpa using h4
    rw [if_neg (by omega)]
    split
    · rename_i h5
      simp only [numNew, satSub] at h5
      simp only [reduceCtorEq, false_iff]
      intro hc
      have := hc.2.2.2.1
      have := hc.2.2.2.2.1
      omega
    rename_i h5
    simp only [numNew, satSub] at h5
    have h5a : Pmmr.nLeaves prev.outputMmrSize < Pmmr.nLeaves h.outputMmrSize := by omega
    have h5b : Pmmr.nLeaves prev.kernelMmrSize < Pmmr.nLeaves h.kernelMmrSize := by omega
    split
    · rename_i h6
      simp only [numNew, satSub] at h6
      simp only [reduceCtorEq, false_iff]
      intro hc
      have := hc.2.2.2.2.2.1
      omega
    rename_i h6
    simp only [numNew, satSub] at h6
    have h6' := Nat.le_of_not_gt h6
    simp only [eq_true h2, eq_true h3, eq_true h4, eq_true h5a, eq_true h5b, eq_true h6', true_and]
    split
    · rename_i h7
      simp [h7]
    rename_i h7
    have h7' : c.skipPow = false := by simpa using h7
    simp only [h7', true_implies]
    exact validate_difficulty_iff c prev h

/-- `validate_header … = ok →` every rule holds (the statement of DESIGN §4 C04). -/
theorem validate_header_sound (c : Ctx) (h : Hdr) (hv : validateHeader c h = .ok ()) :
    HeaderRules c h :=
  (validate_header_iff c h).mp hv

/-- a header violating any rule is rejected with some error -/
theorem validate_header_complete (c : Ctx) (h : Hdr) (hv : ¬ HeaderRules c h) :
    ∃ e, validateHeader c h = .error e := by
  cases hr : validateHeader c h with
  | error e => exact ⟨e, rfl⟩
  | ok u => cases u; exact absurd ((validate_header_iff c h).mp hr) hv

/-- **Which checks a result has passed.**  If `validate_header` accepts, or rejects with an error
of a check later than check `k`, then rule `k` holds.  Read contrapositively: a header violating
rule `k` is rejected with an error of rank ≤ `k` (that rule's error or one of an earlier check). -/
theorem validate_header_prefix (c : Ctx) (h : Hdr) :
    (passedBeyond (validateHeader c h) 0 → c.denied = false) ∧
    (passedBeyond (validateHeader c h) 1 → ∃ prev, c.prev = some prev ∧
      (passedBeyond (validateHeader c h) 2 → h.height = addW prev.height 1) ∧
      (passedBeyond (validateHeader c h) 3 → h.version = headerVersion c.ct h.height) ∧
      (passedBeyond (validateHeader c h) 4 → prev.ts < h.ts) ∧
      (passedBeyond (validateHeader c h) 5 →
        Pmmr.nLeaves prev.outputMmrSize < Pmmr.nLeaves h.outputMmrSize ∧
        Pmmr.nLeaves prev.kernelMmrSize < Pmmr.nLeaves h.kernelMmrSize) ∧
      (passedBeyond (validateHeader c h) 6 →
        weightByIok 0 (Pmmr.nLeaves h.outputMmrSize - Pmmr.nLeaves prev.outputMmrSize)
          (Pmmr.nLeaves h.kernelMmrSize - Pmmr.nLeaves prev.kernelMmrSize) ≤ maxBlockWeight c.ct) ∧
      (c.skipPow = false →
        (passedBeyond (validateHeader c h) 7 →
          isPrimary c.ct h.edgeBits = true ∨ isSecondary h.edgeBits = true) ∧
        (passedBeyond (validateHeader c h) 8 → c.powOk = true) ∧
        (passedBeyond (validateHeader c h) 9 → prev.totalDiff < h.totalDiff ∧
          h.totalDiff - prev.totalDiff ≤ toDifficulty c.ct h.height h.edgeBits h.secondaryScaling h.hash64) ∧
        (passedBeyond (validateHeader c h) 10 →
          ∃ next, nextDifficulty c.ct h.height c.window = some next ∧
            (passedBeyond (validateHeader c h) 11 → h.totalDiff - prev.totalDiff = next.diff) ∧
            (passedBeyond (validateHeader c h) 12 → h.version < 5 → h.secondaryScaling = next.scaling)))) := by
  generalize hr : validateHeader c h = r
  unfold validateHeader at hr
  split at hr
  · subst hr; simp [passedBeyond, errRank]
  rename_i h1
  have h1' : c.denied = false := by simpa using h1
  split at hr
  · subst hr; simp [passedBeyond, errRank, h1']
  rename_i prev hp
  refine ⟨fun _ => h1', fun _ => ⟨prev, hp, ?_⟩⟩
  split at hr
  · subst hr; simp [passedBeyond, errRank]
  rename_i h2
  have h2' : h.height = addW prev.height 1 := by simpa using h2
  split at hr
  · subst hr; simp [passedBeyond, errRank, h2']
  rename_i h3
  have h3' : h.version = headerVersion c.ct h.height := by simpa [validHeaderVersion] using h3
  split at hr
  · subst hr; simp [passedBeyond, errRank, h2', h3']
  rename_i h4
  have h4' : prev.ts < h.ts := by omega
  split at hr
  · subst hr; simp [passedBeyond, errRank, h2', h3', h4']
  rename_i h5
  simp only [numNew, satSub] at h5
  have h5a : Pmmr.nLeaves prev.outputMmrSize < Pmmr.nLeaves h.outputMmrSize := by omega
  have h5b : Pmmr.nLeaves prev.kernelMmrSize < Pmmr.nLeaves h.kernelMmrSize := by omega
  split at hr
  · subst hr; simp [passedBeyond, errRank, h2', h3', h4', h5a, h5b]
  rename_i h6
  simp only [numNew, satSub] at h6
  have h6' := Nat.le_of_not_gt h6
  refine ⟨fun _ => h2', fun _ => h3', fun _ => h4', fun _ => ⟨h5a, h5b⟩, fun _ => h6', ?_⟩
  intro hskip
  rw [if_neg (by simp [hskip])] at hr
  subst hr
  exact validate_difficulty_prefix c prev h

/-- the rules a result has got past, with the parent fixed (flat form of `validate_header_prefix`) -/
theorem rules_of_passed (c : Ctx) (h prev : Hdr) (hp : c.prev = some prev) :
    (passedBeyond (validateHeader c h) 2 → h.height = addW prev.height 1) ∧
    (passedBeyond (validateHeader c h) 3 → h.version = headerVersion c.ct h.height) ∧
    (passedBeyond (validateHeader c h) 4 → prev.ts < h.ts) ∧
    (passedBeyond (validateHeader c h) 5 →
      Pmmr.nLeaves prev.outputMmrSize < Pmmr.nLeaves h.outputMmrSize ∧
      Pmmr.nLeaves prev.kernelMmrSize < Pmmr.nLeaves h.kernelMmrSize) ∧
    (passedBeyond (validateHeader c h) 6 →
      weightByIok 0 (Pmmr.nLeaves h.outputMmrSize - Pmmr.nLeaves prev.outputMmrSize)
        (Pmmr.nLeaves h.kernelMmrSize - Pmmr.nLeaves prev.kernelMmrSize) ≤ maxBlockWeight c.ct) ∧
    (c.skipPow = false →
      (passedBeyond (validateHeader c h) 7 →
        isPrimary c.ct h.edgeBits = true ∨ isSecondary h.edgeBits = true) ∧
      (passedBeyond (validateHeader c h) 8 → c.powOk = true) ∧
      (passedBeyond (validateHeader c h) 9 → prev.totalDiff < h.totalDiff ∧
        h.totalDiff - prev.totalDiff ≤ toDifficulty c.ct h.height h.edgeBits h.secondaryScaling h.hash64) ∧
      (passedBeyond (validateHeader c h) 10 → nextDifficulty c.ct h.height c.window ≠ none) ∧
      (∀ next, nextDifficulty c.ct h.height c.window = some next →
        (passedBeyond (validateHeader c h) 11 → h.totalDiff - prev.totalDiff = next.diff) ∧
        (passedBeyond (validateHeader c h) 12 → h.version < 5 → h.secondaryScaling = next.scaling))) := by
  have key : ∀ k, 1 ≤ k → passedBeyond (validateHeader c h) k → _ := fun k hk hpk =>
    (validate_header_prefix c h).2 (passedBeyond_mono hk hpk)
  refine ⟨fun hk => ?_, fun hk => ?_, fun hk => ?_, fun hk => ?_, fun hk => ?_, fun hs => ⟨fun hk => ?_,
    fun hk => ?_, fun hk => ?_, fun hk => ?_, fun next hn => ⟨fun hk => ?_, fun hk => ?_⟩⟩⟩
  all_goals
    obtain ⟨p, hp', r2, r3, r4, r5, r6, rs⟩ := key _ (by omega) hk
    rw [hp] at hp'
    cases hp'
  · exact r2 hk
  · exact r3 hk
  · exact r4 hk
  · exact r5 hk
  · exact r6 hk
  · exact (rs hs).1 hk
  · exact (rs hs).2.1 hk
  · exact (rs hs).2.2.1 hk
  · obtain ⟨n, hn, _⟩ := (rs hs).2.2.2 hk
    simp [hn]
  · obtain ⟨n, hn', r11, _⟩ := (rs hs).2.2.2 (passedBeyond_mono (by omega) hk)
    rw [hn] at hn'; cases hn'
    exact r11 hk
  · obtain ⟨n, hn', _, r12⟩ := (rs hs).2.2.2 (passedBeyond_mono (by omega) hk)
    rw [hn] at hn'; cases hn'
    exact r12 hk

/-- **Per-rule completeness** (each rule violated ⇒ rejected with an error of that rule's set):
a header violating a rule is rejected, and the error is the one of that rule's check or of a
check the code performs earlier (`errRank e ≤` the rule's position).  The set is needed because
an earlier check may fire first; `validate_header_iff` shows nothing else can. -/
theorem validate_header_complete_by_rule (c : Ctx) (h prev : Hdr) (hp : c.prev = some prev) :
    (h.height ≠ addW prev.height 1 → ∃ e, validateHeader c h = .error e ∧ errRank e ≤ 2) ∧
    (h.version ≠ headerVersion c.ct h.height → ∃ e, validateHeader c h = .error e ∧ errRank e ≤ 3) ∧
    (h.ts ≤ prev.ts → ∃ e, validateHeader c h = .error e ∧ errRank e ≤ 4) ∧
    (Pmmr.nLeaves h.outputMmrSize ≤ Pmmr.nLeaves prev.outputMmrSize ∨
      Pmmr.nLeaves h.kernelMmrSize ≤ Pmmr.nLeaves prev.kernelMmrSize →
        ∃ e, validateHeader c h = .error e ∧ errRank e ≤ 5) ∧
    (maxBlockWeight c.ct < weightByIok 0 (Pmmr.nLeaves h.outputMmrSize - Pmmr.nLeaves prev.outputMmrSize)
        (Pmmr.nLeaves h.kernelMmrSize - Pmmr.nLeaves prev.kernelMmrSize) →
        ∃ e, validateHeader c h = .error e ∧ errRank e ≤ 6) ∧
    (c.skipPow = false →
      (isPrimary c.ct h.edgeBits = false ∧ isSecondary h.edgeBits = false →
        ∃ e, validateHeader c h = .error e ∧ errRank e ≤ 7) ∧
      (c.powOk = false → ∃ e, validateHeader c h = .error e ∧ errRank e ≤ 8) ∧
      (h.totalDiff ≤ prev.totalDiff ∨
        toDifficulty c.ct h.height h.edgeBits h.secondaryScaling h.hash64 < h.totalDiff - prev.totalDiff →
        ∃ e, validateHeader c h = .error e ∧ errRank e ≤ 9) ∧
      (∀ next, nextDifficulty c.ct h.height c.window = some next →
        (h.totalDiff - prev.totalDiff ≠ next.diff → ∃ e, validateHeader c h = .error e ∧ errRank e ≤ 11) ∧
        (h.version < 5 ∧ h.secondaryScaling ≠ next.scaling →
          ∃ e, validateHeader c h = .error e ∧ errRank e ≤ 12))) := by
  obtain ⟨r2, r3, r4, r5, r6, rs⟩ := rules_of_passed c h prev hp
  refine ⟨fun hv => ?_, fun hv => ?_, fun hv => ?_, fun hv => ?_, fun hv => ?_, fun hs => ⟨fun hv => ?_,
    fun hv => ?_, fun hv => ?_, fun next hn => ⟨fun hv => ?_, fun hv => ?_⟩⟩⟩
  · rcases passed_or_rejected (validateHeader c h) 2 with hk | hk
    · exact absurd (r2 hk) hv
    · exact hk
  · rcases passed_or_rejected (validateHeader c h) 3 with hk | hk
    · exact absurd (r3 hk) hv
    · exact hk
  · rcases passed_or_rejected (validateHeader c h) 4 with hk | hk
    · have := r4 hk; omega
    · exact hk
  · rcases passed_or_rejected (validateHeader c h) 5 with hk | hk
    · have := r5 hk; omega
    · exact hk
  · rcases passed_or_rejected (validateHeader c h) 6 with hk | hk
    · have := r6 hk; omega
    · exact hk
  · rcases passed_or_rejected (validateHeader c h) 7 with hk | hk
    · have := (rs hs).1 hk; simp [hv.1, hv.2] at this
    · exact hk
  · rcases passed_or_rejected (validateHeader c h) 8 with hk | hk
    · have := (rs hs).2.1 hk; simp [hv] at this
    · exact hk
  · rcases passed_or_rejected (validateHeader c h) 9 with hk | hk
    · have := (rs hs).2.2.1 hk; omega
    · exact hk
  · rcases passed_or_rejected (validateHeader c h) 11 with hk | hk
    · exact absurd (((rs hs).2.2.2.2 next hn).1 hk) hv
    · exact hk
  · rcases passed_or_rejected (validateHeader c h) 12 with hk | hk
    · exact absurd (((rs hs).2.2.2.2 next hn).2 hk hv.1) hv.2
    · exact hk

/-- the model's `Panic` outcome arises only from `next_difficulty` panicking -/
theorem panic_only_from_next_difficulty (c : Ctx) (h : Hdr)
    (hv : validateHeader c h = .error .Panic) : nextDifficulty c.ct h.height c.window = none := by
  unfold validateHeader at hv
  repeat' split at hv
  all_goals first | cases hv | skip
  exact difficulty_panic c _ h hv

/-- `validate_header` cannot hit the panics of `next_difficulty`: the window always contains the
parent (DMA era: enough), and in the WTEMA era it needs the two latest entries with non-decreasing
in-range timestamps (the time rule, applied when the parent itself was validated). -/
theorem validate_header_no_panic (c : Ctx) (h : Hdr) (last prev : HDI) (rest : List HDI)
    (hw : c.window = last :: prev :: rest) (hle : prev.ts ≤ last.ts)
    (hr : last.ts + WTEMA_HALF_LIFE < 2^64) : validateHeader c h ≠ .error .Panic := by
  intro hv
  have hn := next_difficulty_total c.ct h.height last prev rest hle hr
  rw [← hw, panic_only_from_next_difficulty c h hv] at hn
  cases hn

/-- in the DMA era a non-empty window suffices -/
theorem validate_header_no_panic_dma (c : Ctx) (h : Hdr) (hv5 : headerVersion c.ct h.height < 5)
    (hw : c.window ≠ []) : validateHeader c h ≠ .error .Panic := by
  intro hv
  have hn := next_difficulty_total_dma c.ct h.height c.window hv5 hw
  rw [panic_only_from_next_difficulty c h hv] at hn
  cases hn



/-! ## which proofs count: the classification by edge bits -/

/-- A proof is secondary iff its edge bits are 29 and primary iff they are not 29 and at least the
chain's minimum; so a header passes the edge-bit check iff `edge_bits = 29 ∨ edge_bits ≥ min`. -/
theorem edge_bits_rule (ct : ChainType) (e : Nat) :
    (isPrimary ct e = true ∨ isSecondary e = true) ↔ (e = SECOND_POW_EDGE_BITS ∨ minEdgeBits ct ≤ e) := by
  simp only [isPrimary, isSecondary, Bool.and_eq_true, bne_iff_ne, ne_eq, decide_eq_true_eq,
    beq_iff_eq]
  by_cases h : e = SECOND_POW_EDGE_BITS <;> simp [h]

/-- On Mainnet and Testnet (minimum 31) edge bits 24..28 and 30 are neither, 29 is secondary and
everything from 31 up is primary. -/
theorem edge_bits_main_test (ct : ChainType) (hct : ct = .mainnet ∨ ct = .testnet) (e : Nat) :
    (e < 31 → e ≠ 29 → isPrimary ct e = false ∧ isSecondary e = false) ∧
    (e = 29 → isPrimary ct e = false ∧ isSecondary e = true) ∧
    (31 ≤ e → isPrimary ct e = true ∧ isSecondary e = false) := by
  have hmin : minEdgeBits ct = 31 := by rcases hct with rfl | rfl <;> rfl
  have h29 : SECOND_POW_EDGE_BITS = 29 := rfl
  refine ⟨fun h1 h2 => ?_, fun h1 => ?_, fun h1 => ?_⟩ <;>
    simp only [isPrimary, isSecondary, hmin, h29] <;> simp <;> omega

/-- such a header is refused by `validate_header` (with `LowEdgebits` unless an earlier check fires) -/
theorem low_edge_bits_refused (c : Ctx) (h prev : Hdr) (hp : c.prev = some prev)
    (hs : c.skipPow = false) (he : h.edgeBits ≠ SECOND_POW_EDGE_BITS) (hlt : h.edgeBits < minEdgeBits c.ct) :
    ∃ e, validateHeader c h = .error e ∧ errRank e ≤ 7 := by
  have hn : ¬ (isPrimary c.ct h.edgeBits = true ∨ isSecondary h.edgeBits = true) := by
    rw [edge_bits_rule]; omega
  have hb : isPrimary c.ct h.edgeBits = false ∧ isSecondary h.edgeBits = false := by
    cases hA : isPrimary c.ct h.edgeBits <;> cases hB : isSecondary h.edgeBits <;> simp_all
  exact ((validate_header_complete_by_rule c h prev hp).2.2.2.2.2 hs).1 hb

example : isPrimary .mainnet 30 = false ∧ isPrimary .mainnet 31 = true ∧ isPrimary .mainnet 29 = false ∧
    isPrimary .automatedTesting 10 = true ∧ isPrimary .userTesting 14 = false := by decide

/-! ## the pipeline around `validate_header` -/

/-- `process_block_header` (after its "already known" short-cuts) accepts only headers that obey
every rule **and** whose `prev_root` is the root of the header MMR at the parent
(`HeaderExtension::validate_root`; the MMR itself is C07). -/
theorem process_block_header_sound (c : Ctx) (rootOk : Bool) (h : Hdr)
    (hv : processBlockHeader c rootOk h = .ok ()) : HeaderRules c h ∧ rootOk = true := by
  unfold processBlockHeader at hv
  split at hv
  · cases hv
  · rename_i hvh
    split at hv
    · rename_i hr
      exact ⟨(validate_header_iff c h).mp hvh, hr⟩
    · cases hv

/-- a header with a wrong `prev_root` that passes every other rule is rejected with `InvalidRoot` -/
theorem process_block_header_bad_root (c : Ctx) (h : Hdr) (hr : HeaderRules c h) :
    processBlockHeader c false h = .error .InvalidRoot := by
  unfold processBlockHeader
  rw [(validate_header_iff c h).mpr hr]
  rfl

/-- Network decode (`UntrustedBlockHeader::read`): a header is admitted only if its timestamp is
not beyond `now + future_time_limit`, it carries the scheduled version, its edge bits are an
allowed size, its proof of work verifies and the committed MMR sizes fit `height + 1` full
blocks. -/
theorem untrusted_header_sound (ct : ChainType) (now : Int) (ftl : Nat) (sizeOk : Bool) (h : Hdr)
    (hv : untrustedHeaderCheck ct now ftl sizeOk h = .ok ()) :
    h.ts ≤ now + ftl ∧ h.version = headerVersion ct h.height ∧
    (isPrimary ct h.edgeBits = true ∨ isSecondary h.edgeBits = true) ∧ sizeOk = true ∧
    weightByIok 0 (Pmmr.nLeaves h.outputMmrSize) (Pmmr.nLeaves h.kernelMmrSize) ≤
      mulW (maxBlockWeight ct) (addW h.height 1) := by
  unfold untrustedHeaderCheck at hv
  split at hv
  · cases hv
  rename_i h1
  split at hv
  · cases hv
  rename_i h2
  split at hv
  · cases hv
  rename_i h3
  split at hv
  · cases hv
  rename_i h4
  dsimp only at hv
  split at hv
  · cases hv
  rename_i h5
  refine ⟨by omega, by simpa [validHeaderVersion] using h2, ?_, by simpa using h4, by omega⟩
  cases hA : isPrimary ct h.edgeBits <;> cases hB : isSecondary h.edgeBits <;> simp_all

/-- a header dated beyond the future-time limit is refused at decode time whatever else it says -/
theorem untrusted_header_future_rejected (ct : ChainType) (now : Int) (ftl : Nat) (sizeOk : Bool)
    (h : Hdr) (hf : now + ftl < h.ts) :
    untrustedHeaderCheck ct now ftl sizeOk h = .error .CorruptedData := by
  unfold untrustedHeaderCheck
  rw [if_pos (by omega)]

/-! ## header batches (`sync_block_headers` → `pipe::process_block_headers`) and known headers

A header's hash covers only its proof nonces, so a header the node already knows can be sent again
with the same proof and any other field changed: the copy has a *known hash*.  The batch path has
no "already known" check; the single-header path answers `Ok` for a stored hash without validating. -/

/-- the loop's executable success condition is the rules, header by header -/
theorem batchOk_iff_rules (ct : ChainType) (skip : Bool) (b s : List FHdr) :
    BatchOk ct skip s b ↔ BatchRules ct skip s b := by
  induction b generalizing s with
  | nil => simp [BatchOk, BatchRules]
  | cons a t ih => simp only [BatchOk, BatchRules, validate_header_iff, ih]

/-- **`sync_batch_sound`.**  After any batch accepted by `process_block_headers`: every header of
the batch satisfied `HeaderRules` against its predecessor (as the batch sees the store), the body
head and the block store are untouched, the header store is the old one extended by the batch, and
`header_head` is either unchanged (together with the header MMR) or it is the **last** header of
the batch, which then has strictly more total difficulty than the old `header_head`.  A rejected
batch changes nothing (`sync_batch_rejected_unchanged`). -/
theorem sync_batch_sound (n : HNode) (opts : Opts) (sh : Tip) (batch : List FHdr) (n' : HNode)
    (r : Bool) (h : processBlockHeaders n opts sh batch = .ok (n', r)) :
    BatchRules n.ct opts.skipPow n.hdrs batch ∧ n'.head = n.head ∧ n'.blocks = n.blocks ∧ n'.ct = n.ct ∧
    (batch = [] ∨ n'.hdrs = batch.reverse ++ n.hdrs) ∧
    ((n'.headerHead = n.headerHead ∧ n'.hmmr = n.hmmr) ∨
      ∃ last, batch.getLast? = some last ∧ n'.headerHead = Tip.ofHdr last ∧
        n.headerHead.totalDiff < last.h.totalDiff) := by
  unfold processBlockHeaders at h
  split at h
  · rename_i hl
    cases h
    have : batch = [] := by simpa using hl
    subst this
    exact ⟨trivial, rfl, rfl, rfl, .inl rfl, .inl ⟨rfl, rfl⟩⟩
  rename_i last hl
  split at h
  · cases h
  rename_i s hs
  obtain ⟨hok, hs'⟩ := (validateLoop_ok_iff batch n.hdrs s).mp hs
  have hrules := (batchOk_iff_rules n.ct opts.skipPow batch n.hdrs).mp hok
  split at h
  · cases h
  split at h
  · cases h
  split at h
  · cases h
  dsimp only at h
  split at h
  · rename_i hmore
    cases h
    exact ⟨hrules, rfl, rfl, rfl, .inr hs', .inr ⟨last, hl, rfl, hmore⟩⟩
  · cases h
    exact ⟨hrules, rfl, rfl, rfl, .inr hs', .inl ⟨rfl, rfl⟩⟩

/-- a batch that is refused leaves the node exactly as it was (the batch is dropped) -/
theorem sync_batch_rejected_unchanged (n : HNode) (opts : Opts) (sh : Tip) (batch : List FHdr)
    (e : NErr) (h : processBlockHeaders n opts sh batch = .error e) :
    syncStep n opts sh batch = n := by
  simp [syncStep, h]

/-- `header_head` after a batch, whatever its outcome: unchanged, or the last header of the
batch with more work, all of whose headers obeyed the rules -/
theorem sync_step_head (n : HNode) (opts : Opts) (sh : Tip) (batch : List FHdr) :
    (syncStep n opts sh batch).headerHead = n.headerHead ∨
    ∃ last, batch.getLast? = some last ∧ (syncStep n opts sh batch).headerHead = Tip.ofHdr last ∧
      n.headerHead.totalDiff < last.h.totalDiff ∧ BatchRules n.ct opts.skipPow n.hdrs batch := by
  unfold syncStep
  split
  · rename_i n' r h
    obtain ⟨hr, _, _, _, _, hh⟩ := sync_batch_sound n opts sh batch n' r h
    rcases hh with hh | ⟨last, h1, h2, h3⟩
    · exact .inl hh.1
    · exact .inr ⟨last, h1, h2, h3, hr⟩
  · exact .inl rfl

/-- **The header-MMR root on the batch path.**  If a batch is accepted, its last header is the
genesis, or already on the current header chain, or its `prev_root` was compared with the root of
the header MMR rewound to its parent (`rewind_and_apply_header_fork` → `validate_root`); the same
holds for every stored header re-applied on the way. -/
theorem sync_batch_roots (n : HNode) (opts : Opts) (sh : Tip) (batch : List FHdr) (n' : HNode)
    (r : Bool) (last : FHdr) (hl : batch.getLast? = some last)
    (h : processBlockHeaders n opts sh batch = .ok (n', r)) :
    ∃ e0, extInit n'.hdrs n.hmmr = some e0 ∧
      (last.h.height = 0 ∨ e0.onChain n'.hdrs last.hash last.h.height = some true ∨
        last.rootOk = true) := by
  have hne : batch ≠ [] := by intro hb; subst hb; cases hl
  obtain ⟨_, _, _, _, hstore, _⟩ := sync_batch_sound n opts sh batch n' r h
  have hstore := hstore.resolve_left hne
  unfold processBlockHeaders at h
  rw [hl] at h
  dsimp only at h
  split at h
  · cases h
  rename_i s hs
  obtain ⟨_, hs'⟩ := (validateLoop_ok_iff batch n.hdrs s).mp hs
  have hsn : n'.hdrs = s := by rw [hstore, hs']
  split at h
  · cases h
  rename_i e0 he0
  refine ⟨e0, by rw [hsn]; exact he0, ?_⟩
  split at h
  · cases h
  rename_i e1 hra
  unfold rewindAndApplyHeaderFork at hra
  split at hra
  · cases hra
  rename_i forked fork hfw
  rcases forkWalk_start _ _ _ _ hfw with h0 | hon | hmem
  · exact .inl h0
  · exact .inr (.inl (by rw [hsn]; exact hon))
  · obtain ⟨f, hf, hroot⟩ := reapply_roots fork _ _ hra _ hmem
    -- the newest binding of the last header's hash is the last header itself
    have hlast : getHdr s last.hash = some last := by
      rw [hs']
      obtain ⟨pre, hpre⟩ := List.getLast?_eq_some_iff.mp hl
      rw [hpre, List.reverse_append]
      exact getHdr_cons_self last _
    rw [hlast] at hf
    cases hf
    rcases hroot with h0 | hr
    · exact .inl h0
    · exact .inr (.inr hr)

/-! ## non-vacuity: a concrete accepted header and single-field mutations of it -/

/-- parent at height 1 on the AutomatedTesting chain, its difficulty window, a context -/
def exPrev : Hdr := ⟨1, 1060, 1, 3, 20, 10, 12345, 3, 3⟩
def exWindow : List HDI := [⟨1060, 2, 20, false⟩, ⟨1000, 1, 20, false⟩]
def exCtx : Ctx := ⟨.automatedTesting, false, some exPrev, exWindow, false, true⟩
/-- a header satisfying every rule (network difficulty 3, scaling 19, proof difficulty 320) -/
def exHdr : Hdr := ⟨2, 1120, 1, 6, 19, 10, 2^60, 4, 4⟩

example : HeaderRules exCtx exHdr := (validate_header_iff _ _).mp (by decide +kernel)
example : validateHeader exCtx { exHdr with height := 3 } = .error .InvalidBlockHeight := by decide +kernel
example : validateHeader exCtx { exHdr with version := 2 } = .error .InvalidBlockVersion := by decide +kernel
example : validateHeader exCtx { exHdr with ts := 1060 } = .error .InvalidBlockTime := by decide +kernel
example : validateHeader exCtx { exHdr with kernelMmrSize := 3 } = .error .InvalidMMRSize := by decide +kernel
example : validateHeader exCtx { exHdr with outputMmrSize := 40 } = .error .TooHeavy := by decide +kernel
example : validateHeader exCtx { exHdr with edgeBits := 9 } = .error .LowEdgebits := by decide +kernel
example : validateHeader { exCtx with powOk := false } exHdr = .error .InvalidPow := by decide +kernel
example : validateHeader exCtx { exHdr with totalDiff := 3 } = .error .DifficultyTooLow := by decide +kernel
example : validateHeader exCtx { exHdr with totalDiff := 7 } = .error .WrongTotalDifficulty := by decide +kernel
example : validateHeader exCtx { exHdr with totalDiff := 5 } = .error .WrongTotalDifficulty := by decide +kernel
example : validateHeader exCtx { exHdr with secondaryScaling := 20 } = .error .InvalidScaling := by decide +kernel
example : validateHeader { exCtx with prev := none } exHdr = .error .Orphan := by decide +kernel

/-! ### every header of a chunk commits to the header MMR of its own ancestors

`sync_batch_roots` speaks about the last header of a batch.  For a *chunk* — headers that link up,
none of them genesis or already on the current header chain — the walk of
`rewind_and_apply_header_fork` from the last header passes through every one of them and each is
re-applied under `validate_root`. -/

/-- **Every header of an accepted chunk was root-checked** (all chunk lengths, all positions). -/
theorem sync_chunk_roots_all (n : HNode) (opts : Opts) (sh : Tip) (chunk : List FHdr) (n' : HNode)
    (r : Bool) (h : processBlockHeaders n opts sh chunk = .ok (n', r))
    (hlink : Linked chunk) (hnd : (chunk.map (·.hash)).Nodup)
    (hnew : ∀ e0, extInit n'.hdrs n.hmmr = some e0 → ∀ x ∈ chunk,
      x.h.height ≠ 0 ∧ e0.onChain n'.hdrs x.hash x.h.height ≠ some true) :
    ∀ x ∈ chunk, x.rootOk = true := by
  intro x hx
  have hne : chunk ≠ [] := by intro hb; subst hb; cases hx
  obtain ⟨_, _, _, _, hstore, _⟩ := sync_batch_sound n opts sh chunk n' r h
  have hstore := hstore.resolve_left hne
  unfold processBlockHeaders at h
  split at h
  · rename_i hl
    exact absurd (by simpa using hl) hne
  rename_i last hl
  split at h
  · cases h
  rename_i s hs
  obtain ⟨_, hs'⟩ := (validateLoop_ok_iff chunk n.hdrs s).mp hs
  have hsn : n'.hdrs = s := by rw [hstore, hs']
  split at h
  · cases h
  rename_i e0 he0
  split at h
  · cases h
  rename_i e1 hra
  unfold rewindAndApplyHeaderFork at hra
  split at hra
  · cases hra
  rename_i forked fork hfw
  obtain ⟨pre, hpre⟩ := List.getLast?_eq_some_iff.mp hl
  have hnew' := hnew e0 (by rw [hsn]; exact he0)
  have hcov := forkWalk_covers (s := s) (e := e0) pre.reverse last _ [] forked fork
    (by simpa [hpre] using hlink)
    (fun y hy => by
      have hy' : y ∈ chunk := by
        rw [hpre]
        rcases List.mem_cons.mp hy with rfl | hy
        · simp
        · exact List.mem_append_left _ (by simpa using hy)
      refine ⟨by rw [hs']; exact getHdr_chunk chunk n.hdrs y hnd hy', (hnew' y hy').1, ?_⟩
      rw [← hsn]; exact (hnew' y hy').2)
    hfw
  have hmem : x.hash ∈ fork := hcov x (by
    rw [hpre] at hx
    rcases List.mem_append.mp hx with hx | hx
    · exact List.mem_cons_of_mem _ (by simpa using hx)
    · simp only [List.mem_singleton] at hx; subst hx; simp)
  obtain ⟨f, hf, hroot⟩ := reapply_roots fork _ _ hra _ hmem
  rw [hs', getHdr_chunk chunk n.hdrs x hnd hx] at hf
  cases hf
  rcases hroot with h0 | hr
  · exact absurd h0 (hnew' x hx).1
  · exact hr

/-- **A chunk accepted with computed root comparisons commits, header by header, to the MMR of
its predecessors**: for every position of the chunk, the header's `prev_root` is the root of the
header MMR recorded after its parent — the stored parent for the first header, the chunk's
previous header (with ITS leaf pushed, whatever `prev_root` it carried) for the others. -/
theorem chunk_prev_roots_are_ancestor_roots {α H : Type} [DecidableEq H]
    (hf : Pmmr.HashFn α H) (N : RNode α H) (opts : Opts) (sh : Tip) (chunk : List (RHdr α H))
    (N' : RNode α H) (b : Bool) (h : syncR hf N opts sh chunk = .ok (N', b))
    (hlink : Linked (flagged hf N.rs chunk))
    (hnd : ((flagged hf N.rs chunk).map (·.hash)).Nodup)
    (hnew : ∀ e0, extInit N'.n.hdrs N.n.hmmr = some e0 → ∀ x ∈ flagged hf N.rs chunk,
      x.h.height ≠ 0 ∧ e0.onChain N'.n.hdrs x.hash x.h.height ≠ some true) :
    ∀ pre x post, chunk = pre ++ x :: post →
      ∃ p m, rLookup ((flagChunk hf N.rs pre).reverse ++ N.rs) x.f.prevHash = some (p, m) ∧
        Pmmr.root hf m = .ok x.prevRoot := by
  intro pre x post hc
  unfold syncR at h
  dsimp only at h
  split at h
  · cases h
  rename_i n' b' hp
  cases h
  have hall := sync_chunk_roots_all N.n opts sh (flagged hf N.rs chunk) _ _ hp hlink hnd hnew
  have hmem := flagChunk_at hf pre N.rs x post
  rw [← hc] at hmem
  exact flagOne_rootOk hf _ x (hall _ (List.mem_map_of_mem hmem))

/- **`known_hash_cannot_move_head` — full statement, FALSE for the code as it is** (only under
the test option `Options::SKIP_POW`; see `known_hash_moves_head_under_skip_pow` for the
kernel-checked counter-example, which the harness reproduces on the real `Chain`):

    theorem known_hash_cannot_move_head (n : HNode) (opts : Opts) (sh : Tip) (pre : List FHdr)
        (k' k : FHdr) (hstored : getHdr n.hdrs k'.hash = some k) (hdiff : ¬ SameContent k' k) :
        (syncStep n opts sh (pre ++ [k'])).headerHead.totalDiff = n.headerHead.totalDiff

`process_block_headers` has no "already known" check and `add_block_header` is keyed by a hash
that covers the proof nonces only; what keeps a re-sent known header with changed fields out is
solely the cycle verifier (the proof is bound to the pre-PoW bytes, which contain every other
field).  Missing for the full statement: nothing in the header pipeline itself compares a header
with the stored header of the same hash.  Proved below: the statement **without `SKIP_POW`**
under the binding property of the verifier (property C05: a proof verifies for one pre-PoW
content; `hk`: the stored copy is the one that verified). -/

/-- **`known_hash_cannot_move_head` (real PoW).**  A batch — any honest or dishonest prefix `pre`,
known or new — whose last header `k'` has a hash that is already stored with different fields is
refused as a whole: `header_head` (hash, height and total difficulty), `head`, the header MMR and
the stored header for that hash are exactly what they were. -/
theorem known_hash_cannot_move_head_partial (n : HNode) (opts : Opts) (hs : opts.skipPow = false)
    (sh : Tip) (pre : List FHdr) (k' k : FHdr)
    (hstored : getHdr n.hdrs k'.hash = some k) (hdiff : ¬ SameContent k' k)
    (hk : k.powOk = true) (hbind : k.powOk = true → k'.powOk = true → SameContent k' k) :
    (∃ e, processBlockHeaders n opts sh (pre ++ [k']) = .error e) ∧
    syncStep n opts sh (pre ++ [k']) = n ∧
    (syncStep n opts sh (pre ++ [k'])).headerHead.totalDiff = n.headerHead.totalDiff ∧
    getHdr (syncStep n opts sh (pre ++ [k'])).hdrs k'.hash = some k := by
  have hp : k'.powOk = false := by
    cases hp : k'.powOk with
    | false => rfl
    | true => exact absurd (hbind hk hp) hdiff
  obtain ⟨e, he⟩ := validateLoop_error_of (ct := n.ct) (skip := opts.skipPow) pre k' [] n.hdrs
    (fun s' => by rw [hs]; exact validateHeader_badpow n.ct s' k' hp)
  have herr : processBlockHeaders n opts sh (pre ++ [k']) = .error (.hdr e) := by
    simp [processBlockHeaders, he]
  have hstep := sync_batch_rejected_unchanged n opts sh _ _ herr
  exact ⟨⟨_, herr⟩, hstep, by rw [hstep], by rw [hstep]; exact hstored⟩

/-- the single-header path (`process_block_header`) may answer `Ok` for such a copy ("already
known") but never takes it for something new: the node is unchanged -/
theorem known_hash_header_path_unchanged (n : HNode) (opts : Opts) (hs : opts.skipPow = false)
    (k' : FHdr) (hp : k'.powOk = false) (n' : HNode)
    (h : nodeProcessBlockHeader n opts k' = .ok n') : n' = n := by
  have happ : ∀ prev, pbhApply n opts k' prev ≠ .ok n' := by
    intro prev hc
    unfold pbhApply at hc
    obtain ⟨e, he⟩ := validateHeader_badpow n.ct n.hdrs k' hp
    rw [hs, he] at hc
    cases hc
  unfold nodeProcessBlockHeader at h
  split at h
  · cases h; rfl
  split at h
  · cases h
  split at h
  · split at h
    · exact absurd h (happ _)
    · cases h; rfl
  · exact absurd h (happ _)

/-- the block path (`process_block`) refuses it and leaves the node unchanged -/
theorem known_hash_block_path_rejected (n : HNode) (opts : Opts) (hs : opts.skipPow = false)
    (k' : FHdr) (bodyOk : Bool) (hp : k'.powOk = false) :
    (nodeProcessBlock n opts k' bodyOk).1 = n ∧
    ∃ e, (nodeProcessBlock n opts k' bodyOk).2 = .error e := by
  unfold nodeProcessBlock
  split
  · exact ⟨rfl, _, rfl⟩
  rename_i n1 h1
  have := known_hash_header_path_unchanged n opts hs k' hp n1 h1
  subst this
  split
  · exact ⟨rfl, _, rfl⟩
  split
  · exact ⟨rfl, _, rfl⟩
  split
  · exact ⟨rfl, _, rfl⟩
  split
  · exact ⟨rfl, _, rfl⟩
  split
  · exact ⟨rfl, _, rfl⟩
  simp [hp, hs]

/-- **`process_block_header` at node level.**  An `Ok` either changed nothing (the "already known"
short-cuts) or stored a header that obeys every rule against its stored parent and whose
`prev_root` matched the header MMR rewound to that parent; `header_head` is then unchanged or
this header, with more work. -/
theorem node_process_block_header_sound (n : HNode) (opts : Opts) (f : FHdr) (n' : HNode)
    (h : nodeProcessBlockHeader n opts f = .ok n') :
    n' = n ∨ (HeaderRules (ctxFor n.ct opts.skipPow n.hdrs f) f.h ∧ (f.h.height = 0 ∨ f.rootOk = true) ∧
      n'.hdrs = f :: n.hdrs ∧ n'.head = n.head ∧ n'.blocks = n.blocks ∧
      (n'.headerHead = n.headerHead ∨
        (n'.headerHead = Tip.ofHdr f ∧ n.headerHead.totalDiff < f.h.totalDiff))) := by
  have happ : ∀ prev, pbhApply n opts f prev = .ok n' →
      (HeaderRules (ctxFor n.ct opts.skipPow n.hdrs f) f.h ∧ (f.h.height = 0 ∨ f.rootOk = true) ∧
      n'.hdrs = f :: n.hdrs ∧ n'.head = n.head ∧ n'.blocks = n.blocks ∧
      (n'.headerHead = n.headerHead ∨
        (n'.headerHead = Tip.ofHdr f ∧ n.headerHead.totalDiff < f.h.totalDiff))) := by
    intro prev h
    unfold pbhApply at h
    split at h
    · cases h
    rename_i hv
    have hrules := (validate_header_iff _ _).mp hv
    split at h
    · cases h
    split at h
    · cases h
    split at h
    · cases h
    rename_i e2 hva
    have hroot : f.h.height = 0 ∨ f.rootOk = true := by
      unfold HExt.validateApply at hva
      split at hva
      · cases hva
      · rename_i hc
        by_cases h0 : f.h.height = 0
        · exact .inl h0
        · right
          cases hr : f.rootOk
          · exact absurd ⟨h0, hr⟩ hc
          · rfl
    split at h
    · rename_i hmore
      cases h
      exact ⟨hrules, hroot, rfl, rfl, rfl, .inr ⟨rfl, hmore⟩⟩
    · cases h
      exact ⟨hrules, hroot, rfl, rfl, rfl, .inl rfl⟩
  unfold nodeProcessBlockHeader at h
  split at h
  · cases h; exact .inl rfl
  split at h
  · cases h
  split at h
  · split at h
    · exact .inr (happ _ h)
    · cases h; exact .inl rfl
  · exact .inr (happ _ h)

/-! ### non-vacuity: a node, an honest batch, a mutated copy of a known header -/

/-- a three-header chain on AutomatedTesting as deliveries: genesis (hash 100), `exP` (hash 101,
height 1, network difficulty 3, scaling 19) and `exX` (hash 102, height 2) -/
def exG : FHdr := ⟨100, 0, ⟨0, 1000, 1, 1, 20, 10, 777, 1, 1⟩, 1, true, true⟩
def exP : FHdr := ⟨101, 100, ⟨1, 1060, 1, 4, 19, 10, 2^60, 3, 3⟩, 2, true, true⟩
def exX : FHdr := ⟨102, 101, ⟨2, 1120, 1, 7, 19, 10, 2^60, 4, 4⟩, 3, true, true⟩
/-- a node that knows genesis and `exP` (header and block) -/
def exNode : HNode :=
  { ct := .automatedTesting, hdrs := [exP, exG], blocks := [101, 100], head := Tip.ofHdr exP,
    headerHead := Tip.ofHdr exP, hmmr := [100, 101] }
/-- `exP` again — same proof, same hash — claiming total difficulty 50: the cycle verifier
refuses it (`powOk = false`) since the pre-PoW bytes changed -/
def exP' : FHdr := ⟨101, 100, { exP.h with totalDiff := 50 }, 9, false, true⟩

/-- the store yields parent and difficulty window, and both honest headers obey every rule -/
example : (ctxFor .automatedTesting false exNode.hdrs exX).window =
      [⟨1060, 3, 19, false⟩, ⟨1000, 1, 20, false⟩] ∧
    (ctxFor .automatedTesting false exNode.hdrs exX).prev = some exP.h := by decide +kernel
example : BatchRules .automatedTesting false [exG] [exP, exX] :=
  (batchOk_iff_rules _ _ _ _).mp (by simp only [BatchOk]; decide +kernel)
/-- an honest batch moves `header_head` to its last header (hypotheses of `sync_batch_sound`) -/
example : (syncStep exNode Opts.NONE exNode.headerHead [exX]).headerHead = Tip.ofHdr exX := by
  decide +kernel
/-- re-sending the unmodified known header is accepted and harmless -/
example : errOf (processBlockHeaders exNode Opts.NONE exNode.headerHead [exP]) = none := by decide +kernel
example : (syncStep exNode Opts.NONE exNode.headerHead [exP]).headerHead = exNode.headerHead ∧
    getHdr (syncStep exNode Opts.NONE exNode.headerHead [exP]).hdrs 101 = some exP := by decide +kernel
/-- the mutated copy of the known header: alone, after a known header, after a new honest header
(hypotheses of `known_hash_cannot_move_head_partial`) -/
example : getHdr exNode.hdrs exP'.hash = some exP ∧ exP.powOk = true ∧ exP'.powOk = false := by
  decide +kernel
example : errOf (processBlockHeaders exNode Opts.NONE exNode.headerHead [exP']) = some (.hdr .InvalidPow) := by
  decide +kernel
example : errOf (processBlockHeaders exNode Opts.NONE exNode.headerHead [exP, exP']) = some (.hdr .InvalidPow) := by
  decide +kernel
example : errOf (processBlockHeaders exNode Opts.NONE exNode.headerHead [exX, exP']) = some (.hdr .InvalidPow) := by
  decide +kernel
/-- the single-header path answers `Ok` for it and changes nothing -/
example : (nodeProcessBlockHeader exNode Opts.NONE exP').toOption.map (·.headerHead) =
    some exNode.headerHead := by decide +kernel

/-- non-vacuity, with a toy hash: genesis, then the chunk `[exP, exX]` whose `prev_root`s are the
roots of the MMR after genesis resp. after `exP` — accepted; the same chunk with a wrong
`prev_root` in its FIRST header (the second one still committing to the MMR that results after
the first is applied) or in its last header — refused with `InvalidRoot` -/
def exHF : Pmmr.HashFn Nat Nat where
  leaf := fun i e => (i * 1000003 + e * 7919) % 1000000007
  node := fun i l r => (i * 101 + l * 31 + r * 17 + 5) % 1000000007
def exRNode : RNode Nat Nat := RNode.genesis exHF .automatedTesting ⟨exG, 100, 0⟩
example : (flagged exHF exRNode.rs [⟨exP, 101, 791900⟩, ⟨exX, 102, 55146081⟩]).map (·.rootOk) = [true, true] ∧
    (flagged exHF exRNode.rs [⟨exP, 101, 791901⟩, ⟨exX, 102, 55146081⟩]).map (·.rootOk) = [false, true] := by
  decide +kernel
example : errOf (syncR exHF exRNode Opts.NONE exRNode.n.headerHead [⟨exP, 101, 791900⟩, ⟨exX, 102, 55146081⟩]) = none ∧
    errOf (syncR exHF exRNode Opts.SYNC exRNode.n.headerHead [⟨exP, 101, 791901⟩, ⟨exX, 102, 55146081⟩]) =
      some (.hdr .InvalidRoot) ∧
    errOf (syncR exHF exRNode Opts.NONE exRNode.n.headerHead [⟨exP, 101, 791900⟩, ⟨exX, 102, 55146082⟩]) =
      some (.hdr .InvalidRoot) := by
  decide +kernel

/-- **The full statement fails under `SKIP_POW`**: the mutated copy of the known `header_head`
(same hash) is accepted by the batch path, `header_head`'s total difficulty goes from 4 to 50 and
the stored header for that hash is replaced. -/
theorem known_hash_moves_head_under_skip_pow :
    getHdr exNode.hdrs exP'.hash = some exP ∧ exP'.h ≠ exP.h ∧
    exNode.headerHead.totalDiff = 4 ∧
    (syncStep exNode Opts.SKIP_POW exNode.headerHead [exP']).headerHead.totalDiff = 50 ∧
    (syncStep exNode Opts.SKIP_POW exNode.headerHead [exP']).headerHead.hash = exNode.headerHead.hash ∧
    getHdr (syncStep exNode Opts.SKIP_POW exNode.headerHead [exP']).hdrs 101 = some exP' := by
  decide +kernel

/-! ### the proof of work is checked under every option except `SKIP_POW`

`pipe.rs` reads `ctx.opts` only as `contains(Options::SKIP_POW)`; the node itself calls the chain
with `NONE` (peers), `SYNC` (sync) and `MINE` (own miner / stratum, which only compares
`to_difficulty()` with the share difficulty and relies on the chain for the cycle check). -/

/-- the header paths never change the chain type -/
theorem node_process_block_header_ct (n : HNode) (opts : Opts) (f : FHdr) (n' : HNode)
    (h : nodeProcessBlockHeader n opts f = .ok n') : n'.ct = n.ct := by
  rcases node_process_block_header_sound n opts f n' h with rfl | hh
  · rfl
  · have happ : ∀ prev, pbhApply n opts f prev = .ok n' → n'.ct = n.ct := by
      intro prev h
      unfold pbhApply at h
      repeat' split at h
      all_goals first | cases h; rfl | cases h
    unfold nodeProcessBlockHeader at h
    split at h
    · cases h; rfl
    split at h
    · cases h
    split at h
    · split at h
      · exact happ _ h
      · cases h; rfl
    · exact happ _ h

/-- **`pow_checked_unless_skip_pow`.**  For every option set that does not contain `SKIP_POW`
(`NONE`, `SYNC`, `MINE` and their unions): every header of an accepted batch, every header the
single-header path stores, and every block `process_block` accepts has allowed edge bits and a
proof the cycle verifier accepted for it; on the header paths the claimed total difficulty is
moreover the parent's plus exactly the network difficulty, which the proof's own difficulty
reaches. -/
theorem pow_checked_unless_skip_pow (n : HNode) (opts : Opts) (hs : opts.skipPow = false) :
    (∀ sh batch n' r, processBlockHeaders n opts sh batch = .ok (n', r) →
      ∀ pre f post, batch = pre ++ f :: post → PowRule n.ct (pre.reverse ++ n.hdrs) f) ∧
    (∀ f n', nodeProcessBlockHeader n opts f = .ok n' → n' = n ∨ PowRule n.ct n.hdrs f) ∧
    (∀ f bodyOk n', nodeProcessBlock n opts f bodyOk = (n', .ok ()) →
      (isPrimary n.ct f.h.edgeBits = true ∨ isSecondary f.h.edgeBits = true) ∧ f.powOk = true) := by
  refine ⟨?_, ?_, ?_⟩
  · intro sh batch n' r h pre f post hb
    obtain ⟨hr, _⟩ := sync_batch_sound n opts sh batch n' r h
    rw [hs, hb] at hr
    exact powRule_of_rules (batchRules_mem pre n.hdrs f post hr)
  · intro f n' h
    rcases node_process_block_header_sound n opts f n' h with h1 | h1
    · exact .inl h1
    · right
      have := h1.1
      rw [hs] at this
      exact powRule_of_rules this
  · intro f bodyOk n' h
    unfold nodeProcessBlock at h
    split at h
    · cases h
    rename_i n1 h1
    have hct := node_process_block_header_ct n opts f n1 h1
    split at h
    · cases h
    split at h
    · cases h
    split at h
    · cases h
    split at h
    · cases h
    split at h
    · cases h
    rename_i hedge
    split at h
    · cases h
    rename_i hpow
    rw [hs, hct] at hedge
    rw [hs] at hpow
    refine ⟨?_, by simpa using hpow⟩
    cases hA : isPrimary n.ct f.h.edgeBits <;> cases hB : isSecondary f.h.edgeBits <;> simp_all

/-- non-vacuity: the honest header is accepted and the same header with a proof that is not a
cycle (`powOk = false`) is refused under `NONE`, `SYNC`, `MINE` and `SYNC | MINE`; only `SKIP_POW`
lets it through -/
example : ∀ o ∈ [Opts.NONE, Opts.SYNC, Opts.MINE, ⟨6⟩],
    errOf (processBlockHeaders exNode o exNode.headerHead [exX]) = none ∧
    errOf (processBlockHeaders exNode o exNode.headerHead [{ exX with powOk := false }]) =
      some (.hdr .InvalidPow) ∧
    errOf (nodeProcessBlockHeader exNode o { exX with powOk := false }) = some (.hdr .InvalidPow) ∧
    errOf (nodeProcessBlock exNode o { exX with powOk := false } true).2 = some (.hdr .InvalidPow) ∧
    errOf (nodeProcessBlockHeader exNode o { exX with h := { exX.h with edgeBits := 9 } }) =
      some (.hdr .LowEdgebits) := by decide +kernel
example : errOf (processBlockHeaders exNode Opts.SKIP_POW exNode.headerHead [{ exX with powOk := false }]) = none := by
  decide +kernel

/-! ## the future-time limit under thread-local configuration (`core/src/global.rs`)

"From the network, not beyond the future-time limit": `UntrustedBlockHeader::read` asks
`global::get_future_time_limit()`.  Chain type, accept-fee base, future time limit and NRD flag
each live in a thread-local cell with a process-wide value behind it; a getter returns
`local ?? global ?? default` and caches what it resolved — in its **own** cell. -/

/-- every getter returns `local ?? global ?? default` (`none`: `get_chain_type` panics) -/
theorem lookup_resolves (s : PStore) (p : Param) : (s.get p).1 = s.resolve p := get_fst s p

/-- a getter writes at most its own parameter's thread-local cell -/
theorem lookup_writes_own_cell_only (s : PStore) (p q : Param) (hpq : p ≠ q) :
    (s.get q).2.loc p = s.loc p ∧ (s.get q).2.glob = s.glob := by
  refine ⟨?_, get_glob s q⟩
  cases q <;>
    simp only [PStore.get, getChainType, getAcceptFeeBase, getFutureTimeLimit, isNrdEnabled] <;>
    (split <;> try rfl) <;> (try split) <;> (try rfl) <;>
    simp [PStore.setLocal, hpq]

/-- **`lookup_independent`.**  A lookup of `q` never changes the result of a later lookup of
`p ≠ q` … -/
theorem lookup_independent (s : PStore) (p q : Param) (_hpq : p ≠ q) :
    ((s.get q).2.get p).1 = (s.get p).1 := by
  rw [get_fst, get_fst, resolve_get]

/-- … nor of `p` itself: looking a parameter up twice gives the same value -/
theorem lookup_stable (s : PStore) (p : Param) : ((s.get p).2.get p).1 = (s.get p).1 := by
  rw [get_fst, get_fst, resolve_get]

/-- Whatever a thread did before — lookups of any parameter (directly, through
`max_block_weight`, `coinbase_maturity`, `Transaction::accept_fee`, or by decoding headers) and
set / init of *other* parameters — the lookup of `p` answers as it would have at the start. -/
theorem lookup_independent_of_history (s : PStore) (ops : List POp) (p : Param)
    (hw : ∀ op ∈ ops, op.writes ≠ some p) : ((s.run ops).get p).1 = (s.get p).1 := by
  rw [get_fst, get_fst, resolve_run ops s p hw]

/-- **The network verdict depends only on (timestamp, now, ftl, chain type).**  Decoding a header
after any history that did not set the future time limit or the chain type gives the verdict it
would have given at the start: `untrustedHeaderCheck` under `ftl = local ?? global ?? default`. -/
theorem future_limit_verdict_independent (s : PStore) (ops : List POp) (now : Int) (ok : Bool)
    (h : Hdr) (hw : ∀ op ∈ ops, op.writes ≠ some .ftl ∧ op.writes ≠ some .chainType) :
    (untrustedHeaderRead (s.run ops) now ok h).1 = (untrustedHeaderRead s now ok h).1 := by
  rw [untrustedHeaderRead_fst, untrustedHeaderRead_fst,
    resolve_run ops s .ftl (fun op ho => (hw op ho).1),
    resolve_run ops s .chainType (fun op ho => (hw op ho).2)]

/-- On a thread without a local future time limit and with no global one the limit is the
default (300 s), whatever was looked up before; a header dated beyond `now + 300` is refused. -/
theorem future_limit_default_rejects (s : PStore) (ops : List POp) (now : Int) (ok : Bool) (h : Hdr)
    (c : Nat) (hc : s.resolve .chainType = some c)
    (hl : s.loc .ftl = none) (hg : s.glob .ftl = none)
    (hw : ∀ op ∈ ops, op.writes ≠ some .ftl ∧ op.writes ≠ some .chainType)
    (hf : now + DEFAULT_FUTURE_TIME_LIMIT < h.ts) :
    (untrustedHeaderRead (s.run ops) now ok h).1 = some (.error .CorruptedData) := by
  rw [future_limit_verdict_independent s ops now ok h hw, untrustedHeaderRead_fst, hc]
  have : s.resolve .ftl = some DEFAULT_FUTURE_TIME_LIMIT := by
    simp [PStore.resolve, hl, hg, pDefault]
  rw [this]
  simp only
  rw [untrusted_header_future_rejected _ _ _ _ _ hf]

/-- non-vacuity: a fresh thread that set only its chain type, after looking up the fee base,
the NRD flag and the block weight, refuses a header dated now+301 s and lets now+300 s pass the
time check (it is then refused for its version, not its time) -/
example : ((((PStore.empty.setLocal .chainType 2).run
    [.get .feeBase, .acceptFee 25, .get .nrd, .maxBlockWeight, .coinbaseMaturity]).get .ftl).1 = some 300) := by
  decide +kernel
example : (untrustedHeaderRead ((PStore.empty.setLocal .chainType 2).run [.get .feeBase, .maxBlockWeight])
    1000 true { exHdr with ts := 1301 }).1 = some (.error .CorruptedData) := by decide +kernel
example : (untrustedHeaderRead ((PStore.empty.setLocal .chainType 2).run [.get .feeBase, .maxBlockWeight])
    1000 true { exHdr with ts := 1300 }).1 = some (.ok ()) := by decide +kernel

/-! ## the chain always supplies a window on which the retarget is total -/

/-- `DifficultyIter` yields one entry per header -/
theorem difficultyIter_length (hs : List Hdr) : (difficultyIter hs).length = hs.length := by
  induction hs with
  | nil => rfl
  | cons a t ih => simp [difficultyIter, ih]

theorem tsU64_of_nonneg {t : Int} (h0 : 0 ≤ t) (h1 : t < 2^63) : (tsU64 t : Int) = t := by
  unfold tsU64
  have : t % (2^64 : Int) = t := Int.emod_eq_of_lt h0 (by omega)
  rw [this]
  omega

/-- The window the chain hands to `next_difficulty` for a parent `a` with grand-parent `b`
(both previously validated: `b.ts < a.ts`, timestamps in the decodable range) satisfies the
precondition of `next_difficulty_total`. -/
theorem window_of_chain_ok (a b : Hdr) (rest : List Hdr) (h0 : 0 ≤ b.ts) (hlt : b.ts < a.ts)
    (hr : a.ts < 2^63) :
    ∃ last prev w, difficultyIter (a :: b :: rest) = last :: prev :: w ∧ prev.ts ≤ last.ts ∧
      last.ts + WTEMA_HALF_LIFE < 2^64 := by
  refine ⟨_, _, _, rfl, ?_, ?_⟩
  · have ha := tsU64_of_nonneg (t := a.ts) (by omega) hr
    have hb := tsU64_of_nonneg (t := b.ts) h0 (by omega)
    simp only
    omega
  · have ha := tsU64_of_nonneg (t := a.ts) (by omega) hr
    simp only [WTEMA_HALF_LIFE_val]
    omega

/-- Hence on a chain `validate_header` never reaches a panic of the retarget. -/
theorem validate_header_no_panic_on_chain (c : Ctx) (h a b : Hdr) (rest : List Hdr)
    (hw : c.window = difficultyIter (a :: b :: rest)) (h0 : 0 ≤ b.ts) (hlt : b.ts < a.ts)
    (hr : a.ts < 2^63) : validateHeader c h ≠ .error .Panic := by
  obtain ⟨last, prev, w, he, hle, hrr⟩ := window_of_chain_ok a b rest h0 hlt hr
  exact validate_header_no_panic c h last prev w (by rw [hw, he]) hle hrr

/-! ## the network side: the proof of work is verified on the graph size the header CLAIMS, and
every entry path of a header applies the same network-side rules

`Model/ConsNet.lean`: `verifySizeHdr` is `pow::verify_size` with the verifier of property C05
computed (no longer an input Boolean); its context — variant, edge mask, node mask, siphash keys — is
built from the header's own fields, `edge_bits` included, for every chain type.  `edge_bits` is not
part of the pre-PoW bytes, so a cycle solved on a small graph can be relabelled to a larger size
without changing the seed; `to_difficulty` / `graph_weight` would credit the claimed size.  What
keeps such a header out is that the cycle must verify on the graph of the CLAIMED size.
`netHeaderOk` is the one function behind `UntrustedBlockHeader::read`; `netRead` is what the four
network readers (bare header, item of a header list, compact block, full block) do with it. -/

/-- `verifySizeHdr` accepts only what `pow::verify_size`'s model accepts -/
theorem verifySizeHdr_ok (ct : ChainType) (n : NetHdr) (h : verifySizeHdr ct n = .ok ()) :
    Pow.verifySize (powCt ct) n.h.height n.h.edgeBits n.prePow n.nonces = .ok () := by
  unfold verifySizeHdr at h
  cases hv : Pow.verifySize (powCt ct) n.h.height n.h.edgeBits n.prePow n.nonces with
  | ok u => cases u; rfl
  | error e =>
    rw [hv] at h
    dsimp only at h
    split at h
    · split at h <;> cases h
    · cases h

/-- **The proof of work is verified on the claimed graph size.**  `verify_size` accepts a header only
if a context exists for (chain type, height, CLAIMED edge bits) and that variant's `verify` accepts
the nonces under parameters that are functions of the header alone: edge mask `2^edge_bits - 1`,
endpoints masked to the node bits of `edge_bits`, keys = blake2b of the header's pre-PoW bytes. -/
theorem verify_size_on_claimed_size (ct : ChainType) (n : NetHdr) (h : verifySizeHdr ct n = .ok ()) :
    ∃ v, Pow.selectVariant (powCt ct) n.h.height n.h.edgeBits = some v ∧
      Pow.verifyOf v (Pow.mkParams n.h.edgeBits (Pow.proofsizeOf (powCt ct)) n.nonces.length)
        (Pow.epOf v (Pow.keysOfHeader n.prePow none) n.h.edgeBits) n.nonces = .ok () :=
  (GV.Props.C05.verifySize_ok_iff _ _ _ _ _).mp (verifySizeHdr_ok ct n h)

/-- the testing chain types always take the Cuckatoo branch of `create_pow_context`, at the
requested size -/
theorem testing_chain_cuckatoo (ct : ChainType) (hct : ct = .automatedTesting ∨ ct = .userTesting)
    (height eb : Nat) : Pow.selectVariant (powCt ct) height eb = some .cuckatoo := by
  rcases hct with rfl | rfl <;> rfl

/-- **Testing chain types** (AutomatedTesting / UserTesting — the non-production branch of
`create_pow_context`): an accepted header carries exactly `proofsize` strictly ascending nonces, all
BELOW `2^edge_bits` for the edge bits it claims, forming one simple cycle through all of them in the
Cuckatoo graph of the CLAIMED size seeded by its pre-PoW bytes. -/
theorem verify_size_testing_chain (ct : ChainType) (hct : ct = .automatedTesting ∨ ct = .userTesting)
    (n : NetHdr) (h : verifySizeHdr ct n = .ok ()) :
    n.nonces.length = Pow.proofsizeOf (powCt ct) ∧ Pow.Ascending n.nonces ∧
    (∀ x ∈ n.nonces, x < 2 ^ n.h.edgeBits) ∧
    Pow.IsProofCycleCuckatoo
      (n.nonces.map (Pow.epCuckatoo (Pow.keysOfHeader n.prePow none) n.h.edgeBits)) := by
  obtain ⟨v, hv, hok⟩ := verify_size_on_claimed_size ct n h
  rw [testing_chain_cuckatoo ct hct] at hv
  cases hv
  obtain ⟨h1, h2, h3, h4⟩ := GV.Props.C05.verifyCuckatoo_sound _ _ _ hok
  refine ⟨h1, h2, ?_, h4⟩
  intro x hx
  have := h3 x hx
  have hp : 0 < 2 ^ n.h.edgeBits := Nat.pow_pos (by omega)
  simp only [Pow.mkParams] at this
  omega

/-- **Every chain type**: every nonce of an accepted header lies below `2^edge_bits` for the edge
bits the header claims (each of the five verifiers compares with the context's edge mask, and the
context's edge mask is `2^edge_bits - 1` of the claimed size). -/
theorem verify_size_nonces_in_claimed_range (ct : ChainType) (n : NetHdr)
    (h : verifySizeHdr ct n = .ok ()) : ∀ x ∈ n.nonces, x < 2 ^ n.h.edgeBits := by
  obtain ⟨v, _, hok⟩ := verify_size_on_claimed_size ct n h
  have hlen := GV.Props.C05.verifySize_ok_length _ _ _ _ _ (verifySizeHdr_ok ct n h)
  have hps : 0 < Pow.proofsizeOf (powCt ct) := by cases ct <;> decide
  have hp : 0 < 2 ^ n.h.edgeBits := Nat.pow_pos (by omega)
  have key : ∀ x ∈ n.nonces,
      x ≤ (Pow.mkParams n.h.edgeBits (Pow.proofsizeOf (powCt ct)) n.nonces.length).edgeMask := by
    cases v with
    | cuckatoo => exact (GV.Props.C05.verifyCuckatoo_sound _ _ _ hok).2.2.1
    | cuckaroo => exact (GV.Props.C05.verifyCuckaroo_sound _ _ _ hok).2.2.1
    | cuckarood =>
      refine (GV.Props.C05.verifyCuckarood_sound _ _ _ ?_ hok).2.2.1
      intro x
      exact GV.Props.C05.bucketMask_low_bit _ hps x
    | cuckaroom => exact (GV.Props.C05.verifyCuckaroom_sound _ _ _ hok).2.2.1
    | cuckarooz =>
      refine (GV.Props.C05.verifyCuckarooz_sound _ _ _ ?_ hok).2.2.1
      simp [Pow.mkParams, hlen]
  intro x hx
  have := key x hx
  simp only [Pow.mkParams] at this
  omega

/-- hence a relabelled header one of whose nonces does not fit the claimed size is refused -/
theorem relabelled_nonce_out_of_range_refused (ct : ChainType) (n : NetHdr)
    (hx : ∃ x ∈ n.nonces, 2 ^ n.h.edgeBits ≤ x) : verifySizeHdr ct n ≠ .ok () := by
  intro h
  obtain ⟨x, hx, hge⟩ := hx
  have := verify_size_nonces_in_claimed_range ct n h x hx
  omega

/-- the verdict is a function of the header's fields: two headers that agree on height, claimed
edge bits, pre-PoW bytes and nonces get the same answer (no hidden state in the context) -/
theorem verify_size_function_of_header (ct : ChainType) (n m : NetHdr)
    (h1 : n.h.height = m.h.height) (h2 : n.h.edgeBits = m.h.edgeBits) (h3 : n.prePow = m.prePow)
    (h4 : n.nonces = m.nonces) : verifySizeHdr ct n = verifySizeHdr ct m := by
  unfold verifySizeHdr
  rw [h1, h2, h3, h4]

/-- the network-side header rules, stated outright: what `UntrustedBlockHeader::read` lets through
is not beyond the future-time limit, carries the scheduled version and allowed edge bits, has a
proof of work that verifies on the graph of its claimed size, and fits the global weight bound -/
theorem net_header_rules (ct : ChainType) (now : Int) (ftl : Nat) (n : NetHdr)
    (h : netHeaderOk ct now ftl n = .ok ()) :
    n.h.ts ≤ now + ftl ∧ n.h.version = headerVersion ct n.h.height ∧
    (isPrimary ct n.h.edgeBits = true ∨ isSecondary n.h.edgeBits = true) ∧
    verifySizeHdr ct n = .ok () ∧
    weightByIok 0 (Pmmr.nLeaves n.h.outputMmrSize) (Pmmr.nLeaves n.h.kernelMmrSize) ≤
      mulW (maxBlockWeight ct) (addW n.h.height 1) := by
  obtain ⟨a, b, c, d, e⟩ := untrusted_header_sound ct now ftl (n.powOk ct) n.h h
  refine ⟨a, b, c, ?_, e⟩
  unfold NetHdr.powOk at d
  split at d
  · assumption
  · cases d

/-- **Path independence**: the four readers are the same function of the header -/
theorem net_read_path_independent (p q : NetPath) (ct : ChainType) (now : Int) (ftl : Nat)
    (n : NetHdr) (rest : Except ReadErr Unit) :
    netRead p ct now ftl n rest = netRead q ct now ftl n rest := rfl

/-- whatever the path, what a reader lets through passed the one rule set `netHeaderOk` -/
theorem net_read_sound (p : NetPath) (ct : ChainType) (now : Int) (ftl : Nat) (n : NetHdr)
    (rest : Except ReadErr Unit) (h : netRead p ct now ftl n rest = .ok ()) :
    netHeaderOk ct now ftl n = .ok () ∧ rest = .ok () := by
  unfold netRead at h
  split at h
  · cases h
  · rename_i hh
    exact ⟨hh, h⟩

/-- **A header beyond the future-time limit is refused on every path** — bare header, item of a
header list, compact block, full block — whatever else it (or its body) says. -/
theorem net_future_refused_every_path (p : NetPath) (ct : ChainType) (now : Int) (ftl : Nat)
    (n : NetHdr) (rest : Except ReadErr Unit) (hf : now + ftl < n.h.ts) :
    netRead p ct now ftl n rest = .error .CorruptedData := by
  unfold netRead netHeaderOk
  rw [untrusted_header_future_rejected ct now ftl _ n.h hf]

/-- a header whose proof of work does not verify on its claimed size is refused on every path -/
theorem net_bad_pow_refused_every_path (p : NetPath) (ct : ChainType) (now : Int) (ftl : Nat)
    (n : NetHdr) (rest : Except ReadErr Unit) (hb : verifySizeHdr ct n ≠ .ok ()) :
    netRead p ct now ftl n rest ≠ .ok () := by
  intro h
  exact hb (net_header_rules ct now ftl n (net_read_sound p ct now ftl n rest h).1).2.2.2.1

/-- a `Headers` message is handed over only if every one of its headers passed the rule set -/
theorem net_headers_msg_sound (ct : ChainType) (now : Int) (ftl : Nat) (l : List NetHdr)
    (h : readHeadersMsg ct now ftl l = .ok ()) : ∀ n ∈ l, netHeaderOk ct now ftl n = .ok () := by
  induction l with
  | nil => intro n hn; cases hn
  | cons a t ih =>
    unfold readHeadersMsg at h
    split at h
    · cases h
    · rename_i ha
      intro n hn
      rcases List.mem_cons.mp hn with rfl | hn
      · exact (net_read_sound _ ct now ftl _ _ ha).1
      · exact ih h n hn

/-- … so one future-dated header anywhere in the list refuses the message -/
theorem net_headers_msg_future_refused (ct : ChainType) (now : Int) (ftl : Nat) (l : List NetHdr)
    (hf : ∃ n ∈ l, now + ftl < n.h.ts) : readHeadersMsg ct now ftl l ≠ .ok () := by
  intro h
  obtain ⟨n, hn, hts⟩ := hf
  have := (net_header_rules ct now ftl n (net_headers_msg_sound ct now ftl l h n hn)).1
  omega

/-- the chain pipeline with the verifier the node installs (`pow::verify_size`): a header that
passes `validate_header` without `SKIP_POW` has a proof of work on its claimed graph size -/
theorem pipeline_pow_on_claimed_size (ct : ChainType) (prev : Option Hdr) (w : List HDI) (n : NetHdr)
    (h : validateHeader (ctxForNet ct false prev w n) n.h = .ok ()) :
    verifySizeHdr ct n = .ok () := by
  obtain ⟨_, p, _, _, _, _, _, _, _, hd⟩ := (validate_header_iff _ _).mp h
  have hp : (ctxForNet ct false prev w n).powOk = true := (hd rfl).2.1
  simp only [ctxForNet, NetHdr.powOk] at hp
  split at hp
  · assumption
  · cases hp

/-! ### non-vacuity: a header genuinely mined on 2^10 edges (AutomatedTesting, height 0; pre-PoW
bytes and nonces as observed on the real `pow_size`), honest and relabelled -/

def exNetPre : Bytes := [0, 1, 0, 0, 0, 0, 0, 0, 0, 0, 0, 0, 0, 0, 0, 0, 0, 0, 5, 156, 63, 119, 183, 153, 125, 96, 95, 182, 153, 68, 48, 49, 222, 211, 30, 128, 111, 33, 254, 209, 143, 20, 206, 89, 22, 34, 96, 80, 31, 110, 199, 117, 92, 148, 109, 21, 143, 117, 166, 188, 141, 81, 173, 55, 17, 247, 246, 104, 172, 95, 173, 55, 15, 160, 22, 241, 102, 176, 138, 237, 116, 81, 219, 249, 212, 232, 101, 106, 173, 154, 203, 79, 212, 151, 3, 141, 49, 177, 39, 44, 112, 245, 136, 161, 218, 62, 137, 234, 216, 249, 156, 155, 84, 109, 0, 0, 0, 0, 0, 0, 0, 0, 0, 0, 0, 0, 0, 0, 0, 0, 0, 0, 0, 0, 0, 0, 0, 0, 0, 0, 0, 0, 0, 0, 0, 0, 164, 43, 73, 128, 31, 234, 176, 65, 59, 185, 80, 137, 47, 18, 36, 23, 254, 75, 200, 195, 209, 154, 138, 75, 31, 5, 235, 77, 30, 104, 76, 167, 0, 0, 0, 0, 0, 0, 0, 0, 0, 0, 0, 0, 0, 0, 0, 0, 0, 0, 0, 0, 0, 0, 0, 0, 0, 0, 0, 0, 0, 0, 0, 0, 0, 0, 0, 0, 0, 4, 217, 56, 0, 0, 0, 0, 0, 8, 213, 104, 0, 8, 83, 13, 68, 200, 14, 188, 83, 245, 21, 65, 35, 1, 10, 200, 34, 26, 128, 183]

/-- the header as mined (`edge_bits` 10) and the same proof under a claimed size `eb` -/
def exNet (eb : Nat) : NetHdr :=
  { h := { height := 0, ts := 1000, version := 1, totalDiff := 2, secondaryScaling := 0, edgeBits := eb,
           hash64 := 1, outputMmrSize := 1, kernelMmrSize := 1 },
    prePow := exNetPre, nonces := [30, 397, 435, 521, 683, 836, 1018, 1023] }

example : verifySizeHdr .automatedTesting (exNet 10) = .ok () := by decide +kernel
example : verifySizeHdr .automatedTesting (exNet 11) = .error (.size (.verify .noMatch)) := by decide +kernel
example : verifySizeHdr .automatedTesting (exNet 21) = .error (.size (.verify .noMatch)) := by decide +kernel
example : verifySizeHdr .automatedTesting (exNet 9) = .error (.size (.verify .tooBig)) := by decide +kernel
example : verifySizeHdr .automatedTesting (exNet 63) = .error .graphTooBig := by decide +kernel
example : netHeaderOk .automatedTesting 2000 0 (exNet 10) = .ok () := by decide +kernel
example : netHeaderOk .automatedTesting 2000 0 (exNet 21) = .error .CorruptedData := by decide +kernel
example : ∀ p ∈ [NetPath.header, .headersItem, .compactBlock, .block],
    netRead p .automatedTesting 999 0 (exNet 10) (.ok ()) = .error .CorruptedData ∧
    netRead p .automatedTesting 1000 0 (exNet 10) (.ok ()) = .ok () := by decide +kernel
example : readHeadersMsg .automatedTesting 2000 0 [exNet 10, exNet 10] = .ok () ∧
    readHeadersMsg .automatedTesting 2000 0 [exNet 10, exNet 21, exNet 10] = .error .CorruptedData := by
  decide +kernel
end GV.Props.C04
