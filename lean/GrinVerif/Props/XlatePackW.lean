import GrinVerif.Model.PowPack
import GrinVerif.Gen.FnsPack
import GrinVerif.Lemmas.SerBits
/-! # The WRITE side of the nonce packing (`pack_bits`, `Proof::pack_nonces`) translated from the current source

`Gen/FnsPack.lean` (tools/rs2lean.py, phase 7): `pack_bits` writes through and re-slices its `&mut [u8]` parameter
(`compressed[..8].copy_from_slice(..)`, `compressed = &mut compressed[8..]`); the translation threads the remaining slice and
the already-passed prefix and returns the final buffer.  Tied to `Pow.packLoop` / `Pow.packNonces` of `Model/PowPack.lean`
(whose `none` is the slice-index / `copy_from_slice` panic) for bit widths `w ≤ 63` (`Proof::read` refuses more; at
`w ≥ 64` the code's `el >> remaining` is a masked shift and the model does not follow it).  The read side (`read_number`,
`extract_bits`) is tied in `Props/XlatePack.lean`; the round trip `readNumber (packNonces …)` is a theorem about the model
(`Lemmas/SerProofRt.lean`), which now rests on the current source on both sides. -/
namespace GV.Props.XlatePackW
open GV GV.Gen GV.Pow

theorem sub8 {a b : Nat} (h : b ≤ a) (ha : a < 256) : Fns.subN 8 a b = a - b := by
  unfold Fns.subN; omega
theorem add8 {a b : Nat} (h : a + b < 256) : Fns.addN 8 a b = a + b := by
  unfold Fns.addN; omega

/-- the state of the translated loop after running over `l` from a ZEROED remaining slice of `k` bytes: the passed prefix and
the mini buffer are the model's, the remaining slice is zeros again; the loop's `_ok` is false exactly when the model panics -/
theorem loop_eq (w : Nat) (hw : w ≤ 63) :
    ∀ (l : List Nat) (k : Nat) (out : List Nat) (mini rem : Nat), 1 ≤ rem → rem ≤ 64 →
      (Fns.pack_bits_loop1_ok w l (List.replicate k 0) out mini rem = false ∧
         packLoop w (out.length + k) l mini rem out = none) ∨
      (Fns.pack_bits_loop1_ok w l (List.replicate k 0) out mini rem = true ∧
         ∃ out' mini' rem', packLoop w (out.length + k) l mini rem out = some (out', mini') ∧
           out.length ≤ out'.length ∧ out'.length ≤ out.length + k ∧
           Fns.pack_bits_loop1 w l (List.replicate k 0) out mini rem =
             (List.replicate (out.length + k - out'.length) 0, out', mini', rem')) := by
  intro l
  induction l with
  | nil =>
    intro k out mini rem _ _
    right
    refine ⟨rfl, out, mini, rem, rfl, Nat.le_refl _, by omega, ?_⟩
    simp [Fns.pack_bits_loop1]
  | cons el t ih =>
    intro k out mini rem h1 h64
    have e64 : Fns.subN 8 64 rem = 64 - rem := sub8 h64 (by omega)
    conv => lhs; lhs; lhs; unfold Fns.pack_bits_loop1_ok
    conv => rhs; lhs; lhs; unfold Fns.pack_bits_loop1_ok
    conv => rhs; rhs; rhs; intro a; rhs; intro b; rhs; intro c; rhs; rhs; rhs; lhs; unfold Fns.pack_bits_loop1
    unfold packLoop
    simp only [e64]
    by_cases hlt : w < rem
    · have es : Fns.subN 8 rem w = rem - w := sub8 (by omega) (by omega)
      simp only [hlt, decide_true, if_true, Bool.true_and, es]
      exact ih k out (mini ||| shlW el (64 - rem)) (rem - w) (by omega) (by omega)
    · simp only [hlt, decide_false, Bool.false_eq_true, if_false]
      have ea : Fns.addN 8 64 rem = 64 + rem := add8 (by omega)
      have es : Fns.subN 8 (64 + rem) w = 64 + rem - w := sub8 (by omega) (by omega)
      have esh : shrW el rem = el >>> rem := by
        unfold shrW; rw [Nat.mod_eq_of_lt (by omega), Nat.shiftRight_eq_div_pow]
      by_cases hk : 8 ≤ k
      · have hnot : ¬ (out.length + 8 > out.length + k) := by omega
        have hdrop : List.drop 8 (leBytes 8 (mini ||| shlW el (64 - rem)) ++ List.drop 8 (List.replicate k 0))
            = List.replicate (k - 8) 0 := by
          rw [List.drop_left' (Ser.leBytes_length _ _)]; simp
        have htake : List.take 8 (leBytes 8 (mini ||| shlW el (64 - rem)) ++ List.drop 8 (List.replicate k 0))
            = leBytes 8 (mini ||| shlW el (64 - rem)) := by
          rw [List.take_left' (Ser.leBytes_length _ _)]
        simp only [hnot, if_false, List.length_replicate, hk, decide_true, Ser.leBytes_length, beq_self_eq_true, Bool.and_self,
          List.length_append, List.length_drop, Bool.true_and, ea, es, esh, hdrop, htake]
        have hk8 : 8 ≤ 8 + (k - 8) := by omega
        simp only [hk8, decide_true, Bool.true_and]
        have := ih (k - 8) (out ++ leBytes 8 (mini ||| shlW el (64 - rem))) (el >>> rem) (64 + rem - w) (by omega) (by omega)
        simp only [List.length_append, Ser.leBytes_length] at this
        have hlen : out.length + 8 + (k - 8) = out.length + k := by omega
        rw [hlen] at this
        rcases this with ⟨h1', h2'⟩ | ⟨h1', o', m', r', h2', h3', h4', h5'⟩
        · left; exact ⟨h1', h2'⟩
        · right
          refine ⟨h1', o', m', r', h2', by omega, by omega, ?_⟩
          rw [h5']
      · left
        have hgt : out.length + 8 > out.length + k := by omega
        simp [hgt, hk, List.length_replicate]


/-- `packNonces` with the buffer length as a parameter (`packNonces w ps = packWith w (packLen w ps)`, by `rfl`) -/
def packWith (w total : Nat) (nonces : List Nat) : Option Bytes :=
  match packLoop w total nonces 0 64 [] with
  | none => none
  | some (out, mini) =>
    let rest := total - out.length
    let remainder := if rest % 8 = 0 then 8 else rest % 8
    if mini > 0 then
      if rest = remainder then some (out ++ (leBytes 8 mini).take remainder) else none
    else some (out ++ List.replicate rest 0)

theorem packNonces_eq_packWith (w ps : Nat) (nonces : List Nat) :
    packNonces w ps nonces = packWith w (packLen w ps) nonces := rfl

/-- **`pack_bits` on a zeroed buffer = the model**: it returns normally exactly when the model does not panic, and then the
final buffer is the model's bytes -/
theorem pack_bits_eq (w : Nat) (hw : w ≤ 63) (l : List Nat) (total : Nat) :
    packWith w total l =
      if Fns.pack_bits_ok w l (List.replicate total 0) = true then some (Fns.pack_bits w l (List.replicate total 0))
      else none := by
  have h := loop_eq w hw l total [] 0 64 (by omega) (by omega)
  simp only [List.length_nil, Nat.zero_add] at h
  unfold packWith Fns.pack_bits_ok Fns.pack_bits
  rcases h with ⟨hok, hm⟩ | ⟨hok, o', m', r', hm, _, hle, hst⟩
  · simp [hok, hm]
  · simp only [hok, hm, hst, Bool.true_and, List.length_replicate, Nat.sub_zero]
    have hr8 : (if ((total - o'.length) % 8 == 0) = true then 8 else (total - o'.length) % 8) ≤ 8 := by
      split <;> omega
    have hre : (if ((total - o'.length) % 8 == 0) = true then 8 else (total - o'.length) % 8)
        = (if (total - o'.length) % 8 = 0 then 8 else (total - o'.length) % 8) := by
      by_cases h0 : (total - o'.length) % 8 = 0 <;> simp [h0]
    by_cases hm0 : m' > 0
    · simp only [hm0, decide_true, if_true, Ser.leBytes_length, List.length_take, hre] at hr8 ⊢
      by_cases hrest : total - o'.length = (if (total - o'.length) % 8 = 0 then 8 else (total - o'.length) % 8)
      · have : (total - o'.length == min (if (total - o'.length) % 8 = 0 then 8 else (total - o'.length) % 8) 8) = true := by
          rw [Nat.min_eq_left hr8]; simp [← hrest]
        have hle8 : total - o'.length ≤ 8 := by
          by_cases h0 : (total - o'.length) % 8 = 0
          · simp only [h0, if_true] at hrest; omega
          · simp only [h0, if_false] at hrest; omega
        simp [hr8, this, ← hrest]
        omega
      · have : (total - o'.length == min (if (total - o'.length) % 8 = 0 then 8 else (total - o'.length) % 8) 8) = false := by
          rw [Nat.min_eq_left hr8]; simp [hrest]
        simp [this, hrest]
    · simp [hm0]

/-- non-vacuity: two 4-bit values into one byte -/
example : Fns.pack_bits 4 [3, 10] [0] = [163] ∧ Fns.pack_bits_ok 4 [3, 10] [0] = true := by decide

end GV.Props.XlatePackW
