import GrinVerif.Props.C15
import GrinVerif.Model.BitmapBlocks
/-! # C15 — the chain invariant "the last output leaf is unspent" discharged from a block-history
model (`Model/BitmapBlocks.lean`: `Extension::apply_block`, `Extension::rewind` over the output
MMR's leaf set), so that path independence no longer rests on an invariant proved elsewhere.

`Good s`: the leaf set is ascending, below the leaf count, the MMR is not empty and **its last
leaf is in the leaf set**.  `block_history_eq_scratch`: from any good state whose accumulator is the
from-scratch one, after EVERY history of valid blocks (≥ 1 output, inputs spend outputs unspent
before the block) and rewinds of any depth down to the base (one aggregate accumulator update per
rewind, as the code does), the state is good and the accumulator is the from-scratch accumulator of
the leaf set reached.  `own_output_spent_breaks_invariant`: what `verify_cut_through` is needed for. -/
namespace GV.Props.C15
open GV GV.Pmmr GV.Bitmap

variable {H : Type}

def Good (s : BSt) : Prop :=
  s.U.Pairwise (· < ·) ∧ (∀ x ∈ s.U, x < s.n) ∧ 0 < s.n ∧ s.n - 1 ∈ s.U ∧ s.n ≤ 2 ^ 64

theorem Good.last {s : BSt} (g : Good s) : LastLeafUnspent s.U s.n := ⟨g.2.2.1, g.2.2.2.1⟩

theorem supList_le (N : Nat) : ∀ (l : List Nat) (a : Nat), a ≤ N → (∀ x ∈ l, x < N) →
    l.foldl (fun a x => max a (x + 1)) a ≤ N
  | [], a, ha, _ => ha
  | y :: ys, a, ha, h => by
    simp only [List.foldl_cons]
    refine supList_le N ys _ ?_ (fun x hx => h x (List.mem_cons_of_mem _ hx))
    have := h y List.mem_cons_self
    omega

theorem mem_applyBlk (s : BSt) (b : Blk) (hU : ∀ x ∈ s.U, x < s.n) (x : Nat) :
    x ∈ (applyBlk s b).U ↔ (x ∈ s.U ∨ (s.n ≤ x ∧ x < s.n + b.k)) ∧ x ∉ b.spent := by
  have hs : supList s.U ≤ s.n + b.k := by
    have := supList_le s.n s.U 0 (Nat.zero_le _) hU
    unfold supList; omega
  unfold applyBlk
  simp only [List.mem_filter, List.mem_range, Bool.and_eq_true, Bool.or_eq_true, decide_eq_true_eq,
    Bool.not_eq_true', decide_eq_false_iff_not]
  constructor
  · exact fun h => h.2
  · intro h
    refine ⟨?_, h⟩
    rcases h.1 with h1 | h1
    · have := hU x h1; omega
    · omega

theorem mem_undoBlk (s : BSt) (r : Rec) (hsp : ∀ x ∈ r.spent, x < r.nBefore) (x : Nat) :
    x ∈ (undoBlk s r).U ↔ (x < r.nBefore ∧ x ∈ s.U) ∨ x ∈ r.spent := by
  have hs : supList r.spent ≤ r.nBefore := by
    have := supList_le r.nBefore r.spent 0 (Nat.zero_le _) hsp
    unfold supList; omega
  unfold undoBlk
  simp only [List.mem_filter, List.mem_range, Bool.and_eq_true, Bool.or_eq_true, decide_eq_true_eq]
  constructor
  · exact fun h => h.2
  · intro h
    refine ⟨?_, h⟩
    rcases h with h1 | h1
    · omega
    · have := hsp x h1; omega

theorem applyBlk_sorted (s : BSt) (b : Blk) : (applyBlk s b).U.Pairwise (· < ·) :=
  List.pairwise_lt_range.filter _

theorem undoBlk_sorted (s : BSt) (r : Rec) : (undoBlk s r).U.Pairwise (· < ·) :=
  List.pairwise_lt_range.filter _

/-- two ascending lists with the same members are equal -/
theorem sorted_ext (A B : List Nat) (ha : A.Pairwise (· < ·)) (hb : B.Pairwise (· < ·))
    (h : ∀ x, x ∈ A ↔ x ∈ B) : A = B := by
  apply List.Perm.eq_of_pairwise (le := (· < ·)) (by intro a b _ _ h1 h2; omega) ha hb
  rw [List.perm_ext_iff_of_nodup (ha.imp Nat.ne_of_lt) (hb.imp Nat.ne_of_lt)]
  exact h

theorem filter_lt_ext (A B : List Nat) (c : Nat) (ha : A.Pairwise (· < ·)) (hb : B.Pairwise (· < ·))
    (h : ∀ x, x < c → (x ∈ A ↔ x ∈ B)) :
    A.filter (fun x => decide (x < c)) = B.filter (fun x => decide (x < c)) := by
  refine sorted_ext _ _ (ha.filter _) (hb.filter _) ?_
  intro x
  simp only [List.mem_filter, decide_eq_true_eq]
  constructor
  · exact fun ⟨h1, h2⟩ => ⟨(h x h2).mp h1, h2⟩
  · exact fun ⟨h1, h2⟩ => ⟨(h x h2).mpr h1, h2⟩

/-- **a valid block keeps the state good — in particular its last output is the last leaf and it
is unspent** (`k ≥ 1`; no input names an output of the block itself) -/
theorem good_applyBlk (s : BSt) (b : Blk) (g : Good s) (v : ValidBlk s b) : Good (applyBlk s b) := by
  obtain ⟨_, hlt, hpos, _, _⟩ := g
  obtain ⟨hk, hsp, hsz⟩ := v
  refine ⟨applyBlk_sorted s b, ?_, ?_, ?_, hsz⟩
  · intro x hx
    rcases ((mem_applyBlk s b hlt x).mp hx).1 with h | h
    · have := hlt x h; show x < s.n + b.k; omega
    · exact h.2
  · show 0 < s.n + b.k; omega
  · show s.n + b.k - 1 ∈ (applyBlk s b).U
    refine (mem_applyBlk s b hlt _).mpr ⟨Or.inr ⟨by omega, by omega⟩, ?_⟩
    intro hm
    have := hlt _ (hsp _ hm)
    omega

/-- `rewind_single_block` undoes `apply_block` on the output MMR -/
theorem undo_apply (s : BSt) (b : Blk) (g : Good s) (v : ValidBlk s b) :
    undoBlk (applyBlk s b) ⟨s.n, b.spent⟩ = s := by
  obtain ⟨hs, hlt, _, _, _⟩ := g
  obtain ⟨_, hsp, _⟩ := v
  have hsp' : ∀ x ∈ b.spent, x < s.n := fun x hx => hlt x (hsp x hx)
  have hU : (undoBlk (applyBlk s b) ⟨s.n, b.spent⟩).U = s.U := by
    refine sorted_ext _ _ (undoBlk_sorted _ _) hs ?_
    intro x
    rw [mem_undoBlk _ ⟨s.n, b.spent⟩ hsp' x, mem_applyBlk s b hlt x]
    constructor
    · rintro (⟨h1, h2, _⟩ | h)
      · rcases h2 with h2 | h2
        · exact h2
        · simp only at h1; omega
      · exact hsp x h
    · intro h
      by_cases hm : x ∈ b.spent
      · exact Or.inr hm
      · exact Or.inl ⟨hlt x h, Or.inl h, hm⟩
  cases s
  simp only [undoBlk] at hU ⊢
  rw [hU]

/-- what the stack of rewindable blocks must satisfy: undoing the newest record gives a good state
again (below the current one), and so on down to the base -/
def StackOk : BSt → List Rec → Prop
  | _, [] => True
  | s, r :: rs => Good (undoBlk s r) ∧ (∀ x ∈ r.spent, x < r.nBefore) ∧ StackOk (undoBlk s r) rs

def idxOf (p : Nat) : Nat := satSub (nLeaves p) 1

theorem idx_recAffected (r : Rec) (p : Nat) (hp : p ∈ recAffected r) :
    idxOf p ∈ r.spent ∨ idxOf p = r.nBefore - 1 := by
  unfold recAffected at hp
  rcases List.mem_append.mp hp with h | h
  · obtain ⟨i, hi, e⟩ := List.mem_map.mp h
    left; rw [← e]; unfold idxOf; rw [affected_pos_index]; exact hi
  · right
    simp only [List.mem_singleton] at h
    rw [h]; exact affected_size_index _

/-- one rewound block: below every affected index the leaf set is unchanged -/
theorem undo_agree (s : BSt) (r : Rec) (hsp : ∀ x ∈ r.spent, x < r.nBefore) (y : Nat)
    (hy : ∀ p ∈ recAffected r, y < idxOf p) : y ∈ (undoBlk s r).U ↔ y ∈ s.U := by
  rw [mem_undoBlk s r hsp y]
  have hnb : y < r.nBefore - 1 := by
    have := hy (insertionToPmmrIndex r.nBefore) (by unfold recAffected; simp)
    unfold idxOf at this; rw [affected_size_index] at this; exact this
  have hns : y ∉ r.spent := by
    intro hm
    have := hy (insertionToPmmrIndex y + 1) (by
      unfold recAffected
      exact List.mem_append_left _ (List.mem_map.mpr ⟨y, hm, rfl⟩))
    unfold idxOf at this; rw [affected_pos_index] at this; omega
  constructor
  · rintro (⟨_, h⟩ | h)
    · exact h
    · exact absurd h hns
  · exact fun h => Or.inl ⟨by omega, h⟩

theorem undoMany_zero (s : BSt) (l : List Rec) : undoMany s l 0 = (s, []) := by
  cases l <;> rfl

theorem undoMany_cons (s : BSt) (r : Rec) (rs : List Rec) (d : Nat) :
    undoMany s (r :: rs) (d + 1) =
      ((undoMany (undoBlk s r) rs d).1, recAffected r ++ (undoMany (undoBlk s r) rs d).2) := rfl

/-- **the rewind loop**: after `d ≥ 1` rewound blocks the state is good again, the stack below is
intact, the aggregate `affected_pos` names the new last leaf, and below every affected index the
leaf set is the one before the rewind -/
theorem undoMany_spec : ∀ (d : Nat) (stack : List Rec) (s : BSt), StackOk s stack → d + 1 ≤ stack.length →
    Good (undoMany s stack (d + 1)).1 ∧ StackOk (undoMany s stack (d + 1)).1 (stack.drop (d + 1)) ∧
    (∃ p ∈ (undoMany s stack (d + 1)).2, idxOf p = (undoMany s stack (d + 1)).1.n - 1) ∧
    (∀ y, (∀ p ∈ (undoMany s stack (d + 1)).2, y < idxOf p) →
      (y ∈ (undoMany s stack (d + 1)).1.U ↔ y ∈ s.U))
  | _, [], _, _, hl => by simp at hl
  | 0, r :: rs, s, hso, _ => by
    obtain ⟨g, hsp, hrest⟩ := hso
    have e : undoMany s (r :: rs) (0 + 1) = (undoBlk s r, recAffected r ++ []) := by
      rw [undoMany_cons, undoMany_zero]
    rw [e]
    refine ⟨g, hrest, ⟨insertionToPmmrIndex r.nBefore, by unfold recAffected; simp, ?_⟩, ?_⟩
    · unfold idxOf; rw [affected_size_index]; rfl
    · intro y hy
      exact undo_agree s r hsp y (fun p hp => hy p (by simpa using hp))
  | d + 1, r :: rs, s, hso, hl => by
    obtain ⟨g, hsp, hrest⟩ := hso
    have hl' : d + 1 ≤ rs.length := by simp only [List.length_cons] at hl; omega
    obtain ⟨g', hst', ⟨p, hp, hpe⟩, hag⟩ := undoMany_spec d rs (undoBlk s r) hrest hl'
    have e : undoMany s (r :: rs) (d + 1 + 1) =
        ((undoMany (undoBlk s r) rs (d + 1)).1, recAffected r ++ (undoMany (undoBlk s r) rs (d + 1)).2) :=
      undoMany_cons _ _ _ _
    rw [e]
    refine ⟨g', hst', ⟨p, List.mem_append_right _ hp, hpe⟩, ?_⟩
    intro y hy
    rw [hag y (fun p hp => hy p (List.mem_append_right _ hp))]
    exact undo_agree s r hsp y (fun p hp => hy p (List.mem_append_left _ hp))

/-- `apply_to_bitmap_accumulator` = from scratch, needing only that the SMALLEST affected index lies
inside the output MMR (a rewind's aggregate also names indices of leaves that no longer exist) -/
theorem extApply_eq_scratch_min (hf : HashFn Nat H)
    (U0 : List Nat) (size0 : Nat) (st0 : Acc H) (o : OutputPmmr) (outputPos : List Nat)
    (hprev : fromScratch hf U0 size0 = some st0)
    (hs0 : U0.Pairwise (· < ·)) (hlt0 : ∀ x ∈ U0, x < size0) (hsz0 : size0 ≤ 2 ^ 64)
    (hs : o.leafSet.Pairwise (· < ·)) (hlt : ∀ x ∈ o.leafSet, x < nLeaves o.size)
    (hne : outputPos ≠ [])
    (hfrom : (affectedIdx outputPos).headD 0 < nLeaves o.size)
    (hagree : o.leafSet.filter (fun x => decide (x < chunkStartIdx ((affectedIdx outputPos).headD 0))) =
      U0.filter (fun x => decide (x < chunkStartIdx ((affectedIdx outputPos).headD 0))))
    (hlast : LastLeafUnspent o.leafSet (nLeaves o.size)) :
    extApply hf st0 o outputPos = fromScratch hf o.leafSet (nLeaves o.size) := by
  unfold extApply
  cases h : affectedIdx outputPos with
  | nil =>
    unfold affectedIdx at h
    have := (sortNat_eq_nil _).1 h
    simp at this; exact absurd this hne
  | cons a t =>
    rw [h] at hagree hfrom
    simp only [List.headD_cons] at hagree hfrom ⊢
    exact apply_eq_scratch hf U0 size0 st0 o.leafSet (nLeaves o.size) a t hprev hs0 hlt0 hsz0 hs hlt
      hagree hfrom hlast

theorem nLeaves_outOf (s : BSt) : nLeaves (outOf s).size = s.n := by
  unfold outOf insertionToPmmrIndex
  exact C07.nLeaves_at_leaf_boundary s.n

theorem chunkStart_le (i : Nat) : chunkStartIdx i ≤ i := by
  unfold chunkStartIdx; exact Nat.div_mul_le_self _ _

/-- the common part of the three cases: a transition from good `s` to good `s'` whose affected
positions name an index inside `s'` and below whose every index the leaf sets agree -/
theorem transition_eq_scratch (hf : HashFn Nat H) (s s' : BSt) (acc : Acc H) (aff : List Nat)
    (g : Good s) (g' : Good s') (hacc : fromScratch hf s.U s.n = some acc) (hne : aff ≠ [])
    (hin : ∃ p ∈ aff, idxOf p < s'.n)
    (hag : ∀ y, (∀ p ∈ aff, y < idxOf p) → (y ∈ s'.U ↔ y ∈ s.U)) :
    extApply hf acc (outOf s') aff = fromScratch hf s'.U s'.n := by
  obtain ⟨⟨pm, hpm, hmin⟩, hle⟩ := minIdx_is_min aff hne
  have hn := nLeaves_outOf s'
  have := extApply_eq_scratch_min hf s.U s.n acc (outOf s') aff hacc g.1 g.2.1 g.2.2.2.2
    g'.1 (by rw [hn]; exact g'.2.1) hne
    (by
      rw [hn]
      obtain ⟨p, hp, hlt⟩ := hin
      exact Nat.lt_of_le_of_lt (hle p hp) hlt)
    (by
      refine filter_lt_ext _ _ _ g'.1 g.1 ?_
      intro y hy
      refine hag y (fun p hp => ?_)
      exact Nat.lt_of_lt_of_le hy (Nat.le_trans (chunkStart_le _) (hle p hp)))
    (by rw [hn]; exact g'.last)
  rw [hn] at this
  exact this

/-- the invariant of an extension -/
structure CInv (hf : HashFn Nat H) (c : CSt H) : Prop where
  good : Good c.st
  acc : fromScratch hf c.st.U c.st.n = some c.acc
  stack : StackOk c.st c.stack

theorem stackOk_drop : ∀ (d : Nat) (stack : List Rec) (s : BSt), StackOk s stack → d ≤ stack.length → True :=
  fun _ _ _ _ _ => trivial

/-- **every valid operation succeeds and keeps the invariant**: afterwards the last leaf is unspent
and the accumulator is the from-scratch accumulator of the leaf set -/
theorem step_inv (hf : HashFn Nat H) (c : CSt H) (op : Op) (hi : CInv hf c) (hv : ValidOp c op) :
    ∃ c', stepOp hf c op = some c' ∧ CInv hf c' := by
  obtain ⟨g, hacc, hst⟩ := hi
  cases op with
  | block b =>
    have v : ValidBlk c.st b := hv
    have g' := good_applyBlk c.st b g v
    obtain ⟨hk, hsp, _⟩ := v
    have hlt := g.2.1
    have key := transition_eq_scratch hf c.st (applyBlk c.st b) c.acc (blkAffected c.st b) g g' hacc
      (by
        unfold blkAffected
        intro h
        have := congrArg List.length h
        simp only [List.length_map, List.length_append, List.length_range', List.length_nil] at this
        omega)
      ⟨insertionToPmmrIndex c.st.n + 1, by
        unfold blkAffected
        refine List.mem_map.mpr ⟨c.st.n, List.mem_append_left _ ?_, rfl⟩
        rw [List.mem_range'_1]; omega,
       by unfold idxOf; rw [affected_pos_index]; show c.st.n < c.st.n + b.k; omega⟩
      (by
        intro y hy
        have hyn : y < c.st.n := by
          have := hy (insertionToPmmrIndex c.st.n + 1) (by
            unfold blkAffected
            refine List.mem_map.mpr ⟨c.st.n, List.mem_append_left _ ?_, rfl⟩
            rw [List.mem_range'_1]; omega)
          unfold idxOf at this; rw [affected_pos_index] at this; exact this
        have hns : y ∉ b.spent := by
          intro hm
          have := hy (insertionToPmmrIndex y + 1) (by
            unfold blkAffected
            exact List.mem_map.mpr ⟨y, List.mem_append_right _ hm, rfl⟩)
          unfold idxOf at this; rw [affected_pos_index] at this; omega
        rw [mem_applyBlk c.st b hlt y]
        constructor
        · rintro ⟨h | h, _⟩
          · exact h
          · omega
        · exact fun h => ⟨Or.inl h, hns⟩)
    obtain ⟨a', ha', _⟩ := scratch_as_bitmap hf (applyBlk c.st b).U (applyBlk c.st b).n g'.1 g'.2.1 g'.2.2.2.2
    refine ⟨{ acc := a', st := applyBlk c.st b, stack := ⟨c.st.n, b.spent⟩ :: c.stack }, ?_, ⟨g', ha', ?_⟩⟩
    · show (match extApply hf c.acc (outOf (applyBlk c.st b)) (blkAffected c.st b) with
          | none => none
          | some a => some ({ acc := a, st := applyBlk c.st b, stack := ⟨c.st.n, b.spent⟩ :: c.stack } : CSt H)) = _
      rw [key, ha']
    · show Good (undoBlk (applyBlk c.st b) ⟨c.st.n, b.spent⟩) ∧ (∀ x ∈ b.spent, x < c.st.n) ∧
        StackOk (undoBlk (applyBlk c.st b) ⟨c.st.n, b.spent⟩) c.stack
      rw [undo_apply c.st b g ⟨hk, hsp, by assumption⟩]
      exact ⟨g, fun x hx => hlt x (hsp x hx), hst⟩
  | rewind d =>
    cases d with
    | zero =>
      have key := transition_eq_scratch hf c.st c.st c.acc [insertionToPmmrIndex c.st.n] g g hacc (by simp)
        ⟨_, List.mem_singleton.mpr rfl, by
          unfold idxOf; rw [affected_size_index]; have := g.2.2.1; omega⟩
        (fun _ _ => Iff.rfl)
      refine ⟨({ c with acc := c.acc } : CSt H), ?_, ⟨g, hacc, hst⟩⟩
      show (match extApply hf c.acc (outOf c.st) [insertionToPmmrIndex c.st.n] with
          | none => none
          | some a => some ({ c with acc := a } : CSt H)) = _
      rw [key, hacc]
    | succ d =>
      have hl : d + 1 ≤ c.stack.length := hv
      obtain ⟨g', hst', ⟨p, hp, hpe⟩, hag⟩ := undoMany_spec d c.stack c.st hst hl
      have key := transition_eq_scratch hf c.st (undoMany c.st c.stack (d + 1)).1 c.acc
        (undoMany c.st c.stack (d + 1)).2 g g' hacc (by intro h; rw [h] at hp; cases hp)
        ⟨p, hp, by rw [hpe]; have := g'.2.2.1; omega⟩ hag
      obtain ⟨a', ha', _⟩ := scratch_as_bitmap hf _ _ g'.1 g'.2.1 g'.2.2.2.2
      refine ⟨{ acc := a', st := (undoMany c.st c.stack (d + 1)).1, stack := c.stack.drop (d + 1) }, ?_,
        ⟨g', ha', hst'⟩⟩
      show (if c.stack.length < d + 1 then none else
          match extApply hf c.acc (outOf (undoMany c.st c.stack (d + 1)).1) (undoMany c.st c.stack (d + 1)).2 with
          | none => none
          | some a => some ({ acc := a, st := (undoMany c.st c.stack (d + 1)).1, stack := c.stack.drop (d + 1) } : CSt H)) = _
      rw [if_neg (by omega), key, ha']

/-- **Path independence over block histories, with the chain invariant derived, not assumed.**
Start from any good state (e.g. the genesis output alone) whose accumulator is the from-scratch one.
After every history of valid blocks and rewinds — any depths, any interleaving, re-applying other
blocks after a rewind (reorganisation) — every operation succeeds, the last output leaf is unspent
and the bitmap accumulator is the one computed from scratch over the leaf set reached; `as_bitmap`
returns exactly that leaf set. -/
theorem block_history_eq_scratch (hf : HashFn Nat H) : ∀ (ops : List Op) (c : CSt H), CInv hf c →
    ValidOps hf c ops →
    ∃ c', runOps hf c ops = some c' ∧ LastLeafUnspent c'.st.U c'.st.n ∧
      fromScratch hf c'.st.U c'.st.n = some c'.acc ∧ asBitmap c'.acc = some c'.st.U
  | [], c, hi, _ => by
    refine ⟨c, rfl, hi.good.last, hi.acc, ?_⟩
    obtain ⟨a, ha, hb⟩ := scratch_as_bitmap hf c.st.U c.st.n hi.good.1 hi.good.2.1 hi.good.2.2.2.2
    rw [hi.acc] at ha; injection ha with ha; rw [ha]; exact hb
  | op :: ops, c, hi, hv => by
    obtain ⟨c1, h1, hi1⟩ := step_inv hf c op hi hv.1
    obtain ⟨c', h2, rest⟩ := block_history_eq_scratch hf ops c1 hi1 (hv.2 c1 h1)
    exact ⟨c', by simp only [runOps, h1]; exact h2, rest⟩

/-- the base: the genesis output alone -/
theorem genesis_inv (hf : HashFn Nat H) (a : Acc H) (ha : fromScratch hf [0] 1 = some a) :
    CInv hf { acc := a, st := ⟨1, [0]⟩, stack := [] } :=
  ⟨⟨List.pairwise_singleton _ _, by intro x hx; simp only [List.mem_singleton] at hx; show x < 1; omega,
    by show 0 < 1; omega, by show 1 - 1 ∈ [0]; simp, by show 1 ≤ 2 ^ 64; omega⟩, ha, trivial⟩

/-- **Why cut-through matters here**: at the level of `Extension::apply_block` a block may spend its
own last output (the inputs are looked up after the outputs were pushed); the resulting state
violates the invariant — its last leaf is spent -/
theorem own_output_spent_breaks_invariant (s : BSt) (k : Nat) (_hk : 1 ≤ k) (hU : ∀ x ∈ s.U, x < s.n) :
    ¬ LastLeafUnspent (applyBlk s ⟨k, [s.n + k - 1]⟩).U (applyBlk s ⟨k, [s.n + k - 1]⟩).n := by
  intro h
  have hm := h.2
  have e : (applyBlk s ⟨k, [s.n + k - 1]⟩).n = s.n + k := rfl
  rw [e] at hm
  have := ((mem_applyBlk s ⟨k, [s.n + k - 1]⟩ hU _).mp hm).2
  exact this (List.mem_singleton.mpr rfl)

instance (s : BSt) (b : Blk) : Decidable (ValidBlk s b) := by unfold ValidBlk; exact inferInstance

/-- non-vacuity: genesis, a block of 3 outputs spending the genesis output, a block of 2 spending
leaf 2, a rewind of both, another block — all valid, so the theorem applies -/
example : ValidBlk ⟨1, [0]⟩ ⟨3, [0]⟩ ∧ ValidBlk (applyBlk ⟨1, [0]⟩ ⟨3, [0]⟩) ⟨2, [2]⟩ ∧
    (applyBlk (applyBlk ⟨1, [0]⟩ ⟨3, [0]⟩) ⟨2, [2]⟩).U = [1, 3, 4, 5] ∧
    (undoMany (applyBlk (applyBlk ⟨1, [0]⟩ ⟨3, [0]⟩) ⟨2, [2]⟩) [⟨4, [2]⟩, ⟨1, [0]⟩] 2).1.U = [0] := by
  decide +kernel

end GV.Props.C15
