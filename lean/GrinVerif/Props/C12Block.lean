import GrinVerif.Lemmas.TxBlockVal
import GrinVerif.Props.C12
/-! # C12 — the block that is built, validated, announced by short ids and re-hydrated

Property theorems about `Model/TxBlock.lean` (helper lemmas: `Lemmas/TxBlockVal.lean`):
the offset `Block::validate` recovers from the two header totals, the full `validate_read` gates
(weight, NRD duplicates) of an aggregate, the lock-height / NRD gates of a block, the header
`from_reward` computes, the short ids of a compact block.  Conventions as in `Props/C12.lean`. -/
namespace GV.Props.C12
open GV GV.Tx GV.Tx.Ex List

/-- evaluation of the body gates on concrete data -/
macro "tx_eval_b" : tactic => `(tactic|
  simp [bodyValidateRead, verifyWeight, maxWeightOf, verifyNoNrdDuplicates, dedupAdj, sortedUnique,
    verifyCutThrough, adjDup, sortBy, outCommit, BErr.ofV, Cons.weightByIok, Cons.maxBlockWeight, K0,
    List.mergeSort, List.MergeSort.Internal.splitInTwo, List.merge,
    Gen.TESTING_MAX_BLOCK_WEIGHT, Gen.INPUT_WEIGHT, Gen.OUTPUT_WEIGHT, Gen.KERNEL_WEIGHT, U64MAX])

/-! ## the kernel offset `Block::validate` uses -/

/-- **`block_kernel_offset` in closed form** (never an error): zero when the header's total is the
zero offset — *whatever the previous total is* —, otherwise `total − prev` modulo the group order. -/
theorem blockKernelOffset_spec {t p : Nat} (ht : t < N) (hp : p < N) :
    blockKernelOffset t p = .ok (if t = 0 then 0 else (t + (N - p)) % N) :=
  blockKernelOffset_eq ht hp

/-- **an observation about the code: when `block_kernel_offset` drops the previous total.**
`block_kernel_offset(total, prev)` is `total − prev` (mod n) in every case but one: the total is the
zero offset while the previous total is not.  Then the "positive side empty ⇒ zero" shortcut of
`sum_kernel_offsets` answers zero and the previous total is lost, so `Block::validate` checks the
kernel sums with offset 0 (not a violation of C12: the block is built and re-hydrates identically;
recorded as "worth a maintainer's eye"). -/
theorem block_kernel_offset_drops_prev_iff {t p : Nat} (ht : t < N) (hp : p < N) :
    blockKernelOffset t p ≠ .ok ((t + (N - p)) % N) ↔ (t = 0 ∧ p ≠ 0) := by
  rw [blockKernelOffset_eq ht hp]
  by_cases z : t = 0
  · subst z
    by_cases zp : p = 0
    · subst zp; simp
    · have : (0 + (N - p)) % N ≠ 0 := by
        rw [Nat.zero_add, Nat.mod_eq_of_lt (by omega)]; omega
      simp only [if_true, ne_eq, Except.ok.injEq, true_and, zp, not_false_eq_true, iff_true]
      exact fun h => this h.symm
  · simp [z]

/-- **the block `from_reward` builds, as `validate` sees it**: for transactions that aggregate to
an offset `a` and a previous total `p` (both scalars), `block_kernel_offset` of the new header's
total and `p` gives back `a` — the offset the kernel-sum equation of the block needs — unless
`a ≠ 0` and `a + p ≡ 0 (mod n)`; in that one case it gives zero. -/
theorem built_block_offset_recovered_iff {K : Keys} {txs : List Tx} {prev rout rkern : Nat} {agg : Tx} {b : Block}
    (ha : aggregate K txs = .ok agg) (hb : fromReward K prev txs rout rkern = .ok b)
    (hoff : agg.offset < N) (hp : prev < N) :
    blockKernelOffset b.totalOffset prev = .ok agg.offset ↔ ¬ (agg.offset ≠ 0 ∧ (agg.offset + prev) % N = 0) := by
  rw [fromReward_of_aggregate ha] at hb
  cases hb
  have hN : 0 < N := by decide
  have hs : (toSecrets [agg.offset, prev]).sum = agg.offset + prev := by
    rw [toSecrets_sum_of_lt (by intro x hx; simp at hx; rcases hx with rfl | rfl <;> assumption)]
    simp
  simp only [hs]
  have ht : (agg.offset + prev) % N < N := Nat.mod_lt _ hN
  rw [blockKernelOffset_eq ht hp]
  by_cases z : (agg.offset + prev) % N = 0
  · simp only [z, if_true, Except.ok.injEq, and_true]
    constructor
    · intro h; simp [← h]
    · intro h; simp only [ne_eq, Decidable.not_not] at h; exact h.symm
  · have key : ((agg.offset + prev) % N + (N - prev)) % N = agg.offset := by
      by_cases c : agg.offset + prev < N
      · rw [Nat.mod_eq_of_lt c]
        have : agg.offset + prev + (N - prev) = agg.offset + N := by omega
        rw [this, Nat.add_mod_right, Nat.mod_eq_of_lt hoff]
      · have e : (agg.offset + prev) % N = agg.offset + prev - N := by
          rw [Nat.mod_eq_sub_mod (by omega), Nat.mod_eq_of_lt (by omega)]
        rw [e]
        have : agg.offset + prev - N + (N - prev) = agg.offset := by omega
        rw [this, Nat.mod_eq_of_lt hoff]
    simp [z, key]

/-- the one case exists: offsets `3` and previous total `n − 3` — `from_reward` builds the block
with total offset zero, and `validate` then works with offset `0` instead of `3`. -/
theorem built_block_offset_lost_witness :
    fromReward K0 (N - 3) [t1, t2] 101 7 = .ok ⟨0, false, [1], [12, 101], [0, 2, 7]⟩ ∧
    blockKernelOffset 0 (N - 3) = .ok 0 ∧ aggregate K0 [t1, t2] = .ok ⟨3, false, [1], [12], [0, 2]⟩ := by
  refine ⟨by tx_eval, ?_, by tx_eval⟩
  rw [blockKernelOffset_eq (by decide) (by decide)]; rfl

/-- hypotheses of `built_block_offset_recovered_iff` are satisfiable in the ordinary case -/
example : blockKernelOffset 12 9 = .ok 3 := by
  rw [blockKernelOffset_eq (by decide) (by decide)]; simp [N]

/-! ## the gates of `validate_read` that `validateRead` leaves out -/

/-- **`verify_no_nrd_duplicates`** (feature flag on): sort, `dedup`, compare lengths — passes
exactly when the excesses of the NRD kernels are pairwise different. -/
theorem verifyNoNrdDuplicates_none_iff (M : KMeta) (kernels : List Nat) :
    verifyNoNrdDuplicates M true kernels = none ↔
      ((kernels.filter (fun k => M.feat k == 3)).map M.excess).Nodup := by
  unfold verifyNoNrdDuplicates
  simp only [Bool.not_true, Bool.false_eq_true, if_false]
  have h := dedupAdj_length_eq_iff (sortBy id ((kernels.filter (fun k => M.feat k == 3)).map M.excess))
  rw [adjDup_sortBy (injOn_id _)] at h
  rw [← h]
  constructor
  · intro g
    by_cases c : (sortBy id (map M.excess (filter (fun k => M.feat k == 3) kernels))).length
        = (dedupAdj (sortBy id (map M.excess (filter (fun k => M.feat k == 3) kernels)))).length
    · exact c.symm
    · simp [c] at g
  · intro g; simp [g]

/-- with the feature flag off the check is skipped -/
theorem verifyNoNrdDuplicates_disabled (M : KMeta) (kernels : List Nat) :
    verifyNoNrdDuplicates M false kernels = none := by
  simp [verifyNoNrdDuplicates]

/-- **`Transaction::validate_read` in full** = weight within `max_tx_weight`, NRD excesses pairwise
different, and the structural part `validateRead` (sorted, unique, no self-spend, no coinbase
features) that `aggregate_valid` is about. -/
theorem validateReadFull_none_iff (K : Keys) (M : KMeta) (ct : Cons.ChainType) (t : Tx) :
    validateReadFull K M ct true t = none ↔
      Cons.weightByIok t.inputs.length t.outputs.length t.kernels.length ≤ maxTxWeight ct ∧
      ((t.kernels.filter (fun k => M.feat k == 3)).map M.excess).Nodup ∧
      validateRead K ⟨0, false, t.inputs, t.outputs, t.kernels⟩ = none := by
  rw [← verifyNoNrdDuplicates_none_iff]
  unfold validateReadFull bodyValidateRead validateRead verifyWeight maxWeightOf
  simp only
  by_cases w : Cons.weightByIok t.inputs.length t.outputs.length t.kernels.length > maxTxWeight ct
  · simp [w]; omega
  · have w' : Cons.weightByIok t.inputs.length t.outputs.length t.kernels.length ≤ maxTxWeight ct := by omega
    simp only [w, if_false, w', true_and]
    cases verifyNoNrdDuplicates M true t.kernels with
    | some e => simp
    | none =>
      simp only [true_and]
      cases sortedUnique K.ik t.inputs with
      | some e => simp
      | none =>
        cases sortedUnique K.ok t.outputs with
        | some e => simp
        | none =>
          cases sortedUnique K.kk t.kernels with
          | some e => simp
          | none =>
            cases verifyCutThrough ⟨0, false, t.inputs, t.outputs, t.kernels⟩ with
            | some e => simp
            | none =>
              simp only
              by_cases a : t.outputs.any isCoinbase = true
              · simp [a]
              · by_cases b : t.kernels.any isCoinbase = true
                · simp [a, b]
                · simp [a, b]

/-- **the aggregate of valid transactions passes the whole of `validate_read`** as soon as it is
light enough and carries no two NRD kernels with the same excess: the hypotheses of
`aggregate_valid` plus exactly the two gates that are not structural. -/
theorem aggregate_valid_full {K : Keys} {M : KMeta} {ct : Cons.ChainType} {txs : List Tx} {t : Tx}
    (h2 : 2 ≤ txs.length) (kinj : KInj K)
    (hp : ∀ t ∈ txs, Plain t) (ndK : (allKers txs).Nodup) (h : aggregate K txs = .ok t)
    (hw : Cons.weightByIok t.inputs.length t.outputs.length t.kernels.length ≤ maxTxWeight ct)
    (hn : ((t.kernels.filter (fun k => M.feat k == 3)).map M.excess).Nodup) :
    validateReadFull K M ct true t = none := by
  rw [validateReadFull_none_iff]
  refine ⟨hw, hn, ?_⟩
  have hv := aggregate_valid h2 kinj hp ndK h
  unfold validateRead verifyCutThrough at hv ⊢
  exact hv

/-! ## block gates -/

/-- **`verify_kernel_lock_heights`** passes exactly when every height-locked kernel's lock height is
at most the header's height. -/
theorem lock_heights_none_iff (M : KMeta) (height : Nat) (ks : List Nat) :
    verifyKernelLockHeights M height ks = none ↔ ∀ k ∈ ks, M.feat k = 2 → M.lock k ≤ height :=
  verifyKernelLockHeights_none_iff M height ks

/-- **`Block::validate` is the conjunction of its gates** (in the model: honest range proofs and
signatures; commitment equations on openings): the body gates under the block weight, the lock
heights, NRD kernels only from header version 4 on (feature flag on), the coinbase equation, and the
kernel-sum equation with the offset `block_kernel_offset` hands over. -/
theorem blockValidate_none_iff (K : Keys) (M : KMeta) (ct : Cons.ChainType) (b : Block) (hdr : Hdr)
    (prev fees bodyOff : Nat) :
    blockValidate K M ct true b hdr prev fees bodyOff = none ↔
      bodyValidateRead K M ct true .asBlock b.inputs b.outputs b.kernels = none ∧
      (∀ k ∈ b.kernels, M.feat k = 2 → M.lock k ≤ hdr.height) ∧
      ((b.kernels.any fun k => M.feat k == 3) = true → 4 ≤ hdr.version) ∧
      min U64MAX (Gen.REWARD + fees) = min U64MAX (Gen.REWARD + totalFees M b.kernels) ∧
      blockKernelOffset b.totalOffset prev = .ok bodyOff := by
  rw [← verifyKernelLockHeights_none_iff]
  unfold blockValidate verifyNrdForHeaderVersion
  cases bodyValidateRead K M ct true .asBlock b.inputs b.outputs b.kernels with
  | some e => simp
  | none =>
    cases verifyKernelLockHeights M hdr.height b.kernels with
    | some e => simp
    | none =>
      simp only [true_and, Bool.not_true, Bool.false_eq_true, if_false]
      by_cases a : (b.kernels.any fun k => M.feat k == 3) = true
      · by_cases v : hdr.version < 4
        · simp only [a, if_true, v]
          constructor
          · intro h; cases h
          · intro h; have := h.1 trivial; omega
        · have v' : 4 ≤ hdr.version := by omega
          simp only [a, if_true, v, if_false, v', forall_const, true_and]
          by_cases f : min U64MAX (Gen.REWARD + fees) = min U64MAX (Gen.REWARD + totalFees M b.kernels)
          · simp only [f, ne_eq, not_true_eq_false, if_false, true_and]
            cases blockKernelOffset b.totalOffset prev with
            | error e => simp
            | ok off => by_cases o : off = bodyOff <;> simp [o]
          · simp [f]
      · simp only [a, Bool.false_eq_true, if_false, false_implies, true_and]
        by_cases f : min U64MAX (Gen.REWARD + fees) = min U64MAX (Gen.REWARD + totalFees M b.kernels)
        · simp only [f, ne_eq, not_true_eq_false, if_false, true_and]
          cases blockKernelOffset b.totalOffset prev with
          | error e => simp
          | ok off => by_cases o : off = bodyOff <;> simp [o]
        · simp [f]

/-- **a block built by `from_reward` validates iff its gates pass and it is not the lost-offset
case**: with the transactions' offsets summing to the aggregate's offset (the body's true offset),
`Block::validate` accepts exactly when the structural gates, lock heights, NRD version rule and the
claimed fees are right **and** not (`a ≠ 0 ∧ a + prev ≡ 0`). -/
theorem built_block_validates_iff {K : Keys} {M : KMeta} {ct : Cons.ChainType} {txs : List Tx}
    {prev rout rkern fees : Nat} {agg : Tx} {b : Block} {hdr : Hdr}
    (ha : aggregate K txs = .ok agg) (hb : fromReward K prev txs rout rkern = .ok b)
    (hoff : agg.offset < N) (hp : prev < N) :
    blockValidate K M ct true b hdr prev fees agg.offset = none ↔
      bodyValidateRead K M ct true .asBlock b.inputs b.outputs b.kernels = none ∧
      (∀ k ∈ b.kernels, M.feat k = 2 → M.lock k ≤ hdr.height) ∧
      ((b.kernels.any fun k => M.feat k == 3) = true → 4 ≤ hdr.version) ∧
      min U64MAX (Gen.REWARD + fees) = min U64MAX (Gen.REWARD + totalFees M b.kernels) ∧
      ¬ (agg.offset ≠ 0 ∧ (agg.offset + prev) % N = 0) := by
  rw [blockValidate_none_iff, built_block_offset_recovered_iff ha hb hoff hp]

/-- kernel table of the examples: kernel code 2 is height locked at 5, code 4 an NRD kernel, code 7
the coinbase kernel -/
def M0 : KMeta where
  feat := fun k => if k = 2 then 2 else if k = 4 then 3 else if k = 7 then 1 else 0
  lock := fun k => if k = 2 then 5 else 0
  fee := fun _ => 1
  excess := fun k => k

/-- the hypotheses of `built_block_validates_iff` / `blockValidate_none_iff` are satisfiable: the
block of `[t1, t2]` on previous total 9 at height 9 validates (fees 2 claimed, offset 3 recovered),
is refused below the lock height of kernel 2, and is refused with the offset lost when the
previous total is `n − 3`. -/
example : blockValidate K0 M0 .automatedTesting true ⟨12, false, [1], [12, 101], [0, 2, 7]⟩ ⟨9, 4, 0⟩ 9 2 3 = none := by
  rw [blockValidate_none_iff]
  refine ⟨by simp only [M0]; tx_eval_b, by simp [M0], by simp [M0], by simp [totalFees, M0]; decide, ?_⟩
  rw [blockKernelOffset_eq (by decide) (by decide)]; simp [N]
example : blockValidate K0 M0 .automatedTesting true ⟨12, false, [1], [12, 101], [0, 2, 7]⟩ ⟨4, 2, 0⟩ 9 2 3
    = some (.kernelLockHeight 5) := by
  have h : bodyValidateRead K0 M0 .automatedTesting true .asBlock [1] [12, 101] [0, 2, 7] = none := by
    simp only [M0]; tx_eval_b
  simp only [blockValidate, h]
  simp [verifyKernelLockHeights, M0]
example : blockValidate K0 M0 .automatedTesting true ⟨0, false, [1], [12, 101], [0, 2, 7]⟩ ⟨9, 4, 0⟩ (N - 3) 2 3
    = some .kernelSum := by
  have h : bodyValidateRead K0 M0 .automatedTesting true .asBlock [1] [12, 101] [0, 2, 7] = none := by
    simp only [M0]; tx_eval_b
  have o : blockKernelOffset 0 (N - 3) = .ok 0 := by
    rw [blockKernelOffset_eq (by decide) (by decide)]; rfl
  simp only [blockValidate, h, o]
  have f : min U64MAX (Gen.REWARD + 2) = min U64MAX (Gen.REWARD + min U64MAX (min U64MAX 1 + 1)) := by decide
  simp [verifyKernelLockHeights, verifyNrdForHeaderVersion, totalFees, M0, f]
/-- two NRD kernels with one excess are refused, with different excesses accepted -/
example : verifyNoNrdDuplicates { feat := (fun _ => 3), lock := (fun _ => 0), fee := (fun _ => 0), excess := (fun _ => 7) } true [0, 2] = some .nrdDup := by
  simp [verifyNoNrdDuplicates, sortBy, dedupAdj, List.mergeSort, List.MergeSort.Internal.splitInTwo]
example : verifyNoNrdDuplicates { feat := (fun _ => 3), lock := (fun _ => 0), fee := (fun _ => 0), excess := (fun k => k) } true [0, 2] = none := by
  rw [verifyNoNrdDuplicates_none_iff]; simp

/-! ## fee and lock height of the aggregate -/

/-- **the aggregate's fee is the (capped) sum of the operands' fees** and depends on the operands
only as a multiset: `fee()` of the aggregate of two or more transactions is `min(2^64−1, Σ fee)`
over all kernels of all operands. -/
theorem aggregate_fee {K : Keys} (M : KMeta) {txs : List Tx} {t : Tx} (h2 : 2 ≤ txs.length)
    (h : aggregate K txs = .ok t) :
    totalFees M t.kernels = min U64MAX ((((allKers txs).filter (fun k => M.feat k != 1)).map M.fee).sum) := by
  rw [aggregate_of_two_le K h2] at h
  obtain ⟨_, _, _, _, _, _, hk⟩ := aggregateFull_ok h
  rw [hk, totalFees_perm M (sortBy_perm _ _), totalFees_eq]

/-- **the block's lock-height gate is `lock_height() ≤ height`**: `verify_kernel_lock_heights`
accepts exactly when the body's `lock_height()` (the maximum over its height-locked kernels) is at
most the header's height — for the aggregate: when every operand's is. -/
theorem lock_gate_iff_lockHeight (M : KMeta) (height : Nat) (ks : List Nat) :
    verifyKernelLockHeights M height ks = none ↔ lockHeight M ks ≤ height := by
  rw [verifyKernelLockHeights_none_iff, lockHeight_le_iff]

theorem aggregate_lockHeight_le_iff {K : Keys} (M : KMeta) {txs : List Tx} {t : Tx} (h2 : 2 ≤ txs.length)
    (h : aggregate K txs = .ok t) (height : Nat) :
    lockHeight M t.kernels ≤ height ↔ ∀ tx ∈ txs, lockHeight M tx.kernels ≤ height := by
  rw [aggregate_of_two_le K h2] at h
  obtain ⟨_, _, _, _, _, _, hk⟩ := aggregateFull_ok h
  simp only [lockHeight_le_iff, hk, mem_sortBy, allKers, mem_flatMap]
  constructor
  · intro g tx htx k hk' hf; exact g k ⟨tx, htx, hk'⟩ hf
  · rintro g k ⟨tx, htx, hk'⟩ hf; exact g tx htx k hk' hf

example : totalFees M0 [0, 2, 7] = 2 ∧ lockHeight M0 [0, 2, 7] = 5 := by
  simp [totalFees, lockHeight, M0, U64MAX]

/-! ## the header `from_reward` computes -/

/-- the new header is one above the previous one (u64 arithmetic), carries the version consensus
asks for at that height (`valid_header_version` holds by construction) and the accumulated
difficulty -/
theorem fromRewardHeader_spec (ct : Cons.ChainType) (ph ptd d : Nat) (h : ph < U64MAX) (hd : d + ptd ≤ U64MAX) :
    (fromRewardHeader ct ph ptd d).height = ph + 1 ∧
    (fromRewardHeader ct ph ptd d).version = Cons.headerVersion ct (ph + 1) ∧
    (fromRewardHeader ct ph ptd d).totalDifficulty = d + ptd := by
  have e1 : addW ph 1 = ph + 1 := by
    unfold addW; apply Nat.mod_eq_of_lt; simp only [U64MAX] at h; omega
  have e2 : addW d ptd = d + ptd := by
    unfold addW; apply Nat.mod_eq_of_lt; simp only [U64MAX] at hd; omega
  simp [fromRewardHeader, e1, e2]

example : fromRewardHeader .automatedTesting 8 100 5 = ⟨9, 4, 105⟩ := by decide

/-! ## short ids -/

/-- SipHash-2-4 reference vector (Aumasson–Bernstein, key `00..0f`, message `00..0e`) -/
theorem siphash24_reference_vector :
    siphash24 0x0706050403020100 0x0f0e0d0c0b0a0908 (List.range 15) = 0xa129ca6149be45e5 := by decide

/-- a short id is six bytes, and `ShortId::from_bytes` of it is itself -/
theorem shortIdOf_length (k0 k1 : Nat) (h : List Nat) : (shortIdOf k0 k1 h).length = 6 := by
  simp [shortIdOf, leBytes]

theorem shortIdFromBytes_shortIdOf (k0 k1 : Nat) (h : List Nat) :
    shortIdFromBytes (shortIdOf k0 k1 h) = shortIdOf k0 k1 h := by
  have l := shortIdOf_length k0 k1 h
  unfold shortIdFromBytes
  rw [take_of_length_le (by omega), l]
  simp

/-- **the `kern_ids` of a compact block are exactly the short ids of its non-coinbase kernels**
(as a multiset: nothing dropped, nothing invented, whatever the order of the kernels), listed in
the order of the hash of the six bytes. -/
theorem kernIdsOf_perm (hashOf : List Nat → List Nat) (k0 k1 : Nat) (khs : List (List Nat)) :
    kernIdsOf hashOf k0 k1 khs ~ khs.map (shortIdOf k0 k1) :=
  sortByLe_perm _ _

theorem kernIdsOf_sorted (hashOf : List Nat → List Nat) (k0 k1 : Nat) (khs : List (List Nat)) :
    (kernIdsOf hashOf k0 k1 khs).Pairwise (fun a b => bytesLe (hashOf a) (hashOf b) = true) :=
  sortByLe_sorted (fun a b => bytesLe (hashOf a) (hashOf b)) (fun _ _ => bytesLe_total _ _)
    (fun _ _ _ => bytesLe_trans _ _ _) _

/-- … hence independent of the order in which the block lists its kernels, for a hash without
collisions on the ids -/
theorem kernIdsOf_length (hashOf : List Nat → List Nat) (k0 k1 : Nat) (khs : List (List Nat)) :
    (kernIdsOf hashOf k0 k1 khs).length = khs.length := by
  rw [(kernIdsOf_perm hashOf k0 k1 khs).length_eq, length_map]

/-! ## the compact block on the wire -/

/-- **the reader accepts exactly what the writer produced, for blocks of every size**: for any
block without repeated outputs or kernels (every block `from_reward` builds from valid
transactions), any nonce, and hash orders without collisions (on the block's outputs, kernels and
the short ids of its non-coinbase kernels), `CompactBlockBody::read` accepts the three vectors
`From<Block>` wrote — no bound on the number of kernels, inputs or outputs is involved, because the
reader has no weight or count pre-check. -/
theorem compact_read_accepts_written (K : Keys) (sk : Nat → Nat) (nonce : Nat) (b : Block)
    (ndO : b.outputs.Nodup) (ndK : b.kernels.Nodup)
    (injO : InjOn K.ok b.outputs) (injK : InjOn K.kk b.kernels)
    (injS : InjOn sk (b.kernels.filter fun k => !isCoinbase k)) :
    compactRead K sk (compactWire K sk nonce b) = none := by
  have sub : ∀ {l : List Nat} {p : Nat → Bool} {key : Nat → Nat}, InjOn key l → InjOn key (l.filter p) :=
    fun h a b ha hb e => h a b (mem_filter.1 ha).1 (mem_filter.1 hb).1 e
  have h1 : sortedUnique K.ok (sortBy K.ok (b.outputs.filter isCoinbase)) = none :=
    sortedUnique_none (sortBy_sorted _ _) ((adjDup_sortBy (sub injO)).2 (ndO.filter _))
  have h2 : sortedUnique K.kk (sortBy K.kk (b.kernels.filter isCoinbase)) = none :=
    sortedUnique_none (sortBy_sorted _ _) ((adjDup_sortBy (sub injK)).2 (ndK.filter _))
  have h3 : sortedUnique sk (sortBy sk (b.kernels.filter fun k => !isCoinbase k)) = none :=
    sortedUnique_none (sortBy_sorted _ _) ((adjDup_sortBy injS).2 (ndK.filter _))
  simp only [compactRead, compactWire, compact, h1, h2, h3]

/-- … and the vectors it read are the ones written: hydration from the decoded compact block is
hydration from the original one (`hydrate_roundtrip` then gives the identical block). -/
theorem compact_wire_carries_block (K : Keys) (sk : Nat → Nat) (nonce : Nat) (b : Block) :
    (compactWire K sk nonce b).1 = (compact K nonce b).outFull ∧
    (compactWire K sk nonce b).2.1 = (compact K nonce b).kernFull ∧
    (compactWire K sk nonce b).2.2 ~ (compact K nonce b).kernIds :=
  ⟨rfl, rfl, sortBy_perm _ _⟩

/-- short ids out of order, or one of them twice, is what the reader refuses -/
example : compactRead K0 id ([101], [7], [2, 0]) = some .sort := by simp [compactRead, sortedUnique]
example : compactRead K0 id ([101], [7], [0, 2, 2]) = some .dup := by simp [compactRead, sortedUnique]
/-- the hypotheses are satisfiable: the block of the examples, 66 kernels or 2 make no difference -/
example : compactRead K0 id (compactWire K0 id 5 ⟨0, false, [1], [12, 101], [0, 2, 7]⟩) = none := by
  simp [compactRead, compactWire, compact, sortedUnique, sortBy, isCoinbase, K0, List.mergeSort,
    List.MergeSort.Internal.splitInTwo]

end GV.Props.C12
