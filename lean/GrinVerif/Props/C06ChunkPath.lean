import GrinVerif.Props.C06Chunk
import GrinVerif.Lemmas.ChainMorePath
import GrinVerif.Lemmas.ChainOrder
/-! The path facts H1 / H2 of `chunk_accepted_iff_given_fork_set` (Props/C06Chunk.lean), derived
from "a linked chunk of fresh headers hanging below a block whose own path is `pre`":
`path(last) = pre ++ chunk` (`isPath_append_linked`), hence the headers the MMR step re-applies are
the chunk's own plus the off-chain part of `pre` (`chunk_accepted_iff_no_root_fault`).
The fold of the single-header path over the chunk - the last step to "accepted as a chunk iff
accepted one by one" - is Props/C06ChunkSingles.lean. -/
namespace GV.Props.C06Chunk
open GV GV.Chain

/-- the own path of the last header of a linked chunk is the path of the chunk's root followed by
the chunk -/
theorem isPath_append_linked {n : Node} : ∀ (bs : List Blk) (par : Nat) (pre : List Blk),
    IsPath n par pre → Linked n par bs → bs ≠ [] →
    ∃ last, bs.getLast? = some last ∧ IsPath n last.id (pre ++ bs) := by
  intro bs
  induction bs with
  | nil => intro _ _ _ _ h; exact absurd rfl h
  | cons b rest ih =>
    intro par pre hpre hl _
    have hb : IsPath n b.id (pre ++ [b]) := IsPath.child b.id b par pre hl.1 hl.2.1 hpre
    cases rest with
    | nil => exact ⟨b, rfl, hb⟩
    | cons b' rest' =>
      obtain ⟨last, hlast, hp⟩ := ih b.id (pre ++ [b]) hb hl.2.2 (by simp)
      refine ⟨last, ?_, ?_⟩
      · simpa [List.getLast?_cons_cons] using hlast
      · simpa [List.append_assoc] using hp

theorem headerAtHeight_congr {n m : Node} (hb : n.blks = m.blks) (hh : n.hhead = m.hhead) (h : Nat) :
    n.headerAtHeight h = m.headerAtHeight h := by
  unfold Node.headerAtHeight
  rw [path_congr hb, hh]

/-- **a linked chunk of fresh headers is accepted iff none of its headers fails its root check**
(no denylist; the per-header loop through): `pre` is the own path of the block the chunk hangs
below; every chunk header is off the header chain (fresh); the off-chain blocks of `pre` - stored
fork headers - passed their root check when they were stored. H1 / H2 are proved here, not assumed. -/
theorem chunk_accepted_iff_no_root_fault (p : Params) (n n1 : Node) (bs pre : List Blk) (p0 : Nat)
    (hpre : IsPath n p0 pre) (hlink : Linked n p0 bs) (hne : bs ≠ [])
    (hheights : ((pre ++ bs).map (·.h)).Nodup)
    (hv : validateChunk p [] n bs = .ok n1)
    (hfresh : ∀ b ∈ bs, ((n.headerAtHeight b.h).map (·.id) == some b.id) = false)
    (hold : ∀ b ∈ pre, ((n.headerAtHeight b.h).map (·.id) == some b.id) = false → hasTag b "hdr:" = none) :
    (∃ n', processHeadersK p [] n bs = .ok n') ↔ ∀ b ∈ bs, hasTag b "hdr:" = none := by
  obtain ⟨last, hlast, hp⟩ := isPath_append_linked bs p0 pre hpre hlink hne
  obtain ⟨_, a2, _, a4, _, _, _, _⟩ := validateChunk_frame p [] bs n n1 hv
  have hpath : n1.path last.id = some (pre ++ bs) := by
    rw [path_congr a4]; exact path_of_isPath hp hheights
  have hfb : forkBlocks n1 last.id =
      (pre ++ bs).filter (fun b => !((n.headerAtHeight b.h).map (·.id) == some b.id)) := by
    unfold forkBlocks
    rw [hpath]
    simp only [headerAtHeight_congr a4 a2]
  apply chunk_accepted_iff_given_fork_set p n n1 bs last hlast hv
  · intro b hb
    rw [hfb]
    exact List.mem_filter.mpr ⟨List.mem_append_right _ hb, by simp [hfresh b hb]⟩
  · intro b hb hnb
    rw [hfb] at hb
    obtain ⟨hm, hoff⟩ := List.mem_filter.mp hb
    rcases List.mem_append.mp hm with h | h
    · exact hold b h (by simpa using hoff)
    · exact absurd h hnb

private def g0 : Blk := { id := 0, parent := none, h := 0, work := 1, ver := 1, ts := 0, ins := [], outs := [(0, true)], kers := [.cb], tags := [] }
private def b1 : Blk := { id := 1, parent := some 0, h := 1, work := 2, ver := 1, ts := 1, ins := [], outs := [(1, true)], kers := [.cb], tags := [] }
private def nd : Node := { blks := [g0, b1] }

/-- the hypotheses of `isPath_append_linked` / `chunk_accepted_iff_no_root_fault` are satisfiable: a
chunk of one header below the genesis -/
example : ∃ last, [b1].getLast? = some last ∧ IsPath nd last.id ([g0] ++ [b1]) :=
  isPath_append_linked [b1] 0 [g0] (IsPath.root 0 g0 (by rfl) rfl) ⟨by rfl, rfl, trivial⟩ (by simp)

end GV.Props.C06Chunk
