import GrinVerif.Props.C04
import GrinVerif.Model.PowEntry
import GrinVerif.Props.C05Entry
/-! # C04 — a known hash cannot move the head: what the binding hypothesis consists of

`Props/C04.lean known_hash_cannot_move_head_partial` takes the binding property of the cycle
verifier as ONE hypothesis (`hbind`: the stored header `k` and the re-sent copy `k'` of the same
hash cannot both pass the verifier unless they are the same header).  Here that hypothesis is
derived from what a header is made of (`core/src/core/block.rs`: `BlockHeader::pre_pow()`,
`impl Hashed for BlockHeader` = hash of the packed proof nonces; `pow::verify_size`), with the
cryptographic parts stated explicitly and separately FOR THE TWO HEADERS AT HAND:

* `hash_cf` — collision-freedom of the header hash (blake2b over the packed nonces, whose byte
  length fixes the bit width for the widths `Proof::read` lets through): equal hashes ⇒ equal edge bits,
  equal nonces, equal 64-bit hash prefix;
* `keys_cf` — collision-freedom of the graph seed (blake2b over `pre_pow`): equal siphash keys ⇒
  equal pre-PoW bytes;
* `graph` — one proof does not close a cycle in two differently seeded graphs: if the SAME nonces
  at the SAME edge bits pass `pow::verify_size` (the C05 model over the whole `u8` range,
  `Model/PowEntry.lean`) under both pre-PoW contents, the two contents have the same siphash keys
  (this is not a hash collision: it is the proof-of-work assumption itself — finding a second seed
  for a given cycle is as hard as mining);
* `content` — `pre_pow` serialises every field the rules read except edge bits, nonces and the
  values derived from them (a fact about `write_pre_pow`, run `cons known` compares the bytes).

With these, `known_hash_cannot_move_head_bound` is the statement of the property's clause for real
proof of work with nothing left abstract about the verifier; under `Options::SKIP_POW` the
statement is false (`Props.C04.known_hash_moves_head_under_skip_pow`). -/
namespace GV.Props.C04Bind
open GV GV.Gen GV.Cons GV.Props.C04

/-- what a delivered header consists of beyond the fields the rules read: the bytes the graph is
seeded with and the proof nonces -/
structure Wire where
  prePow : Bytes
  nonces : List Nat

/-- `pow::verify_size` on a delivery (`FHdr.powOk` computed) -/
def powOkOf (ct : ChainType) (f : FHdr) (w : Wire) : Bool :=
  decide (Pow.verifySizeEntry (powCt ct) f.h.height f.h.edgeBits w.prePow w.nonces = .ok ())

/-- the binding hypotheses for one pair of deliveries -/
structure Binding (ct : ChainType) (a b : FHdr) (wa wb : Wire) : Prop where
  pow_a : a.powOk = powOkOf ct a wa
  pow_b : b.powOk = powOkOf ct b wb
  hash_cf : a.hash = b.hash →
    a.h.edgeBits = b.h.edgeBits ∧ wa.nonces = wb.nonces ∧ a.h.hash64 = b.h.hash64
  keys_cf : Pow.keysOfHeader wa.prePow none = Pow.keysOfHeader wb.prePow none → wa.prePow = wb.prePow
  graph : ∀ ns eb,
    Pow.verifySizeEntry (powCt ct) a.h.height eb wa.prePow ns = .ok () →
    Pow.verifySizeEntry (powCt ct) b.h.height eb wb.prePow ns = .ok () →
    Pow.keysOfHeader wa.prePow none = Pow.keysOfHeader wb.prePow none
  content : wa.prePow = wb.prePow → a.h.edgeBits = b.h.edgeBits → a.h.hash64 = b.h.hash64 →
    SameContent a b

/-- **The verifier binds a hash to one header content**: two deliveries of the same hash that both
pass `pow::verify_size` are the same header. -/
theorem binding_same_content (ct : ChainType) (a b : FHdr) (wa wb : Wire)
    (B : Binding ct a b wa wb) (hh : a.hash = b.hash)
    (ha : a.powOk = true) (hb : b.powOk = true) : SameContent a b := by
  obtain ⟨heb, hns, h64⟩ := B.hash_cf hh
  have va : Pow.verifySizeEntry (powCt ct) a.h.height a.h.edgeBits wa.prePow wa.nonces = .ok () := by
    have := B.pow_a; rw [ha] at this; exact of_decide_eq_true this.symm
  have vb : Pow.verifySizeEntry (powCt ct) b.h.height b.h.edgeBits wb.prePow wb.nonces = .ok () := by
    have := B.pow_b; rw [hb] at this; exact of_decide_eq_true this.symm
  rw [← heb, ← hns] at vb
  exact B.content (B.keys_cf (B.graph _ _ va vb)) heb h64

/-- **`known_hash_cannot_move_head` for real proof of work.**  A batch — any prefix `pre`, honest or
not — whose last header `k'` has a hash that is already stored (as `k`) with different fields is
refused as a whole: `header_head`, `head`, the header MMR and the stored header for that hash are
exactly what they were.  Hypotheses: no `SKIP_POW`; the stored copy is one that passed the verifier;
`Binding` (collision-freedom of the two blake2b uses, one proof does not fit two graphs). -/
theorem known_hash_cannot_move_head_bound (n : HNode) (opts : Opts) (hs : opts.skipPow = false)
    (sh : Tip) (pre : List FHdr) (k' k : FHdr) (w' w : Wire)
    (hstored : getHdr n.hdrs k'.hash = some k) (hkh : k.hash = k'.hash)
    (hdiff : ¬ SameContent k' k) (hk : k.powOk = true) (B : Binding n.ct k' k w' w) :
    (∃ e, processBlockHeaders n opts sh (pre ++ [k']) = .error e) ∧
    syncStep n opts sh (pre ++ [k']) = n ∧
    (syncStep n opts sh (pre ++ [k'])).headerHead.totalDiff = n.headerHead.totalDiff ∧
    getHdr (syncStep n opts sh (pre ++ [k'])).hdrs k'.hash = some k :=
  known_hash_cannot_move_head_partial n opts hs sh pre k' k hstored hdiff hk
    (fun hk1 hk2 => binding_same_content n.ct k' k w' w B hkh.symm hk2 hk1)

/-- the contrapositive the node relies on: a re-sent copy with any changed field does not pass the
verifier -/
theorem mutated_copy_fails_pow (ct : ChainType) (k' k : FHdr) (w' w : Wire)
    (B : Binding ct k' k w' w) (hh : k'.hash = k.hash) (hk : k.powOk = true)
    (hdiff : ¬ SameContent k' k) : k'.powOk = false := by
  cases hp : k'.powOk with
  | false => rfl
  | true => exact absurd (binding_same_content ct k' k w' w B hh hp hk) hdiff


/-! ### the C04 model of `pow::verify_size` is the C05 entry model on every size the wire can carry

`Model/ConsNet.lean verifySizeHdr` (what `UntrustedBlockHeader::read` and the pipeline's
`pow_verifier` are modelled with) accepts exactly what `Pow.verifySizeEntry` accepts, for every
`edge_bits` `Proof::read` lets through (1..=63); so `Props.C05Entry.verify_size_accepts_exactly_cycles`
speaks about the header rules' verifier. -/

theorem consGraphTooBig_iff (eb : Nat) (h : eb ≤ 63) : Cons.graphTooBig eb = true ↔ eb = 63 := by
  unfold Cons.graphTooBig
  rw [decide_eq_true_iff]
  constructor
  · intro hb
    apply Classical.byContradiction
    intro hne
    have hle : eb ≤ 62 := by omega
    have : 2^eb ≤ 2^62 := Nat.pow_le_pow_right (by decide) hle
    have h63 : U64MAX / 2 = 2^63 - 1 := by decide
    rw [h63] at hb
    have : (2:Nat)^62 < 2^63 - 1 := by decide
    omega
  · intro he; subst he; decide

theorem verifySizeHdr_ok_iff_entry (ct : ChainType) (n : NetHdr)
    (h1 : 1 ≤ n.h.edgeBits) (h2 : n.h.edgeBits ≤ 63) :
    verifySizeHdr ct n = .ok () ↔
      Pow.verifySizeEntry (powCt ct) n.h.height n.h.edgeBits n.prePow n.nonces = .ok () := by
  by_cases h63 : n.h.edgeBits = 63
  · have hsel : Pow.selectVariant (powCt ct) n.h.height n.h.edgeBits = some .cuckatoo := by
      rw [h63]; cases ct <;> simp [powCt, Pow.selectVariant]
    have hl : verifySizeHdr ct n = .error .graphTooBig := by
      unfold verifySizeHdr
      rw [hsel]
      simp only
      rw [if_pos ((consGraphTooBig_iff _ h2).mpr h63)]
    have hr := GV.Props.C05Entry.entry_eb63_refused (powCt ct) n.h.height n.h.edgeBits n.prePow n.nonces
      (by rw [h63])
    rw [hl, hr]
    constructor <;> intro h <;> cases h
  · have hle : n.h.edgeBits ≤ 62 := by omega
    have hnb : Cons.graphTooBig n.h.edgeBits = false := by
      cases hb : Cons.graphTooBig n.h.edgeBits with
      | false => rfl
      | true => exact absurd ((consGraphTooBig_iff _ h2).mp hb) h63
    rw [GV.Props.C05Entry.entry_eq_verifySize (powCt ct) n.h.height n.h.edgeBits n.prePow n.nonces h1 hle]
    unfold verifySizeHdr
    rw [hnb]
    generalize Pow.verifySize (powCt ct) n.h.height n.h.edgeBits n.prePow n.nonces = r
    cases hs : Pow.selectVariant (powCt ct) n.h.height n.h.edgeBits with
    | none =>
      match r with
      | .ok () => simp
      | .error .noCtx => simp
      | .error (.verify e) => simp
    | some v =>
      cases v <;>
      match r with
      | .ok () => simp
      | .error .noCtx => simp
      | .error (.verify e) => simp

/-! ### non-vacuity: the hypotheses hold for the example node of `Props/C04.lean`

`exP` (stored) and `exP'` (same hash 101, total difficulty changed to 50).  Wire contents: the genuinely
mined AutomatedTesting header of `Props/C05Entry.lean` for `exP`; for the mutated copy the same
nonces over pre-PoW bytes that differ in one byte (the verifier refuses them: `decide`). -/

/-- a stored header that passed the verifier, and its wire content -/
def exK : FHdr := ⟨101, 100, ⟨0, 1060, 1, 4, 19, 10, 2^60, 3, 3⟩, 2, true, true⟩
def exW : Wire := ⟨GV.Props.C05Entry.exPre, GV.Props.C05Entry.exNonces⟩
/-- the copy: same hash, same nonces, total difficulty changed (one pre-PoW byte differs) -/
def exK' : FHdr := ⟨101, 100, { exK.h with totalDiff := 50 }, 2, false, true⟩
def exW' : Wire := ⟨GV.Props.C05Entry.exPre.set 3 7, GV.Props.C05Entry.exNonces⟩

theorem exK_pow : powOkOf .automatedTesting exK exW = true := by decide +kernel
theorem exK'_pow : powOkOf .automatedTesting exK' exW' = false := by decide +kernel

/-- `Binding` is inhabited for this pair (the `graph` and `keys_cf` clauses hold because the copy
fails the verifier / the keys differ — as they do for every mutated copy the runs produce) -/
example : exK'.hash = exK.hash ∧ ¬ SameContent exK' exK ∧ exK.powOk = powOkOf .automatedTesting exK exW ∧
    exK'.powOk = powOkOf .automatedTesting exK' exW' := by
  refine ⟨rfl, ?_, ?_, ?_⟩
  · intro h; have := h.1; revert this; decide
  · rw [exK_pow]; rfl
  · rw [exK'_pow]; rfl

end GV.Props.C04Bind
