import GrinVerif.Gen.PipeShapePool
/-! # Pinned shapes of the validation pipelines (Pool)

Every `def pin_<fn>` below is a COPY, made when the shape was last reviewed, of the step list that
tools/gen_pipeshape.py reads from the source (`Gen/PipeShapePool.lean`, regenerated on every check run);
`<fn>_pinned` states that the current source still has exactly that shape (kernel-checked by `rfl` /
`decide`).  A change of the order of checks, a dropped `?`, a new guard or early return, another error
variant, another argument breaks the theorem.  After a REVIEWED harmless change re-pin with
`python3 tools/gen_pipeshape.py --pin Pool > lean/GrinVerif/Props/XlateShapePoolPins.lean`.
The semantic obligations (order the hand models assume, every check propagated, early returns) are in
`Props/XlateShapePool.lean`, stated over the GENERATED tables. -/
namespace GV.Props.XlateShapePoolPins
open GV.Gen.PipeShape

/-- reviewed shape of `TransactionPool::add_to_pool (pool/src/transaction_pool.rs)` -/
def pin_tpool_add_to_pool : List Step := [
  ⟨.tail, "add_to_pool", "self.add_to_pool($0, $1, false, $3)", "", ["($2 && self.stempool.contains_tx(&$1))"]⟩,
  ⟨.fail, "DuplicateTx", "PoolError::DuplicateTx", "", ["!(($2 && self.stempool.contains_tx(&$1)))", "self.txpool.contains_tx(&$1)"]⟩,
  ⟨.check, "deaggregate_tx", "self.deaggregate_tx(PoolEntry::new($1, $0))", "", ["!($2)"]⟩,
  ⟨.check, "verify_kernel_variants", "self.verify_kernel_variants($5, $3)", "", []⟩,
  ⟨.tail, "acceptability", "$6", "", ["!((!($2) && ($6.as_ref().err() == Some(&PoolError::OverCapacity))))", "$6.is_err()"]⟩,
  ⟨.check, "validate", "$5.validate(Weighting::AsTransaction).map_err(PoolError::InvalidTx)", "InvalidTx", []⟩,
  ⟨.check, "verify_tx_lock_height", "self.blockchain.verify_tx_lock_height($5)", "", []⟩,
  ⟨.check, "all_transactions_aggregate", "self.txpool.all_transactions_aggregate(None)", "", ["$2"]⟩,
  ⟨.check, "<if>", "<if>", "", []⟩,
  ⟨.tail, "is_coinbase", "$11.is_coinbase()", "", ["closure"]⟩,
  ⟨.check, "verify_coinbase_maturity", "self.blockchain.verify_coinbase_maturity(&$12.as_slice().into())", "", []⟩,
  ⟨.check, "convert_tx_v2", "self.convert_tx_v2($4, &$9, &$10)", "", []⟩,
  ⟨.check, "add_to_stempool", "self.add_to_stempool($13, $3, $8)", "", ["$2"]⟩,
  ⟨.okEarly, "", "()", "", ["$2", "self.adapter.stem_tx_accepted($13).is_ok()"]⟩,
  ⟨.check, "add_to_txpool", "self.add_to_txpool($13, $3)", "", []⟩,
  ⟨.call, "add_to_reorg_cache", "self.add_to_reorg_cache($13)", "", []⟩,
  ⟨.call, "tx_accepted", "self.adapter.tx_accepted($13)", "", []⟩,
  ⟨.call, "evict_from_txpool", "self.evict_from_txpool()", "", ["$7"]⟩,
  ⟨.okFinal, "", "()", "", []⟩
]
/-- reviewed `let`s / assignments that feed a guard of `TransactionPool::add_to_pool (pool/src/transaction_pool.rs)` -/
def pin_lets_tpool_add_to_pool : List LetRec := [
  ⟨["$4"], "<if>", "<if>", []⟩,
  ⟨["$5"], "tx", "$4.tx", []⟩,
  ⟨["$6"], "is_acceptable", "self.is_acceptable($5, $2)", []⟩,
  ⟨["$7"], "<boollit>", "false", []⟩,
  ⟨["$7"], "<boollit>", "= true", ["(!($2) && ($6.as_ref().err() == Some(&PoolError::OverCapacity)))"]⟩,
  ⟨["$9", "$10"], "<if>", "<if>?", []⟩,
  ⟨["$13"], "convert_tx_v2", "self.convert_tx_v2($4, &$9, &$10)?", []⟩
]
theorem tpool_add_to_pool_pinned : tpool_add_to_pool.parseError = none ∧ tpool_add_to_pool.steps = pin_tpool_add_to_pool ∧ tpool_add_to_pool.lets = pin_lets_tpool_add_to_pool := ⟨rfl, rfl, rfl⟩

/-- reviewed shape of `TransactionPool::add_to_stempool (pool/src/transaction_pool.rs)` -/
def pin_tpool_add_to_stempool : List Step := [
  ⟨.tail, "add_to_pool", "self.stempool.add_to_pool($0.clone(), $2, $1)", "", []⟩
]
/-- reviewed `let`s / assignments that feed a guard of `TransactionPool::add_to_stempool (pool/src/transaction_pool.rs)` -/
def pin_lets_tpool_add_to_stempool : List LetRec := [
]
theorem tpool_add_to_stempool_pinned : tpool_add_to_stempool.parseError = none ∧ tpool_add_to_stempool.steps = pin_tpool_add_to_stempool ∧ tpool_add_to_stempool.lets = pin_lets_tpool_add_to_stempool := ⟨rfl, rfl, rfl⟩

/-- reviewed shape of `TransactionPool::add_to_txpool (pool/src/transaction_pool.rs)` -/
def pin_tpool_add_to_txpool : List Step := [
  ⟨.check, "add_to_pool", "self.txpool.add_to_pool($0.clone(), None, $1)", "", []⟩,
  ⟨.check, "all_transactions_aggregate", "self.txpool.all_transactions_aggregate(None)", "", []⟩,
  ⟨.check, "reconcile", "self.stempool.reconcile($2, $1)", "", []⟩,
  ⟨.okFinal, "", "()", "", []⟩
]
/-- reviewed `let`s / assignments that feed a guard of `TransactionPool::add_to_txpool (pool/src/transaction_pool.rs)` -/
def pin_lets_tpool_add_to_txpool : List LetRec := [
]
theorem tpool_add_to_txpool_pinned : tpool_add_to_txpool.parseError = none ∧ tpool_add_to_txpool.steps = pin_tpool_add_to_txpool ∧ tpool_add_to_txpool.lets = pin_lets_tpool_add_to_txpool := ⟨rfl, rfl, rfl⟩

/-- reviewed shape of `TransactionPool::verify_kernel_variants (pool/src/transaction_pool.rs)` -/
def pin_tpool_verify_kernel_variants : List Step := [
  ⟨.tail, "is_nrd", "$2.is_nrd()", "", ["closure"]⟩,
  ⟨.fail, "NRDKernelNotEnabled", "PoolError::NRDKernelNotEnabled", "", ["$0.kernels().iter().any(|..|{..})", "!(global::is_nrd_enabled())"]⟩,
  ⟨.fail, "NRDKernelPreHF3", "PoolError::NRDKernelPreHF3", "", ["$0.kernels().iter().any(|..|{..})", "($1.version < HeaderVersion(4))"]⟩,
  ⟨.okFinal, "", "()", "", []⟩
]
/-- reviewed `let`s / assignments that feed a guard of `TransactionPool::verify_kernel_variants (pool/src/transaction_pool.rs)` -/
def pin_lets_tpool_verify_kernel_variants : List LetRec := [
]
theorem tpool_verify_kernel_variants_pinned : tpool_verify_kernel_variants.parseError = none ∧ tpool_verify_kernel_variants.steps = pin_tpool_verify_kernel_variants ∧ tpool_verify_kernel_variants.lets = pin_lets_tpool_verify_kernel_variants := ⟨rfl, rfl, rfl⟩

/-- reviewed shape of `TransactionPool::reconcile_block (pool/src/transaction_pool.rs)` -/
def pin_tpool_reconcile_block : List Step := [
  ⟨.call, "reconcile_block", "self.txpool.reconcile_block($0)", "", []⟩,
  ⟨.check, "reconcile", "self.txpool.reconcile(None, &$0.header)", "", []⟩,
  ⟨.call, "reconcile_block", "self.stempool.reconcile_block($0)", "", []⟩,
  ⟨.check, "all_transactions_aggregate", "self.txpool.all_transactions_aggregate(None)", "", []⟩,
  ⟨.check, "reconcile", "self.stempool.reconcile($1, &$0.header)", "", []⟩,
  ⟨.okFinal, "", "()", "", []⟩
]
/-- reviewed `let`s / assignments that feed a guard of `TransactionPool::reconcile_block (pool/src/transaction_pool.rs)` -/
def pin_lets_tpool_reconcile_block : List LetRec := [
]
theorem tpool_reconcile_block_pinned : tpool_reconcile_block.parseError = none ∧ tpool_reconcile_block.steps = pin_tpool_reconcile_block ∧ tpool_reconcile_block.lets = pin_lets_tpool_reconcile_block := ⟨rfl, rfl, rfl⟩

/-- reviewed shape of `TransactionPool::evict_from_txpool (pool/src/transaction_pool.rs)` -/
def pin_tpool_evict_from_txpool : List Step := [
  ⟨.tail, "evict_transaction", "self.txpool.evict_transaction()", "", []⟩
]
/-- reviewed `let`s / assignments that feed a guard of `TransactionPool::evict_from_txpool (pool/src/transaction_pool.rs)` -/
def pin_lets_tpool_evict_from_txpool : List LetRec := [
]
theorem tpool_evict_from_txpool_pinned : tpool_evict_from_txpool.parseError = none ∧ tpool_evict_from_txpool.steps = pin_tpool_evict_from_txpool ∧ tpool_evict_from_txpool.lets = pin_lets_tpool_evict_from_txpool := ⟨rfl, rfl, rfl⟩

/-- reviewed shape of `Pool::add_to_pool (pool/src/pool.rs)` -/
def pin_pool_add_to_pool : List Step := [
  ⟨.fail, "DuplicateTx", "PoolError::DuplicateTx", "", ["$3.contains(&$0.tx)"]⟩,
  ⟨.call, "extend", "$3.extend($1)", "", []⟩,
  ⟨.call, "push", "$3.push($0.tx.clone())", "", ["!($3.is_empty())"]⟩,
  ⟨.check, "aggregate", "transaction::aggregate(&$3)", "", ["!($3.is_empty())"]⟩,
  ⟨.check, "validate_raw_tx", "self.validate_raw_tx(&$4, $2, Weighting::NoLimit)", "", []⟩,
  ⟨.call, "log_pool_add", "self.log_pool_add(&$0, $2)", "", []⟩,
  ⟨.call, "push", "self.entries.push($0)", "", []⟩,
  ⟨.okFinal, "", "()", "", []⟩
]
/-- reviewed `let`s / assignments that feed a guard of `Pool::add_to_pool (pool/src/pool.rs)` -/
def pin_lets_pool_add_to_pool : List LetRec := [
  ⟨["$3"], "all_transactions", "self.all_transactions()", []⟩
]
theorem pool_add_to_pool_pinned : pool_add_to_pool.parseError = none ∧ pool_add_to_pool.steps = pin_pool_add_to_pool ∧ pool_add_to_pool.lets = pin_lets_pool_add_to_pool := ⟨rfl, rfl, rfl⟩

/-- reviewed shape of `Pool::validate_raw_tx (pool/src/pool.rs)` -/
def pin_pool_validate_raw_tx : List Step := [
  ⟨.check, "validate", "$0.validate($2)", "", []⟩,
  ⟨.check, "validate_tx", "self.blockchain.validate_tx($0)", "", []⟩,
  ⟨.check, "apply_tx_to_block_sums", "self.apply_tx_to_block_sums($0, $1)", "", []⟩,
  ⟨.okFinal, "", "$3", "", []⟩
]
/-- reviewed `let`s / assignments that feed a guard of `Pool::validate_raw_tx (pool/src/pool.rs)` -/
def pin_lets_pool_validate_raw_tx : List LetRec := [
]
theorem pool_validate_raw_tx_pinned : pool_validate_raw_tx.parseError = none ∧ pool_validate_raw_tx.steps = pin_pool_validate_raw_tx ∧ pool_validate_raw_tx.lets = pin_lets_pool_validate_raw_tx := ⟨rfl, rfl, rfl⟩

/-- reviewed shape of `Pool::validate_raw_txs (pool/src/pool.rs)` -/
def pin_pool_validate_raw_txs : List Step := [
  ⟨.call, "push", "$6.push($7)", "", ["for $0", "$1.clone() ~ Some(_)"]⟩,
  ⟨.call, "extend", "$6.extend($4.clone())", "", ["for $0"]⟩,
  ⟨.call, "push", "$6.push($5.clone())", "", ["for $0"]⟩,
  ⟨.call, "push", "$4.push($5.clone())", "", ["for $0", "self.validate_raw_tx(&$9, $2, $3).is_ok()"]⟩,
  ⟨.okFinal, "", "$4", "", []⟩
]
/-- reviewed `let`s / assignments that feed a guard of `Pool::validate_raw_txs (pool/src/pool.rs)` -/
def pin_lets_pool_validate_raw_txs : List LetRec := [
  ⟨["$9"], "<match>", "<match>", ["for $0"]⟩
]
theorem pool_validate_raw_txs_pinned : pool_validate_raw_txs.parseError = none ∧ pool_validate_raw_txs.steps = pin_pool_validate_raw_txs ∧ pool_validate_raw_txs.lets = pin_lets_pool_validate_raw_txs := ⟨rfl, rfl, rfl⟩

/-- reviewed shape of `Pool::reconcile (pool/src/pool.rs)` -/
def pin_pool_reconcile : List Step := [
  ⟨.call, "clear", "self.entries.clear()", "", []⟩,
  ⟨.call, "add_to_pool", "self.add_to_pool($3, $0.clone(), $1)", "", ["for $2"]⟩,
  ⟨.okFinal, "", "()", "", []⟩
]
/-- reviewed `let`s / assignments that feed a guard of `Pool::reconcile (pool/src/pool.rs)` -/
def pin_lets_pool_reconcile : List LetRec := [
  ⟨["$2"], "entries", "self.entries.clone()", []⟩
]
theorem pool_reconcile_pinned : pool_reconcile.parseError = none ∧ pool_reconcile.steps = pin_pool_reconcile ∧ pool_reconcile.lets = pin_lets_pool_reconcile := ⟨rfl, rfl, rfl⟩

/-- reviewed shape of `Pool::find_matching_transactions (pool/src/pool.rs)` -/
def pin_pool_find_matching_transactions : List Step := [
  ⟨.call, "push", "$1.push($3.tx.clone())", "", ["for &self.entries", "$4.is_subset(&$2)"]⟩,
  ⟨.tail, "found_txs", "$1", "", []⟩
]
/-- reviewed `let`s / assignments that feed a guard of `Pool::find_matching_transactions (pool/src/pool.rs)` -/
def pin_lets_pool_find_matching_transactions : List LetRec := [
  ⟨["$2"], "kernels", "$0.iter().collect()", []⟩,
  ⟨["$4"], "kernels", "$3.tx.kernels().iter().collect()", ["for &self.entries"]⟩
]
theorem pool_find_matching_transactions_pinned : pool_find_matching_transactions.parseError = none ∧ pool_find_matching_transactions.steps = pin_pool_find_matching_transactions ∧ pool_find_matching_transactions.lets = pin_lets_pool_find_matching_transactions := ⟨rfl, rfl, rfl⟩

end GV.Props.XlateShapePoolPins
