import GrinVerif.Lemmas.PoolTime
import GrinVerif.Props.C14Node
/-! C14 — the clock-dependent glue around the pool (`Model/PoolTime.lean`).

The theorems of `Props/C14.lean` / `Props/C14Node.lean` quantify over histories in which every
decision that depends on a clock is an *input* (how many cache entries a truncation drops, which
stem entries are older than a timer, whether the Dandelion epoch has run out).  Here the code that
computes those inputs is modelled with explicit clock readings, and:

* `timed_run_is_a_node_run` — every history of the node WITH its clocks (any readings, monotone or
  not, any random draws) is a history of `Model/PoolNode.lean`; the invariants proved there hold
  for it (`timed_entries_always_valid`, `timed_fees_always_paid`, `timed_pool_inv`,
  `timed_reorg_cache_bounded`);
* reorg cache: at most `max_pool_size` entries after any history (`reorg_cache_bounded`); the
  truncation loop only ever removes entries older than the cutoff (`truncate_removes_only_old`) and
  keeps every entry that is not (`truncate_keeps_recent`); with a clock that never goes back the
  cache is ordered by `tx_at` after any history and the loop removes EXACTLY the entries older
  than the cutoff (`cache_time_ordered`, `truncate_exact_after_any_history`); without that
  hypothesis it does not (`truncate_leaves_old_entry_behind_young`);
* Dandelion epoch: a new epoch object counts as expired, expiry is monotone in the clock, and
  after `next_epoch` at `now` the epoch runs for exactly `epoch_secs` whole seconds
  (`epoch_runs_exactly_epoch_secs`); the monitor changes the epoch iff it has run out, after the
  phases (`monitor_changes_epoch_iff_expired`);
* timers: `select_txs_cutoff` is monotone in the clock and antitone in the timer; below the `u16`
  wrap every embargo-expired entry is past the aggregation timer; at `embargo_secs > 65505` the
  sum `embargo_secs + gen_range(0, 31)` wraps (release) and a seconds-old entry is "expired"
  (`embargo_cutoff_wraps`). -/
namespace GV.Props.C14Time
open GV.Pool

/-! ## timed histories are node histories -/

/-- **Refinement.**  Whatever the clock readings and random draws: the pool state after a timed
history is the pool state after the untimed node history obtained by computing, step by step,
the clock-dependent inputs (`eraseAll`). -/
theorem timed_run_is_a_node_run (T : TCfg) (st : TSt) (ops : List TOp) :
    (trun T st ops).cs = nrun st.cs (eraseAll T st ops) := trun_cs T st ops

/-- the truncation inside `block_accepted` is the operation `truncate n` of the untimed histories,
`n` being the number of leading cache entries older than `now - reorg_cache_period` minutes -/
theorem block_truncate_is_truncate (cs : Ctx × TxPool) (ats : List Int) (now : Int) (periodMin : Nat) :
    (cs.1, cs.2.blockTruncate ats now periodMin) =
      step cs (.truncate (leadingOld (reorgCutoff now periodMin) ats)) := rfl

theorem timed_entries_always_valid (T : TCfg) (c : Ctx) (ep : TEpoch) (ops : List TOp) :
    AllValid (trun T { cs := (c, {}), ep } ops).cs.1 (trun T { cs := (c, {}), ep } ops).cs.2 := by
  rw [timed_run_is_a_node_run]
  exact GV.Props.C14Node.node_entries_always_valid c _

theorem timed_fees_always_paid (T : TCfg) (c : Ctx) (ep : TEpoch) (ops : List TOp) :
    ∀ e, (e ∈ (trun T { cs := (c, {}), ep } ops).cs.2.txpool ∨ e ∈ (trun T { cs := (c, {}), ep } ops).cs.2.stempool ∨
        e ∈ (trun T { cs := (c, {}), ep } ops).cs.2.cache) →
      e.tx.weight * c.cfg.feeBase ≤ e.tx.shiftedFee := by
  rw [timed_run_is_a_node_run]
  exact GV.Props.C14Node.node_fees_always_paid c _

/-- joint validity of txpool and stempool ∪ txpool, as long as the erased history does not evict -/
theorem timed_pool_inv (T : TCfg) (c : Ctx) (ep : TEpoch) (ops : List TOp)
    (hne : NoEvict (c, {}) (flatAll (c, {}) (eraseAll T { cs := (c, {}), ep } ops))) :
    JointlyValid (trun T { cs := (c, {}), ep } ops).cs.1.outs (utxoIds (trun T { cs := (c, {}), ep } ops).cs.1)
      (trun T { cs := (c, {}), ep } ops).cs.2.txpool.txs ∧
    JointlyValid (trun T { cs := (c, {}), ep } ops).cs.1.outs (utxoIds (trun T { cs := (c, {}), ep } ops).cs.1)
      ((trun T { cs := (c, {}), ep } ops).cs.2.stempool.txs ++ (trun T { cs := (c, {}), ep } ops).cs.2.txpool.txs) := by
  rw [timed_run_is_a_node_run]
  exact GV.Props.C14Node.node_pool_inv c _ hne

/-! ## the reorg cache -/

/-- **The reorg cache never holds more than `max_pool_size` entries**, after any history -/
theorem reorg_cache_bounded (c : Ctx) (ops : List Op) :
    (run (c, {}) ops).2.cache.length ≤ c.cfg.maxPool := by
  have h := run_cacheOK (c, {}) ops (by show ([] : List Entry).length ≤ _; simp)
  unfold CacheOK at h
  rw [run_cfg] at h
  exact h

theorem timed_reorg_cache_bounded (T : TCfg) (c : Ctx) (ep : TEpoch) (ops : List TOp) :
    (trun T { cs := (c, {}), ep } ops).cs.2.cache.length ≤ c.cfg.maxPool := by
  rw [timed_run_is_a_node_run, GV.Props.C14Node.nrun_eq_run]
  exact reorg_cache_bounded c _

example : (run (({ cfg := { maxPool := 1 } } : Ctx), {})
    [.submit .broadcast { ins := [], outs := [], kers := [] } false false]).2.cache.length ≤ 1 :=
  reorg_cache_bounded _ _

/-- the loop on the cache with its `tx_at` and the operation on the untimed state agree -/
theorem truncate_at_is_the_loop (s : TxPool) (tc : TCache) (h : s.cache = tc.map (·.1)) (cutoff : Int) :
    (s.truncateAt (tc.map (·.2)) cutoff).cache = (truncLoop cutoff tc).map (·.1) := by
  unfold TxPool.truncateAt TxPool.truncateCache
  simp only []
  rw [h, truncLoop_eq_drop, List.map_drop]

/-- what `truncate_reorg_cache` removes is a prefix of entries older than the cutoff (any cache,
ordered by time or not) -/
theorem truncate_removes_only_old (cutoff : Int) (l : TCache) :
    ∃ pre, l = pre ++ truncLoop cutoff l ∧ ∀ x ∈ pre, x.2 < cutoff := truncLoop_prefix cutoff l

/-- an entry that is not older than the cutoff survives (any cache) -/
theorem truncate_keeps_recent (cutoff : Int) (l : TCache) (x : Entry × Int) (hx : x ∈ l)
    (hy : cutoff ≤ x.2) : x ∈ truncLoop cutoff l := by
  obtain ⟨pre, h1, h2⟩ := truncLoop_prefix cutoff l
  rw [h1] at hx
  rcases List.mem_append.mp hx with h | h
  · have := h2 x h; omega
  · exact h

/-- in `block_accepted`: an entry admitted less than `reorg_cache_period` minutes before the
reading survives -/
theorem block_accepted_keeps_recent (now : Int) (periodMin : Nat) (l : TCache) (x : Entry × Int)
    (hx : x ∈ l) (hy : now - x.2 ≤ (periodMin : Int) * 60000) :
    x ∈ truncLoop (reorgCutoff now periodMin) l :=
  truncate_keeps_recent _ l x hx (by unfold reorgCutoff; omega)

/-- **With a clock that never goes back the cache is ordered by `tx_at`** after any history of
admissions and truncations -/
theorem cache_time_ordered (mp : Nat) (ops : List COp) (hmono : (pushTimes ops).Pairwise (· ≤ ·)) :
    TimeSorted (crun mp [] ops) :=
  crun_sorted mp ops [] List.Pairwise.nil hmono (by simp)

/-- … and then the truncation removes exactly the entries older than the cutoff -/
theorem truncate_exact_after_any_history (mp : Nat) (ops : List COp)
    (hmono : (pushTimes ops).Pairwise (· ≤ ·)) (cutoff : Int) :
    truncLoop cutoff (crun mp [] ops) = (crun mp [] ops).filter (fun x => !decide (x.2 < cutoff)) :=
  truncLoop_sorted cutoff _ (cache_time_ordered mp ops hmono)

theorem timed_cache_bounded (mp : Nat) (ops : List COp) : (crun mp [] ops).length ≤ mp :=
  crun_length mp ops [] (by simp)

def exE : Entry := { tx := { ins := [1], outs := [2], kers := [] }, src := .broadcast }

example : truncLoop 25 (crun 5 [] [.push exE 10, .push exE 20, .push exE 30]) = [(exE, 30)] := by decide

/-- without the hypothesis (wall clock set back between two admissions) an entry older than the
cutoff stays behind a younger one — the loop is not the filter -/
theorem truncate_leaves_old_entry_behind_young :
    let l := crun 5 [] [.push exE 30, .push exE 10]
    truncLoop 25 l = l ∧ l.filter (fun x => !decide (x.2 < 25)) = [(exE, 30)] := by decide

/-! ## a reorganisation deeper than the reorg-cache period -/

theorem foldl_addToTxpool_txpool (c : Ctx) (l : List Entry) (acc : TxPool) :
    ∀ x ∈ (l.foldl (fun acc e => (acc.addToTxpool c e).1) acc).txpool, x ∈ acc.txpool ∨ x ∈ l := by
  induction l generalizing acc with
  | nil => intro x hx; exact Or.inl hx
  | cons e rest ih =>
    intro x hx
    simp only [List.foldl_cons] at hx
    rcases ih _ x hx with h | h
    · rcases (addToTxpool_members c acc e).1 x h with h' | h'
      · exact Or.inl h'
      · exact Or.inr (by simp [h'])
    · exact Or.inr (List.mem_cons_of_mem _ h)

/-- **What comes back after a reorganisation.**  `block_accepted` truncates the reorg cache at
`now - reorg_cache_period` and then replays it: with a time-ordered cache every transaction the replay
puts (back) into the txpool was admitted NOT EARLIER than the cutoff.  A transaction that was confirmed
only on the abandoned branch and admitted before the cutoff is in neither the txpool nor the cache
afterwards: it is not replayed (it has to be submitted again).  Joint validity, fees, standalone validity
and the cache bound are NOT affected (`timed_pool_inv`, `timed_fees_always_paid`,
`timed_entries_always_valid`, `timed_reorg_cache_bounded` hold for every truncation): what a deep
reorganisation costs is completeness of the replay, not validity of the pool. -/
theorem deep_reorg_replays_only_recent (c : Ctx) (s : TxPool) (tc : TCache) (h : s.cache = tc.map (·.1))
    (hs : TimeSorted tc) (now : Int) (periodMin : Nat) :
    ∀ x ∈ ((s.blockTruncate (tc.map (·.2)) now periodMin).reconcileReorgCache c).txpool,
      x ∈ s.txpool ∨ ∃ a, (x, a) ∈ tc ∧ reorgCutoff now periodMin ≤ a := by
  intro x hx
  unfold TxPool.reconcileReorgCache at hx
  rcases foldl_addToTxpool_txpool c _ _ x hx with h1 | h1
  · exact Or.inl h1
  · right
    have hc : (s.blockTruncate (tc.map (·.2)) now periodMin).cache =
        (truncLoop (reorgCutoff now periodMin) tc).map (·.1) :=
      truncate_at_is_the_loop s tc h _
    rw [hc, truncLoop_sorted _ _ hs] at h1
    obtain ⟨y, hy, rfl⟩ := List.mem_map.mp h1
    have := List.mem_filter.mp hy
    refine ⟨y.2, this.1, ?_⟩
    have h2 := this.2
    simp only [Bool.not_eq_eq_eq_not, Bool.not_true, decide_eq_false_iff_not, Int.not_lt] at h2
    exact h2

/-- non-vacuity: a cache of two entries, the older one before the cutoff -/
example : TimeSorted [(exE, 10), (exE, 2000000)] := by unfold TimeSorted; decide

/-! ## the Dandelion epoch -/

theorem fresh_epoch_is_expired (d : DCfg) (now : Int) : TEpoch.new.isExpired d now = true := rfl

theorem tsOf_mono {a b : Int} (h : a ≤ b) : tsOf a ≤ tsOf b := by unfold tsOf; omega

/-- once expired, expired at every later reading -/
theorem expired_mono (d : DCfg) (e : TEpoch) {now now' : Int} (h : now ≤ now')
    (he : e.isExpired d now = true) : e.isExpired d now' = true := by
  unfold TEpoch.isExpired at *
  cases hs : e.start with
  | none => rfl
  | some st =>
    rw [hs] at he
    simp only [decide_eq_true_eq] at he ⊢
    have := tsOf_mono h
    omega

/-- **An epoch started by `next_epoch` at `now` runs for exactly `epoch_secs` whole seconds**:
at a reading `now'` it has expired iff more than `epoch_secs` seconds (of `timestamp()`) passed -/
theorem epoch_runs_exactly_epoch_secs (d : DCfg) (e : TEpoch) (now now' : Int) (roll : Nat) (relay : Option Bool) :
    (e.nextEpoch d now roll relay).isExpired d now' = true ↔ tsOf now' - tsOf now > (d.epochSecs : Int) := by
  simp [TEpoch.nextEpoch, TEpoch.isExpired]

example : (TEpoch.new.nextEpoch {} 5000 0 none).isExpired {} 605999 = false := by decide
example : (TEpoch.new.nextEpoch {} 5000 0 none).isExpired {} 606000 = true := by decide

/-- `stem_probability = 0`: never a stem epoch; `≥ 100`: always (the draw is below 100) -/
theorem stem_probability_extremes (d : DCfg) (e : TEpoch) (now : Int) (roll : Nat) (relay : Option Bool) :
    (d.stemProb = 0 → (e.nextEpoch d now roll relay).isStem = false) ∧
    (100 ≤ d.stemProb → roll < 100 → (e.nextEpoch d now roll relay).isStem = true) := by
  constructor
  · intro h; simp [TEpoch.nextEpoch, h]
  · intro h hr; simp only [TEpoch.nextEpoch, decide_eq_true_eq]; omega

/-- the monitor moves to the next epoch iff the current one has run out at the final reading, and
only after both phases have run with the OLD epoch -/
theorem monitor_changes_epoch_iff_expired (c : Ctx) (s : TxPool) (d : DCfg) (ep : TEpoch) (m : Clock)
    (i : PassIn) :
    (s.monitorPassT c d ep m i).2 =
      if ep.isExpired d i.nowN then ep.nextEpoch d i.nowN i.rollStem i.relay else ep := rfl

/-- the first pass of a fresh node starts the first timed epoch -/
theorem first_pass_starts_an_epoch (c : Ctx) (s : TxPool) (d : DCfg) (m : Clock) (i : PassIn) :
    (s.monitorPassT c d TEpoch.new m i).2.start = some (tsOf i.nowN) := rfl

/-! ## the timers -/

theorem mem_selectCutoff {m : Clock} {now : Int} {secs : Nat} {p : Pool} {e : Entry} :
    e ∈ selectCutoff m now secs p ↔ e ∈ p ∧ tsOf (atOf m e.tx) < tsOf now - (secs : Int) := by
  simp [selectCutoff]

/-- an entry selected at a reading is selected at every later reading -/
theorem select_mono_in_time {m : Clock} {now now' : Int} {secs : Nat} {p : Pool} {e : Entry}
    (h : now ≤ now') (he : e ∈ selectCutoff m now secs p) : e ∈ selectCutoff m now' secs p := by
  rw [mem_selectCutoff] at *
  have := tsOf_mono h
  exact ⟨he.1, by omega⟩

/-- a longer timer selects fewer entries -/
theorem select_antitone_in_secs {m : Clock} {now : Int} {secs secs' : Nat} {p : Pool} {e : Entry}
    (h : secs ≤ secs') (he : e ∈ selectCutoff m now secs' p) : e ∈ selectCutoff m now secs p := by
  rw [mem_selectCutoff] at *
  exact ⟨he.1, by omega⟩

/-- the selection keeps the pool order -/
theorem select_sublist (m : Clock) (now : Int) (secs : Nat) (p : Pool) :
    (selectCutoff m now secs p).Sublist p := List.filter_sublist

/-- below the `u16` wrap the embargo timer is `embargo_secs` plus the draw -/
theorem embargo_cutoff_no_wrap (d : DCfg) (roll : Nat) (h : d.embargoSecs + roll < 65536) :
    embargoCutoff d roll = d.embargoSecs + roll := by
  unfold embargoCutoff; omega

/-- … so with `aggregation_secs ≤ embargo_secs` every entry whose embargo ran out is also past the
aggregation timer (the fluff phase of a fluff epoch sees it first) -/
theorem embargo_expired_is_aggregation_old (d : DCfg) (roll : Nat) (h : d.embargoSecs + roll < 65536)
    (hcfg : d.aggSecs ≤ d.embargoSecs) {m : Clock} {now : Int} {p : Pool} {e : Entry}
    (he : e ∈ selectCutoff m now (embargoCutoff d roll) p) : e ∈ selectCutoff m now d.aggSecs p := by
  rw [embargo_cutoff_no_wrap d roll h] at he
  exact select_antitone_in_secs (by omega) he

example : embargoCutoff {} 30 = 210 := by decide

/-- `embargo_secs` within 30 of `u16::MAX`: the release build's sum wraps to a few seconds (a
debug build panics in the monitor thread), and an entry 5 seconds old counts as embargo-expired
although neither timer has run -/
theorem embargo_cutoff_wraps :
    let d : DCfg := { embargoSecs := 65530 }
    let e : Entry := exE
    embargoCutoff d 10 = 4 ∧
    e ∈ selectCutoff [(e.tx, 95000)] 100000 (embargoCutoff d 10) [e] ∧
    e ∉ selectCutoff [(e.tx, 95000)] 100000 d.aggSecs [e] := by decide

/-- the fluff phase and the embargo pass of the timed monitor are the untimed ones on the
computed inputs -/
theorem monitor_pass_is_untimed_pass (c : Ctx) (s : TxPool) (d : DCfg) (ep : TEpoch) (m : Clock) (i : PassIn) :
    (s.monitorPassT c d ep m i).1 =
      (nstep (c, s) (eraseT { d := d } { cs := (c, s), ep := ep } (.monitor m i))).2 := by
  have := tstep_cs { d := d } { cs := (c, s), ep := ep } (.monitor m i)
  simp only [tstep] at this
  exact congrArg Prod.snd this

end GV.Props.C14Time
