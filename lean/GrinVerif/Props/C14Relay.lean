import GrinVerif.Model.PoolTime
/-! C14 — the Dandelion relay peer (`DandelionEpoch::relay_peer`, `PoolToNetAdapter::stem_tx_accepted`;
model in `Model/PoolTime.lean`, section "the Dandelion relay peer").

* `stemTxAcceptedR_is_stemTxAccepted` — the relay decision computed from the peer objects is the
  `Epoch.relay` input of `Model/PoolNode.lean`: every node-level theorem applies with that value;
* `relay_kept_while_not_banned` — the current relay is kept as long as it is not BANNED: neither the
  end of its connection nor its removal from the `Peers` map makes `relay_peer` choose another one
  (`Peer::is_connected()` only reads the ban state);
* `dead_relay_fluffs_every_stem_tx` — consequently, once the relay's connection is gone every stem
  transaction of the rest of the epoch is fluffed at once (`DandelionError` → fallback), even while
  other outbound peers are connected (`dead_relay_witness`);
* `relay_changes_only_if_none_or_banned`, `chosen_relay_is_outbound_member_unbanned`,
  `no_candidate_no_relay`, `fluff_epoch_asks_nobody`. -/
namespace GV.Props.C14Relay
open GV.Pool

theorem stemTxAcceptedR_is_stemTxAccepted (isStem always e : Bool) (src : Src) (cur : Option Nat)
    (peers : List RPeer) (pick : Nat) :
    (stemTxAcceptedR isStem always src cur peers pick).1 =
      stemTxAccepted { isStem := isStem, expired := e, alwaysStemOurs := always,
                       relay := relayOutcome cur peers pick } src := by
  unfold stemTxAcceptedR stemTxAccepted relayOutcome
  by_cases h : (isStem || (src.isPushed && always)) = true
  · simp only [h, if_true]
    cases hr : (relayPeer cur peers pick).bind (peerById peers) with
    | none => rfl
    | some p => cases hp : p.alive <;> simp [hp]
  · simp only [h, Bool.false_eq_true, if_false]

theorem relay_kept_while_not_banned (id : Nat) (peers : List RPeer) (pick : Nat) (p : RPeer)
    (hp : peerById peers id = some p) (hb : p.banned = false) :
    relayPeer (some id) peers pick = some p.id := by
  simp [relayPeer, hp, hb]

theorem peerById_id {peers : List RPeer} {id : Nat} {p : RPeer} (h : peerById peers id = some p) : p.id = id := by
  unfold peerById at h
  have := List.find?_some h
  simpa using this

/-- the relay's connection has ended (`alive = false`) but it is not banned: in a stem epoch every
stem transaction is refused by the relay step - i.e. fluffed - and the relay stays the same -/
theorem dead_relay_fluffs_every_stem_tx (always : Bool) (src : Src) (id : Nat) (peers : List RPeer)
    (pick : Nat) (p : RPeer) (hp : peerById peers id = some p) (hb : p.banned = false)
    (hd : p.alive = false) :
    stemTxAcceptedR true always src (some id) peers pick = (false, some id) := by
  have hid := peerById_id hp
  have hr : relayPeer (some id) peers pick = some id := by
    rw [relay_kept_while_not_banned id peers pick p hp hb, hid]
  simp [stemTxAcceptedR, hr, hp, hd]

/-- … although a second, live outbound peer is connected -/
theorem dead_relay_witness :
    let peers : List RPeer := [{ id := 1, alive := false }, { id := 2 }]
    stemTxAcceptedR true true .broadcast (some 1) peers 0 = (false, some 1) ∧
    -- only a ban makes `relay_peer` move on
    stemTxAcceptedR true true .broadcast (some 1) [{ id := 1, alive := false, banned := true }, { id := 2 }] 0
      = (true, some 2) := by decide

theorem relay_changes_only_if_none_or_banned (cur : Option Nat) (peers : List RPeer) (pick : Nat)
    (h : relayPeer cur peers pick ≠ cur) :
    cur = none ∨ (∃ id, cur = some id ∧ peerById peers id = none) ∨
      ∃ id p, cur = some id ∧ peerById peers id = some p ∧ p.banned = true := by
  cases cur with
  | none => exact Or.inl rfl
  | some id =>
    right
    cases hp : peerById peers id with
    | none => exact Or.inl ⟨id, rfl, hp⟩
    | some p =>
      right
      refine ⟨id, p, rfl, hp, ?_⟩
      cases hb : p.banned with
      | true => rfl
      | false =>
        exfalso
        apply h
        rw [relay_kept_while_not_banned id peers pick p hp hb, peerById_id hp]

theorem chosen_relay_is_outbound_member_unbanned (peers : List RPeer) (pick id : Nat)
    (h : chooseRelay peers pick = some id) :
    ∃ p ∈ peers, p.id = id ∧ p.member = true ∧ p.outbound = true ∧ p.banned = false := by
  unfold chooseRelay at h
  simp only [Option.map_eq_some_iff] at h
  obtain ⟨p, hp, hid⟩ := h
  have hm := List.mem_of_getElem? hp
  have := List.mem_filter.mp hm
  refine ⟨p, this.1, hid, ?_⟩
  have h2 := this.2
  simp only [Bool.and_eq_true, Bool.not_eq_eq_eq_not, Bool.not_true] at h2
  exact ⟨h2.1.1, h2.1.2, h2.2⟩

/-- … and the specification is exactly that set: every outbound, unbanned member can be the result of
the random choice (`choose_random` over the filtered iterator) -/
theorem every_candidate_can_be_chosen (peers : List RPeer) (p : RPeer) (hp : p ∈ peers)
    (hm : p.member = true) (ho : p.outbound = true) (hb : p.banned = false) :
    ∃ pick, chooseRelay peers pick = some p.id := by
  have hc : p ∈ peers.filter (fun p => p.member && p.outbound && !p.banned) :=
    List.mem_filter.mpr ⟨hp, by simp [hm, ho, hb]⟩
  obtain ⟨i, hi, he⟩ := List.getElem_of_mem hc
  refine ⟨i, ?_⟩
  unfold chooseRelay
  simp only []
  rw [Nat.mod_eq_of_lt hi, List.getElem?_eq_getElem hi, he]
  rfl

example : ∃ pick, chooseRelay [{ id := 1, outbound := false }, { id := 2 }, { id := 3, banned := true }, { id := 4 }] pick = some 4 :=
  ⟨1, by decide⟩

/-- no outbound, unbanned member and no relay yet: a stem epoch fluffs -/
theorem no_candidate_no_relay (always : Bool) (src : Src) (peers : List RPeer) (pick : Nat)
    (h : ∀ p ∈ peers, (p.member && p.outbound && !p.banned) = false) :
    stemTxAcceptedR true always src none peers pick = (false, none) := by
  have hf : peers.filter (fun p => p.member && p.outbound && !p.banned) = [] :=
    List.filter_eq_nil_iff.mpr (fun p hp => by simp [h p hp])
  simp [stemTxAcceptedR, relayPeer, chooseRelay, hf]

/-- a fluff epoch (and a transaction that is not ours, or `always_stem_our_txs` off) asks nobody:
the stem transaction stays in the stempool for the monitor, the relay is not touched -/
theorem fluff_epoch_asks_nobody (always : Bool) (src : Src) (cur : Option Nat) (peers : List RPeer) (pick : Nat)
    (h : (src.isPushed && always) = false) :
    stemTxAcceptedR false always src cur peers pick = (true, cur) := by
  simp [stemTxAcceptedR, h]

/-- **a full send channel**: `ConnHandle::send` answers `Ok` on `TrySendError::Full` and DROPS the message, so
the relay step reports success (`alive`) and the transaction stays in the stempool although nobody received
it.  What brings it out is the embargo: at the first monitor pass at which it is older than
`embargo_secs + draw` it is among the entries `process_expired_entries` submits on the fluff path
(reasoned from p2p/src/conn.rs; not driven: the harness cannot park the writer thread of a `p2p::Peer`). -/
theorem dropped_stem_tx_leaves_by_the_embargo (m : Clock) (now : Int) (d : DCfg) (roll : Nat) (s : TxPool) (e : Entry)
    (he : e ∈ s.stempool) (hold : tsOf (atOf m e.tx) < tsOf now - ((embargoCutoff d roll : Nat) : Int)) :
    (Op.submit .embargoExpired e.tx false false) ∈
      (selectCutoff m now (embargoCutoff d roll) s.stempool).map (fun e => Op.submit .embargoExpired e.tx false false) := by
  apply List.mem_map.mpr
  refine ⟨e, ?_, rfl⟩
  unfold selectCutoff
  exact List.mem_filter.mpr ⟨he, by simpa using hold⟩

end GV.Props.C14Relay
