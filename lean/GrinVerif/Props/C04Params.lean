import GrinVerif.Gen.Params
import GrinVerif.Model.Cons
import GrinVerif.Model.PowSize
import GrinVerif.Model.PowDiff
import GrinVerif.Props.C04
/-! # C04 / C05 — the models' per-chain-type parameters are the ones in `global.rs`

`Gen/Params.lean` is regenerated on every check run by `tools/gen_params.py` from
`core/src/global.rs` and `core/src/consensus.rs`: for every chain-type dependent parameter function
the value of each of the four `ChainTypes` arms, the shape of `header_version`, the dispatch of
`create_pow_context`.  The obligations below (`decide` / `rfl` over the four chain types) say that the
parameter functions the models use are exactly that table — so a changed arm, a swapped constant, a
moved hard-fork height or a changed dispatch in the source breaks an obligation here, whether or not
any run happens to exercise that chain type at that height. -/
namespace GV.Props.C04Params
open GV GV.Gen GV.Gen.Params

/-- the chain types of the two models -/
def toCons : CT → Cons.ChainType
  | .automatedTesting => .automatedTesting | .userTesting => .userTesting
  | .testnet => .testnet | .mainnet => .mainnet
def toPow : CT → Pow.ChainType
  | .automatedTesting => .automated | .userTesting => .user
  | .testnet => .testnet | .mainnet => .mainnet

/-- what an arm of the table evaluates to under chain type `c` (`graph_weight` is the model function,
itself tied to the source by `Props/XlateCons`) -/
def eval (c : CT) : Val → Option Nat
  | .num n => some n
  | .gw0 eb as32 =>
    let w := Cons.graphWeight (toCons c) 0 eb
    some (if as32 then w % 2^32 else w)
  | .unknown => none

theorem table_readable : parseError = none := by decide

/-! ### `global.rs` parameter functions -/

theorem min_edge_bits_table (c : CT) : eval c (min_edge_bits c) = some (Cons.minEdgeBits (toCons c)) := by
  cases c <;> decide
theorem base_edge_bits_table (c : CT) :
    eval c (base_edge_bits c) = some (Cons.baseEdgeBits (toCons c)) ∧
    eval c (base_edge_bits c) = some (Pow.baseEdgeBits (toPow c)) := by
  cases c <;> decide
theorem proofsize_table (c : CT) : eval c (proofsize c) = some (Pow.proofsizeOf (toPow c)) := by
  cases c <;> decide
theorem coinbase_maturity_table (c : CT) :
    eval c (coinbase_maturity c) = some (Cons.coinbaseMaturity (toCons c)) := by
  cases c <;> decide
theorem max_block_weight_table (c : CT) :
    eval c (max_block_weight c) = some (Cons.maxBlockWeight (toCons c)) := by
  cases c <;> decide
theorem initial_graph_weight_table (c : CT) :
    eval c (initial_graph_weight c) = some (Cons.initialGraphWeight (toCons c)) := by
  cases c <;> decide
theorem min_wtema_graph_weight_table (c : CT) :
    eval c (min_wtema_graph_weight c) = some (Cons.minWtemaGraphWeight (toCons c)) := by
  cases c <;> decide

/-- parameters no model of this domain computes with are pinned to the regenerated constants -/
theorem other_parameters_table :
    (∀ c, initial_block_difficulty c =
      match c with
      | .automatedTesting | .userTesting => .num TESTING_INITIAL_DIFFICULTY
      | _ => .num INITIAL_DIFFICULTY) ∧
    (∀ c, cut_through_horizon c =
      match c with
      | .automatedTesting => .num AUTOMATED_TESTING_CUT_THROUGH_HORIZON
      | .userTesting => .num USER_TESTING_CUT_THROUGH_HORIZON
      | _ => .num CUT_THROUGH_HORIZON) ∧
    (∀ c, state_sync_threshold c =
      match c with
      | .automatedTesting | .userTesting => .num TESTING_STATE_SYNC_THRESHOLD
      | _ => .num STATE_SYNC_THRESHOLD) := by
  refine ⟨?_, ?_, ?_⟩ <;> intro c <;> cases c <;> decide

/-! ### `consensus::header_version` -/

/-- the schedule a table entry describes -/
def hvEval : HV → Nat → Option Nat
  | .interval i, h => some (min 5 ((1 + h / i) % 2^16))
  | .thresholds ts, h => some ((ts.filter (· ≤ h)).length + 1)
  | .hvUnknown, _ => none

theorem header_version_shape :
    header_version .mainnet = .interval HARD_FORK_INTERVAL ∧
    header_version .automatedTesting = .interval TESTING_HARD_FORK_INTERVAL ∧
    header_version .userTesting = .interval TESTING_HARD_FORK_INTERVAL ∧
    header_version .testnet = .thresholds [TESTNET_FIRST_HARD_FORK, TESTNET_SECOND_HARD_FORK,
      TESTNET_THIRD_HARD_FORK, TESTNET_FOURTH_HARD_FORK] := by decide

/-- ascending thresholds: counting the passed ones is the `if … else if …` chain -/
theorem thresholds_chain (a b c d h : Nat) (hab : a ≤ b) (hbc : b ≤ c) (hcd : c ≤ d) :
    ([a, b, c, d].filter (· ≤ h)).length + 1 =
      (if h < a then 1 else if h < b then 2 else if h < c then 3 else if h < d then 4 else 5) := by
  simp only [List.filter_cons, List.filter_nil]
  by_cases h1 : h < a
  · have : ¬ a ≤ h := by omega
    have : ¬ b ≤ h := by omega
    have : ¬ c ≤ h := by omega
    have : ¬ d ≤ h := by omega
    simp [*]
  by_cases h2 : h < b
  · have : a ≤ h := by omega
    have : ¬ b ≤ h := by omega
    have : ¬ c ≤ h := by omega
    have : ¬ d ≤ h := by omega
    simp [*]
  by_cases h3 : h < c
  · have : a ≤ h := by omega
    have : b ≤ h := by omega
    have : ¬ c ≤ h := by omega
    have : ¬ d ≤ h := by omega
    simp [*]
  by_cases h4 : h < d
  · have : a ≤ h := by omega
    have : b ≤ h := by omega
    have : c ≤ h := by omega
    have : ¬ d ≤ h := by omega
    simp [*]
  · have : a ≤ h := by omega
    have : b ≤ h := by omega
    have : c ≤ h := by omega
    have : d ≤ h := by omega
    simp [*]

/-- **both models' `headerVersion` is the regenerated schedule**, for every chain type and height -/
theorem header_version_table (c : CT) (h : Nat) :
    hvEval (header_version c) h = some (Cons.headerVersion (toCons c) h) ∧
    hvEval (header_version c) h = some (Pow.headerVersion (toPow c) h) := by
  obtain ⟨hm, ha, hu, ht⟩ := header_version_shape
  cases c
  · rw [ha]; exact ⟨rfl, by simp [hvEval, toPow, Pow.headerVersion]⟩
  · rw [hu]; exact ⟨rfl, by simp [hvEval, toPow, Pow.headerVersion]⟩
  · rw [ht]
    have hch := thresholds_chain TESTNET_FIRST_HARD_FORK TESTNET_SECOND_HARD_FORK
      TESTNET_THIRD_HARD_FORK TESTNET_FOURTH_HARD_FORK h (by decide) (by decide) (by decide)
    constructor
    · simp only [hvEval, toCons, Cons.headerVersion]; rw [hch]
    · simp only [hvEval, toPow, Pow.headerVersion]; rw [hch]
  · rw [hm]; exact ⟨rfl, by simp [hvEval, toPow, Pow.headerVersion]⟩

/-- `valid_header_version` in the source is the plain comparison with the schedule -/
theorem valid_header_version_shape : validVersionIsScheduleEq = true := by decide

/-- the model's `validHeaderVersion` is that comparison against the regenerated schedule -/
theorem valid_header_version_table (c : CT) (h v : Nat) :
    Cons.validHeaderVersion (toCons c) h v = true ↔ hvEval (header_version c) h = some v := by
  rw [(header_version_table c h).1]
  unfold Cons.validHeaderVersion
  rw [beq_iff_eq]
  constructor
  · intro e; rw [e]
  · intro e; exact (Option.some.inj e).symm

/-- **an accepted header carries the version the regenerated schedule gives for its height**, on every
chain type, for every context (parent, window, options) -/
theorem accepted_header_version (c : CT) (ctx : Cons.Ctx) (hd : Cons.Hdr) (hc : ctx.ct = toCons c)
    (hv : Cons.validateHeader ctx hd = .ok ()) :
    hvEval (header_version c) hd.height = some hd.version := by
  obtain ⟨_, prev, _, _, hver, _⟩ := GV.Props.C04.validate_header_sound ctx hd hv
  rw [(header_version_table c hd.height).1, hver, hc]

/-! ### `global::create_pow_context` -/

theorem dispatch_shape :
    ctxShapeOk = true ∧ ctxProdChains = [.mainnet, .testnet] ∧ ctxBound = some 29 ∧
    ctxAbove = "cuckatoo" ∧ ctxOther = "cuckatoo" ∧ ctxFallback = "none" ∧
    ctxByVersion = [(1, "cuckaroo"), (2, "cuckarood"), (3, "cuckaroom"), (4, "cuckarooz")] := by decide

/-- the dispatch the table describes -/
def dispatchEval (c : CT) (version edgeBits : Nat) : Option String :=
  if ctxProdChains.contains c then
    match ctxBound with
    | none => some "unknown"
    | some b =>
      if edgeBits > b then some ctxAbove
      else match ctxByVersion.lookup version with
        | some v => some v
        | none => if ctxFallback = "none" then none else some ctxFallback
  else some ctxOther

/-- **`selectVariant` (the model of `create_pow_context`) is the regenerated dispatch**, for every
chain type, height and edge bits -/
theorem dispatch_table (c : CT) (h eb : Nat) :
    (Pow.selectVariant (toPow c) h eb).map Pow.Variant.name =
      dispatchEval c (Pow.headerVersion (toPow c) h) eb := by
  obtain ⟨_, h1, h2, h3, h4, h5, h6⟩ := dispatch_shape
  unfold dispatchEval
  rw [h1, h2, h3, h4, h5, h6]
  have hv5 : ∀ c' : Pow.ChainType, Pow.headerVersion c' h ≤ 5 := by
    intro c'
    cases c' <;> simp only [Pow.headerVersion]
    · exact Nat.min_le_left _ _
    · exact Nat.min_le_left _ _
    · repeat' split
      all_goals omega
    · exact Nat.min_le_left _ _
  cases c
  · simp [toPow, Pow.selectVariant, Pow.Variant.name]
  · simp [toPow, Pow.selectVariant, Pow.Variant.name]
  · simp only [toPow, Pow.selectVariant]
    by_cases hb : eb > 29
    · simp [hb, Pow.Variant.name]
    · simp only [hb, if_false]
      have := hv5 .testnet
      generalize Pow.headerVersion .testnet h = v at this ⊢
      match v, this with
      | 0, _ => simp [List.lookup]
      | 1, _ => simp [List.lookup, Pow.Variant.name]
      | 2, _ => simp [List.lookup, Pow.Variant.name]
      | 3, _ => simp [List.lookup, Pow.Variant.name]
      | 4, _ => simp [List.lookup, Pow.Variant.name]
      | 5, _ => simp [List.lookup]
  · simp only [toPow, Pow.selectVariant]
    by_cases hb : eb > 29
    · simp [hb, Pow.Variant.name]
    · simp only [hb, if_false]
      have := hv5 .mainnet
      generalize Pow.headerVersion .mainnet h = v at this ⊢
      match v, this with
      | 0, _ => simp [List.lookup]
      | 1, _ => simp [List.lookup, Pow.Variant.name]
      | 2, _ => simp [List.lookup, Pow.Variant.name]
      | 3, _ => simp [List.lookup, Pow.Variant.name]
      | 4, _ => simp [List.lookup, Pow.Variant.name]
      | 5, _ => simp [List.lookup]

end GV.Props.C04Params
