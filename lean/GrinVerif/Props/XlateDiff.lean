import GrinVerif.Props.XlateCons
/-! # Translated difficulty adjustment (`core/src/consensus.rs`, `core/src/global.rs`,
`core/src/pow/types.rs`) = the hand-written model `Model/Cons.lean`

Continuation of `Props/XlateCons.lean` for the definitions of `Gen/FnsCons.lean` that deal with
`HeaderDifficultyInfo`, `Difficulty`, `Proof::scaled_difficulty` and the chain-type dependent sync
parameters.  Shape of the statements (as `damp_eq`): the hand model's `none` (panic) outcome is exactly
`<fn>_ok = false` of the translation, and otherwise the values agree.  All statements are for ALL
inputs (no range hypothesis was needed except for `scaled_difficulty`, where `scale : u64`). -/

namespace GV.Props.XlateDiff
open GV GV.Gen GV.Xlate GV.Props.XlateCons

/-! ## `HeaderDifficultyInfo` -/

/-- the hand model's `HDI` as the generated `HeaderDifficultyInfo` (the `hash` field, of untranslated
type and never read by the difficulty code, is absent on both sides) -/
def ofHDI (x : GV.Cons.HDI) : Fns.HeaderDifficultyInfo :=
  { timestamp := x.ts, difficulty := x.diff, secondary_scaling := x.scaling, is_secondary := x.isSec }

/-- inverse of `ofHDI` -/
def toHDI (y : Fns.HeaderDifficultyInfo) : GV.Cons.HDI :=
  { ts := y.timestamp, diff := y.difficulty, scaling := y.secondary_scaling, isSec := y.is_secondary }

@[simp] theorem toHDI_ofHDI (x : GV.Cons.HDI) : toHDI (ofHDI x) = x := rfl
@[simp] theorem ofHDI_toHDI (y : Fns.HeaderDifficultyInfo) : ofHDI (toHDI y) = y := rfl

theorem ofHDI_injective : Function.Injective ofHDI := by
  intro a b h
  have := congrArg toHDI h
  simpa using this

/-- every generated value is the image of a model value: statements about `data.map ofHDI` cover
every `Vec<HeaderDifficultyInfo>` -/
theorem ofHDI_surj (l : List Fns.HeaderDifficultyInfo) : ∃ d : List GV.Cons.HDI, d.map ofHDI = l :=
  ⟨l.map toHDI, by simp [List.map_map, Function.comp_def]⟩

@[simp] theorem ofHDI_timestamp (x : GV.Cons.HDI) : (ofHDI x).timestamp = x.ts := rfl
@[simp] theorem ofHDI_difficulty (x : GV.Cons.HDI) : (ofHDI x).difficulty = x.diff := rfl
@[simp] theorem ofHDI_scaling (x : GV.Cons.HDI) : (ofHDI x).secondary_scaling = x.scaling := rfl
@[simp] theorem ofHDI_is_secondary (x : GV.Cons.HDI) : (ofHDI x).is_secondary = x.isSec := rfl

/-- `HeaderDifficultyInfo::from_ts_diff` is the element the model's `padWindow` pushes -/
theorem from_ts_diff_eq (ct : GV.Cons.ChainType) (t d : Nat) :
    Fns.HeaderDifficultyInfo_from_ts_diff (ofCons ct) t d
      = ofHDI { ts := t, diff := d, scaling := GV.Cons.initialGraphWeight ct, isSec := true } := by
  simp [Fns.HeaderDifficultyInfo_from_ts_diff, ofHDI, initial_graph_weight_eq]

/-- `HeaderDifficultyInfo::from_diff_scaling` -/
theorem from_diff_scaling_eq (d s : Nat) :
    Fns.HeaderDifficultyInfo_from_diff_scaling d s = ofHDI { ts := 1, diff := d, scaling := s, isSec := true } := rfl

/-! ## `Difficulty` (pow/types.rs) -/

theorem Difficulty_from_num_eq (n : Nat) : Fns.Difficulty_from_num n = GV.Cons.fromNum n := rfl
theorem Difficulty_to_num_eq (n : Nat) : Fns.Difficulty_to_num n = n := rfl
theorem Difficulty_zero_eq : Fns.Difficulty_zero = 0 := rfl
theorem Difficulty_min_dma_eq : Fns.Difficulty_min_dma = MIN_DMA_DIFFICULTY := rfl

theorem Difficulty_min_wtema_eq (ct : GV.Cons.ChainType) :
    Fns.Difficulty_min_wtema (ofCons ct) = GV.Cons.minWtemaGraphWeight ct := by
  simp [Fns.Difficulty_min_wtema, min_wtema_graph_weight_eq]

theorem Difficulty_min_wtema_ok (c : Fns.ChainTypes) : Fns.Difficulty_min_wtema_ok c = true := by
  simp [Fns.Difficulty_min_wtema_ok, min_wtema_graph_weight_ok]

theorem Difficulty_unit_eq (ct : GV.Cons.ChainType) :
    Fns.Difficulty_unit (ofCons ct) = GV.Cons.initialGraphWeight ct := by
  simp [Fns.Difficulty_unit, initial_graph_weight_eq]

theorem Difficulty_unit_ok (c : Fns.ChainTypes) : Fns.Difficulty_unit_ok c = true := by
  simp [Fns.Difficulty_unit_ok, initial_graph_weight_ok]

example : Fns.Difficulty_from_num 0 = 1 ∧ Fns.Difficulty_from_num 7 = 7 ∧ Fns.Difficulty_min_dma = 3
    ∧ Fns.Difficulty_min_wtema .Mainnet = 16384 ∧ Fns.Difficulty_unit .Mainnet = 1856 := by decide

/-! ## `Proof::scaled_difficulty` -/

/-- `(scale as u128) << 64` does not lose bits for a `u64` scale -/
theorem shl128 {scale : Nat} (h : scale < 2^64) : Fns.shlN 128 scale 64 = scale * 2^64 := by
  unfold Fns.shlN
  have : (64 % 128) = 64 := rfl
  rw [this]
  apply Nat.mod_eq_of_lt
  have : scale * 2^64 < 2^64 * 2^64 := Nat.mul_lt_mul_of_lt_of_le h (Nat.le_refl _) (by decide)
  have h2 : (2:Nat)^64 * 2^64 = 2^128 := by decide
  omega

/-- `Proof::scaled_difficulty(scale)` (with `hash64 = self.hash().to_u64()`) for every `u64` scale and
every hash value -/
theorem scaled_difficulty_eq (scale hash64 : Nat) (hs : scale < 2^64) :
    Fns.Proof_scaled_difficulty scale hash64 = GV.Cons.scaledDifficulty hash64 scale := by
  unfold Fns.Proof_scaled_difficulty GV.Cons.scaledDifficulty
  simp only [shl128 hs, Fns.castN, U64MAX]
  apply Nat.mod_eq_of_lt
  have : min (scale * 2^64 / max 1 hash64) 18446744073709551615 ≤ 18446744073709551615 := Nat.min_le_right _ _
  omega

theorem Proof_scaled_difficulty_ok (scale hash64 : Nat) : Fns.Proof_scaled_difficulty_ok scale hash64 = true := by
  unfold Fns.Proof_scaled_difficulty_ok
  have : max 1 hash64 ≠ 0 := by omega
  simp [this]

example : Fns.Proof_scaled_difficulty 1856 (2^60) = 29696 ∧ Fns.Proof_scaled_difficulty 1856 0 = 2^64 - 1 := by
  decide

/-! ## `ar_count`, `secondary_pow_scaling` -/

/-- `ar_count(_height, diff_data)` for every list -/
theorem ar_count_eq (h : Nat) (data : List GV.Cons.HDI) :
    Fns.ar_count h (data.map ofHDI) = GV.Cons.arCount data := by
  unfold Fns.ar_count GV.Cons.arCount
  congr 1
  induction data with
  | nil => rfl
  | cons x xs ih =>
    simp only [List.map_cons, List.filter_cons, ofHDI_is_secondary]
    by_cases hx : x.isSec = true <;> simp [hx, ih]

example : Fns.ar_count 5 ([⟨1, 2, 3, true⟩, ⟨4, 5, 6, false⟩, ⟨7, 8, 9, true⟩].map ofHDI) = 200 := by decide

theorem scale_sum_eq (data : List GV.Cons.HDI) :
    List.foldl addW 0 (List.map (fun dd => dd.secondary_scaling) (data.map ofHDI))
      = GV.Cons.sumW (data.map (·.scaling)) := by
  simp [GV.Cons.sumW, List.map_map, Function.comp_def]

theorem diff_sum_eq (data : List GV.Cons.HDI) :
    List.foldl addW 0 (List.map (fun dd => Fns.Difficulty_to_num dd.difficulty) (data.map ofHDI))
      = GV.Cons.sumW (data.map (·.diff)) := by
  simp [GV.Cons.sumW, List.map_map, Function.comp_def, Fns.Difficulty_to_num]

/-- `secondary_pow_scaling` never panics (the damp/clamp factors are the non-zero constants 13 and 2,
the divisor is `max(1, ·)`) -/
theorem secondary_pow_scaling_ok (h : Nat) (l : List Fns.HeaderDifficultyInfo) :
    Fns.secondary_pow_scaling_ok h l = true := by
  have h1 : (AR_SCALE_DAMP_FACTOR != 0) = true := by decide
  have h2 : (CLAMP_FACTOR != 0) = true := by decide
  have h3 : ∀ x : Nat, (max 1 x != 0) = true := by
    intro x; have : max 1 x ≠ 0 := by omega
    simp [this]
  simp [Fns.secondary_pow_scaling_ok, XlateCons.secondary_pow_ratio_ok, Fns.damp_ok, Fns.clamp_ok, h1, h2, h3]

/-- `secondary_pow_scaling(height, diff_data)` for every height and list (wrapping sum and products,
`as u32` truncation of the result on both sides) -/
theorem secondary_pow_scaling_eq (h : Nat) (data : List GV.Cons.HDI) :
    GV.Cons.secondaryPowScaling h data
      = if Fns.secondary_pow_scaling_ok h (data.map ofHDI)
        then some (Fns.secondary_pow_scaling h (data.map ofHDI)) else none := by
  have h1 : (AR_SCALE_DAMP_FACTOR != 0) = true := by decide
  have h2 : (CLAMP_FACTOR != 0) = true := by decide
  rw [secondary_pow_scaling_ok]
  unfold GV.Cons.secondaryPowScaling Fns.secondary_pow_scaling
  simp only [damp_eq, clamp_eq, Fns.damp_ok, Fns.clamp_ok, h1, h2, if_true, scale_sum_eq, ar_count_eq,
    secondary_pow_ratio_eq, Fns.castN]

/-- the value without the `Option` wrapper -/
theorem secondary_pow_scaling_some (h : Nat) (data : List GV.Cons.HDI) :
    GV.Cons.secondaryPowScaling h data = some (Fns.secondary_pow_scaling h (data.map ofHDI)) := by
  rw [secondary_pow_scaling_eq, secondary_pow_scaling_ok]; rfl

example : Fns.secondary_pow_scaling 1000
    ([⟨1, 2, 1856, true⟩, ⟨1, 2, 1856, false⟩, ⟨1, 2, 1856, true⟩].map ofHDI) = 100 := by decide

/-! ## `difficulty_data_to_vector` -/

/-- the padding loop: whatever list is iterated (only its length matters), the translated `for` loop
appends the model's `padWindow` -/
theorem loop1_eq (ct : GV.Cons.ChainType) (delta diff : Nat) :
    ∀ (l : List Nat) (acc : List Fns.HeaderDifficultyInfo) (ts : Nat),
      (Fns.difficulty_data_to_vector_loop1 (ofCons ct) delta diff l acc ts).1
        = acc ++ (GV.Cons.padWindow ct delta diff l.length ts).map ofHDI := by
  intro l
  induction l with
  | nil => intro acc ts; simp [Fns.difficulty_data_to_vector_loop1, GV.Cons.padWindow]
  | cons x xs ih =>
    intro acc ts
    simp only [Fns.difficulty_data_to_vector_loop1, List.length_cons, GV.Cons.padWindow, ih,
      from_ts_diff_eq, List.map_cons, List.append_assoc, List.singleton_append]

theorem loop1_ok (c : Fns.ChainTypes) (delta diff : Nat) :
    ∀ (l : List Nat) (acc : List Fns.HeaderDifficultyInfo) (ts : Nat),
      Fns.difficulty_data_to_vector_loop1_ok c delta diff l acc ts = true := by
  intro l
  induction l with
  | nil => intro acc ts; rfl
  | cons x xs ih =>
    intro acc ts
    simp only [Fns.difficulty_data_to_vector_loop1_ok, Fns.HeaderDifficultyInfo_from_ts_diff_ok,
      initial_graph_weight_ok, ih, Bool.and_self]

theorem getLast_ts (a : GV.Cons.HDI) (l : List GV.Cons.HDI) (hne : l ≠ []) :
    (Fns.unwrapD (l.map ofHDI).getLast?).timestamp = (l.getLast?.getD a).ts := by
  obtain ⟨x, hx⟩ : ∃ x, l.getLast? = some x := by
    cases h : l.getLast? with
    | none => exact absurd (List.getLast?_eq_none_iff.mp h) hne
    | some x => exact ⟨x, rfl⟩
  rw [List.getLast?_map, hx]; rfl

theorem needed_eq : addW DMA_WINDOW 1 = 61 := by decide
theorem needed_eq' : DMA_WINDOW + 1 = 61 := by decide

/-- `global::difficulty_data_to_vector(cursor)` for every cursor: the panic on an empty cursor
(`last_n[0]`) and the padded, reversed window -/
theorem difficulty_data_to_vector_eq (ct : GV.Cons.ChainType) (cursor : List GV.Cons.HDI) :
    Option.map (List.map ofHDI) (GV.Cons.difficultyDataToVector ct cursor)
      = if Fns.difficulty_data_to_vector_ok (ofCons ct) (cursor.map ofHDI)
        then some (Fns.difficulty_data_to_vector (ofCons ct) (cursor.map ofHDI)) else none := by
  unfold GV.Cons.difficultyDataToVector Fns.difficulty_data_to_vector_ok Fns.difficulty_data_to_vector
  simp only [needed_eq, needed_eq', ← List.map_take, List.length_map, loop1_ok, loop1_eq,
    List.length_range']
  generalize List.take 61 cursor = L
  by_cases hl : 61 > L.length
  · cases L with
    | nil => simp
    | cons a r =>
      cases r with
      | nil => simp [Fns.idx, Fns.unwrapD]
      | cons b rest =>
        have hlast := getLast_ts a (b :: rest) (by simp)
        simp only [List.map_cons] at hlast
        simp only [hl, if_true, decide_true]
        simp [Fns.idx, hlast]
  · simp [hl]

/-- `difficulty_data_to_vector` panics exactly on the empty cursor -/
theorem difficulty_data_to_vector_ok_iff (ct : GV.Cons.ChainType) (cursor : List GV.Cons.HDI) :
    Fns.difficulty_data_to_vector_ok (ofCons ct) (cursor.map ofHDI) = true ↔ cursor ≠ [] := by
  have hv := difficulty_data_to_vector_eq ct cursor
  cases cursor with
  | nil => simp [Fns.difficulty_data_to_vector_ok, needed_eq]
  | cons a r =>
    have : ∃ d, GV.Cons.difficultyDataToVector ct (a :: r) = some d := by
      unfold GV.Cons.difficultyDataToVector
      simp only [needed_eq']
      split
      · exact ⟨_, rfl⟩
      · exact ⟨_, rfl⟩
    obtain ⟨d, hd⟩ := this
    rw [hd] at hv
    by_cases hok : Fns.difficulty_data_to_vector_ok (ofCons ct) (List.map ofHDI (a :: r)) = true
    · exact ⟨fun _ => by simp, fun _ => hok⟩
    · rw [if_neg hok] at hv; simp at hv

example : Fns.difficulty_data_to_vector_ok .Mainnet ([⟨100, 7, 3, false⟩, ⟨30, 5, 2, true⟩].map ofHDI) = true
    ∧ (Fns.difficulty_data_to_vector .Mainnet ([⟨100, 7, 3, false⟩, ⟨30, 5, 2, true⟩].map ofHDI)).length = 61
    ∧ (Fns.difficulty_data_to_vector .Mainnet ([⟨100, 7, 3, false⟩, ⟨30, 5, 2, true⟩].map ofHDI)).take 2
        = [ofHDI ⟨0, 7, 1856, true⟩, ofHDI ⟨0, 7, 1856, true⟩]
    ∧ (Fns.difficulty_data_to_vector .Mainnet ([⟨100, 7, 3, false⟩, ⟨30, 5, 2, true⟩].map ofHDI)).drop 59
        = [ofHDI ⟨30, 5, 2, true⟩, ofHDI ⟨100, 7, 3, false⟩]
    ∧ Fns.difficulty_data_to_vector_ok .Mainnet [] = false := by
  decide

/-! ## `next_wtema_difficulty` -/

/-- `next_wtema_difficulty(_height, cursor)` for every cursor: panics (`unwrap` of the first two
entries, division by the wrapped `WTEMA_HALF_LIFE - BLOCK_TIME_SEC + last_block_time = 0`) and values -/
theorem next_wtema_difficulty_eq (ct : GV.Cons.ChainType) (h : Nat) (cursor : List GV.Cons.HDI) :
    Option.map ofHDI (GV.Cons.nextWtemaDifficulty ct cursor)
      = if Fns.next_wtema_difficulty_ok (ofCons ct) h (cursor.map ofHDI)
        then some (Fns.next_wtema_difficulty (ofCons ct) h (cursor.map ofHDI)) else none := by
  unfold GV.Cons.nextWtemaDifficulty Fns.next_wtema_difficulty_ok Fns.next_wtema_difficulty
  match cursor with
  | [] => simp
  | [a] => simp
  | a :: b :: rest =>
    simp only [List.map_cons, List.head?_cons, List.tail_cons, Option.isSome_some, Bool.true_and,
      Fns.unwrapD, Option.getD_some, ofHDI_timestamp, ofHDI_difficulty, Fns.Difficulty_to_num,
      Difficulty_min_wtema_ok, Bool.and_true, Difficulty_min_wtema_eq, Difficulty_from_num_eq]
    by_cases hd : addW (subW WTEMA_HALF_LIFE BLOCK_TIME_SEC) (subW a.ts b.ts) = 0
    · simp [hd]
    · simp [hd, from_diff_scaling_eq]

example : Fns.next_wtema_difficulty_ok .AutomatedTesting 0 ([⟨120, 100, 0, true⟩, ⟨60, 1, 0, true⟩].map ofHDI) = true
    ∧ (Fns.next_wtema_difficulty .AutomatedTesting 0 ([⟨120, 100, 0, true⟩, ⟨60, 1, 0, true⟩].map ofHDI)).difficulty = 100
    ∧ (Fns.next_wtema_difficulty .AutomatedTesting 0 ([⟨180, 100, 0, true⟩, ⟨60, 1, 0, true⟩].map ofHDI)).difficulty = 99
    ∧ Fns.next_wtema_difficulty_ok .Mainnet 0 ([⟨0, 5, 0, true⟩, ⟨14340, 1, 0, true⟩].map ofHDI) = false := by
  decide

/-- exactly when `next_wtema_difficulty` returns: at least two entries and the wrapped divisor
`WTEMA_HALF_LIFE - BLOCK_TIME_SEC + (last.timestamp - prev.timestamp)` is non-zero (it is zero e.g.
for `last.timestamp = 0`, `prev.timestamp = 14340`, see the example above) -/
theorem next_wtema_difficulty_ok_iff (c : Fns.ChainTypes) (h : Nat) (cursor : List GV.Cons.HDI) :
    Fns.next_wtema_difficulty_ok c h (cursor.map ofHDI) = true ↔
      ∃ a b rest, cursor = a :: b :: rest ∧
        addW (subW WTEMA_HALF_LIFE BLOCK_TIME_SEC) (subW a.ts b.ts) ≠ 0 := by
  unfold Fns.next_wtema_difficulty_ok
  match cursor with
  | [] => simp
  | [a] => simp
  | a :: b :: rest =>
    simp only [Fns.unwrapD, Difficulty_min_wtema_ok, List.map_cons, List.head?_cons, List.tail_cons,
      Option.isSome_some, Option.getD_some, Bool.true_and, Bool.and_true, ofHDI_timestamp, bne_iff_ne]
    constructor
    · intro hne; exact ⟨a, b, rest, rfl, hne⟩
    · rintro ⟨a', b', rest', heq, hne⟩
      cases heq; exact hne

/-! ## `next_dma_difficulty`, `next_difficulty` -/

theorem idx_map {data : List GV.Cons.HDI} {i : Nat} {x : GV.Cons.HDI} (h : data[i]? = some x) :
    Fns.idx (data.map ofHDI) i = ofHDI x := by
  simp [Fns.idx, List.getD_eq_getElem?_getD, h]

/-- `next_dma_difficulty(height, cursor)` for every height and cursor: all panics (empty cursor, index
out of range, division by zero) and the value -/
theorem next_dma_difficulty_eq (ct : GV.Cons.ChainType) (h : Nat) (cursor : List GV.Cons.HDI) :
    Option.map ofHDI (GV.Cons.nextDmaDifficulty ct h cursor)
      = if Fns.next_dma_difficulty_ok (ofCons ct) h (cursor.map ofHDI)
        then some (Fns.next_dma_difficulty (ofCons ct) h (cursor.map ofHDI)) else none := by
  have hv := difficulty_data_to_vector_eq ct cursor
  have h1 : (DMA_DAMP_FACTOR != 0) = true := by decide
  have h2 : (CLAMP_FACTOR != 0) = true := by decide
  unfold GV.Cons.nextDmaDifficulty Fns.next_dma_difficulty_ok Fns.next_dma_difficulty
  cases hm : GV.Cons.difficultyDataToVector ct cursor with
  | none =>
    rw [hm] at hv
    by_cases hok : Fns.difficulty_data_to_vector_ok (ofCons ct) (cursor.map ofHDI) = true
    · rw [if_pos hok] at hv; simp at hv
    · simp [hok]
  | some data =>
    rw [hm] at hv
    by_cases hok : Fns.difficulty_data_to_vector_ok (ofCons ct) (cursor.map ofHDI) = true
    · rw [if_pos hok] at hv
      have hd : Fns.difficulty_data_to_vector (ofCons ct) (cursor.map ofHDI) = data.map ofHDI := by
        simpa using hv.symm
      simp only [hok, hd, Bool.true_and, ← List.map_drop, secondary_pow_scaling_ok, Bool.and_true,
        secondary_pow_scaling_some, List.length_map, Fns.damp_ok, Fns.clamp_ok, h1, h2, diff_sum_eq,
        damp_eq, clamp_eq, if_true, Difficulty_from_num_eq]
      by_cases hlen : DMA_WINDOW < data.length
      · have hhi : data[DMA_WINDOW]? = some data[DMA_WINDOW] := List.getElem?_eq_getElem hlen
        have h0 : 0 < data.length := by omega
        have hlo : data[0]? = some data[0] := List.getElem?_eq_getElem h0
        have h1' : 1 ≤ data.length := h0
        simp only [hhi, hlo, idx_map hhi, idx_map hlo, hlen, h0, h1', decide_true, Bool.true_and,
          ofHDI_timestamp, Bool.and_true]
        split
        · rename_i hz; simp [hz]
        · rename_i hz; simp [hz, from_diff_scaling_eq]
      · simp [hlen]
    · rw [if_neg hok] at hv; simp at hv

set_option maxRecDepth 8000 in
example : Fns.next_dma_difficulty_ok .Mainnet 1000 ([⟨1000, 700, 1856, false⟩, ⟨900, 500, 1856, true⟩].map ofHDI) = true
    ∧ (Fns.next_dma_difficulty .Mainnet 1000 ([⟨1000, 700, 1856, false⟩, ⟨900, 500, 1856, true⟩].map ofHDI)).difficulty = 917
    ∧ (Fns.next_dma_difficulty .Mainnet 1000 ([⟨1000, 700, 1856, false⟩, ⟨900, 500, 1856, true⟩].map ofHDI)).secondary_scaling = 1843
    ∧ Fns.next_dma_difficulty_ok .Mainnet 1000 [] = false := by
  decide

theorem padWindow_length (ct : GV.Cons.ChainType) (delta diff : Nat) :
    ∀ (k t : Nat), (GV.Cons.padWindow ct delta diff k t).length = k := by
  intro k
  induction k with
  | zero => intro t; rfl
  | succ k ih => intro t; simp [GV.Cons.padWindow, ih]

/-- a window that is returned at all has exactly `DMA_WINDOW + 1 = 61` entries -/
theorem ddtv_length {ct : GV.Cons.ChainType} {cursor data : List GV.Cons.HDI}
    (h : GV.Cons.difficultyDataToVector ct cursor = some data) : data.length = 61 := by
  unfold GV.Cons.difficultyDataToVector at h
  simp only [needed_eq'] at h
  have htl : (List.take 61 cursor).length ≤ 61 := by simp [List.length_take]; omega
  generalize List.take 61 cursor = L at h htl
  by_cases hl : 61 > L.length
  · simp only [hl, if_true] at h
    cases L with
    | nil => simp at h
    | cons a r =>
      simp only [Option.some.injEq] at h
      rw [← h]
      simp only [List.length_reverse, List.length_append, padWindow_length]
      omega
  · simp only [hl, if_false, Option.some.injEq] at h
    rw [← h, List.length_reverse]; omega

/-- `next_dma_difficulty` panics exactly on the empty cursor: for a non-empty cursor the window has 61
entries, the damp/clamp factors are non-zero constants and the clamped time span is at least
`BLOCK_TIME_WINDOW / CLAMP_FACTOR = 1800` -/
theorem next_dma_difficulty_ok_iff (ct : GV.Cons.ChainType) (h : Nat) (cursor : List GV.Cons.HDI) :
    Fns.next_dma_difficulty_ok (ofCons ct) h (cursor.map ofHDI) = true ↔ cursor ≠ [] := by
  constructor
  · intro hok
    unfold Fns.next_dma_difficulty_ok at hok
    simp only [Bool.and_eq_true] at hok
    exact (difficulty_data_to_vector_ok_iff ct cursor).mp hok.1
  · intro hne
    have hok := (difficulty_data_to_vector_ok_iff ct cursor).mpr hne
    have hv := difficulty_data_to_vector_eq ct cursor
    rw [if_pos hok] at hv
    cases hm : GV.Cons.difficultyDataToVector ct cursor with
    | none => rw [hm] at hv; simp at hv
    | some data =>
      rw [hm] at hv
      have hd : Fns.difficulty_data_to_vector (ofCons ct) (cursor.map ofHDI) = data.map ofHDI := by
        simpa using hv.symm
      have hlen := ddtv_length hm
      have h1 : (DMA_DAMP_FACTOR != 0) = true := by decide
      have h2 : (CLAMP_FACTOR != 0) = true := by decide
      have h3 : DMA_WINDOW < 61 := by decide
      have h4 : ∀ x, (Fns.clamp x BLOCK_TIME_WINDOW CLAMP_FACTOR != 0) = true := by
        intro x
        have hb : BLOCK_TIME_WINDOW / CLAMP_FACTOR = 1800 := by decide
        have : Fns.clamp x BLOCK_TIME_WINDOW CLAMP_FACTOR ≠ 0 := by
          unfold Fns.clamp; rw [hb]; omega
        simp [this]
      unfold Fns.next_dma_difficulty_ok
      simp [hok, hd, hlen, secondary_pow_scaling_ok, Fns.damp_ok, Fns.clamp_ok, h1, h2, h3, h4]

/-- hence the model's `nextDmaDifficulty` is `none` exactly on the empty cursor -/
theorem nextDmaDifficulty_isSome_iff (ct : GV.Cons.ChainType) (h : Nat) (cursor : List GV.Cons.HDI) :
    (GV.Cons.nextDmaDifficulty ct h cursor).isSome = true ↔ cursor ≠ [] := by
  rw [← next_dma_difficulty_ok_iff ct h cursor]
  have := next_dma_difficulty_eq ct h cursor
  by_cases hok : Fns.next_dma_difficulty_ok (ofCons ct) h (cursor.map ofHDI) = true
  · rw [if_pos hok] at this
    cases hm : GV.Cons.nextDmaDifficulty ct h cursor with
    | none => rw [hm] at this; simp at this
    | some v => simp [hok]
  · rw [if_neg hok] at this
    cases hm : GV.Cons.nextDmaDifficulty ct h cursor with
    | none => simp [hok]
    | some v => rw [hm] at this; simp at this

/-- `next_difficulty(height, cursor)` for every chain type, height and cursor: the era switch on
`header_version(height) < HeaderVersion(5)` and both branches -/
theorem next_difficulty_eq (ct : GV.Cons.ChainType) (h : Nat) (cursor : List GV.Cons.HDI) :
    Option.map ofHDI (GV.Cons.nextDifficulty ct h cursor)
      = if Fns.next_difficulty_ok (ofCons ct) h (cursor.map ofHDI)
        then some (Fns.next_difficulty (ofCons ct) h (cursor.map ofHDI)) else none := by
  unfold GV.Cons.nextDifficulty Fns.next_difficulty_ok Fns.next_difficulty
  simp only [header_version_ok, Bool.true_and, header_version_eq]
  by_cases hv : GV.Cons.headerVersion ct h < 5
  · simp only [hv, if_true, decide_true]
    exact next_dma_difficulty_eq ct h cursor
  · simp only [hv, if_false, decide_false]
    exact next_wtema_difficulty_eq ct h cursor

set_option maxRecDepth 8000 in
example : Fns.next_difficulty_ok .Mainnet 1000 ([⟨1000, 700, 1856, false⟩, ⟨900, 500, 1856, true⟩].map ofHDI) = true
    ∧ (Fns.next_difficulty .Mainnet 1000 ([⟨1000, 700, 1856, false⟩, ⟨900, 500, 1856, true⟩].map ofHDI)).difficulty = 917
    ∧ (Fns.next_difficulty .Mainnet 2000000 ([⟨1000, 70000, 1856, false⟩, ⟨900, 500, 1856, true⟩].map ofHDI)).difficulty = 69806
    ∧ Fns.next_difficulty_ok .Mainnet 2000000 ([⟨1000, 70000, 1856, false⟩].map ofHDI) = false
    ∧ Fns.next_difficulty_ok .Mainnet 1000 ([⟨1000, 70000, 1856, false⟩].map ofHDI) = true := by
  decide

/-! ## chain-type dependent sync parameters (`global.rs`)

No hand model defines these as functions (`Model/CrashCompact.lean` takes `horizon thr ivl` as
parameters; the driver passes the AutomatedTesting values 20, 20, 10), so the closed form per chain
type is stated directly. -/

theorem cut_through_horizon_eq (ct : GV.Cons.ChainType) :
    Fns.cut_through_horizon (ofCons ct) = match ct with
      | .automatedTesting => AUTOMATED_TESTING_CUT_THROUGH_HORIZON
      | .userTesting => USER_TESTING_CUT_THROUGH_HORIZON
      | .testnet => CUT_THROUGH_HORIZON
      | .mainnet => CUT_THROUGH_HORIZON := by
  cases ct <;> rfl

theorem state_sync_threshold_eq (ct : GV.Cons.ChainType) :
    Fns.state_sync_threshold (ofCons ct) = match ct with
      | .automatedTesting => TESTING_STATE_SYNC_THRESHOLD
      | .userTesting => TESTING_STATE_SYNC_THRESHOLD
      | .testnet => STATE_SYNC_THRESHOLD
      | .mainnet => STATE_SYNC_THRESHOLD := by
  cases ct <;> rfl

theorem txhashset_archive_interval_eq (ct : GV.Cons.ChainType) :
    Fns.txhashset_archive_interval (ofCons ct) = match ct with
      | .automatedTesting => 10
      | .userTesting => 10
      | .testnet => 720
      | .mainnet => 720 := by
  cases ct <;> rfl

/-- the values the crash-recovery driver (`Drv/CrashD.lean`, compaction model) uses for
AutomatedTesting, and the mainnet values -/
theorem sync_params_values :
    Fns.cut_through_horizon .AutomatedTesting = 20 ∧ Fns.state_sync_threshold .AutomatedTesting = 20
    ∧ Fns.txhashset_archive_interval .AutomatedTesting = 10
    ∧ Fns.cut_through_horizon .Mainnet = 10080 ∧ Fns.state_sync_threshold .Mainnet = 2880
    ∧ Fns.txhashset_archive_interval .Mainnet = 720 ∧ Fns.cut_through_horizon .UserTesting = 70 := by
  decide

end GV.Props.XlateDiff
