import GrinVerif.Lemmas.ChainInputs
import GrinVerif.Lemmas.ChainMoreExamples
/-! # C02, inputs in the features-and-commit form (protocol version 2 / JSON): an input spends an
existing unspent output only if it names it by its FULL identifier — features and commitment.
(`UTXOView::validate_inputs`, chain/src/txhashset/utxo_view.rs; model: `Model/ChainInputs.lean`) -/
namespace GV.Props.C02Inputs
open GV GV.Chain

/-- **Block level.** A block one of whose inputs claims the wrong features for the output it names
(plain for a coinbase, coinbase for a plain output) is refused by every node in every state; head,
stored blocks and the reported unspent set are unchanged. -/
theorem wrong_input_features_block_refused (p : Params) (n : Node) (outs : List OutDef) (b : Blk)
    (inf : List (Nat × Bool)) (h : featMismatch outs inf = true) :
    Refused p n (b.withInputFeatures outs inf) :=
  refused_of_featMismatch p n outs b inf h

/-- **Transaction / pool level** (`Chain::validate_inputs`, `Chain::validate_tx`): a list of
inputs is accepted iff every input names an output that is unspent in the state **and**, where the
input carries a claim about the features, the claim is the flag of that unspent output. A wrong
claim about an existing unspent commitment is a refusal; the checks are pure (no state to change). -/
theorem inputs_accepted_iff (s : UState) (l : List (Nat × Option Bool)) :
    validateInputsFC s l = none ↔
      ∀ x ∈ l, ∃ u, s.find x.1 = some u ∧ ∀ f, x.2 = some f → f = u.2.2 :=
  validateInputsFC_none_iff s l

theorem tx_with_wrong_input_features_refused (s : UState) (t : TxA) (l : List (Nat × Option Bool))
    (i : Nat) (f : Bool) (u : Nat × Nat × Bool) (hm : (i, some f) ∈ l) (hu : s.find i = some u)
    (hf : f ≠ u.2.2) : txValidateFC s t l ≠ none := by
  intro h
  unfold txValidateFC at h
  split at h
  · cases h
  · cases hv : validateInputsFC s l with
    | some e => rw [hv] at h; cases h
    | none =>
      obtain ⟨u', hu', hc⟩ := (validateInputsFC_none_iff s l).mp hv _ hm
      rw [hu] at hu'
      cases hu'
      exact hf (hc f rfl)

/-! ## non-vacuity (tree of `Lemmas/ChainMoreExamples.lean`, state of b1) -/
section Examples
open GV.Chain.Ex2

example : featMismatch Ex2.outs [(100, true)] = true := by decide
example : Refused Ex2.P NB (Ex2.B2.withInputFeatures Ex2.outs [(100, true)]) :=
  wrong_input_features_block_refused Ex2.P NB Ex2.outs Ex2.B2 [(100, true)] (by decide)
-- `inputs_accepted_iff` / `tx_with_wrong_input_features_refused` on the state of b1
example : validateInputsFC { utxo := [(100, 0, false), (121, 1, true)], nrd := [], height := 1 }
    [(100, some false), (121, none), (121, some true)] = none := by decide
example : txValidateFC { utxo := [(100, 0, false), (121, 1, true)], nrd := [], height := 1 }
    { ins := [121], outs := [140], kers := [.plain 1] } [(121, some false)] ≠ none :=
  tx_with_wrong_input_features_refused _ _ _ 121 false (121, 1, true) (by decide) (by decide) (by decide)


end Examples
end GV.Props.C02Inputs
