import GrinVerif.Lemmas.StoreFiles
import GrinVerif.Lemmas.PruneListInv
import GrinVerif.Lemmas.PmmrCoord
import GrinVerif.Model.StoreExt
/-! C08: closed forms at the edges of compaction's leaf selection (`store/src/leaf_set.rs`
`unpruned_pre_cutoff`, `removed_pre_cutoff`) and the prune list's shift caches rebuilt vs maintained
(`store/src/prune_list.rs` `init_caches` vs `append`). -/
namespace GV.Props.C08Cutoff
open GV GV.Pmmr GV.Store GV.Pmmr.Co

/-- **unpruned_pre_cutoff** in closed form: the 1-based leaf positions `1..=cutoff` that the prune
list does not prune (whatever the MMR size is - the function does not know it) -/
theorem unpruned_pre_cutoff_iff (cutoff : Nat) (pl : PruneList) (x : Nat) :
    x ∈ LeafSet.unprunedPreCutoff cutoff pl ↔
      1 ≤ x ∧ x ≤ cutoff ∧ isLeaf (x - 1) = true ∧ pl.isPruned (x - 1) = false := by
  unfold LeafSet.unprunedPreCutoff
  simp only [List.mem_filter, List.mem_range', Bool.and_eq_true, Bool.not_eq_true']
  constructor
  · rintro ⟨⟨i, hi, rfl⟩, h1, h2⟩
    exact ⟨by omega, by omega, h1, h2⟩
  · rintro ⟨h1, h2, h3, h4⟩
    exact ⟨⟨x - 1, by omega, by omega⟩, h3, h4⟩

/-- **removed_pre_cutoff** in closed form, for EVERY leaf set, cutoff, `rewind_rm_pos` and prune
list: exactly the 1-based leaf positions at or below the cutoff that are not pruned yet, not in the
leaf set and not in `rewind_rm_pos` -/
theorem removed_pre_cutoff_iff (ls : LeafSet) (cutoff : Nat) (rm : Bitmap) (pl : PruneList) (x : Nat) :
    x ∈ ls.removedPreCutoff cutoff rm pl ↔
      1 ≤ x ∧ x ≤ cutoff ∧ x ∉ ls.bitmap ∧ x ∉ rm ∧ isLeaf (x - 1) = true ∧ pl.isPruned (x - 1) = false := by
  constructor
  · exact LeafSet.mem_removedPreCutoff
  · rintro ⟨h1, h2, h3, h4, h5, h6⟩
    unfold LeafSet.removedPreCutoff
    rw [LeafSet.mem_and, LeafSet.mem_flip]
    refine ⟨Or.inr ⟨h1, by omega, ?_⟩, (unpruned_pre_cutoff_iff cutoff pl x).2 ⟨h1, h2, h5, h6⟩⟩
    rw [mem_or, mem_removeRange]
    rintro (⟨hm, _⟩ | hm)
    · exact h3 hm
    · exact h4 hm

/-- cutoff 0: nothing is removed, whatever the leaf set and the prune list hold -/
theorem removed_pre_cutoff_zero (ls : LeafSet) (rm : Bitmap) (pl : PruneList) :
    ls.removedPreCutoff 0 rm pl = [] := by
  apply List.eq_nil_iff_forall_not_mem.2
  intro x hx
  have := (removed_pre_cutoff_iff ls 0 rm pl x).1 hx
  omega

/-- cutoff on the LAST position of the MMR (`cutoff = size`, the boundary ends in a lone leaf): that
leaf is removed iff it is spent, not protected by `rewind_rm_pos` and not pruned yet -/
theorem removed_pre_cutoff_last (ls : LeafSet) (size : Nat) (rm : Bitmap) (pl : PruneList)
    (hs : 1 ≤ size) (hleaf : isLeaf (size - 1) = true) :
    size ∈ ls.removedPreCutoff size rm pl ↔
      size ∉ ls.bitmap ∧ size ∉ rm ∧ pl.isPruned (size - 1) = false := by
  rw [removed_pre_cutoff_iff]
  constructor
  · rintro ⟨_, _, a, b, _, c⟩; exact ⟨a, b, c⟩
  · rintro ⟨a, b, c⟩; exact ⟨hs, Nat.le_refl _, a, b, hleaf, c⟩

/-- **a cutoff BEYOND the MMR selects positions that do not exist**: every position `size < x <= cutoff`
of leaf height that is not in `rewind_rm_pos` is handed to the new prune list (it is in no leaf
set and under no pruned root).  `check_compact` has no guard of its own - the chain passes the
`output_mmr_size` of a block on the chain, and `compact_preserves` is stated for `cutoff <= size`. -/
theorem removed_pre_cutoff_beyond_size (ls : LeafSet) (size cutoff : Nat) (rm : Bitmap) (pl : PruneList)
    (hls : ∀ y ∈ ls.bitmap, y ≤ size) (x : Nat) (h1 : size < x) (h2 : x ≤ cutoff)
    (hleaf : isLeaf (x - 1) = true) (hrm : x ∉ rm) (hp : pl.isPruned (x - 1) = false) :
    x ∈ ls.removedPreCutoff cutoff rm pl := by
  rw [removed_pre_cutoff_iff]
  refine ⟨by omega, h2, ?_, hrm, hleaf, hp⟩
  intro hm
  have := hls x hm
  omega

/-- **shift caches: rebuilt = maintained.**  For every history of appends (any positions, any
order the assertion allows or not - the model's `append`), the list with its incrementally
maintained `shift_cache` / `leaf_shift_cache` is a fixed point of `init_caches` (both caches rebuilt
from the bitmap), and `PruneList::open` of its flushed bitmap gives it back. -/
theorem caches_rebuilt_eq_incremental (ps : List Nat) :
    let pl := ps.foldl PruneList.append {}
    pl.initCaches = pl ∧ PruneList.openBm pl.bitmap = pl := by
  intro pl
  have hinv : pl.Inv := by
    show (ps.foldl PruneList.append {}).Inv
    have : ∀ (l : List Nat) (p : PruneList), p.Inv → (l.foldl PruneList.append p).Inv := by
      intro l
      induction l with
      | nil => intro p h; exact h
      | cons a r ih => intro p h; exact ih _ (PruneList.append_inv h a)
    exact this ps {} PruneList.inv_empty
  have h2 := PruneList.openBm_of_inv hinv
  refine ⟨?_, h2⟩
  have h3 := PruneList.new_of_inv pl.bitmap pl hinv rfl
  unfold PruneList.openBm at h2
  rw [h3] at h2
  exact h2

/-! ### `clean_rewind_files` -/

/-- **what compaction's clean-up may delete**: only entries that are not directories, were last
accessed more than 24 h ago and whose name starts with `pmmr_leaf.bin.` and is longer than that
prefix (the leaf-set snapshots `pmmr_leaf.bin.<header hash>`).  None of `pmmr_hash.bin`,
`pmmr_data.bin`, `pmmr_size.bin`, `pmmr_leaf.bin`, `pmmr_prun.bin` has that prefix (run `varopen`,
clean-up probe: all of them, aged 48 h, survive on the code; the model's list of deleted names is
compared). -/
theorem clean_rewind_files_deletes_only_old_snapshots (ents : List DirEnt) (n : String)
    (h : n ∈ cleanRewindFiles ents) :
    ∃ e ∈ ents, e.name = n ∧ e.isDir = false ∧ (∃ a, e.age = some a ∧ a > 86400) ∧
      n.startsWith (PMMR_LEAF_FILE ++ ".") = true ∧ n.length > (PMMR_LEAF_FILE ++ ".").length := by
  unfold cleanRewindFiles at h
  obtain ⟨e, he, rfl⟩ := List.mem_map.1 h
  obtain ⟨hmem, hd⟩ := List.mem_filter.1 he
  unfold cleanDeletes at hd
  simp only [Bool.and_eq_true, decide_eq_true_eq, Bool.not_eq_true'] at hd
  obtain ⟨⟨⟨h1, h2⟩, h3⟩, h4⟩ := hd
  refine ⟨e, hmem, rfl, h1, ?_, h3, h4⟩
  cases ha : e.age with
  | none => rw [ha] at h2; exact absurd h2 (by simp)
  | some a =>
    rw [ha] at h2
    exact ⟨a, rfl, by simpa [REWIND_FILE_CLEANUP_DURATION_SECONDS] using h2⟩

/-- non-vacuity: cutoff 5 beyond an MMR of size 3 with nothing spent: position 4 (the next leaf
position) would be "removed" -/
example : (4 : Nat) ∈ ({ bitmap := [1, 2] } : LeafSet).removedPreCutoff 5 [] {} := by
  apply removed_pre_cutoff_beyond_size _ 3 5 [] {} (by simp) 4 (by omega) (by omega)
  · have h : height 3 = 0 := by simpa [mmr, popcount] using height_co 2 0 (Nat.zero_le _)
    simp [isLeaf, h]
  · simp
  · simp [PruneList.isPruned, PruneList.isPrunedRoot, Bm.contains, Bm.select, Bm.rank]

end GV.Props.C08Cutoff
