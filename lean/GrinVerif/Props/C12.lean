import GrinVerif.Lemmas.TxNormal
/-! # C12 — aggregation, cut-through and compact-block hydration are faithful

Property theorems only (helper lemmas live in `Lemmas/Tx*.lean`); the model is
`Model/Tx.lean`.  Multisets are lists up to permutation, stated through `List.count` and `~`.
Conventions: inputs are commitment ids, outputs / kernels are codes `2*id + coinbase-flag`,
`K : Keys` are the hash orders handed over by the harness.

Definitions used in the statements (in `Lemmas/TxNormal.lean`): `KInj K` — the three hash orders
are injective (collision resistance, as a hypothesis on the data); `Normal K t` — `t` is a fixed
point of the general path of `aggregate` (what `validate_read` + a valid offset give, see
`normal_of_wf`); `Plain t` — no coinbase output / kernel (`verify_features`); `WF K t` — sorted,
duplicate-free, no self-spend, offset `< N`; `AllRel R groups ts` — `ts` are the group results;
`allIns/allOuts/allKers/allOffs` — concatenation over a list of transactions. -/
namespace GV.Props.C12
open GV GV.Tx GV.Tx.Ex List

/-! ## cut-through = truncated multiset difference -/

/-- **`cut_through` is the multiset spec** (arbitrary lists, duplicates allowed, no sortedness
assumed — the function sorts itself).  Per commitment `c`: the kept inputs carry `c` exactly
`#I(c) − #O(c)` times, the kept outputs `#O(c) − #I(c)` times, the cut slices `min` times. -/
theorem cutThrough_count {ca cb ka kb : Nat → Nat} {ins outs : List Nat} {r : Cut}
    (h : cutThrough ca cb ka kb ins outs = .ok r) (c : Nat) :
    (r.ins.map ca).count c = (ins.map ca).count c - (outs.map cb).count c ∧
    (r.outs.map cb).count c = (outs.map cb).count c - (ins.map ca).count c ∧
    (r.cutIns.map ca).count c = min ((ins.map ca).count c) ((outs.map cb).count c) ∧
    (r.cutOuts.map cb).count c = min ((ins.map ca).count c) ((outs.map cb).count c) := by
  rw [cutThrough_eq] at h
  split at h; · cases h
  split at h; · cases h
  cases h
  have m := merged_count ca cb ins outs c
  have k : (merged ca cb ins outs).cutIns.map ca = (merged ca cb ins outs).cutOuts.map cb :=
    cutMerge_cut_keys ca cb _ _
  refine ⟨?_, ?_, ?_, ?_⟩
  · rw [((sortBy_perm ka _).map ca).count_eq]; exact m.1
  · rw [((sortBy_perm kb _).map cb).count_eq]; exact m.2.1
  · rw [((sortBy_perm ka _).map ca).count_eq]; exact m.2.2
  · rw [((sortBy_perm kb _).map cb).count_eq, ← k]; exact m.2.2

/-- nothing is invented or lost: kept ++ cut is a permutation of what was handed in, on both
sides, and the two cut slices are the *matched pairs* (same commitments). -/
theorem cutThrough_partition {ca cb ka kb : Nat → Nat} {ins outs : List Nat} {r : Cut}
    (h : cutThrough ca cb ka kb ins outs = .ok r) :
    (r.ins ++ r.cutIns ~ ins) ∧ (r.outs ++ r.cutOuts ~ outs) ∧ (r.cutIns.map ca ~ r.cutOuts.map cb) := by
  rw [cutThrough_eq] at h
  split at h; · cases h
  split at h; · cases h
  cases h
  have p := merged_perm ca cb ins outs
  have k : (merged ca cb ins outs).cutIns.map ca = (merged ca cb ins outs).cutOuts.map cb :=
    cutMerge_cut_keys ca cb _ _
  refine ⟨?_, ?_, ?_⟩
  · exact ((sortBy_perm ka _).append (sortBy_perm ka _)).trans p.1
  · exact ((sortBy_perm kb _).append (sortBy_perm kb _)).trans p.2
  · exact ((sortBy_perm ka _).map ca).trans (k ▸ ((sortBy_perm kb _).map cb).symm)

/-- all four returned slices are in the element order (`sort_unstable()`), and the kept slices
are duplicate-free when the hash order is injective. -/
theorem cutThrough_sorted {ca cb ka kb : Nat → Nat} {ins outs : List Nat} {r : Cut}
    (h : cutThrough ca cb ka kb ins outs = .ok r) :
    r.ins.Pairwise (KeyLe ka) ∧ r.outs.Pairwise (KeyLe kb) ∧
    r.cutIns.Pairwise (KeyLe ka) ∧ r.cutOuts.Pairwise (KeyLe kb) := by
  rw [cutThrough_eq] at h
  split at h; · cases h
  split at h; · cases h
  cases h
  exact ⟨sortBy_sorted _ _, sortBy_sorted _ _, sortBy_sorted _ _, sortBy_sorted _ _⟩

/-- **cut-through preserves the balance**: for every valuation of commitments (value, blinding
factor, the commitment itself in the group — anything additive; natural numbers here so that no
subtraction is needed), `Σ kept outputs + Σ inputs = Σ outputs + Σ kept inputs`. Hence the sum
equation `Σ out − Σ in = Σ excess + offset·G` of the operands carries over to the aggregate. -/
theorem cutThrough_balance {ca cb ka kb : Nat → Nat} {ins outs : List Nat} {r : Cut}
    (h : cutThrough ca cb ka kb ins outs = .ok r) (val : Nat → Nat) :
    ((r.outs.map cb).map val).sum + ((ins.map ca).map val).sum =
      ((outs.map cb).map val).sum + ((r.ins.map ca).map val).sum := by
  obtain ⟨p1, p2, p3⟩ := cutThrough_partition h
  have e1 := ((p1.map ca).map val).sum_nat
  have e2 := ((p2.map cb).map val).sum_nat
  have e3 := (p3.map val).sum_nat
  simp only [map_append, sum_append] at e1 e2
  omega

/-- **errors iff the spec result has a duplicate**: with injective hash orders, `cut_through`
fails (always with `CutThrough`) exactly when some input is left over twice or some output is
left over twice after removing the matched pairs. Stated for inputs that are their own
commitment (`ca = id`, the `CommitWrapper` case) and outputs that do not share commitments. -/
theorem cutThrough_error_iff {cb ka kb : Nat → Nat} {ins outs : List Nat}
    (ia : InjOn ka ins) (ib : InjOn kb outs) (ic : InjOn cb outs) :
    (∃ e, cutThrough id cb ka kb ins outs = .error e) ↔
      (∃ x, 2 ≤ ins.count x - (outs.map cb).count x) ∨ (∃ o, 2 ≤ outs.count o - ins.count (cb o)) := by
  have ia' : InjOn ka (merged id cb ins outs).ins := ia.of_subset (fun a ha => mem_merged_ins ha)
  have ib' : InjOn kb (merged id cb ins outs).outs := ib.of_subset (fun a ha => mem_merged_outs ha)
  have dI := adjDup_sortBy ia'
  have dO := adjDup_sortBy ib'
  have nI : (merged id cb ins outs).ins.Nodup ↔ ∀ x, ins.count x - (outs.map cb).count x ≤ 1 := by
    rw [nodup_iff_count]
    exact forall_congr' (fun x => by rw [merged_ins_count])
  have nO : (merged id cb ins outs).outs.Nodup ↔ ∀ o, outs.count o - ins.count (cb o) ≤ 1 := by
    rw [nodup_iff_count]
    exact forall_congr' (fun o => by rw [merged_outs_count cb ins outs ic])
  rw [cutThrough_eq]
  constructor
  · rintro ⟨e, h⟩
    split at h
    · rename_i hd
      left
      have : ¬ (merged id cb ins outs).ins.Nodup := fun nd => by
        have := dI.2 nd; rw [this] at hd; cases hd
      rw [nI] at this
      obtain ⟨x, hx⟩ := Classical.not_forall.1 this
      exact ⟨x, by omega⟩
    · split at h
      · rename_i _ hd
        right
        have : ¬ (merged id cb ins outs).outs.Nodup := fun nd => by
          have := dO.2 nd; rw [this] at hd; cases hd
        rw [nO] at this
        obtain ⟨o, ho⟩ := Classical.not_forall.1 this
        exact ⟨o, by omega⟩
      · cases h
  · rintro (⟨x, hx⟩ | ⟨o, ho⟩)
    · have : ¬ (merged id cb ins outs).ins.Nodup := fun nd => by
        have := nI.1 nd x; omega
      have hd : adjDup (sortBy ka (merged id cb ins outs).ins) = true := by
        cases hh : adjDup (sortBy ka (merged id cb ins outs).ins)
        · exact absurd (dI.1 hh) this
        · rfl
      exact ⟨.cutThrough, by rw [if_pos hd]⟩
    · have : ¬ (merged id cb ins outs).outs.Nodup := fun nd => by
        have := nO.1 nd o; omega
      have hd : adjDup (sortBy kb (merged id cb ins outs).outs) = true := by
        cases hh : adjDup (sortBy kb (merged id cb ins outs).outs)
        · exact absurd (dO.1 hh) this
        · rfl
      refine ⟨.cutThrough, ?_⟩
      split <;> rfl

-- non-vacuity: the example of the Rust doc comment, inputs [A,B,C], outputs [C,D,E]
example : cutThrough id id id id [0, 1, 2] [2, 3, 4] = .ok ⟨[0, 1], [3, 4], [2], [2]⟩ := by
  simp [cutThrough, sortBy, cutMerge, adjDup, List.mergeSort, List.MergeSort.Internal.splitInTwo]
-- a double spend of an output that is created once: one copy is cut, one is kept (no error)
example : cutThrough id id id id [5, 5] [5] = .ok ⟨[5], [], [5], [5]⟩ := by
  simp [cutThrough, sortBy, cutMerge, adjDup, List.mergeSort, List.MergeSort.Internal.splitInTwo]
-- a plain double spend is an error
example : cutThrough id id id id [5, 5] [] = .error .cutThrough := by
  simp [cutThrough, sortBy, cutMerge, adjDup, List.mergeSort, List.MergeSort.Internal.splitInTwo]


/-! ## aggregation -/

/-- the two shortcuts of `aggregate`: nothing ↦ the empty transaction, one transaction ↦ itself,
unchanged and unchecked -/
theorem aggregate_shortcuts (K : Keys) (t : Tx) :
    aggregate K [] = .ok Tx.empty ∧ aggregate K [t] = .ok t := ⟨rfl, rfl⟩

/-- **`aggregate` is the multiset spec** (two or more operands): commit-only inputs; kernels are
the union of the operands' kernels; inputs / outputs are the unions minus exactly the matched spend
pairs (truncated multiset difference per commitment; element-wise for outputs when no two
outputs share a commitment); everything in hash order; the offset is the sum of the operands'
offsets modulo the group order (`to_secrets` drops zero offsets and byte strings that are not
scalars) — also when that sum is zero. -/
theorem aggregate_spec {K : Keys} {txs : List Tx} {t : Tx} (h2 : 2 ≤ txs.length)
    (h : aggregate K txs = .ok t) :
    t.v2 = false ∧
    (t.kernels ~ allKers txs) ∧
    (∀ x, t.inputs.count x = (allIns K txs).count x - ((allOuts txs).map outCommit).count x) ∧
    (∀ c, (t.outputs.map outCommit).count c = ((allOuts txs).map outCommit).count c - (allIns K txs).count c) ∧
    (InjOn outCommit (allOuts txs) →
      ∀ o, t.outputs.count o = (allOuts txs).count o - (allIns K txs).count (outCommit o)) ∧
    t.inputs.Pairwise (KeyLe K.ik) ∧ t.outputs.Pairwise (KeyLe K.ok) ∧ t.kernels.Pairwise (KeyLe K.kk) ∧
    t.offset = (toSecrets (allOffs txs)).sum % N := by
  rw [aggregate_of_two_le K h2] at h
  obtain ⟨_, _, ho, hv, hi, hout, hk⟩ := aggregateFull_ok h
  have hc := aggregateFull_counts h
  refine ⟨hv, ?_, ?_, ?_, ?_, ?_, ?_, ?_, ?_⟩
  · rw [hk]; exact sortBy_perm _ _
  · intro x; rw [← Tx.inputsCO_of_not_v2 K hv]; exact (hc x).1
  · intro c; exact (hc c).2
  · intro inj o
    rw [hout, count_sortBy, merged_outs_count _ _ _ inj]
  · rw [hi]; exact sortBy_sorted _ _
  · rw [hout]; exact sortBy_sorted _ _
  · rw [hk]; exact sortBy_sorted _ _
  · exact (sumKernelOffsets_ok ho).2

/-- … in particular, for operands whose offsets are valid scalars the offset of the aggregate is
the sum of the offsets (mod n). -/
theorem aggregate_offset_sum {K : Keys} {txs : List Tx} {t : Tx} (h2 : 2 ≤ txs.length)
    (h : aggregate K txs = .ok t) (hlt : ∀ x ∈ allOffs txs, x < N) :
    t.offset = (allOffs txs).sum % N := by
  rw [(aggregate_spec h2 h).2.2.2.2.2.2.2.2, toSecrets_sum_of_lt hlt]

/-- **offsets that cancel give the zero offset**: operands whose offsets are valid scalars summing
to zero modulo the group order (e.g. `x` and `n − x`) aggregate to a transaction with offset 0.
(Before the repair of `sum_kernel_offsets` the code refused them with `Secp(InvalidSecretKey)`.) -/
theorem aggregate_offsets_cancel {K : Keys} {txs : List Tx} {t : Tx} (h2 : 2 ≤ txs.length)
    (h : aggregate K txs = .ok t) (hlt : ∀ x ∈ allOffs txs, x < N) (hz : (allOffs txs).sum % N = 0) :
    t.offset = 0 := by
  rw [aggregate_offset_sum h2 h hlt, hz]

/-- **the only error of `aggregate` is `CutThrough`**: no operand list, whatever its offsets,
makes the offset sum fail. -/
theorem aggregate_error_cutThrough {K : Keys} {txs : List Tx} {e : Err} (h : aggregate K txs = .error e) :
    e = .cutThrough := by
  match txs, h with
  | [], h => cases h
  | [_], h => cases h
  | a :: b :: l, h =>
    rw [aggregate_of_two_le K (by simp), aggregateFull_eq, sumKernelOffsets_nil] at h
    split at h
    · cases h; rfl
    · split at h
      · cases h; rfl
      · cases h

/-- **when does `aggregate` fail** (two or more operands, injective hash orders, no two outputs
sharing a commitment): exactly when an input is left over twice after cut-through (double
spend) or an output is left over twice. The offsets play no role. -/
theorem aggregate_error_iff {K : Keys} {txs : List Tx} (h2 : 2 ≤ txs.length) (kinj : KInj K)
    (ic : InjOn outCommit (allOuts txs)) :
    (∃ e, aggregate K txs = .error e) ↔
      (∃ x, 2 ≤ (allIns K txs).count x - ((allOuts txs).map outCommit).count x) ∨
      (∃ o, 2 ≤ (allOuts txs).count o - (allIns K txs).count (outCommit o)) := by
  have ce := cutThrough_error_iff (ka := K.ik) (kb := K.ok) (kinj.ik (allIns K txs)) (kinj.ok (allOuts txs)) ic
  rw [aggregate_of_two_le K h2]
  have unfold : aggregateFull K txs =
      match cutThrough id outCommit K.ik K.ok (allIns K txs) (allOuts txs) with
      | .error e => .error e
      | .ok r => match sumKernelOffsets (allOffs txs) [] with
        | .error e => .error e
        | .ok off => .ok ⟨off, false, sortBy K.ik r.ins, sortBy K.ok r.outs, sortBy K.kk (allKers txs)⟩ := rfl
  rw [unfold, ← ce]
  rcases hc : cutThrough id outCommit K.ik K.ok (allIns K txs) (allOuts txs) with e | r
  · simp
  · simp [sumKernelOffsets_nil]

/-- **aggregating conflict-free transactions always succeeds**: if after removing the matched spend
pairs no input and no output is left over twice, `aggregate` returns a transaction — for every
choice of offsets, including offsets that cancel. -/
theorem aggregate_succeeds {K : Keys} {txs : List Tx} (kinj : KInj K)
    (ic : InjOn outCommit (allOuts txs))
    (hI : ∀ x, (allIns K txs).count x - ((allOuts txs).map outCommit).count x ≤ 1)
    (hO : ∀ o, (allOuts txs).count o - (allIns K txs).count (outCommit o) ≤ 1) :
    ∃ t, aggregate K txs = .ok t := by
  match txs, ic, hI, hO with
  | [], _, _, _ => exact ⟨_, rfl⟩
  | [t], _, _, _ => exact ⟨_, rfl⟩
  | a :: b :: l, ic, hI, hO =>
    rcases h : aggregate K (a :: b :: l) with e | t
    · rcases (aggregate_error_iff (by simp) kinj ic).1 ⟨e, h⟩ with ⟨x, hx⟩ | ⟨o, ho⟩
      · have := hI x; omega
      · have := hO o; omega
    · exact ⟨t, rfl⟩

/-- **the aggregate of valid transactions is (structurally) valid**: whenever two or more
coinbase-free transactions with pairwise different kernels aggregate — i.e. whenever they are
conflict-free, `aggregate_succeeds`; the offsets play no role — the result passes
`Transaction::validate_read`: inputs, outputs and kernels in hash order and duplicate-free, no input
spending an output of the same transaction (`verify_cut_through`), no coinbase output or kernel.
(The cryptographic part of `validate()` — range proofs, signatures, kernel sums — is evaluated on
the real code by the harness; its arithmetic core is `cutThrough_balance`.) -/
theorem aggregate_valid {K : Keys} {txs : List Tx} {t : Tx} (h2 : 2 ≤ txs.length) (kinj : KInj K)
    (hp : ∀ t ∈ txs, Plain t) (ndK : (allKers txs).Nodup) (h : aggregate K txs = .ok t) :
    validateRead K t = none := by
  rw [aggregate_of_two_le K h2] at h
  obtain ⟨d1, d2, _, hv, hi, hout, hk⟩ := aggregateFull_ok h
  have hc := aggregateFull_counts h
  have ndMI := (adjDup_sortBy (kinj.ik (merged id outCommit (allIns K txs) (allOuts txs)).ins)).1 d1
  have ndMO := (adjDup_sortBy (kinj.ok (merged id outCommit (allIns K txs) (allOuts txs)).outs)).1 d2
  have ndI : t.inputs.Nodup := by rw [hi]; exact (sortBy_perm _ _).nodup_iff.2 ndMI
  have ndO : t.outputs.Nodup := by rw [hout]; exact (sortBy_perm _ _).nodup_iff.2 ndMO
  have subO : ∀ o ∈ t.outputs, o ∈ allOuts txs := fun o ho => by
    rw [hout, mem_sortBy] at ho; exact mem_merged_outs ho
  have plO : ∀ o ∈ t.outputs, isCoinbase o = false := fun o ho => plain_allOuts hp o (subO o ho)
  have plK : ∀ k ∈ t.kernels, isCoinbase k = false := fun k hk' => by
    rw [hk, mem_sortBy] at hk'; exact plain_allKers hp k hk'
  have sI : sortedUnique K.ik t.inputs = none := by rw [hi]; exact sortedUnique_none (sortBy_sorted _ _) d1
  have sO : sortedUnique K.ok t.outputs = none := by rw [hout]; exact sortedUnique_none (sortBy_sorted _ _) d2
  have sK : sortedUnique K.kk t.kernels = none := by
    rw [hk]; exact sortedUnique_none (sortBy_sorted _ _) ((adjDup_sortBy (kinj.kk _)).2 ndK)
  have vC : verifyCutThrough t = none := by
    have nd : (t.inputs ++ t.outputs.map outCommit).Nodup := by
      rw [nodup_iff_count]
      intro c
      have h1 := (hc c).1
      have h2' := (hc c).2
      rw [Tx.inputsCO_of_not_v2 K hv] at h1
      have b1 := nodup_iff_count.1 ndI c
      have b2 := count_map_le_one (injOn_outCommit_of_plain plO) ndO c
      rw [count_append]
      omega
    simp only [verifyCutThrough, (adjDup_sortBy (injOn_id _)).2 nd, Bool.false_eq_true, if_false]
  have fO : t.outputs.any isCoinbase = false := by
    rw [any_eq_false]; intro o ho; simp [plO o ho]
  have fK : t.kernels.any isCoinbase = false := by
    rw [any_eq_false]; intro k hk'; simp [plK k hk']
  simp only [validateRead, sI, sO, sK, vC, fO, fK, Bool.false_eq_true, if_false]

/-- **order independence**: any permutation of the operands gives the same result (same
transaction or same error). -/
theorem aggregate_perm {K : Keys} {txs₁ txs₂ : List Tx} (p : txs₁ ~ txs₂) (kinj : KInj K)
    (ic : InjOn outCommit (allOuts txs₁)) : aggregate K txs₁ = aggregate K txs₂ := by
  match txs₁, p, ic with
  | [], p, _ => rw [p.symm.eq_nil]
  | [t], p, _ => rw [perm_singleton.1 p.symm]
  | a :: b :: l, p, ic =>
    have l1 : 2 ≤ (a :: b :: l).length := by simp
    have l2 : 2 ≤ txs₂.length := by rw [← p.length_eq]; exact l1
    rw [aggregate_of_two_le K l1, aggregate_of_two_le K l2, aggregateFull_eq, aggregateFull_eq]
    have eI : sortBy id (allIns K (a :: b :: l)) = sortBy id (allIns K txs₂) :=
      sortBy_congr (injOn_id _) (allIns_perm K p)
    have eO : sortBy outCommit (allOuts (a :: b :: l)) = sortBy outCommit (allOuts txs₂) :=
      sortBy_congr ic (allOuts_perm p)
    have eM : merged id outCommit (allIns K (a :: b :: l)) (allOuts (a :: b :: l)) =
        merged id outCommit (allIns K txs₂) (allOuts txs₂) := by
      simp only [merged, eI, eO]
    have eK : sortBy K.kk (allKers (a :: b :: l)) = sortBy K.kk (allKers txs₂) :=
      sortBy_congr (kinj.kk _) (allKers_perm p)
    rw [eM, eK, sumKernelOffsets_perm (allOffs_perm p)]

/-- **grouping independence**: for normal operands with injective hash orders and no two outputs
sharing a commitment, if every group aggregates then aggregating the group results is
aggregating everything at once — the same transaction or the same error. The hypothesis "every
group aggregates" cannot be dropped: see `grouping_needs_groups_ok`. -/
theorem aggregate_assoc {K : Keys} {groups : List (List Tx)} {ts : List Tx} (kinj : KInj K)
    (hn : ∀ g ∈ groups, ∀ t ∈ g, Normal K t)
    (ic : InjOn outCommit (allOuts groups.flatten))
    (h : AllRel (fun g t => aggregate K g = .ok t) groups ts) :
    aggregate K ts = aggregate K groups.flatten := by
  have hfull := groups_full kinj hn ic h
  have hflat : ∀ t ∈ groups.flatten, Normal K t := by
    intro t ht
    obtain ⟨g, hg, htg⟩ := mem_flatten.1 ht
    exact hn g hg t htg
  rw [aggregate_eq_full hfull.2, aggregate_eq_full hflat]
  exact aggregateFull_groups hfull.1 (kinj.ik _) (kinj.ok _) (kinj.kk _) ic

/-! ## block → compact block → hydrate -/

/-- the hydration does not look at the nonce or at the short ids (it is handed the transactions) -/
theorem hydrate_ignores_nonce (K : Keys) (cb : CompactBlock) (nonce : Nat) (ids : List Nat) (txs : List Tx) :
    hydrateFrom K { cb with nonce := nonce, kernIds := ids } txs = hydrateFrom K cb txs := rfl

/-- **hydrate round-trip**: a block built (`from_reward`) from normal, coinbase-free transactions
and a coinbase reward, converted to its compact form with *any* nonce and re-hydrated from the same
transactions in *any* grouping (any permutation, cut into any groups, each group pre-aggregated)
is the identical block. -/
theorem hydrate_roundtrip {K : Keys} {txs : List Tx} {groups : List (List Tx)} {ts : List Tx}
    {rout rkern prev nonce : Nat} {b : Block} (kinj : KInj K)
    (hn : ∀ t ∈ txs, Normal K t) (hp : ∀ t ∈ txs, Plain t)
    (hro : isCoinbase rout = true) (hrk : isCoinbase rkern = true)
    (hb : fromReward K prev txs rout rkern = .ok b)
    (hperm : groups.flatten ~ txs)
    (hg : AllRel (fun g t => aggregate K g = .ok t) groups ts) :
    hydrateFrom K (compact K nonce b) ts = .ok b := by
  obtain ⟨agg, ha, _, hv, hi, hout, hk⟩ := fromReward_ok hb
  -- facts about the flattened groups
  have hnF : ∀ g ∈ groups, ∀ t ∈ g, Normal K t := fun g hg t ht =>
    hn t (hperm.mem_iff.1 (mem_flatten.2 ⟨g, hg, ht⟩))
  have hpF : ∀ t ∈ groups.flatten, Plain t := fun t ht => hp t (hperm.mem_iff.1 ht)
  have icF : InjOn outCommit (allOuts groups.flatten) := injOn_outCommit_of_plain (plain_allOuts hpF)
  have haF : aggregate K groups.flatten = .ok agg := (aggregate_perm hperm kinj icF).trans ha
  have hT : aggregate K ts = .ok agg := (aggregate_assoc kinj hnF icF hg).trans haF
  obtain ⟨hfull, hnT⟩ := groups_full kinj hnF icF hg
  rw [aggregate_eq_full hnT] at hT
  obtain ⟨d1, d2, _, av, ai, ao, ak⟩ := aggregateFull_ok hT
  -- plainness of what the aggregate carries
  have pO : ∀ o ∈ agg.outputs, isCoinbase o = false := by
    intro o ho
    rw [ao, mem_sortBy] at ho
    exact plain_allOuts hpF o (mem_group_outs hfull (mem_merged_outs ho))
  have pK : ∀ k ∈ agg.kernels, isCoinbase k = false := by
    intro k hk'
    rw [ak, mem_sortBy] at hk'
    exact plain_allKers hpF k ((group_kernels hfull).mem_iff.1 hk')
  have nO : rout ∉ agg.outputs := fun hm => by have := pO rout hm; rw [hro] at this; cases this
  have nK : rkern ∉ agg.kernels := fun hm => by have := pK rkern hm; rw [hrk] at this; cases this
  have sO : agg.outputs.Pairwise (KeyLe K.ok) := by rw [ao]; exact sortBy_sorted _ _
  have sK : agg.kernels.Pairwise (KeyLe K.kk) := by rw [ak]; exact sortBy_sorted _ _
  -- the compact block carries exactly the reward output and kernel
  have cO : (compact K nonce b).outFull = [rout] := by
    simp only [compact, hout, filter_coinbase_insertSorted K.ok hro pO, sortBy_singleton]
  have cK : (compact K nonce b).kernFull = [rkern] := by
    simp only [compact, hk, filter_coinbase_insertSorted K.kk hrk pK, sortBy_singleton]
  rw [hydrateFrom_eq, d1, d2, cO, cK]
  simp only [Bool.false_eq_true, if_false]
  have e1 : sortBy K.ik (sortBy K.ik (merged id outCommit (allIns K ts) (allOuts ts)).ins) = b.inputs := by
    rw [sortBy_idem, ← ai, hi]
  have e2 : sortBy K.ok (sortBy K.ok (merged id outCommit (allIns K ts) (allOuts ts)).outs ++ [rout]) = b.outputs := by
    rw [← ao, hout, insertSorted_eq_sortBy (kinj.ok _) nO sO]
  have e3 : sortBy K.kk (allKers ts ++ [rkern]) = b.kernels := by
    rw [hk, insertSorted_eq_sortBy (kinj.kk _) nK sK, ak]
    apply sortBy_congr (kinj.kk _)
    exact (sortBy_perm _ _).symm.append_right _
  have e4 : (compact K nonce b).header = b.totalOffset := rfl
  have e5 : b.v2 = false := hv.trans av
  rw [e1, e2, e3, e4]
  cases b
  simp only at e5
  simp [e5]

/-- **building the block never fails on the offsets**: whenever the transactions aggregate,
`from_reward` returns a block (whatever the previous header's total offset is, also when it cancels
the aggregate's offset), and that block survives compact → hydrate in every grouping and with every
nonce. -/
theorem hydrate_roundtrip_total {K : Keys} {txs : List Tx} {groups : List (List Tx)} {ts : List Tx}
    {rout rkern prev nonce : Nat} {agg : Tx} (kinj : KInj K)
    (hn : ∀ t ∈ txs, Normal K t) (hp : ∀ t ∈ txs, Plain t)
    (hro : isCoinbase rout = true) (hrk : isCoinbase rkern = true)
    (ha : aggregate K txs = .ok agg)
    (hperm : groups.flatten ~ txs)
    (hg : AllRel (fun g t => aggregate K g = .ok t) groups ts) :
    ∃ b, fromReward K prev txs rout rkern = .ok b ∧ hydrateFrom K (compact K nonce b) ts = .ok b :=
  ⟨_, fromReward_of_aggregate ha,
    hydrate_roundtrip kinj hn hp hro hrk (fromReward_of_aggregate ha) hperm hg⟩

/-! ## de-aggregation -/

/-- **de-aggregation returns the remainder**: let `A` (the known subset) and `B` (the remainder)
be normal transactions that share nothing and do not spend each other's outputs, `mk` their
aggregate. Then `deaggregate mk A` is `aggregate B` — for all offsets, in particular also when the
remainder's offset is zero modulo the group order (`mk.offset = a.offset`), see
`deaggregate_zero_remainder`. -/
theorem deaggregate_inverse {K : Keys} {A B : List Tx} {mk a : Tx} (kinj : KInj K)
    (hn : ∀ t ∈ A ++ B, Normal K t)
    (ndI : (allIns K (A ++ B)).Nodup) (ndO : (allOuts (A ++ B)).Nodup) (ndK : (allKers (A ++ B)).Nodup)
    (hdis : ∀ x ∈ allIns K (A ++ B), x ∉ (allOuts (A ++ B)).map outCommit)
    (hmk : aggregate K (A ++ B) = .ok mk) (hA : aggregate K A = .ok a) :
    deaggregate K mk A = aggregate K B := by
  have hnA : ∀ t ∈ A, Normal K t := fun t ht => hn t (mem_append_left _ ht)
  have hnB : ∀ t ∈ B, Normal K t := fun t ht => hn t (mem_append_right _ ht)
  rw [allIns_append] at ndI hdis
  rw [allOuts_append] at ndO hdis
  rw [allKers_append] at ndK
  have ndIA := (nodup_append.1 ndI).1
  have ndIB := (nodup_append.1 ndI).2.1
  have ndOA := (nodup_append.1 ndO).1
  have ndOB := (nodup_append.1 ndO).2.1
  have disA : ∀ x ∈ allIns K A, x ∉ (allOuts A).map outCommit := fun x hx hm =>
    hdis x (mem_append_left _ hx) (by rw [map_append]; exact mem_append_left _ hm)
  have disB : ∀ x ∈ allIns K B, x ∉ (allOuts B).map outCommit := fun x hx hm =>
    hdis x (mem_append_right _ hx) (by rw [map_append]; exact mem_append_right _ hm)
  -- the three aggregates in closed form
  have eAB := aggregate_disjoint kinj hn (by rw [allIns_append]; exact ndI) (by rw [allOuts_append]; exact ndO)
    (by rw [allIns_append, allOuts_append]; exact hdis)
  have eA := aggregate_disjoint kinj hnA ndIA ndOA disA
  have eB := aggregate_disjoint kinj hnB ndIB ndOB disB
  rw [hmk] at eAB
  rw [hA] at eA
  simp only [Except.ok.injEq] at eAB eA
  subst eAB eA
  -- offsets
  have hm : (toSecrets (allOffs (A ++ B))).sum % N =
      ((toSecrets (allOffs A)).sum + (toSecrets (allOffs B)).sum) % N := by
    rw [allOffs_append, toSecrets_append, sum_append]
  have hoffset := deagg_offset _ _ _ _ hm rfl
  -- the body
  unfold deaggregate
  rw [hA]
  simp only [Tx.inputsCO, Bool.false_eq_true, if_false]
  rw [allIns_append, allOuts_append, allKers_append]
  rw [pushNew_nodup _ _ [] ((sortBy_perm _ _).nodup_iff.2 ndI) (by simp),
      pushNew_nodup _ _ [] ((sortBy_perm _ _).nodup_iff.2 ndO) (by simp),
      pushNew_nodup _ _ [] ((sortBy_perm _ _).nodup_iff.2 ndK) (by simp)]
  simp only [nil_append]
  have fI := filter_remove_left ndI (sortBy_perm K.ik (allIns K A ++ allIns K B)) (sortBy_perm K.ik (allIns K A))
  have fO := filter_remove_left ndO (sortBy_perm K.ok (allOuts A ++ allOuts B)) (sortBy_perm K.ok (allOuts A))
  have fK := filter_remove_left ndK (sortBy_perm K.kk (allKers A ++ allKers B)) (sortBy_perm K.kk (allKers A))
  rw [sortBy_congr (kinj.ik _) fI, sortBy_congr (kinj.ok _) fO, sortBy_congr (kinj.kk _) fK, hoffset, eB]

/-- **a remainder with zero offset is returned like any other** (the positive counterpart of the
former failure): whenever the remainder's offsets sum to zero modulo the group order — so that the
aggregate and the known subset carry the *same* offset — `deaggregate` succeeds and returns the
remainder, whose offset is zero. (Before the repair the code failed here with
`Secp(InvalidSecretKey)`.) -/
theorem deaggregate_zero_remainder {K : Keys} {A B : List Tx} {mk a : Tx} (kinj : KInj K)
    (hn : ∀ t ∈ A ++ B, Normal K t)
    (ndI : (allIns K (A ++ B)).Nodup) (ndO : (allOuts (A ++ B)).Nodup) (ndK : (allKers (A ++ B)).Nodup)
    (hdis : ∀ x ∈ allIns K (A ++ B), x ∉ (allOuts (A ++ B)).map outCommit)
    (hmk : aggregate K (A ++ B) = .ok mk) (hA : aggregate K A = .ok a)
    (hzero : (toSecrets (allOffs B)).sum % N = 0) :
    mk.offset = a.offset ∧
    ∃ t, deaggregate K mk A = .ok t ∧ aggregate K B = .ok t ∧ t.offset = 0 := by
  have hnA : ∀ t ∈ A, Normal K t := fun t ht => hn t (mem_append_left _ ht)
  have hnB : ∀ t ∈ B, Normal K t := fun t ht => hn t (mem_append_right _ ht)
  have hinv := deaggregate_inverse kinj hn ndI ndO ndK hdis hmk hA
  have ndI' := ndI
  have ndO' := ndO
  have hdis' := hdis
  rw [allIns_append] at ndI' hdis'
  rw [allOuts_append] at ndO' hdis'
  have disA : ∀ x ∈ allIns K A, x ∉ (allOuts A).map outCommit := fun x hx hm =>
    hdis' x (mem_append_left _ hx) (by rw [map_append]; exact mem_append_left _ hm)
  have disB : ∀ x ∈ allIns K B, x ∉ (allOuts B).map outCommit := fun x hx hm =>
    hdis' x (mem_append_right _ hx) (by rw [map_append]; exact mem_append_right _ hm)
  have eAB := aggregate_disjoint kinj hn ndI ndO hdis
  have eA := aggregate_disjoint kinj hnA (nodup_append.1 ndI').1 (nodup_append.1 ndO').1 disA
  have eB := aggregate_disjoint kinj hnB (nodup_append.1 ndI').2.1 (nodup_append.1 ndO').2.1 disB
  rw [hmk] at eAB
  rw [hA] at eA
  simp only [Except.ok.injEq] at eAB eA
  subst eAB eA
  refine ⟨?_, _, hinv.trans eB, eB, hzero⟩
  show (toSecrets (allOffs (A ++ B))).sum % N = (toSecrets (allOffs A)).sum % N
  rw [allOffs_append, toSecrets_append, sum_append, Nat.add_mod, hzero, Nat.add_zero, Nat.mod_mod]

/-- … in particular de-aggregating **everything** gives the empty transaction (offset zero). -/
theorem deaggregate_all {K : Keys} {A : List Tx} {mk : Tx} (kinj : KInj K)
    (hn : ∀ t ∈ A, Normal K t)
    (ndI : (allIns K A).Nodup) (ndO : (allOuts A).Nodup) (ndK : (allKers A).Nodup)
    (hdis : ∀ x ∈ allIns K A, x ∉ (allOuts A).map outCommit)
    (hmk : aggregate K A = .ok mk) :
    deaggregate K mk A = .ok Tx.empty := by
  have h := deaggregate_inverse (K := K) (A := A) (B := []) (mk := mk) (a := mk) kinj
    (by simpa using hn) (by simpa using ndI) (by simpa using ndO) (by simpa using ndK)
    (by simpa using hdis) (by simpa using hmk) hmk
  exact h

/-! ## normal form = structurally valid, and concrete witnesses (non-vacuity) -/

/-- structurally valid transactions are normal: the hypotheses `Normal` of the grouping,
hydration and de-aggregation theorems hold for everything `validate_read` accepts. -/
theorem normal_of_wf {K : Keys} {t : Tx} (kinj : KInj K) (h : WF K t) : Normal K t := by
  unfold Normal
  have hi : allIns K [t] = t.inputs := by simp [allIns, Tx.inputsCO, h.v2]
  have ho : allOuts [t] = t.outputs := by simp [allOuts]
  have hk : allKers [t] = t.kernels := by simp [allKers]
  have hf : allOffs [t] = [t.offset] := rfl
  rw [aggregateFull_disjoint (kinj.ik _) (kinj.ok _) (by rw [hi]; exact h.insNodup) (by rw [ho]; exact h.outsNodup)
    (by rw [hi, ho]; exact h.noSelfSpend)]
  rw [hi, ho, hk, hf, sortBy_of_sorted h.insSorted, sortBy_of_sorted h.outsSorted, sortBy_of_sorted h.kersSorted,
    toSecrets_singleton_of_lt h.offset]
  have hv := h.v2
  by_cases z : t.offset = 0
  · cases t; simp only at z hv; subst z hv; simp
  · cases t; simp only at z hv; subst hv
    simp [z, Nat.mod_eq_of_lt h.offset]

-- `WF` (hence `Normal`) is satisfiable
example : WF K0 t2 := by constructor <;> simp [t2, K0, KeyLe, N, outCommit]

/-- chained pair: output 5 of `t1` is spent by `t2` and disappears from both sides -/
example : aggregate K0 [t1, t2] = .ok ⟨3, false, [1], [12], [0, 2]⟩ := by tx_eval
/-- hypotheses of `aggregate_valid` are satisfiable (`[t1, t2]`: plain, kernels 0 and 2), and
the conclusion on the concrete aggregate -/
example : (∀ t ∈ [t1, t2], Plain t) ∧ (allKers [t1, t2]).Nodup := by
  refine ⟨?_, by simp [allKers, t1, t2]⟩
  intro t ht
  simp only [mem_cons, not_mem_nil, or_false] at ht
  rcases ht with rfl | rfl <;> simp [Plain, t1, t2, isCoinbase]
example : validateRead K0 ⟨3, false, [1], [12], [0, 2]⟩ = none := by
  simp [validateRead, sortedUnique, verifyCutThrough, adjDup, sortBy, K0, outCommit, isCoinbase, List.mergeSort,
    List.MergeSort.Internal.splitInTwo]

/-- **the hypothesis "every group aggregates" of `aggregate_assoc` is needed**: `t2` and `t3`
double-spend commitment 5. All at once, `t1` creates it, one spend is cut and the aggregate
succeeds (the double spend is masked: the result spends an outside copy of 5); grouped as
`[t1], [t2, t3]` the second group is refused. All three operands are normal and coinbase-free. -/
theorem grouping_needs_groups_ok :
    aggregate K0 [t1, t2, t3] = .ok ⟨6, false, [1, 5], [12, 14], [0, 2, 4]⟩ ∧
    aggregate K0 [t2, t3] = .error .cutThrough ∧
    (∀ t ∈ [t1, t2, t3], Normal K0 t ∧ Plain t) := by
  refine ⟨by tx_eval, by tx_eval, ?_⟩
  intro t ht
  simp only [mem_cons, not_mem_nil, or_false] at ht
  rcases ht with rfl | rfl | rfl
  · exact ⟨normal1, by simp [Plain, t1, isCoinbase]⟩
  · exact ⟨normal2, by simp [Plain, t2, isCoinbase]⟩
  · exact ⟨normal3, by simp [Plain, t3, isCoinbase]⟩

/-- hypotheses of `aggregate_assoc` are satisfiable (grouping `[t1, t2], [t4]`) -/
example : AllRel (fun g t => aggregate K0 g = .ok t) [[t1, t2], [t4]]
    [⟨3, false, [1], [12], [0, 2]⟩, t4] :=
  .cons (by tx_eval) (.cons rfl .nil)

/-- hypotheses of `hydrate_roundtrip` are satisfiable: block from `[t1, t2]` with reward output
code 101 and reward kernel code 7, previous offset 9 -/
example : fromReward K0 9 [t1, t2] 101 7 = .ok ⟨12, false, [1], [12, 101], [0, 2, 7]⟩ := by tx_eval
example : hydrateFrom K0 (compact K0 77 ⟨12, false, [1], [12, 101], [0, 2, 7]⟩) [t2, t1] =
    .ok ⟨12, false, [1], [12, 101], [0, 2, 7]⟩ := by tx_eval
/-- the previous header's offset `N - 3` cancels the aggregate's offset 3: the block is built, with
total offset zero -/
example : fromReward K0 (N - 3) [t1, t2] 101 7 = .ok ⟨0, false, [1], [12, 101], [0, 2, 7]⟩ := by tx_eval

/-- hypotheses of `deaggregate_inverse` are satisfiable: `deaggregate (aggregate [t1, t5]) [t1]`
is `t5` (remainder offset `N - 2 ≠ 0`) -/
example : aggregate K0 [t1, t5] = .ok ⟨N - 1, false, [1, 30], [10, 64], [0, 8]⟩ := by tx_eval
example : deaggregate K0 ⟨N - 1, false, [1, 30], [10, 64], [0, 8]⟩ [t1] = .ok t5 := by tx_eval

/-- hypotheses of `deaggregate_zero_remainder` are satisfiable: the remainder `t4` has offset zero,
aggregate and known subset both carry offset 1; the remainder comes back (this concrete call
failed with `Secp` before the repair) -/
example : aggregate K0 [t1, t4] = .ok ⟨1, false, [1, 20], [10, 44], [0, 6]⟩ := by tx_eval
example : deaggregate K0 ⟨1, false, [1, 20], [10, 44], [0, 6]⟩ [t1] = .ok t4 := by tx_eval
example : deaggregate K0 ⟨1, false, [1, 20], [10, 44], [0, 6]⟩ [t4] = .ok t1 := by tx_eval
/-- de-aggregating everything: the empty transaction -/
example : deaggregate K0 ⟨1, false, [1, 20], [10, 44], [0, 6]⟩ [t4, t1] = .ok Tx.empty := by tx_eval

/-- offsets that cancel modulo the group order: `2 + (N - 2) ≡ 0`, both transactions are fine on
their own, the aggregate is the union with offset zero (hypotheses of `aggregate_offsets_cancel`
are satisfiable; this concrete call failed with `Secp` before the repair), and it de-aggregates
again into its parts -/
theorem offsets_cancel_accepted :
    aggregate K0 [⟨2, false, [40], [84], [10]⟩, t5] = .ok ⟨0, false, [30, 40], [64, 84], [8, 10]⟩ ∧
    deaggregate K0 ⟨0, false, [30, 40], [64, 84], [8, 10]⟩ [t5] = .ok ⟨2, false, [40], [84], [10]⟩ ∧
    deaggregate K0 ⟨0, false, [30, 40], [64, 84], [8, 10]⟩ [⟨2, false, [40], [84], [10]⟩] = .ok t5 := by
  refine ⟨?_, ?_, ?_⟩
  · tx_eval
  · tx_eval
  · tx_eval
end GV.Props.C12
