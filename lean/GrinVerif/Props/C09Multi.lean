import GrinVerif.Lemmas.CrashMultiL
/-! C09 — the scenarios of session 8 that were only enumerated on the real node, as theorems over
EVERY chain (`Model/CrashMulti.lean`; tied to the node by the `crash` run: scenarios block-after-header,
orphan-chain, reset-head — the driver checks at every enumerated crash point that the state reached
through the real labels is the state of these step lists).

* header-first acceptance (`hdr_first_*`): safe until the leaf set is renamed, new head after the
  commit, and a completed acceptance is again a header-first state, so the theorems apply to the next
  acceptance of the same call (`orphan_chain_*`: two acceptances in one `process_block`).
* head reset (`reset_*`): completed = the consistent state of the target; killed while the header MMR
  files are truncated and before the single commit: the node does NOT open (`Error::Other`, the
  recorded window C09-header-mmr-window reached from `reset_chain_head`). -/
namespace GV.Props.C09Multi
open GV GV.Crash

/-- header-first extension: the table stores `O`, `O ++ [b]` and the header chain `H` -/
structure HdrFirstExt (tbl O H : List BlkInfo) (b : BlkInfo) (t : Target) : Prop where
  ext : PlainExt tbl O b t
  hdr : pathOf tbl (tbl.length + 1) (tipOf H) [] = some H

theorem bodyState_hdrOk (tbl O H : List BlkInfo) (b : BlkInfo) (m : Bool) (k : Nat)
    (hH : pathOf tbl (tbl.length + 1) (tipOf H) [] = some H) : HdrOk tbl (bodyState O H b m k) :=
  ⟨by simp [bodyState], H, by simpa [bodyState] using hH, by simp [bodyState]⟩

/-- **Header-first block, every chain: safe prefix.** A process death at any of the first four
durable steps (output hash / data files appended, leaf set not yet renamed) reopens on the old tip. -/
theorem hdr_first_safe_prefix_all (bcf : Nat → Bool) (tbl O H : List BlkInfo) (b : BlkInfo) (t : Target)
    (h : HdrFirstExt tbl O H b t) (k : Nat) (hk : k ≤ 4) :
    recover bcf tbl (crashAfter t (hdrFirst O H) bodySteps k) = .ok (tipOf O) := by
  rw [crashAfter_body t O H b h.ext.newPath h.ext.forkLen k]
  apply recover_of_agrees bcf tbl O _ h.ext.old (bodyState_hdrOk tbl O H b _ k h.hdr)
  refine ⟨?_, ?_, bodyState_files O H b _ k⟩
  · have : ¬ (10 ≤ k ∧ t.movesHead = true) := by omega
    simp [bodyState, this]
  · have : ¬ 5 ≤ k := by omega
    simp [bodyState, this]

/-- **Header-first block, every chain: completed.** After the final commit the node reopens on `b`,
and the durable state is the header-first state of the longer body. -/
theorem hdr_first_completed_all (bcf : Nat → Bool) (tbl O H : List BlkInfo) (b : BlkInfo) (t : Target)
    (h : HdrFirstExt tbl O H b t) (hm : t.movesHead = true) (k : Nat) (hk : 10 ≤ k) :
    crashAfter t (hdrFirst O H) bodySteps k = hdrFirst (O ++ [b]) H ∧
    recover bcf tbl (crashAfter t (hdrFirst O H) bodySteps k) = .ok b.id := by
  rw [crashAfter_body t O H b h.ext.newPath h.ext.forkLen k, hm]
  refine ⟨bodyState_done O H b k hk, ?_⟩
  have e : ∀ n, n ≤ 10 → n ≤ k := by intro n hn; omega
  have := recover_of_agrees bcf tbl (O ++ [b]) (bodyState O H b true k)
    (by rw [tipOf_snoc]; exact h.ext.new) (bodyState_hdrOk tbl O H b _ k h.hdr)
    ⟨by simp [bodyState, hk], by simp [bodyState, e],
     by constructor <;> simp [bodyState, e]⟩
  rwa [tipOf_snoc] at this

/-- the steps of several acceptances in one call compose: past the first acceptance the state is the
state of the remaining acceptances started from the first one's final state -/
theorem multi_compose (t : Target) (ts : List Target) (d : Durable) (steps : List Step) (k : Nat) :
    multiCrashAfter (t :: ts) d steps (steps.length + k) =
      if k = 0 then crashAfter t d steps steps.length
      else multiCrashAfter ts (crashAfter t d steps steps.length) steps k := by
  by_cases h : k = 0
  · subst h; simp [multiCrashAfter]
  · have : ¬ (steps.length + k ≤ steps.length) := by omega
    simp [multiCrashAfter, this, h]

/-- **Orphan chain (parent, then the parked child, in one call), every chain.** A death during the
CHILD's acceptance before its leaf set is renamed reopens on the parent `b1`, which was fully
committed; after the child's commit the node reopens on the child. -/
theorem orphan_chain_second_acceptance (bcf : Nat → Bool) (tbl O H : List BlkInfo) (b1 b2 : BlkInfo)
    (t1 t2 : Target) (h1 : HdrFirstExt tbl O H b1 t1) (h2 : HdrFirstExt tbl (O ++ [b1]) H b2 t2)
    (m1 : t1.movesHead = true) (m2 : t2.movesHead = true) (k : Nat) (hk : 1 ≤ k) :
    (k ≤ 4 → recover bcf tbl (multiCrashAfter [t1, t2] (hdrFirst O H) bodySteps (10 + k)) = .ok b1.id) ∧
    (10 ≤ k → recover bcf tbl (multiCrashAfter [t1, t2] (hdrFirst O H) bodySteps (10 + k)) = .ok b2.id) := by
  have hl : bodySteps.length = 10 := rfl
  have hc := multi_compose t1 [t2] (hdrFirst O H) bodySteps k
  rw [hl] at hc
  have hk0 : ¬ k = 0 := by omega
  rw [if_neg hk0, (hdr_first_completed_all bcf tbl O H b1 t1 h1 m1 10 (Nat.le_refl _)).1] at hc
  rw [hc]
  constructor
  · intro h4
    have : k ≤ bodySteps.length := by rw [hl]; omega
    simp only [multiCrashAfter, this, if_true]
    have := hdr_first_safe_prefix_all bcf tbl (O ++ [b1]) H b2 t2 h2 k h4
    rwa [tipOf_snoc] at this
  · intro h10
    by_cases hle : k ≤ bodySteps.length
    · simp only [multiCrashAfter, hle, if_true]
      exact (hdr_first_completed_all bcf tbl (O ++ [b1]) H b2 t2 h2 m2 k h10).2
    · simp only [multiCrashAfter, hle, if_false]
      exact (hdr_first_completed_all bcf tbl (O ++ [b1]) H b2 t2 h2 m2 _ (Nat.le_refl _)).2

/-! ### head reset -/

/-- **Head reset, every chain: completed.** After the single commit the durable state is exactly the
consistent state of the target path and the node reopens on the target. -/
theorem reset_completed_all (bcf : Nat → Bool) (tbl T R : List BlkInfo)
    (hT : pathOf tbl (tbl.length + 1) (tipOf T) [] = some T) (k : Nat) (hk : 14 ≤ k) :
    resetCrashAfter (resetTarget T) (consistent (T ++ R)) k = consistent T ∧
    recover bcf tbl (resetCrashAfter (resetTarget T) (consistent (T ++ R)) k) = .ok (tipOf T) := by
  have e : ∀ n, n ≤ 14 → n ≤ k := by intro n hn; omega
  have hs : resetCrashAfter (resetTarget T) (consistent (T ++ R)) k = consistent T := by
    rw [resetCrashAfter_eq]
    simp [resetState, consistent, e, tipOf]
  refine ⟨hs, ?_⟩
  rw [hs]
  exact recover_of_agrees bcf tbl T _ hT
    ⟨by simp [consistent], T, by simpa [consistent, tipOf] using hT, by simp [consistent]⟩
    ⟨by simp [consistent, tipOf], by simp [consistent],
     by constructor <;> simp [consistent]⟩

/-- **Head reset, every chain: the header window.** Killed after the header MMR's hash file has been
truncated and before the single commit of both heads (steps 10..13), the header MMR no longer holds
`header_head` and `Chain::init` fails — for every chain, every target at least one block back. -/
theorem reset_header_window_bricks_all (bcf : Nat → Bool) (tbl T R : List BlkInfo) (hR : R ≠ [])
    (hO : pathOf tbl (tbl.length + 1) (tipOf (T ++ R)) [] = some (T ++ R))
    (k : Nat) (h1 : 10 ≤ k) (h2 : k ≤ 13) :
    recover bcf tbl (resetCrashAfter (resetTarget T) (consistent (T ++ R)) k) = .openFail .other := by
  rw [resetCrashAfter_eq]
  have hRl : 0 < R.length := List.length_pos_iff.mpr hR
  have n14 : ¬ 14 ≤ k := by omega
  unfold recover
  by_cases h12 : 12 ≤ k
  · have hlen : ¬ ((resetState T R k).hdrHash.length ≠ (resetState T R k).hdrData.length) := by
      simp [resetState, h1, h12]
    rw [if_neg hlen]
    have hh : (resetState T R k).dbHHead = tipOf (T ++ R) := by simp [resetState, n14]
    rw [hh, hO]
    have hd : (resetState T R k).hdrData = T.map (·.id) := by simp [resetState, h12]
    rw [hd]
    simp only []
    rw [if_pos]
    intro hcon
    have := congrArg List.length hcon
    rw [List.length_take, List.length_map, List.length_map, List.length_append] at this
    omega
  · have hlen : (resetState T R k).hdrHash.length ≠ (resetState T R k).hdrData.length := by
      simp [resetState, h1, h12]; omega
    rw [if_pos hlen]

/-- before any file is touched nothing has happened -/
theorem reset_not_started (bcf : Nat → Bool) (tbl T R : List BlkInfo)
    (hO : pathOf tbl (tbl.length + 1) (tipOf (T ++ R)) [] = some (T ++ R)) :
    recover bcf tbl (resetCrashAfter (resetTarget T) (consistent (T ++ R)) 0) = .ok (tipOf (T ++ R)) := by
  rw [resetCrashAfter_eq]
  have : resetState T R 0 = consistent (T ++ R) := by simp [resetState, consistent, tipOf]
  rw [this]
  exact recover_of_agrees bcf tbl (T ++ R) _ hO
    ⟨by simp [consistent], T ++ R, by simpa [consistent, tipOf] using hO, by simp [consistent]⟩
    ⟨by simp [consistent, tipOf], by simp [consistent],
     by constructor <;> simp [consistent]⟩

/-! ### non-vacuity: a concrete 6-block chain -/

def blk (i : Nat) (ins : List Nat) : BlkInfo :=
  { id := i, parent := if i = 0 then none else some (i - 1), work := i + 1, outs := [i], ins := ins }

def tbl6 : List BlkInfo := [blk 0 [], blk 1 [], blk 2 [], blk 3 [0], blk 4 [1], blk 5 [2]]

example : HdrFirstExt tbl6 (tbl6.take 4) tbl6 (blk 4 [1])
    { newPath := tbl6.take 5, forkLen := 4, movesHHead := false, movesHead := true } :=
  ⟨⟨by decide, by decide, by decide, by decide⟩, by decide⟩

example : recover (fun _ => true) tbl6
    (multiCrashAfter
      [{ newPath := tbl6.take 5, forkLen := 4, movesHHead := false, movesHead := true },
       { newPath := tbl6, forkLen := 5, movesHHead := false, movesHead := true }]
      (hdrFirst (tbl6.take 4) tbl6) bodySteps 13) = .ok 4 := by decide

example : recover (fun _ => true) tbl6
    (resetCrashAfter (resetTarget (tbl6.take 3)) (consistent tbl6) 11) = .openFail .other :=
  reset_header_window_bricks_all _ tbl6 (tbl6.take 3) (tbl6.drop 3) (by decide) (by decide) 11 (by omega) (by omega)

example : recover (fun _ => true) tbl6
    (resetCrashAfter (resetTarget (tbl6.take 3)) (consistent tbl6) 14) = .ok 2 := by decide

end GV.Props.C09Multi
