import GrinVerif.Model.KvF32
/-! C18: `needs_resize` with the `f32` arithmetic the code really performs (`Model/KvF32.lean`; tied
to the hardware's `f32` by run `kv f32probe`, which also checks exhaustively that for every
page-granular map below 32 GiB the f32 decisions equal the exact-rational ones the theorems of
`Props/C18.lean` are stated for).  What does NOT depend on how the quotient rounds: whenever the
code resizes, the new size is a whole number of chunks, at least one chunk and not below the
chunk-aligned old size; without a resize the size is unchanged. -/
namespace GV.Props.C18F32
open GV GV.Kv GV.Kv.F32

theorem growLoopF32_spec (used chunk : Nat) : ∀ (fuel tot : Nat), tot % chunk = 0 →
    (growLoopF32 used chunk fuel tot) % chunk = 0 ∧ tot ≤ growLoopF32 used chunk fuel tot := by
  intro fuel
  induction fuel with
  | zero => intro tot h; exact ⟨h, Nat.le_refl _⟩
  | succ n ih =>
    intro tot h
    unfold growLoopF32
    split
    · have h' : (tot + chunk) % chunk = 0 := by rw [Nat.add_mod, h]; simp
      obtain ⟨a, b⟩ := ih (tot + chunk) h'
      exact ⟨a, by omega⟩
    · exact ⟨h, Nat.le_refl _⟩

/-- **needs_resize_f32_aligned.**  Whatever the f32 comparisons answer: a resize yields a size that
is a multiple of the chunk, at least one chunk, and at least the old size rounded down to a chunk
multiple; no resize leaves the size as it is. -/
theorem needs_resize_f32_aligned (mapSize used chunk : Nat) (hc : 0 < chunk) :
    ((needsResizeF32 mapSize used chunk).1 = true →
      (needsResizeF32 mapSize used chunk).2 % chunk = 0 ∧ chunk ≤ (needsResizeF32 mapSize used chunk).2 ∧
      mapSize - mapSize % chunk ≤ (needsResizeF32 mapSize used chunk).2) ∧
    ((needsResizeF32 mapSize used chunk).1 = false →
      (needsResizeF32 mapSize used chunk).2 = mapSize ∧ chunk ≤ mapSize) := by
  by_cases hlt : mapSize < chunk
  · have e : needsResizeF32 mapSize used chunk = (true, chunk) := by
      unfold needsResizeF32
      simp [hlt]
    rw [e]
    refine ⟨fun _ => ⟨Nat.mod_self _, Nat.le_refl _, ?_⟩, fun h => absurd h (by simp)⟩
    have := Nat.sub_le mapSize (mapSize % chunk)
    show mapSize - mapSize % chunk ≤ chunk
    omega
  · cases hres : ((mapSize ≠ 0 && gt90 used mapSize) || decide (mapSize < chunk)) with
    | false =>
      have e : needsResizeF32 mapSize used chunk = (false, mapSize) := by
        unfold needsResizeF32
        simp only [hres, Bool.not_false, if_true]
      rw [e]
      exact ⟨fun h => absurd h (by simp), fun _ => ⟨rfl, by omega⟩⟩
    | true =>
      have e : needsResizeF32 mapSize used chunk =
          (true, growLoopF32 used chunk (used * 2 + 1) (mapSize - mapSize % chunk)) := by
        unfold needsResizeF32
        have h2 : (decide (mapSize ≠ 0) && gt90 used mapSize) = true := by simpa [hlt] using hres
        simp [hlt]
        simpa using h2
      rw [e]
      refine ⟨fun _ => ?_, fun h => absurd h (by simp)⟩
      have hdm := Nat.div_add_mod mapSize chunk
      have e2 : mapSize - mapSize % chunk = chunk * (mapSize / chunk) := by omega
      have h0 : (mapSize - mapSize % chunk) % chunk = 0 := by rw [e2]; exact Nat.mul_mod_right _ _
      obtain ⟨a, b⟩ := growLoopF32_spec used chunk (used * 2 + 1) _ h0
      have hq : 1 ≤ mapSize / chunk := Nat.div_pos (by omega) hc
      have hge : chunk ≤ mapSize - mapSize % chunk := by
        rw [e2]
        calc chunk = chunk * 1 := by omega
          _ ≤ chunk * (mapSize / chunk) := Nat.mul_le_mul_left _ hq
      exact ⟨a, Nat.le_trans hge b, b⟩

/-- the model reproduces the IEEE bit patterns of the two thresholds: `0.9_f32 = 0x3F666666`,
`65 as f32 / 100.0 = 0x3F266666`; and the test-mode case of every run: a 1 MiB map with 235 pages
used is above the threshold and grows to 2 MiB -/
theorem f32_constants : bits c90 = 0x3F666666 ∧ bits c65 = 0x3F266666 ∧
    needsResizeF32 1048576 962560 1048576 = (true, 2097152) := by decide

end GV.Props.C18F32
