import GrinVerif.Lemmas.TxSort
/-! # C12 — `Block::hydrate_from` with ANY transactions

`Props/C12.lean` (`hydrate_roundtrip`) covers the transactions the block was built from, in any
grouping.  A node hydrates from what its pool returns (`Pool::retrieve_transactions`,
`Props/C12Retr.lean`), which may miss a transaction or hold one twice; `hydrate_from` never reads the
short ids, so nothing in it notices.  These theorems hold for every compact block and every list of
transactions: the kernels of the result are exactly the kernels handed in plus the full (coinbase)
kernels of the compact block, the header is the compact block's, the only error is `CutThrough` of
the collected inputs / outputs; hence a block is NOT reproduced when a non-coinbase kernel of it is
in none of the transactions (the node's validation / full-block request is what catches that).  The
harness runs these shapes on the real code (`tx hydrate` lines of the odd-shape section). -/
namespace GV.Props.C12
open GV GV.Tx List

/-- **what `hydrate_from` returns, for every compact block and every list of transactions**: the
header of the compact block; kernels = all kernels handed in plus `kern_full`, as a multiset -/
theorem hydrate_any (K : Keys) (cb : CompactBlock) (txs : List Tx) (hb : Block)
    (h : hydrateFrom K cb txs = .ok hb) :
    hb.totalOffset = cb.header ∧ hb.v2 = false ∧
    hb.kernels ~ txs.flatMap (·.kernels) ++ cb.kernFull := by
  unfold hydrateFrom at h
  simp only at h
  split at h
  · cases h
  · have e := Except.ok.inj h
    subst e
    exact ⟨rfl, rfl, sortBy_perm _ _⟩

/-- the only way `hydrate_from` fails is the cut-through of the collected inputs and outputs -/
theorem hydrate_error_iff (K : Keys) (cb : CompactBlock) (txs : List Tx) (e : Err) :
    hydrateFrom K cb txs = .error e ↔
      cutThrough id outCommit K.ik K.ok (txs.flatMap (Tx.inputsCO K)) (txs.flatMap (·.outputs)) = .error e := by
  unfold hydrateFrom
  simp only
  split <;> simp_all

/-- **a missing kernel is not noticed by `hydrate_from`, and the block is not reproduced**: if a
non-coinbase kernel of the block is in none of the transactions handed in, whatever `hydrate_from`
returns for the block's compact form is a different block. -/
theorem hydrate_needs_every_kernel (K : Keys) (nonce : Nat) (b hb : Block) (txs : List Tx)
    (h : hydrateFrom K (compact K nonce b) txs = .ok hb)
    (k : Nat) (hk : k ∈ b.kernels) (hnc : isCoinbase k = false) (hmiss : ∀ t ∈ txs, k ∉ t.kernels) :
    hb ≠ b := by
  intro e
  subst e
  obtain ⟨_, _, hp⟩ := hydrate_any K _ txs _ h
  have hm := hp.mem_iff.1 hk
  rcases mem_append.1 hm with hm | hm
  · obtain ⟨t, ht, hkt⟩ := mem_flatMap.1 hm
    exact hmiss t ht hkt
  · simp only [compact] at hm
    have := (mem_filter.1 (mem_sortBy.1 hm)).2
    rw [hnc] at this
    cases this

/-- … and the number of kernels tells a transaction handed in twice (when the result is not an error) -/
theorem hydrate_kernel_count (K : Keys) (cb : CompactBlock) (txs : List Tx) (hb : Block)
    (h : hydrateFrom K cb txs = .ok hb) :
    hb.kernels.length = (txs.flatMap (·.kernels)).length + cb.kernFull.length := by
  obtain ⟨_, _, hp⟩ := hydrate_any K cb txs hb h
  rw [hp.length_eq, length_append]

/-- non-vacuity: hydrating without any transaction a block that has a transaction kernel (code 4)
next to the coinbase kernel (code 1): `Ok`, with the coinbase kernel only -/
example : (match hydrateFrom ⟨id, id, id⟩ (compact ⟨id, id, id⟩ 0 ⟨0, false, [], [3], [1, 4]⟩) [] with
    | .ok hb => decide (hb.kernels = [1])
    | .error _ => false) = true := by
  simp [hydrateFrom, compact, isCoinbase, sortBy, cutThrough, cutMerge, adjDup]

end GV.Props.C12
