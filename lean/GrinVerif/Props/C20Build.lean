import GrinVerif.Lemmas.KeysBuild
import GrinVerif.Props.C20
/-! # C20 — the builder with `initial_tx` (two-party shape `tx_build_exchange`)

Theorems about `Model/KeysBuild.lean` (lemmas in `Lemmas/KeysBuild.lean`): the element list is
folded over `(Transaction, BlindSum)`; `initial_tx` replaces the transaction and keeps the sum. -/
namespace GV.Props.C20
open GV GV.Keys List

/-- **`initial_tx` keeps the sum**: whatever was accumulated in the `BlindSum` before `initial_tx`
runs (a `with_excess` factor, earlier inputs / outputs) is still there afterwards — the three key
lists after the fold are exactly the contributions of the plain combinators of the list, in order,
wherever the `initial_tx` elements stand. -/
theorem initial_tx_keeps_sum (elems : List XStep) :
    (runX {} elems).negK = blinds (inputsOf (baseOf elems)) ∧
    (runX {} elems).posK = blinds (outputsOf (baseOf elems)) ∧
    (runX {} elems).posB = excessesOf (baseOf elems) := by
  simpa using runX_keys {} elems

/-- **the blinding sum does not depend on the order of the element list**: every permutation of the
elements — `initial_tx` and `with_excess` in any relative order, before, between or after the inputs
and outputs — gives the same `keychain.blind_sum` (same key, same error). -/
theorem partial_blind_sum_perm {e e' : List XStep} (p : e ~ e') (ins outs : List Opening) :
    (xPartialTransaction ins outs e).2.2 = (xPartialTransaction ins outs e').2.2 := by
  obtain ⟨n1, p1, b1⟩ := runX_keys { ins := ins, outs := outs } e
  obtain ⟨n2, p2, b2⟩ := runX_keys { ins := ins, outs := outs } e'
  simp only [xPartialTransaction, n1, p1, b1, n2, p2, b2, nil_append]
  have q := baseOf_perm p
  exact kc_sum_perm ((outputsOf_perm q).map _) ((inputsOf_perm q).map _) (excessesOf_perm q) (Perm.refl _)

/-- … hence the finished transaction carries the same fee, excess and **offset** for every
permutation of the element list, and the builder succeeds for one order iff it does for all. -/
theorem builder_offset_perm {e e' : List XStep} (p : e ~ e') (fee excess : Nat) :
    (xTransactionWithKernel e fee excess).map (fun t => (t.fee, t.excess, t.offset)) =
      (xTransactionWithKernel e' fee excess).map (fun t => (t.fee, t.excess, t.offset)) := by
  have h := partial_blind_sum_perm p [] []
  simp only [xPartialTransaction] at h
  unfold xTransactionWithKernel
  simp only
  rw [show ({ ins := [], outs := [] } : BuildSt) = {} from rfl] at h
  rw [h]
  cases kcBlindSum (runX {} e').posK (runX {} e').negK (runX {} e').posB [] with
  | ok bs => cases hb : bfSplit bs excess <;> simp [hb]
  | invalidKey => simp
  | panic => simp

/-- the finished transaction is the one the plain combinators alone would give, with the body the
fold left behind -/
theorem xTransactionWithKernel_eq (elems : List XStep) (fee excess : Nat) :
    xTransactionWithKernel elems fee excess =
      (transactionWithKernel (baseOf elems) fee excess).map fun t =>
        { t with ins := (runX {} elems).ins, outs := (runX {} elems).outs } := by
  obtain ⟨n1, p1, b1⟩ := runX_keys {} elems
  obtain ⟨n2, p2, b2⟩ := runSteps_keys {} (baseOf elems)
  unfold xTransactionWithKernel transactionWithKernel
  simp only [n1, p1, b1, n2, p2, b2]
  cases kcBlindSum (({} : BuildSt).posK ++ blinds (outputsOf (baseOf elems)))
      (({} : BuildSt).negK ++ blinds (inputsOf (baseOf elems))) (({} : BuildSt).posB ++ excessesOf (baseOf elems)) [] with
  | ok bs => cases hb : bfSplit bs excess <;> simp [hb]
  | invalidKey => simp
  | panic => simp

/-- **everything handed in is accounted for, in every order**: when the builder succeeds, kernel
excess + offset is the blind sum of ALL plain elements of the list — Σ output keys + Σ `with_excess`
factors − Σ input keys (mod n) — including those that stand before an `initial_tx`. -/
theorem xbuilder_offset_sum (elems : List XStep) (fee excess : Nat) (tx : Tx)
    (h : xTransactionWithKernel elems fee excess = some tx) :
    tx.fee = fee ∧ tx.excess = excess ∧
    (tx.excess + tx.offset) % N =
      rawSum (blinds (outputsOf (baseOf elems)) ++ (excessesOf (baseOf elems)).filterMap bfSecretKey)
        (blinds (inputsOf (baseOf elems))) := by
  rw [xTransactionWithKernel_eq] at h
  cases ht : transactionWithKernel (baseOf elems) fee excess with
  | none => rw [ht] at h; cases h
  | some t =>
    rw [ht] at h
    simp only [Option.map_some, Option.some.injEq] at h
    obtain ⟨_, _, hf, he, _, _, hs⟩ := builder_offset_sum (baseOf elems) fee excess t ht
    subst h
    exact ⟨hf, he, hs⟩

/-- **the body is what the LAST `initial_tx` and the elements after it make**: inputs and outputs
handed in before an `initial_tx` are not in the finished transaction (their keys stay in the sum). -/
theorem body_after_initial_tx (st : BuildSt) (pre post : List XStep) (i o : List Opening) :
    (runX st (pre ++ .initialTx i o :: post)).ins = (runX { ins := i, outs := o } post).ins ∧
    (runX st (pre ++ .initialTx i o :: post)).outs = (runX { ins := i, outs := o } post).outs := by
  simp only [runX, foldl_append, foldl_cons]
  exact runX_body_indep post _ _ rfl rfl

/-- **the two-party shape validates wherever the `with_excess` stands**: element list
`pre ++ [initial_tx(tx₀)] ++ post` with only `with_excess` elements in `pre` (any number, also
none), anything plain in `post`; pairwise different openings, values that balance, and extra
factors that sum to the blind sum of `tx₀` (the sender's `with_excess(blind_sum₀)`, before or after
`initial_tx`).  Then the finished transaction has the body `tx₀ + post` and satisfies the kernel-sum
equation. -/
theorem exchange_balances (pre post : List Step) (i0 o0 : List Opening) (fee excess : Nat) (tx : Tx)
    (hpre : inputsOf pre = [] ∧ outputsOf pre = [])
    (h : xTransactionWithKernel (pre.map .base ++ .initialTx i0 o0 :: post.map .base) fee excess = some tx)
    (hi : (i0 ++ inputsOf post).Nodup) (ho : (o0 ++ outputsOf post).Nodup)
    (hv : sumValues (i0 ++ inputsOf post) = sumValues (o0 ++ outputsOf post) + fee)
    (hx : rawSum ((excessesOf (pre ++ post)).filterMap bfSecretKey) [] = rawSum (blinds o0) (blinds i0)) :
    tx.ins = i0 ++ inputsOf post ∧ tx.outs = o0 ++ outputsOf post ∧ txBalances tx = true := by
  obtain ⟨hf, he, hs⟩ := xbuilder_offset_sum _ fee excess tx h
  have hb : baseOf (pre.map XStep.base ++ XStep.initialTx i0 o0 :: post.map XStep.base) = pre ++ post := by
    rw [baseOf_append]; simp [baseOf, baseOf_map_base]
  rw [hb] at hs
  -- the body
  have hbody := body_after_initial_tx {} (pre.map .base) (post.map .base) i0 o0
  rw [runX_base] at hbody
  rw [xTransactionWithKernel_eq] at h
  cases ht : transactionWithKernel (baseOf (pre.map XStep.base ++ XStep.initialTx i0 o0 :: post.map XStep.base)) fee excess with
  | none => rw [ht] at h; cases h
  | some t =>
    rw [ht] at h
    simp only [Option.map_some, Option.some.injEq] at h
    obtain ⟨_, _, _, _, hel, hol, _⟩ := builder_offset_sum _ fee excess t ht
    have e1 : tx.ins = i0 ++ inputsOf post := by
      rw [← h]; simp only
      rw [hbody.1, runSteps_ins _ post hi]
    have e2 : tx.outs = o0 ++ outputsOf post := by
      rw [← h]; simp only
      rw [hbody.2, runSteps_outs _ post ho]
    have e3 : tx.offset = t.offset := by rw [← h]
    have e4 : tx.excess = t.excess := by rw [← h]
    refine ⟨e1, e2, ?_⟩
    -- the sums
    have io : inputsOf (pre ++ post) = inputsOf post ∧ outputsOf (pre ++ post) = outputsOf post := by
      have a1 : ∀ (a b : List Step), inputsOf (a ++ b) = inputsOf a ++ inputsOf b := by
        intro a b; induction a with
        | nil => rfl
        | cons x t ih => cases x <;> simp [inputsOf, ih]
      have a2 : ∀ (a b : List Step), outputsOf (a ++ b) = outputsOf a ++ outputsOf b := by
        intro a b; induction a with
        | nil => rfl
        | cons x t ih => cases x <;> simp [outputsOf, ih]
      rw [a1, a2, hpre.1, hpre.2]; simp
    rw [io.1, io.2] at hs
    have hexl : tx.excess < N := by rw [e4]; obtain ⟨_, _, _, he', _⟩ := builder_offset_sum _ fee excess t ht; rw [he']; exact hel
    have hofl : tx.offset < N := by rw [e3]; exact hol
    simp only [txBalances, e1, e2, hf, hv, acc_eq_rawSum, sadd, Nat.mod_eq_of_lt hexl, Nat.mod_eq_of_lt hofl,
      beq_self_eq_true, Bool.true_and, beq_iff_eq]
    rw [hs]
    simp only [rawSum, blinds, map_append, sum_append, map_nil, sum_nil, Nat.add_zero] at hx ⊢
    generalize (map (fun x => x.blind) o0).sum = a at hx ⊢
    generalize (map sneg (map (fun x => x.blind) i0)).sum = c at hx ⊢
    generalize (map (fun x => x.blind) (outputsOf post)).sum = p
    generalize (map sneg (map (fun x => x.blind) (inputsOf post))).sum = q
    generalize (filterMap bfSecretKey (excessesOf (pre ++ post))).sum = x at hx ⊢
    simp only [N] at *
    omega

/-- **an observation about the code: inputs / outputs handed in BEFORE `initial_tx` are lost from the
body but not from the sum**, so such an order does not validate — `[output, initial_tx]` versus
`[initial_tx, output]` (kernel-checked): same blind sum, same offset, different body, and only the
second satisfies the kernel-sum equation. -/
theorem initial_tx_after_output_drops_it :
    (xTransactionWithKernel [.base (.output ⟨5, 11⟩), .initialTx [⟨7, 3⟩] []] 2 4).map txBalances = some false ∧
    (xTransactionWithKernel [.initialTx [⟨7, 3⟩] [], .base (.output ⟨5, 11⟩), .base (.withExcess (N - 3))] 2 4).map txBalances
      = some true ∧
    (xTransactionWithKernel [.base (.withExcess (N - 3)), .initialTx [⟨7, 3⟩] [], .base (.output ⟨5, 11⟩)] 2 4).map txBalances
      = some true := by
  refine ⟨by decide, by decide, by decide⟩

/-- **`with_excess` may stand anywhere as far as the body is concerned**: the inputs and outputs of
the finished transaction are those of the list with every `with_excess` removed (and by
`builder_offset_perm` the offset does not depend on where it stands either). -/
theorem body_ignores_with_excess (elems : List XStep) (st : BuildSt) :
    (runX st elems).ins = (runX st (elems.filter (fun e => !isExcess e))).ins ∧
    (runX st elems).outs = (runX st (elems.filter (fun e => !isExcess e))).outs :=
  runX_body_drop_excess elems st

/-- **`partial_transaction(base, elems)`: the base transaction contributes nothing to the blinding
sum** — the sum returned is that of the elements alone, whatever body the fold starts from (the
blinding of the base has to be handed in with `with_excess`). -/
theorem partial_sum_ignores_base (bi bo : List Opening) (elems : List XStep) :
    (xPartialTransaction bi bo elems).2.2 = (xPartialTransaction [] [] elems).2.2 := by
  obtain ⟨h1, h2, h3⟩ := runX_keys_indep_body elems { ins := bi, outs := bo } { ins := [], outs := [] } rfl rfl rfl
  simp only [xPartialTransaction, h1, h2, h3]

/-- **an `initial_tx` among the elements replaces the base as well**: the body
`partial_transaction(base, pre ++ [initial_tx(tx)] ++ post)` returns is the one
`partial_transaction(tx, post)` returns. -/
theorem partial_base_replaced (bi bo i o : List Opening) (pre post : List XStep) :
    (xPartialTransaction bi bo (pre ++ .initialTx i o :: post)).1 = (xPartialTransaction i o post).1 ∧
    (xPartialTransaction bi bo (pre ++ .initialTx i o :: post)).2.1 = (xPartialTransaction i o post).2.1 := by
  have h := body_after_initial_tx { ins := bi, outs := bo } pre post i o
  simp only [xPartialTransaction]
  exact h

/-- non-vacuity: a base with one input, elements `[with_excess, output, with_excess]` -/
example : (xPartialTransaction [⟨7, 3⟩] [] [.base (.withExcess 5), .base (.output ⟨4, 11⟩), .base (.withExcess 2)]).1 = [⟨7, 3⟩] ∧
    (xPartialTransaction [⟨7, 3⟩] [] [.base (.withExcess 5), .base (.output ⟨4, 11⟩), .base (.withExcess 2)]).2.2 = .ok 18 := by
  refine ⟨by decide, by decide⟩

/-! ## the offset the initial transaction carries -/

/-- **the final offset is assigned, not added**: `transaction_with_kernel` gives the same transaction
— body, fee, excess and OFFSET — whatever offsets the transactions installed by `initial_tx` carry
(a partial transaction with zero offset or a finished `build::transaction` result with a random
one); only the steps matter. -/
theorem final_offset_ignores_initial_offset (elems elems' : List XElem) (fee excess : Nat)
    (h : elems.map (·.step) = elems'.map (·.step)) :
    xTransactionWithKernelO elems fee excess = xTransactionWithKernelO elems' fee excess := by
  unfold xTransactionWithKernelO; rw [h]

/-- … in particular with every initial offset replaced by zero -/
theorem final_offset_as_with_zero_initial_offset (elems : List XElem) (fee excess : Nat) :
    xTransactionWithKernelO elems fee excess =
      xTransactionWithKernelO (elems.map fun e => { e with txOffset := 0 }) fee excess :=
  final_offset_ignores_initial_offset _ _ fee excess (by simp [Function.comp_def])

/-- **the two-party shape validates whatever offset the first party's transaction carries**:
`exchange_balances` for an initial transaction with any offset `f0`. -/
theorem exchange_balances_any_initial_offset (pre post : List Step) (i0 o0 : List Opening) (f0 fee excess : Nat) (tx : Tx)
    (hpre : inputsOf pre = [] ∧ outputsOf pre = [])
    (h : xTransactionWithKernelO
      (pre.map (fun s => ⟨.base s, 0⟩) ++ ⟨.initialTx i0 o0, f0⟩ :: post.map (fun s => ⟨.base s, 0⟩)) fee excess = some tx)
    (hi : (i0 ++ inputsOf post).Nodup) (ho : (o0 ++ outputsOf post).Nodup)
    (hv : sumValues (i0 ++ inputsOf post) = sumValues (o0 ++ outputsOf post) + fee)
    (hx : rawSum ((excessesOf (pre ++ post)).filterMap bfSecretKey) [] = rawSum (blinds o0) (blinds i0)) :
    tx.ins = i0 ++ inputsOf post ∧ tx.outs = o0 ++ outputsOf post ∧ txBalances tx = true := by
  apply exchange_balances pre post i0 o0 fee excess tx hpre _ hi ho hv hx
  unfold xTransactionWithKernelO at h
  simpa [Function.comp_def] using h

/-- what `partial_transaction` hands back: the offset of the LAST `initial_tx`, the base's if there is none -/
theorem partial_offset (start : Nat) (pre post : List XElem) (i o : List Opening) (f : Nat)
    (hpost : ∀ e ∈ post, ∃ s, e.step = .base s) :
    foldTxOffset start (pre ++ ⟨.initialTx i o, f⟩ :: post) = f ∧
    (∀ (l : List XElem), (∀ e ∈ l, ∃ s, e.step = .base s) → foldTxOffset start l = start) := by
  have hbase : ∀ (l : List XElem) (st : Nat), (∀ e ∈ l, ∃ s, e.step = .base s) → foldTxOffset st l = st := by
    intro l
    induction l with
    | nil => intro st _; rfl
    | cons e r ih =>
      intro st h
      obtain ⟨s, hs⟩ := h e mem_cons_self
      obtain ⟨stp, fo⟩ := e
      simp only at hs
      subst hs
      simp only [foldTxOffset]
      exact ih st (fun x hx => h x (mem_cons_of_mem _ hx))
  refine ⟨?_, fun l hl => hbase l start hl⟩
  induction pre generalizing start with
  | nil => simp only [nil_append, foldTxOffset]; exact hbase post f hpost
  | cons e r ih =>
    obtain ⟨stp, fo⟩ := e
    cases stp with
    | base s => simp only [cons_append, foldTxOffset]; exact ih start
    | initialTx a b => simp only [cons_append, foldTxOffset]; exact ih fo

/-- non-vacuity: the same steps with initial offsets 0 and 77 give the same finished transaction -/
example : xTransactionWithKernelO [⟨.initialTx [⟨7, 3⟩] [], 77⟩, ⟨.base (.output ⟨5, 11⟩), 0⟩, ⟨.base (.withExcess (N - 3)), 0⟩] 2 4 =
    xTransactionWithKernelO [⟨.initialTx [⟨7, 3⟩] [], 0⟩, ⟨.base (.output ⟨5, 11⟩), 0⟩, ⟨.base (.withExcess (N - 3)), 0⟩] 2 4 := by
  decide

end GV.Props.C20
