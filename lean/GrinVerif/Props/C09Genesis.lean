import GrinVerif.Model.CrashGenesis
import GrinVerif.Props.C09SyncOrder
/-! C09 — the first start on an empty directory (`Model/CrashGenesis.lean`; known finding
C09-genesis-install-window; run `crash startup`: all 47 crash points of the real first start). -/
namespace GV.Props.C09Genesis
open GV GV.Crash GV.Gen GV.Props.C09SyncOrder

/-- **Which prefixes of the genesis installation open again — all of them, exactly.** A first start
killed after `k` of its eleven durable steps opens again unless `k` lies in one of three windows:
header hash file before header data file (`k = 1`), output files before the range-proof hash file
(`3 ≤ k ≤ 5`), kernel hash file before kernel data file (`8 ≤ k ≤ 9`). -/
theorem genesis_install_opens_iff (k : Nat) :
    recoverG (crashAfterG k) =
      (if k = 1 then some .other
       else if 3 ≤ k ∧ k ≤ 5 then some .other
       else if 8 ≤ k ∧ k ≤ 9 then some .txHashSetErr
       else none) := by
  by_cases h : k ≤ 11
  · have : k = 0 ∨ k = 1 ∨ k = 2 ∨ k = 3 ∨ k = 4 ∨ k = 5 ∨ k = 6 ∨ k = 7 ∨ k = 8 ∨ k = 9 ∨ k = 10 ∨ k = 11 := by
      omega
    rcases this with rfl | rfl | rfl | rfl | rfl | rfl | rfl | rfl | rfl | rfl | rfl | rfl <;> decide
  · have e : crashAfterG k = crashAfterG 11 := by
      unfold crashAfterG
      rw [List.take_of_length_le (by simp [genesisSteps]; omega), List.take_of_length_le (by simp [genesisSteps])]
    rw [e]
    have h1 : ¬ k = 1 := by omega
    have h2 : ¬ (3 ≤ k ∧ k ≤ 5) := by omega
    have h3 : ¬ (8 ≤ k ∧ k ≤ 9) := by omega
    simp only [h1, h2, h3, if_false]
    decide

/-- **The passing prefixes are not all sound**: a first start killed after the range-proof hash file
was written and before the commit (`k = 6, 7, 10`; `k = 8, 9` do not open at all) opens again, installs
genesis a second time on top of the stale copy, and leaves the genesis output unspendable — for every
other prefix that opens, the genesis output stays spendable. (Real node: `VERIF_STARTUP_SPEND_GENESIS=1
crash startup`, crash points 24–33 and 40–44: a chain whose block 5 spends the genesis coinbase stops
at b4 with `AlreadySpent`.) -/
theorem genesis_reinstall_duplicates_iff (k : Nat) :
    (recoverG (crashAfterG k) = none ∧ genesisOutputSpendable (crashAfterG k) = false) ↔
      (k = 6 ∨ k = 7 ∨ k = 10) := by
  by_cases h : k ≤ 11
  · have : k = 0 ∨ k = 1 ∨ k = 2 ∨ k = 3 ∨ k = 4 ∨ k = 5 ∨ k = 6 ∨ k = 7 ∨ k = 8 ∨ k = 9 ∨ k = 10 ∨ k = 11 := by
      omega
    rcases this with rfl | rfl | rfl | rfl | rfl | rfl | rfl | rfl | rfl | rfl | rfl | rfl <;> decide
  · have e : crashAfterG k = crashAfterG 11 := by
      unfold crashAfterG
      rw [List.take_of_length_le (by simp [genesisSteps]; omega), List.take_of_length_le (by simp [genesisSteps])]
    rw [e]
    constructor
    · intro hh; exact absurd hh.2 (by decide)
    · intro hh; omega

/-- once `setup_head`'s commit is durable the node opens, whatever the files hold -/
theorem committed_opens (g : GFiles) (h : g.committed = true) : recoverG g = none := by
  simp [recoverG, h]

/-- the window is real: 6 of the 12 prefixes do not open -/
theorem genesis_install_window_bricks :
    recoverG (crashAfterG 1) = some .other ∧ recoverG (crashAfterG 4) = some .other ∧
    recoverG (crashAfterG 8) = some .txHashSetErr := by decide

/-- the step list is the source's order (`Gen/SyncOrder.lean`): the appends of the header commit path,
then of the body commit path with the range-proof backend between output and kernel and the kernel
size file before its data file, then the commit -/
def gOfStep : Step → List GStep
  | .hdrHashApp => [.hdrHashApp] | .hdrDataApp => [.hdrDataApp]
  | .outHashApp => [.outHashApp] | .outDataApp => [.outDataApp]
  | .leafRename => [.leafRename, .rpHashApp, .rpDataApp]   -- the range-proof backend follows the output backend
  | .kerHashApp => [.kerHashApp] | .kerDataApp => [.kerSizeApp, .kerDataApp]   -- size file inside the data file's flush
  | _ => []

theorem genesisSteps_is_source_order :
    SyncOrder.extendingCommit = [20, 21, 22, 23] ∧ dedup SyncOrder.aofFlush = [10, 11, 12, 13] ∧
    genesisSteps =
      (expand SyncOrder.headerExtendingCommit SyncOrder.backendSync SyncOrder.aofFlush ++
       expand SyncOrder.extendingCommit SyncOrder.backendSync SyncOrder.aofFlush).flatMap gOfStep ++ [.commit] := by
  decide

end GV.Props.C09Genesis
