import GrinVerif.Model.CrashZip
import GrinVerif.Lemmas.CrashRecovL
import GrinVerif.Props.C09
/-! C09, the state-sync install (`Model/CrashZip.lean`; known finding
C09-state-sync-commit-before-swap): `Chain::txhashset_write` commits body head = body tail = archive
header to LMDB BEFORE `txhashset_replace` swaps the validated sandbox files into the chain
directory. For every block table, every archive path `P` (genesis first, at least one block above
genesis, more outputs than genesis alone) and every header chain `H`:
* `zip_before_commit_opens_old` — a death anywhere before the commit (all writes go to the sandbox)
  reopens on genesis;
* `zip_commit_before_swap_bricks_all` — a death between the commit and the swap: `Chain::init`
  fails (the stored head does not validate on the old files and the fallback needs the archive
  block's body, which state sync never had);
* `zip_clean_bricks_all` — the same with the old directory already removed;
* `zip_torn_bricks` — a half-removed directory fails in `TxHashSet::open`;
* `zip_after_swap_opens_new` — after the rename the node reopens on the archive header. -/
namespace GV.Props.C09Zip
open GV GV.Crash

theorem validAt_false_of_short (bcf : Nat → Bool) (d : Durable) (r : List Leaf) (P : List BlkInfo)
    (h : d.outHash.length < (leavesOf P).length) : validAt bcf d r P = false := by
  rw [validAt_eq]
  have hne : d.outHash.take (leavesOf P).length ≠ leavesOf P := by
    intro e
    have := congrArg List.length e
    rw [List.length_take] at this
    omega
  have : (d.outHash.take (leavesOf P).length == leavesOf P) = false := by
    rw [beq_eq_false_iff_ne]; exact hne
  rw [this]; simp

/-- what the theorems assume about the node: `g` is genesis, `P` the archive header's path, `H` the
path of the header head, all found in the table -/
structure ZipNode (tbl : List BlkInfo) (g : BlkInfo) (P H : List BlkInfo) : Prop where
  gpath : pathOf tbl (tbl.length + 1) g.id [] = some [g]
  ppath : pathOf tbl (tbl.length + 1) (tipOf P) [] = some P
  hpath : pathOf tbl (tbl.length + 1) (tipOf H) [] = some H
  plen : 1 < P.length
  ptip : tipOf P ≠ g.id
  more : (leavesOf [g]).length < (leavesOf P).length

theorem hdr_ok (g : BlkInfo) (H : List BlkInfo) :
    (zipStart g H).base.hdrHash.length = (zipStart g H).base.hdrData.length ∧
    (zipStart g H).base.dbHHead = tipOf H ∧ (zipStart g H).base.hdrData = H.map (·.id) := by
  refine ⟨by simp [zipStart], rfl, rfl⟩

theorem recoverZ_hdr (bcf : Nat → Bool) (tbl : List BlkInfo) (g : BlkInfo) (P H : List BlkInfo)
    (hz : ZipNode tbl g P H) (d : DurableZ)
    (h1 : d.torn = false) (h2 : d.base.hdrHash = H.map (·.id)) (h3 : d.base.hdrData = H.map (·.id))
    (h4 : d.base.dbHHead = tipOf H) :
    recoverZ bcf tbl d = fallbackZ bcf tbl d (tbl.length + 1) d.base.dbHead [] := by
  unfold recoverZ
  simp only [h1, Bool.false_eq_true, if_false, h2, h3, h4, hz.hpath, ne_eq, not_true_eq_false]
  rw [if_neg]
  simp [take_map_len]

/-- **Before the commit.** -/
theorem zip_before_commit_opens_old (bcf : Nat → Bool) (tbl : List BlkInfo) (g : BlkInfo)
    (P H : List BlkInfo) (hz : ZipNode tbl g P H) :
    recoverZ bcf tbl (zipStart g H) = .ok g.id := by
  rw [recoverZ_hdr bcf tbl g P H hz _ rfl rfl rfl rfl]
  have : (zipStart g H).base.dbHead = g.id := by simp [zipStart, consistent]
  rw [this]
  unfold fallbackZ
  simp [hz.gpath]

/-- **Between the commit and the swap: the node does not open.** -/
theorem zip_commit_before_swap_bricks_all (bcf : Nat → Bool) (tbl : List BlkInfo) (g : BlkInfo)
    (P H : List BlkInfo) (hz : ZipNode tbl g P H) :
    recoverZ bcf tbl (applyZStep P (zipStart g H) .commit) = .openFail .storeErr := by
  rw [recoverZ_hdr bcf tbl g P H hz _ rfl rfl rfl rfl]
  have hh : (applyZStep P (zipStart g H) .commit).base.dbHead = tipOf P := rfl
  rw [hh]
  unfold fallbackZ
  simp only [hz.ppath]
  have hl : ¬ P.length ≤ 1 := by have := hz.plen; omega
  have hv : validAt bcf (applyZStep P (zipStart g H) .commit).base [] P = false := by
    apply validAt_false_of_short
    show (consistent [g]).outHash.length < _
    simpa [consistent] using hz.more
  have hb : (applyZStep P (zipStart g H) .commit).bodies.contains (tipOf P) = false := by
    show [g.id].contains (tipOf P) = false
    simp; exact hz.ptip
  simp only [hl, if_false, hv, Bool.false_eq_true]
  rw [if_pos (by rw [hb]; rfl)]

/-- **Old directory removed, sandbox not yet renamed: the node does not open.** -/
theorem zip_clean_bricks_all (bcf : Nat → Bool) (tbl : List BlkInfo) (g : BlkInfo)
    (P H : List BlkInfo) (hz : ZipNode tbl g P H) :
    recoverZ bcf tbl (applyZStep P (applyZStep P (zipStart g H) .commit) .clean) = .openFail .storeErr := by
  rw [recoverZ_hdr bcf tbl g P H hz _ rfl rfl rfl rfl]
  have hh : (applyZStep P (applyZStep P (zipStart g H) .commit) .clean).base.dbHead = tipOf P := rfl
  rw [hh]
  unfold fallbackZ
  simp only [hz.ppath]
  have hl : ¬ P.length ≤ 1 := by have := hz.plen; omega
  have hv : validAt bcf (applyZStep P (applyZStep P (zipStart g H) .commit) .clean).base [] P = false := by
    apply validAt_false_of_short
    show ([] : List Leaf).length < _
    have := hz.more; simp; omega
  have hb : (applyZStep P (applyZStep P (zipStart g H) .commit) .clean).bodies.contains (tipOf P) = false := by
    show [g.id].contains (tipOf P) = false
    simp; exact hz.ptip
  simp only [hl, if_false, hv, Bool.false_eq_true]
  rw [if_pos (by rw [hb]; rfl)]

/-- **A half-removed directory fails in `TxHashSet::open`.** -/
theorem zip_torn_bricks (bcf : Nat → Bool) (tbl : List BlkInfo) (P : List BlkInfo) (d : DurableZ) :
    recoverZ bcf tbl (applyZStep P d .cleanPartial) = .openFail .txHashSetErr := by
  simp [recoverZ, applyZStep]

/-- **After the rename the node reopens on the archive header.** -/
theorem zip_after_swap_opens_new (bcf : Nat → Bool) (tbl : List BlkInfo) (g : BlkInfo)
    (P H : List BlkInfo) (hz : ZipNode tbl g P H) :
    recoverZ bcf tbl (applyZStep P (applyZStep P (applyZStep P (zipStart g H) .commit) .clean) .rename) =
      .ok (tipOf P) := by
  rw [recoverZ_hdr bcf tbl g P H hz _ rfl rfl rfl rfl]
  have hh : (applyZStep P (applyZStep P (applyZStep P (zipStart g H) .commit) .clean) .rename).base.dbHead = tipOf P := rfl
  rw [hh]
  unfold fallbackZ
  simp only [hz.ppath]
  have hv : validAt bcf (applyZStep P (applyZStep P (applyZStep P (zipStart g H) .commit) .clean) .rename).base [] P = true := by
    apply validAt_true_of
    · exact ⟨List.prefix_refl _, List.prefix_refl _, List.prefix_refl _, List.prefix_refl _⟩
    · intro l
      show l ∈ unspentOf P ↔ (l ∈ leavesOf P ∧ (l ∈ unspentOf P ∨ l ∈ ([] : List Leaf)))
      constructor
      · intro hl; exact ⟨unspentOf_subset_leaves P l hl, Or.inl hl⟩
      · rintro ⟨_, h | h⟩
        · exact h
        · simp at h
  simp [hv]

/-! ### non-vacuity: the witness chain of `Props/C09.lean` as source, archive header b5, all 9 headers -/
open GV.Props.C09 in
example : ZipNode tbl9 (blk 0 []) (tbl9.take 6) tbl9 :=
  ⟨by decide, by decide, by decide, by decide, by decide, by decide⟩
open GV.Props.C09 in
example : recoverZ bc tbl9 (zipStart (blk 0 []) tbl9) = .ok 0 ∧
    recoverZ bc tbl9 (applyZStep (tbl9.take 6) (zipStart (blk 0 []) tbl9) .commit) = .openFail .storeErr ∧
    recoverZ bc tbl9 ([ZStep.commit, .clean, .rename].foldl (applyZStep (tbl9.take 6)) (zipStart (blk 0 []) tbl9)) = .ok 5 := by
  decide

end GV.Props.C09Zip
