import GrinVerif.Lemmas.PowRoom
/-! # C05 — PoW verification accepts exactly the simple cycles of the header-seeded graph

All theorems are about the verifier models of `Model/Pow.lean` (transliterations of the five Rust
`verify` functions) and hold for **every** endpoint function `ep` (every header seed / siphash
key, every `edge_bits`), every bucket hash `P.bk`, every nonce list — no size bound.
`IsProofCycle*` (Model/PowSpec.lean) is the declarative "one simple cycle through all edges". -/
namespace GV.Props.C05
open GV GV.Pow

/-! ## Cuckaroom -/

/-- **Soundness of the Cuckaroom verifier.** If `verify` returns `Ok` then the proof has exactly
`proofsize` nonces, strictly ascending, all `≤ edge_mask`, and the selected edges
`(from, to) = ep nonce` form one simple directed cycle through all of them. -/
theorem verifyCuckaroom_sound (P : Params) (ep : Nat → Nat × Nat) (ns : List Nat)
    (h : verifyCuckaroom P ep ns = .ok ()) :
    ns.length = P.proofsize ∧ Ascending ns ∧ (∀ x ∈ ns, x ≤ P.edgeMask) ∧
      IsProofCycleCuckaroom (ns.map ep) := by
  unfold verifyCuckaroom at h
  by_cases hl : ns.length = P.proofsize
  case neg => simp [hl] at h
  simp only [hl, ne_eq, not_true_eq_false, if_false] at h
  rw [← hl] at h
  cases hb : roomBuild P ep ns 0 none (RoomSt.init ns.length) with
  | error e => simp [hb] at h
  | ok s =>
    simp only [hb] at h
    obtain ⟨inv, hmask, hasc⟩ :=
      roomBuild_spec P ep ns ns [] none _ s (by simp) (roomInv_init P ep ns) hb
    by_cases hx : s.xf = s.xt
    case neg => simp [hx] at h
    simp only [hx, ne_eq, not_true_eq_false, if_false] at h
    cases hw : roomWalk P ns.length s (ns.length + 1) (fun _ => false) 0 0 with
    | error e => simp [hw] at h
    | ok n =>
      simp only [hw] at h
      by_cases hn : n = ns.length
      case neg => simp [hn] at h
      obtain ⟨tr, htr, hm⟩ := roomWalk_trace P ns.length s _ _ _ _ _ hw
      refine ⟨hl, (ascChain_spec ns none hasc).1, hmask, tr, ?_⟩
      exact room_cycle P ep ns s inv tr htr (by omega)

/-- non-vacuity: a directed 4-cycle `0→1→2→3→0` is accepted -/
example : verifyCuckaroom ⟨4, 3, 4, fun x => x % 8⟩ (fun n => (n, (n + 1) % 4)) [0, 1, 2, 3] = .ok () := by
  rfl

/-- … and a 6-cycle whose edges are not in cycle order, with colliding buckets -/
example : verifyCuckaroom ⟨6, 15, 6, fun x => x % 2⟩
    (fun n => match n with
      | 1 => (10, 30) | 3 => (50, 10) | 4 => (30, 20) | 7 => (20, 60) | 8 => (60, 40) | 9 => (40, 50)
      | _ => (0, 0)) [1, 3, 4, 7, 8, 9] = .ok () := by
  rfl

end GV.Props.C05
