import GrinVerif.Lemmas.PowRoom
import GrinVerif.Lemmas.PowUSound
/-! # C05 — PoW verification accepts exactly the simple cycles of the header-seeded graph

All theorems are about the verifier models of `Model/Pow.lean` (transliterations of the five Rust
`verify` functions) and hold for **every** endpoint function `ep` (every header seed / siphash
key, every `edge_bits`), every bucket hash `P.bk`, every nonce list — no size bound.
`IsProofCycle*` (Model/PowSpec.lean) is the declarative "one simple cycle through all edges". -/
namespace GV.Props.C05
open GV GV.Pow

/-! ## Cuckaroom -/

/-- **Soundness of the Cuckaroom verifier.** If `verify` returns `Ok` then the proof has exactly
`proofsize` nonces, strictly ascending, all `≤ edge_mask`, and the selected edges
`(from, to) = ep nonce` form one simple directed cycle through all of them. -/
theorem verifyCuckaroom_sound (P : Params) (ep : Nat → Nat × Nat) (ns : List Nat)
    (h : verifyCuckaroom P ep ns = .ok ()) :
    ns.length = P.proofsize ∧ Ascending ns ∧ (∀ x ∈ ns, x ≤ P.edgeMask) ∧
      IsProofCycleCuckaroom (ns.map ep) := by
  unfold verifyCuckaroom at h
  by_cases hl : ns.length = P.proofsize
  case neg => simp [hl] at h
  simp only [hl, ne_eq, not_true_eq_false, if_false] at h
  rw [← hl] at h
  cases hb : roomBuild P ep ns 0 none (RoomSt.init ns.length) with
  | error e => simp [hb] at h
  | ok s =>
    simp only [hb] at h
    obtain ⟨inv, hmask, hasc⟩ :=
      roomBuild_spec P ep ns ns [] none _ s (by simp) (roomInv_init P ep ns) hb
    by_cases hx : s.xf = s.xt
    case neg => simp [hx] at h
    simp only [hx, ne_eq, not_true_eq_false, if_false] at h
    cases hw : roomWalk P ns.length s (ns.length + 1) (fun _ => false) 0 0 with
    | error e => simp [hw] at h
    | ok n =>
      simp only [hw] at h
      by_cases hn : n = ns.length
      case neg => simp [hn] at h
      obtain ⟨tr, htr, hm⟩ := roomWalk_trace P ns.length s _ _ _ _ _ hw
      refine ⟨hl, (ascChain_spec ns none hasc).1, hmask, tr, ?_⟩
      exact room_cycle P ep ns s inv tr htr (by omega)

/-- non-vacuity: a directed 4-cycle `0→1→2→3→0` is accepted -/
example : verifyCuckaroom ⟨4, 3, 4, fun x => x % 8⟩ (fun n => (n, (n + 1) % 4)) [0, 1, 2, 3] = .ok () := by
  decide +kernel

/-- … and a 6-cycle whose edges are not in cycle order, with colliding buckets -/
example : verifyCuckaroom ⟨6, 15, 6, fun x => x % 2⟩
    (fun n => match n with
      | 1 => (10, 30) | 3 => (50, 10) | 4 => (30, 20) | 7 => (20, 60) | 8 => (60, 40) | 9 => (40, 50)
      | _ => (0, 0)) [1, 3, 4, 7, 8, 9] = .ok () := by
  decide +kernel

/-! ## Cuckaroo, Cuckarooz, Cuckatoo (the shared "circular prev list" engine) -/

/-- **Soundness of the Cuckaroo verifier**: `Ok` ⟹ exactly `proofsize` nonces, strictly ascending,
all `≤ edge_mask`, and the edges form one simple cycle through all of them in the bipartite graph
(vertices = (side, node)). -/
theorem verifyCuckaroo_sound (P : Params) (ep : Nat → Nat × Nat) (ns : List Nat)
    (h : verifyCuckaroo P ep ns = .ok ()) :
    ns.length = P.proofsize ∧ Ascending ns ∧ (∀ x ∈ ns, x ≤ P.edgeMask) ∧
      IsProofCycleCuckaroo (ns.map ep) := by
  obtain ⟨h1, h2, h3, tr, h4⟩ := verifyU_cycle cfgCuckaroo mtEquiv_cuckaroo P ep ns (by simp [cfgCuckaroo]) h
  refine ⟨h1, h2, h3, tr, ?_⟩
  rw [List.length_map]
  refine h4.mono ?_ ?_
  · intro a b hp
    obtain ⟨⟨_, _, hk⟩, hm, _, _⟩ := hp
    simp only [keyF, cfgCuckaroo] at hk
    simp only [cfgCuckaroo, beq_iff_eq] at hm
    exact ⟨by unfold sameSide; omega, hm.symm⟩
  · intro a b hv
    obtain ⟨hs, hn⟩ := hv
    unfold sameSide at hs
    have hn' : uvF ep ns a = uvF ep ns b := hn
    simp only [keyF, cfgCuckaroo, hs, hn', beq_self_eq_true, and_self]

/-- **Soundness of the Cuckarooz verifier** (one node space), for a context whose `proof_size`
is the global proof size — which is how `pow::verify_size` builds it. -/
theorem verifyCuckarooz_sound (P : Params) (ep : Nat → Nat × Nat) (ns : List Nat)
    (hctx : P.ctxProofSize = P.proofsize)
    (h : verifyCuckarooz P ep ns = .ok ()) :
    ns.length = P.proofsize ∧ Ascending ns ∧ (∀ x ∈ ns, x ≤ P.edgeMask) ∧
      IsProofCycleCuckarooz (ns.map ep) := by
  obtain ⟨h1, h2, h3, tr, h4⟩ := verifyU_cycle cfgCuckarooz mtEquiv_cuckarooz P ep ns (fun _ => hctx) h
  refine ⟨h1, h2, h3, tr, ?_⟩
  rw [List.length_map]
  refine h4.mono ?_ ?_
  · intro a b hp
    obtain ⟨_, hm, _, _⟩ := hp
    simp only [cfgCuckarooz, beq_iff_eq] at hm
    exact hm.symm
  · intro a b hv
    have hn' : uvF ep ns a = uvF ep ns b := hv
    simp only [keyF, cfgCuckarooz, hn', beq_self_eq_true, and_self]

/-- **Soundness of the Cuckatoo verifier**: vertices are (side, node >> 1); consecutive edges of
the cycle meet in nodes that differ exactly in the lowest bit. -/
theorem verifyCuckatoo_sound (P : Params) (ep : Nat → Nat × Nat) (ns : List Nat)
    (h : verifyCuckatoo P ep ns = .ok ()) :
    ns.length = P.proofsize ∧ Ascending ns ∧ (∀ x ∈ ns, x ≤ P.edgeMask) ∧
      IsProofCycleCuckatoo (ns.map ep) := by
  obtain ⟨h1, h2, h3, tr, h4⟩ := verifyU_cycle cfgCuckatoo mtEquiv_cuckatoo P ep ns (by simp [cfgCuckatoo]) h
  refine ⟨h1, h2, h3, tr, ?_⟩
  rw [List.length_map]
  refine h4.mono ?_ ?_
  · intro a b hp
    obtain ⟨⟨_, _, hk⟩, hm, _, hd⟩ := hp
    simp only [keyF, cfgCuckatoo] at hk
    simp only [cfgCuckatoo, beq_iff_eq, shr_one] at hm
    have hne := hd rfl
    refine ⟨by unfold sameSide; omega, ?_⟩
    rcases eq_or_xor_of_half _ _ hm.symm with e | e
    · exact absurd e.symm hne
    · exact e
  · intro a b hv
    obtain ⟨hs, hn⟩ := hv
    unfold sameSide at hs
    have hn' : uvF ep ns a >>> 1 = uvF ep ns b >>> 1 := hn
    simp only [keyF, cfgCuckatoo, hs, hn', beq_self_eq_true, and_self]

/-- non-vacuity: a 4-cycle `u0 -e0- v0 -e1- u1 -e2- v1 -e3- u0` is accepted by Cuckaroo … -/
example : verifyCuckaroo ⟨4, 7, 4, fun x => x % 8⟩
    (fun n => match n with | 0 => (5, 9) | 2 => (6, 9) | 5 => (6, 3) | 7 => (5, 3) | _ => (0, 0))
    [0, 2, 5, 7] = .ok () := by decide +kernel
/-- … by Cuckarooz (one node space, a 4-cycle `1-2-3-4-1`) … -/
example : verifyCuckarooz ⟨4, 7, 4, fun x => x % 8⟩
    (fun n => match n with | 0 => (1, 2) | 2 => (3, 2) | 5 => (3, 4) | 7 => (1, 4) | _ => (0, 0))
    [0, 2, 5, 7] = .ok () := by decide +kernel
/-- … and by Cuckatoo (edge ends pair up as `x`, `x ^ 1`). -/
example : verifyCuckatoo ⟨4, 7, 4, fun x => x % 8⟩
    (fun n => match n with | 0 => (4, 8) | 2 => (6, 9) | 5 => (7, 2) | 7 => (5, 3) | _ => (0, 0))
    [0, 2, 5, 7] = .ok () := by decide +kernel

/-- The hypothesis of `verifyCuckarooz_sound` is needed: a Cuckarooz context built with
`proof_size = 2` while `global::proofsize() = 4` accepts two disjoint 2-cycles (the real code does
the same, harness case `twohalves-ctx4`; `pow::verify_size` never builds such a context). -/
example : verifyCuckarooz ⟨4, 7, 2, fun x => x % 8⟩
    (fun n => match n with | 0 => (1, 2) | 2 => (1, 2) | 5 => (3, 4) | 7 => (3, 4) | _ => (0, 0))
    [0, 2, 5, 7] = .ok () := by decide +kernel

end GV.Props.C05
