import GrinVerif.Lemmas.PowRoom
import GrinVerif.Lemmas.PowUSound
import GrinVerif.Lemmas.PowRoodCycle
import GrinVerif.Lemmas.PowRoomComplete
import GrinVerif.Lemmas.PowTotal
import GrinVerif.Lemmas.PowUXor
import GrinVerif.Lemmas.PowRoodComplete
import GrinVerif.Model.PowCtx
import GrinVerif.Model.PowDiff
import GrinVerif.Model.PowSize
/-! # C05 — PoW verification accepts exactly the simple cycles of the header-seeded graph

All theorems are about the verifier models of `Model/Pow.lean` (transliterations of the five Rust
`verify` functions) and hold for **every** endpoint function `ep` (every header seed / siphash
key, every `edge_bits`), every bucket hash `P.bk` (Cuckarood: every one that keeps the lowest
bit), every nonce list — no size bound.
`IsProofCycle*` (Model/PowSpec.lean) is the declarative "one simple cycle through all edges".

| variant    | ⇒ (`_sound`) | ⇐ (`_complete`) | ⇔ (`_iff`) | terminates |
|------------|--------------|-----------------|------------|------------|
| Cuckaroom  | ✓            | ✓               | ✓          | ✓          |
| Cuckaroo   | ✓            | ✓               | ✓          | ✓          |
| Cuckarooz  | ✓ (ctx size = proof size) | ✓  | ✓          | ✓          |
| Cuckatoo   | ✓            | ✓               | ✓          | ✓          |
| Cuckarood  | ✓ (bk keeps bit 0) | ✓         | ✓          | ✓ (since repair df0049399) |

Proof structure (Lemmas/Pow*.lean): the first loop in closed form (`lastBelow`: bucket lists are
"largest earlier slot with the same key"); the inner search returns *the unique* matching slot of
the list or errs (`uFind_ok`, `chainFind`, `roomFind_ok`); an accepted walk is a `Trace`, which is
duplicate-free by determinism alone; partner is an involution ⇒ no edge is retraced ⇒ the `L` entry
slots lie on `L` different edges (`ucyc_cycle`); conversely a cycle yields the partner structure
(`gcyc_partner`), the xor test passes by pairing slots (`xorAll_pairs`), and the walk follows the
cycle forwards or backwards (`gcyc_trace`). Cuckarood is reduced to the same engine through its
per-direction slot numbering (`slotOf`, `sigR`). -/
namespace GV.Props.C05
open GV GV.Pow GV.Gen

/-! ## Cuckaroom -/

/-- **Soundness of the Cuckaroom verifier.** If `verify` returns `Ok` then the proof has exactly
`proofsize` nonces, strictly ascending, all `≤ edge_mask`, and the selected edges
`(from, to) = ep nonce` form one simple directed cycle through all of them. -/
theorem verifyCuckaroom_sound (P : Params) (ep : Nat → Nat × Nat) (ns : List Nat)
    (h : verifyCuckaroom P ep ns = .ok ()) :
    ns.length = P.proofsize ∧ Ascending ns ∧ (∀ x ∈ ns, x ≤ P.edgeMask) ∧
      IsProofCycleCuckaroom (ns.map ep) := by
  unfold verifyCuckaroom at h
  by_cases hl : ns.length = P.proofsize
  case neg => simp [hl] at h
  simp only [hl, ne_eq, not_true_eq_false, if_false] at h
  rw [← hl] at h
  cases hb : roomBuild P ep ns 0 none (RoomSt.init ns.length) with
  | error e => simp [hb] at h
  | ok s =>
    simp only [hb] at h
    obtain ⟨inv, hmask, hasc⟩ :=
      roomBuild_spec P ep ns ns [] none _ s (by simp) (roomInv_init P ep ns) hb
    by_cases hx : s.xf = s.xt
    case neg => simp [hx] at h
    simp only [hx, ne_eq, not_true_eq_false, if_false] at h
    cases hw : roomWalk P ns.length s (ns.length + 1) (fun _ => false) 0 0 with
    | error e => simp [hw] at h
    | ok n =>
      simp only [hw] at h
      by_cases hn : n = ns.length
      case neg => simp [hn] at h
      obtain ⟨tr, htr, hm⟩ := roomWalk_trace P ns.length s _ _ _ _ _ hw
      refine ⟨hl, (ascChain_spec ns none hasc).1, hmask, tr, ?_⟩
      exact room_cycle P ep ns s inv tr htr (by omega)

/-- **Completeness of the Cuckaroom verifier**: every simple directed cycle through all edges,
presented as `proofsize > 0` strictly ascending nonces within the edge mask, is accepted (in
particular the early xor test never rejects a real cycle, the bucket hash never hides a match, and
no loop of the model runs out of fuel). -/
theorem verifyCuckaroom_complete (P : Params) (ep : Nat → Nat × Nat) (ns : List Nat)
    (hps : 0 < P.proofsize) (hlen : ns.length = P.proofsize) (hasc : Ascending ns)
    (hmask : ∀ x ∈ ns, x ≤ P.edgeMask) (hc : IsProofCycleCuckaroom (ns.map ep)) :
    verifyCuckaroom P ep ns = .ok () := by
  obtain ⟨c, hc⟩ := hc
  have hL : 0 < ns.length := by omega
  obtain ⟨s, hb, hxf, hxt⟩ := roomBuild_complete P ep ns 0 none (RoomSt.init ns.length) hmask
    (ascChain_of_pairwise ns none hasc (fun y hy => by cases hy))
  obtain ⟨inv, _, _⟩ := roomBuild_spec P ep ns ns [] none _ s (by simp) (roomInv_init P ep ns) hb
  have hx : s.xf = s.xt := by
    rw [hxf, hxt, room_xor_eq ep ns c hc hL]; rfl
  obtain ⟨tr, htr, htl⟩ := room_trace_of_cycle P ep ns s inv c hc hL
  have hw := roomWalk_complete P ns.length s tr 0 htr ns.length 0 (ns.length + 1) (fun _ => false) 0
    (by omega) hL (by omega) (fun x hx => by cases hx)
  rw [htr.head] at hw
  unfold verifyCuckaroom
  simp only [hlen, ne_eq, not_true_eq_false, if_false]
  rw [← hlen, hb]
  simp only [hx, not_true_eq_false, if_false]
  rw [hw]
  simp

/-- **Cuckaroom: verification accepts exactly the simple directed cycles.** -/
theorem verifyCuckaroom_iff (P : Params) (ep : Nat → Nat × Nat) (ns : List Nat)
    (hps : 0 < P.proofsize) :
    verifyCuckaroom P ep ns = .ok () ↔
      (ns.length = P.proofsize ∧ Ascending ns ∧ (∀ x ∈ ns, x ≤ P.edgeMask) ∧
        IsProofCycleCuckaroom (ns.map ep)) :=
  ⟨verifyCuckaroom_sound P ep ns,
   fun ⟨h1, h2, h3, h4⟩ => verifyCuckaroom_complete P ep ns hps h1 h2 h3 h4⟩

/-- non-vacuity: a directed 4-cycle `0→1→2→3→0` is accepted -/
example : verifyCuckaroom ⟨4, 3, 4, fun x => x % 8⟩ (fun n => (n, (n + 1) % 4)) [0, 1, 2, 3] = .ok () := by
  decide +kernel

/-- … and a 6-cycle whose edges are not in cycle order, with colliding buckets -/
example : verifyCuckaroom ⟨6, 15, 6, fun x => x % 2⟩
    (fun n => match n with
      | 1 => (10, 30) | 3 => (50, 10) | 4 => (30, 20) | 7 => (20, 60) | 8 => (60, 40) | 9 => (40, 50)
      | _ => (0, 0)) [1, 3, 4, 7, 8, 9] = .ok () := by
  decide +kernel

/-! ## Cuckaroo, Cuckarooz, Cuckatoo (the shared "circular prev list" engine) -/

/-- **Soundness of the Cuckaroo verifier**: `Ok` ⟹ exactly `proofsize` nonces, strictly ascending,
all `≤ edge_mask`, and the edges form one simple cycle through all of them in the bipartite graph
(vertices = (side, node)). -/
theorem verifyCuckaroo_sound (P : Params) (ep : Nat → Nat × Nat) (ns : List Nat)
    (h : verifyCuckaroo P ep ns = .ok ()) :
    ns.length = P.proofsize ∧ Ascending ns ∧ (∀ x ∈ ns, x ≤ P.edgeMask) ∧
      IsProofCycleCuckaroo (ns.map ep) := by
  obtain ⟨h1, h2, h3, tr, h4⟩ := verifyU_cycle cfgCuckaroo mtEquiv_cuckaroo P ep ns (by simp [cfgCuckaroo]) h
  refine ⟨h1, h2, h3, tr, ?_⟩
  rw [List.length_map]
  refine h4.mono ?_ ?_
  · intro a b hp
    obtain ⟨⟨_, _, hk⟩, hm, _, _⟩ := hp
    simp only [keyF, cfgCuckaroo] at hk
    simp only [cfgCuckaroo, beq_iff_eq] at hm
    exact ⟨by unfold sameSide; omega, hm.symm⟩
  · intro a b hv
    obtain ⟨hs, hn⟩ := hv
    unfold sameSide at hs
    have hn' : uvF ep ns a = uvF ep ns b := hn
    simp only [keyF, cfgCuckaroo, hs, hn', beq_self_eq_true, and_self]

/-- **Soundness of the Cuckarooz verifier** (one node space), for a context whose `proof_size`
is the global proof size — which is how `pow::verify_size` builds it. -/
theorem verifyCuckarooz_sound (P : Params) (ep : Nat → Nat × Nat) (ns : List Nat)
    (hctx : P.ctxProofSize = P.proofsize)
    (h : verifyCuckarooz P ep ns = .ok ()) :
    ns.length = P.proofsize ∧ Ascending ns ∧ (∀ x ∈ ns, x ≤ P.edgeMask) ∧
      IsProofCycleCuckarooz (ns.map ep) := by
  obtain ⟨h1, h2, h3, tr, h4⟩ := verifyU_cycle cfgCuckarooz mtEquiv_cuckarooz P ep ns (fun _ => hctx) h
  refine ⟨h1, h2, h3, tr, ?_⟩
  rw [List.length_map]
  refine h4.mono ?_ ?_
  · intro a b hp
    obtain ⟨_, hm, _, _⟩ := hp
    simp only [cfgCuckarooz, beq_iff_eq] at hm
    exact hm.symm
  · intro a b hv
    have hn' : uvF ep ns a = uvF ep ns b := hv
    simp only [keyF, cfgCuckarooz, hn', beq_self_eq_true, and_self]

/-- **Soundness of the Cuckatoo verifier**: vertices are (side, node >> 1); consecutive edges of
the cycle meet in nodes that differ exactly in the lowest bit. -/
theorem verifyCuckatoo_sound (P : Params) (ep : Nat → Nat × Nat) (ns : List Nat)
    (h : verifyCuckatoo P ep ns = .ok ()) :
    ns.length = P.proofsize ∧ Ascending ns ∧ (∀ x ∈ ns, x ≤ P.edgeMask) ∧
      IsProofCycleCuckatoo (ns.map ep) := by
  obtain ⟨h1, h2, h3, tr, h4⟩ := verifyU_cycle cfgCuckatoo mtEquiv_cuckatoo P ep ns (by simp [cfgCuckatoo]) h
  refine ⟨h1, h2, h3, tr, ?_⟩
  rw [List.length_map]
  refine h4.mono ?_ ?_
  · intro a b hp
    obtain ⟨⟨_, _, hk⟩, hm, _, hd⟩ := hp
    simp only [keyF, cfgCuckatoo] at hk
    simp only [cfgCuckatoo, beq_iff_eq, shr_one] at hm
    have hne := hd rfl
    refine ⟨by unfold sameSide; omega, ?_⟩
    rcases eq_or_xor_of_half _ _ hm.symm with e | e
    · exact absurd e.symm hne
    · exact e
  · intro a b hv
    obtain ⟨hs, hn⟩ := hv
    unfold sameSide at hs
    have hn' : uvF ep ns a >>> 1 = uvF ep ns b >>> 1 := hn
    simp only [keyF, cfgCuckatoo, hs, hn', beq_self_eq_true, and_self]

/-- **Completeness of the Cuckaroo verifier**: every simple cycle through all edges of the
bipartite graph, presented as `proofsize > 0` strictly ascending in-range nonces, is accepted. -/
theorem verifyCuckaroo_complete (P : Params) (ep : Nat → Nat × Nat) (ns : List Nat)
    (hps : 0 < P.proofsize) (hlen : ns.length = P.proofsize) (hasc : Ascending ns)
    (hmask : ∀ x ∈ ns, x ≤ P.edgeMask) (hc : IsProofCycleCuckaroo (ns.map ep)) :
    verifyCuckaroo P ep ns = .ok () := by
  obtain ⟨c, hc⟩ := hc
  rw [List.length_map] at hc
  apply verifyU_complete_bip cfgCuckaroo mtEquiv_cuckaroo P ep ns hps hlen hasc hmask rfl rfl
    (δ := 0) (c := c)
  · intro a b h; simp only [keyF, cfgCuckaroo] at h; omega
  · intro a b hp
    have := hp.2.1
    simp only [cfgCuckaroo, beq_iff_eq] at this
    rw [this, Nat.xor_zero]
  · simp [cfgCuckaroo]
  · refine hc.mono ?_ ?_
    · intro a b ⟨hs, hn⟩
      unfold sameSide at hs
      have hn' : uvF ep ns a = uvF ep ns b := hn
      refine ⟨by simp only [keyF, cfgCuckaroo, hs, hn'], by simp [cfgCuckaroo, hn'], by simp [cfgCuckaroo]⟩
    · intro a b ⟨hk, hm⟩
      simp only [keyF, cfgCuckaroo] at hk
      simp only [cfgCuckaroo, beq_iff_eq] at hm
      exact ⟨by unfold sameSide; omega, hm⟩

/-- **Cuckaroo: verification accepts exactly the simple cycles.** -/
theorem verifyCuckaroo_iff (P : Params) (ep : Nat → Nat × Nat) (ns : List Nat) (hps : 0 < P.proofsize) :
    verifyCuckaroo P ep ns = .ok () ↔
      (ns.length = P.proofsize ∧ Ascending ns ∧ (∀ x ∈ ns, x ≤ P.edgeMask) ∧
        IsProofCycleCuckaroo (ns.map ep)) :=
  ⟨verifyCuckaroo_sound P ep ns,
   fun ⟨h1, h2, h3, h4⟩ => verifyCuckaroo_complete P ep ns hps h1 h2 h3 h4⟩

/-- **Completeness of the Cuckarooz verifier** (context proof size = global proof size). -/
theorem verifyCuckarooz_complete (P : Params) (ep : Nat → Nat × Nat) (ns : List Nat)
    (hps : 0 < P.proofsize) (hctx : P.ctxProofSize = P.proofsize) (hlen : ns.length = P.proofsize)
    (hasc : Ascending ns) (hmask : ∀ x ∈ ns, x ≤ P.edgeMask)
    (hc : IsProofCycleCuckarooz (ns.map ep)) :
    verifyCuckarooz P ep ns = .ok () := by
  obtain ⟨c, hc⟩ := hc
  rw [List.length_map] at hc
  apply verifyU_complete_joint cfgCuckarooz mtEquiv_cuckarooz P ep ns hps hlen hasc hmask rfl
    (fun _ => hctx) (c := c)
  · intro a b hp
    have := hp.2.1
    simp only [cfgCuckarooz, beq_iff_eq] at this
    exact this
  · simp [cfgCuckarooz]
  · refine hc.mono ?_ ?_
    · intro a b hn
      have hn' : uvF ep ns a = uvF ep ns b := hn
      refine ⟨by simp only [keyF, cfgCuckarooz, hn'], by simp [cfgCuckarooz, hn'], by simp [cfgCuckarooz]⟩
    · intro a b ⟨_, hm⟩
      simp only [cfgCuckarooz, beq_iff_eq] at hm
      exact hm

/-- **Cuckarooz: verification accepts exactly the simple cycles.** -/
theorem verifyCuckarooz_iff (P : Params) (ep : Nat → Nat × Nat) (ns : List Nat)
    (hps : 0 < P.proofsize) (hctx : P.ctxProofSize = P.proofsize) :
    verifyCuckarooz P ep ns = .ok () ↔
      (ns.length = P.proofsize ∧ Ascending ns ∧ (∀ x ∈ ns, x ≤ P.edgeMask) ∧
        IsProofCycleCuckarooz (ns.map ep)) :=
  ⟨verifyCuckarooz_sound P ep ns hctx,
   fun ⟨h1, h2, h3, h4⟩ => verifyCuckarooz_complete P ep ns hps hctx h1 h2 h3 h4⟩

/-- **Completeness of the Cuckatoo verifier.** -/
theorem verifyCuckatoo_complete (P : Params) (ep : Nat → Nat × Nat) (ns : List Nat)
    (hps : 0 < P.proofsize) (hlen : ns.length = P.proofsize) (hasc : Ascending ns)
    (hmask : ∀ x ∈ ns, x ≤ P.edgeMask) (hc : IsProofCycleCuckatoo (ns.map ep)) :
    verifyCuckatoo P ep ns = .ok () := by
  obtain ⟨c, hc⟩ := hc
  rw [List.length_map] at hc
  apply verifyU_complete_bip cfgCuckatoo mtEquiv_cuckatoo P ep ns hps hlen hasc hmask rfl rfl
    (δ := 1) (c := c)
  · intro a b h; simp only [keyF, cfgCuckatoo] at h; omega
  · intro a b hp
    have hm := hp.2.1
    have hd := hp.2.2.2 rfl
    simp only [cfgCuckatoo, beq_iff_eq, shr_one] at hm
    rcases eq_or_xor_of_half _ _ hm with e | e
    · exact absurd e hd
    · exact e
  · simp only [cfgCuckatoo]
    by_cases h : ns.length / 2 % 2 = 1
    · simp [h]
    · have : ns.length / 2 % 2 = 0 := by omega
      simp [this]
  · refine hc.mono ?_ ?_
    · intro a b ⟨hs, hn⟩
      unfold sameSide at hs
      have hn' : uvF ep ns a = uvF ep ns b ^^^ 1 := hn
      have hhalf : uvF ep ns b / 2 = uvF ep ns a / 2 := by
        rw [hn']; simp [Nat.xor_div_two]
      refine ⟨?_, ?_, ?_⟩
      · simp only [keyF, cfgCuckatoo, hs, shr_one, hhalf]
      · simp only [cfgCuckatoo, shr_one, hhalf, beq_self_eq_true]
      · intro _ e
        rw [hn'] at e
        exact ne_xor_one _ e
    · intro a b ⟨hk, hm⟩
      simp only [keyF, cfgCuckatoo] at hk
      simp only [cfgCuckatoo, beq_iff_eq] at hm
      exact ⟨by unfold sameSide; omega, hm⟩

/-- **Cuckatoo: verification accepts exactly the simple cycles.** -/
theorem verifyCuckatoo_iff (P : Params) (ep : Nat → Nat × Nat) (ns : List Nat) (hps : 0 < P.proofsize) :
    verifyCuckatoo P ep ns = .ok () ↔
      (ns.length = P.proofsize ∧ Ascending ns ∧ (∀ x ∈ ns, x ≤ P.edgeMask) ∧
        IsProofCycleCuckatoo (ns.map ep)) :=
  ⟨verifyCuckatoo_sound P ep ns,
   fun ⟨h1, h2, h3, h4⟩ => verifyCuckatoo_complete P ep ns hps h1 h2 h3 h4⟩

/-- non-vacuity: a 4-cycle `u0 -e0- v0 -e1- u1 -e2- v1 -e3- u0` is accepted by Cuckaroo … -/
example : verifyCuckaroo ⟨4, 7, 4, fun x => x % 8⟩
    (fun n => match n with | 0 => (5, 9) | 2 => (6, 9) | 5 => (6, 3) | 7 => (5, 3) | _ => (0, 0))
    [0, 2, 5, 7] = .ok () := by decide +kernel
/-- … by Cuckarooz (one node space, a 4-cycle `1-2-3-4-1`) … -/
example : verifyCuckarooz ⟨4, 7, 4, fun x => x % 8⟩
    (fun n => match n with | 0 => (1, 2) | 2 => (3, 2) | 5 => (3, 4) | 7 => (1, 4) | _ => (0, 0))
    [0, 2, 5, 7] = .ok () := by decide +kernel
/-- … and by Cuckatoo (edge ends pair up as `x`, `x ^ 1`). -/
example : verifyCuckatoo ⟨4, 7, 4, fun x => x % 8⟩
    (fun n => match n with | 0 => (4, 8) | 2 => (6, 9) | 5 => (7, 2) | 7 => (5, 3) | _ => (0, 0))
    [0, 2, 5, 7] = .ok () := by decide +kernel

/-- The hypothesis of `verifyCuckarooz_sound` is needed: a Cuckarooz context built with
`proof_size = 2` while `global::proofsize() = 4` accepts two disjoint 2-cycles (the real code does
the same, harness case `twohalves-ctx4`; `pow::verify_size` never builds such a context). -/
example : verifyCuckarooz ⟨4, 7, 2, fun x => x % 8⟩
    (fun n => match n with | 0 => (1, 2) | 2 => (1, 2) | 5 => (3, 4) | 7 => (3, 4) | _ => (0, 0))
    [0, 2, 5, 7] = .ok () := by decide +kernel

/-! ## Cuckarood -/

/-- **Soundness of the Cuckarood verifier** (as repaired in /repo df0049399): `Ok` ⟹ exactly
`proofsize` nonces, strictly ascending, all `≤ edge_mask`, as many even as odd nonces, and the edges
form one simple cycle through all of them in which consecutive edges have opposite direction bits.
Unlike the other variants this needs one property of the bucket hash: it keeps the lowest bit
(`(node << 1 | dir) & mask` with `mask` odd does) — the direction bit is part of the hashed value
and the search relies on it to separate the two directions. -/
theorem verifyCuckarood_sound (P : Params) (ep : Nat → Nat × Nat) (ns : List Nat)
    (hbk : ∀ x, P.bk x % 2 = x % 2)
    (h : verifyCuckarood P ep ns = .ok ()) :
    ns.length = P.proofsize ∧ Ascending ns ∧ (∀ x ∈ ns, x ≤ P.edgeMask) ∧
      IsProofCycleCuckarood (ns.map (fun x => (x % 2, ep x))) := by
  unfold verifyCuckarood at h
  by_cases hl : ns.length = P.proofsize
  case neg => simp [hl] at h
  simp only [hl, ne_eq, not_true_eq_false, if_false] at h
  rw [← hl] at h
  cases hb : roodBuild P ep ns.length ns none (RoodSt.init ns.length) with
  | error e => simp [hb] at h
  | ok s =>
    simp only [hb] at h
    obtain ⟨inv, hmask, hasc⟩ :=
      roodBuild_spec P ep ns ns [] none _ s (by simp) (roodInv_init P ep ns) hb
    by_cases hx : (s.x0 ||| s.x1) = 0
    case neg => simp [hx] at h
    simp only [hx, not_true_eq_false, if_false] at h
    cases hw : roodWalk (roodStep P ns.length s) ns.length (ns.length + 1) 0 0 with
    | error e => simp [hw] at h
    | ok n =>
      simp only [hw] at h
      by_cases hn : n = ns.length
      case neg => simp [hn] at h
      obtain ⟨tr, htr, hm⟩ := roodWalk_trace _ _ _ _ _ _ hw
      exact ⟨hl, (ascChain_spec ns none hasc).1, hmask,
        rood_cycle P ep ns s hbk inv tr htr (by omega)⟩

/-- the real bucket hash `x & mask`, `mask = u64::MAX >> leading_zeros(size)`, keeps the lowest
bit for every proof size `> 0` -/
theorem bucketMask_low_bit (size : Nat) (hs : 0 < size) (x : Nat) :
    (x &&& bucketMask size) % 2 = x % 2 := by
  unfold bucketMask
  rw [Nat.and_two_pow_sub_one_eq_mod]
  have hb : 1 ≤ bitLen size := by
    cases size with
    | zero => omega
    | succ n => rw [bitLen]; omega
  obtain ⟨k, hk⟩ : ∃ k, bitLen size = k + 1 := ⟨bitLen size - 1, by omega⟩
  rw [hk, Nat.pow_succ]
  exact Nat.mod_mul_left_mod x (2^k) 2

/-- non-vacuity: a 4-cycle alternating even / odd nonces is accepted by Cuckarood -/
example : verifyCuckarood ⟨4, 7, 4, fun x => x % 8⟩
    (fun n => match n with | 0 => (5, 9) | 3 => (6, 9) | 4 => (6, 3) | 7 => (5, 3) | _ => (0, 0))
    [0, 3, 4, 7] = .ok () := by decide +kernel

/-- The inputs on which the *unrepaired* Cuckarood walk never came back (a `u` node shared by two
direction-0 edges and one direction-1 edge: the step map is not injective, the walk falls into
a loop that excludes slot 0) are now refused after `size` steps. -/
example : verifyCuckarood ⟨8, 15, 8, fun x => x % 16⟩
    (fun n => match n with
      | 0 => (1, 1) | 2 => (2, 2) | 4 => (2, 3) | 6 => (2, 1)
      | 1 => (1, 2) | 3 => (2, 3) | 5 => (3, 4) | 7 => (3, 4)
      | _ => (0, 0))
    [0, 1, 2, 3, 4, 5, 6, 7] = .error .noClose := by decide +kernel

/-! ## Termination

The Rust loops `loop { … }` have no syntactic bound; the models give them fuel
(`size + 1` resp. `2·size + 1` iterations) and return the distinct outcome `Err.hang` when it runs
out. These theorems say it never does: the fuel bounds are real bounds, every `verify`
terminates on every input. (For Cuckarood this is true only since the repair df0049399 — the
unbounded walk was found by this model running out of fuel and confirmed on the real code; for
the circular-list variants it holds because "partner" is an involution, so the step map is
injective and the orbit of slot 0 must close — `uWalk_no_hang`, a pigeonhole argument.) -/

theorem verifyCuckaroom_terminates (P : Params) (ep : Nat → Nat × Nat) (ns : List Nat) :
    verifyCuckaroom P ep ns ≠ .error .hang := verifyCuckaroom_no_hang P ep ns

theorem verifyCuckarood_terminates (P : Params) (ep : Nat → Nat × Nat) (ns : List Nat) :
    verifyCuckarood P ep ns ≠ .error .hang := verifyCuckarood_no_hang P ep ns

theorem verifyCuckaroo_terminates (P : Params) (ep : Nat → Nat × Nat) (ns : List Nat)
    (hps : 0 < P.proofsize) : verifyCuckaroo P ep ns ≠ .error .hang :=
  verifyU_no_hang cfgCuckaroo mtEquiv_cuckaroo P ep ns hps

theorem verifyCuckarooz_terminates (P : Params) (ep : Nat → Nat × Nat) (ns : List Nat)
    (hps : 0 < P.proofsize) : verifyCuckarooz P ep ns ≠ .error .hang :=
  verifyU_no_hang cfgCuckarooz mtEquiv_cuckarooz P ep ns hps

theorem verifyCuckatoo_terminates (P : Params) (ep : Nat → Nat × Nat) (ns : List Nat)
    (hps : 0 < P.proofsize) : verifyCuckatoo P ep ns ≠ .error .hang :=
  verifyU_no_hang cfgCuckatoo mtEquiv_cuckatoo P ep ns hps

/-! ## Cuckarood, converse direction -/

/-- **Completeness of the Cuckarood verifier**: every direction-alternating simple cycle through
all edges with as many even as odd nonces, presented as `proofsize > 0` strictly ascending in-range
nonces, is accepted (for a bucket hash that keeps the lowest bit, as `& mask` does). -/
theorem verifyCuckarood_complete (P : Params) (ep : Nat → Nat × Nat) (ns : List Nat)
    (hbk : ∀ x, P.bk x % 2 = x % 2) (hps : 0 < P.proofsize) (hlen : ns.length = P.proofsize)
    (hasc : Ascending ns) (hmask : ∀ x ∈ ns, x ≤ P.edgeMask)
    (hc : IsProofCycleCuckarood (ns.map (fun x => (x % 2, ep x)))) :
    verifyCuckarood P ep ns = .ok () :=
  rood_complete P ep ns hbk hps hlen hasc hmask hc

/-- **Cuckarood: verification accepts exactly the direction-alternating simple cycles.** -/
theorem verifyCuckarood_iff (P : Params) (ep : Nat → Nat × Nat) (ns : List Nat)
    (hbk : ∀ x, P.bk x % 2 = x % 2) (hps : 0 < P.proofsize) :
    verifyCuckarood P ep ns = .ok () ↔
      (ns.length = P.proofsize ∧ Ascending ns ∧ (∀ x ∈ ns, x ≤ P.edgeMask) ∧
        IsProofCycleCuckarood (ns.map (fun x => (x % 2, ep x)))) :=
  ⟨verifyCuckarood_sound P ep ns hbk,
   fun ⟨h1, h2, h3, h4⟩ => verifyCuckarood_complete P ep ns hbk hps h1 h2 h3 h4⟩

/-! ## The specification is decidable

`IsProofCycle*` is an existential over orderings of the edges; by the `_iff` theorems it is decided
by running the verifier model on the bare edge list (nonces `0 … L-1`, `ep n` = the `n`-th edge). -/

theorem map_range_getD_self {α : Type} (d : α) : ∀ l : List α,
    (List.range l.length).map (fun k => l.getD k d) = l := by
  intro l
  induction l with
  | nil => rfl
  | cons x l ih =>
    rw [List.length_cons, List.range_succ_eq_map, List.map_cons, List.map_map]
    simp only [List.getD_cons_zero]
    congr 1

theorem range_ascending (L : Nat) : Ascending (List.range L) := by
  unfold Ascending
  rw [List.pairwise_iff_getElem]
  intro a b ha hb hab
  simpa using hab

theorem isProofCycleCuckaroom_iff_verifier (es : List (Nat × Nat)) (hL : 0 < es.length) :
    IsProofCycleCuckaroom es ↔
      verifyCuckaroom ⟨es.length, es.length, es.length, id⟩ (fun n => es.getD n (0, 0))
        (List.range es.length) = .ok () := by
  have hm : (List.range es.length).map (fun n => es.getD n (0, 0)) = es := map_range_getD_self (0, 0) es
  rw [verifyCuckaroom_iff _ _ _ hL, hm]
  exact ⟨fun h => ⟨by simp, range_ascending _,
    fun x hx => by have := List.mem_range.mp hx; show x ≤ es.length; omega, h⟩, fun h => h.2.2.2⟩

theorem isProofCycleCuckaroo_iff_verifier (es : List (Nat × Nat)) (hL : 0 < es.length) :
    IsProofCycleCuckaroo es ↔
      verifyCuckaroo ⟨es.length, es.length, es.length, id⟩ (fun n => es.getD n (0, 0))
        (List.range es.length) = .ok () := by
  have hm : (List.range es.length).map (fun n => es.getD n (0, 0)) = es := map_range_getD_self (0, 0) es
  rw [verifyCuckaroo_iff _ _ _ hL, hm]
  exact ⟨fun h => ⟨by simp, range_ascending _,
    fun x hx => by have := List.mem_range.mp hx; show x ≤ es.length; omega, h⟩, fun h => h.2.2.2⟩

theorem isProofCycleCuckarooz_iff_verifier (es : List (Nat × Nat)) (hL : 0 < es.length) :
    IsProofCycleCuckarooz es ↔
      verifyCuckarooz ⟨es.length, es.length, es.length, id⟩ (fun n => es.getD n (0, 0))
        (List.range es.length) = .ok () := by
  have hm : (List.range es.length).map (fun n => es.getD n (0, 0)) = es := map_range_getD_self (0, 0) es
  rw [verifyCuckarooz_iff _ _ _ hL rfl, hm]
  exact ⟨fun h => ⟨by simp, range_ascending _,
    fun x hx => by have := List.mem_range.mp hx; show x ≤ es.length; omega, h⟩, fun h => h.2.2.2⟩

theorem isProofCycleCuckatoo_iff_verifier (es : List (Nat × Nat)) (hL : 0 < es.length) :
    IsProofCycleCuckatoo es ↔
      verifyCuckatoo ⟨es.length, es.length, es.length, id⟩ (fun n => es.getD n (0, 0))
        (List.range es.length) = .ok () := by
  have hm : (List.range es.length).map (fun n => es.getD n (0, 0)) = es := map_range_getD_self (0, 0) es
  rw [verifyCuckatoo_iff _ _ _ hL, hm]
  exact ⟨fun h => ⟨by simp, range_ascending _,
    fun x hx => by have := List.mem_range.mp hx; show x ≤ es.length; omega, h⟩, fun h => h.2.2.2⟩

/-! ## Non-vacuity of the specification side

The hypotheses of the `_complete` theorems are inhabited: concrete edge lists that *are* proof
cycles (obtained through `_sound` from the accepted examples above), and one that is not. -/

example : IsProofCycleCuckaroom ([0, 1, 2, 3].map (fun n => (n, (n + 1) % 4))) :=
  (verifyCuckaroom_sound ⟨4, 3, 4, fun x => x % 8⟩ _ _ (by decide +kernel)).2.2.2

example : IsProofCycleCuckaroo ([0, 2, 5, 7].map
    (fun n => match n with | 0 => (5, 9) | 2 => (6, 9) | 5 => (6, 3) | 7 => (5, 3) | _ => (0, 0))) :=
  (verifyCuckaroo_sound ⟨4, 7, 4, fun x => x % 8⟩ _ _ (by decide +kernel)).2.2.2

example : IsProofCycleCuckatoo ([0, 2, 5, 7].map
    (fun n => match n with | 0 => (4, 8) | 2 => (6, 9) | 5 => (7, 2) | 7 => (5, 3) | _ => (0, 0))) :=
  (verifyCuckatoo_sound ⟨4, 7, 4, fun x => x % 8⟩ _ _ (by decide +kernel)).2.2.2

example : IsProofCycleCuckarood ([0, 3, 4, 7].map (fun x => (x % 2,
    (match x with | 0 => (5, 9) | 3 => (6, 9) | 4 => (6, 3) | 7 => (5, 3) | _ => (0, 0) : Nat × Nat)))) :=
  (verifyCuckarood_sound ⟨4, 7, 4, fun x => x % 8⟩ _ _ (fun x => by simp) (by decide +kernel)).2.2.2

/-- two disjoint 2-cycles are *not* one cycle through all four edges (decided by the verifier) -/
example : ¬ IsProofCycleCuckarooz [(1, 2), (1, 2), (3, 4), (3, 4)] := by
  rw [isProofCycleCuckarooz_iff_verifier _ (by decide)]
  decide +kernel

/-! ## Context histories

`verify` is a function of (variant, edge_bits, proof sizes, siphash keys); the keys are a function
of the header (+ nonce) of the LAST `set_header_nonce`; `solve` flags, `find_cycles` calls and
everything before the last `set_header_nonce` are irrelevant. In the model this is immediate
(`Ctx.verify` reads `keys` only, Model/PowCtx.lean), so `verify_history_independent` is a statement
about the model's shape, not evidence about the code: this clause of the property rests on the
correspondence run over context histories (`pow hist`), where the real object's verdict after
every history is compared with this model, with a freshly created real context for the same
(header, edge_bits), and with the cycle oracle. -/

/-- header and nonce of the last `set_header_nonce` of a history -/
def lastSeed (ops : List CtxOp) : Option (Bytes × Option Nat) :=
  ops.foldl (fun acc op => match op with | .seed h n _ => some (h, n) | .find _ => acc) none

/-- the keys a context holds: those of the last seeding, or the initial ones -/
def keysAfter (k0 : Keys) : Option (Bytes × Option Nat) → Keys
  | none => k0
  | some (h, n) => keysOfHeader h n

theorem step_static (c : Ctx) (op : CtxOp) :
    (c.step op).variant = c.variant ∧ (c.step op).edgeBits = c.edgeBits ∧
    (c.step op).proofsize = c.proofsize ∧ (c.step op).ctxProofSize = c.ctxProofSize := by
  cases op <;> simp only [Ctx.step] <;> split <;> simp

theorem step_keys (c : Ctx) (op : CtxOp) :
    (c.step op).keys = match op with | .seed h n _ => keysOfHeader h n | .find _ => c.keys := by
  cases op <;> simp only [Ctx.step] <;> split <;> simp

theorem run_static (ops : List CtxOp) : ∀ c : Ctx,
    (c.run ops).variant = c.variant ∧ (c.run ops).edgeBits = c.edgeBits ∧
    (c.run ops).proofsize = c.proofsize ∧ (c.run ops).ctxProofSize = c.ctxProofSize := by
  induction ops with
  | nil => intro c; simp [Ctx.run]
  | cons op r ih =>
    intro c
    have h1 := ih (c.step op)
    have h2 := step_static c op
    simp only [Ctx.run, List.foldl_cons] at h1 ⊢
    refine ⟨h1.1.trans h2.1, h1.2.1.trans h2.2.1, h1.2.2.1.trans h2.2.2.1, h1.2.2.2.trans h2.2.2.2⟩

theorem run_keys (k0 : Keys) (ops : List CtxOp) : ∀ (c : Ctx) (acc : Option (Bytes × Option Nat)),
    c.keys = keysAfter k0 acc →
    (c.run ops).keys = keysAfter k0
      (ops.foldl (fun acc op => match op with | .seed h n _ => some (h, n) | .find _ => acc) acc) := by
  induction ops with
  | nil => intro c acc h; simpa [Ctx.run] using h
  | cons op r ih =>
    intro c acc h
    simp only [Ctx.run, List.foldl_cons]
    apply ih
    rw [step_keys]
    cases op with
    | seed hd n s => simp [keysAfter]
    | find sols => simpa using h

/-- A context's verdict is a function of its construction parameters and of the header / nonce of
its LAST `set_header_nonce` — not of the `solve` flags, the `find_cycles` calls, or anything that
happened before. -/
theorem verify_history_independent (v : Variant) (eb ps cps : Nat) (ops₁ ops₂ : List CtxOp)
    (h : lastSeed ops₁ = lastSeed ops₂) (ns : List Nat) :
    ((Ctx.new v eb ps cps).run ops₁).verify ns = ((Ctx.new v eb ps cps).run ops₂).verify ns := by
  have s1 := run_static ops₁ (Ctx.new v eb ps cps)
  have s2 := run_static ops₂ (Ctx.new v eb ps cps)
  have k1 := run_keys (Ctx.new v eb ps cps).keys ops₁ (Ctx.new v eb ps cps) none rfl
  have k2 := run_keys (Ctx.new v eb ps cps).keys ops₂ (Ctx.new v eb ps cps) none rfl
  unfold lastSeed at h
  simp only [Ctx.verify, s1.1, s1.2.1, s1.2.2.1, s1.2.2.2, s2.1, s2.2.1, s2.2.2.1, s2.2.2.2, k1, k2, h]

/-- … in particular the verdict after any history equals that of a FRESH context seeded once,
for verification, with the last header. -/
theorem verify_eq_fresh (v : Variant) (eb ps cps : Nat) (pre post : List CtxOp)
    (hdr : Bytes) (nonce : Option Nat) (solve : Bool)
    (hpost : ∀ op ∈ post, ∃ sols, op = CtxOp.find sols) (ns : List Nat) :
    ((Ctx.new v eb ps cps).run (pre ++ CtxOp.seed hdr nonce solve :: post)).verify ns
      = ((Ctx.new v eb ps cps).step (.seed hdr nonce false)).verify ns := by
  have : ((Ctx.new v eb ps cps).step (.seed hdr nonce false))
      = (Ctx.new v eb ps cps).run [.seed hdr nonce false] := by simp [Ctx.run]
  rw [this]
  apply verify_history_independent
  have hp : ∀ (post : List CtxOp) acc, (∀ op ∈ post, ∃ sols, op = CtxOp.find sols) →
      post.foldl (fun acc op => match op with | .seed h n _ => some (h, n) | .find _ => acc) acc = acc := by
    intro post
    induction post with
    | nil => intro acc _; rfl
    | cons op r ih =>
      intro acc hh
      obtain ⟨sols, rfl⟩ := hh op (by simp)
      simp only [List.foldl_cons]
      exact ih acc (fun o ho => hh o (by simp [ho]))
  simp only [lastSeed, List.foldl_append, List.foldl_cons, List.foldl_nil]
  exact hp post _ hpost

example : lastSeed [.seed [1] none true, .find [[0]], .seed [2] (some 7) false, .find []] = some ([2], some 7) := rfl

/-! ## The node's entry point `pow::verify_size`

`verifySize` (Model/PowSize.lean) wraps the per-variant verifiers the way `pow::verify_size` does:
context selected by (chain type, height, edge_bits), created with `proof_size` = the number of
nonces the header carries, seeded with the header's `pre_pow`. "Exactly the required number of
nonces" holds at this level for every chain type, height, edge_bits (hence every variant) and every
header: `verifySize_ok_length`. Consequently a header read in the skip-proof deserialisation mode
(empty nonce vector), every strict prefix of a proof and every extension of it are refused. -/

/-- every variant's `verify` starts with the count test -/
theorem verifyOf_ok_length (v : Variant) (P : Params) (ep : Nat → Nat × Nat) (ns : List Nat)
    (h : verifyOf v P ep ns = .ok ()) : ns.length = P.proofsize := by
  apply Classical.byContradiction
  intro hne
  cases v <;>
    simp [verifyOf, verifyCuckatoo, verifyCuckaroo, verifyCuckarooz, verifyU, verifyCuckarood,
      verifyCuckaroom, hne] at h

/-- a context seeded once for verification -/
theorem fresh_verify (v : Variant) (eb ps cps : Nat) (hdr : Bytes) (nonce : Option Nat) (ns : List Nat) :
    ((Ctx.new v eb ps cps).step (.seed hdr nonce false)).verify ns
      = verifyOf v (mkParams eb ps cps) (epOf v (keysOfHeader hdr nonce) eb) ns := by
  simp [Ctx.step, Ctx.new, Ctx.verify]

/-- `verify_size` accepts exactly when a context could be created for (chain type, height,
edge_bits) and that variant's `verify`, seeded with the header's `pre_pow`, accepts. -/
theorem verifySize_ok_iff (c : ChainType) (height eb : Nat) (prePow : Bytes) (ns : List Nat) :
    verifySize c height eb prePow ns = .ok () ↔
    ∃ v, selectVariant c height eb = some v ∧
      verifyOf v (mkParams eb (proofsizeOf c) ns.length) (epOf v (keysOfHeader prePow none) eb) ns = .ok () := by
  unfold verifySize
  split
  · next hv => simp [hv]
  · next v hv =>
    simp only [fresh_verify]
    constructor
    · intro h
      refine ⟨v, hv, ?_⟩
      split at h
      · next hok => exact hok
      · cases h
    · rintro ⟨v', hv', hok⟩
      rw [hv] at hv'
      cases hv'
      rw [hok]

/-- "exactly the required number of nonces", at the node's entry point: for every chain type,
height, edge_bits (hence every variant) and every header, an accepted proof has exactly
`global::proofsize()` nonces. -/
theorem verifySize_ok_length (c : ChainType) (height eb : Nat) (prePow : Bytes) (ns : List Nat)
    (h : verifySize c height eb prePow ns = .ok ()) : ns.length = proofsizeOf c := by
  obtain ⟨v, _, hok⟩ := (verifySize_ok_iff c height eb prePow ns).mp h
  exact verifyOf_ok_length v _ _ ns hok

/-- … so every other count is refused: the empty vector (a header read in the skip-proof mode),
every strict prefix, every extension -/
theorem verifySize_wrong_length_refused (c : ChainType) (height eb : Nat) (prePow : Bytes) (ns : List Nat)
    (hlen : ns.length ≠ proofsizeOf c) : verifySize c height eb prePow ns ≠ .ok () :=
  fun h => hlen (verifySize_ok_length c height eb prePow ns h)

/-- with the error kind: the count is tested before anything else -/
theorem verifySize_wrong_length_error (c : ChainType) (height eb : Nat) (prePow : Bytes) (ns : List Nat)
    (hlen : ns.length ≠ proofsizeOf c) :
    verifySize c height eb prePow ns = .error .noCtx ∨
    verifySize c height eb prePow ns = .error (.verify .wrongLen) := by
  unfold verifySize
  split
  · exact Or.inl rfl
  · next v hv =>
    right
    simp only [fresh_verify]
    have hne : ¬ ns.length = (mkParams eb (proofsizeOf c) ns.length).proofsize := hlen
    cases v <;>
      simp [verifyOf, verifyCuckatoo, verifyCuckaroo, verifyCuckarooz, verifyU, verifyCuckarood,
        verifyCuckaroom, hne]

/-- an accepted header's context was created with `proof_size = global::proofsize()`: the
hypothesis `hctx` of the Cuckarooz theorems always holds behind `verify_size` -/
theorem verifySize_ok_ctx_size (c : ChainType) (height eb : Nat) (prePow : Bytes) (ns : List Nat)
    (h : verifySize c height eb prePow ns = .ok ()) :
    (mkParams eb (proofsizeOf c) ns.length).ctxProofSize = (mkParams eb (proofsizeOf c) ns.length).proofsize := by
  have := verifySize_ok_length c height eb prePow ns h
  simpa [mkParams] using this


/-- non-vacuity: a header genuinely mined by the repo's `pow_size` (AutomatedTesting, height 0,
edge_bits 10; `pre_pow` bytes and nonces as observed in the `vsize` run) is accepted by the model,
blake2b and siphash included … -/
example : verifySize .automated 0 10 [0, 1, 0, 0, 0, 0, 0, 0, 0, 0, 0, 0, 0, 0, 0, 0, 0, 0, 5, 156, 63, 119, 183, 153, 125, 96, 95, 182, 153, 68, 48, 49, 222, 211, 30, 128, 111, 33, 254, 209, 143, 20, 206, 89, 22, 34, 96, 80, 31, 110, 199, 117, 92, 148, 109, 21, 143, 117, 166, 188, 141, 81, 173, 55, 17, 247, 246, 104, 172, 95, 173, 55, 15, 160, 22, 241, 102, 176, 138, 237, 116, 81, 219, 249, 212, 232, 101, 106, 173, 154, 203, 79, 212, 151, 3, 141, 49, 177, 39, 44, 112, 245, 136, 161, 218, 62, 137, 234, 216, 249, 156, 155, 84, 109, 0, 0, 0, 0, 0, 0, 0, 0, 0, 0, 0, 0, 0, 0, 0, 0, 0, 0, 0, 0, 0, 0, 0, 0, 0, 0, 0, 0, 0, 0, 0, 0, 164, 43, 73, 128, 31, 234, 176, 65, 59, 185, 80, 137, 47, 18, 36, 23, 254, 75, 200, 195, 209, 154, 138, 75, 31, 5, 235, 77, 30, 104, 76, 167, 0, 0, 0, 0, 0, 0, 0, 0, 0, 0, 0, 0, 0, 0, 0, 0, 0, 0, 0, 0, 0, 0, 0, 0, 0, 0, 0, 0, 0, 0, 0, 0, 0, 0, 0, 0, 0, 4, 217, 56, 0, 0, 0, 0, 0, 8, 213, 104, 0, 8, 83, 13, 68, 200, 14, 188, 83, 245, 21, 65, 35, 1, 10, 200, 34, 26, 128, 183] [30,397,435,521,683,836,1018,1023] = .ok () := by decide +kernel

/-- … and its seven-nonce prefix is refused for its length. -/
example : verifySize .automated 0 10 [0, 1, 0, 0, 0, 0, 0, 0, 0, 0, 0, 0, 0, 0, 0, 0, 0, 0, 5, 156, 63, 119, 183, 153, 125, 96, 95, 182, 153, 68, 48, 49, 222, 211, 30, 128, 111, 33, 254, 209, 143, 20, 206, 89, 22, 34, 96, 80, 31, 110, 199, 117, 92, 148, 109, 21, 143, 117, 166, 188, 141, 81, 173, 55, 17, 247, 246, 104, 172, 95, 173, 55, 15, 160, 22, 241, 102, 176, 138, 237, 116, 81, 219, 249, 212, 232, 101, 106, 173, 154, 203, 79, 212, 151, 3, 141, 49, 177, 39, 44, 112, 245, 136, 161, 218, 62, 137, 234, 216, 249, 156, 155, 84, 109, 0, 0, 0, 0, 0, 0, 0, 0, 0, 0, 0, 0, 0, 0, 0, 0, 0, 0, 0, 0, 0, 0, 0, 0, 0, 0, 0, 0, 0, 0, 0, 0, 164, 43, 73, 128, 31, 234, 176, 65, 59, 185, 80, 137, 47, 18, 36, 23, 254, 75, 200, 195, 209, 154, 138, 75, 31, 5, 235, 77, 30, 104, 76, 167, 0, 0, 0, 0, 0, 0, 0, 0, 0, 0, 0, 0, 0, 0, 0, 0, 0, 0, 0, 0, 0, 0, 0, 0, 0, 0, 0, 0, 0, 0, 0, 0, 0, 0, 0, 0, 0, 4, 217, 56, 0, 0, 0, 0, 0, 8, 213, 104, 0, 8, 83, 13, 68, 200, 14, 188, 83, 245, 21, 65, 35, 1, 10, 200, 34, 26, 128, 183] [30,397,435,521,683,836,1018] = .error (.verify .wrongLen) := by decide +kernel

example : proofsizeOf .automated = 8 ∧ proofsizeOf .mainnet = 42 := by decide

/-! ## Difficulty

"The difficulty a proof achieves is a deterministic function of its packed nonces": the model's
`toDifficulty chain height edge_bits secondary_scaling packed` takes the packed bytes only; the
theorems say WHICH function — `floor(scale · 2^64 / max(1, hash prefix))` saturating at `u64::MAX`,
at least 1 — and that the u128 arithmetic of the Rust code computes exactly that (no rounding, no
truncation) for every u64 scale, in particular the graph weights of order 2^46..2^60 that
AutomatedTesting / UserTesting reach at edge_bits 40..63. -/

/-- `Proof::scaled_difficulty`'s u128 arithmetic computes exactly
`min (floor (scale · 2^64 / max 1 h)) (2^64 − 1)` for every u64 `scale` and every `h`. -/
theorem difficulty_exact (scale h : Nat) (hs : scale < 2^64) :
    scaledDiffU128 scale h = diffExact scale h := by
  unfold scaledDiffU128 diffExact
  have h1 : scale % 2^64 = scale := Nat.mod_eq_of_lt hs
  have h2 : scale * 2^64 % 2^128 = scale * 2^64 := by
    apply Nat.mod_eq_of_lt
    have : scale * 2^64 < 2^64 * 2^64 := Nat.mul_lt_mul_of_pos_right hs (by decide)
    simpa using this
  simp only [h1, h2]
  apply Nat.mod_eq_of_lt
  have := Nat.min_le_right (scale * 2 ^ 64 / max 1 h) (2^64 - 1)
  omega

theorem diffExact_le (scale h : Nat) : diffExact scale h ≤ 2^64 - 1 := Nat.min_le_right _ _

/-- floor characterisation below saturation: `d · H ≤ scale · 2^64 < (d + 1) · H` -/
theorem diffExact_floor (scale h : Nat) (hlt : diffExact scale h < 2^64 - 1) :
    diffExact scale h * max 1 h ≤ scale * 2^64 ∧ scale * 2^64 < (diffExact scale h + 1) * max 1 h := by
  have hpos : 0 < max 1 h := by omega
  have hd : diffExact scale h = scale * 2^64 / max 1 h := by
    unfold diffExact at hlt ⊢
    omega
  rw [hd]
  constructor
  · exact Nat.div_mul_le_self _ _
  · have := Nat.lt_mul_div_succ (scale * 2^64) hpos
    rw [Nat.mul_comm (max 1 h)] at this
    exact this

/-- saturation: the result is `u64::MAX` exactly when the quotient reaches it -/
theorem diffExact_saturated_iff (scale h : Nat) :
    diffExact scale h = 2^64 - 1 ↔ (2^64 - 1) * max 1 h ≤ scale * 2^64 := by
  have hpos : 0 < max 1 h := by omega
  rw [← Nat.le_div_iff_mul_le hpos]
  unfold diffExact
  omega

/-- … which, for a 64-bit hash prefix, is exactly when the prefix does not exceed the scale -/
theorem diffExact_saturated_iff_le (scale h : Nat) (hh : h < 2^64) :
    diffExact scale h = 2^64 - 1 ↔ max 1 h ≤ scale := by
  rw [diffExact_saturated_iff]
  omega

/-- a proof always achieves a difficulty of at least 1 under a non-zero scale -/
theorem diffExact_pos (scale h : Nat) (hs : 1 ≤ scale) (hh : h < 2^64) : 1 ≤ diffExact scale h := by
  unfold diffExact
  have hpos : 0 < max 1 h := by omega
  have : 1 ≤ scale * 2^64 / max 1 h := by
    rw [Nat.le_div_iff_mul_le hpos]
    have : 1 * 2^64 ≤ scale * 2^64 := Nat.mul_le_mul_right _ hs
    omega
  omega

/-- … and 0 exactly under scale 0 (`from_num` then lifts it to 1) -/
theorem diffExact_eq_zero_iff (scale h : Nat) (hh : h < 2^64) : diffExact scale h = 0 ↔ scale = 0 := by
  constructor
  · intro h0
    rcases Nat.eq_zero_or_pos scale with hz | hp
    · exact hz
    · have := diffExact_pos scale h (by omega) hh
      omega
  · rintro rfl
    simp [diffExact]

/-- smaller hash ⇒ at least the difficulty -/
theorem diffExact_antitone_hash (scale h h' : Nat) (hle : h ≤ h') :
    diffExact scale h' ≤ diffExact scale h := by
  unfold diffExact
  have : scale * 2^64 / max 1 h' ≤ scale * 2^64 / max 1 h :=
    Nat.div_le_div_left (by omega) (by omega)
  omega

/-- bigger scale ⇒ at least the difficulty -/
theorem diffExact_mono_scale (scale scale' h : Nat) (hle : scale ≤ scale') :
    diffExact scale h ≤ diffExact scale' h := by
  unfold diffExact
  have : scale * 2^64 / max 1 h ≤ scale' * 2^64 / max 1 h :=
    Nat.div_le_div_right (Nat.mul_le_mul_right _ hle)
  omega

theorem graphWeight_lt (c : ChainType) (height eb : Nat) : graphWeight c height eb < 2^64 := by
  unfold graphWeight mulW
  exact Nat.mod_lt _ (by decide)

theorem xprEdgeBits_le (height eb : Nat) : xprEdgeBits height eb ≤ eb := by
  unfold xprEdgeBits satSub
  split
  · exact Nat.sub_le _ _
  · exact Nat.le_refl _

/-- in the range every chain uses (`base_edge_bits ≤ edge_bits ≤ 63`) nothing wraps:
`graph_weight = 2^(edge_bits − base + 1) · xpr_edge_bits` -/
theorem graphWeight_nowrap (c : ChainType) (height eb : Nat)
    (hb : baseEdgeBits c ≤ eb) (he : eb ≤ 63) :
    graphWeight c height eb = 2^(eb - baseEdgeBits c + 1) * xprEdgeBits height eb := by
  have hx := xprEdgeBits_le height eb
  have hbase : 10 ≤ baseEdgeBits c := by cases c <;> decide
  unfold graphWeight
  simp only []
  have hsh : (eb % 256 + 256 - baseEdgeBits c) % 256 = eb - baseEdgeBits c := by omega
  rw [hsh]
  have hs64 : (eb - baseEdgeBits c) % 64 = eb - baseEdgeBits c := by omega
  have hpow : 2 * 2^(eb - baseEdgeBits c) = 2^(eb - baseEdgeBits c + 1) := by
    rw [Nat.pow_succ]; omega
  have hle : 2^(eb - baseEdgeBits c + 1) ≤ 2^54 := Nat.pow_le_pow_right (by decide) (by omega)
  have hshl : shlW 2 (eb - baseEdgeBits c) = 2^(eb - baseEdgeBits c + 1) := by
    unfold shlW
    rw [hs64, hpow]
    exact Nat.mod_eq_of_lt (by omega)
  rw [hshl]
  unfold mulW
  apply Nat.mod_eq_of_lt
  have : 2^(eb - baseEdgeBits c + 1) * xprEdgeBits height eb ≤ 2^54 * 63 :=
    Nat.mul_le_mul hle (by omega)
  omega

/-- `ProofOfWork::to_difficulty` is the exact definition under the scale the chain fixes,
lifted to at least 1 by `Difficulty::from_num` -/
theorem toDifficulty_exact (c : ChainType) (height eb sec : Nat) (packed : Bytes) (hsec : sec < 2^32) :
    toDifficulty c height eb sec packed
      = max (diffExact (if eb = SECOND_POW_EDGE_BITS then sec else graphWeight c height eb)
              (hashPrefix packed)) 1 := by
  unfold toDifficulty fromNum scaledDifficulty
  split
  · rw [difficulty_exact _ _ (by omega)]
  · rw [difficulty_exact _ _ (graphWeight_lt _ _ _)]

theorem toDifficulty_bounds (c : ChainType) (height eb sec : Nat) (packed : Bytes) (hsec : sec < 2^32) :
    1 ≤ toDifficulty c height eb sec packed ∧ toDifficulty c height eb sec packed ≤ 2^64 - 1 := by
  rw [toDifficulty_exact _ _ _ _ _ hsec]
  have := diffExact_le (if eb = SECOND_POW_EDGE_BITS then sec else graphWeight c height eb) (hashPrefix packed)
  omega

theorem toUnscaledDifficulty_exact (packed : Bytes) :
    toUnscaledDifficulty packed = max (diffExact 1 (hashPrefix packed)) 1 := by
  unfold toUnscaledDifficulty fromNum scaledDifficulty
  rw [difficulty_exact _ _ (by decide)]

-- non-vacuity / concrete values
example : diffExact 3 (2^63) = 6 := by decide
example : diffExact (2^60) (2^59) = 2^64 - 1 := by decide
example : diffExact (2^60) (2^60 + 1) = 2^64 - 1 - 15 := by decide
example : diffExact 0 5 = 0 ∧ diffExact 7 0 = 2^64 - 1 := by decide
example : diffExact (2^60) (2^60) = 2^64 - 1 ∧ diffExact (2^32 - 1) (2^32) < 2^64 - 1 := by decide
example : graphWeight .automated 0 63 = 2^54 * 63 := by decide
example : graphWeight .mainnet (YEAR_HEIGHT + 2 * WEEK_HEIGHT) 31 = 256 * 28 := by decide
example : graphWeight .mainnet 0 23 = 0 ∧ graphWeight .mainnet 0 21 = 2^62 := by decide

/-! ## What is not proved (kept visible)

* The executable oracle `oracleCycle` (Model/PowSpec.lean: degree counting + connectivity closure,
  used by the driver on every line) is not proved equivalent to the declarative `IsProofCycle*`;
  it is tied to it only through the verifiers: on every line of every run the implementation, the
  proven-equivalent verifier model and the oracle agree. `IsProofCycle*` is decidable via the
  verifier (`isProofCycle*_iff_verifier`), not via the oracle. (For Cuckarood the corresponding
  corollary is not stated: its edge list carries direction bits that must agree with the nonce
  parities, so the bare-edge-list trick needs nonces of prescribed parity.)
* `Proof` packing (`pack_bits` / `read_number`, padding check) is
  modelled bit for bit (Model/PowPack.lean) and compared on every edge_bits 1..63, but the
  round-trip `readNumber (packNonces w ns) (i*w) w = ns[i]` is not a theorem here (DESIGN A.4 puts
  it under C10).
* History independence of the real context objects is not provable from the model (where it holds
  by construction, `verify_history_independent`): it is sampled by the `hist` run.
* The hash prefix values 0 and 1 (`max(1, h)`) cannot be reached by searching nonce lists
  (probability 2^-64 per proof): `max 1 h` is in the model and in `difficulty_exact`, but the
  correspondence never exercises `h = 0`.
* siphash / blake2b are executable models compared by value; nothing is proved about them (the
  graph theorems hold for every endpoint function). -/

/-- **`Proof::read` refuses an edge-bits byte outside 1..=63** whatever bytes follow (the guard in
front of the nonce parsing; compared with the real reader on the bytes 0 and 64..255 in run `pack`);
and a proof it accepts has exactly `ps` nonces. -/
theorem proof_read_refuses_bad_edge_bits (w ps : Nat) (bs : Bytes) (h : w = 0 ∨ 63 < w) :
    readProof w ps bs = none := by
  unfold readProof
  rw [if_pos h]

theorem proof_read_ok_edge_bits (w ps : Nat) (bs : Bytes) (ns : List Nat)
    (h : readProof w ps bs = some ns) : 1 ≤ w ∧ w ≤ 63 ∧ 8 ≤ packLen w ps ∧ ns.length = ps := by
  unfold readProof at h
  split at h
  · cases h
  rename_i hw
  split at h
  · cases h
  rename_i hl
  dsimp only at h
  split at h
  · cases h
  cases h
  refine ⟨by omega, by omega, by omega, by simp⟩

example : readProof 64 8 (List.replicate 64 0) = none ∧ readProof 0 8 [] = none ∧
    readProof 10 8 (List.replicate 10 0) = some (List.replicate 8 0) := by decide +kernel

/-- **A truncated proof is refused**: with fewer bytes behind the edge-bits byte than
`pack_len(edge_bits)` nothing is read, whatever the bytes are; the empty input is refused too. -/
theorem proof_stream_truncated_refused (ps w : Nat) (rest : Bytes) (h : rest.length < packLen w ps) :
    readProofStream ps (w :: rest) = none := by
  simp only [readProofStream, h, if_true]
  split
  · rfl
  split <;> rfl

/-- an accepted stream carried legal edge bits, yielded exactly `ps` nonces and consumed exactly
`1 + pack_len(edge_bits)` bytes -/
theorem proof_stream_ok (ps : Nat) (bs : Bytes) (w : Nat) (ns : List Nat) (r : Nat)
    (h : readProofStream ps bs = some (w, ns, r)) :
    1 ≤ w ∧ w ≤ 63 ∧ ns.length = ps ∧ bs.length = 1 + packLen w ps + r ∧
    readProof w ps ((bs.drop 1).take (packLen w ps)) = some ns := by
  unfold readProofStream at h
  split at h
  · cases h
  rename_i w' rest
  split at h
  · cases h
  split at h
  · cases h
  split at h
  · cases h
  rename_i hlen
  split at h
  · cases h
  rename_i ns' hr
  cases h
  obtain ⟨h1, h2, _, h4⟩ := proof_read_ok_edge_bits _ _ _ _ hr
  refine ⟨h1, h2, h4, ?_, by simpa using hr⟩
  simp only [List.length_cons]
  omega

example : readProofStream 8 (10 :: List.replicate 9 0) = none ∧
    readProofStream 8 (10 :: List.replicate 10 0) = some (10, List.replicate 8 0, 0) ∧
    readProofStream 8 (10 :: List.replicate 12 0) = some (10, List.replicate 8 0, 2) ∧
    readProofStream 8 [] = none ∧ readProofStream 8 [10] = none := by decide +kernel

/-! ### `set_header_nonce`: the nonce is part of the seed, for every nonce value

`common::set_header_nonce(header, Some(n))` replaces the last four header bytes by `n` (little
endian) and hashes the result; `None` hashes the header as it is.  All five contexts go through it. -/

/-- **`keys(header, some n) = keys(splice header n, none)` for every `n`, `0` included.** -/
theorem setHeaderNonce (hdr : Bytes) (n : Nat) :
    keysOfHeader hdr (some n) = keysOfHeader (spliceNonce hdr n) none := rfl

/-- in particular `Some(0)` is not `None`: it seeds the graph of the header with its last four
bytes zeroed -/
theorem setHeaderNonce_zero (hdr : Bytes) :
    keysOfHeader hdr (some 0) = keysOfHeader (hdr.take (hdr.length - 4) ++ [0, 0, 0, 0]) none := rfl

/-- a context seeded with `(header, Some(n))` is the context seeded with the spliced header and no
nonce: same keys, same verdict on every proof, for each of the five graph definitions -/
theorem seed_some_eq_seed_spliced (c : Ctx) (hdr : Bytes) (n : Nat) (solve : Bool) (nonces : List Nat) :
    (c.step (.seed hdr (some n) solve)).keys = (c.step (.seed (spliceNonce hdr n) none solve)).keys ∧
    (c.step (.seed hdr (some n) solve)).verify nonces =
      (c.step (.seed (spliceNonce hdr n) none solve)).verify nonces := by
  have h : c.step (.seed hdr (some n) solve) = c.step (.seed (spliceNonce hdr n) none solve) := by
    simp only [Ctx.step, setHeaderNonce]
  rw [h]
  exact ⟨rfl, rfl⟩

/-- the spliced header has the length of the original (headers of at least four bytes) and ends in
the nonce -/
theorem spliceNonce_length (hdr : Bytes) (n : Nat) (h : 4 ≤ hdr.length) :
    (spliceNonce hdr n).length = hdr.length := by
  unfold spliceNonce
  have : (leBytes 4 n).length = 4 := by simp [leBytes]
  rw [List.length_append, List.length_take, this]
  omega

-- `Some(0)` on a header whose last four bytes are not zero seeds another graph than `None`
example : (keysOfHeader [1, 2, 3, 4, 5, 6, 7, 8] (some 0)).k0 ≠ (keysOfHeader [1, 2, 3, 4, 5, 6, 7, 8] none).k0 ∧
    (keysOfHeader [1, 2, 3, 4, 5, 6, 7, 8] (some 0)).k0 = (keysOfHeader [1, 2, 3, 4, 0, 0, 0, 0] none).k0 ∧
    (keysOfHeader [1, 2, 3, 4, 5, 6, 7, 8] (some 1)).k0 ≠ (keysOfHeader [1, 2, 3, 4, 5, 6, 7, 8] (some 0)).k0 := by
  decide +kernel

/-! ### a verdict does not depend on what the thread verified before -/

/-- **`verify_thread_history_independent`.**  In any sequence of verification requests handled by
one thread — any variants, headers, nonces and proofs before and after, in any order — the verdict
on a request is the verdict on that request alone: a function of (variant, edge bits, header,
nonce, proof).  (This is how the model is built; it is the specification the run `pow order`
checks on the real code, which could violate it through thread-local or static state.) -/
theorem verify_thread_history_independent (pre post : List VReq) (x : VReq) :
    (verifySeq (pre ++ x :: post))[pre.length]? = some (verifyReq x) := by
  unfold verifySeq
  rw [List.map_append, List.map_cons,
    List.getElem?_append_right (by simp), List.length_map, Nat.sub_self]
  rfl

/-- the order of two requests does not matter, nor does a repetition (A, B, A) -/
theorem verify_order_irrelevant (a b : VReq) :
    verifySeq [a, b] = [verifyReq a, verifyReq b] ∧ verifySeq [b, a] = [verifyReq b, verifyReq a] ∧
    verifySeq [a, b, a] = [verifyReq a, verifyReq b, verifyReq a] := ⟨rfl, rfl, rfl⟩

/-- two requests for the same header and nonce under different graph definitions share their
siphash keys (and only those) -/
theorem same_header_same_keys (c d : Ctx) (hdr : Bytes) (nonce : Option Nat) (s t : Bool) :
    (c.step (.seed hdr nonce s)).keys = (d.step (.seed hdr nonce t)).keys := by
  simp only [Ctx.step]
  split <;> split <;> rfl

end GV.Props.C05
