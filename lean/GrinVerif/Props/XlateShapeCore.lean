import GrinVerif.Gen.PipeShapeCore
import GrinVerif.Props.XlateShapeLib
/-! # Obligations about the validation pipelines (Core), stated over the REGENERATED shape tables

`Gen/PipeShapeCore.lean` is rewritten on every check run from the current Rust source by
tools/gen_pipeshape.py.  For every function:
* `<fn>_order`  — the ORDER of the steps that can end it with an error (`?`-propagated calls, explicit
  `Err`, tail expression), by callee / error variant: a dropped, added, duplicated or moved check breaks it;
* `<fn>_propagated` — no call to a validation function (`XlateShape.watch`) has its result discarded
  (a `?` replaced by `let _ =` / `.ok();` / a bare statement breaks `_order` and this), and the list of all
  discarded calls (side-effecting helpers) is as reviewed;
* `<fn>_early_ok` — the conditions under which it returns `Ok` early, and the checks that come BEFORE the
  first early return (a new early return, or one moved in front of a check, breaks it);
* `<fn>_errors` — the explicit error variants with the innermost condition they sit under, and the variants
  introduced by `map_err` (a check weakened by changing its condition or wrapped in a new guard breaks it;
  `_depth` records the nesting depth of every step).
All are closed by `decide`.  They do not mention arguments or local names (the exact pins in
`Props/XlateShapeCorePins.lean` do).  After a REVIEWED change regenerate with
`python3 tools/gen_pipeshape.py --obligations Core`; the ties to the hand models are in
`Props/XlateShapeModel.lean`. -/
namespace GV.Props.XlateShapeCore
open GV.Gen.PipeShape GV.Props.XlateShape

set_option maxRecDepth 4000

/-! ### `Block::validate_read (core/src/core/block.rs)` -/
theorem block_validate_read_order : readOk block_validate_read = true ∧ spine block_validate_read =
    ["validate_read", "verify_kernel_lock_heights"] := by decide
theorem block_validate_read_propagated : discarded watch block_validate_read = [] ∧ calls block_validate_read = [] := by decide
theorem block_validate_read_early_ok : earlyOks block_validate_read = [] := by decide
theorem block_validate_read_errors : fails block_validate_read = []
    ∧ mapped block_validate_read = [] := by decide
theorem block_validate_read_depth : depths block_validate_read = [0, 0] := by decide
theorem block_validate_read_guard_inputs : guardInputs block_validate_read = [] := by decide

/-! ### `Block::validate (core/src/core/block.rs)` -/
theorem block_validate_order : readOk block_validate = true ∧ spine block_validate =
    ["validate", "verify_kernel_lock_heights", "verify_nrd_kernels_for_header_version", "verify_coinbase", "block_kernel_offset", "verify_kernel_sums"] := by decide
theorem block_validate_propagated : discarded watch block_validate = [] ∧ calls block_validate = [] := by decide
theorem block_validate_early_ok : earlyOks block_validate = [] := by decide
theorem block_validate_errors : fails block_validate = []
    ∧ mapped block_validate = [] := by decide
theorem block_validate_depth : depths block_validate = [0, 0, 0, 0, 0, 0] := by decide
theorem block_validate_guard_inputs : guardInputs block_validate = [] := by decide

/-! ### `Block::verify_coinbase (core/src/core/block.rs)` -/
theorem block_verify_coinbase_order : readOk block_verify_coinbase = true ∧ spine block_verify_coinbase =
    ["is_coinbase", "is_coinbase", "commit_value", "commit_sum", "excess", "commit_sum", "CoinbaseSumMismatch"] := by decide
theorem block_verify_coinbase_propagated : discarded watch block_verify_coinbase = [] ∧ calls block_verify_coinbase = [] := by decide
theorem block_verify_coinbase_early_ok : earlyOks block_verify_coinbase = [] := by decide
theorem block_verify_coinbase_errors : fails block_verify_coinbase = [("CoinbaseSumMismatch", "($9 != $7)")]
    ∧ mapped block_verify_coinbase = [] := by decide
theorem block_verify_coinbase_depth : depths block_verify_coinbase = [1, 1, 0, 0, 1, 0, 1] := by decide
theorem block_verify_coinbase_guard_inputs : guardInputs block_verify_coinbase = ["kernels", "static_secp_instance", "lock", "commit_value", "commit_sum", "commit_sum"] := by decide

/-! ### `Block::verify_kernel_lock_heights (core/src/core/block.rs)` -/
theorem block_verify_kernel_lock_heights_order : readOk block_verify_kernel_lock_heights = true ∧ spine block_verify_kernel_lock_heights =
    ["KernelLockHeight"] := by decide
theorem block_verify_kernel_lock_heights_propagated : discarded watch block_verify_kernel_lock_heights = [] ∧ calls block_verify_kernel_lock_heights = [] := by decide
theorem block_verify_kernel_lock_heights_early_ok : earlyOks block_verify_kernel_lock_heights = [] := by decide
theorem block_verify_kernel_lock_heights_errors : fails block_verify_kernel_lock_heights = [("KernelLockHeight", "($1 > self.header.height)")]
    ∧ mapped block_verify_kernel_lock_heights = [] := by decide
theorem block_verify_kernel_lock_heights_depth : depths block_verify_kernel_lock_heights = [3] := by decide
theorem block_verify_kernel_lock_heights_guard_inputs : guardInputs block_verify_kernel_lock_heights = [] := by decide

/-! ### `Block::verify_nrd_kernels_for_header_version (core/src/core/block.rs)` -/
theorem block_verify_nrd_kernels_for_header_version_order : readOk block_verify_nrd_kernels_for_header_version = true ∧ spine block_verify_nrd_kernels_for_header_version =
    ["is_nrd", "NRDKernelNotEnabled", "NRDKernelPreHF3"] := by decide
theorem block_verify_nrd_kernels_for_header_version_propagated : discarded watch block_verify_nrd_kernels_for_header_version = [] ∧ calls block_verify_nrd_kernels_for_header_version = [] := by decide
theorem block_verify_nrd_kernels_for_header_version_early_ok : earlyOks block_verify_nrd_kernels_for_header_version = [] := by decide
theorem block_verify_nrd_kernels_for_header_version_errors : fails block_verify_nrd_kernels_for_header_version = [("NRDKernelNotEnabled", "!(global::is_nrd_enabled())"), ("NRDKernelPreHF3", "(self.header.version < HeaderVersion(4))")]
    ∧ mapped block_verify_nrd_kernels_for_header_version = [] := by decide
theorem block_verify_nrd_kernels_for_header_version_depth : depths block_verify_nrd_kernels_for_header_version = [1, 2, 2] := by decide
theorem block_verify_nrd_kernels_for_header_version_guard_inputs : guardInputs block_verify_nrd_kernels_for_header_version = [] := by decide

/-! ### `<UntrustedBlockHeader as Readable>::read (core/src/core/block.rs)` -/
theorem untrusted_header_read_order : readOk untrusted_header_read = true ∧ spine untrusted_header_read =
    ["read_block_header", "CorruptedData", "InvalidBlockVersion", "CorruptedData", "CorruptedData", "CorruptedData"] := by decide
theorem untrusted_header_read_propagated : discarded watch untrusted_header_read = [] ∧ calls untrusted_header_read = [] := by decide
theorem untrusted_header_read_early_ok : earlyOks untrusted_header_read = [] := by decide
theorem untrusted_header_read_errors : fails untrusted_header_read = [("CorruptedData", "($1.timestamp > (Utc::now() + Duration::seconds($2 as _)))"), ("InvalidBlockVersion", "!(consensus::valid_header_version($1.height, $1.version))"), ("CorruptedData", "(!($1.pow.is_primary()) && !($1.pow.is_secondary()))"), ("CorruptedData", "verify_size(&$1) ~ Err(_)"), ("CorruptedData", "($4 > (global::max_block_weight() * ($1.height + 1)))")]
    ∧ mapped untrusted_header_read = [] := by decide
theorem untrusted_header_read_depth : depths untrusted_header_read = [0, 1, 1, 1, 1, 1] := by decide
theorem untrusted_header_read_guard_inputs : guardInputs untrusted_header_read = ["read_block_header", "get_future_time_limit", "weight_by_iok"] := by decide

/-! ### `<UntrustedBlock as Readable>::read (core/src/core/block.rs)` -/
theorem untrusted_block_read_order : readOk untrusted_block_read = true ∧ spine untrusted_block_read =
    ["read", "read", "CorruptedData", "validate_read"] := by decide
theorem untrusted_block_read_propagated : discarded watch untrusted_block_read = [] ∧ calls untrusted_block_read = [] := by decide
theorem untrusted_block_read_early_ok : earlyOks untrusted_block_read = [] := by decide
theorem untrusted_block_read_errors : fails untrusted_block_read = []
    ∧ mapped untrusted_block_read = [("validate_read", "CorruptedData")] := by decide
theorem untrusted_block_read_depth : depths untrusted_block_read = [0, 0, 1, 0] := by decide
theorem untrusted_block_read_guard_inputs : guardInputs untrusted_block_read = [] := by decide

/-! ### `TransactionBody::validate_read (core/src/core/transaction.rs)` -/
theorem body_validate_read_order : readOk body_validate_read = true ∧ spine body_validate_read =
    ["verify_weight", "verify_no_nrd_duplicates", "verify_sorted", "verify_cut_through"] := by decide
theorem body_validate_read_propagated : discarded watch body_validate_read = [] ∧ calls body_validate_read = [] := by decide
theorem body_validate_read_early_ok : earlyOks body_validate_read = [] := by decide
theorem body_validate_read_errors : fails body_validate_read = []
    ∧ mapped body_validate_read = [] := by decide
theorem body_validate_read_depth : depths body_validate_read = [0, 0, 0, 0] := by decide
theorem body_validate_read_guard_inputs : guardInputs body_validate_read = [] := by decide

/-! ### `TransactionBody::validate (core/src/core/transaction.rs)` -/
theorem body_validate_order : readOk body_validate = true ∧ spine body_validate =
    ["validate_read", "batch_verify_proofs", "batch_sig_verify"] := by decide
theorem body_validate_propagated : discarded watch body_validate = [] ∧ calls body_validate = ["push", "push"] := by decide
theorem body_validate_early_ok : earlyOks body_validate = [] := by decide
theorem body_validate_errors : fails body_validate = []
    ∧ mapped body_validate = [] := by decide
theorem body_validate_depth : depths body_validate = [0, 1, 0] := by decide
theorem body_validate_guard_inputs : guardInputs body_validate = [] := by decide

/-! ### `TransactionBody::verify_weight (core/src/core/transaction.rs)` -/
theorem body_verify_weight_order : readOk body_verify_weight = true ∧ spine body_verify_weight =
    ["TooHeavy"] := by decide
theorem body_verify_weight_propagated : discarded watch body_verify_weight = [] ∧ calls body_verify_weight = [] := by decide
theorem body_verify_weight_early_ok : earlyOks body_verify_weight = [["$0 ~ Weighting::NoLimit"]]
    ∧ spineBeforeFirstEarlyOk body_verify_weight = [] := by decide
theorem body_verify_weight_errors : fails body_verify_weight = [("TooHeavy", "(self.weight() > $3)")]
    ∧ mapped body_verify_weight = [] := by decide
theorem body_verify_weight_depth : depths body_verify_weight = [1] := by decide
theorem body_verify_weight_guard_inputs : guardInputs body_verify_weight = ["<match>"] := by decide

/-! ### `TransactionBody::verify_no_nrd_duplicates (core/src/core/transaction.rs)` -/
theorem body_verify_no_nrd_duplicates_order : readOk body_verify_no_nrd_duplicates = true ∧ spine body_verify_no_nrd_duplicates =
    ["<boollit>", "<boollit>", "excess", "InvalidNRDRelativeHeight"] := by decide
theorem body_verify_no_nrd_duplicates_propagated : discarded watch body_verify_no_nrd_duplicates = [] ∧ calls body_verify_no_nrd_duplicates = ["sort", "dedup"] := by decide
theorem body_verify_no_nrd_duplicates_early_ok : earlyOks body_verify_no_nrd_duplicates = [["!(global::is_nrd_enabled())"]]
    ∧ spineBeforeFirstEarlyOk body_verify_no_nrd_duplicates = [] := by decide
theorem body_verify_no_nrd_duplicates_errors : fails body_verify_no_nrd_duplicates = [("InvalidNRDRelativeHeight", "!(($3 == $4))")]
    ∧ mapped body_verify_no_nrd_duplicates = [] := by decide
theorem body_verify_no_nrd_duplicates_depth : depths body_verify_no_nrd_duplicates = [2, 2, 1, 1] := by decide
theorem body_verify_no_nrd_duplicates_guard_inputs : guardInputs body_verify_no_nrd_duplicates = ["kernels", "len", "len"] := by decide

/-! ### `TransactionBody::verify_sorted (core/src/core/transaction.rs)` -/
theorem body_verify_sorted_order : readOk body_verify_sorted = true ∧ spine body_verify_sorted =
    ["verify_sorted_and_unique", "verify_sorted_and_unique", "verify_sorted_and_unique"] := by decide
theorem body_verify_sorted_propagated : discarded watch body_verify_sorted = [] ∧ calls body_verify_sorted = [] := by decide
theorem body_verify_sorted_early_ok : earlyOks body_verify_sorted = [] := by decide
theorem body_verify_sorted_errors : fails body_verify_sorted = []
    ∧ mapped body_verify_sorted = [] := by decide
theorem body_verify_sorted_depth : depths body_verify_sorted = [0, 0, 0] := by decide
theorem body_verify_sorted_guard_inputs : guardInputs body_verify_sorted = [] := by decide

/-! ### `TransactionBody::verify_cut_through (core/src/core/transaction.rs)` -/
theorem body_verify_cut_through_order : readOk body_verify_cut_through = true ∧ spine body_verify_cut_through =
    ["CutThrough"] := by decide
theorem body_verify_cut_through_propagated : discarded watch body_verify_cut_through = [] ∧ calls body_verify_cut_through = [] := by decide
theorem body_verify_cut_through_early_ok : earlyOks body_verify_cut_through = [] := by decide
theorem body_verify_cut_through_errors : fails body_verify_cut_through = [("CutThrough", "($1[0] == $1[1])")]
    ∧ mapped body_verify_cut_through = [] := by decide
theorem body_verify_cut_through_depth : depths body_verify_cut_through = [2] := by decide
theorem body_verify_cut_through_guard_inputs : guardInputs body_verify_cut_through = ["inputs_outputs_committed"] := by decide

/-! ### `TransactionBody::verify_features (core/src/core/transaction.rs)` -/
theorem body_verify_features_order : readOk body_verify_features = true ∧ spine body_verify_features =
    ["verify_output_features", "verify_kernel_features"] := by decide
theorem body_verify_features_propagated : discarded watch body_verify_features = [] ∧ calls body_verify_features = [] := by decide
theorem body_verify_features_early_ok : earlyOks body_verify_features = [] := by decide
theorem body_verify_features_errors : fails body_verify_features = []
    ∧ mapped body_verify_features = [] := by decide
theorem body_verify_features_depth : depths body_verify_features = [0, 0] := by decide
theorem body_verify_features_guard_inputs : guardInputs body_verify_features = [] := by decide

/-! ### `TransactionBody::verify_output_features (core/src/core/transaction.rs)` -/
theorem body_verify_output_features_order : readOk body_verify_output_features = true ∧ spine body_verify_output_features =
    ["is_coinbase", "InvalidOutputFeatures"] := by decide
theorem body_verify_output_features_propagated : discarded watch body_verify_output_features = [] ∧ calls body_verify_output_features = [] := by decide
theorem body_verify_output_features_early_ok : earlyOks body_verify_output_features = [] := by decide
theorem body_verify_output_features_errors : fails body_verify_output_features = [("InvalidOutputFeatures", "self.outputs.iter().any(|..|{..})")]
    ∧ mapped body_verify_output_features = [] := by decide
theorem body_verify_output_features_depth : depths body_verify_output_features = [1, 1] := by decide
theorem body_verify_output_features_guard_inputs : guardInputs body_verify_output_features = [] := by decide

/-! ### `TransactionBody::verify_kernel_features (core/src/core/transaction.rs)` -/
theorem body_verify_kernel_features_order : readOk body_verify_kernel_features = true ∧ spine body_verify_kernel_features =
    ["is_coinbase", "InvalidKernelFeatures"] := by decide
theorem body_verify_kernel_features_propagated : discarded watch body_verify_kernel_features = [] ∧ calls body_verify_kernel_features = [] := by decide
theorem body_verify_kernel_features_early_ok : earlyOks body_verify_kernel_features = [] := by decide
theorem body_verify_kernel_features_errors : fails body_verify_kernel_features = [("InvalidKernelFeatures", "self.kernels.iter().any(|..|{..})")]
    ∧ mapped body_verify_kernel_features = [] := by decide
theorem body_verify_kernel_features_depth : depths body_verify_kernel_features = [1, 1] := by decide
theorem body_verify_kernel_features_guard_inputs : guardInputs body_verify_kernel_features = [] := by decide

/-! ### `Transaction::validate_read (core/src/core/transaction.rs)` -/
theorem tx_validate_read_order : readOk tx_validate_read = true ∧ spine tx_validate_read =
    ["validate_read", "verify_features"] := by decide
theorem tx_validate_read_propagated : discarded watch tx_validate_read = [] ∧ calls tx_validate_read = [] := by decide
theorem tx_validate_read_early_ok : earlyOks tx_validate_read = [] := by decide
theorem tx_validate_read_errors : fails tx_validate_read = []
    ∧ mapped tx_validate_read = [] := by decide
theorem tx_validate_read_depth : depths tx_validate_read = [0, 0] := by decide
theorem tx_validate_read_guard_inputs : guardInputs tx_validate_read = [] := by decide

/-! ### `Transaction::validate (core/src/core/transaction.rs)` -/
theorem tx_validate_order : readOk tx_validate = true ∧ spine tx_validate =
    ["verify_features", "validate", "verify_kernel_sums"] := by decide
theorem tx_validate_propagated : discarded watch tx_validate = [] ∧ calls tx_validate = [] := by decide
theorem tx_validate_early_ok : earlyOks tx_validate = [] := by decide
theorem tx_validate_errors : fails tx_validate = []
    ∧ mapped tx_validate = [] := by decide
theorem tx_validate_depth : depths tx_validate = [0, 0, 0] := by decide
theorem tx_validate_guard_inputs : guardInputs tx_validate = [] := by decide

end GV.Props.XlateShapeCore
