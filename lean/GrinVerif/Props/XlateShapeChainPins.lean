import GrinVerif.Gen.PipeShapeChain
/-! # Pinned shapes of the validation pipelines (Chain)

Every `def pin_<fn>` below is a COPY, made when the shape was last reviewed, of the step list that
tools/gen_pipeshape.py reads from the source (`Gen/PipeShapeChain.lean`, regenerated on every check run);
`<fn>_pinned` states that the current source still has exactly that shape (kernel-checked by `rfl` /
`decide`).  A change of the order of checks, a dropped `?`, a new guard or early return, another error
variant, another argument breaks the theorem.  After a REVIEWED harmless change re-pin with
`python3 tools/gen_pipeshape.py --pin Chain > lean/GrinVerif/Props/XlateShapeChainPins.lean`.
The semantic obligations (order the hand models assume, every check propagated, early returns) are in
`Props/XlateShapeChain.lean`, stated over the GENERATED tables. -/
namespace GV.Props.XlateShapeChainPins
open GV.Gen.PipeShape

/-- reviewed shape of `check_known (chain/src/pipe.rs)` -/
def pin_pipe_check_known : List Step := [
  ⟨.check, "check_known_head", "check_known_head($0, $1)", "", ["($0.total_difficulty() <= $1.total_difficulty)"]⟩,
  ⟨.check, "check_known_store", "check_known_store($0, $1, $2)", "", ["($0.total_difficulty() <= $1.total_difficulty)"]⟩,
  ⟨.okFinal, "", "()", "", []⟩
]
/-- reviewed `let`s / assignments that feed a guard of `check_known (chain/src/pipe.rs)` -/
def pin_lets_pipe_check_known : List LetRec := [
]
theorem pipe_check_known_pinned : pipe_check_known.parseError = none ∧ pipe_check_known.steps = pin_pipe_check_known ∧ pipe_check_known.lets = pin_lets_pipe_check_known := ⟨rfl, rfl, rfl⟩

/-- reviewed shape of `validate_pow_only (chain/src/pipe.rs)` -/
def pin_pipe_validate_pow_only : List Step := [
  ⟨.okEarly, "", "()", "", ["$1.opts.contains(Options::SKIP_POW)"]⟩,
  ⟨.fail, "LowEdgebits", "Error::LowEdgebits", "", ["(!($0.pow.is_primary()) && !($0.pow.is_secondary()))"]⟩,
  ⟨.fail, "InvalidPow", "Error::InvalidPow", "", ["($1.pow_verifier)($0).is_err()"]⟩,
  ⟨.okFinal, "", "()", "", []⟩
]
/-- reviewed `let`s / assignments that feed a guard of `validate_pow_only (chain/src/pipe.rs)` -/
def pin_lets_pipe_validate_pow_only : List LetRec := [
]
theorem pipe_validate_pow_only_pinned : pipe_validate_pow_only.parseError = none ∧ pipe_validate_pow_only.steps = pin_pipe_validate_pow_only ∧ pipe_validate_pow_only.lets = pin_lets_pipe_validate_pow_only := ⟨rfl, rfl, rfl⟩

/-- reviewed shape of `process_block (chain/src/pipe.rs)` -/
def pin_pipe_process_block : List Step := [
  ⟨.check, "head", "$1.batch.head()", "", []⟩,
  ⟨.check, "check_known", "check_known(&$0.header, &$2, $1)", "", []⟩,
  ⟨.check, "validate_pow_only", "validate_pow_only(&$0.header, $1)", "", []⟩,
  ⟨.check, "prev_header_store", "prev_header_store(&$0.header, &$1.batch)", "", []⟩,
  ⟨.check, "process_block_header", "process_block_header(&$0.header, $1)", "", []⟩,
  ⟨.check, "validate_block", "validate_block($0, $1)", "", []⟩,
  ⟨.check, "rewind_and_apply_fork", "rewind_and_apply_fork(&$3, $8, $9, $7)", "", ["closure"]⟩,
  ⟨.check, "verify_coinbase_maturity", "verify_coinbase_maturity($0, $8, $9)", "", ["closure"]⟩,
  ⟨.check, "validate_utxo", "validate_utxo($0, $8, $9)", "", ["closure"]⟩,
  ⟨.check, "verify_block_sums", "verify_block_sums($0, $9)", "", ["closure"]⟩,
  ⟨.check, "apply_block_to_txhashset", "apply_block_to_txhashset($0, $8, $9)", "", ["closure"]⟩,
  ⟨.check, "head", "$9.head()", "", ["closure"]⟩,
  ⟨.call, "force_rollback", "$8.extension.force_rollback()", "", ["closure", "!(has_more_work(&$0.header, &$11))"]⟩,
  ⟨.okFinal, "", "$10", "", ["closure"]⟩,
  ⟨.check, "extending", "txhashset::extending($4, $5, $6, |..|{..})", "", []⟩,
  ⟨.check, "add_block", "add_block($0, &$1.batch)", "", []⟩,
  ⟨.check, "update_body_tail", "update_body_tail(&$0.header, &$1.batch)", "", ["$1.batch.tail().is_err()"]⟩,
  ⟨.check, "update_head", "update_head(&$13, &$1.batch)", "", ["has_more_work(&$0.header, &$2)"]⟩,
  ⟨.okFinal, "", "(Some($13), $12)", "", ["has_more_work(&$0.header, &$2)"]⟩,
  ⟨.okFinal, "", "(None, $12)", "", ["!(has_more_work(&$0.header, &$2))"]⟩
]
/-- reviewed `let`s / assignments that feed a guard of `process_block (chain/src/pipe.rs)` -/
def pin_lets_pipe_process_block : List LetRec := [
  ⟨["$2"], "head", "$1.batch.head()?", []⟩,
  ⟨["$11"], "head", "$9.head()?", ["closure"]⟩
]
theorem pipe_process_block_pinned : pipe_process_block.parseError = none ∧ pipe_process_block.steps = pin_pipe_process_block ∧ pipe_process_block.lets = pin_lets_pipe_process_block := ⟨rfl, rfl, rfl⟩

/-- reviewed shape of `process_block_headers (chain/src/pipe.rs)` -/
def pin_pipe_process_block_headers : List Step := [
  ⟨.okEarly, "", "None", "", ["$0.is_empty()"]⟩,
  ⟨.check, "header_head", "$2.batch.header_head()", "", []⟩,
  ⟨.check, "validate_header", "validate_header($5, $2)", "", ["for $0"]⟩,
  ⟨.check, "add_block_header", "add_block_header($5, &$2.batch)", "", ["for $0"]⟩,
  ⟨.check, "rewind_and_apply_header_fork", "rewind_and_apply_header_fork(&$3, $7, $8, $6)", "", ["closure"]⟩,
  ⟨.check, "is_on_current_chain", "$7.is_on_current_chain($1, $8)", "", ["closure"]⟩,
  ⟨.check, "update_header_head", "update_header_head(&$10, &$8)", "", ["closure", "has_more_work($3, &$4)"]⟩,
  ⟨.call, "force_rollback", "$7.force_rollback()", "", ["closure", "!(has_more_work($3, &$4))"]⟩,
  ⟨.okFinal, "", "Some($3.into())", "", ["closure", "($9 || has_more_work($3, &$1))"]⟩,
  ⟨.okFinal, "", "None", "", ["closure", "!(($9 || has_more_work($3, &$1)))"]⟩,
  ⟨.tail, "header_extending", "txhashset::header_extending(&$2.header_pmmr, &$2.batch, |..|{..})", "", []⟩
]
/-- reviewed `let`s / assignments that feed a guard of `process_block_headers (chain/src/pipe.rs)` -/
def pin_lets_pipe_process_block_headers : List LetRec := [
  ⟨["$3"], "last", "$0.last().expect(\"…\")", []⟩,
  ⟨["$4"], "header_head", "$2.batch.header_head()?", []⟩,
  ⟨["$9"], "is_on_current_chain", "!($7.is_on_current_chain($1, $8)?)", ["closure"]⟩
]
theorem pipe_process_block_headers_pinned : pipe_process_block_headers.parseError = none ∧ pipe_process_block_headers.steps = pin_pipe_process_block_headers ∧ pipe_process_block_headers.lets = pin_lets_pipe_process_block_headers := ⟨rfl, rfl, rfl⟩

/-- reviewed shape of `process_block_header (chain/src/pipe.rs)` -/
def pin_pipe_process_block_header : List Step := [
  ⟨.check, "head", "$1.batch.head()", "", []⟩,
  ⟨.okEarly, "", "()", "", ["check_known($0, &$2, $1).is_err()"]⟩,
  ⟨.check, "get_previous_header", "$1.batch.get_previous_header(&$0)", "", []⟩,
  ⟨.check, "header_head", "$1.batch.header_head()", "", []⟩,
  ⟨.okEarly, "", "()", "", ["$1.batch.get_block_header(&$0.hash()) ~ Ok(_)", "!(has_more_work(&$5, &$4))"]⟩,
  ⟨.check, "validate_header", "validate_header($0, $1)", "", []⟩,
  ⟨.check, "rewind_and_apply_header_fork", "rewind_and_apply_header_fork(&$3, $7, $8, $6)", "", ["closure"]⟩,
  ⟨.check, "validate_root", "$7.validate_root($0)", "", ["closure"]⟩,
  ⟨.check, "apply_header", "$7.apply_header($0)", "", ["closure"]⟩,
  ⟨.call, "force_rollback", "$7.force_rollback()", "", ["closure", "!(has_more_work(&$0, &$4))"]⟩,
  ⟨.okFinal, "", "()", "", ["closure"]⟩,
  ⟨.check, "header_extending", "txhashset::header_extending(&$1.header_pmmr, &$1.batch, |..|{..})", "", []⟩,
  ⟨.check, "add_block_header", "add_block_header($0, &$1.batch)", "", []⟩,
  ⟨.check, "update_header_head", "update_header_head(&Tip::from_header($0), &$1.batch)", "", ["has_more_work($0, &$4)"]⟩,
  ⟨.okFinal, "", "()", "", []⟩
]
/-- reviewed `let`s / assignments that feed a guard of `process_block_header (chain/src/pipe.rs)` -/
def pin_lets_pipe_process_block_header : List LetRec := [
  ⟨["$2"], "head", "$1.batch.head()?", []⟩,
  ⟨["$4"], "header_head", "$1.batch.header_head()?", []⟩
]
theorem pipe_process_block_header_pinned : pipe_process_block_header.parseError = none ∧ pipe_process_block_header.steps = pin_pipe_process_block_header ∧ pipe_process_block_header.lets = pin_lets_pipe_process_block_header := ⟨rfl, rfl, rfl⟩

/-- reviewed shape of `check_known_head (chain/src/pipe.rs)` -/
def pin_pipe_check_known_head : List Step := [
  ⟨.fail, "Unfit", "Error::Unfit(\"…\".to_string())", "", ["(($2 == $1.last_block_h) || ($2 == $1.prev_block_h))"]⟩,
  ⟨.okFinal, "", "()", "", []⟩
]
/-- reviewed `let`s / assignments that feed a guard of `check_known_head (chain/src/pipe.rs)` -/
def pin_lets_pipe_check_known_head : List LetRec := [
  ⟨["$2"], "hash", "$0.hash()", []⟩
]
theorem pipe_check_known_head_pinned : pipe_check_known_head.parseError = none ∧ pipe_check_known_head.steps = pin_pipe_check_known_head ∧ pipe_check_known_head.lets = pin_lets_pipe_check_known_head := ⟨rfl, rfl, rfl⟩

/-- reviewed shape of `check_known_store (chain/src/pipe.rs)` -/
def pin_pipe_check_known_store : List Step := [
  ⟨.fail, "OldBlock", "Error::OldBlock", "", ["$2.batch.block_exists(&$0.hash()) ~ Ok(_)", "($0.height < $1.height.saturating_sub(50))"]⟩,
  ⟨.fail, "Unfit", "Error::Unfit(\"…\".to_string())", "", ["$2.batch.block_exists(&$0.hash()) ~ Ok(_)", "!(($0.height < $1.height.saturating_sub(50)))"]⟩,
  ⟨.okFinal, "", "()", "", ["$2.batch.block_exists(&$0.hash()) ~ Ok(_)"]⟩,
  ⟨.fail, "StoreErr", "Error::StoreErr($5, \"…\".to_owned())", "", ["$2.batch.block_exists(&$0.hash()) ~ Err(_)"]⟩
]
/-- reviewed `let`s / assignments that feed a guard of `check_known_store (chain/src/pipe.rs)` -/
def pin_lets_pipe_check_known_store : List LetRec := [
]
theorem pipe_check_known_store_pinned : pipe_check_known_store.parseError = none ∧ pipe_check_known_store.steps = pin_pipe_check_known_store ∧ pipe_check_known_store.lets = pin_lets_pipe_check_known_store := ⟨rfl, rfl, rfl⟩

/-- reviewed shape of `prev_header_store (chain/src/pipe.rs)` -/
def pin_pipe_prev_header_store : List Step := [
  ⟨.check, "get_previous_header", "$1.get_previous_header(&$0)", "", []⟩,
  ⟨.okFinal, "", "$2", "", []⟩
]
/-- reviewed `let`s / assignments that feed a guard of `prev_header_store (chain/src/pipe.rs)` -/
def pin_lets_pipe_prev_header_store : List LetRec := [
]
theorem pipe_prev_header_store_pinned : pipe_prev_header_store.parseError = none ∧ pipe_prev_header_store.steps = pin_pipe_prev_header_store ∧ pipe_prev_header_store.lets = pin_lets_pipe_prev_header_store := ⟨rfl, rfl, rfl⟩

/-- reviewed shape of `validate_header_ctx (chain/src/pipe.rs)` -/
def pin_pipe_validate_header_ctx : List Step := [
  ⟨.tail, "header_allowed", "($1.header_allowed)($0)", "", []⟩
]
/-- reviewed `let`s / assignments that feed a guard of `validate_header_ctx (chain/src/pipe.rs)` -/
def pin_lets_pipe_validate_header_ctx : List LetRec := [
]
theorem pipe_validate_header_ctx_pinned : pipe_validate_header_ctx.parseError = none ∧ pipe_validate_header_ctx.steps = pin_pipe_validate_header_ctx ∧ pipe_validate_header_ctx.lets = pin_lets_pipe_validate_header_ctx := ⟨rfl, rfl, rfl⟩

/-- reviewed shape of `validate_header_denylist (chain/src/pipe.rs)` -/
def pin_pipe_validate_header_denylist : List Step := [
  ⟨.okEarly, "", "()", "", ["$1.is_empty()"]⟩,
  ⟨.fail, "Block.Other", "Error::Block(block::Error::Other(\"…\".into()))", "", ["$1.contains(&$0.hash())"]⟩,
  ⟨.okEarly, "", "()", "", ["!($1.contains(&$0.hash()))"]⟩
]
/-- reviewed `let`s / assignments that feed a guard of `validate_header_denylist (chain/src/pipe.rs)` -/
def pin_lets_pipe_validate_header_denylist : List LetRec := [
]
theorem pipe_validate_header_denylist_pinned : pipe_validate_header_denylist.parseError = none ∧ pipe_validate_header_denylist.steps = pin_pipe_validate_header_denylist ∧ pipe_validate_header_denylist.lets = pin_lets_pipe_validate_header_denylist := ⟨rfl, rfl, rfl⟩

/-- reviewed shape of `validate_header (chain/src/pipe.rs)` -/
def pin_pipe_validate_header : List Step := [
  ⟨.check, "validate_header_ctx", "validate_header_ctx($0, $1)", "", []⟩,
  ⟨.check, "prev_header_store", "prev_header_store($0, &$1.batch)", "", []⟩,
  ⟨.fail, "InvalidBlockHeight", "Error::InvalidBlockHeight", "", ["($0.height != ($2.height + 1))"]⟩,
  ⟨.fail, "InvalidBlockVersion", "Error::InvalidBlockVersion($0.version)", "", ["!(consensus::valid_header_version($0.height, $0.version))"]⟩,
  ⟨.fail, "InvalidBlockTime", "Error::InvalidBlockTime", "", ["($0.timestamp <= $2.timestamp)"]⟩,
  ⟨.fail, "InvalidMMRSize", "Error::InvalidMMRSize", "", ["(($3 == 0) || ($4 == 0))"]⟩,
  ⟨.fail, "Block.TooHeavy", "Error::Block(block::Error::TooHeavy)", "", ["($5 > global::max_block_weight())"]⟩,
  ⟨.check, "validate_pow_only", "validate_pow_only($0, $1)", "", ["!($1.opts.contains(Options::SKIP_POW))"]⟩,
  ⟨.fail, "DifficultyTooLow", "Error::DifficultyTooLow", "", ["!($1.opts.contains(Options::SKIP_POW))", "($0.total_difficulty() <= $2.total_difficulty())"]⟩,
  ⟨.fail, "DifficultyTooLow", "Error::DifficultyTooLow", "", ["!($1.opts.contains(Options::SKIP_POW))", "($0.pow.to_difficulty($0.height) < $6)"]⟩,
  ⟨.check, "child", "$1.batch.child()", "", ["!($1.opts.contains(Options::SKIP_POW))"]⟩,
  ⟨.fail, "WrongTotalDifficulty", "Error::WrongTotalDifficulty", "", ["!($1.opts.contains(Options::SKIP_POW))", "($6 != $9.difficulty)"]⟩,
  ⟨.fail, "InvalidScaling", "Error::InvalidScaling", "", ["!($1.opts.contains(Options::SKIP_POW))", "(($0.version < HeaderVersion(5)) && ($0.pow.secondary_scaling != $9.secondary_scaling))"]⟩,
  ⟨.okFinal, "", "()", "", []⟩
]
/-- reviewed `let`s / assignments that feed a guard of `validate_header (chain/src/pipe.rs)` -/
def pin_lets_pipe_validate_header : List LetRec := [
  ⟨["$2"], "prev_header_store", "prev_header_store($0, &$1.batch)?", []⟩,
  ⟨["$3"], "saturating_sub", "$0.output_mmr_count().saturating_sub($2.output_mmr_count())", []⟩,
  ⟨["$4"], "saturating_sub", "$0.kernel_mmr_count().saturating_sub($2.kernel_mmr_count())", []⟩,
  ⟨["$5"], "weight_by_iok", "TransactionBody::weight_by_iok(0, $3, $4)", []⟩,
  ⟨["$6"], "<bin>", "($0.total_difficulty() - $2.total_difficulty())", ["!($1.opts.contains(Options::SKIP_POW))"]⟩,
  ⟨["$7"], "child", "$1.batch.child()?", ["!($1.opts.contains(Options::SKIP_POW))"]⟩,
  ⟨["$8"], "from_batch", "store::DifficultyIter::from_batch($2.hash(), $7)", ["!($1.opts.contains(Options::SKIP_POW))"]⟩,
  ⟨["$9"], "next_difficulty", "consensus::next_difficulty($0.height, $8)", ["!($1.opts.contains(Options::SKIP_POW))"]⟩
]
theorem pipe_validate_header_pinned : pipe_validate_header.parseError = none ∧ pipe_validate_header.steps = pin_pipe_validate_header ∧ pipe_validate_header.lets = pin_lets_pipe_validate_header := ⟨rfl, rfl, rfl⟩

/-- reviewed shape of `validate_block (chain/src/pipe.rs)` -/
def pin_pipe_validate_block : List Step := [
  ⟨.check, "get_previous_header", "$1.batch.get_previous_header(&$0.header)", "", []⟩,
  ⟨.check, "validate", "$0.validate(&$2.total_kernel_offset)", "", []⟩,
  ⟨.okFinal, "", "()", "", []⟩
]
/-- reviewed `let`s / assignments that feed a guard of `validate_block (chain/src/pipe.rs)` -/
def pin_lets_pipe_validate_block : List LetRec := [
]
theorem pipe_validate_block_pinned : pipe_validate_block.parseError = none ∧ pipe_validate_block.steps = pin_pipe_validate_block ∧ pipe_validate_block.lets = pin_lets_pipe_validate_block := ⟨rfl, rfl, rfl⟩

/-- reviewed shape of `verify_coinbase_maturity (chain/src/pipe.rs)` -/
def pin_pipe_verify_coinbase_maturity : List Step := [
  ⟨.tail, "verify_coinbase_maturity", "$3.utxo_view($4).verify_coinbase_maturity(&$0.inputs(), $0.header.height, $2)", "", []⟩
]
/-- reviewed `let`s / assignments that feed a guard of `verify_coinbase_maturity (chain/src/pipe.rs)` -/
def pin_lets_pipe_verify_coinbase_maturity : List LetRec := [
]
theorem pipe_verify_coinbase_maturity_pinned : pipe_verify_coinbase_maturity.parseError = none ∧ pipe_verify_coinbase_maturity.steps = pin_pipe_verify_coinbase_maturity ∧ pipe_verify_coinbase_maturity.lets = pin_lets_pipe_verify_coinbase_maturity := ⟨rfl, rfl, rfl⟩

/-- reviewed shape of `verify_block_sums (chain/src/pipe.rs)` -/
def pin_pipe_verify_block_sums : List Step := [
  ⟨.check, "get_block_sums", "$1.get_block_sums(&$0.header.prev_hash)", "", []⟩,
  ⟨.check, "verify_kernel_sums", "($2, $0 as _).verify_kernel_sums($3, $4)", "", []⟩,
  ⟨.check, "save_block_sums", "$1.save_block_sums(&$0.hash(), BlockSums{utxo_sum: $5, kernel_sum: $6})", "", []⟩,
  ⟨.okFinal, "", "()", "", []⟩
]
/-- reviewed `let`s / assignments that feed a guard of `verify_block_sums (chain/src/pipe.rs)` -/
def pin_lets_pipe_verify_block_sums : List LetRec := [
]
theorem pipe_verify_block_sums_pinned : pipe_verify_block_sums.parseError = none ∧ pipe_verify_block_sums.steps = pin_pipe_verify_block_sums ∧ pipe_verify_block_sums.lets = pin_lets_pipe_verify_block_sums := ⟨rfl, rfl, rfl⟩

/-- reviewed shape of `apply_block_to_txhashset (chain/src/pipe.rs)` -/
def pin_pipe_apply_block_to_txhashset : List Step := [
  ⟨.check, "apply_block", "$1.extension.apply_block($0, $1.header_extension, $2)", "", []⟩,
  ⟨.check, "validate_roots", "$1.extension.validate_roots(&$0.header)", "", []⟩,
  ⟨.check, "validate_sizes", "$1.extension.validate_sizes(&$0.header)", "", []⟩,
  ⟨.okFinal, "", "()", "", []⟩
]
/-- reviewed `let`s / assignments that feed a guard of `apply_block_to_txhashset (chain/src/pipe.rs)` -/
def pin_lets_pipe_apply_block_to_txhashset : List LetRec := [
]
theorem pipe_apply_block_to_txhashset_pinned : pipe_apply_block_to_txhashset.parseError = none ∧ pipe_apply_block_to_txhashset.steps = pin_pipe_apply_block_to_txhashset ∧ pipe_apply_block_to_txhashset.lets = pin_lets_pipe_apply_block_to_txhashset := ⟨rfl, rfl, rfl⟩

/-- reviewed shape of `add_block (chain/src/pipe.rs)` -/
def pin_pipe_add_block : List Step := [
  ⟨.check, "save_block", "$1.save_block($0)", "", []⟩,
  ⟨.okFinal, "", "()", "", []⟩
]
/-- reviewed `let`s / assignments that feed a guard of `add_block (chain/src/pipe.rs)` -/
def pin_lets_pipe_add_block : List LetRec := [
]
theorem pipe_add_block_pinned : pipe_add_block.parseError = none ∧ pipe_add_block.steps = pin_pipe_add_block ∧ pipe_add_block.lets = pin_lets_pipe_add_block := ⟨rfl, rfl, rfl⟩

/-- reviewed shape of `update_body_tail (chain/src/pipe.rs)` -/
def pin_pipe_update_body_tail : List Step := [
  ⟨.tail, "StoreErr", "Error::StoreErr($3, \"…\".to_owned())", "", ["closure"]⟩,
  ⟨.check, "save_body_tail", "$1.save_body_tail(&$2).map_err(|..|{..})", "StoreErr", []⟩,
  ⟨.okFinal, "", "()", "", []⟩
]
/-- reviewed `let`s / assignments that feed a guard of `update_body_tail (chain/src/pipe.rs)` -/
def pin_lets_pipe_update_body_tail : List LetRec := [
]
theorem pipe_update_body_tail_pinned : pipe_update_body_tail.parseError = none ∧ pipe_update_body_tail.steps = pin_pipe_update_body_tail ∧ pipe_update_body_tail.lets = pin_lets_pipe_update_body_tail := ⟨rfl, rfl, rfl⟩

/-- reviewed shape of `add_block_header (chain/src/pipe.rs)` -/
def pin_pipe_add_block_header : List Step := [
  ⟨.tail, "StoreErr", "Error::StoreErr($2, \"…\".to_owned())", "", ["closure"]⟩,
  ⟨.check, "save_block_header", "$1.save_block_header($0).map_err(|..|{..})", "StoreErr", []⟩,
  ⟨.okFinal, "", "()", "", []⟩
]
/-- reviewed `let`s / assignments that feed a guard of `add_block_header (chain/src/pipe.rs)` -/
def pin_lets_pipe_add_block_header : List LetRec := [
]
theorem pipe_add_block_header_pinned : pipe_add_block_header.parseError = none ∧ pipe_add_block_header.steps = pin_pipe_add_block_header ∧ pipe_add_block_header.lets = pin_lets_pipe_add_block_header := ⟨rfl, rfl, rfl⟩

/-- reviewed shape of `update_header_head (chain/src/pipe.rs)` -/
def pin_pipe_update_header_head : List Step := [
  ⟨.tail, "StoreErr", "Error::StoreErr($2, \"…\".to_owned())", "", ["closure"]⟩,
  ⟨.check, "save_header_head", "$1.save_header_head(&$0).map_err(|..|{..})", "StoreErr", []⟩,
  ⟨.okFinal, "", "()", "", []⟩
]
/-- reviewed `let`s / assignments that feed a guard of `update_header_head (chain/src/pipe.rs)` -/
def pin_lets_pipe_update_header_head : List LetRec := [
]
theorem pipe_update_header_head_pinned : pipe_update_header_head.parseError = none ∧ pipe_update_header_head.steps = pin_pipe_update_header_head ∧ pipe_update_header_head.lets = pin_lets_pipe_update_header_head := ⟨rfl, rfl, rfl⟩

/-- reviewed shape of `update_head (chain/src/pipe.rs)` -/
def pin_pipe_update_head : List Step := [
  ⟨.tail, "StoreErr", "Error::StoreErr($2, \"…\".to_owned())", "", ["closure"]⟩,
  ⟨.check, "save_body_head", "$1.save_body_head(&$0).map_err(|..|{..})", "StoreErr", []⟩,
  ⟨.okFinal, "", "()", "", []⟩
]
/-- reviewed `let`s / assignments that feed a guard of `update_head (chain/src/pipe.rs)` -/
def pin_lets_pipe_update_head : List LetRec := [
]
theorem pipe_update_head_pinned : pipe_update_head.parseError = none ∧ pipe_update_head.steps = pin_pipe_update_head ∧ pipe_update_head.lets = pin_lets_pipe_update_head := ⟨rfl, rfl, rfl⟩

/-- reviewed shape of `has_more_work (chain/src/pipe.rs)` -/
def pin_pipe_has_more_work : List Step := [
  ⟨.tail, "<bin>", "($0.total_difficulty() > $1.total_difficulty)", "", []⟩
]
/-- reviewed `let`s / assignments that feed a guard of `has_more_work (chain/src/pipe.rs)` -/
def pin_lets_pipe_has_more_work : List LetRec := [
]
theorem pipe_has_more_work_pinned : pipe_has_more_work.parseError = none ∧ pipe_has_more_work.steps = pin_pipe_has_more_work ∧ pipe_has_more_work.lets = pin_lets_pipe_has_more_work := ⟨rfl, rfl, rfl⟩

/-- reviewed shape of `rewind_and_apply_header_fork (chain/src/pipe.rs)` -/
def pin_pipe_rewind_and_apply_header_fork : List Step := [
  ⟨.check, "is_on_current_chain", "$1.is_on_current_chain(&$5, $2)", "", ["($5.height > 0)"]⟩,
  ⟨.call, "push", "$4.push($5.hash())", "", ["while (($5.height > 0) && !($1.is_on_current_chain(&$5, $2)?))"]⟩,
  ⟨.check, "get_previous_header", "$2.get_previous_header(&$5)", "", ["while (($5.height > 0) && !($1.is_on_current_chain(&$5, $2)?))"]⟩,
  ⟨.call, "reverse", "$4.reverse()", "", []⟩,
  ⟨.check, "rewind", "$1.rewind(&$6)", "", []⟩,
  ⟨.tail, "StoreErr", "Error::StoreErr($8, \"…\".to_string())", "", ["for $4", "closure"]⟩,
  ⟨.check, "get_block_header", "$2.get_block_header(&$7).map_err(|..|{..})", "StoreErr", ["for $4"]⟩,
  ⟨.check, "$3", "($3)(&$9)", "", ["for $4"]⟩,
  ⟨.check, "validate_root", "$1.validate_root(&$9)", "", ["for $4"]⟩,
  ⟨.check, "apply_header", "$1.apply_header(&$9)", "", ["for $4"]⟩,
  ⟨.okFinal, "", "()", "", []⟩
]
/-- reviewed `let`s / assignments that feed a guard of `rewind_and_apply_header_fork (chain/src/pipe.rs)` -/
def pin_lets_pipe_rewind_and_apply_header_fork : List LetRec := [
  ⟨["$4"], "<vec>", "[]", []⟩,
  ⟨["$5"], "header", "$0.clone()", []⟩,
  ⟨["$5"], "get_previous_header", "= $2.get_previous_header(&$5)?", ["while (($5.height > 0) && !($1.is_on_current_chain(&$5, $2)?))"]⟩
]
theorem pipe_rewind_and_apply_header_fork_pinned : pipe_rewind_and_apply_header_fork.parseError = none ∧ pipe_rewind_and_apply_header_fork.steps = pin_pipe_rewind_and_apply_header_fork ∧ pipe_rewind_and_apply_header_fork.lets = pin_lets_pipe_rewind_and_apply_header_fork := ⟨rfl, rfl, rfl⟩

/-- reviewed shape of `rewind_and_apply_fork (chain/src/pipe.rs)` -/
def pin_pipe_rewind_and_apply_fork : List Step := [
  ⟨.check, "rewind_and_apply_header_fork", "rewind_and_apply_header_fork($0, $5, $2, $3)", "", []⟩,
  ⟨.check, "head_header", "$2.head_header()", "", []⟩,
  ⟨.check, "is_on_current_chain", "$5.is_on_current_chain(&$6, $2)", "", ["($6.height > 0)"]⟩,
  ⟨.check, "get_previous_header", "$2.get_previous_header(&$6)", "", ["while (($6.height > 0) && !($5.is_on_current_chain(&$6, $2)?))"]⟩,
  ⟨.check, "rewind", "$4.rewind(&$7, $2)", "", []⟩,
  ⟨.call, "push", "$8.push($9.hash())", "", ["while ($9.height > $7.height)"]⟩,
  ⟨.check, "get_previous_header", "$2.get_previous_header(&$9)", "", ["while ($9.height > $7.height)"]⟩,
  ⟨.call, "reverse", "$8.reverse()", "", []⟩,
  ⟨.tail, "StoreErr", "Error::StoreErr($11, \"…\".to_string())", "", ["for $8", "closure"]⟩,
  ⟨.check, "get_block", "$2.get_block(&$10).map_err(|..|{..})", "StoreErr", ["for $8"]⟩,
  ⟨.check, "verify_coinbase_maturity", "verify_coinbase_maturity(&$12, $1, $2)", "", ["for $8"]⟩,
  ⟨.check, "validate_utxo", "validate_utxo(&$12, $1, $2)", "", ["for $8"]⟩,
  ⟨.check, "verify_block_sums", "verify_block_sums(&$12, $2)", "", ["for $8"]⟩,
  ⟨.check, "apply_block_to_txhashset", "apply_block_to_txhashset(&$12, $1, $2)", "", ["for $8"]⟩,
  ⟨.okFinal, "", "$7", "", []⟩
]
/-- reviewed `let`s / assignments that feed a guard of `rewind_and_apply_fork (chain/src/pipe.rs)` -/
def pin_lets_pipe_rewind_and_apply_fork : List LetRec := [
  ⟨["$5"], "header_extension", "&$1.header_extension", []⟩,
  ⟨["$6"], "head_header", "$2.head_header()?", []⟩,
  ⟨["$6"], "get_previous_header", "= $2.get_previous_header(&$6)?", ["while (($6.height > 0) && !($5.is_on_current_chain(&$6, $2)?))"]⟩,
  ⟨["$7"], "current", "$6", []⟩,
  ⟨["$8"], "<vec>", "[]", []⟩,
  ⟨["$9"], "header", "$0.clone()", []⟩,
  ⟨["$9"], "get_previous_header", "= $2.get_previous_header(&$9)?", ["while ($9.height > $7.height)"]⟩
]
theorem pipe_rewind_and_apply_fork_pinned : pipe_rewind_and_apply_fork.parseError = none ∧ pipe_rewind_and_apply_fork.steps = pin_pipe_rewind_and_apply_fork ∧ pipe_rewind_and_apply_fork.lets = pin_lets_pipe_rewind_and_apply_fork := ⟨rfl, rfl, rfl⟩

/-- reviewed shape of `validate_utxo (chain/src/pipe.rs)` -/
def pin_pipe_validate_utxo : List Step := [
  ⟨.tail, "validate_block", "$3.utxo_view($4).validate_block($0, $2)", "", []⟩
]
/-- reviewed `let`s / assignments that feed a guard of `validate_utxo (chain/src/pipe.rs)` -/
def pin_lets_pipe_validate_utxo : List LetRec := [
]
theorem pipe_validate_utxo_pinned : pipe_validate_utxo.parseError = none ∧ pipe_validate_utxo.steps = pin_pipe_validate_utxo ∧ pipe_validate_utxo.lets = pin_lets_pipe_validate_utxo := ⟨rfl, rfl, rfl⟩

/-- reviewed shape of `UTXOView::validate_block (chain/src/txhashset/utxo_view.rs)` -/
def pin_utxo_validate_block : List Step := [
  ⟨.check, "validate_output", "self.validate_output($2, $1)", "", ["for $0.outputs()"]⟩,
  ⟨.tail, "validate_inputs", "self.validate_inputs(&$0.inputs(), $1)", "", []⟩
]
/-- reviewed `let`s / assignments that feed a guard of `UTXOView::validate_block (chain/src/txhashset/utxo_view.rs)` -/
def pin_lets_utxo_validate_block : List LetRec := [
]
theorem utxo_validate_block_pinned : utxo_validate_block.parseError = none ∧ utxo_validate_block.steps = pin_utxo_validate_block ∧ utxo_validate_block.lets = pin_lets_utxo_validate_block := ⟨rfl, rfl, rfl⟩

/-- reviewed shape of `UTXOView::validate_tx (chain/src/txhashset/utxo_view.rs)` -/
def pin_utxo_validate_tx : List Step := [
  ⟨.check, "validate_output", "self.validate_output($2, $1)", "", ["for $0.outputs()"]⟩,
  ⟨.tail, "validate_inputs", "self.validate_inputs(&$0.inputs(), $1)", "", []⟩
]
/-- reviewed `let`s / assignments that feed a guard of `UTXOView::validate_tx (chain/src/txhashset/utxo_view.rs)` -/
def pin_lets_utxo_validate_tx : List LetRec := [
]
theorem utxo_validate_tx_pinned : utxo_validate_tx.parseError = none ∧ utxo_validate_tx.steps = pin_utxo_validate_tx ∧ utxo_validate_tx.lets = pin_lets_utxo_validate_tx := ⟨rfl, rfl, rfl⟩

/-- reviewed shape of `UTXOView::validate_input (chain/src/txhashset/utxo_view.rs)` -/
def pin_utxo_validate_input : List Step := [
  ⟨.check, "get_output_pos_height", "$1.get_output_pos_height(&$0)", "", []⟩,
  ⟨.okEarly, "", "($4, $3)", "", ["$2 ~ Some(_)", "self.output_pmmr.get_data(($3.pos - 1)) ~ Some(_)", "($4.commitment() == $0)"]⟩,
  ⟨.fail, "Other", "Error::Other(\"…\".into())", "", ["$2 ~ Some(_)", "self.output_pmmr.get_data(($3.pos - 1)) ~ Some(_)", "!(($4.commitment() == $0))"]⟩,
  ⟨.fail, "AlreadySpent", "Error::AlreadySpent($0)", "", []⟩
]
/-- reviewed `let`s / assignments that feed a guard of `UTXOView::validate_input (chain/src/txhashset/utxo_view.rs)` -/
def pin_lets_utxo_validate_input : List LetRec := [
  ⟨["$2"], "get_output_pos_height", "$1.get_output_pos_height(&$0)?", []⟩
]
theorem utxo_validate_input_pinned : utxo_validate_input.parseError = none ∧ utxo_validate_input.steps = pin_utxo_validate_input ∧ utxo_validate_input.lets = pin_lets_utxo_validate_input := ⟨rfl, rfl, rfl⟩

/-- reviewed shape of `UTXOView::validate_inputs (chain/src/txhashset/utxo_view.rs)` -/
def pin_utxo_validate_inputs : List Step := [
  ⟨.okFinal, "", "($4, $5)", "", ["$0 ~ Inputs::CommitOnly(_)", "closure", "closure"]⟩,
  ⟨.tail, "validate_input", "self.validate_input($3.commitment(), $1).and_then(|..|{..})", "", ["$0 ~ Inputs::CommitOnly(_)", "closure"]⟩,
  ⟨.tail, "outputs_spent", "$6", "", ["$0 ~ Inputs::CommitOnly(_)"]⟩,
  ⟨.okFinal, "", "($9, $10)", "", ["$0 ~ Inputs::FeaturesAndCommit(_)", "closure", "closure", "($9 == $8.into())"]⟩,
  ⟨.fail, "Other", "Error::Other(\"…\".into())", "", ["$0 ~ Inputs::FeaturesAndCommit(_)", "closure", "closure", "!(($9 == $8.into()))"]⟩,
  ⟨.tail, "validate_input", "self.validate_input($8.commitment(), $1).and_then(|..|{..})", "", ["$0 ~ Inputs::FeaturesAndCommit(_)", "closure"]⟩,
  ⟨.tail, "outputs_spent", "$11", "", ["$0 ~ Inputs::FeaturesAndCommit(_)"]⟩
]
/-- reviewed `let`s / assignments that feed a guard of `UTXOView::validate_inputs (chain/src/txhashset/utxo_view.rs)` -/
def pin_lets_utxo_validate_inputs : List LetRec := [
]
theorem utxo_validate_inputs_pinned : utxo_validate_inputs.parseError = none ∧ utxo_validate_inputs.steps = pin_utxo_validate_inputs ∧ utxo_validate_inputs.lets = pin_lets_utxo_validate_inputs := ⟨rfl, rfl, rfl⟩

/-- reviewed shape of `UTXOView::validate_output (chain/src/txhashset/utxo_view.rs)` -/
def pin_utxo_validate_output : List Step := [
  ⟨.fail, "DuplicateCommitment", "Error::DuplicateCommitment($0.commitment())", "", ["$1.get_output_pos(&$0.commitment()) ~ Ok(_)", "self.output_pmmr.get_data($2) ~ Some(_)", "($3.commitment() == $0.commitment())"]⟩,
  ⟨.okFinal, "", "()", "", []⟩
]
/-- reviewed `let`s / assignments that feed a guard of `UTXOView::validate_output (chain/src/txhashset/utxo_view.rs)` -/
def pin_lets_utxo_validate_output : List LetRec := [
]
theorem utxo_validate_output_pinned : utxo_validate_output.parseError = none ∧ utxo_validate_output.steps = pin_utxo_validate_output ∧ utxo_validate_output.lets = pin_lets_utxo_validate_output := ⟨rfl, rfl, rfl⟩

/-- reviewed shape of `UTXOView::verify_coinbase_maturity (chain/src/txhashset/utxo_view.rs)` -/
def pin_utxo_verify_coinbase_maturity : List Step := [
  ⟨.tail, "validate_input", "self.validate_input($4.commitment(), $2)", "", ["closure"]⟩,
  ⟨.check, "spent", "$5", "", []⟩,
  ⟨.tail, "pos", "Some($7.pos)", "", ["closure", "$6.features.is_coinbase()"]⟩,
  ⟨.tail, "None", "None", "", ["closure", "!($6.features.is_coinbase())"]⟩,
  ⟨.fail, "ImmatureCoinbase", "Error::ImmatureCoinbase", "", ["$8 ~ Some(_)", "($1 < global::coinbase_maturity())"]⟩,
  ⟨.check, "get_header_by_height", "self.get_header_by_height($10, $2)", "", ["$8 ~ Some(_)"]⟩,
  ⟨.fail, "ImmatureCoinbase", "Error::ImmatureCoinbase", "", ["$8 ~ Some(_)", "($9 > $12)"]⟩,
  ⟨.okFinal, "", "()", "", []⟩
]
/-- reviewed `let`s / assignments that feed a guard of `UTXOView::verify_coinbase_maturity (chain/src/txhashset/utxo_view.rs)` -/
def pin_lets_utxo_verify_coinbase_maturity : List LetRec := [
  ⟨["$3"], "inputs", "$0.into()", []⟩,
  ⟨["$5"], "inputs", "$3.iter().map(|..|{..}).collect()", []⟩,
  ⟨["$8"], "max", "$5?.iter().filter_map(|..|{..}).max()", []⟩,
  ⟨["$10"], "saturating_sub", "$1.saturating_sub(global::coinbase_maturity())", ["$8 ~ Some(_)"]⟩,
  ⟨["$11"], "get_header_by_height", "self.get_header_by_height($10, $2)?", ["$8 ~ Some(_)"]⟩,
  ⟨["$12"], "output_mmr_size", "$11.output_mmr_size", ["$8 ~ Some(_)"]⟩
]
theorem utxo_verify_coinbase_maturity_pinned : utxo_verify_coinbase_maturity.parseError = none ∧ utxo_verify_coinbase_maturity.steps = pin_utxo_verify_coinbase_maturity ∧ utxo_verify_coinbase_maturity.lets = pin_lets_utxo_verify_coinbase_maturity := ⟨rfl, rfl, rfl⟩

/-- reviewed shape of `Extension::apply_block (chain/src/txhashset/txhashset.rs)` -/
def pin_ext_apply_block : List Step := [
  ⟨.check, "apply_output", "self.apply_output($4, $2)", "", ["for $0.outputs()"]⟩,
  ⟨.call, "push", "$3.push($5)", "", ["for $0.outputs()"]⟩,
  ⟨.check, "save_output_pos_height", "$2.save_output_pos_height(&$4.commitment(), CommitPos{pos: $5, height: $0.header.height})", "", ["for $0.outputs()"]⟩,
  ⟨.check, "validate_inputs", "self.utxo_view($1).validate_inputs(&$0.inputs(), $2)", "", []⟩,
  ⟨.check, "apply_input", "self.apply_input($7.commitment(), *$8)", "", ["for &$6"]⟩,
  ⟨.call, "push", "$3.push($8.pos)", "", ["for &$6"]⟩,
  ⟨.check, "delete_output_pos_height", "$2.delete_output_pos_height(&$7.commitment())", "", ["for &$6"]⟩,
  ⟨.tail, "pos", "$9", "", ["closure"]⟩,
  ⟨.check, "save_spent_index", "$2.save_spent_index(&$0.hash(), &$10)", "", []⟩,
  ⟨.check, "apply_kernels", "self.apply_kernels($0.kernels(), $0.header.height, $2)", "", []⟩,
  ⟨.check, "apply_to_bitmap_accumulator", "self.apply_to_bitmap_accumulator(&$3)", "", []⟩,
  ⟨.okFinal, "", "()", "", []⟩
]
/-- reviewed `let`s / assignments that feed a guard of `Extension::apply_block (chain/src/txhashset/txhashset.rs)` -/
def pin_lets_ext_apply_block : List LetRec := [
  ⟨["$6"], "validate_inputs", "self.utxo_view($1).validate_inputs(&$0.inputs(), $2)?", []⟩
]
theorem ext_apply_block_pinned : ext_apply_block.parseError = none ∧ ext_apply_block.steps = pin_ext_apply_block ∧ ext_apply_block.lets = pin_lets_ext_apply_block := ⟨rfl, rfl, rfl⟩

/-- reviewed shape of `Extension::apply_input (chain/src/txhashset/txhashset.rs)` -/
def pin_ext_apply_input : List Step := [
  ⟨.check, "prune", "self.rproof_pmmr.prune(($1.pos - 1)).map_err(Error::TxHashSetErr)", "TxHashSetErr", ["self.output_pmmr.prune(($1.pos - 1)) ~ Ok(_)"]⟩,
  ⟨.okFinal, "", "()", "", ["self.output_pmmr.prune(($1.pos - 1)) ~ Ok(_)"]⟩,
  ⟨.fail, "AlreadySpent", "Error::AlreadySpent($0)", "", ["self.output_pmmr.prune(($1.pos - 1)) ~ Ok(_)"]⟩,
  ⟨.fail, "TxHashSetErr", "Error::TxHashSetErr($4)", "", ["self.output_pmmr.prune(($1.pos - 1)) ~ Err(_)"]⟩
]
/-- reviewed `let`s / assignments that feed a guard of `Extension::apply_input (chain/src/txhashset/txhashset.rs)` -/
def pin_lets_ext_apply_input : List LetRec := [
]
theorem ext_apply_input_pinned : ext_apply_input.parseError = none ∧ ext_apply_input.steps = pin_ext_apply_input ∧ ext_apply_input.lets = pin_lets_ext_apply_input := ⟨rfl, rfl, rfl⟩

/-- reviewed shape of `Extension::apply_output (chain/src/txhashset/txhashset.rs)` -/
def pin_ext_apply_output : List Step := [
  ⟨.fail, "DuplicateCommitment", "Error::DuplicateCommitment($2)", "", ["$1.get_output_pos(&$2) ~ Ok(_)", "self.output_pmmr.get_data($3) ~ Some(_)", "($4.commitment() == $2)"]⟩,
  ⟨.check, "push", "self.output_pmmr.push(&$0.identifier()).map_err(&Error::TxHashSetErr)", "TxHashSetErr", []⟩,
  ⟨.check, "push", "self.rproof_pmmr.push(&$0.proof()).map_err(&Error::TxHashSetErr)", "TxHashSetErr", []⟩,
  ⟨.fail, "Other", "Error::Other(\"…\".to_string())", "", ["(self.output_pmmr.unpruned_size() != self.rproof_pmmr.unpruned_size())"]⟩,
  ⟨.fail, "Other", "Error::Other(\"…\".to_string())", "", ["($5 != $6)"]⟩,
  ⟨.okFinal, "", "(1 + $5)", "", []⟩
]
/-- reviewed `let`s / assignments that feed a guard of `Extension::apply_output (chain/src/txhashset/txhashset.rs)` -/
def pin_lets_ext_apply_output : List LetRec := [
  ⟨["$2"], "commitment", "$0.commitment()", []⟩,
  ⟨["$5"], "push", "self.output_pmmr.push(&$0.identifier()).map_err(&Error::TxHashSetErr)?", []⟩,
  ⟨["$6"], "push", "self.rproof_pmmr.push(&$0.proof()).map_err(&Error::TxHashSetErr)?", []⟩
]
theorem ext_apply_output_pinned : ext_apply_output.parseError = none ∧ ext_apply_output.steps = pin_ext_apply_output ∧ ext_apply_output.lets = pin_lets_ext_apply_output := ⟨rfl, rfl, rfl⟩

/-- reviewed shape of `Extension::apply_kernel (chain/src/txhashset/txhashset.rs)` -/
def pin_ext_apply_kernel : List Step := [
  ⟨.check, "push", "self.kernel_pmmr.push($0).map_err(&Error::TxHashSetErr)", "TxHashSetErr", []⟩,
  ⟨.okFinal, "", "(1 + $1)", "", []⟩
]
/-- reviewed `let`s / assignments that feed a guard of `Extension::apply_kernel (chain/src/txhashset/txhashset.rs)` -/
def pin_lets_ext_apply_kernel : List LetRec := [
]
theorem ext_apply_kernel_pinned : ext_apply_kernel.parseError = none ∧ ext_apply_kernel.steps = pin_ext_apply_kernel ∧ ext_apply_kernel.lets = pin_lets_ext_apply_kernel := ⟨rfl, rfl, rfl⟩

/-- reviewed shape of `Extension::rewind (chain/src/txhashset/txhashset.rs)` -/
def pin_ext_rewind : List Step := [
  ⟨.check, "get_block_header", "$1.get_block_header(&self.head.hash())", "", []⟩,
  ⟨.check, "rewind_mmrs_to_pos", "self.rewind_mmrs_to_pos($0.output_mmr_size, $0.kernel_mmr_size, &[])", "", ["($2.height <= $0.height)"]⟩,
  ⟨.check, "apply_to_bitmap_accumulator", "self.apply_to_bitmap_accumulator(&[$0.output_mmr_size])", "", ["($2.height <= $0.height)"]⟩,
  ⟨.check, "get_block", "$1.get_block(&$4.hash())", "", ["!(($2.height <= $0.height))", "while ($0.height < $4.height)"]⟩,
  ⟨.check, "rewind_single_block", "self.rewind_single_block(&$5, $1)", "", ["!(($2.height <= $0.height))", "while ($0.height < $4.height)"]⟩,
  ⟨.call, "append", "$3.append(&$6)", "", ["!(($2.height <= $0.height))", "while ($0.height < $4.height)"]⟩,
  ⟨.check, "get_previous_header", "$1.get_previous_header(&$4)", "", ["!(($2.height <= $0.height))", "while ($0.height < $4.height)"]⟩,
  ⟨.check, "apply_to_bitmap_accumulator", "self.apply_to_bitmap_accumulator(&$3)", "", ["!(($2.height <= $0.height))"]⟩,
  ⟨.okFinal, "", "()", "", []⟩
]
/-- reviewed `let`s / assignments that feed a guard of `Extension::rewind (chain/src/txhashset/txhashset.rs)` -/
def pin_lets_ext_rewind : List LetRec := [
  ⟨["$2"], "get_block_header", "$1.get_block_header(&self.head.hash())?", []⟩,
  ⟨["$4"], "head_header", "$2", ["!(($2.height <= $0.height))"]⟩,
  ⟨["$4"], "get_previous_header", "= $1.get_previous_header(&$4)?", ["!(($2.height <= $0.height))", "while ($0.height < $4.height)"]⟩
]
theorem ext_rewind_pinned : ext_rewind.parseError = none ∧ ext_rewind.steps = pin_ext_rewind ∧ ext_rewind.lets = pin_lets_ext_rewind := ⟨rfl, rfl, rfl⟩

/-- reviewed shape of `Extension::rewind_single_block (chain/src/txhashset/txhashset.rs)` -/
def pin_ext_rewind_single_block : List Step := [
  ⟨.check, "get_previous_header", "$1.get_previous_header(&$2)", "", []⟩,
  ⟨.tail, "pos", "$6.pos", "", ["$4 ~ Ok(_)", "closure"]⟩,
  ⟨.check, "get_block_input_bitmap", "$1.get_block_input_bitmap(&$2.hash())", "", ["$4 ~ _"]⟩,
  ⟨.tail, "x", "$8.into()", "", ["$4 ~ _", "closure"]⟩,
  ⟨.check, "rewind_mmrs_to_pos", "self.rewind_mmrs_to_pos(0, 0, &$9)", "", ["($2.height == 0)"]⟩,
  ⟨.check, "get_previous_header", "$1.get_previous_header($2)", "", ["!(($2.height == 0))"]⟩,
  ⟨.check, "rewind_mmrs_to_pos", "self.rewind_mmrs_to_pos($10.output_mmr_size, $10.kernel_mmr_size, &$9)", "", ["!(($2.height == 0))"]⟩,
  ⟨.call, "push", "$11.push(self.output_pmmr.size)", "", []⟩,
  ⟨.check, "rewind", "$14.rewind($1, $15.excess(), $3.kernel_mmr_size)", "", ["global::is_nrd_enabled()", "for $0.kernels()", "$15.features ~ KernelFeatures::NoRecentDuplicate{, ..}"]⟩,
  ⟨.check, "save_output_pos_height", "$1.save_output_pos_height(&$18.commitment(), $17)", "", ["$4 ~ Ok(_)", "for $16", "self.output_pmmr.get_data(($17.pos - 1)) ~ Some(_)"]⟩,
  ⟨.okFinal, "", "$11", "", []⟩
]
/-- reviewed `let`s / assignments that feed a guard of `Extension::rewind_single_block (chain/src/txhashset/txhashset.rs)` -/
def pin_lets_ext_rewind_single_block : List LetRec := [
  ⟨["$2"], "header", "&$0.header", []⟩,
  ⟨["$4"], "get_spent_index", "$1.get_spent_index(&$2.hash())", []⟩
]
theorem ext_rewind_single_block_pinned : ext_rewind_single_block.parseError = none ∧ ext_rewind_single_block.steps = pin_ext_rewind_single_block ∧ ext_rewind_single_block.lets = pin_lets_ext_rewind_single_block := ⟨rfl, rfl, rfl⟩

/-- reviewed shape of `Extension::validate_roots (chain/src/txhashset/txhashset.rs)` -/
def pin_ext_validate_roots : List Step := [
  ⟨.okEarly, "", "()", "", ["($0.height == 0)"]⟩,
  ⟨.check, "roots", "self.roots()", "", []⟩,
  ⟨.tail, "validate", "self.roots()?.validate($0)", "", []⟩
]
/-- reviewed `let`s / assignments that feed a guard of `Extension::validate_roots (chain/src/txhashset/txhashset.rs)` -/
def pin_lets_ext_validate_roots : List LetRec := [
]
theorem ext_validate_roots_pinned : ext_validate_roots.parseError = none ∧ ext_validate_roots.steps = pin_ext_validate_roots ∧ ext_validate_roots.lets = pin_lets_ext_validate_roots := ⟨rfl, rfl, rfl⟩

/-- reviewed shape of `Extension::validate_sizes (chain/src/txhashset/txhashset.rs)` -/
def pin_ext_validate_sizes : List Step := [
  ⟨.okEarly, "", "()", "", ["($0.height == 0)"]⟩,
  ⟨.fail, "InvalidMMRSize", "Error::InvalidMMRSize", "", ["(($0.output_mmr_size, $0.output_mmr_size, $0.kernel_mmr_size) != self.sizes())"]⟩,
  ⟨.okFinal, "", "()", "", ["!((($0.output_mmr_size, $0.output_mmr_size, $0.kernel_mmr_size) != self.sizes()))"]⟩
]
/-- reviewed `let`s / assignments that feed a guard of `Extension::validate_sizes (chain/src/txhashset/txhashset.rs)` -/
def pin_lets_ext_validate_sizes : List LetRec := [
]
theorem ext_validate_sizes_pinned : ext_validate_sizes.parseError = none ∧ ext_validate_sizes.steps = pin_ext_validate_sizes ∧ ext_validate_sizes.lets = pin_lets_ext_validate_sizes := ⟨rfl, rfl, rfl⟩

/-- reviewed shape of `Extension::validate_mmrs (chain/src/txhashset/txhashset.rs)` -/
def pin_ext_validate_mmrs : List Step := [
  ⟨.fail, "InvalidTxHashSet", "Error::InvalidTxHashSet($1)", "", ["self.output_pmmr.validate() ~ Err(_)"]⟩,
  ⟨.fail, "InvalidTxHashSet", "Error::InvalidTxHashSet($2)", "", ["self.rproof_pmmr.validate() ~ Err(_)"]⟩,
  ⟨.fail, "InvalidTxHashSet", "Error::InvalidTxHashSet($3)", "", ["self.kernel_pmmr.validate() ~ Err(_)"]⟩,
  ⟨.okFinal, "", "()", "", []⟩
]
/-- reviewed `let`s / assignments that feed a guard of `Extension::validate_mmrs (chain/src/txhashset/txhashset.rs)` -/
def pin_lets_ext_validate_mmrs : List LetRec := [
]
theorem ext_validate_mmrs_pinned : ext_validate_mmrs.parseError = none ∧ ext_validate_mmrs.steps = pin_ext_validate_mmrs ∧ ext_validate_mmrs.lets = pin_lets_ext_validate_mmrs := ⟨rfl, rfl, rfl⟩

/-- reviewed shape of `Extension::validate (chain/src/txhashset/txhashset.rs)` -/
def pin_ext_validate : List Step := [
  ⟨.check, "validate_mmrs", "self.validate_mmrs()", "", []⟩,
  ⟨.check, "validate_roots", "self.validate_roots($5)", "", []⟩,
  ⟨.check, "validate_sizes", "self.validate_sizes($5)", "", []⟩,
  ⟨.okEarly, "", "($7, $7)", "", ["(self.head.height == 0)"]⟩,
  ⟨.check, "validate_kernel_sums", "self.validate_kernel_sums($0, $5)", "", []⟩,
  ⟨.check, "verify_rangeproofs", "self.verify_rangeproofs(Some($2), $3, None, false, $6.clone())", "", ["!($1)"]⟩,
  ⟨.fail, "Stopped", "Error::Stopped.into()", "", ["!($1)", "$6 ~ Some(_)", "$10.is_stopped()"]⟩,
  ⟨.check, "verify_kernel_signatures", "self.verify_kernel_signatures($2, $6.clone())", "", ["!($1)"]⟩,
  ⟨.fail, "Stopped", "Error::Stopped.into()", "", ["!($1)", "$6 ~ Some(_)", "$11.is_stopped()"]⟩,
  ⟨.okFinal, "", "($8, $9)", "", []⟩
]
/-- reviewed `let`s / assignments that feed a guard of `Extension::validate (chain/src/txhashset/txhashset.rs)` -/
def pin_lets_ext_validate : List LetRec := [
]
theorem ext_validate_pinned : ext_validate.parseError = none ∧ ext_validate.steps = pin_ext_validate ∧ ext_validate.lets = pin_lets_ext_validate := ⟨rfl, rfl, rfl⟩

/-- reviewed shape of `Extension::validate_kernel_sums (chain/src/txhashset/txhashset.rs)` -/
def pin_ext_validate_kernel_sums : List Step := [
  ⟨.check, "verify_kernel_sums", "self.verify_kernel_sums($1.total_overage(($0.kernel_mmr_size > 0)), $1.total_kernel_offset())", "", []⟩,
  ⟨.okFinal, "", "($3, $4)", "", []⟩
]
/-- reviewed `let`s / assignments that feed a guard of `Extension::validate_kernel_sums (chain/src/txhashset/txhashset.rs)` -/
def pin_lets_ext_validate_kernel_sums : List LetRec := [
]
theorem ext_validate_kernel_sums_pinned : ext_validate_kernel_sums.parseError = none ∧ ext_validate_kernel_sums.steps = pin_ext_validate_kernel_sums ∧ ext_validate_kernel_sums.lets = pin_lets_ext_validate_kernel_sums := ⟨rfl, rfl, rfl⟩

/-- reviewed shape of `HeaderExtension::apply_header (chain/src/txhashset/txhashset.rs)` -/
def pin_hext_apply_header : List Step := [
  ⟨.check, "push", "self.pmmr.push($0).map_err(&Error::TxHashSetErr)", "TxHashSetErr", []⟩,
  ⟨.okFinal, "", "()", "", []⟩
]
/-- reviewed `let`s / assignments that feed a guard of `HeaderExtension::apply_header (chain/src/txhashset/txhashset.rs)` -/
def pin_lets_hext_apply_header : List LetRec := [
]
theorem hext_apply_header_pinned : hext_apply_header.parseError = none ∧ hext_apply_header.steps = pin_hext_apply_header ∧ hext_apply_header.lets = pin_lets_hext_apply_header := ⟨rfl, rfl, rfl⟩

/-- reviewed shape of `HeaderExtension::rewind (chain/src/txhashset/txhashset.rs)` -/
def pin_hext_rewind : List Step := [
  ⟨.check, "rewind", "self.pmmr.rewind($1, &Bitmap::new()).map_err(&Error::TxHashSetErr)", "TxHashSetErr", []⟩,
  ⟨.okFinal, "", "()", "", []⟩
]
/-- reviewed `let`s / assignments that feed a guard of `HeaderExtension::rewind (chain/src/txhashset/txhashset.rs)` -/
def pin_lets_hext_rewind : List LetRec := [
]
theorem hext_rewind_pinned : hext_rewind.parseError = none ∧ hext_rewind.steps = pin_hext_rewind ∧ hext_rewind.lets = pin_lets_hext_rewind := ⟨rfl, rfl, rfl⟩

/-- reviewed shape of `HeaderExtension::validate_root (chain/src/txhashset/txhashset.rs)` -/
def pin_hext_validate_root : List Step := [
  ⟨.okEarly, "", "()", "", ["($0.height == 0)"]⟩,
  ⟨.check, "root", "self.root()", "", []⟩,
  ⟨.fail, "InvalidRoot", "Error::InvalidRoot", "", ["(self.root()? != $0.prev_root)"]⟩,
  ⟨.okFinal, "", "()", "", ["!((self.root()? != $0.prev_root))"]⟩
]
/-- reviewed `let`s / assignments that feed a guard of `HeaderExtension::validate_root (chain/src/txhashset/txhashset.rs)` -/
def pin_lets_hext_validate_root : List LetRec := [
]
theorem hext_validate_root_pinned : hext_validate_root.parseError = none ∧ hext_validate_root.steps = pin_hext_validate_root ∧ hext_validate_root.lets = pin_lets_hext_validate_root := ⟨rfl, rfl, rfl⟩

end GV.Props.XlateShapeChainPins
