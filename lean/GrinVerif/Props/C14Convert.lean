import GrinVerif.Model.PoolConvert
import GrinVerif.Props.C14Shape
/-! C14 — the helpers of `TransactionPool::add_to_pool` as stage lists, and `convert_tx_v2`.

`is_acceptable`, `deaggregate_tx`, `locate_spends`, `convert_tx_v2` are NOT in the function list of
`Gen/PipeShapePool.lean` (the generator reads `add_to_pool`, `add_to_stempool`, `add_to_txpool`,
`verify_kernel_variants`, `reconcile_block`, `evict_from_txpool` and the `Pool::*` functions): their
bodies have no regenerated spine to compare with.  What IS regenerated is how `add_to_pool` calls them
(`add_to_pool_calls_its_helpers_on_the_pooled_form`): `is_acceptable` on the DE-AGGREGATED transaction
and the stem flag, `convert_tx_v2` on the entry and the two lists `locate_spends` returned.  The hand
models of the helpers are shown to be stage lists (`isAcceptable_stages`, `locateSpends_stages`,
`deaggregateTx_cases`), so a change of their order in the model breaks a theorem here.

`convert_tx_v2`: `convert_after_validate` (it cannot fail for a transaction that passed the standalone
validation just before), `stored_features_are_looked_up` / `stored_inputs_pass_the_v2_lookup` (the stored
vector carries the features of the UTXO set and would pass the `FeaturesAndCommit` branch of
`validate_inputs`), `claimed_features_are_not_read` (whatever the submitter claimed),
`lying_feature_refused_if_it_reached_the_chain` (the branch that would refuse it is never reached by the
pool: `locate_spends` looks up commitments only). -/
namespace GV.Props.C14Convert
open GV GV.Pool GV.Gen.PipeShape GV.Props.XlateShape GV.Props.C14Shape

/-! ## `is_acceptable` -/

def accStages : List (String × (Ctx × TxPool × Tx × Bool → Option Err)) := [
  ("LowFeeTransaction", fun i => if i.2.2.1.shiftedFee < i.2.2.1.acceptFee i.1.cfg then some "LowFee" else none),
  ("OverCapacity", fun i => if i.2.1.txpool.length > i.1.cfg.maxPool then some "OverCapacity" else none),
  ("OverCapacity", fun i =>
    if (i.2.2.2 && decide (i.2.1.stempool.length > i.1.cfg.maxStem)) || decide (i.2.1.txpool.length > i.1.cfg.maxPool)
    then some "OverCapacity" else none) ]

theorem isAcceptable_stages (c : Ctx) (s : TxPool) (t : Tx) (stem : Bool) :
    s.isAcceptable c t stem = firstFail (c, s, t, stem) accStages := by
  unfold TxPool.isAcceptable
  simp only [accStages, firstFail]
  by_cases h1 : t.shiftedFee < t.acceptFee c.cfg
  · simp [h1]
  · simp only [h1, if_false]
    by_cases h2 : s.txpool.length > c.cfg.maxPool
    · simp [h2]
    · simp only [h2, if_false]
      split <;> rfl

/-- the fee is looked at first (repair 3aef11dd9): a low-fee transaction never sees `OverCapacity` -/
theorem low_fee_before_capacity (c : Ctx) (s : TxPool) (t : Tx) (stem : Bool)
    (h : t.shiftedFee < t.acceptFee c.cfg) : s.isAcceptable c t stem = some "LowFee" := by
  simp [TxPool.isAcceptable, h]

/-! ## `deaggregate_tx` -/

theorem deaggregateTx_cases (s : TxPool) (e : Entry) :
    s.deaggregateTx e =
      if e.tx.kers.length ≤ 1 ∨ (s.txpool.findMatching e.tx.kers).isEmpty then .ok e
      else match deaggregate e.tx (s.txpool.findMatching e.tx.kers) with
        | .error er => .error er
        | .ok t => .ok { tx := t, src := .deaggregate } := by
  unfold TxPool.deaggregateTx
  by_cases h1 : e.tx.kers.length > 1
  · have : ¬ e.tx.kers.length ≤ 1 := by omega
    simp only [h1, if_true, this, false_or]
    by_cases h2 : (s.txpool.findMatching e.tx.kers).isEmpty = true
    · simp [h2]
    · simp only [h2, Bool.false_eq_true, if_false]
      cases deaggregate e.tx (s.txpool.findMatching e.tx.kers) <;> rfl
  · have : e.tx.kers.length ≤ 1 := by omega
    simp [h1, this]

/-! ## `locate_spends` -/

structure LIn where
  c : Ctx
  p : Pool
  t : Tx
  extra : Option Tx

def poolOuts (i : LIn) : List Nat :=
  match i.p.allAggregate i.c i.extra with
  | .ok (some a) => a.outs
  | _ => []

def locStages : List (String × (LIn → Option Err)) := [
  ("all_transactions_aggregate", fun i => match i.p.allAggregate i.c i.extra with | .error e => some e | .ok _ => none),
  ("cut_through", fun i => match cutThrough i.t.ins (poolOuts i) with | .error e => some e | .ok _ => none),
  ("validate_inputs", fun i =>
    match cutThrough i.t.ins (poolOuts i) with
    | .ok (spentUtxo, _) => validateInputsV3 i.c spentUtxo
    | .error _ => none) ]

/-- **`locate_spends` is its stage list**; when all pass: (inputs found among the pool's outputs, the rest) -/
theorem locateSpends_stages (c : Ctx) (p : Pool) (t : Tx) (extra : Option Tx) :
    p.locateSpends c t extra =
      match firstFail (⟨c, p, t, extra⟩ : LIn) locStages with
      | some e => .error e
      | none =>
        match cutThrough t.ins (poolOuts ⟨c, p, t, extra⟩) with
        | .ok (spentUtxo, _) => .ok (t.ins.filter (fun i => (poolOuts ⟨c, p, t, extra⟩).contains i), spentUtxo)
        | .error e => .error e := by
  unfold Pool.locateSpends
  simp only [locStages, firstFail, poolOuts, validateInputsV3]
  cases hagg : p.allAggregate c extra with
  | error e => rfl
  | ok agg =>
    simp only []
    cases agg with
    | none =>
      simp only []
      cases hct : cutThrough t.ins [] with
      | error e => rfl
      | ok r =>
        obtain ⟨su, x⟩ := r
        simp only []
        by_cases hh : su.all c.head.has = true
        · simp [hh]
        · simp [hh]
    | some a =>
      simp only []
      cases hct : cutThrough t.ins a.outs with
      | error e => rfl
      | ok r =>
        obtain ⟨su, x⟩ := r
        simp only []
        by_cases hh : su.all c.head.has = true
        · simp [hh]
        · simp [hh]

/-! ## `convert_tx_v2` -/

theorem keptTags_of_valid {c : Ctx} {w : Weighting} {t : Tx} (h : t.validate c w = none) : keptTags t.tags = t.tags := by
  have hu : t.tags.contains "unsorted" = false := by
    unfold Tx.validate at h
    split at h; · simp at h
    split at h; · simp at h
    split at h; · simp at h
    split at h; · simp at h
    split at h
    · simp at h
    · rename_i hn; simpa using hn
  unfold keptTags
  apply List.filter_eq_self.mpr
  intro x hx
  simp only [bne_iff_ne, ne_eq]
  intro hxe
  subst hxe
  simp at hu
  exact hu hx

/-- a transaction that passed `tx.validate(AsTransaction)` (the check `add_to_pool` makes before) is
converted without error: the conversion's own validation adds nothing -/
theorem convert_after_validate {c : Ctx} {t : Tx} (sp su : List Nat) (h : t.validate c .asTransaction = none) :
    convertTxV2 c t sp su =
      .ok (.featuresAndCommit (su.map (fun i => (featureOf c i, i)) ++ sp.map (fun i => (false, i))), t) := by
  unfold convertTxV2
  have hk := keptTags_of_valid h
  have : ({ t with tags := keptTags t.tags } : Tx) = t := by rw [hk]
  simp only [this, h]

/-- the stored features of the inputs spent from the chain are the looked-up ones … -/
theorem stored_features_are_looked_up {c : Ctx} {t t' : Tx} {sp su : List Nat} {is : List (Bool × Nat)}
    (h : convertTxV2 c t sp su = .ok (.featuresAndCommit is, t')) :
    is = su.map (fun i => (featureOf c i, i)) ++ sp.map (fun i => (false, i)) := by
  unfold convertTxV2 at h
  simp only [] at h
  cases hv : Tx.validate c Weighting.asTransaction { t with tags := keptTags t.tags } with
  | some e => rw [hv] at h; simp at h
  | none =>
    rw [hv] at h
    simp only [Except.ok.injEq, Prod.mk.injEq, Inputs.featuresAndCommit.injEq] at h
    exact h.1.symm

/-- … so the part spent from the chain passes the `FeaturesAndCommit` branch of `validate_inputs`
(`"input mismatch"` cannot occur for a stored entry while its inputs are unspent) -/
theorem stored_inputs_pass_the_v2_lookup (c : Ctx) (su : List Nat) (h : su.all c.head.has = true) :
    validateInputsV2 c (su.map (fun i => (featureOf c i, i))) = none := by
  unfold validateInputsV2
  have : (su.map (fun i => (featureOf c i, i))).all (fun x => c.head.has x.2 && x.1 == featureOf c x.2) = true := by
    rw [List.all_eq_true] at h ⊢
    intro x hx
    obtain ⟨i, hi, rfl⟩ := List.mem_map.mp hx
    simp [h i hi]
  simp [this]

/-- the claimed features are not read: two submitted forms of one transaction that differ only in
what they claim are converted alike (and admitted alike: `form_independent_admission` of Props/C14) -/
theorem claimed_features_are_not_read (c : Ctx) (outs : List Nat) (kers : List PKer) (tags : List String)
    (is₁ is₂ : List (Bool × Nat)) (h : is₁.map (·.2) = is₂.map (·.2)) (sp su : List Nat) :
    convertTxV2 c (SubTx.tx { inputs := .featuresAndCommit is₁, outs, kers, tags }) sp su =
    convertTxV2 c (SubTx.tx { inputs := .featuresAndCommit is₂, outs, kers, tags }) sp su := by
  simp [SubTx.tx, Inputs.commits, h]

/-- had the submitted vector reached the chain's `FeaturesAndCommit` lookup, a lying feature byte would be
refused there (the output 7 is a coinbase at the head, the input claims plain) -/
theorem lying_feature_refused_if_it_reached_the_chain :
    let c : Ctx := { head := { utxo := [(7, 2, true)], nrd := [], height := 9 } }
    validateInputsV2 c [(false, 7)] = some "Other" ∧ validateInputsV2 c [(true, 7)] = none ∧
    validateInputsV3 c [7] = none := by decide

/-! ## what the regenerated shape says about the calls -/

/-- `is_acceptable` is called on `$5` = the tx of `$4` = the entry AFTER `deaggregate_tx`, with the stem flag;
`convert_tx_v2` on that entry and the two lists the `locate_spends` branch returned (`$9`, `$10`) -/
theorem add_to_pool_calls_its_helpers_on_the_pooled_form :
    (tpool_add_to_pool.lets.filter (fun l => l.name == "tx" || l.name == "is_acceptable" || l.name == "convert_tx_v2")).map
      (fun l => (l.vars, l.init)) =
      [(["$5"], "$4.tx"), (["$6"], "self.is_acceptable($5, $2)"), (["$13"], "self.convert_tx_v2($4, &$9, &$10)?")] ∧
    (tpool_add_to_pool.steps.filter (·.name == "deaggregate_tx")).map (·.what) = ["self.deaggregate_tx(PoolEntry::new($1, $0))"] := by
  decide

end GV.Props.C14Convert
