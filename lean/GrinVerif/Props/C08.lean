import GrinVerif.Lemmas.StoreProof
import GrinVerif.Lemmas.StoreBlocks
/-! # C08 — pruning, compaction, rewind and reopen never change what the MMR commits to

Property theorems about the model of `store/src/{prune_list,types,leaf_set,pmmr}.rs`
(`Model/PruneList.lean`, `Model/Store.lean`).  Helper lemmas live in `Lemmas/Store*.lean`,
`Lemmas/PruneList*.lean`.  All statements are for every prune list / file / backend / operation
sequence (no size bound).

Vocabulary.  The bitmap of a prune list holds 1-based root positions `x`; the root is `x − 1`.
`sumF f bm = Σ_{x ∈ bm} f (x − 1)`.  `PruneList.Inv` is the roll-up invariant: positions ≥ 1,
strictly ascending, the subtree of every root lies entirely to the right of all earlier roots
(so no root is inside another root's subtree), both caches are the running sums of the per-root
shifts, and no root has a pruned sibling.  `compactedP bm q` = `q` lies strictly inside the
subtree of a root (its hash is gone from the hash file).  `layout bm size` = the positions
`< size` that are not compacted, ascending — the order in which the compacted hash file
stores them; `dataLayout bm size` = the leaf positions among them (the compacted data file).
`Sub r q` = `q` lies in the subtree of `r` (`bintree_leftmost r ≤ q ≤ r`); `PrunedBy bm q` = `q` lies
in the subtree of a root of `bm`; `Full S q` = every leaf below `q` satisfies `S`.
`Synced` / `Live` / `HInv` are the reference invariants of a synced backend, of a backend inside
a unit of work, and of a whole history (Lemmas/StoreSynced, StoreLive, StoreHistory). -/
namespace GV.Props.C08
open GV GV.Pmmr GV.Store

/-! ## Prune list: roll-up invariant -/

/-- The empty prune list satisfies the invariant. -/
theorem inv_empty : PruneList.Inv {} := PruneList.inv_empty

/-- **Roll-up invariant preserved by `append`** – for every position, including the recursive
roll-up of siblings into the parent and `cleanup_subtree`. -/
theorem rollup_inv_append (pl : PruneList) (h : pl.Inv) (pos0 : Nat) : (pl.append pos0).Inv :=
  PruneList.append_inv h pos0

/-- Every prune list produced by `PruneList::new` (hence by `check_compact` and by
`PruneList::open`) satisfies the invariant. -/
theorem inv_of_new (bm : Bitmap) : (PruneList.new bm).Inv := PruneList.new_inv bm

/-! ## Prune list: what the shifts are (DESIGN A.5) -/

/-- **shift_spec.** `get_shift pos0 = Σ_{r pruned root, r ≤ pos0} 2·(2^{h(r)} − 1)`. -/
theorem shift_spec (pl : PruneList) (h : pl.Inv) (pos0 : Nat) :
    pl.getShift pos0 = sumF PruneList.rootShift (pl.bitmap.filter (· ≤ 1 + pos0)) :=
  PruneList.getShift_spec h pos0

/-- **leaf shift_spec.** `get_leaf_shift pos0 = Σ_{r pruned root, r ≤ pos0, h(r) > 0} 2^{h(r)}`. -/
theorem leaf_shift_spec (pl : PruneList) (h : pl.Inv) (pos0 : Nat) :
    pl.getLeafShift pos0 = sumF PruneList.rootLeafShift (pl.bitmap.filter (· ≤ 1 + pos0)) :=
  PruneList.getLeafShift_spec h pos0

/-- The strict interior of the subtree of any position `p` has exactly `2·(2^{h(p)} − 1)`
positions (`bintree_leftmost p .. p − 1`) – the summand of `get_shift`. -/
theorem subtree_interior_width (p : Nat) :
    p - bintreeLeftmost p = PruneList.rootShift p := interior_width p

/-- **The shift counts the compacted positions.** For every position that is not itself
compacted away, `get_shift pos` is the number of positions below `pos` that are. -/
theorem shift_counts_compacted (pl : PruneList) (h : pl.Inv) (pos : Nat)
    (hnc : compactedP pl.bitmap pos = false) :
    pl.getShift pos = (List.range pos).countP (compactedP pl.bitmap) :=
  PruneList.getShift_counts h pos hnc

/-- **Hence `pos − shift` indexes the compacted file**: in the ascending list of surviving
positions, `pos` is the element with index `pos − get_shift pos`. -/
theorem shifted_index (pl : PruneList) (h : pl.Inv) (size pos : Nat) (hpos : pos < size)
    (hnc : compactedP pl.bitmap pos = false) :
    (layout pl.bitmap size)[pos - pl.getShift pos]? = some pos :=
  layout_index h size pos hpos hnc

/-- **Read law of the compacted hash file.** If the (synced) hash file holds the reference hashes
of exactly the surviving positions, `get_peak_from_file` – and `get_from_file` wherever
`is_compacted` is false – returns the reference hash of every surviving position. -/
theorem read_compacted_file {H : Type} (b : Backend H) (ref : Nat → H) (size : Nat)
    (hinv : b.pruneList.Inv) (hclean : b.hashFile.Clean)
    (hlay : b.hashFile.disk = (layout b.pruneList.bitmap size).map ref)
    (pos : Nat) (hpos : pos < size) (hnc : compactedP b.pruneList.bitmap pos = false) :
    b.getPeakFromFile pos = some (ref pos) ∧
    b.getFromFile pos = if b.isCompacted pos then none else some (ref pos) := by
  have h := Backend.getPeakFromFile_of_layout ref size hinv hclean hlay pos hpos hnc
  exact ⟨h, by rw [Backend.getFromFile_eq, h]⟩

/-- **`is_pruned` is exact.** Looking only at the next root to the right (as the code does) decides
membership in *any* pruned subtree: `is_pruned pos` iff `pos` is a pruned root or lies strictly
inside the subtree of some pruned root. -/
theorem is_pruned_spec (pl : PruneList) (h : pl.Inv) (pos : Nat) :
    pl.isPruned pos = (pl.isPrunedRoot pos || compactedP pl.bitmap pos) :=
  PruneList.isPruned_iff h pos

/-- … and pruned roots themselves are never compacted away (their hash stays in the file). -/
theorem pruned_root_kept (pl : PruneList) (h : pl.Inv) (x : Nat) (hx : x ∈ pl.bitmap) :
    compactedP pl.bitmap (x - 1) = false := PruneList.root_not_compacted h x hx

/-- **Read law for `get_from_file`**, with the code's own `is_compacted` test: under the layout
hypothesis, every position outside the leaf set for which `is_compacted` is false (pruned roots
included) reads the reference hash. -/
theorem get_from_file_spec {H : Type} (b : Backend H) (ref : Nat → H) (size : Nat)
    (hinv : b.pruneList.Inv) (hclean : b.hashFile.Clean)
    (hlay : b.hashFile.disk = (layout b.pruneList.bitmap size).map ref)
    (pos : Nat) (hpos : pos < size) (hl : b.leafSet.includes pos = false)
    (hnc : b.isCompacted pos = false) : b.getFromFile pos = some (ref pos) :=
  Backend.getFromFile_of_layout ref size hinv hclean hlay pos hpos hl hnc

/-- **`unpruned_size` is the size of the unpruned reference.** `hash_size + get_total_shift`
gives back `size` whenever the hash file holds exactly the surviving positions `< size` and all
pruned roots are positions of that MMR – so it cannot change under compaction as long as the
layout is maintained. -/
theorem unpruned_size_spec {H : Type} (b : Backend H) (size : Nat) (hinv : b.pruneList.Inv)
    (hlen : b.hashFile.disk.length = (layout b.pruneList.bitmap size).length)
    (hroots : ∀ x ∈ b.pruneList.bitmap, x ≤ size) : b.unprunedSize = size :=
  Backend.unprunedSize_of_layout size hinv hlen hroots

/-- **Reopen is the identity on the prune list**: flushing the bitmap and `PruneList::open`ing
it (re-append every root, rebuild both caches from scratch) yields the same list and caches. -/
theorem prune_list_reopen (pl : PruneList) (h : pl.Inv) : PruneList.openBm pl.bitmap = pl :=
  PruneList.openBm_of_inv h

/-! ## File layer (`AppendOnlyFile`, `LeafSet`) -/

/-- `read` returns an element appended to the buffer at the position `append` assigned to it. -/
theorem file_read_append {E : Type} (f : AOF E) (e : E) :
    (f.append e).read f.sizeUnsyncInElmts = some e := AOF.read_append_new f e

/-- … and `append` does not change what any earlier position reads. -/
theorem file_read_append_old {E : Type} (f : AOF E) (e : E) (pos : Nat)
    (h : pos < f.sizeUnsyncInElmts) : (f.append e).read pos = f.read pos :=
  AOF.read_append_old f e pos h

/-- After `rewind p` and re-appending `es` (nothing flushed yet) every read returns the rewound
and re-extended sequence: old data below `p`, the buffer from `p` on, nothing of the discarded
tail. -/
theorem file_read_after_rewind {E : Type} (f : AOF E) (h : f.Clean) (p : Nat)
    (hp : p ≤ f.disk.length) (es : List E) (i : Nat) :
    ((f.rewind p).extend es).read i = (f.disk.take p ++ es)[i]? :=
  AOF.read_rewind_extend h p hp es i

/-- `rewind` then `flush`: the file on disk is truncated at the rewind point, then extended. -/
theorem file_rewind_flush {E : Type} (f : AOF E) (h : f.Clean) (p : Nat) (es : List E) :
    ((f.rewind p).extend es).flush.disk = f.disk.take p ++ es :=
  AOF.flush_rewind_extend h p es

/-- `discard` after any sequence of appends and rewinds (to positions inside the file) of one
unit of work restores the synced file exactly. -/
theorem file_discard {E : Type} (f : AOF E) (h : f.Clean) (ops : List (AOF.Op E))
    (hw : ∀ op ∈ ops, op.Within f.disk.length) : (ops.foldl AOF.Op.apply f).discard = f :=
  AOF.discard_unit h ops hw

/-- A flushed file re-opened from disk is the same file. -/
theorem file_reopen {E : Type} (f : AOF E) : AOF.ofDisk f.flush.disk = f.flush := AOF.reopen_flush f

/-- `write_tmp_pruned`'s loop removes exactly the listed indices when they are ascending. -/
theorem write_tmp_pruned_spec {E : Type} (es : List E) (pp : List Nat) (hs : Sorted pp) :
    AOF.writeTmpLoop es 0 pp = keepIdx (fun i => !pp.elem i) es 0 :=
  writeTmpLoop_spec es 0 pp hs (fun _ _ => Nat.zero_le _)

/-- `LeafSet::rewind`: a position is in the rewound leaf set iff it was in the set at or below
the cutoff or is one of the re-added (`rewind_rm_pos`) positions. -/
theorem leafset_rewind_mem (ls : LeafSet) (cutoff : Nat) (rm : Bitmap) (hs : Sorted ls.bitmap)
    (x : Nat) : x ∈ (ls.rewind cutoff rm).bitmap ↔ (x ∈ ls.bitmap ∧ x ≤ cutoff) ∨ x ∈ rm :=
  LeafSet.mem_rewind ls cutoff rm hs x

/-! ## Backend: units of work, reopen, compaction -/

/-- **`discard` ∘ (any operations of one unit of work) = identity.** From a synced backend, after
any sequence of `append` / `remove` / `rewind` whose rewinds stay inside the synced files (the
usage protocol), `discard` restores the backend state exactly – hence every observable. -/
theorem unit_discard {H : Type} (b : Backend H) (df : AOF Bytes) (hc : Backend.CleanFixed b df)
    (ops : List (Backend.Op H)) (hw : ∀ op ∈ ops, op.Within b df) :
    (ops.foldl Backend.Op.apply b).discard = b :=
  Backend.discard_unit hc ops hw

/-- **Nothing reaches the disk before `sync`; `discard` writes nothing** (rolled-back bulk
appends).  For ANY sequence of `append` / `remove` / `rewind` – no protocol hypothesis, any batch
size, fixed-size data files and variable-size data files with their size file alike – the durable
state (`Backend.onDisk`: hash file, data file, size file, leaf-set file, prune-list file) after the
sequence, and after the sequence followed by `discard`, is the durable state before.  Together
with `unit_discard` (the in-memory view is restored exactly) this is "a discarded batch leaves the
files and the view as they were". -/
theorem unit_disk_untouched {H : Type} (b : Backend H) (ops : List (Backend.Op H)) :
    (ops.foldl Backend.Op.apply b).onDisk = b.onDisk ∧
    (ops.foldl Backend.Op.apply b).discard.onDisk = b.onDisk :=
  Backend.onDisk_unit b ops

/-- `sync` leaves a synced backend, so the two laws compose over histories of units. -/
theorem sync_clean {H : Type} (b : Backend H) (df : AOF Bytes) (hd : b.dataFile = .fixed df) :
    Backend.CleanFixed b.sync df.flush := Backend.sync_clean hd

/-- **`sync` then drop + reopen is the identity** on the whole backend state (hash file, data
file, leaf set, prune list with both caches) – hence on every observable. -/
theorem sync_reopen {H : Type} (el : Bytes → Option Nat) (b : Backend H) (df : AOF Bytes)
    (hd : b.dataFile = .fixed df) (hinv : b.pruneList.Inv) : b.sync.reopen el = b.sync :=
  Backend.reopen_sync el hd hinv

/-- Compaction then drop + reopen is the identity as well. -/
theorem compact_reopen {H : Type} (el : Bytes → Option Nat) (b : Backend H) (df : AOF Bytes)
    (hc : Backend.CleanFixed b df) (cutoff : Nat) (rm : Bitmap) :
    (b.checkCompact el cutoff rm).reopen el = b.checkCompact el cutoff rm :=
  Backend.reopen_checkCompact el hc cutoff rm

/-- **Compaction only selects spent leaves at or below the cutoff.** Every leaf `check_compact`
decides to remove (`pos_to_rm`'s first component, fed to the new prune list) is a leaf position
`≤ cutoff_pos` that is not in the leaf set (so it is spent), not in `rewind_rm_pos` (so it was
not spent after the cutoff and no permitted rewind can bring it back) and not pruned already. -/
theorem compaction_spares_unspent {H : Type} (b : Backend H) (cutoff : Nat) (rm : Bitmap) (x : Nat)
    (h : x ∈ (b.posToRm cutoff rm).1) :
    1 ≤ x ∧ x ≤ cutoff ∧ b.leafSet.includes (x - 1) = false ∧ x ∉ rm ∧
    isLeaf (x - 1) = true ∧ b.pruneList.isPruned (x - 1) = false := by
  obtain ⟨h1, h2, h3, h4, h5, h6⟩ := LeafSet.mem_removedPreCutoff (show x ∈
    b.leafSet.removedPreCutoff cutoff rm b.pruneList from h)
  refine ⟨h1, h2, ?_, h4, h5, h6⟩
  unfold LeafSet.includes
  have : 1 + (x - 1) = x := by omega
  rw [this]
  cases hc : Bm.contains b.leafSet.bitmap x with
  | false => rfl
  | true => exact absurd (contains_iff.1 hc) h3

/-! ## `check_compact` preserves the reference (DESIGN §4 C08 `compact_preserves`)

`Synced b N ref dref df` (Lemmas/StoreSynced.lean) is the reference invariant of a synced backend
whose reference MMR has `N` leaves (size `mmr N`): roll-up invariant; hash file clean and
`= (layout bitmap (mmr N)).map ref`; data file fixed-size, clean and
`= (dataLayout bitmap (mmr N)).map dref`; leaf set ascending, synced, made of leaf positions of
the MMR none of which is pruned; all pruned roots inside the MMR; `mmr N + 64 < 2^64`; the prune
file holds the bitmap.  The three former gaps are theorems now:
(1) `rollup_set` / `new_prune_list_set` – what `append` / `PruneList::new` prune, as sets;
(2) `pos_to_rm_spec` – `pos_to_rm` = exactly the newly compacted positions;
(3) `leaf_shift_counts_compacted` – the leaf-shift analogue of `shift_counts_compacted`. -/

/-- **(1) set-level correctness of the roll-up.** Appending `p` to a list whose roots are all at
or before `p` (the code's "prune list append only" assertion), with `p + 64 < 2^64`: the leaves
pruned afterwards are exactly the leaves pruned before plus the leaves below `p`; since the
result satisfies the roll-up invariant, a position is pruned afterwards iff all leaves below it
are (`canonical`). -/
theorem rollup_set (pl : PruneList) (h : pl.Inv) (p : Nat) (hall : ∀ x ∈ pl.bitmap, x ≤ 1 + p)
    (hb : p + 64 < 2 ^ 64) (q : Nat) :
    PrunedBy (pl.append p).bitmap q ↔ Full (fun l => PrunedBy pl.bitmap l ∨ Sub p l) q := by
  obtain ⟨_, _, _, _, h4⟩ := PruneList.appendFuel_leaves 64 pl p h hall (by omega) hb
  exact PruneList.prunedBy_of_leaves (PruneList.append_inv h p) _ h4 q

/-- Under the roll-up invariant the list is canonical: pruned iff every leaf below is pruned. -/
theorem canonical (pl : PruneList) (h : pl.Inv) (q : Nat) :
    PrunedBy pl.bitmap q ↔ Full (PrunedBy pl.bitmap) q := PruneList.prunedBy_iff_full h q

/-- **(1′) the prune list written by `check_compact`** prunes a position iff every leaf below it
was pruned before or is one of the leaves removed now. -/
theorem new_prune_list_set {H : Type} (el : Bytes → Option Nat) (b : Backend H) (size cutoff : Nat)
    (hp : Backend.CompactPre b size cutoff) (rm : Bitmap) (q : Nat) :
    PrunedBy (b.checkCompact el cutoff rm).pruneList.bitmap q ↔
      Full (P0 b.pruneList.bitmap (fun y => y ∈ (b.posToRm cutoff rm).1)) q :=
  Backend.newBm_prunedBy hp rm q

/-- **(2) `pos_to_rm` = the newly compacted positions**: a (1-based) position is removed from the
hash file iff it is compacted away under the new prune list and was not under the old one. -/
theorem pos_to_rm_spec {H : Type} (el : Bytes → Option Nat) (b : Backend H) (size cutoff : Nat)
    (hp : Backend.CompactPre b size cutoff) (rm : Bitmap) (y : Nat) :
    y ∈ (b.posToRm cutoff rm).2 ↔
      1 ≤ y ∧ compactedP (b.checkCompact el cutoff rm).pruneList.bitmap (y - 1) = true ∧
        compactedP b.pruneList.bitmap (y - 1) = false :=
  Backend.posToRm_spec hp rm y

/-- **(3) the leaf shift counts the compacted leaves**: for every position `q` that is not itself
compacted away, `get_leaf_shift(q + 1)` is the number of leaf positions below `q` that are;
hence `n_leaves(q+1) − get_leaf_shift(q+1) − 1` is the index of leaf `q` in the data file. -/
theorem leaf_shift_counts_compacted (pl : PruneList) (h : pl.Inv) (q : Nat)
    (hnc : compactedP pl.bitmap q = false) :
    pl.getLeafShift (1 + q) = (List.range q).countP (fun x => isLeaf x && compactedP pl.bitmap x) :=
  PruneList.getLeafShift_counts h q hnc

theorem leaf_shifted_index (pl : PruneList) (h : pl.Inv) (size q : Nat) (hq : q < size)
    (hl : isLeaf q = true) (hnc : compactedP pl.bitmap q = false) :
    (dataLayout pl.bitmap size)[nLeaves (q + 1) - pl.getLeafShift (1 + q) - 1]? = some q := by
  rw [dataIdx_eq h q ((isLeaf_iff q).1 hl) hnc, Nat.add_sub_cancel]
  exact filter_range_index _ size q hq (by simp [hl, hnc])

/-- **compact_preserves.** For a synced backend `b` satisfying the reference invariant and
`b' = b.checkCompact cutoff rm` (any `cutoff ≤ size`, any `rewind_rm_pos`):
* `b'` satisfies the reference invariant again **for the same reference**: in particular the new
  hash file and data file are the reference values laid out by the NEW prune list;
* no unspent leaf, no ancestor or Merkle-path sibling of an unspent leaf, no peak and no pruned
  root is compacted away, and all pruned roots stay inside the MMR;
* the unspent-leaf set and `unpruned_size` are unchanged (the latter is the reference size);
* hence every unspent leaf reads its reference hash and data, every position on the Merkle path
  of an unspent leaf, every peak and every pruned root reads its reference hash;
* the root over the compacted backend is the root of the unpruned reference (and of `b`). -/
theorem compact_preserves {H : Type} (el : Bytes → Option Nat) (hf : HashFn Bytes H)
    (b : Backend H) (N : Nat) (ref : Nat → H) (dref : Nat → Bytes) (df : AOF Bytes)
    (hs : Synced b N ref dref df) (cutoff : Nat) (hc : cutoff ≤ mmr N) (rm : Bitmap) :
    let b' := b.checkCompact el cutoff rm
    (∃ df', Synced b' N ref dref df') ∧
    b'.hashFile.disk = (layout b'.pruneList.bitmap (mmr N)).map ref ∧
    (∃ df', b'.dataFile = .fixed df' ∧ df'.disk = (dataLayout b'.pruneList.bitmap (mmr N)).map dref) ∧
    (∀ q, (q + 1) ∈ b.leafSet.bitmap → ∀ a, Sub (family a).1 q →
      compactedP b'.pruneList.bitmap a = false) ∧
    (∀ p ∈ peaks (mmr N), compactedP b'.pruneList.bitmap p = false) ∧
    (∀ x ∈ b'.pruneList.bitmap, compactedP b'.pruneList.bitmap (x - 1) = false ∧ x ≤ mmr N) ∧
    b'.leafPosIter = b.leafPosIter ∧ b'.nUnprunedLeaves = b.nUnprunedLeaves ∧
    b'.unprunedSize = b.unprunedSize ∧ b'.unprunedSize = mmr N ∧
    (∀ q, (q + 1) ∈ b.leafSet.bitmap →
      b'.getHash q = some (ref q) ∧ b'.getData el q = some (dref q)) ∧
    (∀ q, (q + 1) ∈ b.leafSet.bitmap → ∀ a, Sub (family a).1 q → a < mmr N →
      b'.getFromFile a = some (ref a)) ∧
    (∀ p ∈ peaks (mmr N), b'.getPeakFromFile p = some (ref p) ∧ b'.getFromFile p = some (ref p)) ∧
    (∀ x ∈ b'.pruneList.bitmap, b'.getFromFile (x - 1) = some (ref (x - 1))) ∧
    PM.root hf { b := b', size := mmr N } = Pmmr.root hf ((List.range (mmr N)).map ref) ∧
    PM.root hf { b := b', size := mmr N } = PM.root hf { b := b, size := mmr N } := by
  intro b'
  obtain ⟨df', hs'⟩ := hs.checkCompact el hc rm
  have hroots : ∀ x ∈ b'.pruneList.bitmap, compactedP b'.pruneList.bitmap (x - 1) = false ∧ x ≤ mmr N :=
    fun x hx => ⟨PruneList.root_not_compacted hs'.inv x hx, hs'.roots x hx⟩
  refine ⟨⟨df', hs'⟩, hs'.hashLay, ⟨df', hs'.data, hs'.dataLay⟩, ?_, ?_, hroots, rfl, rfl, ?_,
    hs'.unprunedSize, ?_, ?_, ?_, ?_, hs'.root_eq hf, ?_⟩
  · exact fun q hq a ha => hs'.needed_kept q hq a ha
  · exact fun p hp => peak_not_compacted hs'.roots hs'.inv.pos p hp
  · rw [hs'.unprunedSize, hs.unprunedSize]
  · exact fun q hq => hs'.read_unspent el q hq
  · exact fun q hq a ha hlt => hs'.read_path q hq a ha hlt
  · exact fun p hp => hs'.read_peak p hp
  · intro x hx
    have := hs'.inv.pos x hx
    exact (hs'.read_hash (x - 1) (by have := (hroots x hx).2; omega) (hroots x hx).1).2
  · rw [hs'.root_eq hf, hs.root_eq hf]

/-! ## Histories (DESIGN §4 C08 `history_refinement`)

Operations `HOp` (Lemmas/StoreHistory.lean): `push e`, `prune pos`, `rewind N' rm` (to the
boundary of `N'` leaves), `sync`, `discard`, `compact K rm` (cutoff = boundary of `K` leaves),
`reopen`.  The store side is `bstep` (the model functions `PM.push`, `PM.prune`, `PM.rewind`,
`Backend.sync`, `Backend.discard`, `Backend.checkCompact`, `Backend.reopen`; after `discard` and
`reopen` the PMMR is re-created at `unpruned_size`, as `PMMRHandle` does).  The reference side is
`RefSt.step`: an unpruned leaf list, a set of unspent positions, the committed copy of both, and
the protocol's bookkeeping (`dirty`, the set `G` of leaves compacted away so far, the largest
cutoff `C`).

**Usage protocol** `RefSt.Proto r ops` – a decidable predicate on the operation list
(`RefSt.ok`, one operation): sizes stay below `2^64 − 64`; `rewind` only before the first append
of a unit of work (several rewinds in a row – the chain rewinds block by block – and rewinds after
removals are allowed), to a boundary `C ≤ N' ≤ size`, re-adding only leaf positions of the smaller
MMR that no compaction has removed (`∉ G`); `compact` and `reopen` only from a synced state, with
`K ≤ size`.  `push`, `prune`, `sync`, `discard` are unrestricted.  Variable-size data files are
not covered (`.fixed` only).

That the node's bookkeeping yields these conditions is `chain_bookkeeping_conforms` below: block
boundaries with their unspent sets, `rewind_rm_pos` of a rewind = unspent at the target and spent
now, `rewind_rm_pos` of a compaction = everything spent by the blocks after the cutoff boundary,
no rewind below the last cutoff. -/

/-- One operation allowed by the protocol preserves the history invariant `HInv` (store agrees
with the current reference view; the backend the open unit started from is synced, agrees with
the committed view, and the current backend is inside that unit). -/
theorem history_step {H : Type} (el : Bytes → Option Nat) (hf : HashFn Bytes H) (p : PM H)
    (r : RefSt) (h : HInv hf p r) (op : HOp) (hok : r.ok op) :
    HInv hf (bstep el hf p op) (r.step op) := hinv_step el hf p r h op hok

/-- The reference of a history is the unpruned Vec-backed MMR holding the same leaves. -/
theorem reference_is_unpruned_mmr {H : Type} (hf : HashFn Bytes H) (es : List Bytes)
    (hN : es.length ≤ 2 ^ 65) :
    Pmmr.pushAll hf [] es = some (Pmmr.Co.allHashes hf (leafFn es) es.length) :=
  reference_is_vec_mmr hf es hN

/-- **history_preserves_reference.** After ANY sequence of `push` / `prune` / `rewind` / `sync` /
`discard` / `compact` / `reopen` obeying the usage protocol, starting from the empty store:
size, root, the unspent-leaf set, the hash and data of every unspent leaf, every hash on the
Merkle path of an unspent leaf and every peak hash equal those of the unpruned reference holding
the same leaf history (`allHashes` = the hash vector of the Vec-backed MMR over the reference's
leaves, see `reference_is_unpruned_mmr`); outside a unit of work `unpruned_size` is the reference
size as well. -/
theorem history_preserves_reference {H : Type} (el : Bytes → Option Nat) (hf : HashFn Bytes H)
    (ops : List HOp) (hproto : RefSt.Proto {} ops) :
    let p := ops.foldl (bstep el hf) ({} : PM H)
    let r := ops.foldl RefSt.step {}
    let N := r.cur.es.length
    let rh := Pmmr.Co.allHashes hf (leafFn r.cur.es) N
    p.size = mmr N ∧
    (r.dirty = false → p.b.unprunedSize = mmr N) ∧
    PM.root hf p = Pmmr.root hf rh ∧
    (∀ q, (q + 1) ∈ p.b.leafSet.bitmap ↔ q ∈ r.cur.U) ∧
    (∀ q, q ∈ r.cur.U → ∃ i, i < N ∧ q = mmr i ∧
      PM.getHash p q = some (refHash hf (leafFn r.cur.es) q) ∧
      rh[q]? = some (refHash hf (leafFn r.cur.es) q) ∧
      PM.getData el p q = some (r.cur.es.getD i [])) ∧
    (∀ q, q ∈ r.cur.U → ∀ a, Store.Sub (family a).1 q → a < mmr N →
      p.b.getFromFile a = some (refHash hf (leafFn r.cur.es) a)) ∧
    (∀ pk ∈ peaks (mmr N), p.b.getPeakFromFile pk = some (refHash hf (leafFn r.cur.es) pk)) :=
  hinv_observables el hf (hinv_run el hf ops _ _ (hinv_init hf) hproto)

/-- **A removal-only unit followed by its rewind conforms to the protocol.**  A unit of work that
removes leaves and appends nothing leaves the MMR size unchanged; after it is committed, the
rewind to the boundary just before it has position = the *current* size and `rewind_rm_pos` = the
leaves the unit removed.  For every reference state with `C ≤` current leaf count and every list
`ps` of leaf positions of the MMR that no compaction has removed, the history
`prune p₁ … prune pₖ, sync, rewind N [p₁+1 … pₖ+1]` satisfies `RefSt.Proto`, keeps the leaf
history, and (if the `pᵢ` were unspent) restores the unspent set – so by
`history_preserves_reference` the store has the spent-then-rewound leaves unspent again, with
their data, hashes and proofs.  (Append-only, mixed and empty units and rewinds across several
units need no extra statement: `push`, `prune`, `sync` are unrestricted and `rewind` only asks for
`C ≤ N' ≤ size` from a synced state.) -/
theorem removal_only_unit_then_rewind_conforming (r : RefSt) (hC : r.C ≤ r.cur.es.length)
    (ps : List Nat)
    (hps : ∀ p ∈ ps, isLeaf p = true ∧ p + 1 ≤ mmr r.cur.es.length ∧ p ∉ r.G) :
    let ops := ps.map HOp.prune ++ [HOp.sync, HOp.rewind r.cur.es.length (ps.map (· + 1))]
    RefSt.Proto r ops ∧ (ops.foldl RefSt.step r).cur.es = r.cur.es ∧
    ((∀ p ∈ ps, p ∈ r.cur.U) → (∀ q ∈ r.cur.U, q < mmr r.cur.es.length) →
      ∀ q, q ∈ (ops.foldl RefSt.step r).cur.U ↔ q ∈ r.cur.U) :=
  RefSt.removal_unit_then_rewind r hC ps hps

/-- **Merkle proofs over histories.** After any history obeying the protocol, `merkle_proof` of
every unspent leaf over the (pruned, compacted, rewound, reopened) store is the very proof value
the unpruned Vec-backed reference produces. -/
theorem history_merkle_proofs {H : Type} (el : Bytes → Option Nat) (hf : HashFn Bytes H)
    (ops : List HOp) (hproto : RefSt.Proto {} ops) :
    let p := ops.foldl (bstep el hf) ({} : PM H)
    let r := ops.foldl RefSt.step {}
    ∀ q, q ∈ r.cur.U → PM.merkleProof hf p q =
      Pmmr.merkleProof hf (Pmmr.Co.allHashes hf (leafFn r.cur.es) r.cur.es.length) q :=
  fun q hq => hinv_merkleProof hf (hinv_run el hf ops _ _ (hinv_init hf) hproto) q hq

/-! ## Block-level histories: the chain's bookkeeping implies the protocol

`Book` (Lemmas/StoreBlocks.lean): the boundaries the chain remembers (leaf count + unspent set at
the end of each block; working copy and committed copy), the index of the last compaction cutoff,
and the reference.  `BOp`: `rewindTo j` (one step of `Extension::rewind`: target = boundary `j`,
`rewind_rm_pos` = unspent there and spent now), `push`, `prune`, `commit` (`sync`, remember the
boundary), `rollback` (`discard`), `compact c` (`check_compact` with cutoff = boundary `c` and
`rewind_rm_pos` = every position spent by the blocks after it), `reopen`.  `Book.Ok` is the
chain's discipline: rewinds before the first append of an extension and never below the last
cutoff; compaction / reopen between extensions, the cutoff a remembered boundary not below the
previous one.  `Book.ops` flattens a block-level history to store operations. -/

/-- **The chain's bookkeeping implies the usage protocol of the store**: every block-level history
of the chain's discipline, flattened to `push` / `prune` / `rewind` / `sync` / `discard` /
`compact` / `reopen`, satisfies `RefSt.Proto` – so `history_preserves_reference` and
`history_merkle_proofs` apply to it. -/
theorem chain_bookkeeping_conforms (l : List BOp) (hok : Book.Ok {} l) :
    RefSt.Proto {} (Book.ops {} l) := (book_run binv_init l hok).1

/-- **Block-level invariant**: along every such history no leaf compacted away so far (`G`) is
unspent now or at any remembered boundary from the last compaction cutoff on – including leaves a
compaction had to protect because they were spent inside the horizon (they were in
`rewind_rm_pos`) and that a later rewind made unspent again. -/
theorem protected_never_compacted (l : List BOp) (hok : Book.Ok {} l) :
    let bk := Book.run {} l
    (∀ q ∈ bk.r.cur.U, q ∉ bk.r.G) ∧
    (∀ k t, bk.minIdx ≤ k → bk.chain[k]? = some t → ∀ q ∈ t.U, q ∉ bk.r.G) := by
  intro bk
  obtain ⟨_, h2, _⟩ := book_run binv_init l hok
  exact ⟨fun q hq => (h2.work.curU q hq).2.2, h2.work.prot⟩

/-- **No prune-list entry covers an unspent-or-protected leaf.**  After every block-level history
of the chain's discipline the prune list of the store (as `check_compact` built it from
`LeafSet::removed_pre_cutoff(cutoff_pos, rewind_rm_pos)`, cutoff position and `rewind_rm_pos`
OR-ed back exactly as the code does) prunes neither a currently unspent leaf nor a leaf that is
unspent at a boundary a rewind may still target; the prune list re-read from its file is that
list.  (The harness line `store covered` and its oracle evaluate exactly this on the
implementation.) -/
theorem protected_never_pruned {H : Type} (el : Bytes → Option Nat) (hf : HashFn Bytes H)
    (l : List BOp) (hok : Book.Ok {} l) :
    let bk := Book.run {} l
    let p := (Book.ops {} l).foldl (bstep el hf) ({} : PM H)
    (∀ q ∈ bk.r.cur.U, p.b.pruneList.isPruned q = false) ∧
    (∀ k t, bk.minIdx ≤ k → bk.chain[k]? = some t → ∀ q ∈ t.U, p.b.pruneList.isPruned q = false) ∧
    PruneList.openBm p.b.pruneFile = p.b.pruneList :=
  protected_not_pruned el hf l hok

/-- the five-step shape at block level: three leaves (the boundary ends on a leaf: position 3 is
the third leaf and 1-based position 4 = the cutoff), commit; one more leaf, commit; the next block
spends exactly the last leaf of the first boundary, commit; compaction with the first boundary as
cutoff (the spend is inside the horizon: `rewind_rm_pos = [4]`); a fork: rewind block by block to
the boundary before the spend (the leaf is unspent again), spend its sibling (position 4), append,
commit; one more block; compaction at the head; reopen -/
def cutoffShape : List BOp :=
  [.push [1], .push [2], .push [3], .commit, .push [4], .commit, .prune 3, .commit,
   .compact 1, .rewindTo 2, .prune 4, .push [5], .commit, .push [6], .commit, .compact 4, .reopen]

/-! ## Non-vacuity -/

/-- a prune list with one pruned root: position 2, the parent of leaves 0 and 1 -/
def plOne : PruneList :=
  { bitmap := [3], shiftCache := [PruneList.rootShift 2], leafShiftCache := [PruneList.rootLeafShift 2] }

theorem plOne_inv : plOne.Inv := by
  refine ⟨by simp [plOne], List.pairwise_singleton _ _, List.pairwise_singleton _ _, ?_, ?_, ?_⟩
  · simp [plOne, scanFrom]
  · simp [plOne, scanFrom]
  · intro k hk
    have : k = 0 := by simpa [plOne] using hk
    subst this
    simp [plOne, PruneList.isPrunedBm, PruneList.isPruned, PruneList.isPrunedRoot, Bm.contains,
      Bm.select, Bm.rank]

theorem height_two : height 2 = 1 := by
  have := pmh_coord 1 1 (by simp [trailingOnes])
  have h1 : mmr 1 = 1 := by simp [mmr, popcount]
  rw [h1] at this
  simp [height, this]

-- the invariant is inhabited by a non-empty list; its shift at position 5 is 2 (leaves 0 and 1
-- are gone from the hash file), its leaf shift is 2, and position 5 is not compacted
example : plOne.Inv ∧ plOne.getShift 5 = 2 ∧ plOne.getLeafShift 5 = 2 ∧
    compactedP plOne.bitmap 5 = false ∧ compactedP plOne.bitmap 1 = true := by
  refine ⟨plOne_inv, ?_, ?_, ?_, ?_⟩
  · rw [shift_spec _ plOne_inv]; simp [plOne, sumF, PruneList.rootShift, height_two]
  · rw [leaf_shift_spec _ plOne_inv]; simp [plOne, sumF, PruneList.rootLeafShift, height_two]
  · simp [plOne, compactedP, interior]
  · simp [plOne, compactedP, interior, bintreeLeftmost, height_two]

-- the layout hypotheses of the read laws are satisfiable with a non-empty prune list: an MMR of
-- size 4 whose leaves 0 and 1 were compacted keeps positions 2 and 3 in its hash file
example : layout plOne.bitmap 4 = [2, 3] := by
  have e : (List.range 4) = [0, 1, 2, 3] := by decide
  simp [layout, e, plOne, compactedP, interior, bintreeLeftmost, height_two, List.filter]

example : ∃ b : Backend Nat, b.pruneList.Inv ∧ b.hashFile.Clean ∧
    b.hashFile.disk = (layout b.pruneList.bitmap 4).map (fun p => 100 + p) ∧
    b.hashFile.disk = [102, 103] := by
  refine ⟨{ pruneList := plOne, hashFile := AOF.ofDisk [102, 103] }, plOne_inv, AOF.ofDisk_clean _, ?_, rfl⟩
  have e : (List.range 4) = [0, 1, 2, 3] := by decide
  simp [layout, e, plOne, compactedP, interior, bintreeLeftmost, height_two, List.filter, AOF.ofDisk]

-- appending to it keeps the invariant, and any bitmap at all yields an invariant list
example : (plOne.append 7).Inv ∧ (PruneList.new [1, 2, 5, 8, 9]).Inv :=
  ⟨rollup_inv_append _ plOne_inv 7, inv_of_new _⟩

-- a synced file with content, a unit with a rewind inside it, and its discard
example : (AOF.ofDisk [10, 20, 30]).Clean ∧
    ([AOF.Op.rewind 1, AOF.Op.append 7].foldl AOF.Op.apply (AOF.ofDisk [10, 20, 30])).discard
      = AOF.ofDisk [10, 20, 30] ∧
    (((AOF.ofDisk [10, 20, 30]).rewind 1).extend [7]).read 1 = some 7 ∧
    (((AOF.ofDisk [10, 20, 30]).rewind 1).extend [7]).flush.disk = [10, 7] := by
  refine ⟨AOF.ofDisk_clean _, ?_, ?_, ?_⟩
  · exact file_discard _ (AOF.ofDisk_clean _) _ (by
      intro op hop
      simp at hop
      rcases hop with rfl | rfl
      · show 1 ≤ 3; omega
      · trivial)
  · rw [file_read_after_rewind _ (AOF.ofDisk_clean _) 1 (by simp [AOF.ofDisk])]; rfl
  · rw [file_rewind_flush _ (AOF.ofDisk_clean _)]; rfl

-- a synced backend (after `sync`) exists for every backend with a fixed-size data file, and the
-- backend-level laws apply to it, e.g. to the default backend after a push-like append
example : ∃ (b : Backend Nat) (df : AOF Bytes), Backend.CleanFixed b df ∧ b.hashFile.disk = [5] :=
  ⟨(((({} : Backend Nat).append [1,2,3,4,5,6,7,8] [5]).getD {}).sync), _,
    Backend.sync_clean (by rfl), by rfl⟩

/-! ### a concrete synced backend: 8 leaves, a pruned subtree, a lone pruned leaf

MMR of 8 leaves (15 positions).  Leaves 0 and 1 are compacted away (pruned root: position 2,
height 1); the lone leaf at position 7 is pruned but its hash and data stay (pruned root of
height 0); the leaf at position 4 is spent but not pruned yet; unspent leaves: 3, 8, 10, 11. -/

def plEx : PruneList := { bitmap := [3, 8], shiftCache := [2, 2], leafShiftCache := [2, 2] }

theorem mmr_vals : mmr 1 = 1 ∧ mmr 2 = 3 ∧ mmr 4 = 7 ∧ mmr 5 = 8 ∧ mmr 6 = 10 ∧ mmr 7 = 11 ∧ mmr 8 = 15 := by
  simp [mmr, popcount]

theorem pmh_ex : peakMapHeight 2 = (1, 1) ∧ peakMapHeight 7 = (4, 0) ∧ height 3 = 0 ∧ height 8 = 0 ∧
    height 10 = 0 ∧ height 11 = 0 := by
  obtain ⟨m1, m2, m4, m5, m6, m7, _⟩ := mmr_vals
  have a := pmh_coord 1 1 (by simp [trailingOnes])
  have b := pmh_coord 4 0 (by simp)
  have c := pmh_coord 2 0 (by simp)
  have d := pmh_coord 5 0 (by simp)
  have e := pmh_coord 6 0 (by simp)
  have f := pmh_coord 7 0 (by simp)
  rw [m1] at a; rw [m4] at b; rw [m2] at c; rw [m5] at d; rw [m6] at e; rw [m7] at f
  simp only [Nat.add_zero] at b c d e f
  exact ⟨a, b, by simp [height, c], by simp [height, d], by simp [height, e], by simp [height, f]⟩

theorem height_ex : height 2 = 1 ∧ height 7 = 0 := by
  obtain ⟨a, b, _⟩ := pmh_ex
  exact ⟨by simp [height, a], by simp [height, b]⟩

theorem plEx_inv : plEx.Inv := by
  obtain ⟨h2, h7⟩ := height_ex
  obtain ⟨_, p7, _⟩ := pmh_ex
  refine ⟨by simp [plEx], ?_, ?_, ?_, ?_, ?_⟩
  · simp [plEx, Sorted]
  · simp [plEx, bintreeLeftmost, h7]
  · simp [plEx, scanFrom, PruneList.rootShift, h2, h7]
  · simp [plEx, scanFrom, PruneList.rootLeafShift, h2, h7]
  · intro k hk
    have hk' : k = 0 ∨ k = 1 := by simp [plEx] at hk; omega
    rcases hk' with rfl | rfl
    · simp [plEx, PruneList.isPrunedBm, PruneList.isPruned, PruneList.isPrunedRoot, Bm.contains,
        Bm.select, Bm.rank]
    · simp [plEx, PruneList.isPrunedBm, PruneList.isPruned, PruneList.isPrunedRoot, Bm.contains,
        Bm.select, Bm.rank, family, p7, bitSet]

/-- the concrete backend: hashes `100 + p`, data `[p]` -/
def bEx : Backend Nat :=
  { hashFile := AOF.ofDisk ((layout plEx.bitmap (mmr 8)).map (fun p => 100 + p)),
    dataFile := .fixed (AOF.ofDisk ((dataLayout plEx.bitmap (mmr 8)).map (fun p => [p]))),
    leafSet := { bitmap := [4, 9, 11, 12], bak := [4, 9, 11, 12] },
    pruneList := plEx, pruneFile := [3, 8] }

theorem bEx_synced : Synced bEx 8 (fun p => 100 + p) (fun p => [p])
    (AOF.ofDisk ((dataLayout plEx.bitmap (mmr 8)).map (fun p => [p]))) := by
  obtain ⟨h2, h7⟩ := height_ex
  obtain ⟨_, _, h3, h8, h10, h11⟩ := pmh_ex
  have m8 := mmr_vals.2.2.2.2.2.2
  refine ⟨plEx_inv, AOF.ofDisk_clean _, rfl, rfl, AOF.ofDisk_clean _, rfl, by simp [bEx, Sorted], rfl,
    ?_, ?_, ?_, by rw [m8]; omega, rfl⟩
  · intro x hx
    simp [bEx] at hx
    rcases hx with rfl | rfl | rfl | rfl <;> simp [m8, h3, h8, h10, h11]
  · intro x hx
    simp [bEx] at hx
    rintro ⟨r, hr, hs⟩
    simp [bEx, plEx] at hr
    unfold Store.Sub bintreeLeftmost at hs
    rcases hr with rfl | rfl <;> rcases hx with rfl | rfl | rfl | rfl <;> simp [h2, h7] at hs
  · intro x hx
    simp [bEx, plEx] at hx
    rcases hx with rfl | rfl <;> rw [m8] <;> omega

-- the hash file of the concrete backend holds positions 2 … 14 (leaves 0 and 1 are gone, the lone
-- pruned leaf 7 is still there)
example : layout plEx.bitmap 15 = [2, 3, 4, 5, 6, 7, 8, 9, 10, 11, 12, 13, 14] := by
  obtain ⟨h2, h7⟩ := height_ex
  have e : List.range 15 = [0, 1, 2, 3, 4, 5, 6, 7, 8, 9, 10, 11, 12, 13, 14] := by decide
  simp [layout, e, plEx, compactedP, interior, bintreeLeftmost, h2, h7, List.filter]

-- the hypotheses of `compact_preserves` are satisfiable by this backend, with a cutoff inside the
-- MMR and a non-empty `rewind_rm_pos`; the conclusion gives e.g. the data of the unspent leaf 8
example : ∃ df', Synced (bEx.checkCompact (fun _ => none) 11 [9]) 8 (fun p => 100 + p) (fun p => [p]) df' :=
  (compact_preserves (fun _ => none) ⟨fun i _ => i, fun i l r => i + l + r⟩ bEx 8 _ _ _ bEx_synced 11
    (by rw [mmr_vals.2.2.2.2.2.2]; omega) [9]).1

example : (bEx.checkCompact (fun _ => none) 11 [9]).getData (fun _ => none) 8 = some [8] :=
  ((compact_preserves (fun _ => none) ⟨fun i _ => i, fun i l r => i + l + r⟩ bEx 8 _ _ _ bEx_synced 11
    (by rw [mmr_vals.2.2.2.2.2.2]; omega) [9]).2.2.2.2.2.2.2.2.2.2.1 8 (by simp [bEx])).2

-- a history the protocol allows: three leaves, commit, spend the sibling pair, commit, compact at
-- the boundary of two leaves, reopen, one more leaf, commit, rewind to three leaves, discard
example : RefSt.Proto {} [.push [1], .push [2], .push [3], .sync, .prune 0, .prune 1, .sync,
    .compact 2 [], .reopen, .push [4], .sync, .rewind 3 [], .discard] := by
  have hb : ∀ n, n ≤ 10 → mmr n + 64 < 2 ^ 64 := fun n hn => by
    have := Pmmr.Co.mmr_le_two_mul n; omega
  simp only [RefSt.Proto, RefSt.ok, RefSt.step, List.length_append, List.length_cons, List.length_nil,
    and_true, true_and]
  refine ⟨hb _ (by omega), hb _ (by omega), hb _ (by omega), ?_, hb _ (by omega), ?_, ?_, ?_⟩ <;> simp

-- a removal-only unit and the rewind that undoes it: four leaves, commit; spend the leaves at
-- positions 0 and 1 (nothing appended: the size stays 7), commit; rewind to the boundary before
-- that unit - position = current size, rewind_rm_pos = {1, 2} - commit the rewind alone, reopen
example : RefSt.Proto {} [.push [1], .push [2], .push [3], .push [4], .sync, .prune 0, .prune 1,
    .sync, .rewind 4 [1, 2], .sync, .reopen] := by
  have hb : ∀ n, n ≤ 10 → mmr n + 64 < 2 ^ 64 := fun n hn => by
    have := Pmmr.Co.mmr_le_two_mul n; omega
  have hl0 : isLeaf 0 = true := by simp [isLeaf, height, peakMapHeight]
  have hl1 : isLeaf 1 = true := by
    have := pmh_coord 1 0 (by simp)
    rw [mmr_vals.1] at this
    simp [isLeaf, height, this]
  have m4 : mmr 4 = 7 := mmr_vals.2.2.1
  simp only [RefSt.Proto, RefSt.ok, RefSt.step, List.length_append, List.length_cons, List.length_nil,
    and_true, true_and]
  refine ⟨hb _ (by omega), hb _ (by omega), hb _ (by omega), hb _ (by omega), ?_⟩
  simp [m4, hl0, hl1]

-- the hypothesis of the three theorems is satisfiable by that history: it obeys the chain's
-- discipline, the first compaction really passes the cutoff position in `rewind_rm_pos`, and
-- the rewind really re-adds it
theorem cutoffShape_ok : Book.Ok {} cutoffShape ∧
    (Book.ops {} cutoffShape)[8]? = some (.compact 3 [4]) ∧
    (Book.ops {} cutoffShape)[9]? = some (.rewind 4 [4]) ∧
    3 ∈ (Book.run {} cutoffShape).r.cur.U := by
  have hb : ∀ n, n ≤ 10 → mmr n + 64 < 2 ^ 64 := fun n hn => by
    have := Pmmr.Co.mmr_le_two_mul n; omega
  have m0 : mmr 0 = 0 := by simp [mmr, popcount]
  have m1 : mmr 1 = 1 := mmr_vals.1
  have m2 : mmr 2 = 3 := mmr_vals.2.1
  have m3 : mmr 3 = 4 := by simp [mmr, popcount]
  refine ⟨?_, ?_, ?_, ?_⟩
  · simp only [cutoffShape, Book.Ok, Book.ok, Book.step, Book.emit, RefSt.step, List.length_append,
      List.length_cons, List.length_nil, and_true, true_and]
    refine ⟨hb _ (by omega), hb _ (by omega), hb _ (by omega), hb _ (by omega), ?_⟩
    simp [m0, m1, m2, m3]
    refine ⟨hb _ (by omega), hb _ (by omega)⟩
  · simp [cutoffShape, Book.ops, Book.step, Book.emit, RefSt.step, spentAfter, rmOf, m0, m1, m2, m3]
  · simp [cutoffShape, Book.ops, Book.step, Book.emit, RefSt.step, spentAfter, rmOf, m0, m1, m2, m3]
  · simp [cutoffShape, Book.run, Book.step, Book.emit, RefSt.step, spentAfter, rmOf, m0, m1, m2, m3]

-- … and the conclusion for it: the leaf at the cutoff position (position 3), protected by the
-- first compaction, un-spent by the rewind, its sibling spent and compacted, is not covered by
-- the prune list of the store, and the store still answers like the unpruned reference for it
example (hf : HashFn Bytes Nat) :
    ((Book.ops {} cutoffShape).foldl (bstep (fun _ => none) hf) ({} : PM Nat)).b.pruneList.isPruned 3 = false :=
  (protected_never_pruned (fun _ => none) hf cutoffShape cutoffShape_ok.1).1 3 cutoffShape_ok.2.2.2

example (hf : HashFn Bytes Nat) :
    let p := (Book.ops {} cutoffShape).foldl (bstep (fun _ => none) hf) ({} : PM Nat)
    let r := (Book.ops {} cutoffShape).foldl RefSt.step {}
    p.size = mmr r.cur.es.length ∧ PM.root hf p = Pmmr.root hf (Pmmr.Co.allHashes hf (leafFn r.cur.es) r.cur.es.length) :=
  let h := history_preserves_reference (fun _ => none) hf _ (chain_bookkeeping_conforms cutoffShape cutoffShape_ok.1)
  ⟨h.1, h.2.2.1⟩

-- a unit with a variable-size data file: whatever is appended / rewound, the durable state stays
example (v : VarFile) (b : Backend Nat) (ops : List (Backend.Op Nat)) (h : b.dataFile = .var v) :
    ((ops.foldl Backend.Op.apply b).discard.onDisk).2.1 = ([v.disk], v.sizeFile.disk) := by
  rw [(unit_disk_untouched b ops).2]
  simp [Backend.onDisk, h, DFile.onDisk]

end GV.Props.C08
