import GrinVerif.Model.Store
/-! # C08 — pruning, compaction, rewind and reopen never change what the MMR commits to -/
namespace GV.Props.C08
open GV GV.Pmmr GV.Store

/-- `read` after `append` on a clean file returns the appended element. -/
theorem aof_read_append {E : Type} (d : List E) (e : E) :
    ((AOF.ofDisk d).append e).read d.length = some e := by
  simp [AOF.ofDisk, AOF.append, AOF.read, AOF.sizeUnsyncInElmts]

end GV.Props.C08
