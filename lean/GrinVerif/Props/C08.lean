import GrinVerif.Lemmas.StoreBackend
/-! # C08 — pruning, compaction, rewind and reopen never change what the MMR commits to

Property theorems about the model of `store/src/{prune_list,types,leaf_set,pmmr}.rs`
(`Model/PruneList.lean`, `Model/Store.lean`).  Helper lemmas live in `Lemmas/Store*.lean`,
`Lemmas/PruneList*.lean`.  All statements are for every prune list / file / backend / operation
sequence (no size bound).

Vocabulary.  The bitmap of a prune list holds 1-based root positions `x`; the root is `x − 1`.
`sumF f bm = Σ_{x ∈ bm} f (x − 1)`.  `PruneList.Inv` is the roll-up invariant: positions ≥ 1,
strictly ascending, the subtree of every root lies entirely to the right of all earlier roots
(so no root is inside another root's subtree), both caches are the running sums of the per-root
shifts, and no root has a pruned sibling.  `compactedP bm q` = `q` lies strictly inside the
subtree of a root (its hash is gone from the hash file).  `layout bm size` = the positions
`< size` that are not compacted, ascending — the order in which the compacted hash file
stores them. -/
namespace GV.Props.C08
open GV GV.Pmmr GV.Store

/-! ## Prune list: roll-up invariant -/

/-- The empty prune list satisfies the invariant. -/
theorem inv_empty : PruneList.Inv {} := PruneList.inv_empty

/-- **Roll-up invariant preserved by `append`** – for every position, including the recursive
roll-up of siblings into the parent and `cleanup_subtree`. -/
theorem rollup_inv_append (pl : PruneList) (h : pl.Inv) (pos0 : Nat) : (pl.append pos0).Inv :=
  PruneList.append_inv h pos0

/-- Every prune list produced by `PruneList::new` (hence by `check_compact` and by
`PruneList::open`) satisfies the invariant. -/
theorem inv_of_new (bm : Bitmap) : (PruneList.new bm).Inv := PruneList.new_inv bm

/-! ## Prune list: what the shifts are (DESIGN A.5) -/

/-- **shift_spec.** `get_shift pos0 = Σ_{r pruned root, r ≤ pos0} 2·(2^{h(r)} − 1)`. -/
theorem shift_spec (pl : PruneList) (h : pl.Inv) (pos0 : Nat) :
    pl.getShift pos0 = sumF PruneList.rootShift (pl.bitmap.filter (· ≤ 1 + pos0)) :=
  PruneList.getShift_spec h pos0

/-- **leaf shift_spec.** `get_leaf_shift pos0 = Σ_{r pruned root, r ≤ pos0, h(r) > 0} 2^{h(r)}`. -/
theorem leaf_shift_spec (pl : PruneList) (h : pl.Inv) (pos0 : Nat) :
    pl.getLeafShift pos0 = sumF PruneList.rootLeafShift (pl.bitmap.filter (· ≤ 1 + pos0)) :=
  PruneList.getLeafShift_spec h pos0

/-- The strict interior of the subtree of any position `p` has exactly `2·(2^{h(p)} − 1)`
positions (`bintree_leftmost p .. p − 1`) – the summand of `get_shift`. -/
theorem subtree_interior_width (p : Nat) :
    p - bintreeLeftmost p = PruneList.rootShift p := interior_width p

/-- **The shift counts the compacted positions.** For every position that is not itself
compacted away, `get_shift pos` is the number of positions below `pos` that are. -/
theorem shift_counts_compacted (pl : PruneList) (h : pl.Inv) (pos : Nat)
    (hnc : compactedP pl.bitmap pos = false) :
    pl.getShift pos = (List.range pos).countP (compactedP pl.bitmap) :=
  PruneList.getShift_counts h pos hnc

/-- **Hence `pos − shift` indexes the compacted file**: in the ascending list of surviving
positions, `pos` is the element with index `pos − get_shift pos`. -/
theorem shifted_index (pl : PruneList) (h : pl.Inv) (size pos : Nat) (hpos : pos < size)
    (hnc : compactedP pl.bitmap pos = false) :
    (layout pl.bitmap size)[pos - pl.getShift pos]? = some pos :=
  layout_index h size pos hpos hnc

/-- **Read law of the compacted hash file.** If the (synced) hash file holds the reference hashes
of exactly the surviving positions, `get_peak_from_file` – and `get_from_file` wherever
`is_compacted` is false – returns the reference hash of every surviving position. -/
theorem read_compacted_file {H : Type} (b : Backend H) (ref : Nat → H) (size : Nat)
    (hinv : b.pruneList.Inv) (hclean : b.hashFile.Clean)
    (hlay : b.hashFile.disk = (layout b.pruneList.bitmap size).map ref)
    (pos : Nat) (hpos : pos < size) (hnc : compactedP b.pruneList.bitmap pos = false) :
    b.getPeakFromFile pos = some (ref pos) ∧
    b.getFromFile pos = if b.isCompacted pos then none else some (ref pos) := by
  have h := Backend.getPeakFromFile_of_layout ref size hinv hclean hlay pos hpos hnc
  exact ⟨h, by rw [Backend.getFromFile_eq, h]⟩

/-- **`is_pruned` is exact.** Looking only at the next root to the right (as the code does) decides
membership in *any* pruned subtree: `is_pruned pos` iff `pos` is a pruned root or lies strictly
inside the subtree of some pruned root. -/
theorem is_pruned_spec (pl : PruneList) (h : pl.Inv) (pos : Nat) :
    pl.isPruned pos = (pl.isPrunedRoot pos || compactedP pl.bitmap pos) :=
  PruneList.isPruned_iff h pos

/-- … and pruned roots themselves are never compacted away (their hash stays in the file). -/
theorem pruned_root_kept (pl : PruneList) (h : pl.Inv) (x : Nat) (hx : x ∈ pl.bitmap) :
    compactedP pl.bitmap (x - 1) = false := PruneList.root_not_compacted h x hx

/-- **Read law for `get_from_file`**, with the code's own `is_compacted` test: under the layout
hypothesis, every position outside the leaf set for which `is_compacted` is false (pruned roots
included) reads the reference hash. -/
theorem get_from_file_spec {H : Type} (b : Backend H) (ref : Nat → H) (size : Nat)
    (hinv : b.pruneList.Inv) (hclean : b.hashFile.Clean)
    (hlay : b.hashFile.disk = (layout b.pruneList.bitmap size).map ref)
    (pos : Nat) (hpos : pos < size) (hl : b.leafSet.includes pos = false)
    (hnc : b.isCompacted pos = false) : b.getFromFile pos = some (ref pos) :=
  Backend.getFromFile_of_layout ref size hinv hclean hlay pos hpos hl hnc

/-- **`unpruned_size` is the size of the unpruned reference.** `hash_size + get_total_shift`
gives back `size` whenever the hash file holds exactly the surviving positions `< size` and all
pruned roots are positions of that MMR – so it cannot change under compaction as long as the
layout is maintained. -/
theorem unpruned_size_spec {H : Type} (b : Backend H) (size : Nat) (hinv : b.pruneList.Inv)
    (hlen : b.hashFile.disk.length = (layout b.pruneList.bitmap size).length)
    (hroots : ∀ x ∈ b.pruneList.bitmap, x ≤ size) : b.unprunedSize = size :=
  Backend.unprunedSize_of_layout size hinv hlen hroots

/-- **Reopen is the identity on the prune list**: flushing the bitmap and `PruneList::open`ing
it (re-append every root, rebuild both caches from scratch) yields the same list and caches. -/
theorem prune_list_reopen (pl : PruneList) (h : pl.Inv) : PruneList.openBm pl.bitmap = pl :=
  PruneList.openBm_of_inv h

/-! ## File layer (`AppendOnlyFile`, `LeafSet`) -/

/-- `read` returns an element appended to the buffer at the position `append` assigned to it. -/
theorem file_read_append {E : Type} (f : AOF E) (e : E) :
    (f.append e).read f.sizeUnsyncInElmts = some e := AOF.read_append_new f e

/-- … and `append` does not change what any earlier position reads. -/
theorem file_read_append_old {E : Type} (f : AOF E) (e : E) (pos : Nat)
    (h : pos < f.sizeUnsyncInElmts) : (f.append e).read pos = f.read pos :=
  AOF.read_append_old f e pos h

/-- After `rewind p` and re-appending `es` (nothing flushed yet) every read returns the rewound
and re-extended sequence: old data below `p`, the buffer from `p` on, nothing of the discarded
tail. -/
theorem file_read_after_rewind {E : Type} (f : AOF E) (h : f.Clean) (p : Nat)
    (hp : p ≤ f.disk.length) (es : List E) (i : Nat) :
    ((f.rewind p).extend es).read i = (f.disk.take p ++ es)[i]? :=
  AOF.read_rewind_extend h p hp es i

/-- `rewind` then `flush`: the file on disk is truncated at the rewind point, then extended. -/
theorem file_rewind_flush {E : Type} (f : AOF E) (h : f.Clean) (p : Nat) (es : List E) :
    ((f.rewind p).extend es).flush.disk = f.disk.take p ++ es :=
  AOF.flush_rewind_extend h p es

/-- `discard` after any sequence of appends and rewinds (to positions inside the file) of one
unit of work restores the synced file exactly. -/
theorem file_discard {E : Type} (f : AOF E) (h : f.Clean) (ops : List (AOF.Op E))
    (hw : ∀ op ∈ ops, op.Within f.disk.length) : (ops.foldl AOF.Op.apply f).discard = f :=
  AOF.discard_unit h ops hw

/-- A flushed file re-opened from disk is the same file. -/
theorem file_reopen {E : Type} (f : AOF E) : AOF.ofDisk f.flush.disk = f.flush := AOF.reopen_flush f

/-- `write_tmp_pruned`'s loop removes exactly the listed indices when they are ascending. -/
theorem write_tmp_pruned_spec {E : Type} (es : List E) (pp : List Nat) (hs : Sorted pp) :
    AOF.writeTmpLoop es 0 pp = keepIdx (fun i => !pp.elem i) es 0 :=
  writeTmpLoop_spec es 0 pp hs (fun _ _ => Nat.zero_le _)

/-- `LeafSet::rewind`: a position is in the rewound leaf set iff it was in the set at or below
the cutoff or is one of the re-added (`rewind_rm_pos`) positions. -/
theorem leafset_rewind_mem (ls : LeafSet) (cutoff : Nat) (rm : Bitmap) (hs : Sorted ls.bitmap)
    (x : Nat) : x ∈ (ls.rewind cutoff rm).bitmap ↔ (x ∈ ls.bitmap ∧ x ≤ cutoff) ∨ x ∈ rm :=
  LeafSet.mem_rewind ls cutoff rm hs x

/-! ## Backend: units of work, reopen, compaction -/

/-- **`discard` ∘ (any operations of one unit of work) = identity.** From a synced backend, after
any sequence of `append` / `remove` / `rewind` whose rewinds stay inside the synced files (the
usage protocol), `discard` restores the backend state exactly – hence every observable. -/
theorem unit_discard {H : Type} (b : Backend H) (df : AOF Bytes) (hc : Backend.CleanFixed b df)
    (ops : List (Backend.Op H)) (hw : ∀ op ∈ ops, op.Within b df) :
    (ops.foldl Backend.Op.apply b).discard = b :=
  Backend.discard_unit hc ops hw

/-- `sync` leaves a synced backend, so the two laws compose over histories of units. -/
theorem sync_clean {H : Type} (b : Backend H) (df : AOF Bytes) (hd : b.dataFile = .fixed df) :
    Backend.CleanFixed b.sync df.flush := Backend.sync_clean hd

/-- **`sync` then drop + reopen is the identity** on the whole backend state (hash file, data
file, leaf set, prune list with both caches) – hence on every observable. -/
theorem sync_reopen {H : Type} (el : Bytes → Option Nat) (b : Backend H) (df : AOF Bytes)
    (hd : b.dataFile = .fixed df) (hinv : b.pruneList.Inv) : b.sync.reopen el = b.sync :=
  Backend.reopen_sync el hd hinv

/-- Compaction then drop + reopen is the identity as well. -/
theorem compact_reopen {H : Type} (el : Bytes → Option Nat) (b : Backend H) (df : AOF Bytes)
    (hc : Backend.CleanFixed b df) (cutoff : Nat) (rm : Bitmap) :
    (b.checkCompact el cutoff rm).reopen el = b.checkCompact el cutoff rm :=
  Backend.reopen_checkCompact el hc cutoff rm

/-- **Compaction only selects spent leaves at or below the cutoff.** Every leaf `check_compact`
decides to remove (`pos_to_rm`'s first component, fed to the new prune list) is a leaf position
`≤ cutoff_pos` that is not in the leaf set (so it is spent), not in `rewind_rm_pos` (so it was
not spent after the cutoff and no permitted rewind can bring it back) and not pruned already. -/
theorem compaction_spares_unspent {H : Type} (b : Backend H) (cutoff : Nat) (rm : Bitmap) (x : Nat)
    (h : x ∈ (b.posToRm cutoff rm).1) :
    1 ≤ x ∧ x ≤ cutoff ∧ b.leafSet.includes (x - 1) = false ∧ x ∉ rm ∧
    isLeaf (x - 1) = true ∧ b.pruneList.isPruned (x - 1) = false := by
  obtain ⟨h1, h2, h3, h4, h5, h6⟩ := LeafSet.mem_removedPreCutoff (show x ∈
    b.leafSet.removedPreCutoff cutoff rm b.pruneList from h)
  refine ⟨h1, h2, ?_, h4, h5, h6⟩
  unfold LeafSet.includes
  have : 1 + (x - 1) = x := by omega
  rw [this]
  cases hc : Bm.contains b.leafSet.bitmap x with
  | false => rfl
  | true => exact absurd (contains_iff.1 hc) h3

/- Full statement intended (DESIGN §4 C08 `compact_preserves`), NOT proved:

   for a synced backend `b` whose hash/data files hold the reference values of the surviving
   positions (`hashFile.disk = (layout pl.bitmap size).map ref`, likewise the data file with the
   leaf shift) and whose unspent leaves are not pruned, and `b' = b.checkCompact cutoff rm` with
   `cutoff` an earlier boundary and `rm` the leaves spent after it:
     * `b'.hashFile.disk = (layout b'.pruneList.bitmap size).map ref` (and the data file likewise),
     * no unspent leaf, Merkle-path sibling of an unspent leaf, peak or pruned root is compacted in `b'`,
     * `b'.unprunedSize = b.unprunedSize`,
   hence (by `read_compacted_file`) every position the reference still needs reads the reference
   value after compaction.

   Missing: (1) set-level correctness of the roll-up (`pruned positions of append pl p = pruned
   positions of pl ∪ subtree p`), (2) `pos_to_rm` = the newly compacted positions, so that
   `write_tmp_pruned_spec` turns the old layout into the new one, (3) the leaf-shift analogue of
   `shift_counts_compacted`.  These compositions are carried by the correspondence run, which
   compares `get_from_file` of every position, root, size and all leaf data with the unpruned
   reference after every compaction. -/

/-- **compact_preserves (partial).** What is proved about `check_compact` for every backend,
cutoff and `rewind_rm_pos`: the unspent-leaf set (`leaf_pos_iter`, `n_unpruned_leaves`) is
untouched; the new prune list satisfies the roll-up invariant, so `shift_spec`,
`shift_counts_compacted`, `shifted_index` hold for it; and therefore, *if* the rewritten hash
file holds the reference hashes of the surviving positions, every surviving position reads its
reference hash.  The hypothesis `hlay` is the named gap (see the comment above). -/
theorem compact_preserves_partial {H : Type} (el : Bytes → Option Nat) (b : Backend H)
    (cutoff : Nat) (rm : Bitmap) :
    let b' := b.checkCompact el cutoff rm
    b'.leafPosIter = b.leafPosIter ∧ b'.nUnprunedLeaves = b.nUnprunedLeaves ∧
    b'.pruneList.Inv ∧
    (∀ (ref : Nat → H) (size : Nat), b'.hashFile.Clean →
      b'.hashFile.disk = (layout b'.pruneList.bitmap size).map ref →
      ∀ pos, pos < size → compactedP b'.pruneList.bitmap pos = false →
        b'.getPeakFromFile pos = some (ref pos)) := by
  refine ⟨rfl, rfl, Backend.checkCompact_inv el b cutoff rm, ?_⟩
  intro ref size hclean hlay pos hpos hnc
  exact Backend.getPeakFromFile_of_layout ref size (Backend.checkCompact_inv el b cutoff rm)
    hclean hlay pos hpos hnc

/-! ## Non-vacuity -/

/-- a prune list with one pruned root: position 2, the parent of leaves 0 and 1 -/
def plOne : PruneList :=
  { bitmap := [3], shiftCache := [PruneList.rootShift 2], leafShiftCache := [PruneList.rootLeafShift 2] }

theorem plOne_inv : plOne.Inv := by
  refine ⟨by simp [plOne], List.pairwise_singleton _ _, List.pairwise_singleton _ _, ?_, ?_, ?_⟩
  · simp [plOne, scanFrom]
  · simp [plOne, scanFrom]
  · intro k hk
    have : k = 0 := by simpa [plOne] using hk
    subst this
    simp [plOne, PruneList.isPrunedBm, PruneList.isPruned, PruneList.isPrunedRoot, Bm.contains,
      Bm.select, Bm.rank]

theorem height_two : height 2 = 1 := by
  have := pmh_coord 1 1 (by simp [trailingOnes])
  have h1 : mmr 1 = 1 := by simp [mmr, popcount]
  rw [h1] at this
  simp [height, this]

-- the invariant is inhabited by a non-empty list; its shift at position 5 is 2 (leaves 0 and 1
-- are gone from the hash file), its leaf shift is 2, and position 5 is not compacted
example : plOne.Inv ∧ plOne.getShift 5 = 2 ∧ plOne.getLeafShift 5 = 2 ∧
    compactedP plOne.bitmap 5 = false ∧ compactedP plOne.bitmap 1 = true := by
  refine ⟨plOne_inv, ?_, ?_, ?_, ?_⟩
  · rw [shift_spec _ plOne_inv]; simp [plOne, sumF, PruneList.rootShift, height_two]
  · rw [leaf_shift_spec _ plOne_inv]; simp [plOne, sumF, PruneList.rootLeafShift, height_two]
  · simp [plOne, compactedP, interior]
  · simp [plOne, compactedP, interior, bintreeLeftmost, height_two]

-- the layout hypotheses of the read laws are satisfiable with a non-empty prune list: an MMR of
-- size 4 whose leaves 0 and 1 were compacted keeps positions 2 and 3 in its hash file
example : layout plOne.bitmap 4 = [2, 3] := by
  have e : (List.range 4) = [0, 1, 2, 3] := by decide
  simp [layout, e, plOne, compactedP, interior, bintreeLeftmost, height_two, List.filter]

example : ∃ b : Backend Nat, b.pruneList.Inv ∧ b.hashFile.Clean ∧
    b.hashFile.disk = (layout b.pruneList.bitmap 4).map (fun p => 100 + p) ∧
    b.hashFile.disk = [102, 103] := by
  refine ⟨{ pruneList := plOne, hashFile := AOF.ofDisk [102, 103] }, plOne_inv, AOF.ofDisk_clean _, ?_, rfl⟩
  have e : (List.range 4) = [0, 1, 2, 3] := by decide
  simp [layout, e, plOne, compactedP, interior, bintreeLeftmost, height_two, List.filter, AOF.ofDisk]

-- appending to it keeps the invariant, and any bitmap at all yields an invariant list
example : (plOne.append 7).Inv ∧ (PruneList.new [1, 2, 5, 8, 9]).Inv :=
  ⟨rollup_inv_append _ plOne_inv 7, inv_of_new _⟩

-- a synced file with content, a unit with a rewind inside it, and its discard
example : (AOF.ofDisk [10, 20, 30]).Clean ∧
    ([AOF.Op.rewind 1, AOF.Op.append 7].foldl AOF.Op.apply (AOF.ofDisk [10, 20, 30])).discard
      = AOF.ofDisk [10, 20, 30] ∧
    (((AOF.ofDisk [10, 20, 30]).rewind 1).extend [7]).read 1 = some 7 ∧
    (((AOF.ofDisk [10, 20, 30]).rewind 1).extend [7]).flush.disk = [10, 7] := by
  refine ⟨AOF.ofDisk_clean _, ?_, ?_, ?_⟩
  · exact file_discard _ (AOF.ofDisk_clean _) _ (by
      intro op hop
      simp at hop
      rcases hop with rfl | rfl
      · show 1 ≤ 3; omega
      · trivial)
  · rw [file_read_after_rewind _ (AOF.ofDisk_clean _) 1 (by simp [AOF.ofDisk])]; rfl
  · rw [file_rewind_flush _ (AOF.ofDisk_clean _)]; rfl

-- a synced backend (after `sync`) exists for every backend with a fixed-size data file, and the
-- backend-level laws apply to it, e.g. to the default backend after a push-like append
example : ∃ (b : Backend Nat) (df : AOF Bytes), Backend.CleanFixed b df ∧ b.hashFile.disk = [5] :=
  ⟨(((({} : Backend Nat).append [1,2,3,4,5,6,7,8] [5]).getD {}).sync), _,
    Backend.sync_clean (by rfl), by rfl⟩

end GV.Props.C08
