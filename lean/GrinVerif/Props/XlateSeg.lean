import GrinVerif.Model.Seg
import GrinVerif.Gen.FnsSeg
import GrinVerif.Props.XlatePmmr
/-! # Translated `SegmentIdentifier` arithmetic of `core/src/core/pmmr/segment.rs` = `Model/Seg.lean`

`GV.Gen.Fns.SegmentIdentifier_*` (file `Gen/FnsSeg.lean`) is regenerated on every check run from
the CURRENT Rust source by `tools/rs2lean.py`; the fields `self.height : u8`, `self.idx : u64` are
the leading parameters.  Both sides use release-build wrapping arithmetic (`1 << height` with the
shift amount masked to 6 bits, wrapping `* + -`), so the identities hold for EVERY identifier;
only `mmr_size < 2^64` (a u64) is needed, for `n_leaves`. -/

namespace GV.Props.XlateSeg
open GV GV.Pmmr GV.Seg GV.Xlate
open GV.Gen

/-- `segment_capacity()` for every identifier -/
theorem segment_capacity_eq (id : Ident) :
    Fns.SegmentIdentifier_segment_capacity id.height = id.capacity := rfl

/-- `leaf_offset()` for every identifier -/
theorem leaf_offset_eq (id : Ident) :
    Fns.SegmentIdentifier_leaf_offset id.height id.idx = id.leafOffset := rfl

/-- the wrapped `insertion_to_pmmr_index` of the model is the translated function -/
theorem ins2pmmrW_eq (n : Nat) : Fns.insertion_to_pmmr_index n = ins2pmmrW n := rfl

/-- `segment_unpruned_size(mmr_size)` for every identifier and u64 `mmr_size` -/
theorem segment_unpruned_size_eq (id : Ident) (mmrSize : Nat) (h : mmrSize < 2^64) :
    Fns.SegmentIdentifier_segment_unpruned_size id.height id.idx mmrSize = id.unprunedSize mmrSize := by
  unfold Fns.SegmentIdentifier_segment_unpruned_size Ident.unprunedSize
  rw [GV.Props.XlatePmmr.n_leaves_eq mmrSize h]
  rfl

/-- `full_segment(mmr_size)` -/
theorem full_segment_eq (id : Ident) (mmrSize : Nat) (h : mmrSize < 2^64) :
    Fns.SegmentIdentifier_full_segment id.height id.idx mmrSize = id.full mmrSize := by
  unfold Fns.SegmentIdentifier_full_segment Ident.full
  rw [segment_unpruned_size_eq id mmrSize h]
  rfl

/-- `segment_pos_range(mmr_size)` (inclusive range as a pair) -/
theorem segment_pos_range_eq (id : Ident) (mmrSize : Nat) (h : mmrSize < 2^64) :
    Fns.SegmentIdentifier_segment_pos_range id.height id.idx mmrSize = id.posRange mmrSize := by
  unfold Fns.SegmentIdentifier_segment_pos_range Ident.posRange
  simp only [segment_unpruned_size_eq id mmrSize h, full_segment_eq id mmrSize h, leaf_offset_eq,
    ins2pmmrW_eq]

/-- `count_segments_required(target_mmr_size, segment_height)` -/
theorem count_segments_required_eq (target height : Nat) (h : target < 2^64) :
    Fns.SegmentIdentifier_count_segments_required target height
      = Ident.countSegmentsRequired target height := by
  unfold Fns.SegmentIdentifier_count_segments_required Ident.countSegmentsRequired
  rw [GV.Props.XlatePmmr.n_leaves_eq target h]

/-- `1 << segment_height` is never zero in release (masked shift), so the division cannot panic -/
theorem count_segments_required_ok (target height : Nat) (h : target < 2^64) :
    Fns.SegmentIdentifier_count_segments_required_ok target height = true := by
  unfold Fns.SegmentIdentifier_count_segments_required_ok
  have hs : shlW 1 height = 2^(height % 64) := by
    have : 2^(height % 64) < 2^64 := Nat.pow_lt_pow_right (by omega) (Nat.mod_lt _ (by omega))
    unfold shlW; rw [Nat.one_mul]; exact Nat.mod_eq_of_lt this
  have hp : 0 < 2^(height % 64) := Nat.pow_pos (by omega)
  simp only [GV.Props.XlatePmmr.n_leaves_ok target h, hs, Bool.true_and]
  simp <;> omega

theorem segment_unpruned_size_ok (id : Ident) (mmrSize : Nat) (h : mmrSize < 2^64) :
    Fns.SegmentIdentifier_segment_unpruned_size_ok id.height id.idx mmrSize = true := by
  simp [Fns.SegmentIdentifier_segment_unpruned_size_ok, GV.Props.XlatePmmr.n_leaves_ok mmrSize h]

theorem full_segment_ok (id : Ident) (mmrSize : Nat) (h : mmrSize < 2^64) :
    Fns.SegmentIdentifier_full_segment_ok id.height id.idx mmrSize = true := by
  simp [Fns.SegmentIdentifier_full_segment_ok, segment_unpruned_size_ok id mmrSize h]

theorem segment_pos_range_ok (id : Ident) (mmrSize : Nat) (h : mmrSize < 2^64) :
    Fns.SegmentIdentifier_segment_pos_range_ok id.height id.idx mmrSize = true := by
  simp [Fns.SegmentIdentifier_segment_pos_range_ok, segment_unpruned_size_ok id mmrSize h,
    full_segment_ok id mmrSize h]

/-- non-vacuity: segment (height 1, idx 1) of the 7-node MMR covers positions 3..=5 -/
example : Fns.SegmentIdentifier_segment_pos_range 1 1 7 = (3, 5)
    ∧ Fns.SegmentIdentifier_count_segments_required 7 1 = 2 := by
  have m4 : mmr 4 = 7 := by simp [mmr, popcount]
  have p := GV.Pmmr.Co.peakMapHeight_co 4 0 (by omega); rw [m4] at p
  have nl : Fns.n_leaves 7 = 4 := by
    rw [GV.Props.XlatePmmr.n_leaves_eq 7 (by omega)]; simp [nLeaves, p]
  constructor
  · simp [Fns.SegmentIdentifier_segment_pos_range, Fns.SegmentIdentifier_segment_unpruned_size,
      Fns.SegmentIdentifier_full_segment, Fns.SegmentIdentifier_leaf_offset,
      Fns.SegmentIdentifier_segment_capacity, Fns.insertion_to_pmmr_index, nl, shlW, mulW, subW, addW,
      satSub, popcount]
  · simp [Fns.SegmentIdentifier_count_segments_required, nl, shlW, subW, addW]

end GV.Props.XlateSeg
