import GrinVerif.Model.Pmmr
import GrinVerif.Gen.FnsBag
import GrinVerif.Props.XlatePmmr2
/-! # Peak bagging (`ReadablePMMR::bag_the_rhs`, `ReadablePMMR::root`) translated from the current source

`Gen/FnsBag.lean` (tools/rs2lean.py, phase 6): the two provided methods of `trait ReadablePMMR`
(core/src/core/pmmr/pmmr.rs) with the hash type kept ABSTRACT (a Lean type parameter) and the calls into
untranslatable code as FUNCTION-VALUED parameters: `self.get_from_file(pos)` (backend read) and the trait method
`(peak, rhash).hash_with_index(size)`; `self.unpruned_size()`, `self.is_empty()`, `self.peaks()`, `ZERO_HASH` as value
parameters.  Tied to `Pmmr.bag` / `Pmmr.bagTheRhs` / `Pmmr.root` of `Model/Pmmr.lean`: the ORDER in which the peaks are
bagged (right to left, the left peak as the first component of the pair, the MMR size as the index) is the model's. -/
namespace GV.Props.XlateBag
open GV GV.Pmmr GV.Gen
open GV.Props.XlatePmmr2

variable {α H : Type} [Inhabited H] [DecidableEq H]

/-- the code's `(l, r).hash_with_index(size)` in terms of the model's hash functions -/
def hwi (hf : HashFn α H) : (H × H) → Nat → H := fun pr sz => hf.node sz pr.1 pr.2

/-- one step of the bagging loop -/
def step (hf : HashFn α H) (size : Nat) (res : Option H) (p : H) : Option H :=
  match res with | none => some p | some r => some (hf.node size p r)

theorem bag_loop_foldl (hf : HashFn α H) (size : Nat) (l : List H) (res : Option H) :
    Fns.ReadablePMMR_bag_the_rhs_loop1 (hwi hf) size l res = l.foldl (step hf size) res := by
  induction l generalizing res with
  | nil => rfl
  | cons p t ih =>
    conv => lhs; unfold Fns.ReadablePMMR_bag_the_rhs_loop1
    rw [List.foldl_cons, ← ih]
    cases res <;> rfl

theorem root_loop_foldl (hf : HashFn α H) (size : Nat) (l : List H) (res : Option H) :
    Fns.ReadablePMMR_root_loop1 (hwi hf) size l res = l.foldl (step hf size) res := by
  induction l generalizing res with
  | nil => rfl
  | cons p t ih =>
    conv => lhs; unfold Fns.ReadablePMMR_root_loop1
    rw [List.foldl_cons, ← ih]
    cases res <;> rfl

omit [Inhabited H] [DecidableEq H] in
/-- the model's right-to-left recursion is the left fold over the reversed list -/
theorem bag_eq_foldl (hf : HashFn α H) (size : Nat) (ps : List H) :
    bag hf size ps = ps.reverse.foldl (step hf size) none := by
  induction ps with
  | nil => rfl
  | cons p t ih =>
    rw [List.reverse_cons, List.foldl_append, ← ih]
    simp only [List.foldl_cons, List.foldl_nil, step, bag]
    cases bag hf size t <;> rfl

/-- **`bag_the_rhs` = the model**, for every backend content `hashes` (read by `get_from_file` as `hashes[pos]?`) -/
theorem bag_the_rhs_eq (hf : HashFn α H) (hashes : List H) (peakPos : Nat) (h : hashes.length < 2^64) :
    Fns.ReadablePMMR_bag_the_rhs peakPos hashes.length (fun p => hashes[p]?) (hwi hf) = bagTheRhs hf hashes peakPos := by
  unfold Fns.ReadablePMMR_bag_the_rhs bagTheRhs
  simp only [bag_loop_foldl, peaks_eq _ h, bag_eq_foldl]

theorem bag_the_rhs_ok (peakPos size : Nat) (g : Nat → Option H) (f : (H × H) → Nat → H) (h : size < 2^64) :
    Fns.ReadablePMMR_bag_the_rhs_ok peakPos size g f = true := by
  unfold Fns.ReadablePMMR_bag_the_rhs_ok
  exact peaks_ok size h

/-- **`root` = the model**: `ZERO_HASH` for the empty MMR, the bagged peaks otherwise, an error when no peak hash is there -/
theorem root_eq (hf : HashFn α H) (hashes : List H) (zero : H) :
    Fns.ReadablePMMR_root (hashes.length == 0) (peakHashes hashes) hashes.length zero (hwi hf) =
      (match root hf hashes with | .zero => some zero | .ok r => some r | .err => none) := by
  unfold Fns.ReadablePMMR_root root
  by_cases h0 : hashes.length = 0
  · simp [h0]
  · have hb : (hashes.length == 0) = false := by simp [h0]
    simp only [hb, Bool.false_eq_true, if_false, h0, root_loop_foldl, ← bag_eq_foldl]
    cases bag hf hashes.length (peakHashes hashes) <;> rfl

/-- non-vacuity: three peaks `a b c` are bagged as `node (a, node (b, c))` with the MMR size as index -/
example (size a b c : Nat) :
    Fns.ReadablePMMR_root_loop1 (hwi (⟨fun _ x => x, fun s l r => s + 10 * l + 100 * r⟩ : HashFn Nat Nat)) size [c, b, a] none
      = some (size + 10 * a + 100 * (size + 10 * b + 100 * c)) := rfl

end GV.Props.XlateBag
