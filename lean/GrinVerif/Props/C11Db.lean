import GrinVerif.Model.DecDb
import GrinVerif.Lemmas.MsgBound
/-! # C11 — the database decoders and the third reader

For ALL byte strings and both capped readers: the instrumented models of the db decoders
(`Model/DecDb.lean`) take no panic branch and request at most `1 * len + k` bytes with `k` = 0 for the
NRD index values and size entries, 33 for block sums, 100 000 (the `read_fixed_bytes` cap: a `BinReader`
allocates the announced user-agent length before it finds the input too short) for `PeerData`. These
values come from the node's own LMDB, not from the network; the statements are here because the same
impls would be reachable the day a message carries one of these types.

`StreamingReader` is the uncapped reader: within the cap it IS the `BinReader` (`stream_eq_bin_within_cap`,
which covers every fixed-layout element the node reads from its data files: 32, 33, 64, 675 bytes …);
beyond it no bound holds - eight bytes announce any request up to `isize::MAX`, and more than that is
a capacity-overflow panic (`stream_lenprefix_requests_announced`, `stream_lenprefix_panics`). In this
source tree only `p2p::msg::read_item` could hand it untrusted bytes, and that function has no caller. -/
namespace GV.Props.C11Db
open GV GV.Ser GV.Dec GV.SerDb GV.DecDb GV.Msg

theorem noPanic_commitPosI : NoPanic commitPosI :=
  NoPanic.bind noPanic_rU64 fun p => NoPanic.bind noPanic_rU64 fun h => NoPanic.pure _

theorem bnd_commitPosI : Bnd 1 0 0 commitPosI :=
  Bnd.bind (bnd_rU64 1) fun p => Bnd.bind (bnd_rU64 1) fun h => Bnd.pure 1 _

theorem noPanic_listWrapperI {α : Type} {p : Dec α} (hp : NoPanic p) : NoPanic (listWrapperI p) :=
  NoPanic.bind (NoPanic.lift _) fun v => by
    cases v with
    | single => exact NoPanic.bind hp fun pos => NoPanic.pure _
    | multi => exact NoPanic.bind noPanic_rU64 fun h => NoPanic.bind noPanic_rU64 fun t => NoPanic.pure _

theorem noPanic_listEntryI {α : Type} {p : Dec α} (hp : NoPanic p) : NoPanic (listEntryI p) :=
  NoPanic.bind (NoPanic.lift _) fun v => by
    cases v with
    | head => exact NoPanic.bind hp fun pos => NoPanic.bind noPanic_rU64 fun n => NoPanic.pure _
    | tail => exact NoPanic.bind hp fun pos => NoPanic.bind noPanic_rU64 fun n => NoPanic.pure _
    | middle =>
      exact NoPanic.bind hp fun pos => NoPanic.bind noPanic_rU64 fun n => NoPanic.bind noPanic_rU64 fun q => NoPanic.pure _

/-- the NRD index values: no panic, for all byte strings -/
theorem nrdList_no_panic (bytes : Bytes) : (listWrapperI commitPosI bytes).isPanic = false :=
  noPanic_listWrapperI noPanic_commitPosI bytes
theorem nrdEntry_no_panic (bytes : Bytes) : (listEntryI commitPosI bytes).isPanic = false :=
  noPanic_listEntryI noPanic_commitPosI bytes

theorem variant_len {bs : Bytes} {v : WrapperVariant} {r : Bytes} (h : decWrapperVariant bs = .ok (v, r)) :
    r.length ≤ bs.length := by
  unfold decWrapperVariant at h
  cases bs with
  | nil => simp [readU8, andThen] at h
  | cons b t =>
    simp only [readU8, andThen_ok] at h
    split at h
    · cases h; simp
    · split at h
      · cases h; simp
      · cases h

theorem entryVariant_len {bs : Bytes} {v : EntryVariant} {r : Bytes} (h : decEntryVariant bs = .ok (v, r)) :
    r.length ≤ bs.length := by
  unfold decEntryVariant at h
  cases bs with
  | nil => simp [readU8, andThen] at h
  | cons b t =>
    simp only [readU8, andThen_ok] at h
    split at h
    · cases h; simp
    · split at h
      · cases h; simp
      · split at h
        · cases h; simp
        · cases h

/-- … and they allocate nothing -/
theorem nrdList_alloc_bound (bytes : Bytes) : (listWrapperI commitPosI bytes).alloc ≤ 1 * bytes.length + 0 := by
  have hk : ∀ v : WrapperVariant, Bnd 1 0 0 (fun r => (match v with
      | .single => bind (commitPosI r) fun pos r => .ok (.single pos) r 0
      | .multi => bind (rU64 r) fun h r => bind (rU64 r) fun t r => .ok (.multi h t) r 0 : Outcome (ListWrapper CommitPos))) := by
    intro v
    cases v with
    | single => exact (Bnd.bind bnd_commitPosI fun pos => Bnd.pure 1 _).mono (Nat.le_refl 1) (by decide) (by decide)
    | multi =>
      exact (Bnd.bind (bnd_rU64 1) fun h => Bnd.bind (bnd_rU64 1) fun t => Bnd.pure 1 _).mono (Nat.le_refl 1) (by decide) (by decide)
  have h : Bnd 1 (0 + 0) (max 0 0) (listWrapperI commitPosI) :=
    Bnd.bind (Bnd.lift (fun _ _ _ h => variant_len h) 1) hk
  exact h.alloc_le bytes

theorem nrdEntry_alloc_bound (bytes : Bytes) : (listEntryI commitPosI bytes).alloc ≤ 1 * bytes.length + 0 := by
  have hk : ∀ v : EntryVariant, Bnd 1 0 0 (fun r => (match v with
      | .head => bind (commitPosI r) fun pos r => bind (rU64 r) fun n r => .ok (.head pos n) r 0
      | .tail => bind (commitPosI r) fun pos r => bind (rU64 r) fun n r => .ok (.tail pos n) r 0
      | .middle => bind (commitPosI r) fun pos r => bind (rU64 r) fun n r => bind (rU64 r) fun q r => .ok (.middle pos n q) r 0
        : Outcome (ListEntry CommitPos))) := by
    intro v
    cases v with
    | head =>
      exact (Bnd.bind bnd_commitPosI fun pos => Bnd.bind (bnd_rU64 1) fun n => Bnd.pure 1 _).mono (Nat.le_refl 1) (by decide) (by decide)
    | tail =>
      exact (Bnd.bind bnd_commitPosI fun pos => Bnd.bind (bnd_rU64 1) fun n => Bnd.pure 1 _).mono (Nat.le_refl 1) (by decide) (by decide)
    | middle =>
      exact (Bnd.bind bnd_commitPosI fun pos => Bnd.bind (bnd_rU64 1) fun n => Bnd.bind (bnd_rU64 1) fun q => Bnd.pure 1 _).mono
        (Nat.le_refl 1) (by decide) (by decide)
  have h : Bnd 1 (0 + 0) (max 0 0) (listEntryI commitPosI) :=
    Bnd.bind (Bnd.lift (fun _ _ _ h => entryVariant_len h) 1) hk
  exact h.alloc_le bytes

theorem blockSums_no_panic (rd : Rdr) (bytes : Bytes) : (blockSumsI rd bytes).isPanic = false :=
  (NoPanic.bind (noPanic_rFixed rd _) fun u => NoPanic.bind (noPanic_rFixed rd _) fun k => NoPanic.pure _) bytes

theorem blockSums_alloc_bound (rd : Rdr) (bytes : Bytes) : (blockSumsI rd bytes).alloc ≤ 1 * bytes.length + 33 := by
  have h : Bnd 1 (0 + (0 + 0)) (max (min COMMIT_SIZE MAX_FIXED_READ) (max (min COMMIT_SIZE MAX_FIXED_READ) 0)) (blockSumsI rd) :=
    Bnd.bind (bnd_rFixed rd _) fun u => Bnd.bind (bnd_rFixed rd _) fun k => Bnd.pure 1 _
  exact Nat.le_trans (h.alloc_le bytes) (Nat.add_le_add_left (by decide) _)

theorem sizeEntry_no_panic (bytes : Bytes) : (sizeEntryI bytes).isPanic = false :=
  (NoPanic.bind noPanic_rU64 fun o => NoPanic.bind noPanic_rU16 fun s => NoPanic.pure _) bytes

theorem sizeEntry_alloc_bound (bytes : Bytes) : (sizeEntryI bytes).alloc ≤ 1 * bytes.length + 0 :=
  (Bnd.bind (bnd_rU64 1) fun o => Bnd.bind (bnd_rU16 1) fun s => Bnd.pure 1 _ : Bnd 1 (0 + (0 + 0)) _ sizeEntryI).alloc_le bytes

theorem noPanic_rI64 : NoPanic rI64 := NoPanic.lift _

/-- `PeerData::read`: no panic for all byte strings, whatever the clock -/
theorem peerData_no_panic (now : Int) (rd : Rdr) (bytes : Bytes) : (peerDataI now rd bytes).isPanic = false :=
  (NoPanic.bind (noPanic_decPeerAddr rd) fun addr =>
    NoPanic.bind noPanic_rU32 fun capab =>
    NoPanic.bind (noPanic_rBytesLenPrefix rd) fun ua =>
    NoPanic.bind noPanic_rU8 fun fl =>
    NoPanic.bind noPanic_rI64 fun lb =>
    NoPanic.bind noPanic_rU32 fun br => by
      intro bs
      show (if peerDataChecks ua fl br then _ else _ : Outcome _).isPanic = false
      split <;> rfl) bytes

theorem readI64_len {bs : Bytes} {z : Int} {r : Bytes} (h : readI64 bs = .ok (z, r)) : r.length ≤ bs.length := by
  unfold readI64 at h
  cases hu : readU64 bs with
  | error e => simp [hu] at h
  | ok v =>
    obtain ⟨u, r'⟩ := v
    simp only [hu, Except.ok.injEq, Prod.mk.injEq] at h
    have := readU64_len hu
    rw [← h.2]
    omega

/-- … and requests at most the input length plus the `read_fixed_bytes` cap (the announced user-agent
length is allocated by a `BinReader` before the input turns out to be too short) plus the 4 bytes of a
V4 address -/
theorem peerData_alloc_bound (now : Int) (rd : Rdr) (bytes : Bytes) :
    (peerDataI now rd bytes).alloc ≤ 1 * bytes.length + (MAX_FIXED_READ + 4) := by
  have hlast : ∀ (ua : Bytes) (fl : Nat) (lb : Int) (addr : GV.Msg.PeerAddr) (capab br : Nat),
      Bnd 1 0 0 (fun r => (if peerDataChecks ua fl br then
        .ok (addr, capab, ua, fl, lb, br, (readTrailing now r).1, (readTrailing now r).2.1) (readTrailing now r).2.2 0
        else .err .corrupted 0 : Outcome _)) := by
    intro ua fl lb addr capab br bs
    have hrest : (readTrailing now bs).2.2.length ≤ bs.length := by
      unfold readTrailing
      cases h1 : readI64 bs with
      | error e => simp
      | ok v =>
        obtain ⟨lc, r⟩ := v
        have l1 := readI64_len h1
        cases h2 : readI64 r with
        | error e => simp [h2]
        | ok w =>
          obtain ⟨la, r'⟩ := w
          have l2 := readI64_len h2
          simp only [h2]
          omega
    by_cases hc : peerDataChecks ua fl br = true
    · simp only [hc, ↓reduceIte, OBnd_ok]
      exact ⟨hrest, Nat.zero_le _⟩
    · simp only [hc, Bool.false_eq_true, ↓reduceIte, OBnd_err]
      omega
  have h := (Bnd.bind (bnd_decPeerAddr rd) fun addr =>
    Bnd.bind (bnd_rU32 1) fun capab =>
    Bnd.bind (bnd_rBytesLenPrefix rd) fun ua =>
    Bnd.bind (bnd_rU8 1) fun fl =>
    Bnd.bind (Bnd.lift (fun _ _ _ h => readI64_len h) 1 : Bnd 1 0 0 rI64) fun lb =>
    Bnd.bind (bnd_rU32 1) fun br => hlast ua fl lb addr capab br)
  exact Nat.le_trans (h.alloc_le bytes) (Nat.add_le_add_left (by decide) _)

/-! ## StreamingReader -/

/-- within the cap of the other readers the streaming reader is the `BinReader`, request included -/
theorem stream_eq_bin_within_cap (len : Nat) (h : len ≤ MAX_FIXED_READ) (bs : Bytes) :
    sFixed len bs = rFixed .bin len bs := by
  have h1 : ¬ len > ISIZE_MAX := by unfold ISIZE_MAX; unfold MAX_FIXED_READ at h; omega
  have h2 : ¬ len > MAX_FIXED_READ := by omega
  unfold sFixed rFixed
  simp only [h1, h2, ↓reduceIte]
  cases splitExact len bs with
  | none => rfl
  | some p => rfl

/-- beyond it: whatever length the eight bytes announce is REQUESTED, however short the stream -/
theorem stream_lenprefix_requests_announced (n : Nat) (h : n ≤ ISIZE_MAX) (hn : 0 < n) :
    (sBytesLenPrefix (writeU64 n)).alloc = 8 + n ∧ (writeU64 n).length = 8 := by
  have h64 : n < 2^64 := by unfold ISIZE_MAX at h; omega
  have hof : ofBE (writeU64 n) = n := by
    simp only [writeU64, ofBE, List.foldl]
    omega
  have h1 : ¬ n > ISIZE_MAX := by omega
  refine ⟨?_, rfl⟩
  unfold sBytesLenPrefix
  have hs : sFixed 8 (writeU64 n) = .ok (writeU64 n) [] 8 := by
    simp [sFixed, ISIZE_MAX, writeU64, splitExact]
  rw [hs]
  simp only [GV.Dec.bind, hof]
  cases n with
  | zero => omega
  | succ m => simp [sFixed, h1, splitExact, Outcome.addAlloc, Outcome.alloc]

/-- no bound `c * len + k` holds for it -/
theorem stream_lenprefix_unbounded (c k : Nat) (h : c * 8 + k + 1 ≤ ISIZE_MAX) :
    ∃ bs : Bytes, (sBytesLenPrefix bs).alloc > c * bs.length + k := by
  refine ⟨writeU64 (c * 8 + k + 1), ?_⟩
  obtain ⟨h1, h2⟩ := stream_lenprefix_requests_announced (c * 8 + k + 1) h (by omega)
  rw [h1, h2]
  omega

/-- and an announced length above `isize::MAX` is a capacity-overflow panic -/
theorem stream_lenprefix_panics : (sBytesLenPrefix (List.replicate 8 255)).isPanic = true := by decide

/-- the capped readers on the same eight bytes: refused, nothing requested -/
example : rBytesLenPrefix .bin (List.replicate 8 255) = .err .tooLarge 0 := by decide

end GV.Props.C11Db
