import GrinVerif.Lemmas.KvProg
import GrinVerif.Lemmas.KvSpace
import GrinVerif.Lemmas.KvResize
import GrinVerif.Lemmas.TxCount
import GrinVerif.Lemmas.ChainStoreProg
import GrinVerif.Lemmas.KvGate
import GrinVerif.Gen.KvGate
/-! # C18 — database batches are atomic, isolated and survive growth of the map

Property theorems only (helpers in `Lemmas/Kv.lean`, `Lemmas/KvProg.lean`; the model of
`store/src/lmdb.rs` is `Model/Kv.lean`; the textbook nested-transaction map is `Model/KvSpec.lean`).

Reading guide.  `St` = committed tables + the writer's stack of open (nested) batches.
`step`/`run` execute `Store::batch`, `put`, `delete`, `Batch::child`, `commit`, drop.
`bget/bexists/biter` are the reads of the innermost open batch, `sget/sexists/siter` the reads of
any other reader (`Store::…`, fresh read transaction).  A batch body is a tree `Prog` (writes and
child batches, each child with its commit/drop decision) of *arbitrary* size and nesting depth;
`Prog.sem` is its textbook meaning (function composition, dropped child = identity);
`Prog.flat` the operation sequence it performs.  All theorems quantify over all states, all
bodies, all depths.

What is *not* a theorem here (runtime, checked only by the correspondence harness on the real
LMDB): that LMDB implements this contract, real thread interleavings, durability of
`mdb_txn_commit` against process death.  The poll loops of the resize gate: their SHAPE (one exit,
no bound, gate before transaction) is regenerated from the source into `Gen/KvGate.lean` and pinned
by the obligations of section `gate shape` below; what a loop of that shape does is a theorem
(`op_during_pending_resize_returns_spec`); that the scheduler lets a sleeping thread run again is
runtime (run `slowreader`). -/
namespace GV.Props.C18
open GV GV.Kv

/-! ## read-your-writes inside a batch and its children -/

/-- A `put` in the innermost open batch (any depth) is read back by that batch; other keys keep
their value. -/
theorem read_your_put (st : St) (k k' : Key) (v : Val) (h : st.stack ≠ []) :
    bget (step st (.put k v)) k' = if k = k' then some v else bget st k' := by
  cases hs : st.stack with
  | nil => exact absurd hs h
  | cons o s =>
    by_cases hk : k = k' <;> simp [bget, step, hs, ovGet, hk]

/-- A `delete` in the innermost open batch hides the key from that batch. -/
theorem read_your_delete (st : St) (k k' : Key) (h : st.stack ≠ []) :
    bget (step st (.del k)) k' = if k = k' then none else bget st k' := by
  cases hs : st.stack with
  | nil => exact absurd hs h
  | cons o s =>
    by_cases hk : k = k' <;> simp [bget, step, hs, ovGet, hk]

example : bget (step { committed := [((1, [7]), [1])], stack := [[]] } (.put (1, [7]) [2])) (1, [7])
    = some [2] := by decide

/-- A fresh child batch sees exactly what its parent sees (including the parent's uncommitted
writes and those of all further ancestors). -/
theorem child_sees_parent (st : St) (k : Key) (h : st.stack ≠ []) :
    bget (step st .child) k = bget st k := by
  cases hs : st.stack with
  | nil => exact absurd hs h
  | cons o s => simp [bget, step, hs]

/-- Whole bodies, any depth: after running the body `p` of the innermost open batch (with all its
child batches, committed or dropped), that batch reads the textbook meaning of `p` applied to what
it read before. -/
theorem read_your_writes (p : Prog) (st : St) (h : st.stack ≠ []) :
    (fun k => bget (run st p.flat) k) = p.sem (fun k => bget st k) := by
  cases hs : st.stack with
  | nil => exact absurd hs h
  | cons o s =>
    rw [run_flat p st o s hs, bget_eq_ovF, bget_eq_ovF, ← ovF_writes, hs]
    simp [ovF_append, List.flatten_cons]

/-! ## isolation: nothing is visible outside before the outermost commit -/

/-- One step changes the committed tables only if it is the commit of the *outermost* batch. -/
theorem only_outer_commit_publishes (st : St) (op : Op)
    (h : (step st op).committed ≠ st.committed) : op = .commit ∧ st.stack.length = 1 := by
  apply Classical.byContradiction
  intro hn
  exact h (step_committed st op hn)

/-- All op sequences: as long as no outermost commit is executed — whatever puts, deletes, child
batches, child commits and drops happen at whatever depth — every other reader (`Store::get_ser`,
`exists`, `iter`) sees exactly the old committed state. -/
theorem invisible_until_outer_commit (st : St) (ops : List Op) (h : NoOuterCommit st ops) :
    (run st ops).committed = st.committed ∧
    (∀ k, sget (run st ops) k = sget st k) ∧
    (∀ k, sexists (run st ops) k = sexists st k) ∧
    (∀ db, siter (run st ops) db = siter st db) := by
  have hc := run_committed ops st h
  refine ⟨hc, ?_, ?_, ?_⟩
  · intro k; simp [sget, hc]
  · intro k; simp [sexists, sget, hc]
  · intro db; simp [siter, hc]

/-- A top-level batch with body `p`: at *every* point before its final commit/drop (every prefix of
`begin; p`), outside readers see the old committed state. -/
theorem isolation (p : Prog) (st : St) (h : st.stack = []) (ops₁ ops₂ : List Op)
    (hsplit : Op.begin :: p.flat = ops₁ ++ ops₂) :
    (run st ops₁).committed = st.committed := by
  have hno : NoOuterCommit st (Op.begin :: p.flat) := by
    refine ⟨by simp, ?_⟩
    exact noOuter_flat p _ [] [] (by simp [step, h])
  rw [hsplit, noOuter_append] at hno
  exact run_committed ops₁ st hno.1

example : NoOuterCommit {} [.begin, .put (0, [1]) [2], .child, .del (0, [1]), .commit] := by
  simp [NoOuterCommit, step]

/-! ## atomic publication: commit makes everything visible at once -/

/-- The outermost commit of a batch with body `p` (any size, any nesting) replaces the committed
map `m` by `p.sem m` — the composition of all writes of the batch and of all its committed
descendants — in a single step, and leaves no open transaction. -/
theorem commit_publishes_all (p : Prog) (st : St) (h : st.stack = []) :
    den (run st (txn p true)).committed = p.sem (den st.committed) ∧
    (run st (txn p true)).stack = [] := by
  have h1 : step st .begin = { st with stack := [[]] } := by simp [step, h]
  simp only [txn, run_cons, run_append, h1]
  rw [run_flat p _ [] [] rfl]
  simp only [if_true, run, List.foldl, step, List.append_nil]
  refine ⟨?_, ?_⟩
  · rw [den_applyOv, ovF_writes]
  · trivial

/-- The same for readers: after the commit every reader sees `p.sem` of the old state. -/
theorem commit_visible_to_all (p : Prog) (st : St) (h : st.stack = []) (k : Key) :
    sget (run st (txn p true)) k = p.sem (den st.committed) k := by
  have := (commit_publishes_all p st h).1
  exact congrFun this k

/-- Before that single step nothing of the batch is published, after it everything is: there is
no intermediate committed state (the states passed through are exactly `isolation`'s). -/
theorem commit_is_one_step (p : Prog) (st : St) (h : st.stack = []) :
    (run st (Op.begin :: p.flat)).committed = st.committed ∧
    den (step (run st (Op.begin :: p.flat)) .commit).committed = p.sem (den st.committed) := by
  refine ⟨isolation p st h _ [] (by simp), ?_⟩
  have := (commit_publishes_all p st h).1
  simpa [txn, run_cons, run_append, run] using this

example : (run {} (txn (.put (0, [1]) [9] (.child (.del (0, [1]) .done) false .done)) true)).committed
    = [((0, [1]), [9])] := by decide

/-! ## dropping leaves no trace -/

/-- Dropping a top-level batch — whatever it did, at whatever depth — restores the exact state. -/
theorem dropped_batch_no_trace (p : Prog) (st : St) (h : st.stack = []) :
    run st (txn p false) = st := by
  have h1 : step st .begin = { st with stack := [[]] } := by simp [step, h]
  simp only [txn, run_cons, run_append, h1]
  rw [run_flat p _ [] [] rfl]
  cases st
  simp_all [run, step]

/-- Dropping a child batch — at any depth, whatever it and its own children did — restores the
exact state of its parent (committed tables, the parent's pending writes, all ancestors). -/
theorem dropped_child_no_trace (b : Prog) (st : St) (h : st.stack ≠ []) :
    run st (Op.child :: (b.flat ++ [Op.drop])) = st := by
  cases hs : st.stack with
  | nil => exact absurd hs h
  | cons o s =>
    have h1 : step st .child = { st with stack := [] :: o :: s } := by simp [step, hs]
    simp only [run_cons, run_append, h1]
    rw [run_flat b _ [] (o :: s) rfl]
    cases st
    simp_all [run, step]

/-- A committed child merges into its parent only: the parent's view becomes `b.sem` of its old
view, the committed tables (hence every outside reader) are untouched. -/
theorem committed_child_merges_into_parent (b : Prog) (st : St) (h : st.stack ≠ []) :
    (fun k => bget (run st (Op.child :: (b.flat ++ [Op.commit]))) k) = b.sem (fun k => bget st k) ∧
    (run st (Op.child :: (b.flat ++ [Op.commit]))).committed = st.committed ∧
    (run st (Op.child :: (b.flat ++ [Op.commit]))).stack.length = st.stack.length := by
  have hp := read_your_writes (.child b true .done) st h
  have hf : (Prog.child b true .done).flat = Op.child :: (b.flat ++ [Op.commit]) := by
    simp [Prog.flat]
  rw [hf] at hp
  refine ⟨by simpa [Prog.sem] using hp, ?_, ?_⟩
  · cases hs : st.stack with
    | nil => exact absurd hs h
    | cons o s =>
      rw [← hf, run_flat _ st o s hs]
  · cases hs : st.stack with
    | nil => exact absurd hs h
    | cons o s =>
      rw [← hf, run_flat _ st o s hs]
      simp

/-! ## a child's writes take effect iff every enclosing batch commits -/

/-- A write occurrence of a batch body is among the writes the body hands to its parent iff
*all* child batches enclosing it inside the body commit. -/
theorem survives_iff_all_ancestors_commit (p : Prog) (w : W) :
    w ∈ p.writes ↔ (w, true) ∈ p.occs :=
  mem_writes_iff p w

/-- … and the outermost level: the writes handed up are published iff the top-level batch
commits (`commit_publishes_all`), else none is (`dropped_batch_no_trace`).  In particular a
committed child of a dropped parent leaves no trace at all: -/
theorem committed_child_of_dropped_parent (b rest : Prog) (st : St) (h : st.stack = []) :
    run st (txn (.child b true rest) false) = st :=
  dropped_batch_no_trace _ st h

/-- a dropped child contributes nothing even when everything around it commits -/
theorem dropped_child_contributes_nothing (b rest : Prog) (m : Map) :
    (Prog.child b false rest).sem m = rest.sem m := by
  simp [Prog.sem]

example : ((3, [1]), some [5]) ∈ (Prog.child (.child (.put (3, [1]) [5] .done) true .done) true .done).writes := by
  decide
example : ((3, [1]), some [5]) ∉ (Prog.child (.child (.put (3, [1]) [5] .done) true .done) false .done).writes := by
  decide

/-! ## iterators -/

/-- Sortedness of the committed tables is preserved by every operation sequence (so the
hypothesis of the iterator theorems holds in every reachable state, `St` starts empty). -/
theorem wf_run (st : St) (ops : List Op) (h : Sorted st.committed) :
    Sorted (run st ops).committed :=
  sorted_run ops st h

example : Sorted ({} : St).committed := sorted_nil

/-- `Batch::iter` (with the paging of `DatabaseIterator`, page size 10 000 or any other positive
size) yields exactly the keys of database `db` visible to the batch, each with the value the batch
reads, in strictly increasing byte order (hence each key once). -/
theorem batch_iter_correct (st : St) (h : Sorted st.committed) (db : Nat) :
    (∀ kb v, (kb, v) ∈ biter st db ↔ bget st (db, kb) = some v) ∧
    (biter st db).Pairwise (fun a b => bytesLt a.1 b.1 = true) := by
  have hv : Sorted (view st) := sorted_applyOv _ _ h
  have he : biter st db = iterSpec (view st) db := iterPaged_eq_spec PAGE (by decide) _ hv db
  rw [he]
  refine ⟨?_, iterSpec_sorted _ hv db⟩
  intro kb v
  rw [mem_iterSpec _ hv, bget_eq_view]

/-- `Store::iter` yields exactly the committed keys of `db`, sorted, each once — and by
`invisible_until_outer_commit` nothing of any open batch. -/
theorem store_iter_correct (st : St) (h : Sorted st.committed) (db : Nat) :
    (∀ kb v, (kb, v) ∈ siter st db ↔ sget st (db, kb) = some v) ∧
    (siter st db).Pairwise (fun a b => bytesLt a.1 b.1 = true) := by
  have he : siter st db = iterSpec st.committed db := iterPaged_eq_spec PAGE (by decide) _ h db
  rw [he]
  exact ⟨fun kb v => mem_iterSpec _ h db kb v, iterSpec_sorted _ h db⟩

/-- the paging lemma by itself: for every page size > 0 the skip/take loop re-reading keys at
`skip_total` visits the snapshot's key list exactly once in order -/
theorem paging_exact (page : Nat) (hp : 0 < page) (t : Tbl) (h : Sorted t) (db : Nat) :
    iterPaged page t db = iterSpec t db :=
  iterPaged_eq_spec page hp t h db

example : iterPaged 2 [((1, [1]), [10]), ((1, [1, 0]), [11]), ((1, [2]), [12]), ((2, [0]), [13])] 1
    = [([1], [10]), ([1, 0], [11]), ([2], [12])] := by decide

/-! ## process death -/

/-- Death at any point before the outermost commit (any prefix of `begin; p`): the reopened store
holds exactly the old committed state — none of the batch. -/
theorem crash_before_commit (p : Prog) (st : St) (h : st.stack = []) (ops₁ ops₂ : List Op)
    (hsplit : Op.begin :: p.flat = ops₁ ++ ops₂) :
    crash (run st ops₁) = st := by
  have := isolation p st h ops₁ ops₂ hsplit
  cases st
  simp_all [crash]

/-- Death after the commit returned: the reopened store holds all of the batch. -/
theorem crash_after_commit (p : Prog) (st : St) (h : st.stack = []) :
    den (crash (run st (txn p true))).committed = p.sem (den st.committed) := by
  simpa [crash] using (commit_publishes_all p st h).1

/-! ## the resize gate -/

/-- In every reachable state of the gate (`enter_tx`, `TxCounter::drop`, `maybe_resize`, the resizer
thread; any number of threads, any interleaving of the atomic transitions):
* while `env.resize` runs no transaction is open on any thread,
* while `env.resize` runs no `enter_tx` can succeed, not even a nested one,
* while `resizing` is set no thread without an open transaction can start one,
* the global counter equals the sum of the per-thread counters. -/
theorem resize_gate_safe (threads mapSize : Nat) (acts : List GAct) :
    let g := gateRun (gateInit threads mapSize) acts
    (∀ n, g.phase = .running n → g.openTxs = 0 ∧ ∀ t, cntOf t g.cnt = 0) ∧
    (∀ n t, g.phase = .running n → gateEnabled g (.enter t) = false) ∧
    (∀ t, g.resizing = true → cntOf t g.cnt = 0 → gateEnabled g (.enter t) = false) ∧
    g.openTxs = g.cnt.sum := by
  intro g
  have inv : GateInv g := gateInv_run acts _ (gateInv_init threads mapSize)
  have hquiet : ∀ n, g.phase = .running n → g.openTxs = 0 ∧ ∀ t, cntOf t g.cnt = 0 := by
    intro n hn
    have h0 := inv.quiet n hn
    exact ⟨h0, fun t => cntOf_eq_zero_of_sum t g.cnt (by rw [← inv.sum]; exact h0)⟩
  refine ⟨hquiet, ?_, ?_, inv.sum⟩
  · intro n t hn
    have hr := (inv.flags (by rw [hn]; simp)).1
    have hz := (hquiet n hn).2 t
    simp [gateEnabled, hr, hz]
  · intro t hr hz
    simp [gateEnabled, hr, hz]

/-- non-vacuity: a run in which a resize is requested while a reader holds a transaction, waits for
it, runs, and a blocked thread enters afterwards -/
example :
    let g := gateRun (gateInit 2 1048576)
      [.enter 0, .request 2097152, .enter 1, .enter 0, .exit 0, .beginResize, .exit 0, .beginResize]
    g.phase = .running 2097152 ∧ g.openTxs = 0 ∧ g.cnt = [0, 0] := by decide

example : (gateRun (gateInit 2 1048576)
      [.enter 0, .request 2097152, .exit 0, .beginResize, .enter 1, .endResize, .enter 1]).mapSize = 2097152 ∧
    (gateRun (gateInit 2 1048576)
      [.enter 0, .request 2097152, .exit 0, .beginResize, .enter 1, .endResize, .enter 1]).cnt = [0, 1] := by
  decide

/-- `needs_resize` (thresholds read as exact rationals): whenever it asks for a resize, the new
map is strictly larger than the old one and the used space is at most 65 % of it. -/
theorem needs_resize_grows (mapSize used chunk newSize : Nat) (hc : 0 < chunk)
    (h : needsResize mapSize used chunk = (true, newSize)) :
    mapSize < newSize ∧ (chunk ≤ mapSize → used * 100 ≤ 65 * newSize) := by
  unfold needsResize at h
  simp only at h
  by_cases hr : (decide (used * 10 > 9 * mapSize) || decide (mapSize < chunk)) = true
  · simp only [hr, Bool.not_true, Bool.false_eq_true, if_false] at h
    by_cases hm : mapSize < chunk
    · simp only [hm, if_true, Prod.mk.injEq, true_and] at h
      subst h
      exact ⟨hm, fun hle => by omega⟩
    · simp only [hm, if_false, Prod.mk.injEq, true_and] at h
      have hu : used * 10 > 9 * mapSize := by
        simp only [Bool.or_eq_true, decide_eq_true_eq] at hr
        rcases hr with hr | hr
        · exact hr
        · exact absurd hr hm
      have hmod1 := Nat.mod_lt mapSize hc
      have hmod2 := Nat.mod_le mapSize chunk
      generalize mapSize % chunk = r at *
      have hfuel : used * 2 + 1 = (used * 2) + 1 := rfl
      rw [hfuel] at h
      simp only [growLoop] at h
      have hgt : used * 100 > 65 * (mapSize - r) := by omega
      simp only [hgt, if_true] at h
      subst h
      refine ⟨?_, fun _ => ?_⟩
      · have := growLoop_ge used chunk (used * 2) (mapSize - r + chunk)
        omega
      · apply growLoop_target
        have : used * 2 ≤ used * 2 * chunk := Nat.le_mul_of_pos_right _ hc
        omega
  · simp [hr] at h

example : needsResize 1048576 1000000 1048576 = (true, 2097152) := by decide


/-! ## the resize protocol with its guard flags: one call of `maybe_resize`, every branch -/

/-- In every reachable state of the resize protocol (any sequence of transactions opened and
closed, calls of `maybe_resize` with any usage, polls of the waiter thread) and for every further
call of `maybe_resize`, whatever branch it takes:
* *guard busy* — the guard is held by a live waiter thread (not leaked) and the call changes nothing;
* *not needed* / *immediate* — on return the guard `resize_checking` and the flag `resizing` are free;
* *deferred* ("transactions are open") — exactly one waiter with the decided size is pending, it
  holds guard and flag, and as soon as no transaction is open one poll of it resizes to that size
  and frees both;
and in general guard and flag are held exactly while a waiter is pending — no path leaks them. -/
theorem resize_guard_released (mapSize chunk : Nat) (hc : 0 < chunk) (acts : List RAct) (used : Nat) :
    let e := rrun (rinit mapSize chunk) acts
    let r := maybeResize e used
    (e.checking = e.pending.isSome ∧ e.resizing = e.pending.isSome) ∧
    (r.2 = .guardBusy → e.pending.isSome = true ∧ r.1 = e) ∧
    (r.2 = .notNeeded → r.1.checking = false ∧ r.1.resizing = false ∧ r.1.pending = none ∧ r.1.mapSize = e.mapSize) ∧
    (∀ n, r.2 = .immediate n → r.1.checking = false ∧ r.1.resizing = false ∧ r.1.pending = none ∧
        r.1.mapSize = n ∧ e.mapSize < n) ∧
    (∀ n, r.2 = .deferred n → r.1.pending = some n ∧ r.1.checking = true ∧ r.1.resizing = true ∧
        e.mapSize < n ∧ e.openTxs ≠ 0 ∧
        ∀ e' : REnv, e'.pending = some n → e'.openTxs = 0 →
          (waiterStep e').checking = false ∧ (waiterStep e').resizing = false ∧
          (waiterStep e').pending = none ∧ (waiterStep e').mapSize = n) := by
  intro e r
  have inv : RInv e := rinv_run acts _ (rinv_init mapSize chunk hc)
  have hr : r = maybeResize e used := rfl
  refine ⟨⟨inv.guard, inv.flag⟩, ?_⟩
  rcases maybeResize_cases e used with ⟨hck, heq⟩ | ⟨hck, hn, heq⟩ | ⟨hck, hn, ho, heq⟩ | ⟨hck, hn, ho, heq⟩
  · rw [hr, heq]
    refine ⟨fun _ => ⟨by rw [← inv.guard]; exact hck, rfl⟩, ?_, ?_, ?_⟩ <;> intros <;> simp_all
  · obtain ⟨hp, hz⟩ := pending_none_of_unchecked e inv hck
    rw [hr, heq]
    refine ⟨?_, fun _ => ⟨rfl, hz, hp, rfl⟩, ?_, ?_⟩ <;> intros <;> simp_all
  · rw [hr, heq]
    refine ⟨?_, ?_, ?_, ?_⟩
    · intro h; simp at h
    · intro h; simp at h
    · intro n h; simp at h
    · intro n h
      simp only [Branch.deferred.injEq] at h
      refine ⟨by simp [h], rfl, rfl, by rw [← h]; exact needsResize_lt _ _ _ inv.chunk hn, ho, ?_⟩
      intro e' hp' ho'
      simp [waiterStep, hp', ho']
  · obtain ⟨hp, _⟩ := pending_none_of_unchecked e inv hck
    rw [hr, heq]
    refine ⟨?_, ?_, ?_, ?_⟩
    · intro h; simp at h
    · intro h; simp at h
    · intro n h
      simp only [Branch.immediate.injEq] at h
      exact ⟨rfl, rfl, hp, h, by rw [← h]; exact needsResize_lt _ _ _ inv.chunk hn⟩
    · intro n h; simp at h

/-- A resize that was postponed (the caller of `Store::batch()` held an iterator of its own, or
the decision was simply not taken yet) happens at the next opportunity: in any reachable state
in which no transaction is open and the usage is above the threshold for the current map, the
next `Store::batch()` — the waiter thread finishing first if one is pending — leaves a strictly
larger map with guard and flag free and no waiter pending. -/
theorem postponed_resize_happens (mapSize chunk : Nat) (hc : 0 < chunk) (acts : List RAct) (used : Nat) :
    let e := rrun (rinit mapSize chunk) acts
    e.openTxs = 0 → (needsResize e.mapSize used e.chunk).1 = true →
    let e2 := (maybeResize (waiterStep e) used).1
    e.mapSize < e2.mapSize ∧ e2.checking = false ∧ e2.resizing = false ∧ e2.pending = none := by
  intro e ho hr e2
  have inv : RInv e := rinv_run acts _ (rinv_init mapSize chunk hc)
  have invw : RInv (waiterStep e) := rinv_waiter e inv
  -- after the waiter's poll nothing is pending and the map is at least as large, larger if it was pending
  have hw : (waiterStep e).pending = none ∧ (waiterStep e).checking = false ∧ (waiterStep e).openTxs = 0 ∧
      (waiterStep e).chunk = e.chunk ∧
      ((waiterStep e).mapSize = e.mapSize ∨ e.mapSize < (waiterStep e).mapSize) := by
    cases hp : e.pending with
    | some n =>
      have hlt := inv.grows n hp
      simp [waiterStep, hp, ho, hlt]
    | none =>
      have hck : e.checking = false := by rw [inv.guard, hp]; rfl
      simp [waiterStep, hp, ho, hck]
  obtain ⟨hwp, hwc, hwo, hwk, hwm⟩ := hw
  have he2 : e2 = (maybeResize (waiterStep e) used).1 := rfl
  rcases maybeResize_cases (waiterStep e) used with ⟨hck, _⟩ | ⟨_, hn, heq⟩ | ⟨_, _, ho', _⟩ | ⟨_, hn, _, heq⟩
  · rw [hwc] at hck; simp at hck
  · -- not needed for the map the waiter left: then the waiter has enlarged it
    rw [he2, heq]
    rcases hwm with hm | hm
    · rw [hm, hwk] at hn; rw [hn] at hr; simp at hr
    · exact ⟨hm, rfl, (pending_none_of_unchecked _ invw hwc).2, hwp⟩
  · exact absurd hwo ho'
  · rw [he2, heq]
    have := needsResize_lt _ _ _ invw.chunk hn
    refine ⟨?_, rfl, rfl, hwp⟩
    rcases hwm with hm | hm
    · simp only; omega
    · simp only; omega

/-- non-vacuity: the caller holds an iterator of its own when the resize falls due: deferred; it
commits and drops the iterator; the waiter resizes; the next batch finds guard and flag free; a
batch issued while the waiter is still pending finds the guard busy -/
example :
    let e0 := rrun (rinit 1048576 1048576) [.openTx]
    let r := maybeResize e0 1000000
    r.2 = .deferred 2097152 ∧ r.1.checking = true ∧ r.1.resizing = true ∧
    (maybeResize r.1 1010000).2 = .guardBusy ∧
    rrun r.1 [.closeTx, .waiter] = rinit 2097152 1048576 ∧
    (maybeResize (rrun r.1 [.closeTx, .waiter]) 1010000).2 = .notNeeded ∧
    batchStart (rinit 1048576 1048576) 1000000 0 1 = rinit 2097152 1048576 ∧
    (batchStart (rinit 1048576 1048576) 1000000 1 1).mapSize = 1048576 ∧
    (settle (batchStart (rinit 1048576 1048576) 1000000 1 1)).mapSize = 2097152 := by decide


/-! ## per-thread nesting depth of store transactions (`THREAD_TX_COUNTS`) while a resize is pending

Model `Model/TxCount.lean` (shared with C17's counter theorems): `enter_tx` lets a thread pass
while a resize is pending iff the thread's own nesting depth is positive. -/
section nesting
open TxCount

/-- After any valid interleaving of the atomic alphabet (enters, leaves, resize requests, resizes;
any number of threads, any nesting), the nesting depth the store keeps for a thread equals what
the schedule says the thread has open (its enters minus its leaves) — so a thread counts as
"inside a transaction" exactly while it holds one: completing nested operations (a lookup, a
nested iterator, a child batch) under a long-lived transaction leaves it inside — and the global
counter is the sum of the depths. -/
theorem nested_depth_tracks_open (threads : Nat) (acts : List Act) (s : TxCount.St)
    (hat : ∀ a ∈ acts, a.atomic = true) (hrun : runChecked (TxCount.init threads) acts = some s) :
    (∀ t, depth s t = opensOf t acts) ∧
    (∀ t, 0 < depth s t ↔ 0 < opensOf t acts) ∧
    s.counter = openTotal s := by
  have hd : ∀ t, depth s t = opensOf t acts := by
    intro t
    rw [depth_run acts _ s t hat hrun, depth_init]
    rfl
  exact ⟨hd, fun t => by rw [hd t], (inv_run acts _ s (inv_init threads) hat hrun).count⟩

/-- A nested operation completed under a long-lived transaction does not change the depth:
`enter t; leave t` appended to any valid atomic schedule in which `t` is inside a transaction is
again valid (also while a resize is pending) and leaves every thread's depth as it was. -/
theorem nested_op_keeps_depth (threads : Nat) (acts : List Act) (s : TxCount.St) (t : Nat)
    (hat : ∀ a ∈ acts, a.atomic = true) (hrun : runChecked (TxCount.init threads) acts = some s)
    (ht : t < threads) (hin : 0 < depth s t) :
    ∃ s', runChecked (TxCount.init threads) (acts ++ [.enter t, .leave t]) = some s' ∧
      (∀ u, depth s' u = depth s u) ∧ s'.counter = s.counter ∧ s'.resizing = s.resizing := by
  have hlen : s.ths.length = threads := by
    rw [length_run acts _ s hrun]; simp [TxCount.init]
  have inv := inv_run acts _ s (inv_init threads) hat hrun
  have hreg : (thOf t s.ths).reg = none := inv.noreg _ (thOf_mem t s.ths (by omega))
  have he1 : enabled s (.enter t) = true := by
    simp only [enabled, Bool.and_eq_true, decide_eq_true_eq, Bool.or_eq_true, Bool.not_eq_true']
    exact ⟨by omega, Or.inr hin⟩
  have hth : thOf t (TxCount.step s (.enter t)).ths = { thOf t s.ths with opened := (thOf t s.ths).opened + 1 } := by
    simp only [TxCount.step]; exact thOf_setTh_same _ _ _ (by omega)
  have he2 : enabled (TxCount.step s (.enter t)) (.leave t) = true := by
    simp only [enabled, hth, length_step, Bool.and_eq_true, decide_eq_true_eq]
    exact ⟨⟨by omega, by omega⟩, by simp [hreg]⟩
  have hrun2 : ∀ (l : List Act) (s0 : TxCount.St), runChecked s0 l = some s →
      runChecked s0 (l ++ [.enter t, .leave t]) = some (TxCount.step (TxCount.step s (.enter t)) (.leave t)) := by
    intro l
    induction l with
    | nil =>
      intro s0 h
      simp only [runChecked, Option.some.injEq] at h
      subst h
      simp [runChecked, he1, he2]
    | cons a r ih =>
      intro s0 h
      simp only [runChecked, List.cons_append] at h ⊢
      by_cases he : enabled s0 a = true
      · simp only [he, if_true] at h ⊢
        exact ih _ h
      · simp [he] at h
  refine ⟨_, hrun2 acts _ hrun, ?_, ?_, ?_⟩
  · intro u
    have h1 := depth_step s (.enter t) u rfl he1
    have h2 := depth_step (TxCount.step s (.enter t)) (.leave t) u rfl he2
    rw [h2, h1]
    by_cases hu : t = u <;> simp [opensFrom, hu]
  · have hc1 : (TxCount.step s (.enter t)).counter = s.counter + 1 := by simp [TxCount.step]
    have hc2 : (TxCount.step (TxCount.step s (.enter t)) (.leave t)).counter = (TxCount.step s (.enter t)).counter - 1 := by simp [TxCount.step]
    omega
  · simp [TxCount.step]

/-- A thread that is inside a transaction never waits on a resize — in particular not on one it is
itself blocking; who does wait (its `enter_tx` is not enabled) holds nothing, so it is not a
blocker; and a blocked resize can always make progress: whenever a resize is pending and the
counter is not 0, some thread is inside a transaction and both its next nested operation and its
leave are enabled.  Hence the protocol with exact depth bookkeeping has no state in which a thread
waits for itself. -/
theorem holder_never_waits (threads : Nat) (acts : List Act) (s : TxCount.St)
    (hat : ∀ a ∈ acts, a.atomic = true) (hrun : runChecked (TxCount.init threads) acts = some s) :
    (∀ t, t < threads → 0 < depth s t → enabled s (.enter t) = true ∧ enabled s (.leave t) = true) ∧
    (∀ t, t < threads → enabled s (.enter t) = false → depth s t = 0 ∧ s.resizing = true) ∧
    (s.resizing = true → s.counter ≠ 0 →
      ∃ t, t < threads ∧ 0 < depth s t ∧ enabled s (.enter t) = true ∧ enabled s (.leave t) = true) := by
  have hlen : s.ths.length = threads := by
    rw [length_run acts _ s hrun]; simp [TxCount.init]
  have inv := inv_run acts _ s (inv_init threads) hat hrun
  have hholder : ∀ t, t < threads → 0 < depth s t → enabled s (.enter t) = true ∧ enabled s (.leave t) = true := by
    intro t ht hd
    have hreg : (thOf t s.ths).reg = none := inv.noreg _ (thOf_mem t s.ths (by omega))
    simp only [depth] at hd
    simp only [enabled, hlen, Bool.and_eq_true, decide_eq_true_eq, Bool.or_eq_true, Bool.not_eq_true']
    exact ⟨⟨ht, Or.inr hd⟩, ⟨ht, hd⟩, by simp [hreg]⟩
  refine ⟨hholder, ?_, ?_⟩
  · intro t ht he
    simp only [enabled, hlen, ht, decide_true, Bool.true_and, Bool.or_eq_false_iff, Bool.not_eq_false',
      decide_eq_false_iff_not, Nat.not_lt, Nat.le_zero] at he
    exact ⟨he.2, he.1⟩
  · intro _ hc
    have hpos : 0 < total s.ths := by rw [← inv.count]; omega
    obtain ⟨t, ht, hp⟩ := exists_pos_of_total_pos s.ths hpos
    exact ⟨t, by omega, hp, hholder t (by omega) hp⟩

/-- Kernel-checked witness of what inexact depth bookkeeping does: a thread opens an iterator,
completes ONE lookup under it, and that lookup's leave forgets the nesting (drops the thread's
entry instead of counting it down).  The thread still holds the iterator (counter 1) but counts
as outside.  Another thread's `batch()` finds the map above the threshold and requests a resize:
now every action of every thread is disabled — the holder's next lookup waits for the resize, the
resize waits for the holder — for ever. -/
theorem lost_nesting_witness :
    runChecked (TxCount.init 2) [.enter 0, .enter 0, .leaveForget 0, .request] = some stuckState ∧
    stuckState.counter = 1 ∧ depth stuckState 0 = 0 ∧ (∀ a, enabled stuckState a = false) ∧
    (∃ s, runChecked (TxCount.init 2) [.enter 0, .enter 0, .leave 0, .request, .enter 0, .leave 0, .leave 0, .resize] = some s ∧
      s.counter = 0 ∧ s.resizes = 1) := by
  refine ⟨by decide, rfl, rfl, stuckState_dead,
    ⟨{ counter := 0, resizing := false, resizes := 1, ths := [{}, {}] }, by decide, rfl, rfl⟩⟩

/-- non-vacuity (the schedules of the harness cases `NestOther` and `NestSelf`): own iterator,
lookups, the other thread's / the own `batch()` at the threshold, more lookups, iterator dropped,
resize, the batch -/
example : replay 2 [.enter 0, .enter 0, .leave 0, .enter 0, .leave 0, .request, .enter 0, .leave 0, .enter 0,
      .enter 0, .leave 0, .leave 0, .leave 0, .resize, .enter 1, .leave 1] = "completed:resizes=1" ∧
    replay 2 [.enter 0, .enter 0, .leave 0, .request, .enter 0, .enter 0, .leave 0, .leave 0, .enter 0, .leave 0,
      .leave 0, .resize] = "completed:resizes=1" := by decide

end nesting



/-! ## which operations the resize waits for; several handles on one environment -/
section brackets
open TxCount

/-- Every store operation that opens an LMDB transaction of its own — `get_ser` with and without a
deserialisation mode (both go through `get_with`), `exists`, `iter` (until the iterator is
dropped), `batch()` (until commit / drop) — is bracketed: its counter events on thread `t` start
with `enter t` and end with `leave t`; batch reads and child batches have no counter of their own
(they live inside their batch's bracket). -/
theorem every_read_is_bracketed (t : Nat) (op : StoreOp) (h : op.ownTxn = true) :
    ∃ mid, op.trace t = Act.enter t :: mid ++ [Act.leave t] := by
  cases op with
  | getSer => exact ⟨[], rfl⟩
  | getSerMode => exact ⟨[], rfl⟩
  | existsKey => exact ⟨[], rfl⟩
  | iter body => exact ⟨body, rfl⟩
  | batch body => exact ⟨body, rfl⟩
  | batchRead => simp [StoreOp.ownTxn] at h
  | childBatch => simp [StoreOp.ownTxn] at h

/-- … and while any bracketed operation is in flight no resize can run: in every state reachable
by the atomic protocol, right after an `enter` (of any thread, nested or not) and as long as the
counter has not returned to 0, the resize transition is disabled — `env.resize` never remaps the
file under a read that is between its `enter_tx` and the drop of its `TxCounter`. -/
theorem no_resize_while_read_in_flight (threads : Nat) (acts : List Act) (s : TxCount.St) (t : Nat)
    (hrun : runChecked (TxCount.init threads) acts = some s)
    (he : enabled s (.enter t) = true) :
    enabled (TxCount.step s (.enter t)) .resize = false ∧
    0 < depth (TxCount.step s (.enter t)) t ∧
    (∀ s', s'.counter ≠ 0 → enabled s' .resize = false) := by
  have hlen : s.ths.length = threads := by
    rw [length_run acts _ s hrun]; simp [TxCount.init]
  simp only [enabled, Bool.and_eq_true, decide_eq_true_eq] at he
  refine ⟨by simp [enabled, TxCount.step], ?_, fun s' h => by simp [enabled, h]⟩
  simp only [depth, TxCount.step, thOf_setTh_same _ _ _ he.1]
  omega

end brackets

/-- The resize decision is a function of the shared environment's state only: a history in which
every action is labelled with the `Store` handle that performed it (any number of handles, any
assignment) leaves exactly the state of the unlabelled history — there is no per-handle history in
the protocol; in particular, whichever handle's `batch()` comes next when the usage is above the
threshold and nothing is open, whoever committed last, the map is enlarged
(`postponed_resize_happens`). -/
theorem resize_decision_is_env_state_only (e : REnv) (l : List (Nat × RAct)) (relabel : Nat → Nat) :
    hrun e l = rrun e (l.map Prod.snd) ∧
    hrun e (l.map (fun x => (relabel x.1, x.2))) = hrun e l := by
  have h1 : ∀ (l : List (Nat × RAct)) (e : REnv), hrun e l = rrun e (l.map Prod.snd) := by
    intro l
    induction l with
    | nil => intro e; rfl
    | cons x r ih => intro e; simp only [hrun, rrun, List.foldl, List.map_cons] at ih ⊢; exact ih _
  refine ⟨h1 l e, ?_⟩
  rw [h1, h1, List.map_map]
  rfl

/-- non-vacuity: handle 1 commits past the threshold (its own `batch()` calls found the map still
below it), handle 0 — whose last batch was long ago — calls `batch()`: resized -/
example : (hrun (rinit 1048576 1048576) [(1, .call 500000), (1, .call 800000), (0, .call 980000)]).mapSize = 2097152 ∧
    (hrun (rinit 1048576 1048576) [(7, .call 500000), (7, .call 800000), (7, .call 980000)]).mapSize = 2097152 := by decide

/-! ## growth without bound: batch after batch through any number of resizes -/

/-- one `Store::batch()` with nothing open keeps the growth invariant and establishes it for the
usage it found -/
theorem grow_step (chunk : Nat) (hc : 0 < chunk) (e : REnv) (used u0 : Nat) (hk : e.chunk = chunk)
    (inv : GrowOk chunk u0 e) :
    let e1 := (maybeResize { e with openTxs := 0 } used).1
    GrowOk chunk used e1 ∧ e1.chunk = chunk ∧ e.mapSize ≤ e1.mapSize ∧
    (used * 10 > 9 * e.mapSize → e.mapSize < e1.mapSize) := by
  subst hk
  obtain ⟨hal, hge, _, hck, hrz, hpd⟩ := inv
  intro e1
  have he1 : e1 = (maybeResize { e with openTxs := 0 } used).1 := rfl
  rcases maybeResize_cases { e with openTxs := 0 } used with ⟨hb, _⟩ | ⟨_, hn, heq⟩ | ⟨_, _, ho, _⟩ | ⟨_, hn, _, heq⟩
  · simp [hck] at hb
  · rw [he1, heq]
    have hf := needsResize_false e.mapSize used e.chunk hn
    exact ⟨⟨hal, hge, hf.2, rfl, hrz, hpd⟩, rfl, Nat.le_refl _, fun h => by have := hf.2; dsimp only at h ⊢; omega⟩
  · simp at ho
  · rw [he1, heq]
    have hn' : (needsResize e.mapSize used e.chunk).1 = true := hn
    obtain ⟨N, hN⟩ : ∃ N, (needsResize e.mapSize used e.chunk).2 = N := ⟨_, rfl⟩
    have hlt := needsResize_lt e.mapSize used e.chunk hc hn'
    have hmod := needsResize_mod e.mapSize used e.chunk hn'
    have htarget := (needs_resize_grows e.mapSize used e.chunk N hc (Prod.ext hn' hN)).2 hge
    rw [hN] at hlt hmod ⊢
    refine ⟨⟨hmod, ?_, ?_, rfl, rfl, hpd⟩, rfl, ?_, fun _ => hlt⟩
    · show e.chunk ≤ N; omega
    · show used * 10 ≤ 9 * N; omega
    · show e.mapSize ≤ N; omega

/-- Growth without bound.  Start from a map that is a whole number of allocation chunks (the chunk
a multiple of the OS page size) with the resize flags free, and issue ANY number of batches with
nothing else open, each finding ANY usage.  Then after every one of them: the map is still a whole
number of chunks, hence page-aligned; it never shrank; the usage that batch found is at most 90 %
of it (at most 65 % if it was enlarged) — i.e. the map `needs_resize` leaves is large enough for
what is there, however many resizes lie behind; guard and flag are free; and whenever the usage
found was above the threshold the map is strictly larger than before that batch. -/
theorem unbounded_growth_stays_aligned_and_sufficient (chunk pageSize : Nat) (hc : 0 < chunk)
    (hp : chunk % pageSize = 0) :
    ∀ (useds : List Nat) (e : REnv) (u0 : Nat), e.chunk = chunk → GrowOk chunk u0 e →
      ∀ (pre : List Nat) (u : Nat), useds = pre ++ [u] →
        let before := growRun e pre
        let after := growRun e useds
        after.mapSize % chunk = 0 ∧ after.mapSize % pageSize = 0 ∧ chunk ≤ after.mapSize ∧
        e.mapSize ≤ before.mapSize ∧ before.mapSize ≤ after.mapSize ∧
        u * 10 ≤ 9 * after.mapSize ∧
        (u * 10 > 9 * before.mapSize → before.mapSize < after.mapSize) ∧
        after.checking = false ∧ after.resizing = false ∧ after.pending = none := by
  intro useds
  induction useds with
  | nil => intro e u0 _ _ pre u h; simp at h
  | cons a r ih =>
    intro e u0 hk inv pre u hsplit
    have hstep := grow_step chunk hc e a u0 hk inv
    simp only at hstep
    obtain ⟨inv1, hk1, hmono, hgrow⟩ := hstep
    cases pre with
    | nil =>
      simp only [List.nil_append, List.cons.injEq] at hsplit
      obtain ⟨rfl, rfl⟩ := hsplit
      simp only [growRun]
      obtain ⟨hal, hge, hsuf, hck, hrz, hpd⟩ := inv1
      refine ⟨hal, ?_, hge, Nat.le_refl _, hmono, hsuf, hgrow, hck, hrz, hpd⟩
      have hd : chunk ∣ _ := Nat.dvd_of_mod_eq_zero hal
      exact Nat.mod_eq_zero_of_dvd (Nat.dvd_trans (Nat.dvd_of_mod_eq_zero hp) hd)
    | cons b pre' =>
      simp only [List.cons_append, List.cons.injEq] at hsplit
      obtain ⟨rfl, hr⟩ := hsplit
      have := ih _ a hk1 inv1 pre' u hr
      simp only [growRun] at this ⊢
      obtain ⟨h1, h2, h3, h4, h5, h6, h7, h8⟩ := this
      exact ⟨h1, h2, h3, Nat.le_trans hmono h4, h5, h6, h7, h8⟩

/-- non-vacuity: twelve batches finding 0.95, 1.9, 2.85, … 11.4 MiB leave maps of 2, 3, 5, 5, 8, … 18 MiB,
every one a multiple of the 1 MiB chunk and of the 4096-byte page -/
example : (1048576 % 1048576 = 0 ∧ 1048576 ≤ (rinit 1048576 1048576).mapSize ∧ (rinit 1048576 1048576).pending = none) ∧
    ((List.range 12).map (fun i => (growRun (rinit 1048576 1048576)
      ((List.range (i + 1)).map (fun j => 996147 * (j + 1)))).mapSize / 1048576))
      = [2, 3, 5, 5, 8, 8, 8, 12, 12, 12, 12, 18] := by
  refine ⟨by decide, by decide⟩

/-! ## no operation fails for lack of space — also with fragmented free space -/

/-- A batch whose allocation requests (runs of contiguous pages: overflow pages of big values,
single pages of tree nodes) together fit behind the last used page succeeds — for EVERY
freelist, i.e. however the space freed by earlier deletes and overwrites is scattered; it moves
the last page by at most the sum of its requests. -/
theorem tail_fit_never_fails (s : Space) (reqs : List Nat) (h : s.lastPg + reqs.sum ≤ s.mapPages) :
    ∃ s', allocAll s reqs = some s' ∧ s'.mapPages = s.mapPages ∧ s'.lastPg ≤ s.lastPg + reqs.sum :=
  allocAll_ok reqs s h

/-- `Store::batch()` = `maybe_resize` then the write transaction.  With the map `needs_resize`
leaves (enlarged or not; thresholds as exact rationals), every batch that can allocate at most a
tenth of that map succeeds, whatever the freelist: the resize check measures the used space by
the LAST page (`env_size`), so fragmentation cannot make it late. -/
theorem no_space_failure_fragmented (mapSize chunk lastPg : Nat) (free : List Nat) (reqs : List Nat)
    (hc : 0 < chunk) (hm : chunk ≤ mapSize)
    (hreq : reqs.sum * PAGE_SIZE * 10 ≤ (needsResize mapSize (lastPg * PAGE_SIZE) chunk).2) :
    ∃ s', allocAll { mapPages := (needsResize mapSize (lastPg * PAGE_SIZE) chunk).2 / PAGE_SIZE,
                     lastPg := lastPg, free := free } reqs = some s' := by
  have hused : lastPg * PAGE_SIZE * 10 ≤ 9 * (needsResize mapSize (lastPg * PAGE_SIZE) chunk).2 := by
    cases hr : needsResize mapSize (lastPg * PAGE_SIZE) chunk with
    | mk b n =>
      cases b with
      | true =>
        have := (needs_resize_grows mapSize (lastPg * PAGE_SIZE) chunk n hc hr).2 hm
        simp only; omega
      | false =>
        unfold needsResize at hr
        simp only at hr
        by_cases hq : (decide (lastPg * PAGE_SIZE * 10 > 9 * mapSize) || decide (mapSize < chunk)) = true
        · simp only [hq, Bool.not_true, Bool.false_eq_true, if_false] at hr
          by_cases hlt : mapSize < chunk
          · omega
          · simp [hlt] at hr
        · simp only [hq, Bool.not_false, if_true, Prod.mk.injEq, true_and] at hr
          simp only [Bool.or_eq_true, decide_eq_true_eq, not_or, Nat.not_lt] at hq
          subst hr
          simp only; omega
  obtain ⟨s', h, _⟩ := allocAll_ok reqs
    { mapPages := (needsResize mapSize (lastPg * PAGE_SIZE) chunk).2 / PAGE_SIZE, lastPg := lastPg, free := free }
    (by
      simp only
      rw [Nat.le_div_iff_mul_le (by decide : 0 < PAGE_SIZE)]
      generalize (needsResize mapSize (lastPg * PAGE_SIZE) chunk).2 = new at *
      rw [Nat.add_mul]
      omega)
  exact ⟨s', h⟩

/-- the driver's check of a `kv space` line is an instance of `tail_fit_never_fails` -/
theorem spaceOk_sound (mapSize lastPg need chunk : Nat) (free : List Nat) (reqs : List Nat)
    (hok : spaceOk mapSize lastPg need chunk = true) (hneed : reqs.sum ≤ need) :
    ∃ s', allocAll { mapPages := (needsResize mapSize (lastPg * PAGE_SIZE) chunk).2 / PAGE_SIZE,
                     lastPg := lastPg + 1, free := free } reqs = some s' := by
  simp only [spaceOk, decide_eq_true_eq] at hok
  obtain ⟨s', h, _⟩ := allocAll_ok reqs
    { mapPages := (needsResize mapSize (lastPg * PAGE_SIZE) chunk).2 / PAGE_SIZE, lastPg := lastPg + 1, free := free }
    (by
      simp only
      rw [Nat.le_div_iff_mul_le (by decide : 0 < PAGE_SIZE)]
      generalize (needsResize mapSize (lastPg * PAGE_SIZE) chunk).2 = new at *
      have : (lastPg + 1 + reqs.sum) * PAGE_SIZE ≤ (lastPg + 1 + need) * PAGE_SIZE :=
        Nat.mul_le_mul_right _ (by omega)
      omega)
  exact ⟨s', h⟩

/-- why the used space has to be measured by the last page: six pages are free but scattered
(every other value deleted), a value of five pages cannot use them and fails when the tail is
shorter than five pages — and succeeds from the tail, with the same freelist, in a larger map -/
example : alloc { mapPages := 100, lastPg := 98, free := [10, 12, 14, 16, 18, 20] } 5 = none ∧
    alloc { mapPages := 200, lastPg := 98, free := [10, 12, 14, 16, 18, 20] } 5
      = some { mapPages := 200, lastPg := 103, free := [10, 12, 14, 16, 18, 20] } ∧
    alloc { mapPages := 100, lastPg := 98, free := [10, 30, 31, 32, 33, 34, 50] } 5
      = some { mapPages := 100, lastPg := 98, free := [10, 50] } := by decide

example : spaceOk 1048576 230 19 1048576 = true ∧ spaceOk 1048576 250 19 1048576 = true ∧
    spaceOk 1048576 200 60 1048576 = false := by decide

/-! ## gate shape: the wait of `enter_tx` and of the resizer as READ OFF THE SOURCE on every run

`Gen/KvGate.lean` is regenerated by `tools/gen_kvgate.py` from `store/src/lmdb.rs`.  The obligations
below are about the generated values: if the gate of the code gets a second way out (an error after
N seconds, a `break`, a `?`), a bound (`for`, `while`, a clock, a counter), a parameter, a site
that opens its LMDB transaction first or discards the counter, they no longer check - whether or
not any test waits long enough to notice.  The theorems after them have a shape as HYPOTHESIS and
are instantiated with the generated one. -/
section gateShape
open KvGate TxCount

/-- the extractor could read the source at all -/
theorem gate_source_was_read : Gen.KvGate.parseError = none := by decide

/-- `fn enter_tx(&self) -> TxCounter`: no parameter that could switch the gate off, a return type
that cannot carry a failure -/
theorem gate_returns_counter :
    Gen.KvGate.enterTx.ret = .txCounter ∧ Gen.KvGate.enterTx.params = 0 := by decide

/-- the wait of `enter_tx` has ONE way out: `return TxCounter { .. }` under
`!resizing || nested_tx` - no `return Err`, no `break`, no `?`, no panic -/
theorem gate_has_no_failure_exit :
    Gen.KvGate.enterTx.wait.exits = [{ kind := .pass, guard := [.notResizing, .threadNested] }] := by decide

/-- … it is a `loop { }` with nothing before or after it, it reads no clock and keeps no budget,
its only blocking call is the literal sleep, taken after the `ENV_MAP` guard is dropped -/
theorem gate_wait_is_unbounded :
    Gen.KvGate.enterTx.wait.loop = .forever ∧ Gen.KvGate.enterTx.wait.timeRefs = [] ∧
    Gen.KvGate.enterTx.wait.pre = 0 ∧ Gen.KvGate.enterTx.wait.post = [] ∧
    Gen.KvGate.enterTx.wait.otherWaits = 0 ∧ Gen.KvGate.enterTx.wait.sleepMs = [10] ∧
    Gen.KvGate.enterTx.wait.lockReleasedBeforeSleep = true := by decide

/-- all of it, plus: the passing branch counts the transaction globally and per thread, and the
only `unwrap`s are the two look-ups of the environment entry -/
theorem gate_shape_ok : Gen.KvGate.enterTx.Ok := by decide

/-- `maybe_resize`: flag first, deferred iff `open_txs_count() != 0`; the waiter is a `loop { }`
whose one way out is `break` under `txs_count == 0`, followed by `env.resize`, `resizing = false`,
`resize_checking = false`; no clock, no budget; `batch()` = `maybe_resize(); Batch::new(self)` -/
theorem waiter_shape_ok : Gen.KvGate.resize.Ok := by decide

/-- the functions that take the gate are exactly these four … -/
theorem gate_sites :
    Gen.KvGate.sites.map (·.name) = ["Store::get_ser", "Store::exists", "Store::iter", "Batch::new"] := by decide

/-- … each takes it BEFORE it opens its LMDB transaction … -/
theorem gate_before_txn : ∀ site ∈ Gen.KvGate.sites, site.gateBeforeTxn = true := by decide

/-- … unconditionally, once, without `?`, and keeps the counter -/
theorem gate_result_never_discarded : ∀ site ∈ Gen.KvGate.sites,
    site.gateCalls = 1 ∧ site.unconditional = true ∧ site.question = false ∧ site.held = true := by decide

theorem gate_sites_ok : ∀ site ∈ Gen.KvGate.sites, site.Ok := by decide

/-- LMDB transactions opened WITHOUT the gate exist only on the set-up path of `Store::new`
(database creation, migration) - recorded, see the level note -/
theorem ungated_txns_are_setup_only :
    Gen.KvGate.ungatedTxnFns =
      ["Store::new", "Store::migration_complete", "Store::migrate_to_default_env", "Store::clear"] := by decide

/-- What a wait of the demanded shape does, whatever the polls find (`ρs j` = the flags poll `j`
sees, `ends` = irrelevant for a `loop { }`):
* as long as a resize is pending and the thread holds nothing it keeps polling - for ANY number of
  polls, there is no bound;
* it passes at the FIRST poll that finds the flag cleared (or the thread nested);
* there is no third outcome: never an error, never the end of the loop; and it never passes while
  the flag is set and the thread holds nothing. -/
theorem pending_op_waits_then_proceeds (e : EnterShape) (he : e.Ok) (ρs : Nat → Env) (ends : Nat → Bool) :
    (∀ n i, (∀ j, i ≤ j → j < i + n → (ρs j).held) → pollRun e.wait ρs ends n i = .waiting) ∧
    (∀ m n i, (∀ j, i ≤ j → j < i + m → (ρs j).held) → ¬ (ρs (i + m)).held → m < n →
      pollRun e.wait ρs ends n i = .left (i + m) .pass) ∧
    (∀ n i, pollRun e.wait ρs ends n i = .waiting ∨
      ∃ j, i ≤ j ∧ pollRun e.wait ρs ends n i = .left j .pass ∧ ¬ (ρs j).held) := by
  obtain ⟨_, _, hl, hx, _⟩ := he
  refine ⟨?_, ?_, ?_⟩
  · intro n i h
    exact pollRun_single_waiting e.wait _ _ hl hx ρs ends n i (fun j h1 h2 => (guard_enter_false_iff _).2 (h j h1 h2))
  · intro m n i h ht hn
    refine pollRun_single_leaves e.wait _ _ hl hx ρs ends m n i
      (fun j h1 h2 => (guard_enter_false_iff _).2 (h j h1 h2)) ?_ hn
    cases hg : guardHolds (ρs (i + m)) [.notResizing, .threadNested]
    · exact absurd ((guard_enter_false_iff _).1 hg) ht
    · rfl
  · intro n i
    rcases pollRun_single_sound e.wait _ _ hl hx ρs ends n i with h | ⟨j, hj, h1, h2⟩
    · exact Or.inl h
    · refine Or.inr ⟨j, hj, h1, fun hh => ?_⟩
      rw [(guard_enter_false_iff _).2 hh] at h2
      cases h2

/-- non-vacuity, on the generated shape: pending for three polls, then released -/
example :
    pollRun Gen.KvGate.enterTx.wait
      (fun j => { resizing := decide (j < 3), nested := false, count := 3 - j, unknown := false }) (fun _ => true) 3 0 = .waiting ∧
    pollRun Gen.KvGate.enterTx.wait
      (fun j => { resizing := decide (j < 3), nested := false, count := 3 - j, unknown := false }) (fun _ => true) 9 0 = .left 3 .pass := by
  decide

/-- The waiter of the demanded shape goes on to `env.resize` exactly at the first poll that finds
`open_txs_count == 0`; as long as a transaction is open it keeps polling, however long; it has no
other way out (in particular it never resizes "anyway"). -/
theorem waiter_resizes_only_when_nothing_open (r : ResizeShape) (hr : r.Ok) (ρs : Nat → Env) (ends : Nat → Bool) :
    (∀ n i, (∀ j, i ≤ j → j < i + n → (ρs j).count ≠ 0) → pollRun r.waiter ρs ends n i = .waiting) ∧
    (∀ m n i, (∀ j, i ≤ j → j < i + m → (ρs j).count ≠ 0) → (ρs (i + m)).count = 0 → m < n →
      pollRun r.waiter ρs ends n i = .left (i + m) .breakOut) ∧
    (∀ n i, pollRun r.waiter ρs ends n i = .waiting ∨
      ∃ j, i ≤ j ∧ pollRun r.waiter ρs ends n i = .left j .breakOut ∧ (ρs j).count = 0) ∧
    r.waiter.post = [.resize, .clearResizing, .clearChecking] := by
  obtain ⟨_, _, hl, hx, _, _, hp, _⟩ := hr
  refine ⟨?_, ?_, ?_, hp⟩
  · intro n i h
    exact pollRun_single_waiting r.waiter _ _ hl hx ρs ends n i
      (fun j h1 h2 => by rw [guard_waiter]; simpa using h j h1 h2)
  · intro m n i h ht hn
    exact pollRun_single_leaves r.waiter _ _ hl hx ρs ends m n i
      (fun j h1 h2 => by rw [guard_waiter]; simpa using h j h1 h2) (by rw [guard_waiter]; simpa using ht) hn
  · intro n i
    rcases pollRun_single_sound r.waiter _ _ hl hx ρs ends n i with h | ⟨j, hj, h1, h2⟩
    · exact Or.inl h
    · exact Or.inr ⟨j, hj, h1, by rw [guard_waiter] at h2; simpa using h2⟩

/-- The transition systems of the other theorems ARE the gate of this shape: in `Model/TxCount.lean`
(`nested_depth_tracks_open`, `holder_never_waits`, `no_resize_while_read_in_flight`, C17's
`count_eq_open`) `enter t` is enabled iff one poll of the generated `enter_tx` loop finds its exit,
`resize` iff the flag is set and one poll of the generated waiter loop finds its exit; likewise
`enter` in the gate of `resize_gate_safe`. -/
theorem shape_is_the_modelled_gate :
    (∀ (s : TxCount.St) (t : Nat) (u : Bool), t < s.ths.length →
      (TxCount.enabled s (.enter t) = true ↔
        pollIter (envOf s t u) Gen.KvGate.enterTx.wait.exits = .exit .pass)) ∧
    (∀ (s : TxCount.St) (n u : Bool),
      (TxCount.enabled s .resize = true ↔
        (s.resizing = true ∧
          pollIter { resizing := s.resizing, nested := n, count := s.counter, unknown := u }
            Gen.KvGate.resize.waiter.exits = .exit .breakOut))) ∧
    (∀ (g : Gate) (t : Nat) (u : Bool), t < g.cnt.length →
      (gateEnabled g (.enter t) = true ↔
        pollIter { resizing := g.resizing, nested := decide (cntOf t g.cnt > 0), count := g.openTxs, unknown := u }
          Gen.KvGate.enterTx.wait.exits = .exit .pass)) := by
  have h1 : Gen.KvGate.enterTx.wait.exits = enterExits := by decide
  have h2 : Gen.KvGate.resize.waiter.exits = waiterExits := by decide
  rw [h1, h2]
  exact ⟨txcount_enter_is_poll, txcount_resize_is_poll, kvgate_enter_is_poll⟩

/-- The resize protocol model of `Model/KvResize.lean` (`resize_guard_released`,
`postponed_resize_happens`, `unbounded_growth_stays_aligned_and_sufficient`, the `rz-batch` lines
of the driver) IS `maybe_resize` / the waiter read through the generated shape: the branch on open
transactions, what the waiter does when its loop lets it go, what the immediate branch does. -/
theorem resize_model_is_the_shape :
    (∀ e : REnv, waiterStepOf Gen.KvGate.resize e = waiterStep e) ∧
    (∀ (e : REnv) (used : Nat), maybeResizeOf Gen.KvGate.resize e used = maybeResize e used) :=
  ⟨waiterStepOf_eq _ waiter_shape_ok, maybeResizeOf_eq _ waiter_shape_ok⟩

/-- non-vacuity: the deferred and the released step on the generated shape -/
example : (maybeResizeOf Gen.KvGate.resize { rinit 1048576 1048576 with openTxs := 1 } 1000000).2 = .deferred 2097152 ∧
    (waiterStepOf Gen.KvGate.resize
      { (maybeResizeOf Gen.KvGate.resize { rinit 1048576 1048576 with openTxs := 1 } 1000000).1 with openTxs := 0 }).mapSize
      = 2097152 := by decide

theorem opensFrom_no_enter (x : Nat) : ∀ (acts : List Act), (∀ a ∈ acts, a ≠ Act.enter x) → opensFrom x 0 acts = 0
  | [], _ => rfl
  | a :: r, h => by
    have ih := opensFrom_no_enter x r (fun b hb => h b (by simp [hb]))
    cases a with
    | enter u =>
      have hu : u ≠ x := fun e => h (.enter u) (by simp) (by rw [e])
      simp [opensFrom, hu, ih]
    | leave u => by_cases hu : u = x <;> simp [opensFrom, hu, ih]
    | _ => simp [opensFrom, ih]

/-- **Operations that arrive while a resize is pending wait and then succeed, however long the
transaction that defers the resize lives.**  Hypothesis: a gate shape with the demanded properties
(`he`; discharged for the code by `gate_shape_ok`, see the corollary).  `s` is any state of the
counter protocol reached by the atomic alphabet in which a resize is pending; thread `x` holds
nothing and issues a plain-store read whose sequential answer is `sget kv k` (the committed value -
`store_iter_correct`, `invisible_until_outer_commit` say what that is).
1. Whatever the other threads do in between - any number of further operations of the holders,
   nested or not, polls seeing the states after ANY valid schedules without the resize itself and
   without an enter of `x` - the operation is still blocked after ANY number of polls; it has not
   failed.
2. Nothing but the holders' own leaves is needed for the resize to run; after it the operation
   returns the sequential answer at its next poll.
3. Whatever the polls find, the operation never returns an error. -/
theorem op_during_pending_resize_returns_spec (e : EnterShape) (he : e.Ok)
    (threads : Nat) (acts : List Act) (s : TxCount.St)
    (hat : ∀ a ∈ acts, a.atomic = true) (hrun : runChecked (TxCount.init threads) acts = some s)
    (hres : s.resizing = true) (x : Nat) (hout : depth s x = 0) (kv : Kv.St) (k : Key) :
    (∀ (mids : Nat → List Act) (ss : Nat → TxCount.St),
      (∀ j, runChecked s (mids j) = some (ss j) ∧ (∀ a ∈ mids j, a.atomic = true) ∧
        (∀ a ∈ mids j, a ≠ .resize) ∧ (∀ a ∈ mids j, a ≠ .enter x)) →
      ∀ (u : Bool) (ends : Nat → Bool) (n : Nat),
        storeOp e (fun j => envOf (ss j) x u) ends n (sget kv k) = .blocked) ∧
    (∃ (closing : List Act) (s₂ : TxCount.St), (∀ a ∈ closing, ∃ t, a = Act.leave t) ∧
      runChecked s (closing ++ [.resize]) = some s₂ ∧ s₂.resizing = false ∧ s₂.resizes = s.resizes + 1 ∧
      s₂.counter = 0 ∧
      ∀ (u : Bool) (ends : Nat → Bool) (n : Nat), 0 < n →
        storeOp e (fun _ => envOf s₂ x u) ends n (sget kv k) = .ok (sget kv k)) ∧
    (∀ (ρs : Nat → Env) (ends : Nat → Bool) (n : Nat), storeOp e ρs ends n (sget kv k) ≠ .err) := by
  have hp := pending_op_waits_then_proceeds e he
  refine ⟨?_, ?_, ?_⟩
  · intro mids ss h u ends n
    have hheld : ∀ j, (envOf (ss j) x u).held := by
      intro j
      obtain ⟨h1, h2, h3, h4⟩ := h j
      have hr := resizing_kept (mids j) s (ss j) h1 hres h3
      have hd : depth (ss j) x = 0 := by
        rw [depth_run (mids j) s (ss j) x h2 h1, hout]
        exact opensFrom_no_enter x (mids j) h4
      exact ⟨hr, by simp [envOf, hd]⟩
    have := (hp (fun j => envOf (ss j) x u) ends).1 n 0 (fun j _ _ => hheld j)
    simp [storeOp, this]
  · have inv := inv_run acts _ s (inv_init threads) hat hrun
    obtain ⟨closing, s₁, h1, h2, h3, h4, h5, _, _⟩ := holders_can_close s.counter s inv rfl
    have hen : enabled s₁ .resize = true := by simp [enabled, h3, h4, hres]
    refine ⟨closing, TxCount.step s₁ .resize, h1, ?_, by simp [TxCount.step], by simp [TxCount.step, h5],
      by simp [TxCount.step, h3], ?_⟩
    · rw [runChecked_append, h2]
      simp [runChecked, hen]
    · intro u ends n hn
      have hnh : ¬ (envOf (TxCount.step s₁ .resize) x u).held := by
        intro hh
        have := hh.1
        simp [envOf, TxCount.step] at this
      have := (hp (fun _ => envOf (TxCount.step s₁ .resize) x u) ends).2.1 0 n 0
        (fun j h1 h2 => absurd h2 (by omega)) hnh hn
      simp [storeOp, this]
  · intro ρs ends n
    rcases (hp ρs ends).2.2 n 0 with h | ⟨j, _, h, _⟩ <;> simp [storeOp, h]

/-- … for the gate of the code: the hypothesis is discharged by the table regenerated from
`store/src/lmdb.rs` -/
theorem code_op_during_pending_resize_returns_spec
    (threads : Nat) (acts : List Act) (s : TxCount.St)
    (hat : ∀ a ∈ acts, a.atomic = true) (hrun : runChecked (TxCount.init threads) acts = some s)
    (hres : s.resizing = true) (x : Nat) (hout : depth s x = 0) (kv : Kv.St) (k : Key) :
    (∀ (mids : Nat → List Act) (ss : Nat → TxCount.St),
      (∀ j, runChecked s (mids j) = some (ss j) ∧ (∀ a ∈ mids j, a.atomic = true) ∧
        (∀ a ∈ mids j, a ≠ .resize) ∧ (∀ a ∈ mids j, a ≠ .enter x)) →
      ∀ (u : Bool) (ends : Nat → Bool) (n : Nat),
        storeOp Gen.KvGate.enterTx (fun j => envOf (ss j) x u) ends n (sget kv k) = .blocked) ∧
    (∃ (closing : List Act) (s₂ : TxCount.St), (∀ a ∈ closing, ∃ t, a = Act.leave t) ∧
      runChecked s (closing ++ [.resize]) = some s₂ ∧ s₂.resizing = false ∧ s₂.resizes = s.resizes + 1 ∧
      s₂.counter = 0 ∧
      ∀ (u : Bool) (ends : Nat → Bool) (n : Nat), 0 < n →
        storeOp Gen.KvGate.enterTx (fun _ => envOf s₂ x u) ends n (sget kv k) = .ok (sget kv k)) ∧
    (∀ (ρs : Nat → Env) (ends : Nat → Bool) (n : Nat),
      storeOp Gen.KvGate.enterTx ρs ends n (sget kv k) ≠ .err) :=
  op_during_pending_resize_returns_spec Gen.KvGate.enterTx gate_shape_ok threads acts s hat hrun hres x hout kv k

/-- non-vacuity of the hypotheses (the schedule of run `slowreader`): thread 0 holds an iterator,
thread 1's `batch()` requests the resize, thread 2 holds nothing -/
example : ∃ s, runChecked (TxCount.init 3) [.enter 0, .request] = some s ∧ s.resizing = true ∧ depth s 2 = 0 ∧
    (∀ a ∈ [Act.enter 0, Act.request], a.atomic = true) ∧
    runChecked s ([.enter 0, .leave 0, .enter 0, .leave 0, .leave 0] ++ [.resize]) =
      some { counter := 0, resizing := false, resizes := 1, ths := [{}, {}, {}] } :=
  ⟨_, rfl, rfl, rfl, by decide, by decide⟩

/-- The driver's answer for the lines `kv gate-op` / `kv gate-wait` of run `slowreader` (one
evaluation of the gate of the generated shape: the flags as issued, then as after the release):
every operation returns its sequential answer; it waited iff a resize was pending and the thread
held nothing. -/
theorem gate_op_outcome_spec (nested pending : Bool) :
    (gateOpOutcome Gen.KvGate.enterTx.wait.exits nested pending).1 = "ok" ∧
    ((gateOpOutcome Gen.KvGate.enterTx.wait.exits nested pending).2 = "blocked" ↔ (pending = true ∧ nested = false)) ∧
    gateOpOutcome Gen.KvGate.enterTx.wait.exits nested pending = gateOpOutcome enterExits nested pending := by
  cases nested <;> cases pending <;> decide

/-- Sites of the demanded shape keep every LMDB transaction inside its counter: after ANY
interleaving of ANY number of threads, each running operations of such sites one after the other
(a step of thread `t` takes the next action of its current operation, or starts the given one when
idle), the transactions alive are at most the counters alive - so when the resizer reads
`open_txs_count == 0` (the counter is the sum of the threads' counters,
`nested_depth_tracks_open`) NO LMDB transaction is alive and `env.resize` is legal. -/
theorem gated_txns_are_counted (sites : List Site) (hs : ∀ site ∈ sites, site.Ok) (threads : Nat)
    (sched : List (Nat × List LAct)) (hsched : ∀ x ∈ sched, ∃ site ∈ sites, x.2 = site.prog) :
    let ths := lrun (List.replicate threads {}) sched
    liveSum ths ≤ countedSum ths ∧ (countedSum ths = 0 → liveSum ths = 0) := by
  intro ths
  have h : LInv ths := linv_run sched _ (linv_init threads) (by
    intro x hx s hle
    obtain ⟨site, hm, hp⟩ := hsched x hx
    rw [hp]
    exact site_prog_covered site (hs site hm) s hle)
  have := sums_of_linv ths h
  exact ⟨this, fun h0 => by omega⟩

/-- … for the sites of the code -/
theorem code_gated_txns_are_counted (threads : Nat) (sched : List (Nat × List LAct))
    (hsched : ∀ x ∈ sched, ∃ site ∈ Gen.KvGate.sites, x.2 = site.prog) :
    let ths := lrun (List.replicate threads {}) sched
    liveSum ths ≤ countedSum ths ∧ (countedSum ths = 0 → liveSum ths = 0) :=
  gated_txns_are_counted Gen.KvGate.sites gate_sites_ok threads sched hsched

/-- non-vacuity: two threads inside `Store::iter` and `Batch::new` of the generated table -/
example : lrun (List.replicate 2 {}) [(0, [.gate, .txnBegin, .txnEnd, .ungate]), (1, [.gate, .txnBegin, .txnEnd, .ungate]),
      (0, []), (1, [])] =
    [{ st := { counted := 1, live := 1 }, todo := [.txnEnd, .ungate] },
     { st := { counted := 1, live := 1 }, todo := [.txnEnd, .ungate] }] ∧
    (Gen.KvGate.sites.map (·.prog)).all (· == [.gate, .txnBegin, .txnEnd, .ungate]) = true := by decide

/-- Kernel-checked witnesses of what the obligations exclude.
(a) a wait with a second exit `return Err(..)` under a condition the gate does not control (a
    clock): an operation issued while a resize is pending FAILS as soon as that condition holds,
    although the resize would have come;
(b) a guard with a third disjunct (a mode flag, a retry count): the operation passes while the flag
    is set and the thread holds nothing;
(c) a site that opens its transaction first: an LMDB transaction is alive while every counter is 0,
    i.e. while the resizer believes nothing is open (`mdb_env_set_mapsize` then answers `EINVAL` and
    the map silently stays as it is - seeded change C18-M). -/
theorem excluded_shapes_witness :
    (storeOp boundedWaitShape (fun j => { resizing := true, nested := false, count := 1, unknown := decide (j ≥ 5) })
       (fun _ => false) 6 (some [1]) = OpRes.err (α := Option Val) ∧
     storeOp boundedWaitShape (fun j => { resizing := true, nested := false, count := 1, unknown := decide (j ≥ 5) })
       (fun _ => false) 5 (some [1]) = OpRes.blocked (α := Option Val) ∧
     boundedWaitShape.wait.exits = Gen.KvGate.enterTx.wait.exits ++ [{ kind := .err, guard := [.other] }]) ∧
    (pollIter { resizing := true, nested := false, count := 1, unknown := true }
        [{ kind := .pass, guard := [.notResizing, .threadNested, .other] }] = .exit .pass) ∧
    (countedSum (lrun [{}] [(0, swappedSite.prog)]) = 0 ∧ liveSum (lrun [{}] [(0, swappedSite.prog)]) = 1 ∧
      swappedSite.gateBeforeTxn = false) := by
  refine ⟨?_, by decide, by decide⟩
  decide

end gateShape

/-! ## the typed layer `chain/src/store.rs` (`ChainStore`, its `Batch`) -/
section typed
open ChainStore

/-- Every typed getter of `chain::store::Batch` / `ChainStore` is a `get_ser` of the batch /
a fresh-transaction `get_ser` of the store at the key determined by the object asked for; every
typed saver / deleter is a fixed sequence of puts / deletes at such keys; a typed batch body
(typed operations, child batches committed or dropped, any nesting depth) performs exactly the
store-level operations of the store-level body `p.lower`; and different typed objects never
share a `(database, key)`.  Hence the typed layer inherits every theorem above (instances
below). -/
theorem typed_getters_refine_kv :
    (∀ st k, getB st k = ofOpt (bget st k.key)) ∧
    (∀ st k, getS st k = ofOpt (sget st k.key)) ∧
    (∀ st h, blockExistsB st h = bexists st (TKey.block h).key ∧ blockExistsS st h = sexists st (TKey.block h).key) ∧
    (∀ st, headHeaderB st = headHeaderWith (bget st) ∧ headHeaderS st = headHeaderWith (sget st)) ∧
    (∀ st o, tstep st o = run st o.lower) ∧
    (∀ o : TOp, ∀ op ∈ o.lower, (∃ k v, op = Op.put k v) ∨ (∃ k, op = Op.del k)) ∧
    (∀ p : TProg, p.lower.flat = p.flat) ∧
    (∀ p c, ttxn p c = txn p.lower c) ∧
    (∀ a b : TKey, a.key = b.key → a = b) := by
  refine ⟨fun _ _ => rfl, fun _ _ => rfl, fun _ _ => ⟨rfl, rfl⟩, fun _ => ⟨rfl, rfl⟩, fun _ _ => rfl, ?_,
    flat_lower, ttxn_eq, tkey_injective⟩
  intro o op hop
  cases o with
  | save k v => simp [TOp.lower] at hop; simp [hop]
  | deleteBlock hsh => simp [TOp.lower] at hop; rcases hop with h | h | h <;> simp [h]
  | deleteOutPos c => simp [TOp.lower] at hop; simp [hop]
  | deleteRaw k => simp [TOp.lower] at hop; simp [hop]

/-- A typed save in the innermost open batch (any depth) is read back by the matching typed
getter of that batch, and changes the answer of NO other typed getter (no aliasing between
headers, blocks, sums, spent indices, output positions and the four head keys). -/
theorem typed_read_your_save (st : St) (k k' : TKey) (v : Val) (h : st.stack ≠ []) :
    getB (tstep st (.save k v)) k' = if k = k' then .val v else getB st k' := by
  simp only [getB, tstep, TOp.lower, run, List.foldl]
  rw [bget_put st _ _ _ h]
  by_cases hk : k = k'
  · simp [hk, ofOpt]
  · have : k.key ≠ k'.key := fun he => hk (tkey_injective _ _ he)
    simp [hk, this]

/-- `delete_block(h)` removes the block, its sums and its spent index from the batch's view and
nothing else (in particular not the header of `h`). -/
theorem typed_delete_block (st : St) (hsh : Bytes) (k : TKey) (h : st.stack ≠ []) :
    getB (tstep st (.deleteBlock hsh)) k =
      if k = .block hsh ∨ k = .sums hsh ∨ k = .spent hsh then .notFound else getB st k := by
  simp only [getB, tstep, TOp.lower, run, List.foldl]
  rw [bget_del _ _ _ (stack_del _ _ (stack_del _ _ h)), bget_del _ _ _ (stack_del _ _ h), bget_del _ _ _ h]
  by_cases h1 : k = .block hsh
  · simp [h1, TKey.key, ofOpt]
  · by_cases h2 : k = .sums hsh
    · simp [h2, TKey.key, ofOpt]
    · by_cases h3 : k = .spent hsh
      · simp [h3, TKey.key, ofOpt]
      · have e1 : (TKey.block hsh).key ≠ k.key := fun he => h1 (tkey_injective _ _ he).symm
        have e2 : (TKey.sums hsh).key ≠ k.key := fun he => h2 (tkey_injective _ _ he).symm
        have e3 : (TKey.spent hsh).key ≠ k.key := fun he => h3 (tkey_injective _ _ he).symm
        simp [h1, h2, h3, e1, e2, e3]

/-- Typed isolation: at every point of a `ChainStore::batch()` with typed body `p` before its
final commit / drop (every prefix of `begin; p`), every typed getter of the plain `ChainStore`
(any thread) answers as before the batch began — saves, deletes, child batches, child commits
and drops at any depth notwithstanding. -/
theorem typed_isolation (p : TProg) (st : St) (h : st.stack = []) (ops₁ ops₂ : List Op)
    (hsplit : Op.begin :: p.flat = ops₁ ++ ops₂) :
    (∀ k, getS (run st ops₁) k = getS st k) ∧
    (∀ hsh, blockExistsS (run st ops₁) hsh = blockExistsS st hsh) ∧
    headHeaderS (run st ops₁) = headHeaderS st := by
  have hc := isolation p.lower st h ops₁ ops₂ (by rw [flat_lower]; exact hsplit)
  have hs : ∀ k, sget (run st ops₁) k = sget st k := fun k => by simp [sget, hc]
  refine ⟨fun k => by simp [getS, hs], fun hsh => by simp [blockExistsS, sexists, hs], ?_⟩
  have : sget (run st ops₁) = sget st := funext hs
  simp [headHeaderS, this]

/-- Typed atomic publication: the outermost commit of a typed batch replaces the committed map
`m` by the textbook meaning of its store-level body applied to `m`, in one step; a dropped typed
batch — whatever it and its children did — leaves the exact previous state. -/
theorem typed_commit_and_drop (p : TProg) (st : St) (h : st.stack = []) :
    den (run st (ttxn p true)).committed = p.lower.sem (den st.committed) ∧
    (run st (ttxn p true)).stack = [] ∧
    run st (ttxn p false) = st := by
  rw [ttxn_eq, ttxn_eq]
  exact ⟨(commit_publishes_all p.lower st h).1, (commit_publishes_all p.lower st h).2,
    dropped_batch_no_trace p.lower st h⟩

/-- non-vacuity: save a header and the head pointing to it in a child batch that commits, the
parent's `head_header` finds it; a sibling child that deletes the block is dropped; after the
outermost commit the plain store sees header, head and block -/
example :
    let hh : Bytes := List.replicate 32 7
    let tip : Val := List.replicate 8 0 ++ hh ++ List.replicate 40 0
    let p : TProg := .op (.save (.block hh) [1, 2, 3])
      (.child (.op (.save (.header hh) [9, 9]) (.op (.save .head tip) .done)) true
        (.child (.op (.deleteBlock hh) .done) false .done))
    let st := run {} (ttxn p true)
    headHeaderS st = .val [9, 9] ∧ getS st (.block hh) = .val [1, 2, 3] ∧ blockExistsS st hh = true ∧
    headHeaderS (run {} (ttxn p false)) = .notFound := by decide

end typed

end GV.Props.C18
