import GrinVerif.Model.Crash
import GrinVerif.Lemmas.CrashBasic
/-! # C09 — a crash at any persistence step never bricks or corrupts the chain

Theorems about the crash model (`Model/Crash.lean`). The property is FALSE of the unchanged
code in three windows (and the model, which agrees with the real node on every enumerated crash
point, says so): the negations are proved here with concrete kernel-checked witnesses; the
positive statements are proved for the steps where recovery works. -/
namespace GV.Props.C09
open GV GV.Crash

/-! A concrete chain used as witness: genesis b0 creates o0; b1 creates o1 (coinbase) ; …;
heights ≥ 6 commit to the bitmap. Block b8 spends o6 (created by b6). -/
def blk (i : Nat) (ins : List Nat) : BlkInfo :=
  { id := i, parent := if i = 0 then none else some (i - 1), work := i + 1, outs := [i], ins := ins }

def tbl9 : List BlkInfo := [blk 0 [], blk 1 [], blk 2 [], blk 3 [], blk 4 [], blk 5 [], blk 6 [], blk 7 [], blk 8 [6]]
def old8 : List BlkInfo := tbl9.take 8
def tgt9 : Target := { newPath := tbl9, forkLen := 8, movesHHead := true, movesHead := true }
def bc (h : Nat) : Bool := decide (h ≥ 6)

/-- sanity: an uninterrupted acceptance recovers to the new head, no crash recovers to the old -/
theorem witness_uninterrupted :
    recover bc tbl9 (crashAfter tgt9 (consistent old8) blockSteps blockSteps.length) = .ok 8 ∧
    recover bc tbl9 (crashAfter tgt9 (consistent old8) blockSteps 0) = .ok 7 := by decide

/-- **Negation (txhashset window).** Killing the process after the output leaf set of a block that
spends an output has been renamed into place, and before the final LMDB commit, makes the node
reopen on neither the old nor the new head: the fallback loop walks back to the parent of the
block that created the spent output (here b5, two blocks below the old head b7). -/
theorem txhashset_window_violates :
    recover bc tbl9 (crashAfter tgt9 (consistent old8) blockSteps 12) = .ok 5 ∧
    (∀ k, 12 ≤ k → k < 17 → recover bc tbl9 (crashAfter tgt9 (consistent old8) blockSteps k) = .ok 5) := by
  refine ⟨by decide, ?_⟩
  intro k h1 h2
  have : k = 12 ∨ k = 13 ∨ k = 14 ∨ k = 15 ∨ k = 16 := by omega
  rcases this with rfl | rfl | rfl | rfl | rfl <;> decide

/-- **Negation (header MMR torn).** Killing the process after the header hash file was appended
and before the header data file was, leaves a header MMR whose head hash cannot be read:
`Chain::init` fails and the node does not open. -/
theorem header_torn_bricks :
    recover bc tbl9 (crashAfter tgt9 (consistent old8) blockSteps 3) = .openFail .other ∧
    recover bc tbl9 (crashAfter tgt9 (consistent old8) blockSteps 4) = .openFail .other := by decide

/-- a header-only reorganisation: header b9 on b5 with more work than the header head b7 -/
def tblFork : List BlkInfo := old8 ++ [{ id := 9, parent := some 5, work := 20, outs := [9], ins := [] }]
def tgtFork : Target :=
  { newPath := tblFork.take 6 ++ [{ id := 9, parent := some 5, work := 20, outs := [9], ins := [] }],
    forkLen := 6, movesHHead := true, movesHead := false }

/-- **Negation (header reorg window).** During a header reorganisation the header MMR is rewound
and re-extended on disk before the LMDB commit that moves `header_head`; a process death anywhere
in between leaves the MMR on the new fork and `header_head` on the old one: `init_head` reports
"header PMMR inconsistent" and the node does not open. -/
theorem header_reorg_window_bricks :
    ∀ k, 2 ≤ k → k < 6 → recover bc tblFork (crashAfter tgtFork (consistent old8) headerSteps k) = .openFail .other := by
  intro k h1 h2
  have : k = 2 ∨ k = 3 ∨ k = 4 ∨ k = 5 := by omega
  rcases this with rfl | rfl | rfl | rfl <;> decide

/-- … while the completed header acceptance, and a death before the first file step, reopen fine -/
theorem header_reorg_ends_ok :
    recover bc tblFork (crashAfter tgtFork (consistent old8) headerSteps 6) = .ok 7 ∧
    recover bc tblFork (crashAfter tgtFork (consistent old8) headerSteps 1) = .ok 7 := by decide

/-- **Safe prefix, witness chain.** Every crash point of the block acceptance before the header
data append window and, in the txhashset phase, before the leaf-set rename recovers to the old
head (appended-but-uncommitted hash/data entries are truncated away by the rewind). -/
theorem safe_prefix_witness :
    ∀ k, (k ≤ 2 ∨ (5 ≤ k ∧ k ≤ 11)) → recover bc tbl9 (crashAfter tgt9 (consistent old8) blockSteps k) = .ok 7 := by
  intro k h
  have : k = 0 ∨ k = 1 ∨ k = 2 ∨ k = 5 ∨ k = 6 ∨ k = 7 ∨ k = 8 ∨ k = 9 ∨ k = 10 ∨ k = 11 := by omega
  rcases this with rfl | rfl | rfl | rfl | rfl | rfl | rfl | rfl | rfl | rfl <;> decide

/-! ### General statements (all chains) -/

/-- The header part of recovery depends only on the header files and `header_head`: whenever the
hash file and the data file of the header MMR disagree in length, the node does not open —
for every chain and every other content of the durable state. -/
theorem header_len_mismatch_bricks (bcf : Nat → Bool) (tbl : List BlkInfo) (d : Durable)
    (h : d.hdrHash.length ≠ d.hdrData.length) : recover bcf tbl d = .openFail .other := by
  unfold recover
  simp [h]

/-- Steps that only touch the txhashset files or the final commit never change what the header
check of recovery sees. -/
theorem tx_steps_keep_header_files (t : Target) (d : Durable) (s : Step)
    (hs : s = .childCommit ∨ s = .outHashTrunc ∨ s = .outHashApp ∨ s = .outDataTrunc ∨ s = .outDataApp ∨
          s = .leafRename ∨ s = .kerHashTrunc ∨ s = .kerHashApp ∨ s = .kerDataTrunc ∨ s = .kerDataApp) :
    (applyStep t d s).hdrHash = d.hdrHash ∧ (applyStep t d s).hdrData = d.hdrData ∧
    (applyStep t d s).dbHHead = d.dbHHead ∧ (applyStep t d s).dbHead = d.dbHead := by
  rcases hs with h | h | h | h | h | h | h | h | h | h <;> subst h <;> simp [applyStep]

/-- Only the two LMDB commits move `head` / `header_head`: no file step publishes a new head. -/
theorem only_commits_move_heads (t : Target) (d : Durable) (s : Step)
    (h1 : s ≠ .hdrCommit) (h2 : s ≠ .finalCommit) :
    (applyStep t d s).dbHead = d.dbHead ∧ (applyStep t d s).dbHHead = d.dbHHead := by
  cases s <;> simp_all [applyStep]

/-- **Every chain: a cleanly stopped node reopens on its head.** For any block table and any stored
path (genesis first) ending in `tip`, the consistent durable state of that path — head and
header head = `tip`, every MMR file holding exactly the path's entries, leaf set = replayed
unspent set — is recovered by `Chain::init`'s model as `ok tip`: the header-MMR check passes and
the fallback loop stops at its first candidate. (No bound on the chain's length or shape.) -/
theorem recover_consistent (bcf : Nat → Bool) (tbl : List BlkInfo) (path : List BlkInfo) (tip : Nat)
    (hp : pathOf tbl (tbl.length + 1) tip [] = some path)
    (htip : (path.getLast?.map (·.id)).getD 0 = tip) :
    recover bcf tbl (consistent path) = .ok tip := by
  unfold recover
  have hd : (consistent path).dbHHead = tip := by simp [consistent, htip]
  have hh : (consistent path).dbHead = tip := by simp [consistent, htip]
  have e1 : (consistent path).hdrHash.length = (consistent path).hdrData.length := by simp [consistent]
  have e2 : (consistent path).hdrData = path.map (·.id) := by simp [consistent]
  rw [if_neg (by simpa using e1), hd, hp]
  have t : List.take path.length (List.map (fun x => x.id) path) = List.map (fun x => x.id) path := by
    rw [← List.length_map (f := fun (x : BlkInfo) => x.id)]; exact List.take_length
  simp only [e2, t, ne_eq, not_true_eq_false, if_false, hh]
  unfold fallback
  simp only [hp]
  split
  · rfl
  · simp [validAt_consistent]

-- non-vacuity: the 8-block prefix of the witness chain
example : recover bc tbl9 (consistent old8) = .ok 7 :=
  recover_consistent bc tbl9 old8 7 (by decide) (by decide)

end GV.Props.C09
